/-
  Serialisation shared by the line-protocol driver components.
  Position:  `size wS wC bS bC ply board`   board = squares joined by ',' (flat index
             order), each square a string of piece letters top first, `_` = empty,
             a board with no squares is `.`
             piece letters: a b c = white flat/standing/cap, d e f = black flat/standing/cap
  Move:      `x y t slides`   t = 1..7 (the Python enum value), slides = `none` | `-` | `d,d,…`
-/
import TakVerif.Model.Core

namespace Tak.Ser

def pieceOfChar : Char → Option Piece
  | 'a' => some ⟨.white, .flat⟩
  | 'b' => some ⟨.white, .standing⟩
  | 'c' => some ⟨.white, .cap⟩
  | 'd' => some ⟨.black, .flat⟩
  | 'e' => some ⟨.black, .standing⟩
  | 'f' => some ⟨.black, .cap⟩
  | _ => none

def charOfPiece : Piece → Char
  | ⟨.white, .flat⟩ => 'a'
  | ⟨.white, .standing⟩ => 'b'
  | ⟨.white, .cap⟩ => 'c'
  | ⟨.black, .flat⟩ => 'd'
  | ⟨.black, .standing⟩ => 'e'
  | ⟨.black, .cap⟩ => 'f'

def parseStack (s : String) : Option Stack :=
  if s = "_" then some [] else s.toList.mapM pieceOfChar

def showStack (s : Stack) : String :=
  if s.isEmpty then "_" else String.ofList (s.map charOfPiece)

def parseBoard (s : String) : Option (List Stack) :=
  if s = "." then some [] else (s.splitOn ",").mapM parseStack

def showBoard (b : List Stack) : String :=
  if b.isEmpty then "." else ",".intercalate (b.map showStack)

/-- parse 7 tokens -/
def parsePos : List String → Option Pos
  | [n, ws, wc, bs, bc, ply, b] => do
    let n ← n.toNat?
    let ws ← ws.toInt?
    let wc ← wc.toInt?
    let bs ← bs.toInt?
    let bc ← bc.toInt?
    let ply ← ply.toInt?
    let b ← parseBoard b
    pure ⟨n, ws, wc, bs, bc, ply, b⟩
  | _ => none

def showPos (p : Pos) : String :=
  s!"{p.size} {p.wStones} {p.wCaps} {p.bStones} {p.bCaps} {p.ply} {showBoard p.board}"

def moveTypeOfNat : Nat → Option MoveType
  | 1 => some .placeFlat | 2 => some .placeStanding | 3 => some .placeCap
  | 4 => some .left | 5 => some .right | 6 => some .up | 7 => some .down
  | _ => none

def natOfMoveType : MoveType → Nat
  | .placeFlat => 1 | .placeStanding => 2 | .placeCap => 3
  | .left => 4 | .right => 5 | .up => 6 | .down => 7

def parseSlides (s : String) : Option (Option (List Int)) :=
  if s = "none" then some none
  else if s = "-" then some (some [])
  else do
    let ds ← (s.splitOn ",").mapM String.toInt?
    pure (some ds)

def showSlides : Option (List Int) → String
  | none => "none"
  | some [] => "-"
  | some ds => ",".intercalate (ds.map toString)

/-- parse 4 tokens -/
def parseMove : List String → Option Move
  | [x, y, t, s] => do
    let x ← x.toInt?
    let y ← y.toInt?
    let t ← t.toNat?
    let t ← moveTypeOfNat t
    let s ← parseSlides s
    pure ⟨x, y, t, s⟩
  | _ => none

def showMove (m : Move) : String :=
  s!"{m.x} {m.y} {natOfMoveType m.type} {showSlides m.slides}"

def showErr : Err → String
  | .illegal => "illegal"
  | .crash c => s!"crash {c}"

def showColor : Color → String
  | .white => "W"
  | .black => "B"

def showOptColor : Option Color → String
  | none => "N"
  | some c => showColor c

end Tak.Ser

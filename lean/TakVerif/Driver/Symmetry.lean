/- driver component `symmetry`: the model of python/tak/symmetry/symmetry.py and the decidable
   predicates of C15 evaluated on implementation data -/
import TakVerif.Driver.Ser
import TakVerif.Model.Symmetry

namespace Tak.Driver.Symmetry
open Tak.Ser Tak.Sym

def showMat (m : Mat3) : String := ",".intercalate (m.toList.map toString)

def parseMat (s : String) : Option Mat3 := do
  let xs ← (s.splitOn ",").mapM String.toInt?
  match xs with
  | [a, b, c, d, e, f, g, h, i] => some ⟨a, b, c, d, e, f, g, h, i⟩
  | _ => none

def symAt (k : String) : Option Mat3 := do
  let k ← k.toNat?
  SYMS[k]?

def indexOf (m : Mat3) : String :=
  match SYMS.findIdx? (· == m) with
  | some k => toString k
  | none => "?"

/-- groups of 8 tokens: a matrix and a position -/
def parsePairs : List String → Option (List (Mat3 × Pos))
  | [] => some []
  | m :: rest => do
    let m ← parseMat m
    let p ← parsePos (rest.take 7)
    let tl ← parsePairs (rest.drop 7)
    pure ((m, p) :: tl)
termination_by l => l.length
decreasing_by simp only [List.length_drop, List.length_cons]; omega

/-- the decidable part of `C15_group` evaluated on a list of matrices: eight, pairwise
    distinct, identity present, closed under product and inverse, and the same set as the
    eight isometries of the square (`SYMS`) -/
def isGroup (l : List Mat3) : Bool :=
  l.length == 8 && decide l.Nodup && l.contains Mat3.ident &&
  l.all (fun a => l.all fun b => l.contains (Mat3.mul a b)) &&
  l.all (fun a => l.any fun b => Mat3.mul a b == Mat3.ident && Mat3.mul b a == Mat3.ident) &&
  l.all (fun a => SYMS.contains a) && SYMS.all (fun a => l.contains a)

/-- the predicate of `C15_variants` evaluated on a list of (matrix, position) pairs claimed
    for `p`: starts with `p`, no position twice, every one of the eight images present,
    and every entry `(σ, q)` has `σ` among the eight and `q = T σ p` -/
def variantsOK (p : Pos) (out : List (Mat3 × Pos)) : Bool :=
  (match out.head? with
   | some e => e.2 == p
   | none => false) &&
  decide ((out.map (·.2)).Nodup) &&
  SYMS.all (fun s => (out.map (·.2)).contains (transformPos s p)) &&
  out.all (fun e => SYMS.contains e.1 && transformPos e.1 p == e.2)

/-- ops:
  `matrices`                       → `ok m;m;…`            the eight matrices of `SYMS`, flattened
  `tpos <k> <pos7>`                → `ok <pos>`            `transformPos SYMS[k]`
  `tmove <k> <size> <move4>`       → `ok <move>` | `crash KeyError`
  `variants <pos7>`                → `ok k <pos> ; k <pos> ; …`
  `checkgroup <m> … <m>`           → `true` | `false`      (`isGroup` on implementation matrices)
  `checkvariants <pos7> (<m> <pos7>)*` → `true` | `false`  (`variantsOK` on implementation output)
-/
def handle : List String → Option String
  | ["matrices"] => some ("ok " ++ ";".intercalate (SYMS.map showMat))
  | "tpos" :: k :: rest => do
    let s ← symAt k
    let p ← parsePos rest
    pure s!"ok {showPos (transformPos s p)}"
  | "tmove" :: k :: n :: rest => do
    let s ← symAt k
    let n ← n.toNat?
    let m ← parseMove rest
    pure (match transformMove? s m n with
          | some m' => s!"ok {showMove m'}"
          | none => "crash KeyError")
  | "variants" :: rest => do
    let p ← parsePos rest
    pure ("ok " ++ " ; ".intercalate ((symmetries p).map fun e => s!"{indexOf e.1} {showPos e.2}"))
  | "checkgroup" :: rest => do
    let l ← rest.mapM parseMat
    pure (toString (isGroup l))
  | "checkvariants" :: rest => do
    let p ← parsePos (rest.take 7)
    let out ← parsePairs (rest.drop 7)
    pure (toString (variantsOK p out))
  | _ => none

end Tak.Driver.Symmetry

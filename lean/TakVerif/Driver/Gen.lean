/- driver component `gen`: slide lists, move tables, move generator, move ids, `MoveWF`,
   and `Rules.Legal` evaluated over candidate sets (C03, C07) -/
import TakVerif.Driver.Ser
import TakVerif.Model.Gen
import TakVerif.Spec.Rules
import TakVerif.Spec.MoveWF

namespace Tak.Driver.Gen
open Tak.Ser

/-- compact move text: the four tokens of `Ser.showMove` joined by `:` -/
def showMoveC (m : Move) : String :=
  s!"{m.x}:{m.y}:{natOfMoveType m.type}:{showSlides m.slides}"

def parseMoveC (s : String) : Option Move := parseMove (s.splitOn ":")

/-- a list of moves: compact moves joined by `;`, the empty list is `.` -/
def showMoves (l : List Move) : String :=
  if l.isEmpty then "." else ";".intercalate (l.map showMoveC)

def parseMoves (s : String) : Option (List Move) :=
  if s = "." then some [] else (s.splitOn ";").mapM parseMoveC

def showSlideList (l : List (List Nat)) : String :=
  if l.isEmpty then "." else ";".intercalate (l.map fun s => ",".intercalate (s.map toString))

def showOptNat : Option Nat → String
  | none => "none"
  | some i => toString i

def showOptMove : Option Move → String
  | none => "none"
  | some m => showMoveC m

/-- `0` not legal, `1` legal and plain, `2` legal but a placement carrying a drop tuple
    (the rules ignore the tuple; generator and table are not asked to list such a value) -/
def legalCode (p : Pos) (m : Move) : Char :=
  if Rules.legalb p m then (if decide m.Plain then '1' else '2') else '0'

/-- ops:
  `slides <n>`                 → `ALL_SLIDES[n]` in order, `1;1,1;…`
  `table <n>`                  → `all_moves_for_size(n)` in order
  `allmoves <pos7>`            → `Position.all_moves()` in order
  `legal <pos7>`               → the legal moves among table ∪ generator (table order first)
  `legalmask <pos7> <moves>`   → one character per candidate: 0 / 1 / 2 (see `legalCode`)
  `encode <n> <move4>`         → id | `none`
  `encodes <n> <moves>`        → ids joined by `,`
  `decode <n> <id>`            → move | `none`
  `wf <n> <move4>`             → `true` | `false`   (MoveWF)
  `wfmask <n> <moves>`         → one character per move: 1 = MoveWF
  `nodup <moves>`              → `true` | `false`
  `count <n>`                  → length of the table
-/
def handle : List String → Option String
  | ["slides", n] => do
    let n ← n.toNat?
    pure (showSlideList (Tak.Gen.slides n))
  | ["table", n] => do
    let n ← n.toNat?
    pure (showMoves (Tak.Gen.allMovesForSize n))
  | ["count", n] => do
    let n ← n.toNat?
    pure (toString (Tak.Gen.allMovesForSize n).length)
  | "allmoves" :: rest => do
    let p ← parsePos rest
    pure (showMoves (Tak.Gen.allMoves p))
  | "legal" :: rest => do
    let p ← parsePos rest
    let t := Tak.Gen.allMovesForSize p.size
    let g := (Tak.Gen.allMoves p).filter fun m => !t.contains m
    pure (showMoves ((t ++ g.eraseDups).filter (Rules.legalb p)))
  | "legalgen" :: rest => do
    -- the legal plain moves, enumerated from the generator model: complete by
    -- `C03_generator_complete` (every legal plain move is generated), duplicate-free by
    -- `C03_generator_nodup`; much cheaper than `legal` on 7x7 / 8x8
    let p ← parsePos rest
    pure (showMoves ((Tak.Gen.allMoves p).filter (Rules.legalb p)))
  | "legalmask" :: rest => do
    let p ← parsePos (rest.take 7)
    match rest.drop 7 with
    | [ms] =>
      let ms ← parseMoves ms
      pure (String.ofList (ms.map (legalCode p)))
    | _ => none
  | "encode" :: n :: rest => do
    let n ← n.toNat?
    let m ← parseMove rest
    pure (showOptNat (Tak.Gen.encodeMove n m))
  | ["encodes", n, ms] => do
    let n ← n.toNat?
    let ms ← parseMoves ms
    let t := Tak.Gen.allMovesForSize n
    pure (",".intercalate (ms.map fun m => showOptNat (Tak.Gen.lastIdxOf m t)))
  | ["decode", n, i] => do
    let n ← n.toNat?
    let i ← i.toNat?
    pure (showOptMove (Tak.Gen.decodeMove n i))
  | "wf" :: n :: rest => do
    let n ← n.toNat?
    let m ← parseMove rest
    pure (toString (decide (MoveWF n m)))
  | ["wfmask", n, ms] => do
    let n ← n.toNat?
    let ms ← parseMoves ms
    pure (String.ofList (ms.map fun m => if decide (MoveWF n m) then '1' else '0'))
  | ["nodup", ms] => do
    let ms ← parseMoves ms
    pure (toString (decide ms.Nodup))
  | _ => none

end Tak.Driver.Gen

/-
  driver component `xformer`: runs the `Float` instance of `Model/Xformer.lean` on weights
  sent as IEEE-754 double bit patterns (decimal `UInt64`), and evaluates the float-tolerance
  predicates of the failing-input search on data observed from the implementation.

  Line format (after the component name), tokens separated by blanks, lists by commas:

    <op> <nVocab> <nCtx> <nHead> <dHead> <nLayer> <causal 0|1> <pos none|learned|sin> <nOut>
         <rows: t,t,…/t,t,…  (an empty row is -)> <masks: none | 0101…/0011… (empty row -)> <weights: bits,bits,…>

  One line carries a whole batch (rows separated by `/`); the answer has one field per row,
  separated by ` | ` — the rows are evaluated one by one (`forwardPVBatch`/`forwardTextBatch`).

  weights order: emb (nVocab×d); learned pe (nCtx×d, only when pos=learned); per block
  attn_ln.w, attn_ln.b, in_proj_weight (3d×d), in_proj_bias, out_proj.weight (d×d), out_proj.bias,
  mlp_ln.w, mlp_ln.b, mlp_up.weight (4d×d), mlp_up.bias, mlp_down.weight (d×4d), mlp_down.bias;
  then the head:  text: final_ln.w, final_ln.b, unembedding.weight (nOut×d), unembedding.bias;
                  pv:   final_ln.w, final_ln.b, v_proj.weight (1×d), v_proj.bias,
                        move_proj.weight (nOut×d), move_proj.bias  (nOut may be a SUBSET of the
                        move ids chosen by the harness: the logits are row-wise independent).
  ops:
    hidden   → `ok <row> | <row> …`, row = r;r;…  each r = bits,bits,…  (no head weights)  (`Model.hidden?`)
    text     → `ok <row> | …`, row = r;r;…  logits of every token                       (`forwardText?`)
    pv       → `ok <row> | …`, row = v;l,l,…                                            (`forwardPV?`)
    evaluate → `ok <row> | …`, row = v;p,p,… softmax of the logits, masks must be `none` (`evaluate`)
    a row answers `reject` when `Model.accepts` is false (torch would raise).
    close <tol bits> <a: bits,…> <b: bits,…>
             → `ok true|false <maxdiff bits> <scale bits>`  (‖a−b‖∞ ≤ tol · max(1, ‖a‖∞, ‖b‖∞), no NaN)
    range <n> <value bits> <probs bits,…>
             → `ok true|false`  (length n, every p ≥ 0, |Σp − 1| ≤ 1e-5, −1 ≤ value ≤ 1)
    masks enc|server <len,len,…> → `ok <padded-row-widths>;<mask rows 01…/…>` the padding mask rows
             each call site passes to the model for rows of these lengths (`extraInputs ∘ encodeBatch`,
             `serverBatch`)
-/
import TakVerif.Driver.Ser
import TakVerif.Model.Xformer

namespace Tak.Driver.Xformer
open Tak.Xformer

instance : Scalar Float where
  ofNat := Float.ofNat
  exp := Float.exp
  log := Float.log
  sqrt := Float.sqrt
  tanh := Float.tanh
  sin := Float.sin
  cos := Float.cos
  lt a b := decide (a < b)

/-! parsing -/

def parseNats (s : String) : Option (List Nat) :=
  if s = "-" then some [] else (s.splitOn ",").mapM String.toNat?

def parseFloats (s : String) : Option (List Float) := do
  let ns ← parseNats s
  pure (ns.map (fun n => Float.ofBits (UInt64.ofNat n)))

def parseMaskRow (s : String) : Option (List Bool) :=
  if s = "-" then some []
  else s.toList.mapM (fun c => if c = '0' then some false else if c = '1' then some true else none)

def parseMasks (s : String) : Option (Option (List (List Bool))) :=
  if s = "none" then some none
  else do
    let ms ← (s.splitOn "/").mapM parseMaskRow
    pure (some ms)

abbrev P := StateT (List Float) Option

def takeN (n : Nat) : P (List Float) := do
  let s ← get
  if s.length < n then failure
  set (s.drop n)
  pure (s.take n)

def takeMat : Nat → Nat → P (List (List Float))
  | 0, _ => pure []
  | r + 1, c => do
    let row ← takeN c
    let rest ← takeMat r c
    pure (row :: rest)

def takeLN (d : Nat) : P (LayerNorm Float) := do
  let w ← takeN d
  let b ← takeN d
  pure ⟨w, b⟩

def takeLinear (nOut nIn : Nat) : P (Linear Float) := do
  let w ← takeMat nOut nIn
  let b ← takeN nOut
  pure ⟨w, b⟩

def takeBlock (d : Nat) : P (Block Float) := do
  let attnLn ← takeLN d
  let inProj ← takeLinear (3 * d) d
  let outProj ← takeLinear d d
  let mlpLn ← takeLN d
  let mlpUp ← takeLinear (4 * d) d
  let mlpDown ← takeLinear d (4 * d)
  pure ⟨attnLn, inProj, outProj, mlpLn, mlpUp, mlpDown⟩

def takeBlocks : Nat → Nat → P (List (Block Float))
  | 0, _ => pure []
  | n + 1, d => do
    let b ← takeBlock d
    let r ← takeBlocks n d
    pure (b :: r)

structure Case where
  model : Model Float
  nOut : Nat
  /-- the rows of the batch, each with its mask row (or none) -/
  rows : List (List Nat × Option (List Bool))
  rest : List Float

def parseCase : List String → Option Case
  | [nVocab, nCtx, nHead, dHead, nLayer, causal, pos, nOut, toks, mask, weights] => do
    let nVocab ← nVocab.toNat?
    let nCtx ← nCtx.toNat?
    let nHead ← nHead.toNat?
    let dHead ← dHead.toNat?
    let nLayer ← nLayer.toNat?
    let causal ← if causal = "1" then some true else if causal = "0" then some false else none
    let nOut ← nOut.toNat?
    let rows ← (toks.splitOn "/").mapM parseNats
    let masks ← parseMasks mask
    let rows ← (match masks with
      | none => some (rows.map (fun r => (r, none)))
      | some ms => if ms.length = rows.length then some (List.zipWith (fun r m => (r, some m)) rows ms) else none)
    let ws ← parseFloats weights
    let d := nHead * dHead
    let p : P (Model Float) := do
      let emb ← takeMat nVocab d
      let pe : PosEnc Float ←
        (if pos = "none" then pure PosEnc.none
         else if pos = "sin" then pure PosEnc.sin
         else if pos = "learned" then do
           let t ← takeMat nCtx d
           pure (PosEnc.learned t)
         else failure)
      let blocks ← takeBlocks nLayer d
      pure { nVocab := nVocab, nCtx := nCtx, nHead := nHead, dHead := dHead, causal := causal, pos := pe,
             emb := emb, blocks := blocks }
    let (m, rest) ← p.run ws
    pure ⟨m, nOut, rows, rest⟩
  | _ => none

def bits (x : Float) : String := toString x.toBits.toNat

def showRow (r : List Float) : String := if r.isEmpty then "-" else ",".intercalate (r.map bits)

def showRows (rs : List (List Float)) : String := if rs.isEmpty then "-" else ";".intercalate (rs.map showRow)

def showMaskRow (m : List Bool) : String :=
  if m.isEmpty then "-" else String.ofList (m.map (fun b => if b then '1' else '0'))

def fabs (x : Float) : Float := if x < 0 then -x else x

/-- ‖a‖∞, and whether a NaN occurs -/
def normInf (a : List Float) : Float × Bool :=
  a.foldl (fun (m, bad) x => (if fabs x > m then fabs x else m, bad || x.isNaN)) (0, false)

def joinRows (rs : List String) : String := "ok " ++ " | ".intercalate rs

def handle : List String → Option String
  | "hidden" :: rest => do
    let c ← parseCase rest
    if !c.rest.isEmpty then none
    pure (joinRows (c.rows.map (fun (toks, mask) =>
      match c.model.hidden? toks mask with
      | none => "reject"
      | some h => showRows h)))
  | "text" :: rest => do
    let c ← parseCase rest
    let d := c.model.dModel
    let (H, left) ← (do
      let ln ← takeLN d
      let un ← takeLinear c.nOut d
      pure (⟨ln, un⟩ : TextHead Float) : P (TextHead Float)).run c.rest
    if !left.isEmpty then none
    pure (joinRows (c.rows.map (fun (toks, mask) =>
      match forwardText? c.model H toks mask with
      | none => "reject"
      | some h => showRows h)))
  | op :: rest =>
    if op = "pv" || op = "evaluate" then do
      let c ← parseCase rest
      let d := c.model.dModel
      let (H, left) ← (do
        let ln ← takeLN d
        let vp ← takeLinear 1 d
        let mp ← takeLinear c.nOut d
        pure (⟨ln, vp, mp⟩ : PVHead Float) : P (PVHead Float)).run c.rest
      if !left.isEmpty then none
      if op = "pv" then
        pure (joinRows (c.rows.map (fun (toks, mask) =>
          match forwardPV? c.model H toks mask with
          | none => "reject"
          | some (v, l) => s!"{bits v};{showRow l}")))
      else
        if c.rows.any (·.2.isSome) then none
        pure (joinRows (c.rows.map (fun (toks, _) =>
          match forwardPV? c.model H toks none with
          | none => "reject"
          | some _ =>
            let (p, v) := evaluate c.model H toks
            s!"{bits v};{showRow p}")))
    else if op = "close" then
      match rest with
      | [tol, a, b] => do
        let tol ← parseFloats tol
        let tol ← tol.head?
        let a ← parseFloats a
        let b ← parseFloats b
        if a.length ≠ b.length then pure "ok false 0 0"
        else
          let (na, ba) := normInf a
          let (nb, bb) := normInf b
          let (nd, bd) := normInf (List.zipWith (· - ·) a b)
          let scale := if na > nb then (if na > 1 then na else 1) else (if nb > 1 then nb else 1)
          let good := !(ba || bb || bd) && decide (nd ≤ tol * scale)
          pure s!"ok {good} {bits nd} {bits scale}"
      | _ => none
    else if op = "range" then
      match rest with
      | [n, v, ps] => do
        let n ← n.toNat?
        let v ← parseFloats v
        let v ← v.head?
        let ps ← parseFloats ps
        let s := ps.foldl (· + ·) 0
        let good := ps.length == n && ps.all (fun p => decide (p ≥ 0)) && decide (fabs (s - 1) ≤ 1e-5)
          && decide (-1 ≤ v) && decide (v ≤ 1)
        pure s!"ok {good}"
      | _ => none
    else if op = "masks" then
      match rest with
      | [site, lens] => do
        let lens ← parseNats lens
        let rows := lens.map (fun l => List.replicate l 1)
        let (prows, ms) ←
          (if site = "enc" then
            let (r, m) := encodeBatch rows
            some (r, extraInputs m)
           else if site = "server" then some (serverBatch rows)
           else none)
        let widths := prows.map (·.length)
        pure s!"ok {if widths.isEmpty then "-" else ",".intercalate (widths.map toString)};{if ms.isEmpty then "-" else "/".intercalate (ms.map showMaskRow)}"
      | _ => none
    else none
  | _ => none

end Tak.Driver.Xformer

/-
  driver component `dataset`: epochs of `xformer.data.Dataset` and of `ReplayBufferDataset`,
  `cat_replay_buffer`, and the C20 predicates on implementation data.

  Text forms (tokens separated by blanks; `*` is the empty list everywhere):
    cell          an opaque string without blanks, `;` (one field of one row, serialised by the harness)
    column        cells joined by `;`
    permutation   ints joined by `,`
    table         `<ncols> <column>*ncols`
    batches       `<nb> <column>*(nb*ncols)`             (batch after batch, column order kept)
    buffer        `<width> <nrows> <nothers> <token row>*nrows <mask row>*nrows <column>*nothers`
    flat buffer   `<nrows> <nothers> <token row>*nrows <mask row>*nrows <column>*nothers`
-/
import TakVerif.Driver.Ser
import TakVerif.Driver.Batch
import TakVerif.Model.Batch
import TakVerif.Spec.Batch

namespace Tak.Driver.Dataset
open Tak.Batch Tak.BatchSpec Tak.Driver.Batch

def parseCol (s : String) : Option (List String) := parseList ";" some s
def showCol (c : List String) : String := showList ";" id c
def parsePerm (s : String) : Option (List Nat) := parseList "," String.toNat? s

def takeN {α : Type} (f : String → Option α) (n : Nat) (toks : List String) : Option (List α × List String) :=
  if toks.length < n then none else do
    let xs ← (toks.take n).mapM f
    pure (xs, toks.drop n)

def parseTable : List String → Option (List (List String) × List String)
  | n :: rest => do
    let n ← n.toNat?
    takeN parseCol n rest
  | [] => none

/-- `nb` batches of `ncols` columns each -/
def parseBatches (ncols : Nat) : List String → Option (List (List (List String)) × List String)
  | nb :: rest => do
    let nb ← nb.toNat?
    let rec go : Nat → List String → Option (List (List (List String)) × List String)
      | 0, rest => some ([], rest)
      | k + 1, rest => do
        let (bt, rest) ← takeN parseCol ncols rest
        let (bs, rest) ← go k rest
        pure (bt :: bs, rest)
    go nb rest
  | [] => none

def showBatches (bs : List (List (List String))) : String :=
  " ".intercalate (toString bs.length :: bs.flatMap fun bt => bt.map showCol)

def parseBuffer : List String → Option (Buffer String × List String)
  | w :: n :: k :: rest => do
    let w ← w.toNat?
    let n ← n.toNat?
    let k ← k.toNat?
    let (P, rest) ← takeN parseToks n rest
    let (M, rest) ← takeN parseMask n rest
    let (O, rest) ← takeN parseCol k rest
    pure (⟨P, M, w, O⟩, rest)
  | _ => none

def parseBuffers : List String → Option (List (Buffer String) × List String)
  | n :: rest => do
    let n ← n.toNat?
    let rec go : Nat → List String → Option (List (Buffer String) × List String)
      | 0, rest => some ([], rest)
      | k + 1, rest => do
        let (b, rest) ← parseBuffer rest
        let (bs, rest) ← go k rest
        pure (b :: bs, rest)
    go n rest
  | [] => none

def parseFlat : List String → Option (FlatBuffer String × List String)
  | n :: k :: rest => do
    let n ← n.toNat?
    let k ← k.toNat?
    let (P, rest) ← takeN parseToks n rest
    let (M, rest) ← takeN parseMask n rest
    let (O, rest) ← takeN parseCol k rest
    pure (⟨P, M, O⟩, rest)
  | _ => none

def showFlatLike (P : List (List Nat)) (M : List (List Bool)) (O : List (List String)) : String :=
  " ".intercalate <|
    [toString P.length, toString O.length] ++ P.map showToks ++ M.map showMask ++ O.map showCol

/-- the generator oracle replaying recorded permutations -/
def replayRNG : RNG (List (List Nat)) :=
  { manualSeed := fun _ => [], randperm := fun _ g => (g.headD [], g.tail) }

def parseBatchesOpt (s : String) : Option (Option Nat) :=
  if s = "none" then some none else s.toNat?.map some

/-- which C20 clauses fail for the batches `got` of one epoch over the stored columns `file`
    (truncated by `batches`) with batch size `b` and the recorded permutation `perm` -/
def epochFailures (b : Nat) (batches : Option Nat) (perm : List Nat) (file : List (List String))
    (got : List (List (List String))) : List String :=
  let cfg : DsCfg String := ⟨file, b, batches, 0⟩
  let data := loadData cfg
  let n := nRows data
  (if isPermOfRange perm.length perm then [] else ["randperm-not-a-permutation"]) ++
  (if batchSizesOK n b got then [] else ["batch-size"]) ++
  (if alignedOK file got then
    -- whole rows came out: each exactly once? (with `batches` set: exactly the first rows?)
    (if permOK data got then [] else [if batches.isSome then "truncation" else "row-lost-or-duplicated"])
   else ["misaligned-fields"])

/-- one operation of a session on one dataset object: `mk` | `n<j>` | `f<n>` | `c<j>` -/
def parseSessOp (t : String) : Option SessOp :=
  if t = "mk" then some .mk
  else if t.startsWith "n" then (t.drop 1).toNat?.map .next
  else if t.startsWith "f" then (t.drop 1).toNat?.map .ff
  else if t.startsWith "c" then (t.drop 1).toNat?.map .close
  else none

def showSessOut : SessOut String → String
  | .unit => "u"
  | .stop => "stop"
  | .noIter => "noiter"
  | .batch b => "b " ++ " ".intercalate (b.map showCol)

/-- `C20_interleaved` as a decidable check on what the implementation's iterators returned:
    every iterator yielded a prefix (all of it, if it ran into StopIteration) of one epoch of the
    sequential stream, in order, no two iterators the same epoch.  Which epoch an iterator owns is
    NOT prescribed here (the permutation may be drawn when the iterator is created or at its first
    `next`): any assignment of distinct epochs is accepted. -/
def assignEpochs : List (List (List (List String)) × Bool) → List (List (List (List String))) → Bool
  | [], _ => true
  | (y, stopped) :: rest, eps =>
    (List.range eps.length).any fun i =>
      match eps[i]? with
      | none => false
      | some e => (if stopped then y == e else y.isPrefixOf e) && assignEpochs rest (eps.eraseIdx i)

/-- ops:
  `session <b> <batches|none> <k> <perm>*k <table> <op>*`  → `ok <out>;<out>;…`  (`Sess.run`, the draws replayed)
  `check-session <b> <batches|none> <k> <perm>*k <table> <niters> (<stopped 0|1> <batches>)*niters`
                                                          → `ok` | `fail iterator-not-an-epoch`
  `stream <b> <batches|none> <k> <perm>*k <table>`        → `ok <batches>*k`   (file dataset, `k` epochs)
  `check-epoch <b> <batches|none> <perm> <table> <batches>` → `ok` | `fail <keys>`
  `cat <n> <buffer>*n`                                    → `ok <flat buffer>`
  `check-cat <n> <buffer>*n <flat buffer>`                → `ok` | `fail pad-not-masked`
  `rbepoch <b> <perm> <n> <buffer>*n`                     → `ok <nb> <flat buffer>*nb`
  `isperm <n> <perm>`                                     → `true` | `false`
  `check-rows <w> (<toks> <mask> <toks> <mask>)*`         → `ok` | `fail pad-not-masked`   (`catRowOK` per (window row, row the model was given))
  `sizes <n> <b> <len>*`                                  → `ok` | `fail batch-size`   (`sizesOK`, C20_batch_lengths)
-/
def checkRows (w : Nat) : List String → Option Bool
  | [] => some true
  | ot :: om :: gt :: gm :: rest => do
    let ot ← parseToks ot
    let om ← parseMask om
    let gt ← parseToks gt
    let gm ← parseMask gm
    let r ← checkRows w rest
    pure (catRowOK w (ot, om) (gt, gm) && r)
  | _ => none

def handle : List String → Option String
  | "check-rows" :: w :: rest => do
    let w ← w.toNat?
    let ok ← checkRows w rest
    pure (if ok then "ok" else "fail pad-not-masked")
  | "sizes" :: n :: b :: rest => do
    let n ← n.toNat?
    let b ← b.toNat?
    let ls ← rest.mapM String.toNat?
    pure (if sizesOK n b ls then "ok" else "fail batch-size")
  | "session" :: b :: bt :: k :: rest => do
    let b ← b.toNat?
    let bt ← parseBatchesOpt bt
    let k ← k.toNat?
    let (perms, rest) ← takeN parsePerm k rest
    let (file, rest) ← parseTable rest
    let ops ← rest.mapM parseSessOp
    let R : RNG (List (List Nat)) := { replayRNG with manualSeed := fun _ => perms }
    let r := Sess.run R (Sess.init (Ds.init R ⟨file, b, bt, 0⟩)) ops
    pure ("ok " ++ ";".intercalate (r.2.map fun x => showSessOut x.2))
  | "check-session" :: b :: bt :: k :: rest => do
    let b ← b.toNat?
    let bt ← parseBatchesOpt bt
    let k ← k.toNat?
    let (perms, rest) ← takeN parsePerm k rest
    let (file, rest) ← parseTable rest
    match rest with
    | n :: rest =>
      let n ← n.toNat?
      let rec go : Nat → List String → Option (List (List (List (List String)) × Bool) × List String)
        | 0, rest => some ([], rest)
        | m + 1, st :: rest => do
          let (bs, rest) ← parseBatches file.length rest
          let (xs, rest) ← go m rest
          pure ((bs, st == "1") :: xs, rest)
        | _ + 1, [] => none
      let (its, rest) ← go n rest
      if !rest.isEmpty then none else
      let R : RNG (List (List Nat)) := { replayRNG with manualSeed := fun _ => perms }
      let eps := Ds.stream R k (Ds.init R ⟨file, b, bt, 0⟩)
      pure (if assignEpochs its eps then "ok" else "fail iterator-not-an-epoch")
    | [] => none
  | "stream" :: b :: bt :: k :: rest => do
    let b ← b.toNat?
    let bt ← parseBatchesOpt bt
    let k ← k.toNat?
    let (perms, rest) ← takeN parsePerm k rest
    let (file, rest) ← parseTable rest
    if !rest.isEmpty then none else
    let R : RNG (List (List Nat)) := { replayRNG with manualSeed := fun _ => perms }
    let eps := Ds.stream R k (Ds.init R ⟨file, b, bt, 0⟩)
    pure (" ".intercalate ("ok" :: eps.map showBatches))
  | "check-epoch" :: b :: bt :: perm :: rest => do
    let b ← b.toNat?
    let bt ← parseBatchesOpt bt
    let perm ← parsePerm perm
    let (file, rest) ← parseTable rest
    let (got, rest) ← parseBatches file.length rest
    if !rest.isEmpty then none else
    pure (showFailures (epochFailures b bt perm file got))
  | "cat" :: rest => do
    let (bufs, rest) ← parseBuffers rest
    if !rest.isEmpty then none else
    let flat := catReplayBuffer bufs
    pure ("ok " ++ showFlatLike flat.positions flat.mask flat.others)
  | "check-cat" :: rest => do
    let (bufs, rest) ← parseBuffers rest
    let (flat, rest) ← parseFlat rest
    if !rest.isEmpty then none else
    pure (if catMaskOK bufs flat then "ok" else "fail pad-not-masked")
  | "rbepoch" :: b :: perm :: rest => do
    let b ← b.toNat?
    let perm ← parsePerm perm
    let (bufs, rest) ← parseBuffers rest
    if !rest.isEmpty then none else
    let bs := rbEpoch perm b (catReplayBuffer bufs)
    pure (" ".intercalate ("ok" :: toString bs.length ::
      bs.map fun bt => showFlatLike bt.positions bt.mask bt.others))
  | ["isperm", n, perm] => do
    let n ← n.toNat?
    let perm ← parsePerm perm
    pure (toString (isPermOfRange n perm))
  | _ => none

end Tak.Driver.Dataset

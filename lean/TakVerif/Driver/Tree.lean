/-
  driver component `tree`: the search-tree model and the C08/C09 predicates on implementation data.

  Text formats (tokens separated by single spaces):
    rat     `n` | `n/d`                     (floats are sent as their exact rational value)
    vec     `<ntok> tok*`   tok = `v` | `c*v` (run of c copies of v)
    cfg     `<cutoff> <noise 0|1> <mix> <ptol> <vtol> <tsize> <ntbl> move4*ntbl`
            the move table of size `tsize` as the implementation decodes ids (ntbl = 0: use
            `Gen.allMovesForSize`; other sizes always use `Gen.allMovesForSize`)
    node    `pos7 mv v0 value sims vec(priors) ev kids`
            mv   = `-` | `m x y t slides`
            ev   = `-` | `e value vec(probs) noise`       noise = `-` | `n vec`
            kids = `-` | `k node*k`
    answer  `value vec(probs) noise`

  ops:
    `inv cfg <expected root visits | -> node`    → `ok` | `fail:<i.j.k path or ->:<clause>`
    `replay cfg n node <nch> choice* <na> answer*` → `ok node` | `fail`      (Tree.analyzeTree)
    `policyargs C node`                          → `ok <count> (plen path* np prior* K N lamsq q*)*`
                                                    for every expanded node, pre-order
    `probs0 C node`                              → `ok vec` (policyProbs of a node with sims = 0; the
                                                    solver is not consulted) | `needs-solver` | `none`
    `formula lam sumtol reltol ulps K pi*K q*K w*K` → `ok` | `fail:<why>`   (w is the regularised-policy
                                                    formula value for one alpha above every q)
-/
import TakVerif.Driver.Ser
import TakVerif.Model.Tree
import TakVerif.Model.Gen
import TakVerif.Spec.TreeInv

namespace Tak.Driver.Tree
open Tak.Ser Tak.Tree

/-! #### parsing -/

def parseRat (s : String) : Option Rat :=
  match s.splitOn "/" with
  | [n] => n.toInt?.map fun (i : Int) => (i : Rat)
  | [n, d] => do
    let n ← n.toInt?
    let d ← d.toNat?
    if d = 0 then none else pure (mkRat n d)
  | _ => none

def showRat (r : Rat) : String :=
  if r.den = 1 then toString r.num else s!"{r.num}/{r.den}"

def parseRle (s : String) : Option (List Rat) :=
  match s.splitOn "*" with
  | [v] => (parseRat v).map fun r => [r]
  | [c, v] => do
    let c ← c.toNat?
    let r ← parseRat v
    pure (List.replicate c r)
  | _ => none

/-- `<ntok> tok*` -/
def parseVec : List String → Option (List Rat × List String)
  | n :: rest => do
    let n ← n.toNat?
    if rest.length < n then none
    else
      let parts ← (rest.take n).mapM parseRle
      pure (parts.flatten, rest.drop n)
  | [] => none

def parseNoise : List String → Option (Option (List Rat) × List String)
  | "-" :: rest => some (none, rest)
  | "n" :: rest => do
    let (v, rest) ← parseVec rest
    pure (some v, rest)
  | _ => none

/-- `value vec(probs) noise` -/
def parseAnswer : List String → Option (Answer × List String)
  | v :: rest => do
    let v ← parseRat v
    let (probs, rest) ← parseVec rest
    let (nz, rest) ← parseNoise rest
    pure ({ probs := probs, value := v, noise := nz }, rest)
  | [] => none

def parseEv : List String → Option (Option Answer × List String)
  | "-" :: rest => some (none, rest)
  | "e" :: rest => do
    let (a, rest) ← parseAnswer rest
    pure (some a, rest)
  | _ => none

def parseMv : List String → Option (Option Move × List String)
  | "-" :: rest => some (none, rest)
  | "m" :: rest => do
    let m ← parseMove (rest.take 4)
    pure (some m, rest.drop 4)
  | _ => none

mutual
/-- fuel: an upper bound on the number of tokens -/
def parseNode : Nat → List String → Option (Node × List String)
  | 0, _ => none
  | fuel + 1, toks => do
    let p ← parsePos (toks.take 7)
    let (mv, rest) ← parseMv (toks.drop 7)
    match rest with
    | v0 :: value :: sims :: rest =>
      let v0 ← parseRat v0
      let value ← parseRat value
      let sims ← sims.toNat?
      let (priors, rest) ← parseVec rest
      let (ev, rest) ← parseEv rest
      match rest with
      | "-" :: rest =>
        pure ({ position := p, move := mv, v0 := v0, value := value, sims := sims, children := none,
                priors := priors, ev := ev }, rest)
      | k :: rest =>
        let k ← k.toNat?
        let (cs, rest) ← parseNodes fuel k rest
        pure ({ position := p, move := mv, v0 := v0, value := value, sims := sims, children := some cs,
                priors := priors, ev := ev }, rest)
      | [] => none
    | _ => none
def parseNodes : Nat → Nat → List String → Option (List Node × List String)
  | 0, _, _ => none
  | _ + 1, 0, toks => some ([], toks)
  | fuel + 1, k + 1, toks => do
    let (c, rest) ← parseNode fuel toks
    let (cs, rest) ← parseNodes fuel k rest
    pure (c :: cs, rest)
end

structure ParsedCfg where
  cfg : Cfg
  tol : Tol

def parseMoves : Nat → List String → Option (List Move × List String)
  | 0, toks => some ([], toks)
  | k + 1, toks => do
    let m ← parseMove (toks.take 4)
    let (ms, rest) ← parseMoves k (toks.drop 4)
    pure (m :: ms, rest)

def parseCfg : List String → Option (ParsedCfg × List String)
  | cutoff :: noise :: mix :: ptol :: vtol :: tsize :: ntbl :: rest => do
    let cutoff ← parseRat cutoff
    let noise ← noise.toNat?
    let mix ← parseRat mix
    let ptol ← parseRat ptol
    let vtol ← parseRat vtol
    let tsize ← tsize.toNat?
    let ntbl ← ntbl.toNat?
    let (tbl, rest) ← parseMoves ntbl rest
    let own := if ntbl = 0 then Gen.allMovesForSize tsize else tbl
    let table : Nat → List Move := fun n => if n = tsize then own else Gen.allMovesForSize n
    pure ({ cfg := { cutoff := cutoff, noise := noise != 0, mix := mix, outcome := realOutcome, table := table },
            tol := ⟨ptol, vtol⟩ }, rest)
  | _ => none

/-! #### printing -/

def pushVec (acc : Array String) (v : List Rat) : Array String :=
  v.foldl (fun a r => a.push (showRat r)) (acc.push (toString v.length))

/-- runs of equal values as `c*v` -/
def rleRuns : List Rat → List (Nat × Rat)
  | [] => []
  | x :: r =>
    match rleRuns r with
    | (c, y) :: rest => if x = y then (c + 1, y) :: rest else (1, x) :: (c, y) :: rest
    | [] => [(1, x)]

def pushVecRle (acc : Array String) (v : List Rat) : Array String :=
  let runs := rleRuns v
  runs.foldl (fun a r => a.push (if r.1 = 1 then showRat r.2 else s!"{r.1}*{showRat r.2}"))
    (acc.push (toString runs.length))

def pushAnswer (acc : Array String) (a : Answer) : Array String :=
  let acc := pushVecRle (acc.push (showRat a.value)) a.probs
  match a.noise with
  | none => acc.push "-"
  | some nz => pushVecRle (acc.push "n") nz

mutual
def pushNode (acc : Array String) : Node → Array String
  | ⟨p, mv, v0, value, sims, cs, priors, ev⟩ =>
    let acc := acc.push (showPos p)
    let acc := match mv with
      | none => acc.push "-"
      | some m => (acc.push "m").push (showMove m)
    let acc := ((acc.push (showRat v0)).push (showRat value)).push (toString sims)
    let acc := pushVec acc priors
    let acc := match ev with
      | none => acc.push "-"
      | some a => pushAnswer (acc.push "e") a
    pushKids acc cs
def pushKids (acc : Array String) : Option (List Node) → Array String
  | none => acc.push "-"
  | some l => pushList (acc.push (toString l.length)) l
def pushList (acc : Array String) : List Node → Array String
  | [] => acc
  | c :: r => pushList (pushNode acc c) r
end

def showNode (t : Node) : String := " ".intercalate (pushNode #[] t).toList

def showPath (p : List Nat) : String :=
  if p.isEmpty then "-" else ".".intercalate (p.map toString)

/-! #### policy arguments of every expanded node -/

def pushArgs (acc : Array String) (path : List Nat) (a : PolicyArgs) : Array String :=
  let acc := path.reverse.foldl (fun a i => a.push (toString i)) (acc.push (toString path.length))
  let acc := pushVec acc a.prior
  let acc := ((acc.push (toString a.K)).push (toString a.N)).push (showRat a.lamSq)
  a.q.foldl (fun x r => x.push (showRat r)) acc

mutual
/-- `path` is kept reversed; the counter counts expanded nodes -/
def argsNode (C : Rat) (path : List Nat) (acc : Array String × Nat) : Node → Array String × Nat
  | ⟨p, mv, v0, value, sims, cs, priors, ev⟩ =>
    let acc := match policyArgs ⟨p, mv, v0, value, sims, cs, priors, ev⟩ C with
      | some a => (pushArgs acc.1 path a, acc.2 + 1)
      | none => acc
    argsKids C path acc cs
def argsKids (C : Rat) (path : List Nat) (acc : Array String × Nat) : Option (List Node) → Array String × Nat
  | none => acc
  | some l => argsList C path 0 acc l
def argsList (C : Rat) (path : List Nat) (i : Nat) (acc : Array String × Nat) : List Node → Array String × Nat
  | [] => acc
  | c :: r => argsList C path (i + 1) (argsNode C (i :: path) acc c) r
end

/-! #### the regularised-policy formula on a solver output -/

def rmax (l : List Rat) : Option Rat :=
  match l with
  | [] => none
  | x :: r => some (r.foldl (fun a b => if a < b then b else a) x)

def pow2 (e : Int) : Rat :=
  if 0 ≤ e then ((2 ^ e.toNat : Nat) : Rat) else 1 / ((2 ^ (-e).toNat : Nat) : Rat)

/-- for `r > 0`: the `e` with `2^e ≤ r < 2^(e+1)` -/
def floorLog2 (r : Rat) : Int :=
  let e0 : Int := (Nat.log2 r.num.toNat : Int) - (Nat.log2 r.den : Int)
  if pow2 e0 ≤ r then e0 else e0 - 1

/-- spacing of float32 numbers around `r` (normal range) -/
def ulp32 (r : Rat) : Rat :=
  if r = 0 then 0 else pow2 (floorLog2 (rabs r) - 23)

/-- `w` is `lam*pi/(alpha - q)` componentwise for ONE `alpha` above every `q`, to relative accuracy
    `reltol` of `alpha - q_i`; all weights non-negative; total within `sumtol` of 1, widened by the
    change of the total across `ulps` float32 steps of `alpha` (the resolution the solver's
    single-precision normaliser can reach, C10) -/
def formulaFail (lam sumtol reltol ulps : Rat) (pi q w : List Rat) : Option String :=
  if pi.length ≠ q.length ∨ w.length ≠ q.length then some "length"
  else if w.any (· < 0) then some "negative-weight"
  else if lam ≤ 0 then some "multiplier-not-positive"
  else
    let rows := (pi.zip (q.zip w))
    if rows.any (fun r => r.1 < 0) then some "negative-prior"
    else if rows.any (fun r => (r.1 = 0 ∧ r.2.2 ≠ 0) ∨ (0 < r.1 ∧ r.2.2 = 0)) then some "zero-pattern"
    else
      -- alpha recovered from every component with positive prior, with its gap alpha - q_i and weight
      let als := rows.filterMap fun r =>
        if 0 < r.1 then some (r.2.1 + lam * r.1 / r.2.2, lam * r.1 / r.2.2, r.2.2) else none
      match als with
      | [] => some "no-positive-prior"
      | a0 :: rest =>
        let best := rest.foldl (fun a b => if b.2.1 < a.2.1 then b else a) a0
        match rmax q with
        | none => some "empty"
        | some mq =>
          if ¬ mq < best.1 then some "alpha-not-above-max-q"
          else if als.any (fun a => reltol * (a.2.1 + best.2.1) < rabs (a.1 - best.1)) then some "not-one-alpha"
          else
            let slope := (als.map fun a => a.2.2 / a.2.1).sum
            if sumtol + ulps * ulp32 best.1 * slope < rabs (w.sum - 1) then some "sum-not-one"
            else none

/-! #### ops -/

def handle : List String → Option String
  | "inv" :: rest => do
    let (pc, rest) ← parseCfg rest
    match rest with
    | expect :: rest =>
      let (t, rest) ← parseNode (rest.length + 1) rest
      if !rest.isEmpty then none
      else if expect ≠ "-" ∧ expect.toNat? ≠ some t.sims then pure "fail:-:root-visits"
      else
        match treeInvFail pc.cfg pc.tol t with
        | none => pure "ok"
        | some (path, clause) => pure s!"fail:{showPath path}:{clause}"
    | [] => none
  | "replay" :: rest => do
    let (pc, rest) ← parseCfg rest
    match rest with
    | n :: rest =>
      let n ← n.toNat?
      let (t, rest) ← parseNode (rest.length + 1) rest
      match rest with
      | nch :: rest =>
        let nch ← nch.toNat?
        if rest.length < nch then none
        else
          let choices ← (rest.take nch).mapM String.toNat?
          match rest.drop nch with
          | na :: rest =>
            let na ← na.toNat?
            let rec answers : Nat → List String → Option (List Answer × List String)
              | 0, toks => some ([], toks)
              | k + 1, toks => do
                let (a, toks) ← parseAnswer toks
                let (as, toks) ← answers k toks
                pure (a :: as, toks)
            let (as, rest) ← answers na rest
            if !rest.isEmpty then none
            else
              match analyzeTree pc.cfg n t choices as with
              | none => pure "fail"
              | some t' => pure s!"ok {showNode t'}"
          | [] => none
      | [] => none
    | [] => none
  | "policyargs" :: c :: rest => do
    let C ← parseRat c
    let (t, rest) ← parseNode (rest.length + 1) rest
    if !rest.isEmpty then none
    else
      let (acc, cnt) := argsNode C [] (#[], 0) t
      pure (" ".intercalate ("ok" :: toString cnt :: acc.toList))
  | "probs0" :: c :: rest => do
    let C ← parseRat c
    let (t, rest) ← parseNode (rest.length + 1) rest
    if !rest.isEmpty then none
    else if t.sims ≠ 0 then pure "needs-solver"
    else
      -- the solver is an oracle: the answer must not depend on it
      match policyProbs (fun a => a.q) t C, policyProbs (fun _ => []) t C with
      | some v, some v' => if v = v' then pure (" ".intercalate ("ok" :: (pushVec #[] v).toList)) else pure "needs-solver"
      | _, _ => pure "none"
  | "formula" :: lam :: sumtol :: reltol :: ulps :: k :: rest => do
    let lam ← parseRat lam
    let sumtol ← parseRat sumtol
    let reltol ← parseRat reltol
    let ulps ← parseRat ulps
    let k ← k.toNat?
    if rest.length ≠ 3 * k then none
    else
      let pi ← (rest.take k).mapM parseRat
      let q ← ((rest.drop k).take k).mapM parseRat
      let w ← (rest.drop (2 * k)).mapM parseRat
      match formulaFail lam sumtol reltol ulps pi q w with
      | none => pure "ok"
      | some why => pure s!"fail:{why}"
  | _ => none

end Tak.Driver.Tree

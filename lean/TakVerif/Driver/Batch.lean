/-
  driver component `batch`: Transcript.logits / encodeGames / dedupBatch and the C12 predicates
  on implementation data.

  Text forms (tokens separated by blanks; `*` is the empty list everywhere):
    rational      `n/d` (or `n`)
    move          `x:y:t:s`    t = 1..7, s = `none` | `-` | `d.d.d`
    move list     moves joined by `;`            prob list   rationals joined by `;`
    transcript    `<W|B|N> <nplies>` then per ply `<pos7> <moves> <probs> <value>`
    token row     ints joined by `,`             mask row    string of `0`/`1`
    sparse row    `id=n/d` joined by `;` (the non-zero columns, ascending)
    batch row     `<token row> <mask row> <targets joined by ;>`
    game batch    `<n> P <token row>*n M <mask row>*n L <W> <sparse row>*n V <values> R <results>`
-/
import TakVerif.Driver.Ser
import TakVerif.Model.Batch
import TakVerif.Spec.Batch

namespace Tak.Driver.Batch
open Tak.Ser Tak.Batch Tak.BatchSpec

/-! ### parsing / printing -/

def parseRat (s : String) : Option Rat :=
  match s.splitOn "/" with
  | [n] => do let n ← n.toInt?; pure (n : Rat)
  | [n, d] => do
    let n ← n.toInt?
    let d ← d.toNat?
    if d = 0 then none else pure (mkRat n d)
  | _ => none

def showRat (r : Rat) : String := s!"{r.num}/{r.den}"

def parseList {α : Type} (sep : String) (f : String → Option α) (s : String) : Option (List α) :=
  if s = "*" then some [] else (s.splitOn sep).mapM f

def showList {α : Type} (sep : String) (f : α → String) (l : List α) : String :=
  if l.isEmpty then "*" else sep.intercalate (l.map f)

def parseMoveC (s : String) : Option Move :=
  match s.splitOn ":" with
  | [x, y, t, sl] => do
    let x ← x.toInt?
    let y ← y.toInt?
    let t ← t.toNat?
    let t ← moveTypeOfNat t
    let sl ←
      if sl = "none" then some none
      else if sl = "-" then some (some [])
      else do
        let ds ← (sl.splitOn ".").mapM String.toInt?
        pure (some ds)
    pure ⟨x, y, t, sl⟩
  | _ => none

def parseMask (s : String) : Option (List Bool) :=
  if s = "*" then some [] else
  s.toList.mapM fun c => if c = '1' then some true else if c = '0' then some false else none

def showMask (m : List Bool) : String :=
  if m.isEmpty then "*" else String.ofList (m.map fun b => if b then '1' else '0')

def parseToks (s : String) : Option (List Nat) := parseList "," String.toNat? s
def showToks (t : List Nat) : String := showList "," toString t
def parseRats (s : String) : Option (List Rat) := parseList ";" parseRat s
def showRats (t : List Rat) : String := showList ";" showRat t

def showSparse (row : List Rat) : String :=
  showList ";" (fun (p : Rat × Nat) => s!"{p.2}={showRat p.1}") (row.zipIdx.filter fun p => p.1 != 0)

/-- a sparse row back to a dense one of width `W` -/
def parseSparse (W : Nat) (s : String) : Option (List Rat) := do
  let es ← parseList ";" (fun e =>
    match e.splitOn "=" with
    | [i, r] => do
      let i ← i.toNat?
      let r ← parseRat r
      pure (i, r)
    | _ => none) s
  if es.any (fun e => e.1 ≥ W) then none else
  pure (es.foldl (fun row e => row.set e.1 e.2) (List.replicate W 0))

def parseWidth (s : String) : Option Nat := if s = "max" then some maxMoveId else s.toNat?

/-- `nplies` plies of 10 tokens each; returns the lists and the remaining tokens -/
def parsePlies : Nat → List String →
    Option ((List Pos × List (List Move) × List (List Rat) × List Rat) × List String)
  | 0, rest => some (([], [], [], []), rest)
  | n + 1, toks => do
    let p ← parsePos (toks.take 7)
    match toks.drop 7 with
    | ms :: ps :: v :: rest =>
      let ms ← parseList ";" parseMoveC ms
      let ps ← parseRats ps
      let v ← parseRat v
      let ((P, M, Q, V), rest) ← parsePlies n rest
      pure ((p :: P, ms :: M, ps :: Q, v :: V), rest)
    | _ => none

def parseTranscript : List String → Option (Transcript × List String)
  | res :: n :: rest => do
    let result ← (if res = "W" then some (some Color.white) else if res = "B" then some (some Color.black)
      else if res = "N" then some none else none)
    let n ← n.toNat?
    let ((P, M, Q, V), rest) ← parsePlies n rest
    pure (⟨P, M, Q, V, result⟩, rest)
  | _ => none

def parseTranscripts : Nat → List String → Option (List Transcript × List String)
  | 0, rest => some ([], rest)
  | n + 1, toks => do
    let (t, rest) ← parseTranscript toks
    let (ts, rest) ← parseTranscripts n rest
    pure (t :: ts, rest)

def parseRows : Nat → List String → Option (List Row × List String)
  | 0, rest => some ([], rest)
  | n + 1, t :: m :: g :: rest => do
    let t ← parseToks t
    let m ← parseMask m
    let g ← parseRats g
    let (rs, rest) ← parseRows n rest
    pure (⟨t, m, g⟩ :: rs, rest)
  | _, _ => none

/-- compact form of a large batch: `<nb> (<token row> <mask row>)*nb <n> (<i>|<targets>)*n` —
    `nb` base rows and `n` occurrences, occurrence = index of its base row and its own targets;
    expanded here to the `n` rows of the batch -/
def parseCompact : List String → Option (List Row × List String)
  | nb :: rest => do
    let nb ← nb.toNat?
    if rest.length < 2 * nb then none else
    let rec base : Nat → List String → Option (List (List Nat × List Bool))
      | 0, _ => some []
      | k + 1, t :: m :: r => do
        let t ← parseToks t
        let m ← parseMask m
        let bs ← base k r
        pure ((t, m) :: bs)
      | _, _ => none
    let bs ← base nb rest
    let bsA := bs.toArray
    match rest.drop (2 * nb) with
    | n :: rest =>
      let n ← n.toNat?
      if rest.length < n then none else
      let rows ← (rest.take n).mapM fun o =>
        match o.splitOn "|" with
        | [i, g] => do
          let i ← i.toNat?
          let g ← parseRats g
          let (t, m) ← bsA[i]?
          pure (⟨t, m, g⟩ : Row)
        | _ => none
      pure (rows, rest.drop n)
    | [] => none
  | [] => none

def showRow (r : Row) : String := s!"{showToks r.toks} {showMask r.mask} {showRats r.tgt}"

def showRows (rs : List Row) : String :=
  " ".intercalate (toString rs.length :: rs.map showRow)

def showGameBatch (W : Nat) (gb : GameBatch) : String :=
  " ".intercalate <|
    [toString gb.positions.length, "P"] ++ gb.positions.map showToks ++ ["M"] ++ gb.mask.map showMask ++
    ["L", toString W] ++ gb.moves.map showSparse ++ ["V", showRats gb.values, "R", showRats gb.results]

/-- inverse of `showGameBatch` (every column with `n` rows) -/
def parseGameBatch : List String → Option (Nat × GameBatch)
  | n :: "P" :: rest => do
    let n ← n.toNat?
    let P ← (rest.take n).mapM parseToks
    match rest.drop n with
    | "M" :: rest =>
      let M ← (rest.take n).mapM parseMask
      match rest.drop n with
      | "L" :: w :: rest =>
        let w ← w.toNat?
        let L ← (rest.take n).mapM (parseSparse w)
        match rest.drop n with
        | ["V", v, "R", r] =>
          let v ← parseRats v
          let r ← parseRats r
          if P.length = n ∧ M.length = n ∧ L.length = n then pure (w, ⟨P, M, L, v, r⟩) else none
        | _ => none
      | _ => none
    | _ => none
  | _ => none

/-! ### predicates on implementation output -/

/-- which C12 clauses fail for `dedup_batch` output `out` on input `inp` -/
def dedupFailures (tol : Rat) (inp out : List Row) : List String :=
  (if dedupKeysOK inp out then [] else ["dedup-order"]) ++
  (if dedupMeanOK tol inp out then [] else ["dedup-mean"]) ++
  (if dedupIdOK inp out then [] else ["dedup-identity"]) ++
  (if dedupFirstOK inp out then [] else ["dedup-key-padding"])

/-- which C12 clauses fail for `encode_games` output `got`; by C12_rows / C12_dense / C12_labels the
    model's batch is the only one meeting them, column by column -/
def encodeGamesFailures (want got : GameBatch) : List String :=
  (if want.positions == got.positions && want.mask == got.mask && want.values == got.values
    then [] else ["row-order"]) ++
  (if want.moves == got.moves then [] else ["dense-target"]) ++
  (if want.results == got.results then [] else ["label"])

def showFailures (fs : List String) : String :=
  if fs.isEmpty then "ok" else "fail " ++ ",".intercalate fs

/-- ops:
  `dedup <n> <row>*n`                               → `ok <m> <row>*m`
  `check-dedup <tol> <n> <row>*n <m> <row>*m`       → `ok` | `fail <keys>`
  `dedup-compact <compact batch>`                   → `ok <m> <row>*m`
  `check-dedup-compact <tol> <compact batch> <m> <row>*m` → `ok` | `fail <keys>`
  `logits <W|max> <transcript>`                     → `ok <n> <sparse row>*n` | `crash`
  `encodegames <W|max> <g> <transcript>*g`          → `ok <game batch>` | `crash`
  `check-encodegames <W|max> <g> <transcript>*g <game batch>` → `ok` | `fail <keys>`
  `key <token row> <mask row>`                      → `ok <token row>`
-/
def handle : List String → Option String
  | "dedup" :: n :: rest => do
    let n ← n.toNat?
    let (rows, rest) ← parseRows n rest
    if !rest.isEmpty then none else
    pure ("ok " ++ showRows (dedupBatch rows))
  | "check-dedup" :: tol :: n :: rest => do
    let tol ← parseRat tol
    let n ← n.toNat?
    let (inp, rest) ← parseRows n rest
    match rest with
    | m :: rest =>
      let m ← m.toNat?
      let (out, rest) ← parseRows m rest
      if !rest.isEmpty then none else
      pure (showFailures (dedupFailures tol inp out))
    | [] => none
  | "dedup-compact" :: rest => do
    let (rows, rest) ← parseCompact rest
    if !rest.isEmpty then none else
    pure ("ok " ++ showRows (dedupBatch rows))
  | "check-dedup-compact" :: tol :: rest => do
    let tol ← parseRat tol
    let (inp, rest) ← parseCompact rest
    match rest with
    | m :: rest =>
      let m ← m.toNat?
      let (out, rest) ← parseRows m rest
      if !rest.isEmpty then none else
      pure (showFailures (dedupFailures tol inp out))
    | [] => none
  | "logits" :: w :: rest => do
    let W ← parseWidth w
    let (t, rest) ← parseTranscript rest
    if !rest.isEmpty then none else
    match t.logits W with
    | none => pure "crash"
    | some L => pure (" ".intercalate ("ok" :: toString L.length :: L.map showSparse))
  | "encodegames" :: w :: g :: rest => do
    let W ← parseWidth w
    let g ← g.toNat?
    let (logs, rest) ← parseTranscripts g rest
    if !rest.isEmpty then none else
    match encodeGames encodeTokens W logs with
    | none => pure "crash"
    | some gb => pure ("ok " ++ showGameBatch W gb)
  | "check-encodegames" :: w :: g :: rest => do
    let W ← parseWidth w
    let g ← g.toNat?
    let (logs, rest) ← parseTranscripts g rest
    let (w', got) ← parseGameBatch rest
    match encodeGames encodeTokens W logs with
    | none => pure "fail model-crash"
    | some want =>
      if w' ≠ W then pure "fail dense-target" else
      pure (showFailures (encodeGamesFailures want got))
  | ["key", t, m] => do
    let t ← parseToks t
    let m ← parseMask m
    pure ("ok " ++ showToks (key ⟨t, m, []⟩))
  | _ => none

end Tak.Driver.Batch

/-
  driver component `selfplay` (property C11)

  ops (tokens separated by blanks; rationals `n` or `n/d`; positions/moves as in Ser.lean):

    ok <cfg> <result> P <n> <pos7>*n  M <n> (<k> <move4>*k)*n  Q <n> (<k> <rat>*k)*n
       V <n> <rat>*n  Z <n> <rat>*n  C <n> <nat>*n  L <n> <rat>*n
         cfg    = <size> <threshold> <plyLimit> <eps>
         result = W | B | N (None) | X (anything that is neither None nor a colour)
         P/M/Q/V = Transcript.positions / moves / probs / values     (as observed)
         Z/C     = observer's trace: v_zero and sampled index per recorded position
         L       = Transcript.results
      → `ok`   when `TranscriptOK cfg eps outcome t trace labels` (decided by `decide`)
      → `fail:<clause>:<index>:<ending>` otherwise (first failing clause; how the observed
         game ended: resignation | plylimit | decided-W | decided-B | decided-N | unfinished)

    play <cfg> <n> (<k> (<move4> <pos7>)*k  <j> <rat>*j  <value> <sims> <v0> <chosen>)*n
      → `short` when the model asked for more than the `n` scripted answers, else
        `<stop> <answers-ok | answers-bad:i> <result> P … M … Q … V … L …`  (the model's run)

    outcome <pos7>  → none | draw | W | B      (the adjudication used by the two ops above)

  The adjudication is `SelfPlay.winnerOutcome`, i.e. `Impl.winner` of Model/Winner.lean (property
  C02: `Impl.winner p = Spec.outcome p`); the `outcome` op ties it to `Position.winner()` on every
  position a game records or ends in.
-/
import TakVerif.Driver.Ser
import TakVerif.Model.SelfPlay
import TakVerif.Spec.TranscriptOK

namespace Tak.Driver.SelfPlay
open Tak.Ser Tak.SelfPlay

/-! ### token parser -/

abbrev P := StateT (List String) Option

def tok : P String := fun
  | [] => none
  | t :: ts => some (t, ts)

def expect (s : String) : P Unit := do
  let t ← tok
  if t = s then pure () else failure

def nat : P Nat := do
  let t ← tok
  match t.toNat? with
  | some n => pure n
  | none => failure

def int : P Int := do
  let t ← tok
  match t.toInt? with
  | some n => pure n
  | none => failure

def parseRat (s : String) : Option Rat :=
  match s.splitOn "/" with
  | [n] => n.toInt?.map fun (i : Int) => (i : Rat)
  | [n, d] => do
    let n ← n.toInt?
    let d ← d.toNat?
    if d = 0 then none else pure ((n : Rat) / (d : Rat))
  | _ => none

def rat : P Rat := do
  let t ← tok
  match parseRat t with
  | some q => pure q
  | none => failure

def takeN (n : Nat) : P (List String) := fun ts =>
  if ts.length < n then none else some (ts.take n, ts.drop n)

def pos : P Pos := do
  let ts ← takeN 7
  match parsePos ts with
  | some p => pure p
  | none => failure

def move : P Move := do
  let ts ← takeN 4
  match parseMove ts with
  | some m => pure m
  | none => failure

def many {α : Type} (n : Nat) (p : P α) : P (List α) :=
  (List.range n).mapM fun _ => p

def counted {α : Type} (p : P α) : P (List α) := do
  let n ← nat
  many n p

def section_ {α : Type} (tag : String) (p : P α) : P (List α) := do
  expect tag
  counted p

def cfgP : P (SelfPlayConfig × Rat) := do
  let size ← nat
  let thr ← rat
  let lim ← int
  let eps ← rat
  pure (⟨size, thr, lim⟩, eps)

/-- `none` = the observed result is neither None nor a colour -/
def resultP : P (Option (Option Color)) := do
  let t ← tok
  match t with
  | "W" => pure (some (some .white))
  | "B" => pure (some (some .black))
  | "N" => pure (some none)
  | "X" => pure none
  | _ => failure

def showRat (q : Rat) : String :=
  if q.den = 1 then toString q.num else s!"{q.num}/{q.den}"

def showEnd : EndKind → String
  | .resignation => "resignation"
  | .plyLimit => "plylimit"
  | .decided (some .white) => "decided-W"
  | .decided (some .black) => "decided-B"
  | .decided none => "decided-N"
  | .unfinished => "unfinished"

def showList {α : Type} (tag : String) (f : α → String) (xs : List α) : String :=
  " ".intercalate ([tag, toString xs.length] ++ xs.map f)

def showTranscript (t : Transcript) : String :=
  " ".intercalate
    [showOptColor t.result,
     showList "P" showPos t.positions,
     showList "M" (fun ms => " ".intercalate (toString ms.length :: ms.map showMove)) t.moves,
     showList "Q" (fun ps => " ".intercalate (toString ps.length :: ps.map showRat)) t.probs,
     showList "V" showRat t.values]

def showStop : Stop → String
  | .cutoff => "cutoff"
  | .decided => "decided"
  | .resigned => "resigned"
  | .crashed => "crashed"
  | .outOfFuel => "out-of-fuel"

/-! ### ops -/

def okOp : P String := do
  let (cfg, eps) ← cfgP
  let res ← resultP
  let positions ← section_ "P" pos
  let moves ← section_ "M" (counted move)
  let probs ← section_ "Q" (counted rat)
  let values ← section_ "V" rat
  let v0s ← section_ "Z" rat
  let chosen ← section_ "C" nat
  let labels ← section_ "L" rat
  let rest ← get
  if !rest.isEmpty then failure
  let tr : Trace := ⟨v0s, chosen⟩
  let init := initialPos cfg.size
  match res with
  | none =>
    let t : Transcript := ⟨positions, moves, probs, values, none⟩
    pure s!"fail:result-type:{t.len}:{showEnd (endKind init cfg winnerOutcome t tr)}"
  | some r =>
    let t : Transcript := ⟨positions, moves, probs, values, r⟩
    if decide (TranscriptOK cfg eps winnerOutcome t tr labels) then pure "ok"
    else
      let e := showEnd (endKind init cfg winnerOutcome t tr)
      match firstFailure init cfg eps winnerOutcome t tr labels with
      | some (c, i) => pure s!"fail:{c}:{i}:{e}"
      | none => pure s!"fail:unknown:0:{e}"

def answerP : P Answer := do
  let children ← counted (do let m ← move; let p ← pos; pure (m, p))
  let probs ← counted rat
  let value ← rat
  let sims ← nat
  let v0 ← rat
  let chosen ← nat
  pure ⟨children, probs, value, sims, v0, chosen⟩

def playOp : P String := do
  let (cfg, eps) ← cfgP
  let script ← counted answerP
  let rest ← get
  if !rest.isEmpty then failure
  let oracle : Nat → Answer := fun i => script.getD i default
  let run := playRun cfg winnerOutcome oracle
  if run.log.len > script.length then pure "short"
  else
    let bad := firstBad run.log.len fun i => AnswerOK eps (run.log.pos i) (oracle i)
    let a := match bad with
      | none => "answers-ok"
      | some i => s!"answers-bad:{i}"
    pure s!"{showStop run.stop} {a} {showTranscript run.log} {showList "L" showRat run.log.results}"

def handle : List String → Option String
  | "ok" :: rest => (okOp.run rest).map (·.1)
  | "play" :: rest => (playOp.run rest).map (·.1)
  | "outcome" :: rest => do
    let p ← parsePos rest
    pure (match winnerOutcome p with
      | none => "none"
      | some none => "draw"
      | some (some c) => showColor c)
  | _ => none

end Tak.Driver.SelfPlay

/- driver component `heap`: the reference-level model of Position objects (C05) -/
import TakVerif.Driver.Ser
import TakVerif.Model.Heap

namespace Tak.Driver.Heap
open Tak.Ser Tak.HeapModel

def hposOf (p : Pos) (b : Ref) : HPos := ⟨p.size, p.wStones, p.wCaps, p.bStones, p.bCaps, p.ply, b⟩

def showResult : Except Err Pos → String
  | .ok q => s!"ok {showPos q}"
  | .error e => showErr e

/-- sharing description of a board handed in by the harness, one token per square:
    `n` own new list, `=j` the same list object as square `j` of this board, `k.i` the list
    object at square `i` of retained position `k`.  `-` = all `n`; `e` = every empty square
    refers to ONE list (as after `[[]] * n`). -/
def parseSrcTok (s : Stack) (t : String) : Option SqSrc :=
  if t = "n" then some (.fresh s)
  else if t.startsWith "=" then (t.drop 1).toNat?.map .own
  else match t.splitOn "." with
    | [k, i] => do
      let k ← k.toNat?
      let i ← i.toNat?
      pure (.shared k i)
    | _ => none

def aliasEmpty : List Stack → Nat → Option Nat → List SqSrc
  | [], _, _ => []
  | s :: rest, i, first =>
    if s.isEmpty then
      match first with
      | none => .fresh s :: aliasEmpty rest (i + 1) (some i)
      | some j => .own j :: aliasEmpty rest (i + 1) (some j)
    else .fresh s :: aliasEmpty rest (i + 1) first

def parseSrcs (board : List Stack) (spec : String) : Option (List SqSrc) :=
  if spec = "-" then some (board.map .fresh)
  else if spec = "e" then some (aliasEmpty board 0 none)
  else
    let toks := spec.splitOn ","
    if toks.length ≠ board.length then none
    else (board.zip toks).mapM fun (s, t) => parseSrcTok s t

/-- adopt a harness-described board into the world; `none` if the description is
    inconsistent (a shared list would not hold the stated content) -/
def adopt (w : World) (p : Pos) (spec : String) : Option (World × HPos) := do
  let srcs ← parseSrcs p.board spec
  let r := hAdopt w.heap w.kept (hposOf p 0) srcs
  let hp ← r.2
  if den r.1 hp = p then pure (⟨r.1, w.kept ++ [hp]⟩, hp) else none

def parseTable (s : String) : Option (List (Nat × Nat)) :=
  if s = "-" then some [] else
  (s.splitOn ",").mapM fun t =>
    match t.splitOn ":" with
    | [d, s] => do
      let d ← d.toNat?
      let s ← s.toNat?
      pure (d, s)
    | _ => none

def pcharOf : Char → Option PChar
  | '1' => some .one
  | '2' => some .two
  | 'S' => some .markS
  | 'C' => some .markC
  | _ => none

/-- one item of a TPS row, already split at `,` by the harness's own writer: `x`, `x3`, `12S` -/
def parseItem (t : String) : Option RowItem :=
  if t = "x" then some (.empties 1)
  else if t.startsWith "x" then (t.drop 1).toNat?.map .empties
  else (t.toList.mapM pcharOf).map .pieces

def parseRows (s : String) : Option (List (List RowItem)) :=
  (s.splitOn "/").mapM fun row => (row.splitOn ",").mapM parseItem

/-- abstract decode tokens: `E` empty, `T<letter>` a top piece, `Ua`/`Ud` a white/black flat
    under the top -/
def parseDTok (t : String) : Option DTok :=
  match t.toList with
  | ['E'] => some .empty
  | ['T', c] => (pieceOfChar c).map .top
  | ['U', 'a'] => some (.under .white)
  | ['U', 'd'] => some (.under .black)
  | _ => none

def parseDToks (s : String) : Option (List DTok) :=
  if s = "-" then some [] else (s.splitOn ",").mapM parseDTok

/-- number of distinct list objects among the squares of a position -/
def distinctCells (h : Heap) (hp : HPos) : Nat := (refsAt h hp.board).eraseDups.length

/-- split a token list at `;` -/
def splitOps : List String → List (List String)
  | [] => [[]]
  | t :: rest =>
    match splitOps rest with
    | [] => [[t]]
    | cur :: more => if t = ";" then [] :: cur :: more else (t :: cur) :: more

/-- one script operation; `created` records what each retained position denoted when it
    was created -/
def scriptStep (st : World × List Pos) (op : List String) : Option (World × List Pos) :=
  let (w, created) := st
  let keep (w' : World) : World × List Pos :=
    if w'.kept.length > w.kept.length then
      match w'.kept.getLast? with
      | some hp => (w', created ++ [den w'.heap hp])
      | none => (w', created)
    else (w', created)
  match op with
  | "new" :: rest => do
    let p ← parsePos (rest.take 7)
    let spec ← (rest.drop 7).head?
    let (w', _) ← adopt w p spec
    pure (keep w')
  | "mv" :: k :: rest => do
    let k ← k.toNat?
    let m ← parseMove rest
    if k < w.kept.length then pure (keep (step w (.move k m))) else none
  | ["tr", k, table] => do
    let k ← k.toNat?
    let table ← parseTable table
    if k < w.kept.length then pure (keep (step w (.transform k table))) else none
  | ["parse", ply, rows] => do
    let ply ← ply.toInt?
    let rows ← parseRows rows
    pure (keep (step w (.parse rows ply)))
  | "dec" :: rest => do
    let p ← parsePos (rest.take 6 ++ ["."])
    let toks ← (rest.drop 6).head? >>= parseDToks
    pure (keep (step w (.decode (hposOf p 0) toks)))
  | _ => none

/-- ops:
  `hmove <pos7> <sharing> <move4>` → `<ok pos|illegal|crash c> alloc=<n> frame=<b> src=<b>`
       (n = cells allocated by the call, frame = every old cell unchanged, src = the position
        moved from denotes the same value afterwards)
  `inplace <pos7> <sharing> <move4>` → the same for the deliberately wrong `hMovePlaceInPlace`
  `run <op> ; <op> ; …`  → `ok cells=<n> stable=<b> <pos7>|<pos7>|…`  (what every retained
        position denotes at the END; stable = each equals what it denoted when created)
  `parse <ply> <rows>`   → `<ok pos|illegal|crash c> cells=<distinct list objects on the board>`
  `decode <sc6> <toks>`  → `<ok pos|…>`
  `transform <pos7> <sharing> <table>` → `<ok pos|…> shared=<b>` (b = every square of the image
        is one of the source's own list objects)
-/
def handle : List String → Option String
  | "hmove" :: rest => do
    let p ← parsePos (rest.take 7)
    let spec ← (rest.drop 7).head?
    let m ← parseMove (rest.drop 8)
    let (w, hp) ← adopt World.empty p spec
    let r := hMove w.heap hp m
    let frame := decide (r.1.take w.heap.length = w.heap)
    let src := decide (den r.1 hp = p)
    pure s!"{showResult (denR r)} alloc={r.1.length - w.heap.length} frame={frame} src={src}"
  | "inplace" :: rest => do
    let p ← parsePos (rest.take 7)
    let spec ← (rest.drop 7).head?
    let m ← parseMove (rest.drop 8)
    let (w, hp) ← adopt World.empty p spec
    let r := hMovePlaceInPlace w.heap hp m
    let frame := decide (r.1.take w.heap.length = w.heap)
    let src := decide (den r.1 hp = p)
    pure s!"{showResult (denR r)} alloc={r.1.length - w.heap.length} frame={frame} src={src}"
  | "run" :: rest => do
    let ops := (splitOps rest).filter (· ≠ [])
    let (w, created) ← ops.foldlM scriptStep (World.empty, [])
    let now := w.kept.map (den w.heap)
    let stable := decide (now = created)
    pure s!"ok cells={w.heap.length} stable={stable} {"|".intercalate (now.map showPos)}"
  | ["parse", ply, rows] => do
    let ply ← ply.toInt?
    let rows ← parseRows rows
    let r := hParseTPS [] rows ply
    match r.2 with
    | .ok hp => pure s!"ok {showPos (den r.1 hp)} cells={distinctCells r.1 hp}"
    | .error e => pure (showErr e)
  | "decode" :: rest => do
    let p ← parsePos (rest.take 6 ++ ["."])
    let toks ← (rest.drop 6).head? >>= parseDToks
    pure (showResult (denR (hDecode [] (hposOf p 0) toks)))
  | "transform" :: rest => do
    let p ← parsePos (rest.take 7)
    let spec ← (rest.drop 7).head?
    let table ← (rest.drop 8).head? >>= parseTable
    let (w, hp) ← adopt World.empty p spec
    let r := hTransform w.heap hp table
    match r.2 with
    | .ok hp' =>
      let src := refsAt w.heap hp.board
      let shared := (refsAt r.1 hp'.board).all (src.contains ·)
      pure s!"ok {showPos (den r.1 hp')} shared={shared}"
    | .error e => pure (showErr e)
  | _ => none

end Tak.Driver.Heap

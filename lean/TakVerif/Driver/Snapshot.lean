/- driver component `snapshot`: the snapshot protocol model on scripted histories (C19) -/
import TakVerif.Driver.Ser
import TakVerif.Model.Snapshot

namespace Tak.Driver.Snapshot
open Tak.Snapshot

/-! ### text forms -/

def pad6 (n : Nat) : String :=
  let s := toString n
  String.ofList (List.replicate (6 - s.length) '0') ++ s

def showName : Name → String
  | .step n => s!"step_{pad6 n}"
  | .stepTmp n => s!"step_{pad6 n}.tmp"
  | .latest => "latest"
  | .latestTmp => "latest.tmp"
  | .saveNow => "SAVE_NOW"

def parseName (s : String) : Option Name :=
  if s == "latest" then some .latest
  else if s == "latest.tmp" then some .latestTmp
  else if s == "SAVE_NOW" then some .saveNow
  else if s.startsWith "step_" then
    let rest := (s.drop 5).toString
    if rest.endsWith ".tmp" then
      ((rest.dropEnd 4).toString.toNat?).map Name.stepTmp
    else rest.toNat?.map Name.step
  else none

def showFName : FName → String
  | .model => "model.pt"
  | .config => "config.yaml"
  | .opt => "opt.pt"
  | .replay => "replay_buffer.pt"
  | .elapsed => "elapsed.yaml"

def fnameOfLetter : Char → Option FName
  | 'm' => some .model
  | 'c' => some .config
  | 'o' => some .opt
  | 'r' => some .replay
  | 'e' => some .elapsed
  | _ => none

def showOp : Op → String
  | .mkdir d => s!"mkdir:{showName d}"
  | .create d f => s!"create:{showName d}/{showFName f}"
  | .finish d f _ => s!"finish:{showName d}/{showFName f}"
  | .unlinkIn d f => s!"unlinkin:{showName d}/{showFName f}"
  | .rmdir d => s!"rmdir:{showName d}"
  | .rename a b => s!"rename:{showName a}:{showName b}"
  | .unlink a _ => s!"unlink:{showName a}"
  | .symlink t a => s!"symlink:{showName t}:{showName a}"

/-- the train state the harness calls `<id>` at step `<step>` (tensors are abstract) -/
def mkState (id step : Nat) : TrainState := ⟨[id], [id], [[id]], ⟨step, id, id⟩⟩

def stateId (s : TrainState) : String :=
  match s.params, s.opt, s.replay with
  | [a], [b], [[c]] =>
    if a == b && b == c && c == s.elapsed.positions && c == s.elapsed.epoch then
      s!"{a}:{s.elapsed.step}" else "mixed"
  | _, _, _ => "mixed"

def showOutcome : Outcome → String
  | .fresh => "fresh"
  | .error => "error"
  | .loaded s => s!"loaded:{stateId s}"

/-- the `load_model` directory of the scripts holds the state the harness calls 900 -/
def parseLm : String → Option LoadModel
  | "lm=unset" => some .unset
  | "lm=model" => some (.modelOnly [900])
  | "lm=full" => some (.snapshot [900] [900])
  | _ => none

def showStart : Start → String
  | .fresh => "fresh"
  | .error => "error"
  | .loaded s => s!"loaded:{stateId s}"
  | .warm _ none => "warm:model"
  | .warm _ (some _) => "warm:full"

def contentTag : Content → String
  | .params [a] => s!"s{a}"
  | .opt [a] => s!"s{a}"
  | .replay [[a]] => s!"s{a}"
  | .elapsed e => s!"s{e.positions}"
  | .cfg => "cfg"
  | _ => "?"

def showFile : FName × File → String
  | (f, .part) => s!"{showFName f}=p"
  | (f, .full c) => s!"{showFName f}={contentTag c}"

def showNode : Name × Node → String
  | (n, .dir es) => s!"{showName n}" ++ "{" ++ ",".intercalate (es.map showFile) ++ "}"
  | (n, .link t) => s!"{showName n}->{showName t}"
  | (n, .flag) => s!"{showName n}"

def showFS (fs : FS) : String := if fs.isEmpty then "-" else ";".intercalate (fs.map showNode)

/-! ### scripts -/

inductive Proto | repaired | pinned | drafted

def parseProto : String → Option Proto
  | "repaired" => some .repaired
  | "pinned" => some .pinned
  | "drafted" => some .drafted
  | _ => none

def parseTrigger (s : String) : Option Trigger :=
  if s == "run" then some .afterRun
  else if s.startsWith "step" then (s.drop 4).toString.toNat?.map Trigger.afterStep
  else none

/-- the pinned / drafted hooks differ from the repaired one only in `save_snapshot` -/
def hookOpsP (p : Proto) (t : Trigger) (ord : Name → List FName) (s : TrainState) (fs : FS) :
    List Op :=
  let save : List Op :=
    match p with
    | .repaired => saveOps ord s fs
    | .pinned => saveOpsPinned s
    | .drafted => saveOpsDrafted ord s fs
  match t with
  | .afterRun => save
  | .afterStep freq =>
    if freq = 0 then []
    else if s.elapsed.step % freq = 0 then save
    else if (get fs .saveNow).isSome then .unlink .saveNow true :: save
    else []

/-- does the system call behind the operation succeed (a failing call leaves no trace in the
    harness's abstraction of the observed system calls) -/
def succeeds (op : Op) (fs : FS) : Bool :=
  match op.run fs with
  | none => false
  | some _ =>
    match op with
    | .mkdir d => (get fs d).isNone
    | .unlinkIn d f =>
      (match get fs d with
       | some (.dir es) => (get es f).isSome
       | _ => false)
    | .rmdir d =>
      (match get fs d with
       | some (.dir []) => true
       | _ => false)
    | .unlink a _ => (get fs a).isSome
    | _ => true

/-- all states reachable by crash prefixes, one per SUCCESSFUL operation, with that operation;
    stops at an operation that raises -/
def trace : List Op → FS → List (Op × FS)
  | [], _ => []
  | op :: r, fs =>
    match op.run fs with
    | none => []
    | some fs' => if succeeds op fs then (op, fs') :: trace r fs' else trace r fs'

inductive Ev
  | touch
  | save (t : Trigger) (s : TrainState)
  | crash (t : Trigger) (s : TrainState) (e : Nat)
  | enum (t : Trigger) (s : TrainState)

def parseEv (tok : String) : Option Ev :=
  match tok.splitOn ":" with
  | ["T"] => some .touch
  | ["S", t, id, step] => do pure (.save (← parseTrigger t) (mkState (← id.toNat?) (← step.toNat?)))
  | ["E", t, id, step] => do pure (.enum (← parseTrigger t) (mkState (← id.toNat?) (← step.toNat?)))
  | ["C", t, id, step, e] => do
    pure (.crash (← parseTrigger t) (mkState (← id.toNat?) (← step.toNat?)) (← e.toNat?))
  | _ => none

/-- `ord=<letters>` (default scan order) and `ord@<name>=<letters>` (for one directory) -/
structure OrdSpec where
  dflt : List FName
  per : List (Name × List FName)

def OrdSpec.fn (o : OrdSpec) : Name → List FName := fun n => (get o.per n).getD o.dflt

def parseLetters (s : String) : Option (List FName) := s.toList.mapM fnameOfLetter

def parseOrdTok (o : OrdSpec) (tok : String) : Option OrdSpec :=
  match tok.splitOn "=" with
  | ["ord", ls] => do pure { o with dflt := ← parseLetters ls }
  | [k, ls] =>
    if k.startsWith "ord@" then do
      let n ← parseName (k.drop 4).toString
      pure { o with per := (n, ← parseLetters ls) :: o.per }
    else none
  | _ => none

structure Acc where
  fs : FS := []
  steps : List (Op × FS) := []      -- successful operations of the enumerated hook calls
  marks : List Nat := []            -- number of successful operations at the end of each of them
  saved : List TrainState := []

def runEv (p : Proto) (ord : Name → List FName) (a : Acc) : Ev → Acc
  | .touch => { a with fs := put a.fs .saveNow .flag }
  | .save t s => { a with fs := runAll (hookOpsP p t ord s a.fs) a.fs }
  | .crash t s e =>
    let tr := trace (hookOpsP p t ord s a.fs) a.fs
    { a with fs := match (tr.take e).getLast? with
                   | some (_, fs') => fs'
                   | none => a.fs }
  | .enum t s =>
    let tr := trace (hookOpsP p t ord s a.fs) a.fs
    let fs' := match tr.getLast? with
               | some (_, fs') => fs'
               | none => a.fs
    { fs := fs', steps := a.steps ++ tr, marks := a.marks ++ [a.steps.length + tr.length],
      saved := a.saved ++ [s] }

structure Parsed where
  proto : Proto
  lm : LoadModel
  pre : List (OrdSpec × Ev)
  enums : List (OrdSpec × Ev)

def isEnum : Ev → Bool
  | .enum _ _ => true
  | _ => false

/-- tokens in order; an `ord…` token sets the scan order for the events that follow it -/
def parseToks : OrdSpec → List String → Option (List (OrdSpec × Ev))
  | _, [] => some []
  | o, t :: r =>
    if t.startsWith "ord" then do
      let o' ← parseOrdTok o t
      parseToks o' r
    else do
      let e ← parseEv t
      let rest ← parseToks o r
      pure ((o, e) :: rest)

def parseScript (toks : List String) : Option Parsed := do
  let (ptok, rest) ← match toks with
    | p :: r => some (p, r)
    | [] => none
  let proto ← parseProto ptok
  let lmToks := rest.filter (·.startsWith "lm=")
  let rest := rest.filter (fun t => !t.startsWith "lm=")
  let lm ← match lmToks with
    | [] => some LoadModel.unset
    | [t] => parseLm t
    | _ => none
  let evs ← parseToks { dflt := [], per := [] } rest
  let pre := evs.takeWhile (fun e => !isEnum e.2)
  let enums := evs.dropWhile (fun e => !isEnum e.2)
  if enums.all (fun e => isEnum e.2 || (match e.2 with | .touch => true | _ => false)) then
    pure { proto, lm, pre, enums }
  else none

/-- (state before the enumerated part, accumulated enumeration) -/
def evalScript (p : Parsed) : FS × Acc :=
  let step := fun (a : Acc) (oe : OrdSpec × Ev) => runEv p.proto oe.1.fn a oe.2
  let a0 := p.pre.foldl step {}
  (a0.fs, p.enums.foldl step { fs := a0.fs })

/-- the conclusion of `C19_crash_consistent_load_model` / `C19_roundtrip` as a check on OBSERVED
    starts: `prev` = how a run started from the directory before this hook call, `new` = the
    state being saved, `done` = the call ran to its end -/
def verdict (prev : Start) (new : TrainState) (done : Bool) (obs : Start) : String :=
  if obs = .error then "partial-snapshot-live"
  else if obs = .loaded new then "ok"
  else if done then "roundtrip-mismatch"
  else if obs = prev then "ok"
  else match obs with
    | .fresh => "resume-fresh-after-crash"
    | .warm _ _ => "resume-fresh-after-crash"
    | _ => "roundtrip-mismatch"

def parseStart (s : String) : Option Start :=
  match s.splitOn ":" with
  | ["fresh"] => some .fresh
  | ["error"] => some .error
  | ["warm", "model"] => some (.warm [900] none)
  | ["warm", "full"] => some (.warm [900] (some [900]))
  | ["loaded", id, step] => do pure (.loaded (mkState (← id.toNat?) (← step.toNat?)))
  | ["loaded", "mixed"] => some (.loaded ⟨[], [], [], ⟨0, 0, 0⟩⟩)
  | _ => none

/-- ops:
  `ops <proto> [ord…] <events…>`      → successful operations of the enumerated (`E:`) hook calls
  `predict <proto> [lm=unset|model|full] [ord…] <events…>` → how a run with that `load_model`
                                        starts after each crash prefix (0..n successful ops)
  `fsafter <proto> [ord…] <events…>`  → run directory after each crash prefix
  `verdict <prev> <id> <step> <done:0|1> <observed>` → `ok` | failure key
  `window <k> <n>`                    → replay buffer after pushing batches 0..n-1
  events: `T` | `S:<trig>:<id>:<step>` | `C:<trig>:<id>:<step>:<e>` | `E:<trig>:<id>:<step>`,
  `<trig>` = `run` | `step<freq>`
-/
def handle : List String → Option String
  | "ops" :: rest => do
    let p ← parseScript rest
    let (_, a) := evalScript p
    pure (s!"n={a.steps.length} marks={",".intercalate (a.marks.map toString)} ops="
      ++ " ".intercalate (a.steps.map (fun x => showOp x.1)))
  | "predict" :: rest => do
    let p ← parseScript rest
    let (fs0, a) := evalScript p
    pure (" ".intercalate ((fs0 :: a.steps.map (·.2)).map (fun fs => showStart (resumeWith p.lm fs))))
  | "fsafter" :: rest => do
    let p ← parseScript rest
    let (fs0, a) := evalScript p
    pure (" ".intercalate ((fs0 :: a.steps.map (·.2)).map showFS))
  | ["verdict", prev, id, step, done, obs] => do
    let prev ← parseStart prev
    let obs ← parseStart obs
    pure (verdict prev (mkState (← id.toNat?) (← step.toNat?)) (done == "1") obs)
  | ["window", k, n] => do
    let k ← k.toNat?
    let n ← n.toNat?
    pure (",".intercalate ((pushes k [] (List.range n)).map toString))
  | _ => none

end Tak.Driver.Snapshot

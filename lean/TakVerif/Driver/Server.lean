/-
  Driver component `server` (C17).

    server trace <cap> <mode> <event>…       → ok fair=<0|1> pending=<n> <id>=<resp> …   (answered, delivery order)
                                               | invalid:<reason>@<event index>
    server judge <cap> <mode> <event>… | <id>=<resp>… | <idle 0|1>
                                             → ok | violation <key> id=<id> [other=<id>] expected=<resp>
    server progress <Q:<id>|D|X:<id>>…       → ok | violation starved id=<id> depth=<k> completions=<n>
                                               (Q = entered the queue, D = model call completed, X = caller answered)
    server bytes <hex32>…                    → ok <hex bytes|-> <hex32>…      (encode, then decode)
    server unbytes <hex bytes|->             → ok <hex32>… | refused           (decode only)

  events:  A:<id>:<t.t.t|->   E:<id>   T:<id>   R:<n>   D   L:<id>
           (L = the caller of request <id> went away: Model/ServerLeave.lean; `trace` then lists the
            responses DELIVERED, `pending` counts the callers still waiting, and `judge` expects no
            response for a caller that left)
  mode fp  : the row model is `Tak.Server.fingerprint`, responses are written `<value>/<i.i.i|->`
  mode cls : the row model maps a position to `c<k>/c<k>`, k = smallest arrived id with these tokens (used when
             the implementation serves a real network and the harness has classified each
             response by the local evaluation it equals)
-/
import TakVerif.Model.Server
import TakVerif.Model.ServerLeave

namespace Tak.Driver.Server

open Tak.Server

def parseDots (s : String) : Option (List Nat) :=
  if s = "-" then some [] else (s.splitOn ".").mapM String.toNat?

def showDots (l : List Nat) : String :=
  if l.isEmpty then "-" else ".".intercalate (l.map toString)

def parseEvent (s : String) : Option Event :=
  match s.splitOn ":" with
  | ["A", id, toks] => do
    let id ← id.toNat?
    let toks ← parseDots toks
    pure (.arrive id toks)
  | ["E", id] => id.toNat?.map .enter
  | ["T", id] => id.toNat?.map .take
  | ["R", n] => n.toNat?.map .run
  | ["D"] => some .done
  | _ => none

def parseLEvent (s : String) : Option LEvent :=
  match s.splitOn ":" with
  | ["L", id] => id.toNat?.map .leave
  | _ => (parseEvent s).map .ev

def baseEvents : List LEvent → List Event
  | [] => []
  | .ev e :: es => e :: baseEvents es
  | .leave _ :: es => baseEvents es

def leftOf : List LEvent → List Nat
  | [] => []
  | .leave i :: es => i :: leftOf es
  | .ev _ :: es => leftOf es

def showFp (r : List Nat × Nat) : String := s!"{r.2}/{showDots r.1}"

def fpModel (toks : List Nat) : String := showFp (fingerprint toks)

def arrivalsOf : List Event → List (Req (List Nat))
  | [] => []
  | .arrive id toks :: es => ⟨id, toks⟩ :: arrivalsOf es
  | _ :: es => arrivalsOf es

def servedOf : List Event → List Nat
  | [] => []
  | .take id :: es => id :: servedOf es
  | _ :: es => servedOf es

/-- `c<smallest id among the arrivals carrying the same tokens>` -/
def clsModel (arrivals : List (Req (List Nat))) (toks : List Nat) : String :=
  match (arrivals.filter fun r => r.position == toks).map (·.id) with
  | [] => "c?/c?"
  | i :: is => s!"c{is.foldl min i}/c{is.foldl min i}"

def modelOf (mode : String) (es : List Event) : Option (List Nat → String) :=
  if mode = "fp" then some fpModel
  else if mode = "cls" then some (clsModel (arrivalsOf es))
  else none

def parseDelivery (s : String) : Option (Nat × String) :=
  match s.splitOn "=" with
  | [id, r] => id.toNat?.map fun i => (i, r)
  | _ => none

def splitBar (l : List String) : List (List String) :=
  l.foldr (fun t acc =>
    match acc with
    | [] => [[]]  -- unreachable: acc starts non-empty
    | cur :: rest => if t = "|" then [] :: cur :: rest else (t :: cur) :: rest) [[]]

def handleTrace (cap : Nat) (mode : String) (evs : List String) : Option String := do
  let les ← evs.mapM parseLEvent
  let es := baseEvents les
  let f ← modelOf mode es
  match lcheckTrace cap f linit 0 les with
  | .error (i, msg) => pure s!"invalid:{msg}@{i}"
  | .ok s =>
    let fair := if ltraceFair cap f linit les then 1 else 0
    let ans := s.delivered.map fun (i, r) => s!"{i}={r}"
    pure (" ".intercalate (["ok", s!"fair={fair}", s!"pending={s.waiting.length}"] ++ ans))

/-- responses are written `c₁/c₂/…`: some component of `resp` differs from `own`'s and equals
    `other`'s -/
def borrowedStr (own other resp : String) : Bool :=
  let zs := (resp.splitOn "/").zip ((own.splitOn "/").zip (other.splitOn "/"))
  zs.any fun (r, o, x) => r != o && r == x

def expectedOf (f : List Nat → String) (arr : List (Req (List Nat))) (id : Nat) : String :=
  match positionOf arr id with
  | some p => f p
  | none => "?"

def handleJudge (cap : Nat) (mode : String) (rest : List String) : Option String := do
  let _ := cap
  match splitBar rest with
  | [evs, dels, [idle]] =>
    let les ← evs.mapM parseLEvent
    let es := baseEvents les
    let f ← modelOf mode es
    let ds ← dels.mapM parseDelivery
    let idle ← (if idle = "1" then some true else if idle = "0" then some false else none)
    let left := leftOf les
    let arr := (arrivalsOf es).filter fun r => !left.contains r.id
    match judge f borrowedStr arr (servedOf es) ds idle with
    | .ok => pure "ok"
    | .wrongRecipient id o =>
      pure s!"violation wrong-recipient id={id} other={o} expected={expectedOf f arr id}"
    | .notLocalEqual id => pure s!"violation not-local-equal id={id} expected={expectedOf f arr id}"
    | .answeredTwice id => pure s!"violation answered-twice id={id}"
    | .unanswered id => pure s!"violation unanswered id={id} expected={expectedOf f arr id}"
    | .unknownId id => pure s!"violation unknown-id id={id}"
  | _ => none

def parseObs (s : String) : Option Obs :=
  match s.splitOn ":" with
  | ["Q", id] => id.toNat?.map .entered
  | ["X", id] => id.toNat?.map .answered
  | ["D"] => some .completed
  | _ => none

def handleProgress (toks : List String) : Option String := do
  let os ← toks.mapM parseObs
  match firstStarved [] os with
  | none => pure "ok"
  | some x => pure s!"violation starved id={x.id} depth={x.depth} completions={x.seen}"

/-! hex -/

def hexDigit (c : Char) : Option Nat :=
  if '0' ≤ c ∧ c ≤ '9' then some (c.toNat - '0'.toNat)
  else if 'a' ≤ c ∧ c ≤ 'f' then some (c.toNat - 'a'.toNat + 10)
  else if 'A' ≤ c ∧ c ≤ 'F' then some (c.toNat - 'A'.toNat + 10)
  else none

def parseHex (s : String) : Option Nat :=
  if s.isEmpty then none
  else s.toList.foldlM (fun acc c => (hexDigit c).map fun d => acc * 16 + d) 0

def hexChar (n : Nat) : Char :=
  if n < 10 then Char.ofNat ('0'.toNat + n) else Char.ofNat ('a'.toNat + (n - 10))

def showHex (digits n : Nat) : String :=
  String.ofList ((List.range digits).reverse.map fun i => hexChar (n / 16 ^ i % 16))

def parseWord (s : String) : Option (BitVec 32) :=
  if s.length = 8 then (parseHex s).map (BitVec.ofNat 32) else none

def parseBytes : List Char → Option (List (BitVec 8))
  | [] => some []
  | a :: b :: rest => do
    let x ← hexDigit a
    let y ← hexDigit b
    let tl ← parseBytes rest
    pure (BitVec.ofNat 8 (x * 16 + y) :: tl)
  | _ => none

def showBytes (bs : List (BitVec 8)) : String :=
  if bs.isEmpty then "-" else String.join (bs.map fun b => showHex 2 b.toNat)

def showWords (ws : List (BitVec 32)) : List String := ws.map fun w => showHex 8 w.toNat

def handleBytes (args : List String) : Option String := do
  let ws ← args.mapM parseWord
  let bs := encodeLE ws
  match decodeLE bs with
  | some back => pure (" ".intercalate (["ok", showBytes bs] ++ showWords back))
  | none => pure "refused"

def handleUnbytes (arg : String) : Option String := do
  let bs ← (if arg = "-" then some [] else parseBytes arg.toList)
  match decodeLE bs with
  | some ws => pure (" ".intercalate ("ok" :: showWords ws))
  | none => pure "refused"

def handle : List String → Option String
  | "trace" :: cap :: mode :: evs => do
    let cap ← cap.toNat?
    handleTrace cap mode evs
  | "judge" :: cap :: mode :: rest => do
    let cap ← cap.toNat?
    handleJudge cap mode rest
  | "progress" :: toks => handleProgress toks
  | "bytes" :: args => handleBytes args
  | ["unbytes", arg] => handleUnbytes arg
  | _ => none

end Tak.Driver.Server

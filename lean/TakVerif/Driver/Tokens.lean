/- driver component `tokens`: encode / decode / encodeBatch of Model/Tokens.lean and the
   C06 predicates of Spec/Tokens.lean evaluated on implementation data -/
import TakVerif.Driver.Ser
import TakVerif.Model.Tokens
import TakVerif.Spec.Tokens

namespace Tak.Driver.Tokens
open Tak.Ser Tak.Tokens

/-- token list: `t,t,…`, the empty list is `-` -/
def parseToks (s : String) : Option (List Nat) :=
  if s = "-" then some [] else (s.splitOn ",").mapM String.toNat?

def showToks (ts : List Nat) : String :=
  if ts.isEmpty then "-" else ",".intercalate (ts.map toString)

/-- list of rows: `row;row;…`, no rows at all is `.` -/
def parseRows (s : String) : Option (List (List Nat)) :=
  if s = "." then some [] else (s.splitOn ";").mapM parseToks

def showRows (rows : List (List Nat)) : String :=
  if rows.isEmpty then "." else ";".intercalate (rows.map showToks)

def boolsOfNats (r : List Nat) : List Bool := r.map (· != 0)
def natsOfBools (r : List Bool) : List Nat := r.map (fun b => if b then 1 else 0)

def parseFlag : String → Option Bool
  | "0" => some false
  | "1" => some true
  | _ => none

/-- ops:
  `encode <0|1> <pos7>`              → `t,t,…` | `crash IndexError`           (encodeE)
  `decode <tokens>`                  → `ok <pos>` | `err`                      (decode)
  `batch <rows>`                     → `<out rows> | <mask rows>`              (encodeBatch)
  `swap <pos7>`                      → `<pos>`                                 (swapColours)
  `encwf <pos7>`                     → `true` | `false`
  `layout <0|1> <pos7>`              → `t,t,…`                                 (Spec layout)
  `roundtrip <pos7> <pos7>`          → `ok` | `board` | `size` | `tomove` | `reserves`
  `sametriple <pos7> <pos7>`         → `true` | `false`   (same size, board, side to move, reserves)
  `twin <0|1> <tokens> <tokens>`     → `true` | `false`
  `bytes <tokens>`                   → `true` | `false`
  `batchok <rows> <out> <mask>`      → `ok` | `mask` | `row`
-/
def handle : List String → Option String
  | "encode" :: s :: rest => do
    let s ← parseFlag s
    let p ← parsePos rest
    pure (match encodeE p s with
      | .ok ts => showToks ts
      | .error e => showErr e)
  | ["decode", ts] => do
    let ts ← parseToks ts
    pure (match decode ts with
      | .ok q => s!"ok {showPos q}"
      | .error _ => "err")
  | ["batch", rows] => do
    let rows ← parseRows rows
    let (out, mask) := encodeBatch rows
    pure s!"{showRows out} | {showRows (mask.map natsOfBools)}"
  | "swap" :: rest => do
    let p ← parsePos rest
    pure (showPos (swapColours p))
  | "encwf" :: rest => do
    let p ← parsePos rest
    pure (toString (decide (EncWF p)))
  | "layout" :: s :: rest => do
    let s ← parseFlag s
    let p ← parsePos rest
    pure (showToks (layout p s))
  | "roundtrip" :: rest => do
    let p ← parsePos (rest.take 7)
    let q ← parsePos (rest.drop 7)
    pure (roundTripVerdict p q)
  | "sametriple" :: rest => do
    let p ← parsePos (rest.take 7)
    let q ← parsePos (rest.drop 7)
    pure (toString (roundTripVerdict p q == "ok"))
  | ["twin", s, a, b] => do
    let s ← parseFlag s
    let a ← parseToks a
    let b ← parseToks b
    pure (toString (twinOK s a b))
  | ["bytes", ts] => do
    let ts ← parseToks ts
    pure (toString (ts.all (· ≤ 255)))
  | ["batchok", rows, out, mask] => do
    let rows ← parseRows rows
    let out ← parseRows out
    let mask ← parseRows mask
    pure (batchVerdict rows out (mask.map boolsOfNats))
  | _ => none

end Tak.Driver.Tokens

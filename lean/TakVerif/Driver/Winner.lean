/- driver component `winner`: Impl.winner / Impl.hasRoad (model of game.py) and the
   executable formulation of the specification (Spec.outcomeB, closure by rounds) -/
import TakVerif.Driver.Ser
import TakVerif.Model.Winner
import TakVerif.Spec.Road

namespace Tak.Driver.Winner
open Tak.Ser

def showReason : Option WinReason → String
  | some .road => "ROAD"
  | some .flats => "FLATS"
  | none => "NONE"

def showOutcome (o : Outcome) : String := s!"{showOptColor o.1} {showReason o.2}"

def bit (b : Bool) : String := if b then "1" else "0"

/-- ops (a position that is not well formed answers `bad-op`: the theorems are stated under `WF`):
  `winner <pos7>`   → `<W|B|N> <ROAD|FLATS|NONE>`       Impl.winner   (flood fill model)
  `hasroad <pos7>`  → `W|B|N`                            Impl.hasRoad
  `both <pos7>`     → `<W|B|N> <ROAD|FLATS|NONE> <W|B|N>`  Impl.winner then Impl.hasRoad (one line for both)
  `spec <pos7>`     → `<W|B|N> <ROAD|FLATS|NONE>`       Spec.outcomeB (closure by rounds)
  `specroad <pos7>` → `W|B|N`                            Spec.roadAnswerB
  `specboth <pos7>` → `<W|B|N> <ROAD|FLATS|NONE> <W|B|N>`  Spec.outcomeB then Spec.roadAnswerB
  `facts <pos7>`    → `wroad=<0|1> broad=<0|1> full=<0|1> wempty=<0|1> bempty=<0|1> wflats=<n> bflats=<n> justmoved=<W|B>`
                      the ingredients of the specification's verdict (for classifying a failure)
-/
def handle : List String → Option String
  | "winner" :: rest => do
    let p ← parsePos rest
    if ¬ p.WF then none else
    pure (showOutcome (Impl.winner p))
  | "hasroad" :: rest => do
    let p ← parsePos rest
    if ¬ p.WF then none else
    pure (showOptColor (Impl.hasRoad p))
  | "both" :: rest => do
    let p ← parsePos rest
    if ¬ p.WF then none else
    pure (showOutcome (Impl.winner p) ++ " " ++ showOptColor (Impl.hasRoad p))
  | "specboth" :: rest => do
    let p ← parsePos rest
    if ¬ p.WF then none else
    pure (showOutcome (Spec.outcomeB p) ++ " " ++ showOptColor (Spec.roadAnswerB p))
  | "spec" :: rest => do
    let p ← parsePos rest
    if ¬ p.WF then none else
    pure (showOutcome (Spec.outcomeB p))
  | "specroad" :: rest => do
    let p ← parsePos rest
    if ¬ p.WF then none else
    pure (showOptColor (Spec.roadAnswerB p))
  | "facts" :: rest => do
    let p ← parsePos rest
    if ¬ p.WF then none else
    pure (s!"wroad={bit (Spec.roadB p .white)} broad={bit (Spec.roadB p .black)} " ++
          s!"full={bit (decide (Spec.BoardFull p))} " ++
          s!"wempty={bit (decide (Spec.ReserveEmpty p .white))} bempty={bit (decide (Spec.ReserveEmpty p .black))} " ++
          s!"wflats={Spec.topFlats p .white} bflats={Spec.topFlats p .black} " ++
          s!"justmoved={showColor (Spec.justMoved p)}")
  | _ => none

end Tak.Driver.Winner

/-
  driver component `pool` (C18)

    pool predict <W> <failcode> <N1,N2,…> <fault>*      → `ok <seq>|<seq>|…`
        every outcome sequence the model admits for consecutive `play_many(N1)`, `play_many(N2)`, …
        on one engine under the fault script, by exhaustive exploration of ALL interleavings of
        `Tak.Pool.step?`.  A sequence is one word per request, comma separated:
        `returns` (exactly N, by C18_exact) | `raises` | `hangs`; it ends at the first non-`returns`.
        faults:  factory:j        worker j's engine factory raises
                 game:j:k         the k-th game taken by worker j (over all requests) raises
                 killplay:j:k     worker j is SIGKILLed during its k-th game
                 killwait:j:r     worker j is SIGKILLed while idle, before request r (1-based) starts
                 killinit:j       worker j is SIGKILLed while still inside its engine factory
    pool verdict <N> <fault kind> returned <n> <dups> <carried>
    pool verdict <N> <fault kind> raised <ms> 0 0
    pool verdict <N> <fault kind> blocked 0 0 0          → `ok` | `violation <key>`
    pool predict-call <W> <failcode> <N> <fault>*        → same for ONE `play_many_games(cfg, N)` call
        (try: play_many finally: stop()): `returns` | `raises` (RuntimeError or queue.Full) | `hangs`
    pool predict-stop …                                  → as `predict`, but a raising request is
        `raises/stop-returns` or `raises/stop-raises`: what the `stop()` that follows does
        (`Tak.Pool.stopAfterRaise` on the |cmd| of the raising state).  Both are loud; the property does
        not care which, so the tie uses `predict` and only records agreement with this finer answer.
    pool stopverdict <W> <exited> <after: returned|raised> <returned|raised|blocked>
                                                         → `ok` | `violation stop-does-not-join|stop-hangs-after-failure`
    pool run <N> <W> <failcode> <act>*                   → state after the actions | `disabled <i>`
-/
import TakVerif.Driver.Ser
import TakVerif.Model.Pool
import Std.Data.HashSet

namespace Tak.Driver.Pool
open Tak.Pool

inductive Fault where
  | factory (j : Nat)
  | game (j k : Nat)
  | killplay (j k : Nat)
  | killwait (j r : Nat)
  | killinit (j : Nat)
  deriving DecidableEq, Repr

/-- exploration state: model state + games taken so far by each worker -/
structure X where
  s : State
  taken : List Nat
  deriving DecidableEq, Hashable

def parseFault (t : String) : Option Fault :=
  match t.splitOn ":" with
  | ["factory", j] => do pure (.factory (← j.toNat?))
  | ["game", j, k] => do pure (.game (← j.toNat?) (← k.toNat?))
  | ["killplay", j, k] => do pure (.killplay (← j.toNat?) (← k.toNat?))
  | ["killwait", j, r] => do pure (.killwait (← j.toNat?) (← r.toNat?))
  | ["killinit", j] => do pure (.killinit (← j.toNat?))
  | _ => none

/-- the successors of `x` that the fault script allows (poll excluded) -/
def succs (c : Cfg) (fs : List Fault) (x : X) : List X :=
  let parent := [Act.put, Act.recv].filterMap fun a => (step? c x.s a).map fun s' => { x with s := s' }
  let workers := (List.range c.W).flatMap fun j =>
    let k := x.taken.getD j 0
    let mk (a : Act) : List X := ((step? c x.s a).map fun s' => { x with s := s' }).toList
    let start :=
      if fs.contains (.factory j) then mk (.factoryFail j)
      else if fs.contains (.killinit j) then
        (if x.s.ws[j]? = some .init then mk (.kill j) else [])
      else mk (.start j)
    -- games are counted only for workers the script has a game-indexed fault for
    let counted := fs.any fun f => match f with
      | .game j' _ => j' == j | .killplay j' _ => j' == j | _ => false
    let take := ((step? c x.s (.take j)).map fun s' =>
      ({ s := s', taken := if counted then x.taken.set j (k + 1) else x.taken } : X)).toList
    let fin :=
      if fs.contains (.game j k) then mk (.gameFail j)
      else if fs.contains (.killplay j k) then
        (if x.s.ws[j]? = some .playing then mk (.kill j) else [])
      else mk (.finish j)
    start ++ take ++ fin ++ mk (.deliver j)
  parent ++ workers

structure Acc where
  dones : List X := []
  raises : Bool := false       -- some raising state exists
  stopOk : Bool := false       -- … at which the following `stop()` returns
  stopFull : Bool := false     -- … at which the following `stop()` raises `queue.Full`
  hangs : Bool := false

/-- worklist exploration of one request; `none` when the fuel runs out -/
def explore (c : Cfg) (fs : List Fault) : Nat → List X → Std.HashSet X → Acc → Option Acc
  | 0, [], _, acc => some acc
  | 0, _ :: _, _, _ => none
  | _ + 1, [], _, acc => some acc
  | fuel + 1, x :: rest, seen, acc =>
    if x.s.phase = .running ∧ x.s.logs = c.N then
      explore c fs fuel rest seen { acc with dones := x :: acc.dones }
    else
      let raisesHere := match step? c x.s .poll with
        | some s' => s'.phase == .raised
        | none => false
      let nxt := succs c fs x
      let sr := stopAfterRaise false (2 * c.W) x.s.cmd c.W
      let acc := { acc with raises := acc.raises || raisesHere,
                            stopOk := acc.stopOk || (raisesHere && sr == .joined),
                            stopFull := acc.stopFull || (raisesHere && sr == .full),
                            hangs := acc.hangs || (nxt.isEmpty && !raisesHere) }
      let (rest, seen) := nxt.foldl (fun (p : List X × Std.HashSet X) y =>
        if p.2.contains y then p else (y :: p.1, p.2.insert y)) (rest, seen)
      explore c fs fuel rest seen acc

def fuel0 : Nat := 4000000

def dedup (l : List String) : List String :=
  l.foldl (fun acc s => if acc.contains s then acc else acc ++ [s]) []

/-- apply the `killwait` faults of request `r` -/
def applyKills (c : Cfg) (fs : List Fault) (r : Nat) (x : X) : X :=
  fs.foldl (fun x f => match f with
    | .killwait j r' => if r' = r then
        (match step? c x.s (.kill j) with | some s' => { x with s := s' } | none => x) else x
    | _ => x) x

/-- outcome sequences for requests `ns` (request index `r`, 1-based) from the start states `xs` -/
def outcomes (call : Bool) (W : Nat) (fc : Int) (fs : List Fault) : List Nat → Nat → List X → Option (List String)
  | [], _, _ => some [""]
  | n :: ns, r, xs => do
    let c : Cfg := { N := n, W := W, failCode := fc }
    let starts := dedupX (xs.map fun x => applyKills c fs r { x with s := x.s.nextRequest n })
    let acc ← explore c fs fuel0 starts (Std.HashSet.ofList starts) {}
    let tail ← if acc.dones.isEmpty then some [] else outcomes call W fc fs ns (r + 1) acc.dones
    -- `call` = the whole `play_many_games` call (try/finally stop()): any exception is `raises`
    let raisesWords :=
      if call then (if acc.raises then ["raises"] else [])
      else (if acc.stopOk then ["raises/stop-returns"] else []) ++
           (if acc.stopFull then ["raises/stop-raises"] else [])
    let here := raisesWords ++ (if acc.hangs then ["hangs"] else [])
    let cont := tail.map fun t => if t = "" then "returns" else "returns," ++ t
    some (dedup (here ++ cont))
where
  dedupX (l : List X) : List X := l.foldl (fun acc x => if acc.contains x then acc else x :: acc) []

def sortStrings (l : List String) : List String := (l.toArray.qsort (· < ·)).toList

def parseNats (s : String) : Option (List Nat) := (s.splitOn ",").mapM String.toNat?

def showW : WState → String
  | .init => "init" | .waiting => "waiting" | .playing => "playing" | .holding => "holding"
  | .dead k => s!"dead({k})"

def showState (s : State) : String :=
  s!"todo={s.todo} cmd={s.cmd} games={s.games} logs={s.logs} lost={s.lost} " ++
  s!"phase={if s.phase = .running then "running" else "raised"} ws={",".intercalate (s.ws.map showW)}"

def parseAct (t : String) : Option Act :=
  match t.splitOn ":" with
  | ["put"] => some .put | ["recv"] => some .recv | ["poll"] => some .poll
  | ["start", j] => j.toNat?.map .start | ["take", j] => j.toNat?.map .take
  | ["finish", j] => j.toNat?.map .finish | ["deliver", j] => j.toNat?.map .deliver
  | ["factoryFail", j] => j.toNat?.map .factoryFail | ["gameFail", j] => j.toNat?.map .gameFail
  | ["kill", j] => j.toNat?.map .kill
  | _ => none

def runActs (c : Cfg) : State → List Act → Nat → String
  | s, [], _ => "ok " ++ showState s
  | s, a :: as, i => match step? c s a with
    | some s' => runActs c s' as (i + 1)
    | none => s!"disabled {i}"

def parseKind : String → Option FaultKind
  | "none" => some .none | "factory" => some .factory | "game" => some .game | "kill" => some .kill
  | _ => none

def showVerdict : Option String → String
  | none => "ok"
  | some k => "violation " ++ k

def predictH (call : Bool) (w fc ns : String) (faults : List String) : Option String := do
    let W ← w.toNat?
    let fc ← fc.toInt?
    let ns ← parseNats ns
    let fs ← faults.mapM parseFault
    if W = 0 ∨ ns.isEmpty then none
    let x0 : X := { s := fresh { N := 0, W := W, failCode := fc }, taken := List.replicate W 0 }
    let out ← outcomes call W fc fs ns 1 [x0]
    some ("ok " ++ "|".intercalate (sortStrings out))

def handle : List String → Option String
  | "predict" :: w :: fc :: ns :: faults => predictH true w fc ns faults
  | "predict-call" :: w :: fc :: ns :: faults => predictH true w fc ns faults
  | "predict-stop" :: w :: fc :: ns :: faults => predictH false w fc ns faults
  | ["verdict", n, kind, what, a, dups, carried] => do
    let N ← n.toNat?
    let kind ← parseKind kind
    let a ← a.toNat?
    let dups ← dups.toNat?
    let carried ← carried.toNat?
    let oc ← match what with
      | "returned" => some (Outcome.returned a)
      | "raised" => some (Outcome.raisedAfter a)
      | "blocked" => some Outcome.blocked
      | _ => none
    some (showVerdict (verdict { N := N, fault := kind, outcome := oc, dups := dups, carried := carried }))
  | ["stopverdict", w, e, after, what] => do
    let af ← match after with | "returned" => some false | "raised" => some true | _ => none
    let o ← match what with
      | "returned" => some StopObs.returned | "raised" => some StopObs.raised
      | "blocked" => some StopObs.blocked | _ => none
    some (showVerdict (stopVerdict (← w.toNat?) (← e.toNat?) af o))
  | "run" :: n :: w :: fc :: acts => do
    let c : Cfg := { N := ← n.toNat?, W := ← w.toNat?, failCode := ← fc.toInt? }
    let acts ← acts.mapM parseAct
    some (runActs c (fresh c) acts 0)
  | _ => none

end Tak.Driver.Pool

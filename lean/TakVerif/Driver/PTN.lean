/-
  driver component `ptn`: formatMove / parseMove / PTN.parse / Spec.ptnDenote and the C14 predicates
  evaluated on implementation data.

  Strings travel hex-encoded: code points in hex joined by `.`, the empty string is `_`.
-/
import TakVerif.Driver.Ser
import TakVerif.Model.PTN
import TakVerif.Lemmas.PTNMove
import TakVerif.Spec.PTNGrammar

namespace Tak.Driver.PTN
open Tak.Ser Tak.PTN

def hexDigit (c : Char) : Option Nat :=
  if '0' ≤ c ∧ c ≤ '9' then some (c.toNat - 48)
  else if 'a' ≤ c ∧ c ≤ 'f' then some (c.toNat - 87)
  else if 'A' ≤ c ∧ c ≤ 'F' then some (c.toNat - 55)
  else none

def hexNat (s : String) : Option Nat :=
  if s.isEmpty then none else
  s.toList.foldl (fun acc c => do let a ← acc; let d ← hexDigit c; pure (16 * a + d)) (some 0)

/-- a surrogate or out-of-range code point is not a Lean `Char`: refuse (never a default) -/
def charOfCode (n : Nat) : Option Char :=
  if h : n.isValidChar then some (Char.ofNatAux n h) else none

def hexDecode (s : String) : Option (List Char) :=
  if s = "_" then some [] else
  (s.splitOn ".").mapM fun h => do
    let n ← hexNat h
    charOfCode n

def hexOfNat (n : Nat) : String := String.ofList (Nat.toDigits 16 n)

def hexEncode (l : List Char) : String :=
  if l.isEmpty then "_" else ".".intercalate (l.map fun c => hexOfNat c.toNat)

def showRes : Except PErr Move → String
  | .ok m => s!"ok {showMove m}"
  | .error .badMove => "bad"
  | .error (.crash c) => s!"crash {c}"

def showDen : Option Spec.PTNDen → String
  | none => "none"
  | some (.place x y k) =>
    let ks := match k with | .flat => "flat" | .standing => "standing" | .cap => "cap"
    s!"place {x} {y} {ks}"
  | some (.slide x y dx dy cnt drops) =>
    s!"slide {x} {y} {dx} {dy} {cnt} {",".intercalate (drops.map toString)}"

def showTags (tags : List (List Char × List Char)) : String :=
  if tags.isEmpty then "-" else
  ";".intercalate (tags.map fun kv => s!"{hexEncode kv.1}:{hexEncode kv.2}")

def showMoves (ms : List Move) : String :=
  if ms.isEmpty then "-" else "|".intercalate (ms.map showMove)

def showGame : Except PErr Game → String
  | .ok g => s!"ok tags={showTags g.tags} moves={showMoves g.moves}"
  | .error .badMove => "bad"
  | .error (.crash c) => s!"crash {c}"

/-- `Move8` of Props/C14.lean, decided -/
def move8b (m : Move) : Bool := decide (Tak.C14.Move8 m)

/-! ### the render script

  tokens, in order:  `t:<key>:<value>` tag line (before any body token);
  `w:<chars>` white space, `c:<body>` comment;
  `m:<x>/<y>/<type>/<slides>:<annot>` a move written by `formatMove`,
  `x:<text>:<annot>` a move written as given, `n:<digits>` move number, `d` `--`, `r:<a>:<b>` result. -/

inductive Tok where
  | tag (k v : List Char)
  | gap (a : List GapAtom)
  | item (i : Item)

def parseTok (s : String) : Option Tok :=
  match s.splitOn ":" with
  | ["t", k, v] => do pure (.tag (← hexDecode k) (← hexDecode v))
  | ["w", cs] => do pure (.gap ((← hexDecode cs).map GapAtom.ws))
  | ["c", b] => do pure (.gap [GapAtom.comment (← hexDecode b)])
  | ["m", mv, an] => do
    let m ← Ser.parseMove (mv.splitOn "/")
    pure (.item (.move (formatMove m) (← hexDecode an)))
  | ["x", tx, an] => do pure (.item (.move (← hexDecode tx) (← hexDecode an)))
  | ["n", ds] => do pure (.item (.number (← hexDecode ds)))
  | ["d"] => some (.item .dashes)
  | ["r", a, b] => do pure (.item (.result (← a.toNat?) (← b.toNat?)))
  | _ => none

structure Script where
  tags : List (List Char × List Char) := []
  lead : List GapAtom := []
  items : List (Item × List GapAtom) := []

/-- fold from the right: a gap token joins the element in front of it -/
def build (toks : List Tok) : Script :=
  toks.foldr (fun t (acc : Script × List GapAtom) =>
      match t with
      | .tag k v => ({ acc.1 with tags := (k, v) :: acc.1.tags }, acc.2)
      | .gap a => (acc.1, a ++ acc.2)
      | .item i => ({ acc.1 with items := (i, acc.2) :: acc.1.items }, []))
    (({} : Script), ([] : List GapAtom)) |> fun (s, pending) => { s with lead := pending }

def rangesStr (rs : List (Nat × Nat)) : String :=
  ",".intercalate (rs.map fun r => s!"{r.1}-{r.2}")

/-- ops:
  `format <move4>`            → hex text                                       (formatMove)
  `parse <hex>`               → `ok <move4>` | `bad` | `crash <cls>`           (parseMove)
  `loose <hex>`               → `true` | `false`   (Spec.Loose: the widest language that may be accepted)
  `denote <hex>`              → `none` | `place x y kind` | `slide x y dx dy count drops`   (Spec.ptnDenote)
  `denotes <hex> <move4>`     → `n/a` (text not standard form) | `true` | `false`           (Spec.denotesMoveb)
  `move8 <move4>`             → `true` | `false`
  `same <move4> | <result>`   → `true` iff `<result>` is `ok` of the same move (round-trip / stability)
  `game <hex>`                → `ok tags=… moves=…` | `bad` | `crash <cls>`    (PTN.parse)
  `render <script…>`          → hex text                                       (PTN.render)
  `initpos size <hex>|none`   → `ok <pos7>` | `crash <cls>`                    (initial_position, no TPS tag)
  `classes space|digit|word`  → the table as `lo-hi,…`
-/
def handle : List String → Option String
  | "format" :: rest => do
    let m ← Ser.parseMove rest
    pure (hexEncode (formatMove m))
  | ["parse", h] => do
    let t ← hexDecode h
    pure (showRes (parseMove t))
  | ["loose", h] => do
    -- `Spec.Loose t`, decided through `C14_accepted_iff_loose`
    let t ← hexDecode h
    pure (match parseMove t with | .ok _ => "true" | .error _ => "false")
  | ["denote", h] => do
    let t ← hexDecode h
    pure (showDen (Spec.ptnDenote t))
  | "denotes" :: h :: rest => do
    let t ← hexDecode h
    let m ← Ser.parseMove rest
    pure (match Spec.ptnDenote t with
          | none => "n/a"
          | some d => toString (Spec.denotesMoveb d m))
  | "move8" :: rest => do
    let m ← Ser.parseMove rest
    pure (toString (move8b m))
  | "same" :: rest => do
    let m ← Ser.parseMove (rest.take 4)
    match rest.drop 4 with
    | "|" :: "ok" :: r2 => do
      let m2 ← Ser.parseMove r2
      pure (toString (decide (m = m2)))
    | "|" :: _ => pure "false"
    | _ => none
  | ["game", h] => do
    let t ← hexDecode h
    pure (showGame (parse t))
  | "render" :: rest => do
    let toks ← rest.mapM parseTok
    let s := build toks
    pure (hexEncode (render s.tags s.lead s.items))
  | ["initpos", "none"] =>
    some (match initialPosition (fun _ => .error (.crash "no-oracle")) ⟨[], []⟩ with
          | .ok p => s!"ok {showPos p}" | .error .badMove => "bad" | .error (.crash c) => s!"crash {c}")
  | ["initpos", "size", h] => do
    let v ← hexDecode h
    pure (match initialPosition (fun _ => .error (.crash "no-oracle")) ⟨[(['S', 'i', 'z', 'e'], v)], []⟩ with
          | .ok p => s!"ok {showPos p}" | .error .badMove => "bad" | .error (.crash c) => s!"crash {c}")
  | ["classes", "space"] => some (rangesStr spaceRanges)
  | ["classes", "digit"] => some (rangesStr digitRanges)
  | ["classes", "word"] => some (rangesStr wordRanges)
  | _ => none

end Tak.Driver.PTN

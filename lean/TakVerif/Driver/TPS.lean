/- driver component stub: replaced by the real component when its model exists -/
import TakVerif.Driver.Ser

namespace Tak.Driver.TPS

def handle : List String → Option String := fun _ => none

end Tak.Driver.TPS

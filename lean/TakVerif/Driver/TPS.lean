/- driver component `tps`: formatTPS / Spec writer / parseTPS / Grammar / Canonical.
   Strings travel as hex code points joined by `.` (`-` = the empty string), so spaces,
   newlines and non-ASCII characters survive the line protocol. -/
import TakVerif.Driver.Ser
import TakVerif.Model.TPS
import TakVerif.Spec.TPSGrammar

namespace Tak.Driver.TPS
open Tak.Ser

def hexDigit? (c : Char) : Option Nat :=
  if '0' ≤ c ∧ c ≤ '9' then some (c.toNat - '0'.toNat)
  else if 'a' ≤ c ∧ c ≤ 'f' then some (c.toNat - 'a'.toNat + 10)
  else if 'A' ≤ c ∧ c ≤ 'F' then some (c.toNat - 'A'.toNat + 10)
  else none

def hexNat? (s : String) : Option Nat :=
  if s.isEmpty then none
  else s.toList.foldlM (fun acc c => (hexDigit? c).map (acc * 16 + ·)) 0

def decodeChar (tok : String) : Option Char := do
  let n ← hexNat? tok
  if h : n.isValidChar then some (Char.ofNatAux n h) else none

/-- `-` → "", `68.69` → "hi" -/
def decode (s : String) : Option (List Char) :=
  if s = "-" then some [] else (s.splitOn ".").mapM decodeChar

def hexOf (n : Nat) : String :=
  let ds := Nat.toDigits 16 n
  String.ofList (List.replicate (4 - ds.length) '0' ++ ds)

def encode (cs : List Char) : String :=
  if cs.isEmpty then "-" else ".".intercalate (cs.map fun c => hexOf c.toNat)

def showResult : Except Err Pos → String
  | .ok q => s!"ok {showPos q}"
  | .error e => showErr e

/-- ops:
  `format <pos7>`    → hex text              (TPS.formatTPS, the model of format_tps)
  `write <pos7>`     → hex text              (Spec.TPS.writeTPS, the reference writer)
  `parse <hex>`      → `ok <pos>` | `illegal` | `crash <cls>`   (TPS.parseTPS)
  `grammar <hex>`    → `true` | `false`      (Spec.TPS.Grammar)
  `canonical <hex>`  → `true` | `false`      (Spec.TPS.Canonical)
  `tpswf <pos7>`     → `true` | `false`      (Spec.TPS.TPSWF)
-/
def handle : List String → Option String
  | "format" :: rest => do
    let p ← parsePos rest
    pure (encode (Tak.TPS.formatTPS p))
  | "write" :: rest => do
    let p ← parsePos rest
    pure (encode (Tak.Spec.TPS.writeTPS p))
  | ["parse", h] => do
    let t ← decode h
    pure (showResult (Tak.TPS.parseTPS t))
  | ["grammar", h] => do
    let t ← decode h
    pure (toString (Tak.Spec.TPS.grammarb t))
  | ["canonical", h] => do
    let t ← decode h
    pure (toString (Tak.Spec.TPS.canonicalb t))
  | "tpswf" :: rest => do
    let p ← parsePos rest
    pure (toString (decide (Tak.Spec.TPS.TPSWF p)))
  | _ => none

end Tak.Driver.TPS

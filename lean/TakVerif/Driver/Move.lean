/- driver component `move`: Impl.move, Rules.Legal, Rules.result on implementation data -/
import TakVerif.Driver.Ser
import TakVerif.Model.Move
import TakVerif.Spec.Rules
import TakVerif.Spec.Inv

namespace Tak.Driver.Move
open Tak.Ser

def showResult : Except Err Pos → String
  | .ok q => s!"ok {showPos q}"
  | .error e => showErr e

/-- ops:
  `apply <pos7> <move4>`   → `ok <pos>` | `illegal` | `crash <cls>`     (Impl.move)
  `rules <pos7> <move4>`   → `legal <pos>` | `illegal`                  (Rules.Legal / Rules.result)
  `wf <pos7>`              → `true` | `false`
  C04 (Spec/Inv.lean):
  `inv <size> <pieces> <caps> <pos7>`  → `true` | `false:<first failing clause of Inv>`
  `topsonly <pos7>`        → `true` | `false`
  `opening1 <pos7>`, `opening2 <pos7>` → `true` | `false`               (Opening1 / Opening2)
  `plyturn <accepted> <W|B> <pos7>`    → `true` | `false`               (PlyTurnOK)
  `fromconfig <size> <pieces> <caps>`  → `<pos>`                        (Pos.fromConfig)
  `fromsquares <size> <pieces> <caps> <ply> <board>` → `ok <pos>` | `none`   (Pos.fromSquares)
  `defaults <size>`        → `<pieces> <caps>`                          (defaultPieces / defaultCaps)
-/
def parseConfig : List String → Option Config
  | [n, pc, cp] => do
    let n ← n.toNat?
    let pc ← pc.toInt?
    let cp ← cp.toInt?
    pure ⟨n, pc, cp⟩
  | _ => none

def handle : List String → Option String
  | "apply" :: rest => do
    let p ← parsePos (rest.take 7)
    let m ← parseMove (rest.drop 7)
    pure (showResult (Impl.move p m))
  | "rules" :: rest => do
    let p ← parsePos (rest.take 7)
    let m ← parseMove (rest.drop 7)
    pure (if Rules.legalb p m then s!"legal {showPos (Rules.result p m)}" else "illegal")
  | "wf" :: rest => do
    let p ← parsePos rest
    pure (toString (decide p.WF))
  | "inv" :: rest => do
    let cfg ← parseConfig (rest.take 3)
    let p ← parsePos (rest.drop 3)
    pure (match Inv.firstFailure cfg p with
      | none => "true"
      | some clause => s!"false:{clause}")
  | "totals" :: rest => do
    -- stones and capstones per colour, on the board plus in reserve (what `Inv` says is constant)
    let p ← parsePos rest
    pure s!"{(p.onBoard .white false : Int) + p.wStones} {(p.onBoard .white true : Int) + p.wCaps} {(p.onBoard .black false : Int) + p.bStones} {(p.onBoard .black true : Int) + p.bCaps}"
  | "topsonly" :: rest => do
    let p ← parsePos rest
    pure (toString (decide (TopsOnly p)))
  | "opening1" :: rest => do
    let p ← parsePos rest
    pure (toString (decide (Opening1 p)))
  | "opening2" :: rest => do
    let p ← parsePos rest
    pure (toString (decide (Opening2 p)))
  | "plyturn" :: n :: c :: rest => do
    let n ← n.toNat?
    let c ← (if c = "W" then some Color.white else if c = "B" then some Color.black else none)
    let p ← parsePos rest
    pure (toString (decide (PlyTurnOK n c p)))
  | "fromconfig" :: rest => do
    let cfg ← parseConfig rest
    pure (showPos (Pos.fromConfig cfg))
  | ["fromsquares", n, pc, cp, ply, b] => do
    let cfg ← parseConfig [n, pc, cp]
    let ply ← ply.toInt?
    let b ← parseBoard b
    pure (match Pos.fromSquares cfg b ply with
      | some p => s!"ok {showPos p}"
      | none => "none")
  | ["defaults", n] => do
    let n ← n.toNat?
    pure s!"{defaultPieces n} {defaultCaps n}"
  | _ => none

end Tak.Driver.Move

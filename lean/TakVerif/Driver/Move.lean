/- driver component `move`: Impl.move, Rules.Legal, Rules.result on implementation data -/
import TakVerif.Driver.Ser
import TakVerif.Model.Move
import TakVerif.Spec.Rules

namespace Tak.Driver.Move
open Tak.Ser

def showResult : Except Err Pos → String
  | .ok q => s!"ok {showPos q}"
  | .error e => showErr e

/-- ops:
  `apply <pos7> <move4>`   → `ok <pos>` | `illegal` | `crash <cls>`     (Impl.move)
  `rules <pos7> <move4>`   → `legal <pos>` | `illegal`                  (Rules.Legal / Rules.result)
  `wf <pos7>`              → `true` | `false`
-/
def handle : List String → Option String
  | "apply" :: rest => do
    let p ← parsePos (rest.take 7)
    let m ← parseMove (rest.drop 7)
    pure (showResult (Impl.move p m))
  | "rules" :: rest => do
    let p ← parsePos (rest.take 7)
    let m ← parseMove (rest.drop 7)
    pure (if Rules.legalb p m then s!"legal {showPos (Rules.result p m)}" else "illegal")
  | "wf" :: rest => do
    let p ← parsePos rest
    pure (toString (decide p.WF))
  | _ => none

end Tak.Driver.Move

/-
  Specification of game-over adjudication, written from the property sentence (and the
  rules of Tak), not from the code:

    "the reported outcome is: a road win for a colour exactly when that colour's top flats
     and capstones (never walls, never buried pieces) form an orthogonally connected chain
     joining two opposite edges, and if both colours have one the player who just moved
     wins; otherwise, when every square is occupied or either player has no piece left in
     reserve, a flat win for the colour owning more top flats or a draw when equal;
     otherwise the game is not over."

  Squares are natural-number coordinates `(x, y)` (column, row), `x, y < size`.
  A road is an existence-of-path statement; nothing here says how to find one.
-/
import TakVerif.Model.Core
import TakVerif.Model.Outcome

namespace Tak
namespace Spec

/-- the piece lying on top of square `(x, y)`, if the square is occupied -/
def top (p : Pos) (x y : Nat) : Option Piece := (p.sq x y).head?

/-- square `(x, y)` counts towards a road of colour `c`: it is on the board and the piece
    on TOP of it is `c`'s flat stone or `c`'s capstone (a wall does not count; pieces below
    the top are not looked at) -/
def RoadSq (p : Pos) (c : Color) (x y : Nat) : Prop :=
  x < p.size ∧ y < p.size ∧ (top p x y = some ⟨c, .flat⟩ ∨ top p x y = some ⟨c, .cap⟩)

instance (p : Pos) (c : Color) (x y : Nat) : Decidable (RoadSq p c x y) := by
  unfold RoadSq; exact inferInstance

/-- orthogonal adjacency: same column and neighbouring rows, or same row and neighbouring
    columns (never diagonal) -/
def Adj (a b : Nat × Nat) : Prop :=
  (a.1 = b.1 ∧ (a.2 + 1 = b.2 ∨ b.2 + 1 = a.2)) ∨ (a.2 = b.2 ∧ (a.1 + 1 = b.1 ∨ b.1 + 1 = a.1))

instance (a b : Nat × Nat) : Decidable (Adj a b) := by unfold Adj; exact inferInstance

/-- consecutive cells of the list are orthogonally adjacent -/
def Linked : List (Nat × Nat) → Prop
  | a :: b :: rest => Adj a b ∧ Linked (b :: rest)
  | _ => True

instance decLinked : (l : List (Nat × Nat)) → Decidable (Linked l)
  | [] => isTrue trivial
  | [_] => isTrue trivial
  | a :: b :: rest =>
    match (inferInstance : Decidable (Adj a b)), decLinked (b :: rest) with
    | isTrue h1, isTrue h2 => isTrue ⟨h1, h2⟩
    | isFalse h1, _ => isFalse fun h => h1 h.1
    | _, isFalse h2 => isFalse fun h => h2 h.2

/-- `path` is a chain of `c`'s road squares, each orthogonally adjacent to the next,
    starting at `a` and ending at `b` (so it is not empty; `a = b` for a one-square chain) -/
def Chain (p : Pos) (c : Color) (path : List (Nat × Nat)) (a b : Nat × Nat) : Prop :=
  (∀ cell ∈ path, RoadSq p c cell.1 cell.2) ∧ Linked path ∧
    path.head? = some a ∧ path.getLast? = some b

instance (p : Pos) (c : Color) (path : List (Nat × Nat)) (a b : Nat × Nat) :
    Decidable (Chain p c path a b) := by unfold Chain; exact inferInstance

/-- colour `c` has a road: a chain of its road squares joins the left edge (column 0) to
    the right edge (column size-1), or the bottom edge (row 0) to the top edge (row size-1) -/
def Road (p : Pos) (c : Color) : Prop :=
  ∃ path a b, Chain p c path a b ∧
    ((a.1 = 0 ∧ b.1 + 1 = p.size) ∨ (a.2 = 0 ∧ b.2 + 1 = p.size))

/-- the player who made the last move: the one who is NOT to move (White moves on even ply) -/
def justMoved (p : Pos) : Color := if p.ply % 2 = 0 then .black else .white

/-- number of squares whose top piece is a flat stone of colour `c` -/
def topFlats (p : Pos) (c : Color) : Nat :=
  p.board.countP fun sq => sq.head? == some ⟨c, .flat⟩

/-- every square is occupied -/
def BoardFull (p : Pos) : Prop := ∀ sq ∈ p.board, sq ≠ []

instance (p : Pos) : Decidable (BoardFull p) := by unfold BoardFull; exact inferInstance

/-- player `c` has no piece (stone or capstone) left in reserve -/
def ReserveEmpty (p : Pos) (c : Color) : Prop := p.stones c + p.caps c = 0

instance (p : Pos) (c : Color) : Decidable (ReserveEmpty p c) := by
  unfold ReserveEmpty; exact inferInstance

/-- the flat count decides: the colour owning more top flats, nobody (a draw) when equal -/
def flatResult (p : Pos) : Option Color :=
  if topFlats p .white > topFlats p .black then some .white
  else if topFlats p .black > topFlats p .white then some .black
  else none

open Classical in
/-- the answer to the road question alone: who, if anybody, has won by road -/
noncomputable def roadAnswer (p : Pos) : Option Color :=
  if Road p .white ∧ Road p .black then some (justMoved p)
  else if Road p .white then some .white
  else if Road p .black then some .black
  else none

open Classical in
/-- the outcome of a position, as the property sentence reads -/
noncomputable def outcome (p : Pos) : Outcome :=
  if Road p .white ∧ Road p .black then (some (justMoved p), some .road)
  else if Road p .white then (some .white, some .road)
  else if Road p .black then (some .black, some .road)
  else if BoardFull p ∨ ReserveEmpty p .white ∨ ReserveEmpty p .black then
    (flatResult p, some .flats)
  else (none, none)

/-! ### An executable formulation of the road question, independent of the flood fill

`closure` marks squares in rounds: round 0 marks `c`'s road squares on the starting edge;
each further round marks every road square of `c` with a marked orthogonal neighbour.
After `size*size` rounds nothing more can be added.  (`Tak.C02.C02_closure_iff_road`
proves it equivalent to `Road`; the driver's `spec` op evaluates it.) -/

def roadSqB (p : Pos) (c : Color) (x y : Nat) : Bool := decide (RoadSq p c x y)

/-- is `(x, y)` marked in the flat list of marks `m` -/
def marked (p : Pos) (m : List Bool) (x y : Nat) : Bool :=
  decide (x < p.size) && decide (y < p.size) && m.getD (p.idx x y) false

/-- build the flat list of marks from a per-square test -/
def marksOf (p : Pos) (f : Nat → Nat → Bool) : List Bool :=
  (List.range (p.size * p.size)).map fun i => f (i % p.size) (i / p.size)

def startMarks (p : Pos) (c : Color) (horiz : Bool) : List Bool :=
  marksOf p fun x y => roadSqB p c x y && (if horiz then x == 0 else y == 0)

def growMarks (p : Pos) (c : Color) (m : List Bool) : List Bool :=
  marksOf p fun x y =>
    marked p m x y ||
      (roadSqB p c x y &&
        (marked p m (x + 1) y || (decide (0 < x) && marked p m (x - 1) y) ||
         marked p m x (y + 1) || (decide (0 < y) && marked p m x (y - 1))))

def growN (p : Pos) (c : Color) : Nat → List Bool → List Bool
  | 0, m => m
  | k + 1, m => growN p c k (growMarks p c m)

def closure (p : Pos) (c : Color) (horiz : Bool) : List Bool :=
  growN p c (p.size * p.size) (startMarks p c horiz)

/-- some marked square lies on the far edge -/
def spansB (p : Pos) (c : Color) (horiz : Bool) : Bool :=
  let m := closure p c horiz
  (List.range (p.size * p.size)).any fun i =>
    m.getD i false && (if horiz then i % p.size + 1 == p.size else i / p.size + 1 == p.size)

def roadB (p : Pos) (c : Color) : Bool := spansB p c true || spansB p c false

/-- `outcome` with the road question answered by `roadB` (computable) -/
def outcomeB (p : Pos) : Outcome :=
  if roadB p .white && roadB p .black then (some (justMoved p), some .road)
  else if roadB p .white then (some .white, some .road)
  else if roadB p .black then (some .black, some .road)
  else if BoardFull p ∨ ReserveEmpty p .white ∨ ReserveEmpty p .black then
    (flatResult p, some .flats)
  else (none, none)

def roadAnswerB (p : Pos) : Option Color :=
  if roadB p .white && roadB p .black then some (justMoved p)
  else if roadB p .white then some .white
  else if roadB p .black then some .black
  else none

end Spec
end Tak

/-
  Declarative side of C06, written from the property text (not from encoding.py):
  the domain `EncWF`, the colour-swapped twin, the layout of a token sequence, what a padded
  batch with its mask is, and the verdict functions the driver evaluates on the
  implementation's observed data during the failing-input search.
  No Mathlib imports (the driver links this file).
-/
import TakVerif.Model.Tokens

namespace Tak.Tokens

/-! ### the domain of the property, and the colour-swapped twin -/

/-- only the top of a stack may be a wall or a capstone -/
def stackTopsOnly : Stack → Bool
  | [] => true
  | _ :: rest => rest.all (fun pc => pc.kind == Kind.flat)

def TopsOnly (p : Pos) : Prop := ∀ s ∈ p.board, stackTopsOnly s = true

instance (p : Pos) : Decidable (TopsOnly p) := by unfold TopsOnly; exact inferInstance

/-- reserves inside the vocabulary: 0..49 stones, 0..1 capstones, both colours -/
def InVocab (p : Pos) : Prop :=
  (0 ≤ p.wStones ∧ p.wStones ≤ 49) ∧ (0 ≤ p.wCaps ∧ p.wCaps ≤ 1) ∧
  (0 ≤ p.bStones ∧ p.bStones ≤ 49) ∧ (0 ≤ p.bCaps ∧ p.bCaps ≤ 1)

instance (p : Pos) : Decidable (InVocab p) := by unfold InVocab; exact inferInstance

/-- positions the encoding is claimed lossless on -/
def EncWF (p : Pos) : Prop := p.WF ∧ TopsOnly p ∧ InVocab p

instance (p : Pos) : Decidable (EncWF p) := by unfold EncWF; exact inferInstance

def flipPiece (pc : Piece) : Piece := ⟨pc.color.flip, pc.kind⟩

/-- every piece changes colour, the reserves change hands, the other side is to move -/
def swapColours (p : Pos) : Pos :=
  { size := p.size, wStones := p.bStones, wCaps := p.bCaps, bStones := p.wStones, bCaps := p.wCaps,
    ply := p.ply + 1, board := p.board.map (fun s => s.map flipPiece) }

def reserves (p : Pos) : Int × Int × Int × Int := (p.wStones, p.wCaps, p.bStones, p.bCaps)

/-! ### the layout of a token sequence (literal token values of the vocabulary) -/

/-- token of the top piece of a stack as seen by `mover` -/
def topLayout (mover : Color) (pc : Piece) : Nat :=
  match decide (pc.color = mover), pc.kind with
  | true, .flat => 1
  | true, .standing => 3
  | true, .cap => 4
  | false, .flat => 5
  | false, .standing => 7
  | false, .cap => 8

/-- one square: `0` when empty, otherwise the top token followed by one MY_FLAT (2) /
    THEIR_FLAT (6) per buried piece, top to bottom -/
def squareLayout (mover : Color) : Stack → List Nat
  | [] => [0]
  | top :: rest => topLayout mover top :: rest.map (fun pc => if pc.color = mover then 2 else 6)

/-- sentinel (iff `s`), to-play token, the mover's stones and capstones, the opponent's stones
    and capstones, then the squares in flat index order -/
def layout (p : Pos) (s : Bool) : List Nat :=
  (if s then [255] else []) ++
  [if p.toMove = Color.white then 9 else 10] ++
  [(203 + p.stones p.toMove).toNat, (253 + p.caps p.toMove).toNat,
   (203 + p.stones p.toMove.flip).toNat, (253 + p.caps p.toMove.flip).toNat] ++
  p.board.flatMap (squareLayout p.toMove)

/-! ### the property's predicates on observed data (evaluated by the driver in `search`) -/

/-- what `C06_decode_encode` says about a decoded position `q` of `p` -/
def roundTripVerdict (p q : Pos) : String :=
  if q.board ≠ p.board then "board"
  else if q.size ≠ p.size then "size"
  else if q.toMove ≠ p.toMove then "tomove"
  else if reserves q ≠ reserves p then "reserves"
  else "ok"

def otherToPlay (t : Nat) : Nat :=
  if t = WHITE_TO_PLAY then BLACK_TO_PLAY else WHITE_TO_PLAY

/-- what `C06_mover_relative` says about the encodings `a` of a position and `b` of its twin -/
def twinOK (s : Bool) (a b : List Nat) : Bool :=
  let i := if s then 1 else 0
  match a[i]? with
  | none => false
  | some t => (t == WHITE_TO_PLAY || t == BLACK_TO_PLAY) && b == a.set i (otherToPlay t)

/-- what `C06_batch` says: `out`, `mask` for the per-position encodings `rows` -/
def maxLen (rows : List (List Nat)) : Nat := (rows.map List.length).foldr max 0

def padRow (w : Nat) (r : List Nat) : List Nat := r ++ List.replicate (w - r.length) 0
def maskRow (w : Nat) (r : List Nat) : List Bool :=
  List.replicate r.length true ++ List.replicate (w - r.length) false

def batchSpec (rows : List (List Nat)) : List (List Nat) × List (List Bool) :=
  (rows.map (padRow (maxLen rows)), rows.map (maskRow (maxLen rows)))

def batchVerdict (rows out : List (List Nat)) (mask : List (List Bool)) : String :=
  let spec := batchSpec rows
  if mask ≠ spec.2 then "mask"
  else if out ≠ spec.1 then "row"
  else "ok"

end Tak.Tokens

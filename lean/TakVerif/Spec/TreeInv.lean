/-
  The search-tree invariant of property C08, written from the property text (NOT from mcts.py):

    after a search … the root has exactly n visits; each expanded node's visits are one plus its
    children's and its accumulated value is its own evaluation minus its children's accumulated
    values (visits times outcome for terminal nodes, outcome +1, -1 or 0 for the side to move by the
    rules).  Each node's children are one-to-one with the legal moves whose prior reaches the
    cutoff, each child holds the parent's position after that move, child priors are the
    evaluator's priors renormalised …

  `TreeInv cfg tol t` says this of EVERY node of `t`.  It is decidable; the driver evaluates it
  (`Node.firstFail (localFail cfg tol)`, proved equivalent below) on trees dumped from the running
  implementation.  "The evaluator's priors" at a node are the ghost field `Node.ev` (what the
  evaluator answered when the node was expanded; with root noise: that answer and the noise
  draw).  `tol` is zero for the model (Props/C08.lean proves the exact statement); for dumped
  float trees the harness passes the float32 division / float64 summation slack.
  No Mathlib here: the driver links this file.
-/
import TakVerif.Model.Tree
import TakVerif.Spec.Rules

namespace Tak
namespace Tree

/-- `P` holds at every node of the tree -/
inductive Node.All (P : Node → Prop) : Node → Prop
  | mk (t : Node) : P t → (∀ cs, t.children = some cs → ∀ c ∈ cs, Node.All P c) → Node.All P t

theorem Node.All.here {P : Node → Prop} {t : Node} (h : t.All P) : P t := by
  cases h; assumption

theorem Node.All.child {P : Node → Prop} {t : Node} (h : t.All P) {cs : List Node}
    (hc : t.children = some cs) {c : Node} (hm : c ∈ cs) : c.All P := by
  cases h with | mk _ _ h2 => exact h2 cs hc c hm

/-- absolute value on `Rat` (core has none without Mathlib) -/
def rabs (x : Rat) : Rat := if x < 0 then -x else x

/-- comparison slack: `ptol` relative on priors, `vtol` absolute per visit on accumulated values -/
structure Tol where
  ptol : Rat
  vtol : Rat

def Tol.exact : Tol := ⟨0, 0⟩

@[simp] theorem Tol.exact_ptol : Tol.exact.ptol = 0 := rfl
@[simp] theorem Tol.exact_vtol : Tol.exact.vtol = 0 := rfl

/-- the prior the evaluator (and, where it was drawn, the root noise) assigns to each move id -/
def effectivePrior (cfg : Cfg) (ev : Answer) : List Rat :=
  match ev.noise with
  | none => ev.probs
  | some nz => List.zipWith (fun n r => cfg.mix * n + (1 - cfg.mix) * r) nz ev.probs

/-- the (move, prior) pairs a node at position `p` must have children for: the moves of the size's
    table (in table order, each id once) whose prior reaches the cutoff and which the rules allow -/
def selected (cfg : Cfg) (p : Pos) (ev : Answer) : List (Move × Rat) :=
  ((cfg.table p.size).zip (effectivePrior cfg ev)).filter fun c =>
    decide (cfg.cutoff ≤ c.2) && decide (Rules.Legal p c.1)

/-- sum of the selected priors (the renormalisation constant) -/
def selectedMass (cfg : Cfg) (p : Pos) (ev : Answer) : Rat :=
  ((selected cfg p ev).map (·.2)).sum

/-- the clauses for an expanded node `t` with children `cs`, expanded on the answer `ev` -/
structure ExpandedOK (cfg : Cfg) (tol : Tol) (t : Node) (cs : List Node) (ev : Answer) : Prop where
  /-- visits are one plus the children's -/
  visits : t.sims = 1 + (cs.map (·.sims)).sum
  /-- accumulated value is the own evaluation minus the children's accumulated values -/
  value : rabs (t.value - (t.v0 - (cs.map (·.value)).sum)) ≤ tol.vtol * t.sims
  /-- the own evaluation is the evaluator's value -/
  own : t.v0 = ev.value
  /-- noise is only ever mixed in when root noise is configured -/
  noiseCfg : ev.noise.isSome = true → cfg.noise = true
  /-- children are one-to-one, in table order, with the selected moves -/
  moves : cs.map (·.move) = (selected cfg t.position ev).map fun c => some c.1
  /-- each child holds the parent's position after its move -/
  positions : ∀ c ∈ cs, ∀ m, c.move = some m → c.position = Rules.result t.position m
  /-- child priors are the selected priors divided by their sum -/
  priorsLen : t.priors.length = (selected cfg t.position ev).length
  priors : ∀ x ∈ t.priors.zip (selected cfg t.position ev),
      rabs (x.1 - x.2.2 / selectedMass cfg t.position ev)
        ≤ tol.ptol * rabs (x.2.2 / selectedMass cfg t.position ev)
  /-- no node below the root was expanded with noise -/
  childNoise : ∀ c ∈ cs, ∀ e, c.ev = some e → e.noise = none

/-- what the property says about one node (its direct children included) -/
def Local (cfg : Cfg) (tol : Tol) (t : Node) : Prop :=
  t.position.WF ∧
  match cfg.outcome t.position with
  | some w =>
      -- the game is over here: never expanded; outcome for the side to move; visits × outcome
      t.children = none ∧
      (0 < t.sims → t.v0 = outcomeValue t.position.toMove w) ∧
      t.value = t.sims * outcomeValue t.position.toMove w
  | none =>
    match t.children with
    | none => t.sims = 0 ∧ t.value = 0
    | some cs => ∃ ev, t.ev = some ev ∧ ExpandedOK cfg tol t cs ev

/-- the search-tree invariant -/
def TreeInv (cfg : Cfg) (tol : Tol) (t : Node) : Prop := t.All (Local cfg tol)

/-! ### Decision procedure (what the driver runs) -/

instance (c : Node) (p : Pos) : Decidable (∀ m, c.move = some m → c.position = Rules.result p m) :=
  match h : c.move with
  | none => isTrue (by intro m hm; cases hm)
  | some m =>
    if h2 : c.position = Rules.result p m then isTrue (by intro m' hm; cases hm; exact h2)
    else isFalse (fun hh => h2 (hh m rfl))

instance (c : Node) : Decidable (∀ e, c.ev = some e → e.noise = none) :=
  match h : c.ev with
  | none => isTrue (by intro m hm; cases hm)
  | some e =>
    if h2 : e.noise = none then isTrue (by intro m' hm; cases hm; exact h2)
    else isFalse (fun hh => h2 (hh e rfl))

/-- name of the first clause of `ExpandedOK` that fails (the selection and its mass are computed
    once) -/
def expandedFail (cfg : Cfg) (tol : Tol) (t : Node) (cs : List Node) (ev : Answer) : Option String :=
  let sel := selected cfg t.position ev
  let mass := (sel.map (·.2)).sum
  if ¬ t.sims = 1 + (cs.map (·.sims)).sum then some "visit-sum"
  else if ¬ rabs (t.value - (t.v0 - (cs.map (·.value)).sum)) ≤ tol.vtol * t.sims then some "value-sum"
  else if ¬ t.v0 = ev.value then some "own-evaluation"
  else if ¬ (ev.noise.isSome = true → cfg.noise = true) then some "noise-not-configured"
  else if ¬ cs.map (·.move) = sel.map (fun c => some c.1) then
    some "children-not-legal-set"
  else if ¬ (∀ c ∈ cs, ∀ m, c.move = some m → c.position = Rules.result t.position m) then
    some "child-position"
  else if ¬ t.priors.length = sel.length then some "priors-not-renormalised"
  else if ¬ (∀ x ∈ t.priors.zip sel, rabs (x.1 - x.2.2 / mass) ≤ tol.ptol * rabs (x.2.2 / mass)) then
    some "priors-not-renormalised"
  else if ¬ (∀ c ∈ cs, ∀ e, c.ev = some e → e.noise = none) then some "noise-below-root"
  else none

theorem expandedFail_none_iff (cfg : Cfg) (tol : Tol) (t : Node) (cs : List Node) (ev : Answer) :
    expandedFail cfg tol t cs ev = none ↔ ExpandedOK cfg tol t cs ev := by
  unfold expandedFail
  simp only []
  constructor
  · intro h
    split at h; · cases h
    split at h; · cases h
    split at h; · cases h
    split at h; · cases h
    split at h; · cases h
    split at h; · cases h
    split at h; · cases h
    split at h; · cases h
    split at h; · cases h
    rename_i h1 h2 h3 h4 h5 h6 h7 h8 h9
    exact ⟨Decidable.not_not.1 h1, Decidable.not_not.1 h2, Decidable.not_not.1 h3,
      Decidable.not_not.1 h4, Decidable.not_not.1 h5, Decidable.not_not.1 h6,
      Decidable.not_not.1 h7, Decidable.not_not.1 h8, Decidable.not_not.1 h9⟩
  · intro h
    have hp := h.priors
    unfold selectedMass at hp
    rw [if_neg (not_not_intro h.visits), if_neg (not_not_intro h.value), if_neg (not_not_intro h.own),
      if_neg (not_not_intro h.noiseCfg), if_neg (not_not_intro h.moves),
      if_neg (not_not_intro h.positions), if_neg (not_not_intro h.priorsLen),
      if_neg (not_not_intro hp), if_neg (not_not_intro h.childNoise)]

/-- name of the first clause of `Local` that fails at `t` -/
def localFail (cfg : Cfg) (tol : Tol) (t : Node) : Option String :=
  if ¬ t.position.WF then some "position-ill-formed"
  else
    match cfg.outcome t.position with
    | some w =>
      match t.children with
      | some _ => some "terminal-expanded"
      | none =>
        if ¬ (0 < t.sims → t.v0 = outcomeValue t.position.toMove w) then some "terminal-value"
        else if ¬ t.value = t.sims * outcomeValue t.position.toMove w then some "terminal-value"
        else none
    | none =>
      match t.children with
      | none =>
        if ¬ t.sims = 0 then some "unexpanded-visited"
        else if ¬ t.value = 0 then some "unexpanded-visited"
        else none
      | some cs =>
        match t.ev with
        | none => some "no-evaluation-recorded"
        | some ev => expandedFail cfg tol t cs ev

theorem localFail_none_iff (cfg : Cfg) (tol : Tol) (t : Node) :
    localFail cfg tol t = none ↔ Local cfg tol t := by
  unfold localFail Local
  by_cases hwf : t.position.WF
  · rw [if_neg (not_not_intro hwf)]
    cases ho : cfg.outcome t.position with
    | some w =>
      simp only
      cases hc : t.children with
      | some cs =>
        simp only
        constructor
        · intro h; cases h
        · rintro ⟨_, h1, _⟩; cases h1
      | none =>
        simp only
        constructor
        · intro h
          split at h; · cases h
          split at h; · cases h
          rename_i h2 h3
          exact ⟨hwf, trivial, Decidable.not_not.1 h2, Decidable.not_not.1 h3⟩
        · rintro ⟨_, _, h2, h3⟩
          rw [if_neg (not_not_intro h2), if_neg (not_not_intro h3)]
    | none =>
      simp only
      cases hc : t.children with
      | none =>
        simp only
        constructor
        · intro h
          split at h; · cases h
          split at h; · cases h
          rename_i h1 h2
          exact ⟨hwf, Decidable.not_not.1 h1, Decidable.not_not.1 h2⟩
        · rintro ⟨_, h1, h2⟩
          rw [if_neg (not_not_intro h1), if_neg (not_not_intro h2)]
      | some cs =>
        simp only
        cases he : t.ev with
        | none =>
          simp only
          constructor
          · intro h; cases h
          · rintro ⟨_, ev, h, _⟩; cases h
        | some ev =>
          simp only
          rw [expandedFail_none_iff]
          constructor
          · intro h; exact ⟨hwf, ev, rfl, h⟩
          · rintro ⟨_, ev', h, h2⟩; cases h; exact h2
  · rw [if_pos hwf]
    constructor
    · intro h; cases h
    · rintro ⟨h, _⟩; exact absurd h hwf

/-! `firstFail f t`: path (child indices from the root) and clause name of the first node, in
    pre-order, at which `f` reports a failure. -/
mutual
def Node.firstFail (f : Node → Option String) : Node → Option (List Nat × String)
  | ⟨p, m, v0, v, s, cs, pr, ev⟩ =>
    match f ⟨p, m, v0, v, s, cs, pr, ev⟩ with
    | some c => some ([], c)
    | none => firstFailO f cs
def firstFailO (f : Node → Option String) : Option (List Node) → Option (List Nat × String)
  | none => none
  | some l => firstFailL f 0 l
def firstFailL (f : Node → Option String) : Nat → List Node → Option (List Nat × String)
  | _, [] => none
  | i, c :: r =>
    match c.firstFail f with
    | some (p, s) => some (i :: p, s)
    | none => firstFailL f (i + 1) r
end

theorem firstFail_none_iff (f : Node → Option String) (t : Node) :
    t.firstFail f = none ↔ t.All (fun n => f n = none) := by
  refine Node.rec
    (motive_1 := fun t => t.firstFail f = none ↔ t.All (fun n => f n = none))
    (motive_2 := fun o => firstFailO f o = none ↔ ∀ cs, o = some cs → ∀ c ∈ cs, c.All (fun n => f n = none))
    (motive_3 := fun l => ∀ i, firstFailL f i l = none ↔ ∀ c ∈ l, c.All (fun n => f n = none))
    ?_ ?_ ?_ ?_ ?_ t
  · intro p m v0 v s cs pr ev ih
    rw [Node.firstFail]
    constructor
    · intro h
      split at h
      · cases h
      · rename_i hf
        exact Node.All.mk _ hf (ih.1 h)
    · intro h
      have h1 := h.here
      rw [h1]
      simp only
      exact ih.2 (fun cs hc c hm => h.child hc hm)
  · rw [firstFailO]
    constructor
    · intro _ cs h; cases h
    · intro _; rfl
  · intro l ih
    rw [firstFailO]
    constructor
    · intro h cs hc c hm
      cases hc
      exact (ih 0).1 h c hm
    · intro h
      exact (ih 0).2 (h l rfl)
  · intro i
    rw [firstFailL]
    constructor
    · intro _ c hm; cases hm
    · intro _; rfl
  · intro c r ihc ihr i
    rw [firstFailL]
    constructor
    · intro h
      split at h
      · cases h
      · rename_i hc
        intro c' hm
        rcases List.mem_cons.1 hm with rfl | hm
        · exact ihc.1 hc
        · exact (ihr (i + 1)).1 h c' hm
    · intro h
      rw [ihc.2 (h c (List.mem_cons_self))]
      simp only
      exact (ihr (i + 1)).2 (fun c' hm => h c' (List.mem_cons_of_mem _ hm))

/-- the driver's check: `none` = the invariant holds, otherwise where and which clause -/
def treeInvFail (cfg : Cfg) (tol : Tol) (t : Node) : Option (List Nat × String) :=
  t.firstFail (localFail cfg tol)

theorem treeInvFail_none_iff (cfg : Cfg) (tol : Tol) (t : Node) :
    treeInvFail cfg tol t = none ↔ TreeInv cfg tol t := by
  unfold treeInvFail TreeInv
  rw [firstFail_none_iff]
  constructor
  · intro h
    induction h with
    | mk t h1 _ ih => exact Node.All.mk t ((localFail_none_iff cfg tol t).1 h1) ih
  · intro h
    induction h with
    | mk t h1 _ ih => exact Node.All.mk t ((localFail_none_iff cfg tol t).2 h1) ih

instance (cfg : Cfg) (tol : Tol) (t : Node) : Decidable (TreeInv cfg tol t) :=
  decidable_of_iff _ (treeInvFail_none_iff cfg tol t)

/-! ### C09: the arguments of the regularised-policy formula -/

/-- What the regularised-policy formula is applied to at an expanded node `t` with children `cs`,
    from the property text: prior = the node's child priors; q of a visited child = minus its mean
    value; q of an unvisited child = the node's own evaluation; multiplier `C·√N/(N+K)` (kept as its
    square), `N` the node's visits and `K` the number of children. -/
structure FormulaArgs (t : Node) (cs : List Node) (C : Rat) (a : PolicyArgs) : Prop where
  prior : a.prior = t.priors
  qLen : a.q.length = cs.length
  qVisited : ∀ (i : Nat) (h : i < cs.length), 0 < cs[i].sims →
    a.q[i]? = some (-(cs[i].value / (cs[i].sims : Rat)))
  qUnvisited : ∀ (i : Nat) (h : i < cs.length), cs[i].sims = 0 → a.q[i]? = some t.v0
  visits : a.N = t.sims
  arity : a.K = cs.length
  multiplier : a.lamSq = C ^ 2 * (t.sims : Rat) / ((t.sims : Rat) + (cs.length : Rat)) ^ 2

end Tree
end Tak

/-
  The move universe of a board size, written from the property text (NOT from moves.py):
  "each of the three placements on each square, and each slide from each square in each
  direction with each sequence of positive drops that stays on the board and totals at most
  the carry limit".
-/
import TakVerif.Model.Core

namespace Tak

/-- number of squares between `(m.x, m.y)` and the edge of an `n × n` board in the direction
    the move travels (0 for placements, which do not travel) -/
def edgeDist (n : Nat) (m : Move) : Int :=
  match m.type with
  | .left => m.x
  | .right => (n : Int) - 1 - m.x
  | .down => m.y
  | .up => (n : Int) - 1 - m.y
  | _ => 0

/-- `m` is a well-formed move of board size `n`: an on-board square, and either a placement
    (one of the three kinds) without drops, or a slide in one of the four directions whose drop
    counts are a non-empty sequence of positive integers, total at most the carry limit `n`,
    one drop per square travelled and no more squares travelled than there are before the edge. -/
def MoveWF (n : Nat) (m : Move) : Prop :=
  0 ≤ m.x ∧ m.x < n ∧ 0 ≤ m.y ∧ m.y < n ∧
  match m.slides with
  | none => m.type.isSlide = false
  | some ds =>
    m.type.isSlide = true ∧ ds ≠ [] ∧ (∀ d ∈ ds, 1 ≤ d) ∧ ds.sum ≤ n ∧
      (ds.length : Int) ≤ edgeDist n m

instance (n : Nat) (m : Move) : Decidable (MoveWF n m) := by
  unfold MoveWF
  cases m.slides <;> exact inferInstance

/-- A placement is *plain* when it carries no drop tuple.  (The code ignores a drop tuple on a
    placement and `Rules.Legal` is indifferent to it — DESIGN.md C01 "unspecified zone" — but
    as a Python value `Move(x, y, PLACE_FLAT, (1,))` differs from `Move(x, y, PLACE_FLAT)`;
    generator and move table only ever hold the plain form.) -/
def Move.Plain (m : Move) : Prop := m.type.isSlide = false → m.slides = none

instance (m : Move) : Decidable m.Plain := by unfold Move.Plain; exact inferInstance

/-- drop the ignored tuple from a placement -/
def Move.norm (m : Move) : Move := if m.type.isSlide then m else { m with slides := none }

end Tak

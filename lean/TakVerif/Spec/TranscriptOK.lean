/-
  What property C11 asks of a self-play transcript, written from the property text (NOT from
  self_play.py), as a decidable predicate over OBSERVED data:

    * the transcript `t` (positions, candidate moves, search probabilities, values, result),
    * the per-position labels `labels` (what `Transcript.results` returned),
    * the trace `tr`: for every recorded position the engine's resignation signal `v_zero`
      and the index of the candidate that was played (neither is stored in the transcript,
      so an observer has to note them while the game is played).

  "A self-play transcript is a legal game with correct outcome labels: the recorded
   positions start at the initial position and each follows from the previous by one of
   that position's recorded candidate moves, all legal; candidates, search probabilities (a
   distribution) and values in [-1,1] line up one-to-one per position; play stops at the
   first terminal position, at resignation, or when the ply limit is exceeded.  The recorded
   result is the actual winner when the game was decided by the rules or by resignation and
   'no winner' for draws and games cut off by the ply limit, and the per-position labels are
   +1 where the winner is to move, -1 where the loser is, and 0 throughout when there is no
   winner."

  Reading of two points the sentence leaves open:
    * A position whose ply exceeds the limit is not adjudicated: the game counts as cut off
      (no winner) even if that position happens to be terminal as well.
    * The engine resigns for the side to move when `v_zero ≤ -threshold` and claims the win
      when `v_zero ≥ threshold`; were both to hold (only possible for a threshold ≤ 0) the
      claim is taken.

  `outcome` is the rules' adjudication (none = game not over, some none = draw,
  some (some c) = c has won); `eps` is the accuracy to which the search probabilities are
  required to sum to one (0 for exact engines; the regularised-policy solver of the real
  search only promises 1e-3, property C10).
-/
import TakVerif.Model.Core
import TakVerif.Model.SelfPlay
import TakVerif.Model.Move
import TakVerif.Spec.Rules

namespace Tak
namespace SelfPlay

/-- observed besides the transcript: per recorded position, the engine's `v_zero` and the
    index of the candidate that was played -/
structure Trace where
  v0s : List Rat
  chosen : List Nat
  deriving Repr, Inhabited

/-- a probability distribution, to accuracy `eps` -/
def DistOK (eps : Rat) (ps : List Rat) : Prop :=
  (∀ x ∈ ps, 0 ≤ x) ∧ (ps.sum - 1).abs ≤ eps

instance (eps : Rat) (ps : List Rat) : Decidable (DistOK eps ps) := by
  unfold DistOK; exact inferInstance

namespace Transcript

/-- number of recorded positions -/
def len (t : Transcript) : Nat := t.positions.length
/-- i-th recorded position (only used for `i < t.len`) -/
def pos (t : Transcript) (i : Nat) : Pos := t.positions.getD i default
/-- candidates recorded for position `i` -/
def cands (t : Transcript) (i : Nat) : List Move := t.moves.getD i []
/-- search probabilities recorded for position `i` -/
def dist (t : Transcript) (i : Nat) : List Rat := t.probs.getD i []
/-- value recorded for position `i` -/
def value (t : Transcript) (i : Nat) : Rat := t.values.getD i 0

end Transcript

namespace Trace
def v0 (tr : Trace) (i : Nat) : Rat := tr.v0s.getD i 0
def choice (tr : Trace) (i : Nat) : Nat := tr.chosen.getD i 0
end Trace

open Transcript Trace

/-- the candidate played at recorded position `i` (only used when the choice is in range) -/
def played (t : Transcript) (tr : Trace) (i : Nat) : Move := (t.cands i).getD (tr.choice i) default

/-- the position the rules prescribe after the move played at recorded position `i` -/
def successor (t : Transcript) (tr : Trace) (i : Nat) : Pos := Rules.result (t.pos i) (played t tr i)

/-- the engine gives the game up (either way) at recorded position `i` -/
def ResignsAt (cfg : SelfPlayConfig) (tr : Trace) (i : Nat) : Prop := cfg.threshold ≤ (tr.v0 i).abs

instance (cfg : SelfPlayConfig) (tr : Trace) (i : Nat) : Decidable (ResignsAt cfg tr i) := by
  unfold ResignsAt; exact inferInstance

/-- the game ended by resignation: the last recorded position is one where the engine gave up -/
def EndsByResignation (cfg : SelfPlayConfig) (t : Transcript) (tr : Trace) : Prop :=
  0 < t.len ∧ ResignsAt cfg tr (t.len - 1)

instance (cfg : SelfPlayConfig) (t : Transcript) (tr : Trace) : Decidable (EndsByResignation cfg t tr) := by
  unfold EndsByResignation; exact inferInstance

/-- the position at which play stopped when nobody resigned: the one reached by the last
    played move (the initial position when nothing was recorded) -/
def finalPos (init : Pos) (t : Transcript) (tr : Trace) : Pos :=
  if t.len = 0 then init else successor t tr (t.len - 1)

/-- the label position `p` must carry in a game with recorded result `r` -/
def labelFor (r : Option Color) (p : Pos) : Rat :=
  match r with
  | none => 0
  | some c => if p.toMove = c then 1 else -1

/-- the four lists (and the observer's two) have one entry per recorded position -/
structure Aligned (t : Transcript) (tr : Trace) (labels : List Rat) : Prop where
  moves : t.moves.length = t.len
  probs : t.probs.length = t.len
  values : t.values.length = t.len
  v0s : tr.v0s.length = t.len
  chosen : tr.chosen.length = t.len
  labels : labels.length = t.len

instance (t : Transcript) (tr : Trace) (labels : List Rat) : Decidable (Aligned t tr labels) :=
  decidable_of_iff
    (t.moves.length = t.len ∧ t.probs.length = t.len ∧ t.values.length = t.len ∧
      tr.v0s.length = t.len ∧ tr.chosen.length = t.len ∧ labels.length = t.len)
    ⟨fun ⟨a, b, c, d, e, f⟩ => ⟨a, b, c, d, e, f⟩, fun ⟨a, b, c, d, e, f⟩ => ⟨a, b, c, d, e, f⟩⟩

/-- how the game (begun at `init`) has to end, and what has to be recorded as its result -/
def EndOK (init : Pos) (cfg : SelfPlayConfig) (outcome : Pos → Option (Option Color)) (t : Transcript) (tr : Trace) : Prop :=
  if EndsByResignation cfg t tr then
    -- resignation: the side to move wins when it claims the win, otherwise its opponent
    t.result = some (if cfg.threshold ≤ tr.v0 (t.len - 1) then (t.pos (t.len - 1)).toMove
                     else (t.pos (t.len - 1)).toMove.flip)
  else
    -- a move was played from the last recorded position …
    (0 < t.len → tr.choice (t.len - 1) < (t.cands (t.len - 1)).length) ∧
    -- … and play stopped for a reason: past the ply limit (no winner), or over by the rules
    -- (the rules' winner; none for a draw)
    (if cfg.plyLimit < (finalPos init t tr).ply then t.result = none
     else outcome (finalPos init t tr) = some t.result)

instance (init : Pos) (cfg : SelfPlayConfig) (outcome : Pos → Option (Option Color)) (t : Transcript)
    (tr : Trace) : Decidable (EndOK init cfg outcome t tr) := by
  unfold EndOK; exact inferInstance

/-- **The property**, for a game begun at position `init` (`TranscriptOK` below fixes `init` to the
    initial position of the configured size). -/
structure GameOK (init : Pos) (cfg : SelfPlayConfig) (eps : Rat) (outcome : Pos → Option (Option Color))
    (t : Transcript) (tr : Trace) (labels : List Rat) : Prop where
  /-- candidates, probabilities, values (and the observer's notes, and the labels) line up
      one-to-one with the positions -/
  aligned : Aligned t tr labels
  /-- … and within a position every candidate has its probability -/
  lined : ∀ i, i < t.len → (t.dist i).length = (t.cands i).length
  /-- the recorded positions start at the initial position -/
  start : 0 < t.len → t.pos 0 = init
  /-- all recorded candidates are legal -/
  legal : ∀ i, i < t.len → ∀ m ∈ t.cands i, Rules.Legal (t.pos i) m
  /-- each position follows from the previous by one of its recorded candidates -/
  chain : ∀ i, i + 1 < t.len →
    tr.choice i < (t.cands i).length ∧ t.pos (i + 1) = successor t tr i
  /-- search probabilities are a distribution -/
  distribution : ∀ i, i < t.len → DistOK eps (t.dist i)
  /-- values lie in [-1, 1] -/
  valueRange : ∀ i, i < t.len → -1 ≤ t.value i ∧ t.value i ≤ 1
  /-- play had not stopped before: no recorded position is past the ply limit or terminal … -/
  live : ∀ i, i < t.len → (t.pos i).ply ≤ cfg.plyLimit ∧ outcome (t.pos i) = none
  /-- … and nobody resigned before the last recorded position -/
  noEarlyResignation : ∀ i, i + 1 < t.len → ¬ ResignsAt cfg tr i
  /-- play stopped for one of the three reasons and the recorded result is the right one -/
  ending : EndOK init cfg outcome t tr
  /-- labels: +1 where the winner is to move, -1 where the loser is, 0 throughout without a winner -/
  labelled : ∀ i, i < t.len → labels.getD i 0 = labelFor t.result (t.pos i)

/-! ### Decidability (the driver evaluates `TranscriptOK` on implementation transcripts)
    The clauses in checking order; `firstFailure` names the first clause that fails and the
    first index at which it fails.  The verdict itself is `decide (TranscriptOK …)`. -/

section
variable (init : Pos) (cfg : SelfPlayConfig) (eps : Rat) (outcome : Pos → Option (Option Color))
  (t : Transcript) (tr : Trace) (labels : List Rat)

instance : Decidable (GameOK init cfg eps outcome t tr labels) :=
  decidable_of_iff
    (Aligned t tr labels ∧
     (∀ i, i < t.len → (t.dist i).length = (t.cands i).length) ∧
     (0 < t.len → t.pos 0 = init) ∧
     (∀ i, i < t.len → ∀ m ∈ t.cands i, Rules.Legal (t.pos i) m) ∧
     (∀ i, i < t.len - 1 → tr.choice i < (t.cands i).length ∧ t.pos (i + 1) = successor t tr i) ∧
     (∀ i, i < t.len → DistOK eps (t.dist i)) ∧
     (∀ i, i < t.len → -1 ≤ t.value i ∧ t.value i ≤ 1) ∧
     (∀ i, i < t.len → (t.pos i).ply ≤ cfg.plyLimit ∧ outcome (t.pos i) = none) ∧
     (∀ i, i < t.len - 1 → ¬ ResignsAt cfg tr i) ∧
     EndOK init cfg outcome t tr ∧
     (∀ i, i < t.len → labels.getD i 0 = labelFor t.result (t.pos i)))
    ⟨fun ⟨a, b, c, d, e, f, g, h, i, j, k⟩ =>
       ⟨a, b, c, d, fun n hn => e n (by omega), f, g, h, fun n hn => i n (by omega), j, k⟩,
     fun ⟨a, b, c, d, e, f, g, h, i, j, k⟩ =>
       ⟨a, b, c, d, fun n hn => e n (by omega), f, g, h, fun n hn => i n (by omega), j, k⟩⟩

/-- first index below `n` at which a decidable clause fails -/
def firstBad (n : Nat) (P : Nat → Prop) [DecidablePred P] : Option Nat :=
  (List.range n).find? fun i => !decide (P i)

/-- diagnosis for a transcript that is not OK: (clause, index) of the first failing clause
    in the order of `TranscriptOK`; `none` when no clause fails -/
def firstFailure : Option (String × Nat) :=
  let n := t.len
  let per (name : String) (m : Nat) (P : Nat → Prop) [DecidablePred P] : Option (String × Nat) :=
    (firstBad m P).map fun i => (name, i)
  if ¬ Aligned t tr labels then some ("aligned", n) else
  (per "lined" n fun i => (t.dist i).length = (t.cands i).length) <|>
  (if 0 < n ∧ t.pos 0 ≠ init then some ("start", 0) else none) <|>
  (per "legal" n fun i => ∀ m ∈ t.cands i, Rules.Legal (t.pos i) m) <|>
  (per "chain" (n - 1) fun i => tr.choice i < (t.cands i).length ∧ t.pos (i + 1) = successor t tr i) <|>
  (per "distribution" n fun i => DistOK eps (t.dist i)) <|>
  (per "value-range" n fun i => -1 ≤ t.value i ∧ t.value i ≤ 1) <|>
  (per "live" n fun i => (t.pos i).ply ≤ cfg.plyLimit ∧ outcome (t.pos i) = none) <|>
  (per "early-resignation" (n - 1) fun i => ¬ ResignsAt cfg tr i) <|>
  (if ¬ EndOK init cfg outcome t tr then some ("ending", n) else none) <|>
  (per "labels" n fun i => labels.getD i 0 = labelFor t.result (t.pos i))

/-- how the observed game came to its end, judged from positions and trace only (not from
    the recorded result): used by the driver to say which kind of ending a failing
    transcript had -/
inductive EndKind where
  | resignation | plyLimit | decided (w : Option Color) | unfinished
  deriving DecidableEq, Repr

def endKind : EndKind :=
  if EndsByResignation cfg t tr then .resignation
  else if cfg.plyLimit < (finalPos init t tr).ply then .plyLimit
  else match outcome (finalPos init t tr) with
    | some w => .decided w
    | none => .unfinished

end

/-- **The property C11** of a transcript of `play_one_game(cfg, engine)`: a game begun at the
    initial position of the configured size. -/
def TranscriptOK (cfg : SelfPlayConfig) (eps : Rat) (outcome : Pos → Option (Option Color))
    (t : Transcript) (tr : Trace) (labels : List Rat) : Prop :=
  GameOK (initialPos cfg.size) cfg eps outcome t tr labels

instance (cfg : SelfPlayConfig) (eps : Rat) (outcome : Pos → Option (Option Color))
    (t : Transcript) (tr : Trace) (labels : List Rat) : Decidable (TranscriptOK cfg eps outcome t tr labels) := by
  unfold TranscriptOK; exact inferInstance

/-! ### What the theorems assume of the engine (the guarantees of properties C08/C09/C10) -/

/-- Statement of C01's main theorem (`Tak.C01.C01_move_refines_rules`), taken as hypothesis `h01`
    by the C11 theorems that conclude legality or the successor the rules prescribe. -/
def MoveRefinesRules : Prop :=
  ∀ (p : Pos) (m : Move), p.WF →
    Impl.move p m = if Rules.Legal p m then .ok (Rules.result p m) else .error .illegal

/-- One answer of the engine at position `p`: the children are moves the implementation accepts,
    each with the position it produces; one probability per child, together a distribution;
    `|value| ≤ simulations`, at least one simulation; the sampled index names a child. -/
structure AnswerOK (eps : Rat) (p : Pos) (a : Answer) : Prop where
  children : ∀ c ∈ a.children, Impl.move p c.1 = .ok c.2
  lined : a.probs.length = a.children.length
  dist : DistOK eps a.probs
  sims : 1 ≤ a.sims
  valueLo : -(a.sims : Rat) ≤ a.value
  valueHi : a.value ≤ (a.sims : Rat)
  chosen : a.chosen < a.children.length

/-- `Impl.move p m = .ok q`, as a Boolean -/
def acceptsAs (p : Pos) (m : Move) (q : Pos) : Bool :=
  match Impl.move p m with
  | .ok q' => decide (q' = q)
  | .error _ => false

theorem acceptsAs_iff (p : Pos) (m : Move) (q : Pos) : acceptsAs p m q = true ↔ Impl.move p m = .ok q := by
  unfold acceptsAs
  split <;> simp_all

instance (p : Pos) (m : Move) (q : Pos) : Decidable (Impl.move p m = .ok q) :=
  decidable_of_iff _ (acceptsAs_iff p m q)

instance (eps : Rat) (p : Pos) (a : Answer) : Decidable (AnswerOK eps p a) :=
  decidable_of_iff
    ((∀ c ∈ a.children, Impl.move p c.1 = .ok c.2) ∧ a.probs.length = a.children.length ∧
      DistOK eps a.probs ∧ 1 ≤ a.sims ∧ -(a.sims : Rat) ≤ a.value ∧ a.value ≤ (a.sims : Rat) ∧
      a.chosen < a.children.length)
    ⟨fun ⟨a, b, c, d, e, f, g⟩ => ⟨a, b, c, d, e, f, g⟩, fun ⟨a, b, c, d, e, f, g⟩ => ⟨a, b, c, d, e, f, g⟩⟩

/-- the observer's notes for the first `n` answers of the stream -/
def traceOf (oracle : Nat → Answer) : Nat → Trace
  | 0 => ⟨[], []⟩
  | n + 1 =>
    let r := traceOf (tail oracle) n
    ⟨(oracle 0).v0 :: r.v0s, (oracle 0).chosen :: r.chosen⟩

/-- every answer that the game started at `p` consumed was OK for the position it was asked about -/
def AnswersOKFrom (cfg : SelfPlayConfig) (eps : Rat) (outcome : Pos → Option (Option Color))
    (fuel : Nat) (oracle : Nat → Answer) (p : Pos) : Prop :=
  ∀ i, i < (playFrom cfg outcome fuel oracle p).log.len →
    AnswerOK eps ((playFrom cfg outcome fuel oracle p).log.pos i) (oracle i)

/-- every answer that `play_one_game` consumed was OK for the position it was asked about -/
def AnswersOK (cfg : SelfPlayConfig) (eps : Rat) (outcome : Pos → Option (Option Color))
    (oracle : Nat → Answer) : Prop :=
  AnswersOKFrom cfg eps outcome (fuelFor cfg) oracle (initialPos cfg.size)

instance (cfg : SelfPlayConfig) (eps : Rat) (outcome : Pos → Option (Option Color))
    (oracle : Nat → Answer) : Decidable (AnswersOK cfg eps outcome oracle) := by
  unfold AnswersOK AnswersOKFrom; exact inferInstance

end SelfPlay
end Tak

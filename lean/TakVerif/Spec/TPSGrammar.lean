/-
  TPS (Tak Positional System) as the standard describes it — written from the standard,
  NOT from python/tak/ptn/tps.py, and importing nothing of the model but the data types.

  The standard (ustak.org "Tak Positional System"):
    `[TPS "<board> <player> <move>"]`
    * three fields separated by single spaces;
    * board: the rows (ranks) separated by `/`, listed from the TOP rank (highest number)
      down to rank 1; within a row the squares from file `a` (left) to the last file,
      separated by `,`;
    * a square: `x` for an empty square, `x<n>` for `n` consecutive empty squares; a stack is
      the colours of its pieces (`1` white, `2` black) from the BOTTOM piece to the TOP piece,
      followed by `S` when the top piece is a standing stone (wall) and `C` when it is a
      capstone;
    * player: `1` or `2`, the side to move;  move: the current move number, counted from 1.
  Board sizes are 3..8, every row describes exactly `size` squares, so a count `n` in `x<n>`
  is one digit `1..8`.

  `Grammar`    — well-formed TPS (a decidable recogniser, `Bool`-valued underneath).
  `Canonical`  — the one text the standard's writer produces for a position: empty squares
                 grouped maximally, a single empty square written `x` (never `x1`), the move
                 number without leading zeros.
  `writeTPS`   — the reference writer.
-/
import TakVerif.Model.Core

namespace Tak.Spec.TPS

/-! ### fields -/

/-- the fields of `s` separated by `sep` (accumulator `cur` holds the current field reversed) -/
def fieldsAux (sep : Char) : List Char → List Char → List (List Char)
  | [], cur => [cur.reverse]
  | c :: cs, cur =>
    if c = sep then cur.reverse :: fieldsAux sep cs [] else fieldsAux sep cs (c :: cur)

def fields (sep : Char) (s : List Char) : List (List Char) := fieldsAux sep s []

/-! ### grammar -/

def isColour (c : Char) : Bool := c = '1' || c = '2'
def isMark (c : Char) : Bool := c = 'S' || c = 'C'
def isCount (c : Char) : Bool :=
  c = '1' || c = '2' || c = '3' || c = '4' || c = '5' || c = '6' || c = '7' || c = '8'

/-- `[12]+[SC]?` : one or more colours, then at most one mark -/
def isStackText : List Char → Bool
  | [] => false
  | [c] => isColour c
  | [c, m] => isColour c && (isColour m || isMark m)
  | c :: rest => isColour c && isStackText rest

/-- item = `x` | `x[1-8]` | `[12]+[SC]?` -/
def isItem (s : List Char) : Bool :=
  match s with
  | [] => false
  | c :: rest =>
    if c = 'x' then
      match rest with
      | [] => true
      | [d] => isCount d
      | _ => false
    else isStackText s

/-- how many squares an item describes -/
def itemSquares (s : List Char) : Nat :=
  match s with
  | [c, d] => if c = 'x' then d.toNat - '0'.toNat else 1
  | _ => 1

/-- a row for a board of size `n`: comma-separated items describing exactly `n` squares -/
def isRow (n : Nat) (r : List Char) : Bool :=
  let items := fields ',' r
  items.all isItem && (items.map itemSquares).sum == n

/-- 3..8 rows separated by `/`, each describing exactly that many squares -/
def isBoard (b : List Char) : Bool :=
  let rows := fields '/' b
  decide (3 ≤ rows.length) && decide (rows.length ≤ 8) && rows.all (isRow rows.length)

def isPlayer (w : List Char) : Bool := w == ['1'] || w == ['2']

/-- a positive decimal number in ASCII digits (leading zeros are not excluded here) -/
def isNumber (m : List Char) : Bool :=
  !m.isEmpty && m.all (fun c => decide ('0' ≤ c) && decide (c ≤ '9')) && m.any (· ≠ '0')

def grammarb (t : List Char) : Bool :=
  match fields ' ' t with
  | [b, w, m] => isBoard b && isPlayer w && isNumber m
  | _ => false

/-- well-formed TPS -/
def Grammar (t : List Char) : Prop := grammarb t = true

instance (t : List Char) : Decidable (Grammar t) := by unfold Grammar; exact inferInstance

/-! ### canonical texts -/

def isGap : List Char → Bool
  | c :: _ => c = 'x'
  | [] => false

/-- no two neighbouring items are both runs of empty squares (runs are maximal) -/
def noAdjacentGaps : List (List Char) → Bool
  | a :: b :: r => !(isGap a && isGap b) && noAdjacentGaps (b :: r)
  | _ => true

def rowCanonical (r : List Char) : Bool :=
  let items := fields ',' r
  noAdjacentGaps items && items.all (· ≠ ['x', '1'])

def canonicalb (t : List Char) : Bool :=
  grammarb t &&
  match fields ' ' t with
  | [b, _, m] => (fields '/' b).all rowCanonical && m.head? != some '0'
  | _ => false

def Canonical (t : List Char) : Prop := canonicalb t = true

instance (t : List Char) : Decidable (Canonical t) := by unfold Canonical; exact inferInstance

/-! ### reference writer -/

def colourDigit : Color → Char
  | .white => '1'
  | .black => '2'

/-- a non-empty stack: colours bottom to top, then the mark of the top piece -/
def writeStack (s : Stack) : List Char :=
  let colours := (s.map fun pc => colourDigit pc.color).reverse
  match s with
  | [] => colours
  | top :: _ =>
    match top.kind with
    | .flat => colours
    | .standing => colours ++ ['S']
    | .cap => colours ++ ['C']

/-- a pending run of `k` empty squares -/
def writeGap : Nat → List (List Char)
  | 0 => []
  | 1 => [['x']]
  | k + 2 => ['x' :: (Nat.repr (k + 2)).toList]

/-- items of a row, left to right, `k` = empty squares seen since the last item -/
def writeItems : Nat → List Stack → List (List Char)
  | k, [] => writeGap k
  | k, [] :: rest => writeItems (k + 1) rest
  | k, (pc :: s) :: rest => writeGap k ++ writeStack (pc :: s) :: writeItems 0 rest

def commaSep : List (List Char) → List Char
  | [] => []
  | [a] => a
  | a :: rest => a ++ ',' :: commaSep rest

def slashSep : List (List Char) → List Char
  | [] => []
  | [a] => a
  | a :: rest => a ++ '/' :: slashSep rest

/-- rank `y` (0 = rank 1), files left to right -/
def rankSquares (p : Pos) (y : Nat) : List Stack := (List.range p.size).map fun x => p.sq x y

def writeRank (p : Pos) (y : Nat) : List Char := commaSep (writeItems 0 (rankSquares p y))

/-- ranks from the top rank (`size - 1`) down to rank 1 (`0`) -/
def ranksTopDown (n : Nat) : List Nat := (List.range n).reverse

def writeBoard (p : Pos) : List Char := slashSep ((ranksTopDown p.size).map (writeRank p))

def writePlayer (p : Pos) : List Char :=
  match p.toMove with
  | .white => ['1']
  | .black => ['2']

/-- the move number of a position after `ply` half-moves: moves are counted from 1 and each
    consists of a white and a black half-move -/
def moveNumber (p : Pos) : Nat := p.ply.toNat / 2 + 1

def writeTPS (p : Pos) : List Char :=
  writeBoard p ++ ' ' :: writePlayer p ++ ' ' :: (Nat.repr (moveNumber p)).toList

/-! ### the positions TPS can express -/

/-- only the top piece of a stack may be a wall or a capstone: TPS has ONE mark per square,
    read as the kind of the top piece, so a buried wall or capstone cannot be written -/
def flatsBelowTop (s : Stack) : Bool := s.tail.all fun pc => pc.kind == Kind.flat

/-- hypotheses of the round-trip theorems: a `size × size` board, 3 ≤ size ≤ 8, a
    non-negative ply, and only flats below the top of every stack -/
def TPSWF (p : Pos) : Prop :=
  p.WF ∧ 3 ≤ p.size ∧ p.size ≤ 8 ∧ 0 ≤ p.ply ∧ p.board.all flatsBelowTop = true

instance (p : Pos) : Decidable (TPSWF p) := by unfold TPSWF; exact inferInstance

end Tak.Spec.TPS

/-
  The rules of Tak for one move, written from the rule book (NOT from game.py):
  which moves are legal in a position, and the successor they produce, in closed form
  (no loop).  `Props/C01.lean` proves that `Impl.move` refines this.
-/
import TakVerif.Model.Core

namespace Tak
namespace Rules

/-- Colour of a stone put down by a placement: the opponent's in each player's first
    turn (plies 0 and 1), the mover's afterwards. -/
def placeColor (p : Pos) : Color := if p.ply < 2 then p.toMove.flip else p.toMove

def placeKind : MoveType → Option Kind
  | .placeFlat => some .flat
  | .placeStanding => some .standing
  | .placeCap => some .cap
  | _ => none

/-- reserve the placed piece is taken from -/
def reserveFor (p : Pos) (c : Color) (k : Kind) : Int :=
  if k = .cap then p.caps c else p.stones c

/-- A placement of a piece of kind `k` is allowed. -/
structure PlaceOK (p : Pos) (m : Move) (k : Kind) : Prop where
  kind : placeKind m.type = some k
  onBoard : p.inBounds m.x m.y = true
  /-- in the opening only flats are placed -/
  opening : p.ply < 2 → k = .flat
  empty : p.atI m.x m.y = []
  reserve : 0 < reserveFor p (placeColor p) k

/-- The drop counts of a slide, when they are a non-empty tuple of positive integers. -/
def slideDrops (m : Move) : Option (List Nat) :=
  match m.slides with
  | none => none
  | some ds => if ds ≠ [] ∧ ds.all (fun d => decide (1 ≤ d)) then some (ds.map Int.toNat) else none

/-- i-th square of the slide's path (i = 0 is the first square after the origin) -/
def pathSq (m : Move) (i : Nat) : Int × Int :=
  (m.x + ((i : Int) + 1) * m.type.direction.1, m.y + ((i : Int) + 1) * m.type.direction.2)

def pathStack (p : Pos) (m : Move) (i : Nat) : Stack :=
  p.atI (pathSq m i).1 (pathSq m i).2

/-- A slide with drop counts `ds` is allowed. -/
structure SlideOK (p : Pos) (m : Move) (ds : List Nat) : Prop where
  isSlide : m.type.isSlide = true
  /-- no slides in the opening -/
  opening : 2 ≤ p.ply
  onBoard : p.inBounds m.x m.y = true
  drops : slideDrops m = some ds
  /-- carry limit -/
  carryLimit : ds.sum ≤ p.size
  height : ds.sum ≤ (p.atI m.x m.y).length
  /-- the mover controls the stack -/
  owner : topColor (p.atI m.x m.y) = some p.toMove
  pathIn : ∀ i, i < ds.length → p.inBounds (pathSq m i).1 (pathSq m i).2 = true
  noCap : ∀ i, i < ds.length → topKind (pathStack p m i) ≠ some .cap
  /-- a wall may only be entered by a capstone that is the single piece still carried -/
  wall : ∀ i, i < ds.length → topKind (pathStack p m i) = some .standing →
           ds.sum - (ds.take i).sum = 1 ∧ topKind (p.atI m.x m.y) = some .cap

def Legal (p : Pos) (m : Move) : Prop :=
  (∃ k, PlaceOK p m k) ∨ (∃ ds, SlideOK p m ds)

/-! Decidability (the driver evaluates `Legal` on implementation data). -/

def placeOKb (p : Pos) (m : Move) (k : Kind) : Bool :=
  decide (placeKind m.type = some k) && p.inBounds m.x m.y &&
  decide (p.ply < 2 → k = .flat) && decide (p.atI m.x m.y = []) &&
  decide (0 < reserveFor p (placeColor p) k)

theorem placeOKb_iff (p : Pos) (m : Move) (k : Kind) : placeOKb p m k = true ↔ PlaceOK p m k := by
  unfold placeOKb
  constructor
  · intro h
    simp only [Bool.and_eq_true, decide_eq_true_eq] at h
    exact ⟨h.1.1.1.1, h.1.1.1.2, h.1.1.2, h.1.2, h.2⟩
  · intro h
    simp only [Bool.and_eq_true, decide_eq_true_eq]
    exact ⟨⟨⟨⟨h.kind, h.onBoard⟩, h.opening⟩, h.empty⟩, h.reserve⟩

def slideOKb (p : Pos) (m : Move) (ds : List Nat) : Bool :=
  m.type.isSlide && decide (2 ≤ p.ply) && p.inBounds m.x m.y &&
  decide (slideDrops m = some ds) && decide (ds.sum ≤ p.size) &&
  decide (ds.sum ≤ (p.atI m.x m.y).length) &&
  decide (topColor (p.atI m.x m.y) = some p.toMove) &&
  decide (∀ i, i < ds.length → p.inBounds (pathSq m i).1 (pathSq m i).2 = true) &&
  decide (∀ i, i < ds.length → topKind (pathStack p m i) ≠ some .cap) &&
  decide (∀ i, i < ds.length → topKind (pathStack p m i) = some .standing →
           ds.sum - (ds.take i).sum = 1 ∧ topKind (p.atI m.x m.y) = some .cap)

theorem slideOKb_iff (p : Pos) (m : Move) (ds : List Nat) : slideOKb p m ds = true ↔ SlideOK p m ds := by
  unfold slideOKb
  constructor
  · intro h
    simp only [Bool.and_eq_true, decide_eq_true_eq] at h
    obtain ⟨⟨⟨⟨⟨⟨⟨⟨⟨h1, h2⟩, h3⟩, h4⟩, h5⟩, h6⟩, h7⟩, h8⟩, h9⟩, h10⟩ := h
    exact ⟨h1, h2, h3, h4, h5, h6, h7, h8, h9, h10⟩
  · intro h
    simp only [Bool.and_eq_true, decide_eq_true_eq]
    exact ⟨⟨⟨⟨⟨⟨⟨⟨⟨h.isSlide, h.opening⟩, h.onBoard⟩, h.drops⟩, h.carryLimit⟩, h.height⟩,
      h.owner⟩, h.pathIn⟩, h.noCap⟩, h.wall⟩

def legalb (p : Pos) (m : Move) : Bool :=
  placeOKb p m .flat || placeOKb p m .standing || placeOKb p m .cap ||
  (match slideDrops m with
   | some ds => slideOKb p m ds
   | none => false)

theorem legalb_iff (p : Pos) (m : Move) : legalb p m = true ↔ Legal p m := by
  unfold legalb Legal
  constructor
  · intro h
    simp only [Bool.or_eq_true] at h
    rcases h with ((h | h) | h) | h
    · exact .inl ⟨_, (placeOKb_iff ..).1 h⟩
    · exact .inl ⟨_, (placeOKb_iff ..).1 h⟩
    · exact .inl ⟨_, (placeOKb_iff ..).1 h⟩
    · right
      split at h
      · exact ⟨_, (slideOKb_iff ..).1 h⟩
      · cases h
  · rintro (⟨k, h⟩ | ⟨ds, h⟩)
    · have := (placeOKb_iff ..).2 h
      cases k <;> simp [this]
    · have hb := (slideOKb_iff ..).2 h
      simp [h.drops, hb]

instance (p : Pos) (m : Move) : Decidable (Legal p m) :=
  decidable_of_iff _ (legalb_iff p m)

/-! The successor, in closed form. -/

/-- a wall that is entered (necessarily by a lone capstone) becomes a flat -/
def flattened (s : Stack) : Stack :=
  match s with
  | [] => []
  | t :: rest => if t.kind = .standing then ⟨t.color, .flat⟩ :: rest else t :: rest

/-- The pieces picked up: the top `ds.sum` of the origin stack, top first. -/
def carried (p : Pos) (m : Move) (ds : List Nat) : Stack := (p.atI m.x m.y).take ds.sum

/-- The part of the carried pieces dropped on path square `i`: the carried pieces are
    dropped from the bottom, so square `i` receives positions
    `[n - (d₀+…+dᵢ), n - (d₀+…+dᵢ₋₁))` of the carried stack (top first), `n = ds.sum`. -/
def segment (p : Pos) (m : Move) (ds : List Nat) (i : Nat) : Stack :=
  ((carried p m ds).take (ds.sum - (ds.take i).sum)).drop (ds.sum - (ds.take (i+1)).sum)

/-- What stands on square `(x, y)` after the slide. -/
def slideSquare (p : Pos) (m : Move) (ds : List Nat) (x y : Nat) : Stack :=
  if ((x : Int), (y : Int)) = (m.x, m.y) then (p.atI m.x m.y).drop ds.sum
  else
    match (List.range ds.length).find? (fun i => pathSq m i = ((x : Int), (y : Int))) with
    | some i => segment p m ds i ++ flattened (p.sq x y)
    | none => p.sq x y

def boardOf (size : Nat) (f : Nat → Nat → Stack) : List Stack :=
  (List.range (size * size)).map fun i => f (i % size) (i / size)

def takeReserve (p : Pos) (c : Color) (k : Kind) : Pos :=
  match c, decide (k = .cap) with
  | .white, false => { p with wStones := p.wStones - 1 }
  | .white, true  => { p with wCaps := p.wCaps - 1 }
  | .black, false => { p with bStones := p.bStones - 1 }
  | .black, true  => { p with bCaps := p.bCaps - 1 }

/-- The successor the rules prescribe for a legal move (meaningless for illegal ones). -/
def result (p : Pos) (m : Move) : Pos :=
  match placeKind m.type with
  | some k =>
    let q := takeReserve p (placeColor p) k
    { q with ply := p.ply + 1,
             board := boardOf p.size fun x y =>
               if ((x : Int), (y : Int)) = (m.x, m.y) then [⟨placeColor p, k⟩] else p.sq x y }
  | none =>
    let ds := (slideDrops m).getD []
    { p with ply := p.ply + 1, board := boardOf p.size (slideSquare p m ds) }

end Rules
end Tak

/-
  Declarative vocabulary for C12 / C20, written from the property text (not from the code):
  "each distinct position once, in order of first occurrence", "arithmetic mean over that
  position's occurrences", "each stored row exactly once", "batches of the configured size with
  only the last one shorter", "padding is marked by the mask".
  The Bool-valued predicates at the end are what the driver evaluates on data observed from the
  implementation during the failing-input search.  No Mathlib (the driver links this file).
-/
import TakVerif.Model.Batch

namespace Tak
namespace BatchSpec
open Tak.Batch

/-! ## de-duplication -/

/-- the distinct elements of a list, in order of first occurrence -/
def distinct {κ : Type} [DecidableEq κ] : List κ → List κ
  | [] => []
  | a :: l => a :: (distinct l).filter (· ≠ a)

/-- the rows of `b` showing position `k` (its occurrences), in batch order -/
def occ (b : List Row) (k : List Nat) : List Row := b.filter (key · = k)

/-- arithmetic mean of column `c` over `rows` -/
def colMean (rows : List (List Rat)) (c : Nat) : Rat :=
  (rows.map (·.getD c 0)).sum / (rows.length : Rat)

/-- a position written into a row of width `w` with arbitrary content `pad` beyond its end -/
def padRow (t : List Nat) (pad : List Nat) : List Nat × List Bool :=
  (t ++ pad, List.replicate t.length true ++ List.replicate pad.length false)

/-! ## padding to the widest row -/

/-- the widest row -/
def maxLen (rows : List (List Nat)) : Nat := rows.foldl (fun m r => max m r.length) 0

/-- a row padded with zeros to width `w` -/
def padTo (w : Nat) (r : List Nat) : List Nat := r ++ List.replicate (w - r.length) 0

/-- the mask of a row of real length `r.length` in width `w` -/
def maskTo (w : Nat) (r : List Nat) : List Bool :=
  List.replicate r.length true ++ List.replicate (w - r.length) false

/-! ## one row of `encode_games` per recorded position, game order then ply order -/

/-- what the property says a row holds, for position `i` of transcript `t` -/
structure RowSpec where
  toks : List Nat
  /-- for every column: the search probability of the candidate with that id, else 0 -/
  dense : Nat → Rat
  value : Rat
  label : Rat

/-- +1 if the player to move at `p` is the recorded winner, −1 if not, 0 without a result -/
def label (result : Option Color) (p : Pos) : Rat :=
  match result with
  | none => 0
  | some c => if p.toMove = c then 1 else -1

/-- a transcript as self-play records it: at least one position; one candidate list, one
    probability vector and one value per position; candidates without repetition, all of them in
    the move table of the game's board size with an id inside the policy head of width `W` -/
structure TranscriptOK (t : Transcript) (W : Nat) (p0 : Pos) : Prop where
  first : t.positions.head? = some p0
  len_moves : t.moves.length = t.positions.length
  len_probs : t.probs.length = t.positions.length
  len_values : t.values.length = t.positions.length
  cands : ∀ (i : Nat) (ms : List Move) (ps : List Rat), t.moves[i]? = some ms → t.probs[i]? = some ps →
    ms.Nodup ∧ ps.length = ms.length ∧ ∀ m ∈ ms, ∃ c, Gen.encodeMove p0.size m = some c ∧ c < W

/-- a dense policy target of width `W` for candidates `ms` with search probabilities `ps`:
    the probability of candidate `j` in the column of its move id, zero in every other column -/
def DenseRow (size W : Nat) (ms : List Move) (ps : List Rat) (row : List Rat) : Prop :=
  row.length = W ∧
  (∀ j (_ : j < ms.length) c, Gen.encodeMove size ms[j] = some c → row[c]? = ps[j]?) ∧
  (∀ c, c < W → (∀ m ∈ ms, Gen.encodeMove size m ≠ some c) → row[c]? = some 0)

/-- a replay-buffer element as `encode_games`/`dedup_batch` produce it: rectangular positions and
    mask of the recorded width, `nKeys` other columns with one cell per row -/
structure BufferOK {α : Type} (d : Buffer α) (nKeys : Nat) : Prop where
  rows : d.mask.length = d.positions.length
  posW : ∀ r ∈ d.positions, r.length = d.width
  maskW : ∀ r ∈ d.mask, r.length = d.width
  keys : d.others.length = nKeys
  otherRows : ∀ v ∈ d.others, v.length = d.positions.length

/-! ## Bool predicates for the driver -/

def closeTo (tol a b : Rat) : Bool :=
  let d := if a ≤ b then b - a else a - b
  let m := if 0 ≤ b then b else -b
  decide (d ≤ tol * (if m ≤ 1 then 1 else m))

/-- output keys are the distinct input keys in order of first occurrence -/
def dedupKeysOK (inp out : List Row) : Bool := out.map key == distinct (inp.map key)

/-- every target of an output row is the mean over the occurrences of its key (within `tol`) -/
def dedupMeanOK (tol : Rat) (inp out : List Row) : Bool :=
  out.all fun o =>
    let rows := (occ inp (key o)).map (·.tgt)
    rows.all (fun r => r.length == o.tgt.length) &&
    (List.range o.tgt.length).all fun c => closeTo tol (o.tgt.getD c 0) (colMean rows c)

/-- the kept tokens and mask are those of the first occurrence -/
def dedupFirstOK (inp out : List Row) : Bool :=
  out.all fun o =>
    match (occ inp (key o)).head? with
    | some f => o.toks == f.toks && o.mask == f.mask
    | none => false

/-- a batch without duplicate keys comes back unchanged -/
def dedupIdOK (inp out : List Row) : Bool :=
  if (inp.map key).Nodup then out == inp else true

/-! ### epochs -/

/-- row `j` of a table given by its columns -/
def rowAt {α : Type} (cols : List (List α)) (j : Nat) : List (Option α) := cols.map (·[j]?)

/-- all rows of a table given by its columns (`n` = number of rows) -/
def rowsOf {α : Type} (cols : List (List α)) (n : Nat) : List (List (Option α)) :=
  (List.range n).map (rowAt cols)

/-- the rows of an epoch, batch after batch -/
def epochRows {α : Type} (batches : List (List (List α))) : List (List (Option α)) :=
  batches.flatMap fun bt => rowsOf bt (nRows bt)

/-- sizes: `⌈n/b⌉` batches, every column slice of batch `k` has `min b (n - k*b)` cells -/
def batchSizesOK {α : Type} (n b : Nat) (batches : List (List (List α))) : Bool :=
  batches.length == numBatches n b &&
  batches.zipIdx.all fun (bt, k) => bt.all fun v => v.length == min b (n - k * b)

/-- the number of rows of a batch: the length of its first column slice -/
def batchLen {α : Type} (bt : List (List α)) : Nat := (bt.headD []).length

/-- `batchSizesOK` on the batch lengths alone (used for datasets too large to spell out) -/
def sizesOK (n b : Nat) (sizes : List Nat) : Bool :=
  sizes.length == numBatches n b && sizes.zipIdx.all fun (l, k) => l == min b (n - k * b)

theorem sizesOK_of_batchSizesOK {α : Type} (n b : Nat) (bs : List (List (List α)))
    (h : batchSizesOK n b bs = true) (hne : ∀ bt ∈ bs, bt ≠ []) :
    sizesOK n b (bs.map batchLen) = true := by
  simp only [batchSizesOK, Bool.and_eq_true, beq_iff_eq, List.all_eq_true] at h
  obtain ⟨hlen, hall⟩ := h
  simp only [sizesOK, List.length_map, hlen, beq_self_eq_true, Bool.true_and, List.all_eq_true]
  rintro ⟨l, k⟩ hmem
  have hk := List.mem_zipIdx_iff_getElem?.mp hmem
  simp only [List.getElem?_map, Option.map_eq_some_iff] at hk
  obtain ⟨bt, hbt, hl⟩ := hk
  have hmem' : (bt, k) ∈ bs.zipIdx := List.mem_zipIdx_iff_getElem?.mpr hbt
  have hcols := hall (bt, k) hmem'
  have hbtne := hne bt (List.mem_of_getElem? hbt)
  cases bt with
  | nil => exact absurd rfl hbtne
  | cons v rest =>
    have := hcols v List.mem_cons_self
    simp only [batchLen, List.headD_cons] at hl
    simpa [← hl] using this

/-- every emitted row is a stored row (all fields of one stored row) -/
def alignedOK {α : Type} [DecidableEq α] (cols : List (List α)) (batches : List (List (List α))) : Bool :=
  let stored := rowsOf cols (nRows cols)
  (epochRows batches).all fun r => stored.contains r

/-- every stored row comes out exactly once -/
def permOK {α : Type} [DecidableEq α] (cols : List (List α)) (batches : List (List (List α))) : Bool :=
  let stored := rowsOf cols (nRows cols)
  let got := epochRows batches
  got.length == stored.length && stored.all fun r => got.count r == stored.count r

/-- a recorded permutation really is one: the hypothesis of the epoch theorems, decided -/
def isPermOfRange (n : Nat) (perm : List Nat) : Bool := decide (perm.Perm (List.range n))

/-- after merging: row = original tokens, then zeros; mask = original mask, then false -/
def catRowOK (w : Nat) (orig : List Nat × List Bool) (got : List Nat × List Bool) : Bool :=
  got.1 == orig.1 ++ List.replicate (w - orig.1.length) 0 &&
  got.2 == orig.2 ++ List.replicate (w - orig.2.length) false &&
  got.1.length == w && got.2.length == w

def catMaskOK {α : Type} (bufs : List (Buffer α)) (flat : FlatBuffer α) : Bool :=
  let w := maxWidth bufs
  let orig := bufs.flatMap fun d => d.positions.zip d.mask
  let got := flat.positions.zip flat.mask
  got.length == orig.length && flat.positions.length == flat.mask.length &&
  (orig.zip got).all fun (o, g) => catRowOK w o g

/-- the unfolding equations are generated here, so that `Props/C12.lean` and `Props/C20.lean`
    declare property theorems only -/
theorem unfoldingEquationsGenerated : True := by
  have := @dedupFirstOK.eq_1
  have := @dedupIdOK.eq_1
  have := @dedupKeysOK.eq_1
  have := @dedupMeanOK.eq_1
  have := @label.eq_1
  have := @label.eq_2
  have := @alignedOK.eq_1
  have := @batchSizesOK.eq_1
  have := @permOK.eq_1
  trivial

end BatchSpec
end Tak

/-
  C04 — "every reachable position is physically consistent": the invariant, written from
  the property text (NOT from game.py).  Mathlib-free: the native driver evaluates these
  predicates on the implementation's observed positions.

  * `TopsOnly p`      only the top piece of a stack is ever a wall or a capstone
  * `Inv cfg p`       board is a `size × size` grid of the configured size; for each colour
                      stones on the board + stone reserve = configured stone count, likewise
                      capstones; reserves are never negative; `TopsOnly`; `0 ≤ ply`
  * `Opening1/2 p`    what the board holds after the first / second accepted move
  * `run`, `accepted` the fold over a list of ATTEMPTED moves (a refused attempt leaves the
                      position as it was) and the number of accepted ones
-/
import TakVerif.Model.Core
import TakVerif.Model.Move

namespace Tak

/-- every piece of a stack except the first (= top) is a flat -/
def StackTopsOnly (s : Stack) : Prop := ∀ pc ∈ s.tail, pc.kind = Kind.flat

instance (s : Stack) : Decidable (StackTopsOnly s) := by unfold StackTopsOnly; exact inferInstance

/-- only the top piece of a stack is ever a wall or capstone -/
def TopsOnly (p : Pos) : Prop := ∀ s ∈ p.board, StackTopsOnly s

instance (p : Pos) : Decidable (TopsOnly p) := by unfold TopsOnly; exact inferInstance

/-- The physical-consistency invariant of a position of a game with configuration `cfg`.
    `Pos.onBoard c false` counts flats AND walls (everything that came out of the stone
    reserve), `Pos.onBoard c true` counts capstones. -/
structure Inv (cfg : Config) (p : Pos) : Prop where
  wf : p.WF
  size : p.size = cfg.size
  stones : ∀ c, (p.onBoard c false : Int) + p.stones c = cfg.pieces
  caps : ∀ c, (p.onBoard c true : Int) + p.caps c = cfg.capstones
  stonesNonneg : ∀ c, 0 ≤ p.stones c
  capsNonneg : ∀ c, 0 ≤ p.caps c
  topsOnly : TopsOnly p
  ply : 0 ≤ p.ply

/-- name of the first check in the list that is `false` -/
def firstFalse : List (String × Bool) → Option String
  | [] => none
  | (n, b) :: rest => if b then firstFalse rest else some n

theorem firstFalse_none (l : List (String × Bool)) : firstFalse l = none ↔ ∀ x ∈ l, x.2 = true := by
  induction l with
  | nil => simp [firstFalse]
  | cons x rest ih =>
    obtain ⟨n, b⟩ := x
    cases b <;> simp [firstFalse, ih]

/-- The clauses of `Inv` in order; the name of the first one that fails (`none` = all hold).
    This is what the driver's `inv` op prints. -/
def Inv.firstFailure (cfg : Config) (p : Pos) : Option String :=
  firstFalse [
    ("wf", decide p.WF),
    ("size", decide (p.size = cfg.size)),
    ("conservation-white-stones", decide ((p.onBoard .white false : Int) + p.wStones = cfg.pieces)),
    ("conservation-black-stones", decide ((p.onBoard .black false : Int) + p.bStones = cfg.pieces)),
    ("conservation-white-caps", decide ((p.onBoard .white true : Int) + p.wCaps = cfg.capstones)),
    ("conservation-black-caps", decide ((p.onBoard .black true : Int) + p.bCaps = cfg.capstones)),
    ("negative-reserve-white-stones", decide (0 ≤ p.wStones)),
    ("negative-reserve-black-stones", decide (0 ≤ p.bStones)),
    ("negative-reserve-white-caps", decide (0 ≤ p.wCaps)),
    ("negative-reserve-black-caps", decide (0 ≤ p.bCaps)),
    ("tops-only", decide (TopsOnly p)),
    ("negative-ply", decide (0 ≤ p.ply))]

theorem Inv.firstFailure_none_iff (cfg : Config) (p : Pos) :
    Inv.firstFailure cfg p = none ↔ Inv cfg p := by
  unfold Inv.firstFailure
  rw [firstFalse_none]
  simp only [List.forall_mem_cons, decide_eq_true_eq, List.not_mem_nil, false_imp_iff, implies_true,
    and_true]
  constructor
  · rintro ⟨h1, h2, h3, h4, h5, h6, h7, h8, h9, h10, h11, h12⟩
    refine ⟨h1, h2, ?_, ?_, ?_, ?_, h11, h12⟩ <;> (intro c; cases c <;> assumption)
  · intro h
    exact ⟨h.wf, h.size, h.stones .white, h.stones .black, h.caps .white, h.caps .black,
      h.stonesNonneg .white, h.stonesNonneg .black, h.capsNonneg .white, h.capsNonneg .black,
      h.topsOnly, h.ply⟩

instance (cfg : Config) (p : Pos) : Decidable (Inv cfg p) :=
  decidable_of_iff _ (Inv.firstFailure_none_iff cfg p)

/-- every stack holds at most one piece and every piece on the board is a flat -/
def FlatSingles (p : Pos) : Prop := ∀ s ∈ p.board, s.length ≤ 1 ∧ ∀ pc ∈ s, pc.kind = Kind.flat

instance (p : Pos) : Decidable (FlatSingles p) := by unfold FlatSingles; exact inferInstance

/-- after the first accepted move: exactly one stone on the board, a BLACK flat (it was
    placed by White), and it is Black's turn -/
def Opening1 (p : Pos) : Prop :=
  p.onBoard .black false = 1 ∧ p.onBoard .white false = 0 ∧
  p.onBoard .white true = 0 ∧ p.onBoard .black true = 0 ∧ FlatSingles p ∧ p.ply = 1

/-- after the second accepted move: exactly one white flat and one black flat and nothing
    else on the board -/
def Opening2 (p : Pos) : Prop :=
  p.onBoard .white false = 1 ∧ p.onBoard .black false = 1 ∧
  p.onBoard .white true = 0 ∧ p.onBoard .black true = 0 ∧ FlatSingles p ∧ p.ply = 2

instance (p : Pos) : Decidable (Opening1 p) := by unfold Opening1; exact inferInstance
instance (p : Pos) : Decidable (Opening2 p) := by unfold Opening2; exact inferInstance

/-- one attempted move: an accepted move yields the successor, a refused (or crashing)
    attempt yields no position and the game stays where it was -/
def attempt (p : Pos) (m : Move) : Pos :=
  match Impl.move p m with
  | .ok q => q
  | .error _ => p

/-- the position after a list of attempted moves -/
def run (p : Pos) (ms : List Move) : Pos := ms.foldl attempt p

/-- how many of the attempted moves were accepted -/
def accepted : Pos → List Move → Nat
  | _, [] => 0
  | p, m :: ms =>
    match Impl.move p m with
    | .ok q => accepted q ms + 1
    | .error _ => accepted p ms

/-- history facts of a position observed after `n` accepted moves with `mover` reported as
    the side to move: the ply counter equals `n`, and White is to move iff `n` is even -/
def PlyTurnOK (n : Nat) (mover : Color) (p : Pos) : Prop :=
  p.ply = (n : Int) ∧ (mover = .white ↔ n % 2 = 0)

instance (n : Nat) (mover : Color) (p : Pos) : Decidable (PlyTurnOK n mover p) := by
  unfold PlyTurnOK; exact inferInstance

end Tak

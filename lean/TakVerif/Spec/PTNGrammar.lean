/-
  What a PTN move text denotes, written from the PTN standard (Portable Tak Notation), not from the
  code.  Mathlib-free (the driver evaluates `ptnDenote` / `denotesMoveb`).

  Standard:
    * squares are a file letter `a`..`h` (left to right) and a rank digit `1`..`8` (bottom to top);
    * placement  `(stone)(square)`: stone `S` = standing stone (wall), `C` = capstone, `F` or nothing = flat;
    * movement   `(count)(square)(direction)(drops)(stone)`: `count` = number of stones picked up, omitted
      when it is 1; direction `+` towards higher ranks (up), `-` towards lower ranks (down), `>` towards
      later files (right), `<` towards earlier files (left); `drops` = number of stones left on each
      square passed, in order, omitted when the whole carry is dropped on the first square; the drops
      add up to the count; the optional final stone letter only repeats the kind of the top stone and
      denotes nothing about the move.
-/
import TakVerif.Model.Core

namespace Tak.Spec

/-- what a move text says -/
inductive PTNDen where
  /-- place a stone of kind `kind` on square (`x`,`y`) -/
  | place (x y : Nat) (kind : Kind)
  /-- pick up `count` stones from (`x`,`y`), move by (`dx`,`dy`) per step, leave `drops` in order -/
  | slide (x y : Nat) (dx dy : Int) (count : Nat) (drops : List Nat)
  deriving DecidableEq, Repr

def fileIdx : Char → Option Nat
  | 'a' => some 0 | 'b' => some 1 | 'c' => some 2 | 'd' => some 3
  | 'e' => some 4 | 'f' => some 5 | 'g' => some 6 | 'h' => some 7
  | _ => none

def digit18 : Char → Option Nat
  | '1' => some 1 | '2' => some 2 | '3' => some 3 | '4' => some 4
  | '5' => some 5 | '6' => some 6 | '7' => some 7 | '8' => some 8
  | _ => none

/-- rank `1` is row 0 -/
def rankIdx (c : Char) : Option Nat := (digit18 c).map (· - 1)

def dirVec : Char → Option (Int × Int)
  | '+' => some (0, 1)
  | '-' => some (0, -1)
  | '>' => some (1, 0)
  | '<' => some (-1, 0)
  | _ => none

def stoneKind : Char → Option Kind
  | 'F' => some .flat
  | 'S' => some .standing
  | 'C' => some .cap
  | _ => none

/-- the drops, without the optional final stone letter -/
def dropPart (rest : List Char) : List Char :=
  match rest.getLast? with
  | some c => if (stoneKind c).isSome then rest.dropLast else rest
  | none => rest

/-- a string of drop digits -/
def dropsOf : List Char → Option (List Nat)
  | [] => some []
  | c :: cs =>
    match digit18 c, dropsOf cs with
    | some n, some ns => some (n :: ns)
    | _, _ => none

/-- `(square)(direction)(drops)(stone)?` with the count already read (`none`: omitted) -/
def denoteSlide (count : Option Nat) : List Char → Option PTNDen
  | f :: r :: d :: rest =>
    match fileIdx f, rankIdx r, dirVec d, dropsOf (dropPart rest) with
    | some x, some y, some v, some drops =>
      let cnt := count.getD 1
      if drops.isEmpty then some (.slide x y v.1 v.2 cnt [cnt])
      else if drops.sum = cnt then some (.slide x y v.1 v.2 cnt drops)
      else none
    | _, _, _, _ => none
  | _ => none

/-- the denotation of a standard-form move text; `none` = not standard form -/
def ptnDenote (t : List Char) : Option PTNDen :=
  match t with
  | [] => none
  | [f, r] =>
    (match fileIdx f, rankIdx r with
     | some x, some y => some (.place x y .flat)
     | _, _ => none)
  | c :: rest =>
    match stoneKind c with
    | some k =>
      (match rest with
       | [f, r] =>
         (match fileIdx f, rankIdx r with
          | some x, some y => some (.place x y k)
          | _, _ => none)
       | _ => none)
    | none =>
      match digit18 c with
      | some n => denoteSlide (some n) rest
      | none => denoteSlide none t

/-- the move type that places a stone of a kind -/
def placeType : Kind → MoveType
  | .flat => .placeFlat
  | .standing => .placeStanding
  | .cap => .placeCap

/-- a `Move` value says what the denotation says: same square; for a placement the kind and no drops;
    for a movement a slide type whose step vector (`DIRECTIONS` of moves.py) is the denoted one and
    exactly the denoted drops, which add up to the denoted count -/
def denotesMoveb : PTNDen → Move → Bool
  | .place x y k, m =>
    decide (m.x = x) && decide (m.y = y) && decide (m.type = placeType k) && decide (m.slides = none)
  | .slide x y dx dy cnt drops, m =>
    decide (m.x = x) && decide (m.y = y) && m.type.isSlide && decide (m.type.direction = (dx, dy))
      && decide (m.slides = some (drops.map Int.ofNat)) && decide (drops.sum = cnt)

def DenotesMove (d : PTNDen) (m : Move) : Prop := denotesMoveb d m = true

instance (d : PTNDen) (m : Move) : Decidable (DenotesMove d m) := by
  unfold DenotesMove; exact inferInstance

/-! ### the widest language that may be accepted

  The code may accept a little more than standard form (DESIGN.md, C14 "unspecified zone"): a stone
  letter in front of a movement, a final stone letter after a placement, drops without a count (the
  count is then their total).  Everything outside `Loose` has to be refused. -/

def IsFile (c : Char) : Prop := (fileIdx c).isSome
def IsDigit18 (c : Char) : Prop := (digit18 c).isSome
def IsDir (c : Char) : Prop := (dirVec c).isSome
def IsStone (c : Char) : Prop := (stoneKind c).isSome

/-- an optional single character of a class -/
def OptOf (P : Char → Prop) (l : List Char) : Prop := l = [] ∨ ∃ c, P c ∧ l = [c]

def dropTotal (drops : List Char) : Nat := (drops.map fun c => (digit18 c).getD 0).sum

/-- placement core `sq`, or movement core `count? sq dir drops` with at most 8 stones moved and a
    written count equal to the total of the written drops -/
def LooseCore (core : List Char) : Prop :=
  (∃ f r, core = [f, r] ∧ IsFile f ∧ IsDigit18 r) ∨
  (∃ cnt f r d drops, core = cnt ++ [f, r, d] ++ drops ∧ OptOf IsDigit18 cnt ∧ IsFile f ∧ IsDigit18 r ∧
      IsDir d ∧ (∀ c ∈ drops, IsDigit18 c) ∧ dropTotal drops ≤ 8 ∧
      (cnt ≠ [] → drops ≠ [] → dropTotal cnt = dropTotal drops))

def Loose (t : List Char) : Prop :=
  ∃ pre core post, t = pre ++ core ++ post ∧ OptOf IsStone pre ∧ OptOf IsStone post ∧ LooseCore core

end Tak.Spec

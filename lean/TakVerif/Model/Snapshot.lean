/-
  C19 — model of the snapshot protocol of `tak/alphazero/hooks/saving.py`, of resuming
  (`TrainingRun.load_or_init_model` / `load_state`), of the serve/train mode switch and of the
  replay window of `train_step`.  Mathlib-free (the native driver links this file).

  The run directory is a finite map `name ↦ dir | symlink | regular file`; a directory maps the
  five file names of a snapshot to `partial | full content`.  A save is the LIST of primitive
  file-system operations the hook performs; a crash (or an exception) is a PREFIX of that list:
  `create` leaves the file partial, `finish` (the last write) makes it complete, so "killed
  inside a write" is the prefix that ends between the two.

  Three protocols are modelled:
    * `saveOps`         the REPAIRED hook (snapshot written to `step_N.tmp`, an orphan `step_N`
                        of an earlier crash removed, `rename` into place; the live snapshot is
                        never rewritten; `latest.tmp` symlink + `os.replace`)
    * `saveOpsPinned`   the hook of the pinned tree (in place, `unlink latest` + `symlink`)
    * `saveOpsDrafted`  the first draft of the repair (skip whenever `step_N` exists)
-/
namespace Tak.Snapshot

/-! ### finite maps as association lists -/

def get {κ ν : Type} [DecidableEq κ] : List (κ × ν) → κ → Option ν
  | [], _ => none
  | (k', v) :: r, k => if k' = k then some v else get r k

def del {κ ν : Type} [DecidableEq κ] (m : List (κ × ν)) (k : κ) : List (κ × ν) :=
  m.filter (fun e => decide (e.1 ≠ k))

def put {κ ν : Type} [DecidableEq κ] (m : List (κ × ν)) (k : κ) (v : ν) : List (κ × ν) :=
  (k, v) :: del m k

/-! ### the data -/

/-- the five files of a snapshot directory -/
inductive FName
  | model | config | opt | replay | elapsed
  deriving DecidableEq, Repr

/-- the names the hook uses inside the run directory -/
inductive Name
  | step (n : Nat)       -- `step_%06d`
  | stepTmp (n : Nat)    -- `step_%06d.tmp`
  | latest
  | latestTmp            -- `latest.tmp`
  | saveNow              -- `SAVE_NOW`
  deriving DecidableEq, Repr

/-- `stats.Elapsed` -/
structure Counters where
  step : Nat
  positions : Nat
  epoch : Nat
  deriving DecidableEq, Repr

/-- what `load_state` restores: parameters, optimiser state, replay buffer, counters
    (tensors are abstract bit patterns) -/
structure TrainState where
  params : List Nat
  opt : List Nat
  replay : List (List Nat)
  elapsed : Counters
  deriving DecidableEq, Repr

inductive Content
  | params (p : List Nat)
  | cfg
  | opt (o : List Nat)
  | replay (r : List (List Nat))
  | elapsed (e : Counters)
  deriving DecidableEq, Repr

inductive File
  | part
  | full (c : Content)
  deriving DecidableEq, Repr

abbrev Dir := List (FName × File)

inductive Node
  | dir (es : Dir)
  | link (target : Name)
  | flag
  deriving DecidableEq, Repr

abbrev FS := List (Name × Node)

/-! ### primitive operations (POSIX semantics; `none` = the call raises, the save stops there) -/

inductive Op
  | mkdir (d : Name)                            -- `os.makedirs(d, exist_ok=True)`
  | create (d : Name) (f : FName)               -- `open(d/f, O_CREAT|O_TRUNC)`
  | finish (d : Name) (f : FName) (c : Content) -- the last write of `d/f`
  | unlinkIn (d : Name) (f : FName)             -- `rmtree`: unlink `d/f`, errors ignored
  | rmdir (d : Name)                            -- `rmtree`: rmdir `d`, errors ignored
  | rename (a b : Name)                         -- `os.rename` / `os.replace`
  | unlink (a : Name) (must : Bool)             -- `os.unlink`; `FileNotFoundError` is caught iff `¬must`
  | symlink (target a : Name)                   -- `os.symlink(target, a)`
  deriving DecidableEq, Repr

def Op.run : Op → FS → Option FS
  | .mkdir d, fs =>
    match get fs d with
    | none => some (put fs d (.dir []))
    | some (.dir _) => some fs
    | some _ => none
  | .create d f, fs =>
    match get fs d with
    | some (.dir es) => some (put fs d (.dir (put es f .part)))
    | _ => none
  | .finish d f c, fs =>
    match get fs d with
    | some (.dir es) =>
      if (get es f).isSome then some (put fs d (.dir (put es f (.full c)))) else none
    | _ => none
  | .unlinkIn d f, fs =>
    match get fs d with
    | some (.dir es) => some (put fs d (.dir (del es f)))
    | _ => some fs
  | .rmdir d, fs =>
    match get fs d with
    | some (.dir []) => some (del fs d)
    | _ => some fs
  | .rename a b, fs =>
    if a = b then (if (get fs a).isSome then some fs else none) else
    match get fs a with
    | none => none
    | some (.dir es) =>
      (match get fs b with
       | none => some (put (del fs a) b (.dir es))
       | some (.dir []) => some (put (del fs a) b (.dir es))
       | some _ => none)
    | some na =>
      (match get fs b with
       | some (.dir _) => none
       | _ => some (put (del fs a) b na))
  | .unlink a must, fs =>
    match get fs a with
    | none => if must then none else some fs
    | some (.dir _) => none
    | some _ => some (del fs a)
  | .symlink t a, fs =>
    match get fs a with
    | none => some (put fs a (.link t))
    | some _ => none

/-- run the operations in order; an operation that raises ends the save (state kept) -/
def runAll : List Op → FS → FS
  | [], fs => fs
  | op :: r, fs =>
    match op.run fs with
    | some fs' => runAll r fs'
    | none => fs

/-- `some` final state iff no operation raised -/
def runAll? : List Op → FS → Option FS
  | [], fs => some fs
  | op :: r, fs =>
    match op.run fs with
    | some fs' => runAll? r fs'
    | none => none

/-- the process is killed after `k` operations -/
def runPrefix (k : Nat) (ops : List Op) (fs : FS) : FS := runAll (ops.take k) fs

/-! ### the save -/

/-- `save_snapshot(state, d)` after the `makedirs`: five files, each created then completed -/
def writeOps (d : Name) (s : TrainState) : List Op :=
  [.create d .model, .finish d .model (.params s.params),
   .create d .config, .finish d .config .cfg,
   .create d .opt, .finish d .opt (.opt s.opt),
   .create d .replay, .finish d .replay (.replay s.replay),
   .create d .elapsed, .finish d .elapsed (.elapsed s.elapsed)]

/-- `shutil.rmtree(d, ignore_errors=True)`.  `ord` is the directory scan order (an oracle:
    the OS decides); names the oracle does not list are removed afterwards. -/
def rmtreeOps (ord : List FName) (fs : FS) (d : Name) : List Op :=
  match get fs d with
  | some (.dir es) =>
    let present := es.map (·.1)
    ((ord.filter (fun f => decide (f ∈ present))) ++ present.filter (fun f => decide (f ∉ ord))).map
        (Op.unlinkIn d) ++ [.rmdir d]
  | _ => []

/-- `latest.tmp` symlink, then `os.replace(latest.tmp, latest)` -/
def linkOps (n : Nat) : List Op :=
  [.unlink .latestTmp false, .symlink (.step n) .latestTmp, .rename .latestTmp .latest]

/-- `os.path.exists(save_dir) and realpath(latest) == realpath(save_dir)` -/
def isLive (fs : FS) (n : Nat) : Bool :=
  (get fs (.step n)).isSome && decide (get fs .latest = some (.link (.step n)))

/-- `SavingHook.save_snapshot` — the REPAIRED protocol -/
def saveOps (ord : Name → List FName) (s : TrainState) (fs : FS) : List Op :=
  let n := s.elapsed.step
  (if isLive fs n then []
   else
     rmtreeOps (ord (.stepTmp n)) fs (.stepTmp n) ++ [.mkdir (.stepTmp n)] ++ writeOps (.stepTmp n) s
       ++ rmtreeOps (ord (.step n)) fs (.step n) ++ [.rename (.stepTmp n) (.step n)])
  ++ linkOps n

/-- the hook of the pinned tree: in place, then `unlink latest`, `symlink` -/
def saveOpsPinned (s : TrainState) : List Op :=
  let n := s.elapsed.step
  [.mkdir (.step n)] ++ writeOps (.step n) s ++ [.unlink .latest false, .symlink (.step n) .latest]

/-- the first draft of the repair: nothing is written whenever `step_N` exists -/
def saveOpsDrafted (ord : Name → List FName) (s : TrainState) (fs : FS) : List Op :=
  let n := s.elapsed.step
  (if (get fs (.step n)).isSome then []
   else
     rmtreeOps (ord (.stepTmp n)) fs (.stepTmp n) ++ [.mkdir (.stepTmp n)] ++ writeOps (.stepTmp n) s
       ++ [.rename (.stepTmp n) (.step n)])
  ++ linkOps n

inductive Trigger
  | afterStep (freq : Nat)   -- `SavingHook.after_step` with `self.freq`
  | afterRun                 -- `SavingHook.after_run`
  deriving DecidableEq, Repr

/-- what one hook call does: the periodic test, then `check_and_clear_save_request`
    (`exists(SAVE_NOW)` → `unlink`), then the save.  `freq = 0` raises before anything. -/
def hookOps (t : Trigger) (ord : Name → List FName) (s : TrainState) (fs : FS) : List Op :=
  match t with
  | .afterRun => saveOps ord s fs
  | .afterStep freq =>
    if freq = 0 then []
    else if s.elapsed.step % freq = 0 then saveOps ord s fs
    else if (get fs .saveNow).isSome then .unlink .saveNow true :: saveOps ord s fs
    else []

/-! ### resuming -/

inductive Outcome
  | fresh                    -- `init_weights()`: silently from scratch
  | loaded (s : TrainState)
  | error                    -- `load_state` raises (missing / truncated file)
  deriving DecidableEq, Repr

/-- `load_state`: the four files it reads must be complete -/
def readSnap (es : Dir) : Outcome :=
  match get es .model, get es .opt, get es .replay, get es .elapsed with
  | some (.full (.params p)), some (.full (.opt o)), some (.full (.replay r)),
    some (.full (.elapsed e)) => .loaded ⟨p, o, r, e⟩
  | _, _, _, _ => .error

/-- `load_or_init_model` with `run_dir` set and no `load_model`:
    `os.path.exists(run_dir/latest)` follows the link.  (A link to a link does not occur in a
    well-typed run directory; it is classified `error`.) -/
def resume (fs : FS) : Outcome :=
  match get fs .latest with
  | none => .fresh
  | some (.link t) =>
    (match get fs t with
     | none => .fresh
     | some (.dir es) => readSnap es
     | some _ => .error)
  | some (.dir es) => readSnap es
  | some .flag => .error

/-- `config.load_model`: unset, a model-only directory (`xformer.loading.save_model`:
    `model.pt` + `config.yaml`), or a full snapshot of another run (it has an `opt.pt`).
    The directory lies outside the run directory; no save touches it. -/
inductive LoadModel
  | unset
  | modelOnly (p : List Nat)
  | snapshot (p o : List Nat)
  deriving DecidableEq, Repr

/-- how a trainer process starts -/
inductive Start
  | fresh                                          -- `init_weights()`, new optimiser
  | warm (p : List Nat) (o : Option (List Nat))    -- parameters (and optimiser state) of `load_model`
  | loaded (s : TrainState)                        -- the run's own latest snapshot
  | error
  deriving DecidableEq, Repr

/-- `load_or_init_model` in full: the run's own `latest` wins and NOTHING of `load_model` is
    applied after it (the early `return`); only without it the initial model (and its optimiser
    state when it ships one) is used; else a fresh initialisation. -/
def resumeWith (lm : LoadModel) (fs : FS) : Start :=
  match resume fs with
  | .loaded s => .loaded s
  | .error => .error
  | .fresh =>
    match lm with
    | .unset => .fresh
    | .modelOnly p => .warm p none
    | .snapshot p o => .warm p (some o)

/-- the train state a process that did not resume starts from (`init` = `init_weights` and a
    new optimiser, empty buffer, zero counters) -/
def startState (init : TrainState) : LoadModel → TrainState
  | .unset => init
  | .modelOnly p => { init with params := p }
  | .snapshot p o => { init with params := p, opt := o }

/-! ### serve / train mode (`TrainingRun.serve_mode`, `train_mode`) -/

structure Run where
  model : List Nat         -- the parameters held by `state.model`
  trainParams : List Nat   -- `self.train_params`
  deriving DecidableEq, Repr

/-- `serve_mode`: keep a copy of the state dict, then cast the model -/
def serveMode (cast : Nat → Nat) (r : Run) : Run :=
  { model := r.model.map cast, trainParams := r.model }

/-- `load_state_dict`: every entry overwritten; a key mismatch raises (state kept) -/
def loadStateDict (cur new : List Nat) : List Nat :=
  if cur.length = new.length then new else cur

/-- `train_mode`: cast back, then load the kept copy -/
def trainMode (castBack : Nat → Nat) (r : Run) : Run :=
  { r with model := loadStateDict (r.model.map castBack) r.trainParams }

/-! ### replay window (`train_step`) -/

/-- `replay_buffer.append(batch); if len(replay_buffer) > k: replay_buffer = replay_buffer[1:]` -/
def push {β : Type} (k : Nat) (buf : List β) (b : β) : List β :=
  let buf' := buf ++ [b]
  if buf'.length > k then buf'.drop 1 else buf'

def pushes {β : Type} (k : Nat) (buf : List β) (bs : List β) : List β := bs.foldl (push k) buf

/-! ### histories -/

structure Sys where
  fs : FS
  mem : Option TrainState   -- the state held by the running trainer; `none` = no process
  deriving Repr

inductive Event
  | start                                                   -- a fresh process resumes
  | train (params opt : List Nat) (batch : List Nat) (k positions epoch : Nat)  -- one `train_step`
  | touch                                                   -- the user creates `SAVE_NOW`
  | hook (t : Trigger) (ord : Name → List FName)            -- a hook call runs to its end
  | crash (t : Trigger) (ord : Name → List FName) (k : Nat) -- killed after `k` operations of it
  | kill                                                    -- killed between saves

/-- `init` is what `init_weights` and a fresh optimiser give; `lm` is the run's `load_model` -/
def Event.apply (init : TrainState) (lm : LoadModel) : Event → Sys → Sys
  | .start, sys =>
    match resume sys.fs with
    | .loaded s => { sys with mem := some s }
    | .fresh => { sys with mem := some (startState init lm) }
    | .error => { sys with mem := none }
  | .train p o b k pos ep, sys =>
    match sys.mem with
    | some s =>
      { sys with mem := some { params := p, opt := o, replay := push k s.replay b,
                                elapsed := ⟨s.elapsed.step + 1, pos, ep⟩ } }
    | none => sys
  | .touch, sys => { sys with fs := put sys.fs .saveNow .flag }
  | .hook t ord, sys =>
    match sys.mem with
    | some s => { sys with fs := runAll (hookOps t ord s sys.fs) sys.fs }
    | none => sys
  | .crash t ord k, sys =>
    match sys.mem with
    | some s => { fs := runPrefix k (hookOps t ord s sys.fs) sys.fs, mem := none }
    | none => sys
  | .kill, sys => { sys with mem := none }

def runHistory (init : TrainState) (lm : LoadModel) : List Event → Sys → Sys
  | [], sys => sys
  | e :: r, sys => runHistory init lm r (e.apply init lm sys)

end Tak.Snapshot

/-
  Model of the search tree of python/tak/mcts.py: `Node`, `Node.policy_probs` (argument
  assembly), `MCTS.descend / populate / update / analyze_tree / select_root_move / get_move`.
  Same order of steps as the Python: one simulation = descend, populate the leaf, back up.

  External behaviour is an input (oracle):
  * the sampler (`torch.multinomial`) is the stream `choices : List Nat` of child indices,
    consumed front to back, one per level of a descent;
  * the evaluator (`network.evaluate`) is the stream `answers : List Answer`, one consumed per
    expansion of a non-terminal leaf; the Dirichlet draw that accompanies an expansion of the
    root when root noise is on travels with the answer (`Answer.noise`);
  * the game-over test `Position.winner()` is the parameter `Cfg.outcome`
    (`none` = game not over, `some w` = over with winner `w`, `some none` = draw); the real engine's
    is `realOutcome` (= `Impl.winner` of Model/Winner.lean, C02);
  * the move table of a size (`encoding.MOVES_BY_SIZE[size]`, what `decode_move` indexes) is the
    parameter `Cfg.table`; the real engine's is `Gen.allMovesForSize` (C03/C07).  The generic
    theorems of C08/C09 do not depend on how ids are numbered; `realCfg` fixes both parameters and
    the `…_real` corollaries are stated for it.

  Search statistics and priors are `Rat` (DESIGN.md section 3).  `Node.ev` is a ghost field: the
  evaluator answer the node was expanded with (the Python object does not keep it; the harness
  fills it in from its evaluator wrapper when it dumps an implementation tree).  It is what the
  declarative invariant (`Spec/TreeInv.lean`) refers to as "the evaluator's priors".
  No Mathlib here: the driver links this file.
-/
import TakVerif.Model.Core
import TakVerif.Model.Move
import TakVerif.Model.Winner
import TakVerif.Model.Gen

namespace Tak
namespace Tree

/-- one answer of the evaluator: `(raw_probs, value)` of `network.evaluate(position)`; `probs` is
    indexed by move id and may be wider (or narrower) than the size's id range.  `noise` is the
    Dirichlet sample drawn for this expansion, if one was drawn. -/
structure Answer where
  probs : List Rat
  value : Rat
  noise : Option (List Rat)
  deriving Repr, Inhabited, DecidableEq

/-- `mcts.Node` (+ the ghost field `ev`) -/
structure Node where
  position : Pos
  move : Option Move
  v0 : Rat
  value : Rat
  sims : Nat
  children : Option (List Node)
  /-- `child_probs` (`[]` while `None`) -/
  priors : List Rat
  ev : Option Answer
  deriving Repr, Inhabited

/-- the part of `mcts.Config` that shapes the tree, and the two external tables -/
structure Cfg where
  /-- `cutoff_prob` -/
  cutoff : Rat
  /-- `root_noise_alpha is not None` -/
  noise : Bool
  /-- `root_noise_mix` -/
  mix : Rat
  /-- `Position.winner()`: `none` while the game goes on, `some winner` when it is over -/
  outcome : Pos → Option (Option Color)
  /-- `encoding.MOVES_BY_SIZE[size]` -/
  table : Nat → List Move

/-- `winner, why = position.winner()` as `populate` reads it: the game is over iff a reason is
    given (`why is not None`); the winner may then be `None` (a draw) -/
def realOutcome (p : Pos) : Option (Option Color) :=
  match Impl.winner p with
  | (_, none) => none
  | (w, some _) => some w

/-- the configuration of the real engine: adjudication by `Impl.winner` (Model/Winner.lean, proved
    equal to the rule book's `Spec.outcome` in Props/C02.lean), move ids decoded by the real table
    `Gen.allMovesForSize` (Props/C03.lean, Props/C07.lean) -/
def realCfg (cutoff : Rat) (noise : Bool) (mix : Rat) : Cfg :=
  { cutoff := cutoff, noise := noise, mix := mix, outcome := realOutcome, table := Gen.allMovesForSize }

/-- `Node(position=p, move=m)` -/
def fresh (p : Pos) (m : Option Move) : Node :=
  { position := p, move := m, v0 := 0, value := 0, sims := 0, children := none, priors := [], ev := none }

/-- the value `populate` stores at a finished game: +1 if the side to move has won, -1 if the
    other side has, 0 for a draw -/
def outcomeValue (toMove : Color) : Option Color → Rat
  | some c => if c = toMove then 1 else -1
  | none => 0

/-- `mix * noise + (1 - mix) * raw_probs` -/
def mixNoise (mix : Rat) (nz raw : List Rat) : List Rat :=
  List.zipWith (fun n r => mix * n + (1 - mix) * r) nz raw

/-- the `for mid in indices` loop of `populate`: candidates whose move the position refuses with
    `IllegalMove` are skipped; any other exception escapes (`none`) -/
def expand (p : Pos) : List (Move × Rat) → Option (List (Node × Rat))
  | [] => some []
  | (m, pr) :: rest =>
    match Impl.move p m with
    | .ok q => (expand p rest).map fun l => (fresh q (some m), pr) :: l
    | .error .illegal => expand p rest
    | .error (.crash _) => none

/-- the prior vector `populate` thresholds: truncated to the size's id range, mixed with the
    noise draw at the root when root noise is on (`none`: no draw was supplied) -/
def effective (cfg : Cfg) (isRoot : Bool) (ans : Answer) (n : Nat) : Option (List Rat) :=
  let raw := ans.probs.take n
  if isRoot && cfg.noise then ans.noise.map fun nz => mixNoise cfg.mix nz raw else some raw

/-- `MCTS.populate(node, is_root)`; consumes one answer unless the game is over at the node -/
def populate (cfg : Cfg) (isRoot : Bool) (answers : List Answer) (t : Node) :
    Option (Node × List Answer) :=
  match cfg.outcome t.position with
  | some w => some ({ t with v0 := outcomeValue t.position.toMove w }, answers)
  | none =>
    match answers with
    | [] => none
    | ans :: rest =>
      let tbl := cfg.table t.position.size
      match effective cfg isRoot ans tbl.length with
      | none => none
      | some eff =>
        let cands := (tbl.zip eff).filter fun c => decide (cfg.cutoff ≤ c.2)
        match expand t.position cands with
        | none => none
        | some kept =>
          let s := (kept.map (·.2)).sum
          some ({ t with v0 := ans.value,
                         children := some (kept.map (·.1)),
                         priors := kept.map (·.2 / s),
                         ev := some { ans with noise := if isRoot && cfg.noise then ans.noise else none } },
                rest)

/-- `MCTS.descend(tree)`: the path as the list of child indices taken (the root itself is the
    empty path).  `none`: the sampler stream ran dry or named a child that does not exist. -/
def descend : List Nat → Node → Option (List Nat)
  | [], t =>
    match t.children with
    | none => some []
    | some _ => none
  | c :: rest, t =>
    match t.children with
    | none => some []
    | some cs =>
      match cs[c]? with
      | none => none
      | some ch => (descend rest ch).map (c :: ·)

/-- the node a path leads to (`path[-1]`) -/
def nodeAt : List Nat → Node → Option Node
  | [], t => some t
  | c :: rest, t =>
    match t.children with
    | none => none
    | some cs =>
      match cs[c]? with
      | none => none
      | some ch => nodeAt rest ch

/-- the tree with the node at the end of the path replaced (the Python mutates it in place) -/
def replaceAt : List Nat → Node → Node → Option Node
  | [], new, _ => some new
  | c :: rest, new, t =>
    match t.children with
    | none => none
    | some cs =>
      match cs[c]? with
      | none => none
      | some ch => (replaceAt rest new ch).map fun ch' => { t with children := some (cs.set c ch') }

/-- `MCTS.update(path)`: the negating backup.  Returns the tree and the amount that was added to
    the value of its root (the parent adds the negation). -/
def update : List Nat → Node → Option (Node × Rat)
  | [], t => some ({ t with value := t.value + t.v0, sims := t.sims + 1 }, t.v0)
  | c :: rest, t =>
    match t.children with
    | none => none
    | some cs =>
      match cs[c]? with
      | none => none
      | some ch =>
        (update rest ch).map fun r =>
          ({ t with children := some (cs.set c r.1), value := t.value + (-r.2), sims := t.sims + 1 }, -r.2)

/-- one iteration of the loop of `analyze_tree`: `path = descend(tree); populate(path[-1],
    path[-1] is tree); update(path)`.  Returns the tree and what is left of the two streams. -/
def simulate (cfg : Cfg) (choices : List Nat) (answers : List Answer) (t : Node) :
    Option (Node × List Nat × List Answer) :=
  match descend choices t with
  | none => none
  | some path =>
    match nodeAt path t with
    | none => none
    | some leaf =>
      match populate cfg path.isEmpty answers leaf with
      | none => none
      | some (leaf', answers') =>
        match replaceAt path leaf' t with
        | none => none
        | some t1 =>
          match update path t1 with
          | none => none
          | some (t2, _) => some (t2, choices.drop path.length, answers')

/-- the `while True` loop of `analyze_tree` with `time_limit = 0` (no deadline) and
    `simulation_limit = n`: stop as soon as `n > 0` and the root has `n` visits. -/
def analyzeLoop (cfg : Cfg) (n : Nat) : Nat → Node → List Nat → List Answer → Option Node
  | fuel, t, choices, answers =>
    if 0 < n ∧ n ≤ t.sims then some t
    else
      match fuel with
      | 0 => none
      | fuel + 1 =>
        match simulate cfg choices answers t with
        | none => none
        | some (t', choices', answers') => analyzeLoop cfg n fuel t' choices' answers'

/-- `MCTS.analyze_tree(tree)` with simulation budget `n`; `n` iterations always suffice
    (`Tak.C08.C08_analyze`) -/
def analyzeTree (cfg : Cfg) (n : Nat) (t : Node) (choices : List Nat) (answers : List Answer) :
    Option Node :=
  analyzeLoop cfg n n t choices answers

/-- `MCTS.analyze(p)` -/
def analyze (cfg : Cfg) (n : Nat) (p : Pos) (choices : List Nat) (answers : List Answer) :
    Option Node :=
  analyzeTree cfg n (fresh p none) choices answers

/-! ### `Node.policy_probs` -/

/-- what `policy_probs` hands to the solver; the multiplier `C*sqrt(N)/(N+K)` is kept as its
    square -/
structure PolicyArgs where
  prior : List Rat
  q : List Rat
  N : Nat
  K : Nat
  lamSq : Rat
  deriving Repr, DecidableEq

/-- `-c.value / c.simulations if c.simulations > 0 else self.v_zero` -/
def qOf (t c : Node) : Rat :=
  if c.sims > 0 then -c.value / c.sims else t.v0

def policyArgs (t : Node) (C : Rat) : Option PolicyArgs :=
  t.children.map fun cs =>
    { prior := t.priors
      q := cs.map (qOf t)
      N := t.sims
      K := cs.length
      lamSq := C * C * t.sims / (((t.sims + cs.length : Nat) : Rat) * ((t.sims + cs.length : Nat) : Rat)) }

/-- `Node.policy_probs(c)`, the solver being an oracle -/
def policyProbs (solver : PolicyArgs → List Rat) (t : Node) (C : Rat) : Option (List Rat) :=
  if t.sims = 0 then some t.priors
  else (policyArgs t C).map solver

/-- `MCTS.select_root_move(tree)`: `i` is what `torch.multinomial` drew -/
def selectRootMove (t : Node) (i : Nat) : Option Move :=
  match t.children with
  | none => none
  | some cs =>
    match cs[i]? with
    | none => none
    | some c => c.move

/-- `MCTS.get_move(p)` -/
def getMove (cfg : Cfg) (n : Nat) (p : Pos) (choices : List Nat) (answers : List Answer) (i : Nat) :
    Option Move :=
  match analyze cfg n p choices answers with
  | none => none
  | some t => selectRootMove t i

end Tree
end Tak

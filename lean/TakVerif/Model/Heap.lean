/-
  Reference-level model of `Position` objects (property C05).

  Lean values are immutable, so "a position never changes once created" is modelled one
  level down, on a heap of Python *list objects*:

  * `Heap := List Cell`; a `Ref` is an index; allocation appends (ids are never reused
    while an object is alive, and the model never frees).
  * a cell is an *outer board list* (`List Ref`, the object behind `Position.board`) or a
    *stack list* (`List Piece`, top first, the objects behind `board[i]`).
  * a heap position `HPos` is the frozen `attrs` record: the scalar fields by value
    (`size`, the four reserve counters, `ply`: ints and frozen `StoneCounts` are values) and
    `board : Ref`.

  Primitives: `alloc` (append), `read`, and an UNRESTRICTED `write` (`List.set`).  Nothing
  in the primitive layer prevents a function from overwriting an old cell: `hMoveInPlace`
  at the end of this file does exactly that and is used in `Props/C05.lean` to show that
  the frame theorem is not true of arbitrary code.  The functions `hMove`, `hParseTPS`,
  `hTransform`, `hDecode`, `hAdopt` mirror which list objects the Python code ALLOCATES,
  which it only READS, and which it MUTATES (only ever lists it allocated itself in the
  same call: `newboard[i] = …`, `stack.append`, `stack[-1] = …`, `squares += …`,
  `this_sq.append`).  That every `write` of these functions hits a cell allocated during the
  same call is not built in; it is what `C05_frame` proves.

  Local temporaries that never escape and are never mutated (`carry = stack[:ndrop]`,
  `carry[:-drop]`, `carry[-drop:]`, `orig[1:]`, `[[]] * n` as an outer temp) are values.
-/
import TakVerif.Model.Move

namespace Tak
namespace HeapModel

abbrev Ref := Nat

inductive Cell where
  /-- the list behind `Position.board`: references to stack lists -/
  | outer (refs : List Ref)
  /-- the list behind one square: pieces, top first -/
  | stack (ps : Stack)
  deriving DecidableEq, Repr, Inhabited

abbrev Heap := List Cell

/-- the frozen `Position` record; `board` is a reference to an outer list -/
structure HPos where
  size : Nat
  wStones : Int
  wCaps : Int
  bStones : Int
  bCaps : Int
  ply : Int
  board : Ref
  deriving DecidableEq, Repr, Inhabited

/-! ### primitives -/

/-- allocate a new list object; returns the new heap and the new object's reference -/
def alloc (h : Heap) (c : Cell) : Heap × Ref := (h ++ [c], h.length)

def read (h : Heap) (r : Ref) : Option Cell := h[r]?

/-- overwrite ANY cell (in-place mutation of a list object) -/
def write (h : Heap) (r : Ref) (c : Cell) : Heap := h.set r c

/-! ### Python list methods on heap objects (each is one `read` + one `write`) -/

/-- `lst[i] = r` on an outer list -/
def setItem (h : Heap) (l : Ref) (i : Nat) (r : Ref) : Heap :=
  match read h l with
  | some (.outer refs) => write h l (.outer (refs.set i r))
  | _ => h

/-- `lst += rs` / `lst.append(r)` on an outer list -/
def extendRefs (h : Heap) (l : Ref) (rs : List Ref) : Heap :=
  match read h l with
  | some (.outer refs) => write h l (.outer (refs ++ rs))
  | _ => h

/-- `stack.append(pc)` on a stack list -/
def pushPiece (h : Heap) (s : Ref) (pc : Piece) : Heap :=
  match read h s with
  | some (.stack ps) => write h s (.stack (ps ++ [pc]))
  | _ => h

/-- `stack[-1] = pc` on a (non-empty) stack list -/
def setLastPiece (h : Heap) (s : Ref) (pc : Piece) : Heap :=
  match read h s with
  | some (.stack ps) => write h s (.stack (ps.dropLast ++ [pc]))
  | _ => h

/-! ### reading values out of the heap -/

def stackAt (h : Heap) (r : Ref) : Stack :=
  match read h r with
  | some (.stack s) => s
  | _ => []

def refsAt (h : Heap) (r : Ref) : List Ref :=
  match read h r with
  | some (.outer rs) => rs
  | _ => []

/-- the board value an outer list denotes -/
def boardAt (h : Heap) (b : Ref) : List Stack := (refsAt h b).map (stackAt h)

/-- `board[i]` followed by reading the stack (only reads) -/
def readSq (h : Heap) (b : Ref) (i : Nat) : Stack :=
  match (refsAt h b)[i]? with
  | some r => stackAt h r
  | none => []

/-- the value a heap position denotes -/
def den (h : Heap) (hp : HPos) : Pos :=
  { size := hp.size, wStones := hp.wStones, wCaps := hp.wCaps, bStones := hp.bStones,
    bCaps := hp.bCaps, ply := hp.ply, board := boardAt h hp.board }

/-- denotation of the outcome of an operation -/
def denR (r : Heap × Except Err HPos) : Except Err Pos :=
  match r.2 with
  | .ok hp => .ok (den r.1 hp)
  | .error e => .error e

/-- well-formed heap position: `board` is an allocated outer list and every entry is an
    allocated stack list -/
def HWF (h : Heap) (hp : HPos) : Prop :=
  ∃ refs, h[hp.board]? = some (.outer refs) ∧ ∀ r ∈ refs, ∃ s, h[r]? = some (.stack s)

/-- executable form of `HWF` (used by the driver and by examples) -/
def hwfb (h : Heap) (hp : HPos) : Bool :=
  match h[hp.board]? with
  | some (.outer refs) =>
    refs.all fun r => match h[r]? with
      | some (.stack _) => true
      | _ => false
  | _ => false

namespace HPos
def toMove (hp : HPos) : Color := if hp.ply % 2 = 0 then .white else .black
def inBounds (hp : HPos) (x y : Int) : Bool :=
  decide (0 ≤ x) && decide (x < hp.size) && decide (0 ≤ y) && decide (y < hp.size)
def idx (hp : HPos) (x y : Nat) : Nat := x + y * hp.size
def stones (hp : HPos) : Color → Int
  | .white => hp.wStones
  | .black => hp.bStones
def caps (hp : HPos) : Color → Int
  | .white => hp.wCaps
  | .black => hp.bCaps
end HPos

/-! ### `Position.move` -/

/-- `_move_place`: all checks read only; then `newboard = list(self.board)` (new outer list,
    same stack refs), `[Piece]` (new stack list), `newboard[i] = …` (write into the NEW list). -/
def hMovePlace (h : Heap) (hp : HPos) (m : Move) : Heap × Except Err HPos :=
  let i := hp.idx m.x.toNat m.y.toNat
  if hp.ply < 2 ∧ m.type ≠ .placeFlat then (h, .error .illegal)
  else if readSq h hp.board i ≠ [] then (h, .error .illegal)
  else
    let color := if hp.ply < 2 then hp.toMove.flip else hp.toMove
    let isCap := decide (m.type = .placeCap)
    let kind : Kind :=
      if m.type = .placeCap then .cap
      else if m.type = .placeStanding then .standing else .flat
    let avail := if isCap then hp.caps color else hp.stones color
    if avail ≤ 0 then (h, .error .illegal)
    else
      let hp1 : HPos :=
        match color, isCap with
        | .white, false => { hp with wStones := hp.wStones - 1 }
        | .white, true  => { hp with wCaps := hp.wCaps - 1 }
        | .black, false => { hp with bStones := hp.bStones - 1 }
        | .black, true  => { hp with bCaps := hp.bCaps - 1 }
      let a := alloc h (.outer (refsAt h hp.board))        -- newboard = list(self.board)
      let b := alloc a.1 (.stack [⟨color, kind⟩])           -- [Piece]
      let h3 := setItem b.1 a.2 i b.2                       -- newboard[i] = …
      (h3, .ok { hp1 with ply := hp.ply + 1, board := a.2 })

/-- The `for drop in m.slides` loop.  `nb` is the reference of `newboard`; original squares
    are read through `hp.board` (`self.board[i]`).  A refusal returns the heap as it is:
    earlier `newboard[i] = …` assignments have happened, but only into `nb`. -/
def hSlideLoop (hp : HPos) (dx dy : Int) (nb : Ref) :
    Heap → Int → Int → Stack → List Nat → Heap × Except Err Unit
  | h, _, _, _, [] => (h, .ok ())
  | h, x, y, carry, drop :: rest =>
    let x' := x + dx
    let y' := y + dy
    if !hp.inBounds x' y' then (h, .error .illegal)
    else
      let i := hp.idx x'.toNat y'.toNat
      let orig := readSq h hp.board i                         -- orig = self.board[i]
      if topKind orig = some .cap then (h, .error .illegal)
      else
        match carry with
        | [] => (h, .error (.crash "IndexError"))
        | c0 :: _ =>
          if topKind orig = some .standing ∧ (c0.kind ≠ .cap ∨ carry.length ≠ 1) then
            (h, .error .illegal)
          else
            -- `orig = [Piece(flat)] + orig[1:]` rebinds the local name to a NEW list
            let hf := if topKind orig = some .standing
                      then (alloc h (.stack (Impl.flattenTop orig))).1 else h
            let orig' := if topKind orig = some .standing then Impl.flattenTop orig else orig
            let k := carry.length - drop
            let a := alloc hf (.stack (carry.drop k ++ orig'))  -- carry[-drop:] + orig
            let h2 := setItem a.1 nb i a.2                      -- newboard[i] = …
            hSlideLoop hp dx dy nb h2 x' y' (carry.take k) rest

/-- `_move_slide` -/
def hMoveSlide (h : Heap) (hp : HPos) (m : Move) : Heap × Except Err HPos :=
  if hp.ply < 2 then (h, .error .illegal)
  else
    match m.slides with
    | none => (h, .error .illegal)
    | some ds =>
      if ds = [] ∨ ds.any (· < 1) then (h, .error .illegal)
      else
        let i0 := hp.idx m.x.toNat m.y.toNat
        let stack := readSq h hp.board i0                     -- stack = self[m.x, m.y]
        let ndrop : Int := ds.sum
        if ndrop > hp.size ∨ (stack.length : Int) < ndrop then (h, .error .illegal)
        else if ndrop < 1 then (h, .error .illegal)
        else
          match stack with
          | [] => (h, .error (.crash "IndexError"))
          | top :: _ =>
            if top.color ≠ hp.toMove then (h, .error .illegal)
            else
              let n := ndrop.toNat
              let a := alloc h (.outer (refsAt h hp.board))   -- newboard = list(self.board)
              let b := alloc a.1 (.stack (stack.drop n))      -- stack[ndrop:]
              let h3 := setItem b.1 a.2 i0 b.2                -- newboard[i0] = …
              let r := hSlideLoop hp m.type.direction.1 m.type.direction.2 a.2 h3 m.x m.y
                        (stack.take n) (ds.map Int.toNat)
              match r.2 with
              | .error e => (r.1, .error e)
              | .ok () => (r.1, .ok { hp with ply := hp.ply + 1, board := a.2 })

/-- `Position.move` -/
def hMove (h : Heap) (hp : HPos) (m : Move) : Heap × Except Err HPos :=
  if !hp.inBounds m.x m.y then (h, .error .illegal)
  else if m.type.isSlide then hMoveSlide h hp m
  else hMovePlace h hp m

/-! ### `tps.parse_row` / `parse_tps` -/

inductive PChar where
  | one | two | markS | markC
  deriving DecidableEq, Repr, Inhabited

inductive RowItem where
  /-- `x`, `x3`, … -/
  | empties (n : Nat)
  /-- `12S`, `2C`, … (bottom first, as written) -/
  | pieces (cs : List PChar)
  deriving DecidableEq, Repr, Inhabited

/-- the `for c in b` loop: `st` is the LOCAL list `stack`, mutated in place (append,
    `stack[-1] = …`) before anything is published -/
def hParseChars (st : Ref) : Heap → List PChar → Heap × Except Err Unit
  | h, [] => (h, .ok ())
  | h, .one :: cs => hParseChars st (pushPiece h st ⟨.white, .flat⟩) cs
  | h, .two :: cs => hParseChars st (pushPiece h st ⟨.black, .flat⟩) cs
  | h, .markS :: cs =>
    if cs ≠ [] then (h, .error .illegal)          -- (repaired) a mark must be the last character
    else match (stackAt h st).getLast? with
      | none => (h, .error .illegal)              -- bare `S`
      | some l => hParseChars st (setLastPiece h st ⟨l.color, .standing⟩) cs
  | h, .markC :: cs =>
    if cs ≠ [] then (h, .error .illegal)
    else match (stackAt h st).getLast? with
      | none => (h, .error .illegal)
      | some l => hParseChars st (setLastPiece h st ⟨l.color, .cap⟩) cs

/-- the `for b in bits` loop; `sq` is the local outer list `squares` -/
def hParseItems (sq : Ref) : Heap → List RowItem → Heap × Except Err Unit
  | h, [] => (h, .ok ())
  | h, .empties n :: rest =>
    let a := alloc h (.stack [])                                -- the ONE `[]` of `[[]] * n`
    hParseItems sq (extendRefs a.1 sq (List.replicate n a.2)) rest   -- squares += [[]] * n
  | h, .pieces cs :: rest =>
    if cs = [] then (h, .error .illegal)
    else
      let a := alloc h (.stack [])                              -- stack = []
      let r := hParseChars a.2 a.1 cs
      match r.2 with
      | .error e => (r.1, .error e)
      | .ok () =>
        let b := alloc r.1 (.stack (stackAt r.1 a.2).reverse)   -- list(reversed(stack))
        hParseItems sq (extendRefs b.1 sq [b.2]) rest           -- squares.append(…)

/-- `parse_row`: returns the reference of the row's outer list -/
def hParseRow (h : Heap) (items : List RowItem) : Heap × Except Err Ref :=
  let a := alloc h (.outer [])
  let r := hParseItems a.2 a.1 items
  match r.2 with
  | .error e => (r.1, .error e)
  | .ok () => (r.1, .ok a.2)

/-- the `for row in reversed(rows)` loop of `parse_tps` (`rows` already reversed) -/
def hParseRows (n : Nat) (sq : Ref) : Heap → List (List RowItem) → Heap × Except Err Unit
  | h, [] => (h, .ok ())
  | h, row :: rest =>
    let r := hParseRow h row
    match r.2 with
    | .error e => (r.1, .error e)
    | .ok rr =>
      if (refsAt r.1 rr).length ≠ n then (r.1, .error .illegal)
      else hParseRows n sq (extendRefs r.1 sq (refsAt r.1 rr)) rest   -- squares += rsq

/-- `parse_tps` after the header: builds `squares`, then `Position.from_squares` (which
    reads the squares to count the pieces and publishes `squares` itself as the board). -/
def hParseTPS (h : Heap) (rows : List (List RowItem)) (ply : Int) : Heap × Except Err HPos :=
  let n := rows.length
  let a := alloc h (.outer [])
  let r := hParseRows n a.2 a.1 rows.reverse
  match r.2 with
  | .error e => (r.1, .error e)
  | .ok () =>
    match Pos.fromSquares (Config.standard n) (boardAt r.1 a.2) ply with
    | none => (r.1, .error (.crash "ValueError"))
    | some p => (r.1, .ok { size := p.size, wStones := p.wStones, wCaps := p.wCaps,
                            bStones := p.bStones, bCaps := p.bCaps, ply := p.ply, board := a.2 })

/-! ### `symmetry.transform_position` -/

/-- the double loop `sqs[o] = pos[i, j]` over a table of `(destination, source)` flat
    indices (the table is numpy's business, C15); the assigned objects are the SOURCE's own
    stack lists (shared) -/
def hTransformLoop (src : List Ref) (nb : Ref) : Heap → List (Nat × Nat) → Heap × Except Err Unit
  | h, [] => (h, .ok ())
  | h, (d, s) :: rest =>
    match src[s]? with
    | none => (h, .error (.crash "IndexError"))
    | some r =>
      if d < src.length then hTransformLoop src nb (setItem h nb d r) rest
      else (h, .error (.crash "IndexError"))

/-- `transform_position` (repaired: `attrs.evolve(pos, board=sqs)`) -/
def hTransform (h : Heap) (hp : HPos) (table : List (Nat × Nat)) : Heap × Except Err HPos :=
  let src := refsAt h hp.board
  let a := alloc h (.outer src)                                -- sqs = list(pos.board)
  let r := hTransformLoop src a.2 a.1 table
  match r.2 with
  | .error e => (r.1, .error e)
  | .ok () => (r.1, .ok { hp with board := a.2 })

/-! ### `encoding.decode` -/

/-- board tokens with the mover-relative colours already resolved (C06's business) -/
inductive DTok where
  /-- `MY_FLAT` / `THEIR_FLAT`: a flat under the top of the current square -/
  | under (c : Color)
  | empty
  /-- any of the six top-piece tokens -/
  | top (pc : Piece)
  deriving DecidableEq, Repr, Inhabited

/-- `squares.append(this_sq)` when there is a current square -/
def publish (h : Heap) (sq : Ref) : Option Ref → Heap
  | some c => extendRefs h sq [c]
  | none => h

/-- the list a non-`FLAT` token starts: `[]` for `EMPTY`, `[Piece]` for a top piece -/
def DTok.init : DTok → Stack
  | .top pc => [pc]
  | _ => []

/-- the token loop: `sq` is `squares`, `cur` is `this_sq` (appended to in place, before
    and — for the last square — only before it is published) -/
def hDecodeLoop (sq : Ref) : Heap → Option Ref → List DTok → Heap × Except Err Unit
  | h, cur, [] => (publish h sq cur, .ok ())                            -- final squares.append
  | h, none, .under _ :: _ => (h, .error (.crash "AttributeError"))     -- None.append
  | h, some c, .under col :: rest =>
    hDecodeLoop sq (pushPiece h c ⟨col, .flat⟩) (some c) rest           -- this_sq.append(…)
  | h, cur, tok :: rest =>                                              -- EMPTY or a top piece
    let a := alloc (publish h sq cur) (.stack tok.init)                 -- this_sq = [] / [Piece]
    hDecodeLoop sq a.1 (some a.2) rest

/-- `decode` after the header; the scalar fields come from the header tokens -/
def hDecode (h : Heap) (sc : HPos) (toks : List DTok) : Heap × Except Err HPos :=
  let a := alloc h (.outer [])
  let r := hDecodeLoop a.2 a.1 none toks
  match r.2 with
  | .error e => (r.1, .error e)
  | .ok () =>
    if (refsAt r.1 a.2).length ≠ sc.size * sc.size then (r.1, .error (.crash "AssertionError"))
    else (r.1, .ok { sc with board := a.2 })

/-! ### `Position.from_squares` / `Position(...)` with caller-provided lists -/

/-- where the list object of one square of a caller-built board comes from -/
inductive SqSrc where
  /-- a list the caller just made -/
  | fresh (s : Stack)
  /-- the same list object as an earlier square `j` of this board -/
  | own (j : Nat)
  /-- the list object held at square `i` of retained position `k` -/
  | shared (k i : Nat)
  deriving DecidableEq, Repr, Inhabited

def hAdoptLoop (kept : List HPos) : Heap → List Ref → List SqSrc → Heap × Option (List Ref)
  | h, acc, [] => (h, some acc)
  | h, acc, .fresh s :: rest =>
    let a := alloc h (.stack s)
    hAdoptLoop kept a.1 (acc ++ [a.2]) rest
  | h, acc, .own j :: rest =>
    match acc[j]? with
    | none => (h, none)
    | some r => hAdoptLoop kept h (acc ++ [r]) rest
  | h, acc, .shared k i :: rest =>
    match kept[k]? with
    | none => (h, none)
    | some hp =>
      match (refsAt h hp.board)[i]? with
      | none => (h, none)
      | some r => hAdoptLoop kept h (acc ++ [r]) rest

/-- the caller builds lists (possibly reusing list objects) and hands them to
    `Position(...)`, which stores the outer list it is given -/
def hAdopt (h : Heap) (kept : List HPos) (sc : HPos) (srcs : List SqSrc) : Heap × Option HPos :=
  let r := hAdoptLoop kept h [] srcs
  match r.2 with
  | none => (r.1, none)
  | some refs =>
    let a := alloc r.1 (.outer refs)
    (a.1, some { sc with board := a.2 })

/-! ### histories -/

inductive Op where
  /-- apply a move to retained position `k`; an accepted move's result is retained -/
  | move (k : Nat) (m : Move)
  | transform (k : Nat) (table : List (Nat × Nat))
  | parse (rows : List (List RowItem)) (ply : Int)
  | decode (sc : HPos) (toks : List DTok)
  | adopt (sc : HPos) (srcs : List SqSrc)
  deriving Repr, Inhabited

structure World where
  heap : Heap
  kept : List HPos
  deriving Repr, Inhabited

def World.empty : World := ⟨[], []⟩

def keepR (w : World) (r : Heap × Except Err HPos) : World :=
  match r.2 with
  | .ok hp => ⟨r.1, w.kept ++ [hp]⟩
  | .error _ => ⟨r.1, w.kept⟩

def step (w : World) : Op → World
  | .move k m =>
    match w.kept[k]? with
    | none => w
    | some hp => keepR w (hMove w.heap hp m)
  | .transform k table =>
    match w.kept[k]? with
    | none => w
    | some hp => keepR w (hTransform w.heap hp table)
  | .parse rows ply => keepR w (hParseTPS w.heap rows ply)
  | .decode sc toks => keepR w (hDecode w.heap sc toks)
  | .adopt sc srcs =>
    let r := hAdopt w.heap w.kept sc srcs
    match r.2 with
    | some hp => ⟨r.1, w.kept ++ [hp]⟩
    | none => ⟨r.1, w.kept⟩

def run (w : World) (ops : List Op) : World := ops.foldl step w

/-- every retained position is well-formed in the current heap -/
def World.WF (w : World) : Prop := ∀ hp ∈ w.kept, HWF w.heap hp

/-! ### a deliberately WRONG variant (used only to show the theorems are not vacuous) -/

/-- `_move_place` written with `self.board[idx].append(piece)` before copying: it writes
    into a list object that existed before the call. -/
def hMovePlaceInPlace (h : Heap) (hp : HPos) (m : Move) : Heap × Except Err HPos :=
  let i := hp.idx m.x.toNat m.y.toNat
  match (refsAt h hp.board)[i]? with
  | none => (h, .error .illegal)
  | some r =>
    if stackAt h r ≠ [] then (h, .error .illegal)
    else
      let h1 := pushPiece h r ⟨hp.toMove, .flat⟩
      let a := alloc h1 (.outer (refsAt h1 hp.board))
      (a.1, .ok { hp with ply := hp.ply + 1, board := a.2 })

end HeapModel
end Tak

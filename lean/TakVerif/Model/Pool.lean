/-
  C18 — model of `MultiprocessSelfPlayEngine` (python/tak/self_play.py): one parent running
  `play_many(N)`, W spawned workers running `entrypoint → run_job`, two bounded queues.

  The model is a labelled transition system.  One action = one observable effect of one process;
  any interleaving of enabled actions is an execution (the OS scheduler is the adversary).

  parent, `play_many`                                  model
  -----------------------------------------------     -------------------------------------------
  `while len(logs) < games:`                           every parent action requires `logs < N`
  `cmd.put(next_id, block=False); todo -= 1`           `put`    (guard `0 < todo`, `cmd < 2W`)
     `except queue.Full: break`                        (guard false: `put` not enabled)
  `log = games.get(timeout=1); logs.append(log)`       `recv`   (guard `0 < games`)
     `except queue.Empty:` poll exit codes             `poll`   (guard `games = 0`)
        `exitcode not in [0, None]` → RuntimeError        → `raised` if some dead worker has code ≠ 0
                                                          → unchanged state otherwise (idle poll)
  worker j, `entrypoint`/`run_job`
  `engine = engine_factory()`                          `start j`        init → waiting
      raises                                           `factoryFail j`  init → dead failCode
  `id = cmd.get()`                                     `take j`         waiting → playing, cmd-1
  `log = play_one_game(...)`                           `finish j`       playing → holding
      evaluator / search raises                        `gameFail j`     playing → dead failCode, game lost
  `games.put(log)`  (blocks while |games| = W)         `deliver j`      holding → waiting, games+1
  SIGKILL at any time                                  `kill j`         live → dead (-9); a game in hand is lost

  The parent is sequential in the code (fill loop, then `get`); the model lets `put` and `recv`/`poll`
  interleave freely, which only ADDS executions (every real execution is a model execution), so
  invariants proved here hold for the code, and a state in which the model has nothing but `poll`
  enabled is a state in which the real parent is in `get` with nothing able to happen.

  `failCode` — the exit code of a worker whose `run_job` raised — is a PARAMETER: the repaired
  `entrypoint` ends with `sys.exit(1)` (failCode = 1); the pinned one falls off the `except` block
  (failCode = 0).  A killed worker has exit code -9 (`Process.exitcode` of a SIGKILLed child).

  No Mathlib here: the native driver imports this file.
-/

namespace Tak.Pool

/-- life cycle of one worker process -/
inductive WState where
  | init                 -- running `engine_factory()`
  | waiting              -- blocked in `cmd.get()`
  | playing              -- inside `play_one_game`
  | holding              -- has a finished transcript, in `games.put(log)`
  | dead (code : Int)    -- process ended with this exit code
  deriving DecidableEq, Repr, Hashable

inductive Phase where
  | running              -- inside `play_many`
  | raised               -- `RuntimeError("Process crashed!")` propagated (after killing every worker)
  deriving DecidableEq, Repr, Hashable

structure Cfg where
  N : Nat                -- games requested
  W : Nat                -- worker processes
  failCode : Int         -- exit code of a worker whose entrypoint caught an exception
  deriving DecidableEq, Repr

/-- `Process.exitcode` of a child ended by SIGKILL -/
def killCode : Int := -9

structure State where
  todo : Nat             -- ids not yet submitted
  cmd : Nat              -- ids sitting in the `cmd` queue
  games : Nat            -- transcripts sitting in the `games` queue
  logs : Nat             -- transcripts received by the parent
  lost : Nat             -- games whose id was consumed by a worker that died before delivering
  ws : List WState
  phase : Phase
  deriving DecidableEq, Repr, Hashable

inductive Act where
  | put | recv | poll
  | start (j : Nat) | take (j : Nat) | finish (j : Nat) | deliver (j : Nat)
  | factoryFail (j : Nat) | gameFail (j : Nat) | kill (j : Nat)
  deriving DecidableEq, Repr

/-- sum of a per-worker quantity -/
def wsum (f : WState → Nat) (ws : List WState) : Nat := (ws.map f).sum

def isPlaying : WState → Nat | .playing => 1 | _ => 0
def isHolding : WState → Nat | .holding => 1 | _ => 0
def isDead : WState → Nat | .dead _ => 1 | _ => 0
def WState.live : WState → Bool | .dead _ => false | _ => true

def State.playing (s : State) : Nat := wsum isPlaying s.ws
def State.holding (s : State) : Nat := wsum isHolding s.ws
def State.deadCount (s : State) : Nat := wsum isDead s.ws

/-- `any(p.exitcode not in [0, None] for p in processes)` -/
def crashed (s : State) : Bool :=
  s.ws.any fun w => match w with | .dead c => c != 0 | _ => false

/-- the game a worker has in hand when it dies -/
def inHand : WState → Nat | .playing => 1 | .holding => 1 | _ => 0

def step? (c : Cfg) (s : State) : Act → Option State
  | .put =>
    if s.phase = .running ∧ s.logs < c.N ∧ 0 < s.todo ∧ s.cmd < 2 * c.W then
      some { s with todo := s.todo - 1, cmd := s.cmd + 1 } else none
  | .recv =>
    if s.phase = .running ∧ s.logs < c.N ∧ 0 < s.games then
      some { s with games := s.games - 1, logs := s.logs + 1 } else none
  | .poll =>
    if s.phase = .running ∧ s.logs < c.N ∧ s.games = 0 then
      (if crashed s then some { s with phase := .raised } else some s) else none
  | .start j =>
    if s.ws[j]? = some .init then some { s with ws := s.ws.set j .waiting } else none
  | .factoryFail j =>
    if s.ws[j]? = some .init then some { s with ws := s.ws.set j (.dead c.failCode) } else none
  | .take j =>
    if s.ws[j]? = some .waiting ∧ 0 < s.cmd then
      some { s with cmd := s.cmd - 1, ws := s.ws.set j .playing } else none
  | .finish j =>
    if s.ws[j]? = some .playing then some { s with ws := s.ws.set j .holding } else none
  | .gameFail j =>
    if s.ws[j]? = some .playing then
      some { s with lost := s.lost + 1, ws := s.ws.set j (.dead c.failCode) } else none
  | .deliver j =>
    if s.ws[j]? = some .holding ∧ s.games < c.W then
      some { s with games := s.games + 1, ws := s.ws.set j .waiting } else none
  | .kill j =>
    match s.ws[j]? with
    | some w =>
      if w.live then some { s with lost := s.lost + inHand w, ws := s.ws.set j (.dead killCode) }
      else none
    | none => none

def Step (c : Cfg) (s : State) (a : Act) (s' : State) : Prop := step? c s a = some s'

instance (c : Cfg) (s : State) (a : Act) (s' : State) : Decidable (Step c s a s') := by
  unfold Step; infer_instance

/-- run a list of actions; `none` as soon as one is not enabled -/
def run (c : Cfg) (s : State) : List Act → Option State
  | [] => some s
  | a :: as => match step? c s a with
    | some s' => run c s' as
    | none => none

/-- the state right after `__attrs_post_init__` and the first line of `play_many(N)` -/
def fresh (c : Cfg) : State :=
  { todo := c.N, cmd := 0, games := 0, logs := 0, lost := 0,
    ws := List.replicate c.W .init, phase := .running }

/-- a worker that holds no game: still in the factory, idle, or already dead (earlier request) -/
def idle (c : Cfg) : WState → Prop
  | .init | .waiting => True
  | .dead k => k = c.failCode ∨ k = killCode
  | _ => False

instance (c : Cfg) (w : WState) : Decidable (idle c w) := by
  cases w <;> simp only [idle] <;> infer_instance

/-- the start of ANY `play_many(N)` request on an engine: queues empty, every worker idle -/
def Init (c : Cfg) (s : State) : Prop :=
  s.todo = c.N ∧ s.cmd = 0 ∧ s.games = 0 ∧ s.logs = 0 ∧ s.lost = 0 ∧ s.phase = .running ∧
  s.ws.length = c.W ∧ ∀ w ∈ s.ws, idle c w

instance (c : Cfg) (s : State) : Decidable (Init c s) := by unfold Init; infer_instance

inductive Reachable (c : Cfg) : State → Prop where
  | init {s} : Init c s → Reachable c s
  | step {s a s'} : Reachable c s → Step c s a s' → Reachable c s'

/-- `play_many` has returned its list -/
def done (c : Cfg) (s : State) : Prop := s.phase = .running ∧ s.logs = c.N

instance (c : Cfg) (s : State) : Decidable (done c s) := by unfold done; infer_instance

/-- the next `play_many(n)` on the same engine starts from here -/
def State.nextRequest (s : State) (n : Nat) : State := { s with todo := n, logs := 0 }

/-- actions of the normal (fault-free) protocol other than the time-out poll -/
def Act.normal : Act → Bool
  | .put | .recv | .start _ | .take _ | .finish _ | .deliver _ => true
  | _ => false

def Act.fault : Act → Bool
  | .factoryFail _ | .gameFail _ | .kill _ => true
  | _ => false

/-- nothing of the normal protocol can happen: the parent can only time out in `games.get` -/
def Stalled (c : Cfg) (s : State) : Prop := ∀ a, a.normal = true → step? c s a = none

/-- explicit potential: weighted position of every game in the pipeline + life of every worker
    + 1 while the parent is running -/
def wt : WState → Nat
  | .init => 2 | .waiting => 1 | .playing => 4 | .holding => 3 | .dead _ => 0

def potential (s : State) : Nat :=
  5 * s.todo + 4 * s.cmd + s.games + wsum wt s.ws + (if s.phase = .running then 1 else 0)

/-- fault-free executions from a fresh engine -/
inductive FFReachable (c : Cfg) : State → Prop where
  | init : FFReachable c (fresh c)
  | step {s a s'} : FFReachable c s → a.fault = false → Step c s a s' → FFReachable c s'

/-! ## `stop()`: W `None` commands, shutdown event, join -/

inductive SW where
  | init | waiting
  | parked               -- got `None`, left the loop, closed `games`, in `shutdown.wait()`
  | dead (code : Int)
  deriving DecidableEq, Repr

structure StopState where
  putsLeft : Nat         -- `None`s the parent still has to put
  nones : Nat            -- `None`s in `cmd`
  shutdown : Bool        -- `shutdown.set()` done
  ws : List SW
  deriving DecidableEq, Repr

inductive SAct where
  | putNone | setShutdown
  | start (j : Nat) | takeNone (j : Nat) | exit (j : Nat)
  | factoryFail (j : Nat) | kill (j : Nat)
  deriving DecidableEq, Repr

def SW.live : SW → Bool | .dead _ => false | _ => true
def needsNone : SW → Nat | .init | .waiting => 1 | _ => 0
def swt : SW → Nat | .init => 3 | .waiting => 2 | .parked => 1 | .dead _ => 0
def ssum (f : SW → Nat) (ws : List SW) : Nat := (ws.map f).sum

def sstep? (failCode : Int) (s : StopState) : SAct → Option StopState
  | .putNone => if 0 < s.putsLeft then some { s with putsLeft := s.putsLeft - 1, nones := s.nones + 1 } else none
  | .setShutdown => if s.putsLeft = 0 ∧ s.shutdown = false then some { s with shutdown := true } else none
  | .start j => if s.ws[j]? = some .init then some { s with ws := s.ws.set j .waiting } else none
  | .factoryFail j => if s.ws[j]? = some .init then some { s with ws := s.ws.set j (.dead failCode) } else none
  | .takeNone j =>
    if s.ws[j]? = some .waiting ∧ 0 < s.nones then
      some { s with nones := s.nones - 1, ws := s.ws.set j .parked } else none
  | .exit j =>
    if s.ws[j]? = some .parked ∧ s.shutdown = true then some { s with ws := s.ws.set j (.dead 0) } else none
  | .kill j =>
    match s.ws[j]? with
    | some w => if w.live then some { s with ws := s.ws.set j (.dead killCode) } else none
    | none => none

def SAct.normal : SAct → Bool
  | .factoryFail _ | .kill _ => false
  | _ => true

def spotential (s : StopState) : Nat :=
  2 * s.putsLeft + (if s.shutdown then 0 else 1) + ssum swt s.ws

/-- `stop()` is called on an engine whose `cmd` queue is empty (C18_exact) and whose workers hold nothing -/
def toSW : WState → SW
  | .init => .init
  | .dead k => .dead k
  | _ => .waiting

def stopOf (c : Cfg) (s : State) : StopState :=
  { putsLeft := c.W, nones := 0, shutdown := false, ws := s.ws.map toSW }

def StopInit (W : Nat) (s : StopState) : Prop :=
  s.putsLeft = W ∧ s.nones = 0 ∧ s.shutdown = false ∧ s.ws.length = W ∧ ∀ w ∈ s.ws, w ≠ .parked

inductive StopReachable (W : Nat) (failCode : Int) : StopState → Prop where
  | init {s} : StopInit W s → StopReachable W failCode s
  | step {s a s'} : StopReachable W failCode s → sstep? failCode s a = some s' → StopReachable W failCode s'

def StopStalled (failCode : Int) (s : StopState) : Prop :=
  ∀ a, a.normal = true → sstep? failCode s a = none

/-! ## what the harness observes of one request, and the property's verdict on it

  Written from the property text: a request returns exactly N complete transcripts (none lost,
  none extra, none carried over from an earlier request), or — if a worker failed — raises within
  bounded time; it never stays blocked. -/

inductive FaultKind where
  | none | factory | game | kill
  deriving DecidableEq, Repr

inductive Outcome where
  | returned (n : Nat)       -- number of transcripts in the returned list
  | raisedAfter (ms : Nat)   -- an exception propagated, this long after the fault
  | blocked                  -- still inside `play_many` T after the fault (or after everything was ready)
  deriving DecidableEq, Repr

structure Observed where
  N : Nat
  fault : FaultKind          -- the fault injected before/inside this request (or none)
  outcome : Outcome
  dups : Nat                 -- transcripts with a tag already seen (in this or an earlier request)
  carried : Nat              -- transcripts of games started before the previous request returned
  deriving Repr

/-- the bound T of the property, in milliseconds -/
def boundMs : Nat := 10000

def hangKey : FaultKind → String
  | .none => "hang-without-fault"
  | .factory => "hang-after-factory-exception"
  | .game => "hang-after-worker-exception"
  | .kill => "hang-after-kill"

/-- `none` = the property holds on this observation; `some key` = it fails, in this way -/
def verdict (o : Observed) : Option String :=
  match o.outcome with
  | .blocked => some (hangKey o.fault)
  | .raisedAfter ms =>
    if o.fault = .none then some "spurious-raise"
    else if boundMs < ms then some (hangKey o.fault) else none
  | .returned n =>
    if n < o.N then some "lost-game"
    else if o.N < n then some "extra-game"
    else if 0 < o.dups then some "extra-game"
    else if 0 < o.carried then some "carry-over"
    else none

/-! ## `stop()` after `play_many` has raised (the `finally: engine.stop()` of `play_many_games`)

  `play_many`'s `except` branch has SIGKILLed every worker before re-raising, so nobody will read
  `cmd` again, and `cmd` may still hold up to 2W ids.  `stop()` then runs
  `for _ in range(W): cmd.put(None, block=False)`, `shutdown.set()`, `join` of (dead) processes.
  The loop is structural recursion on the number of puts left: at most W put attempts.
  `blocking = true` is the variant `cmd.put(None)`: with a full queue and no reader it waits for ever. -/

inductive StopRes where
  | joined      -- all W `None`s fitted, event set, every (dead) process joined: `stop()` returns
  | full        -- a non-blocking put found the queue full: `queue.Full` propagates (loud)
  | blocked     -- a blocking put waits for a reader that no longer exists
  deriving DecidableEq, Repr

/-- `cap` = maxsize of `cmd`, `cmd` = ids still queued, third argument = puts left -/
def stopAfterRaise (blocking : Bool) (cap cmd : Nat) : Nat → StopRes
  | 0 => .joined
  | k + 1 =>
    if cmd < cap then stopAfterRaise blocking cap (cmd + 1) k
    else if blocking then .blocked else .full

/-- what `p.kill()` for every process leaves behind -/
def killAll (s : State) : State :=
  { s with ws := s.ws.map fun w => if w.live then .dead killCode else w }

/-- after `stop()` (or the teardown after a raise): every one of the W processes has an exit code,
    and the call itself came back (returned, or raised — after a failure `queue.Full` is loud enough) -/
inductive StopObs where
  | returned | raised | blocked
  deriving DecidableEq, Repr

def stopVerdict (W exited : Nat) (afterFailure : Bool) (o : StopObs) : Option String :=
  match o with
  | .blocked => some (if afterFailure then "stop-hangs-after-failure" else "stop-does-not-join")
  | _ => if exited = W then none else some "stop-does-not-join"

end Tak.Pool

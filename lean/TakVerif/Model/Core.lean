/-
  Core data of the model: colours, pieces, stacks, positions, moves.
  Mirrors python/tak/pieces.py, python/tak/moves.py (types) and the data part of
  python/tak/game.py.  No Mathlib imports in Model/ (the driver is a native executable).

  Representation (see DESIGN.md section 3):
  * `Pos.board` is the flat Python list, index `x + y*size`, every stack top piece FIRST.
  * Reserves and `ply` are `Int` (Python ints).
  * `Move.x`, `Move.y` are `Int`, `slides : Option (List Int)`: every move a caller can
    construct, including off-board squares, `None`, zero and negative drops.
-/

namespace Tak

inductive Color where
  | white | black
  deriving DecidableEq, Repr, Inhabited

def Color.flip : Color → Color
  | .white => .black
  | .black => .white

@[simp] theorem Color.flip_flip (c : Color) : c.flip.flip = c := by cases c <;> rfl
@[simp] theorem Color.flip_ne (c : Color) : c.flip ≠ c := by cases c <;> decide
@[simp] theorem Color.ne_flip (c : Color) : c ≠ c.flip := by cases c <;> decide

inductive Kind where
  | flat | standing | cap
  deriving DecidableEq, Repr, Inhabited

/-- `Kind.is_road` of pieces.py -/
def Kind.isRoad : Kind → Bool
  | .flat => true
  | .standing => false
  | .cap => true

structure Piece where
  color : Color
  kind : Kind
  deriving DecidableEq, Repr, Inhabited

/-- A stack of pieces, top piece first (as in the Python lists). -/
abbrev Stack := List Piece

inductive MoveType where
  | placeFlat | placeStanding | placeCap | left | right | up | down
  deriving DecidableEq, Repr, Inhabited

/-- `MoveType.is_slide` -/
def MoveType.isSlide : MoveType → Bool
  | .placeFlat | .placeStanding | .placeCap => false
  | _ => true

/-- `DIRECTIONS` of moves.py; (0,0) for placements (never consulted for them). -/
def MoveType.direction : MoveType → Int × Int
  | .left => (-1, 0)
  | .right => (1, 0)
  | .up => (0, 1)
  | .down => (0, -1)
  | _ => (0, 0)

structure Move where
  x : Int
  y : Int
  type : MoveType
  slides : Option (List Int)
  deriving DecidableEq, Repr, Inhabited

/-- The domain's own exception (`illegal`) versus any other exception class. -/
inductive Err where
  | illegal
  | crash (cls : String)
  deriving DecidableEq, Repr, Inhabited

/-- `game.Config` with the defaults resolved. -/
structure Config where
  size : Nat
  pieces : Int
  capstones : Int
  deriving DecidableEq, Repr, Inhabited

def defaultPieces : Nat → Int
  | 3 => 10 | 4 => 15 | 5 => 21 | 6 => 30 | 7 => 40 | 8 => 50 | _ => 0
def defaultCaps : Nat → Int
  | 5 => 1 | 6 => 1 | 7 => 1 | 8 => 2 | _ => 0

def Config.standard (n : Nat) : Config := ⟨n, defaultPieces n, defaultCaps n⟩

structure Pos where
  size : Nat
  wStones : Int
  wCaps : Int
  bStones : Int
  bCaps : Int
  ply : Int
  board : List Stack
  deriving DecidableEq, Repr, Inhabited

namespace Pos

/-- `Position.to_move` -/
def toMove (p : Pos) : Color := if p.ply % 2 = 0 then .white else .black

/-- `Position.in_bounds` -/
def inBounds (p : Pos) (x y : Int) : Bool :=
  decide (0 ≤ x) && decide (x < p.size) && decide (0 ≤ y) && decide (y < p.size)

/-- flat index of an in-bounds square -/
def idx (p : Pos) (x y : Nat) : Nat := x + y * p.size

/-- `self[x, y]` for natural (in-bounds) coordinates; `[]` is never observed under `WF`
    and in-bounds coordinates. -/
def sq (p : Pos) (x y : Nat) : Stack := p.board.getD (p.idx x y) []

/-- `self[x, y]` for integer coordinates that have passed `inBounds`. -/
def atI (p : Pos) (x y : Int) : Stack := p.sq x.toNat y.toNat

def setAt (p : Pos) (x y : Nat) (s : Stack) : Pos :=
  { p with board := p.board.set (p.idx x y) s }

def stones (p : Pos) : Color → Int
  | .white => p.wStones
  | .black => p.bStones

def caps (p : Pos) : Color → Int
  | .white => p.wCaps
  | .black => p.bCaps

/-- well-formedness: the board is a `size × size` grid -/
def WF (p : Pos) : Prop := 1 ≤ p.size ∧ p.board.length = p.size * p.size

instance (p : Pos) : Decidable p.WF := by unfold WF; exact inferInstance

/-- `Position.from_config` -/
def fromConfig (c : Config) : Pos :=
  { size := c.size, wStones := c.pieces, wCaps := c.capstones,
    bStones := c.pieces, bCaps := c.capstones, ply := 0,
    board := List.replicate (c.size * c.size) [] }

/-- number of pieces on the board of colour `c` that are (`cap = true`) capstones or
    (`cap = false`) anything else -/
def countStack (c : Color) (cap : Bool) (s : Stack) : Nat :=
  (s.filter fun pc => pc.color == c && ((pc.kind == Kind.cap) == cap)).length

def onBoard (p : Pos) (c : Color) (cap : Bool) : Nat :=
  (p.board.map (countStack c cap)).sum

/-- `Position.from_squares`; the `ValueError` for a wrong number of squares is `none`. -/
def fromSquares (c : Config) (squares : List Stack) (ply : Int) : Option Pos :=
  if squares.length ≠ c.size * c.size then none else
  let cnt (col : Color) (cap : Bool) : Int := ((squares.map (countStack col cap)).sum : Nat)
  some { size := c.size,
         wStones := c.pieces - cnt .white false, wCaps := c.capstones - cnt .white true,
         bStones := c.pieces - cnt .black false, bCaps := c.capstones - cnt .black true,
         ply := ply, board := squares }

end Pos

/-- kind of the top piece of a stack, if any -/
def topKind (s : Stack) : Option Kind := s.head?.map (·.kind)
def topColor (s : Stack) : Option Color := s.head?.map (·.color)

end Tak

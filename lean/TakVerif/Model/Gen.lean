/-
  Move tables and the move generator: python/tak/moves.py (`_compute_slides`, `ALL_SLIDES`,
  `all_moves_for_size`), python/tak/game.py (`Position.all_moves`) and the move-id lookup of
  python/tak/model/encoding.py (`MOVES_BY_SIZE`, `encode_move`, `decode_move`).
  Same iteration order as the Python.
-/
import TakVerif.Model.Core

namespace Tak
namespace Gen

/-- `_compute_slides(size)`: for i in 1..size: (i,), then (i,)+inner for inner in ALL_SLIDES[size-i]
    (`ALL_SLIDES[0] = ()`, i.e. nothing to iterate over). -/
def slides : Nat → List (List Nat)
  | 0 => []
  | n + 1 =>
    (List.range (n + 1)).flatMap fun j =>
      [j + 1] :: (slides (n + 1 - (j + 1))).map fun inner => (j + 1) :: inner
termination_by n => n
decreasing_by omega

/-- `Move(x, y, d, slide)` for a slide taken from `ALL_SLIDES` -/
def slideMove (x y : Nat) (t : MoveType) (s : List Nat) : Move :=
  ⟨x, y, t, some (s.map Int.ofNat)⟩

/-- the `dirs` list of the Python, in its order: LEFT, RIGHT, DOWN, UP with the room to the edge -/
def dirs (size x y : Nat) : List (MoveType × Nat) :=
  [(.left, x), (.right, size - x - 1), (.down, y), (.up, size - y - 1)]

/-- the double loop shared by `all_moves_for_size` and `Position.all_moves`:
    `for slide in ALL_SLIDES[size]: for d, l in dirs: if cond(slide, l): out.append(Move(x, y, d, slide))` -/
def slideLoop (size x y : Nat) (cond : List Nat → Nat → Bool) : List Move :=
  (slides size).flatMap fun s =>
    (dirs size x y).filterMap fun dl =>
      if cond s dl.2 then some (slideMove x y dl.1 s) else none

/-- the three placements appended for a square, in the Python's order -/
def placements (x y : Nat) : List Move :=
  [⟨x, y, .placeFlat, none⟩, ⟨x, y, .placeStanding, none⟩, ⟨x, y, .placeCap, none⟩]

/-- `for x in range(size): for y in range(size): <cell x y>` -/
def grid (size : Nat) (cell : Nat → Nat → List Move) : List Move :=
  (List.range size).flatMap fun x => (List.range size).flatMap fun y => cell x y

/-- body of the square loop of `all_moves_for_size` -/
def tableCell (size x y : Nat) : List Move :=
  placements x y ++ slideLoop size x y fun s l => decide (s.length ≤ l)

/-- `all_moves_for_size(size)` -/
def allMovesForSize (size : Nat) : List Move := grid size (tableCell size)

/-- body of the square loop of `Position.all_moves` (`to_move`, `has_cap` computed before the loop) -/
def genCell (p : Pos) (x y : Nat) : List Move :=
  let toMove := p.toMove
  let hasCap := decide (p.caps toMove > 0)
  match p.sq x y with
  | [] =>
    [⟨x, y, .placeFlat, none⟩, ⟨x, y, .placeStanding, none⟩] ++
      (if hasCap then [⟨x, y, .placeCap, none⟩] else [])
  | top :: rest =>
    if top.color ≠ toMove then []
    else slideLoop p.size x y fun s l => decide (s.length ≤ l ∧ s.length ≤ (top :: rest).length)

/-- `Position.all_moves()` -/
def allMoves (p : Pos) : List Move := grid p.size (genCell p)

/-- `decode_move(size, id)` = `MOVES_BY_SIZE[size][id]` for `id ≥ 0` (`none`: IndexError) -/
def decodeMove (size id : Nat) : Option Move := (allMovesForSize size)[id]?

/-- index under which `{m: i for (i, m) in enumerate(moves)}` files `m`: a later entry
    overwrites an earlier one, so it is the LAST index holding `m` (`none`: KeyError) -/
def lastIdxOf (m : Move) : List Move → Option Nat
  | [] => none
  | a :: t =>
    match lastIdxOf m t with
    | some i => some (i + 1)
    | none => if a = m then some 0 else none

/-- `encode_move(size, m)` = `MOVES_TO_ID[size][m]` (`none`: KeyError) -/
def encodeMove (size : Nat) (m : Move) : Option Nat := lastIdxOf m (allMovesForSize size)

end Gen
end Tak

/-
  Move tables and the move generator: python/tak/moves.py (`_compute_slides`, `ALL_SLIDES`,
  `all_moves_for_size`), python/tak/game.py (`Position.all_moves`) and the move-id lookup of
  python/tak/model/encoding.py (`MOVES_BY_SIZE`, `encode_move`, `decode_move`).
  Same iteration order as the Python.
-/
import TakVerif.Model.Core

namespace Tak
namespace Gen

/-- `_compute_slides(size)`: for i in 1..size: (i,), then (i,)+inner for inner in ALL_SLIDES[size-i] -/
def slides : Nat → List (List Nat)
  | 0 => []
  | n + 1 =>
    (List.range (n + 1)).flatMap fun j =>
      [j + 1] :: (slides (n + 1 - (j + 1))).map fun inner => (j + 1) :: inner
termination_by n => n
decreasing_by omega

def slideMove (x y : Nat) (t : MoveType) (s : List Nat) : Move :=
  ⟨x, y, t, some (s.map Int.ofNat)⟩

/-- the `dirs` list of the Python, in its order: LEFT, RIGHT, DOWN, UP with the room to the edge -/
def dirs (size x y : Nat) : List (MoveType × Nat) :=
  [(.left, x), (.right, size - x - 1), (.down, y), (.up, size - y - 1)]

/-- `all_moves_for_size(size)` -/
def allMovesForSize (size : Nat) : List Move :=
  (List.range size).flatMap fun x =>
    (List.range size).flatMap fun y =>
      [⟨x, y, .placeFlat, none⟩, ⟨x, y, .placeStanding, none⟩, ⟨x, y, .placeCap, none⟩] ++
      (slides size).flatMap fun s =>
        (dirs size x y).filterMap fun (d, l) =>
          if s.length ≤ l then some (slideMove x y d s) else none

/-- `Position.all_moves()` -/
def allMoves (p : Pos) : List Move :=
  let toMove := p.toMove
  let hasCap := decide (p.caps toMove > 0)
  (List.range p.size).flatMap fun x =>
    (List.range p.size).flatMap fun y =>
      match p.sq x y with
      | [] =>
        [⟨x, y, .placeFlat, none⟩, ⟨x, y, .placeStanding, none⟩] ++
          (if hasCap then [⟨x, y, .placeCap, none⟩] else [])
      | top :: rest =>
        if top.color ≠ toMove then []
        else
          (slides p.size).flatMap fun s =>
            (dirs p.size x y).filterMap fun (d, l) =>
              if s.length ≤ l ∧ s.length ≤ (top :: rest).length then some (slideMove x y d s) else none

/-- `decode_move(size, id)` = `MOVES_BY_SIZE[size][id]` (`none`: IndexError) -/
def decodeMove (size id : Nat) : Option Move := (allMovesForSize size)[id]?

/-- `encode_move(size, m)` = `MOVES_TO_ID[size][m]` (`none`: KeyError).  The Python dict maps a
    move to the LAST index holding it; the table has no duplicates (C07), so first = last. -/
def encodeMove (size : Nat) (m : Move) : Option Nat :=
  let t := allMovesForSize size
  let i := t.idxOf m
  if i < t.length then some i else none

end Gen
end Tak

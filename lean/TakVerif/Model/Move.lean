/-
  Impl.move: model of `Position.move`, `_move_place`, `_move_slide` (python/tak/game.py),
  same order of checks, same loop structure, same slicing.
-/
import TakVerif.Model.Core

namespace Tak
namespace Impl

open Pos

/-- `_move_place` -/
def movePlace (p : Pos) (m : Move) : Except Err Pos :=
  if p.ply < 2 ∧ m.type ≠ .placeFlat then .error .illegal
  else if p.atI m.x m.y ≠ [] then .error .illegal
  else
    let color := if p.ply < 2 then p.toMove.flip else p.toMove
    let isCap := decide (m.type = .placeCap)
    let kind : Kind :=
      if m.type = .placeCap then .cap
      else if m.type = .placeStanding then .standing else .flat
    let avail := if isCap then p.caps color else p.stones color
    if avail ≤ 0 then .error .illegal
    else
      let p1 : Pos :=
        match color, isCap with
        | .white, false => { p with wStones := p.wStones - 1 }
        | .white, true  => { p with wCaps := p.wCaps - 1 }
        | .black, false => { p with bStones := p.bStones - 1 }
        | .black, true  => { p with bCaps := p.bCaps - 1 }
      .ok { p1 with ply := p.ply + 1,
                    board := p.board.set (p.idx m.x.toNat m.y.toNat) [⟨color, kind⟩] }

/-- `[Piece(orig[0].color, FLAT)] + orig[1:]` -/
def flattenTop : Stack → Stack
  | [] => []
  | t :: rest => ⟨t.color, .flat⟩ :: rest

/-- The `for drop in m.slides` loop of `_move_slide`.  `(x, y)` is the square reached so
    far, `carry` the pieces still in hand, `nb` the board under construction; original
    squares are read from `p.board` (not `nb`), as in the Python. -/
def slideLoop (p : Pos) (dx dy : Int) :
    Int → Int → Stack → List Stack → List Nat → Except Err (List Stack)
  | _, _, _, nb, [] => .ok nb
  | x, y, carry, nb, drop :: rest =>
    let x' := x + dx
    let y' := y + dy
    if !p.inBounds x' y' then .error .illegal
    else
      let i := p.idx x'.toNat y'.toNat
      let orig := p.board.getD i []
      if topKind orig = some .cap then .error .illegal
      else
        match carry with
        | [] => .error (.crash "IndexError")      -- `carry[0]` on an empty carry
        | c0 :: _ =>
          if topKind orig = some .standing ∧ (c0.kind ≠ .cap ∨ carry.length ≠ 1) then
            .error .illegal
          else
            let orig' := if topKind orig = some .standing then flattenTop orig else orig
            let k := carry.length - drop
            slideLoop p dx dy x' y' (carry.take k) (nb.set i (carry.drop k ++ orig')) rest

/-- `_move_slide` (with the validation of the drop tuple that the repaired code performs
    before anything else: a missing/empty tuple or a non-positive drop is refused). -/
def moveSlide (p : Pos) (m : Move) : Except Err Pos :=
  if p.ply < 2 then .error .illegal
  else
    match m.slides with
    | none => .error .illegal
    | some ds =>
      if ds = [] ∨ ds.any (· < 1) then .error .illegal
      else
        let stack := p.atI m.x m.y
        let ndrop : Int := ds.sum
        if ndrop > p.size ∨ (stack.length : Int) < ndrop then .error .illegal
        else if ndrop < 1 then .error .illegal
        else
          match stack with
          | [] => .error (.crash "IndexError")
          | top :: _ =>
            if top.color ≠ p.toMove then .error .illegal
            else
              let n := ndrop.toNat
              let (dx, dy) := m.type.direction
              let i0 := p.idx m.x.toNat m.y.toNat
              match slideLoop p dx dy m.x m.y (stack.take n) (p.board.set i0 (stack.drop n))
                      (ds.map Int.toNat) with
              | .error e => .error e
              | .ok nb => .ok { p with ply := p.ply + 1, board := nb }

/-- `Position.move` (the repaired code refuses off-board squares first). -/
def move (p : Pos) (m : Move) : Except Err Pos :=
  if !p.inBounds m.x m.y then .error .illegal
  else if m.type.isSlide then moveSlide p m
  else movePlace p m

end Impl
end Tak

/-
  C10 — the regularised-policy solver.  Mathlib-free (the native driver links this file).

  Executable model, over exact arithmetic, of

    * `solve_policy`         in /repo/python/ext/tak.cpp   (`solveCpp`)
    * `solve_policy_python`  in /repo/python/tak/mcts.py   (`solvePy`)

  as they are written: bracket `[max_i(q_i + λ·π_i), max_i(q_i + λ)]`, first candidate the
  midpoint, at most 32 evaluations of `Σ_i λ·π_i/(α − q_i)`, the exits
      C++    : |sum − 1| ≤ 1e-3  or  sum == last_sum      (last_sum starts at +∞)
      Python : |1 − σ| ≤ 1e-3    or  alpha_max − alpha_min ≤ 1e-6
  the bracket update `sum > 1 → alpha_min := alpha; alpha := (alpha + alpha_max)/2`
  else `alpha_max := alpha; alpha := (alpha + alpha_min)/2`, and non-convergence
  (`runtime_error("alpha search did not converge")` / `AssertionError`) as the explicit
  error value `SolveErr.noConverge`.

  The model is generic in the scalar type: it only asks for the operations the code uses
  (`+ - * /`, `<`, `≤`, `==`, the literals 0 1 2 1000 1000000).  The driver instantiates it
  at core `Rat` (`solveCppRat`, `solvePyRat`); `Props/C10.lean` proves the property
  theorems for EVERY linearly ordered field, so the executable model is an instance of the
  theorems (`C10_rat_model_is_instance`), and so is the same text read over `ℝ`.

  What the model does not exhibit: IEEE rounding (float32 in the pinned C++, float64 bracket
  with float32 tensors in Python and in the repaired C++).  In exact arithmetic `sum ==
  last_sum` can fire only when `|sum − 1| ≤ 1e-3` fires as well (`Lemmas/Solver.lean`).

  The second half of the file is the contract predicate `Contract` that the harness has the
  driver evaluate on the *implementation's* output (exact float bit patterns → `Rat`).
-/

namespace Tak.Solver

inductive SolveErr where
  /-- K = 0: outside the property's domain (C++ would return an empty tensor, torch's
      `.max()` raises) -/
  | empty
  /-- 32 evaluations without an exit: C++ throws, Python raises AssertionError -/
  | noConverge
  deriving DecidableEq, Repr

inductive Exit where
  /-- `|sum − 1| ≤ 1e-3` -/
  | sigma
  /-- C++ only: `sum == last_sum` -/
  | same
  /-- Python only: `alpha_max − alpha_min ≤ 1e-6` -/
  | width
  deriving DecidableEq, Repr

structure Out (α : Type) where
  alpha : α
  /-- number of evaluations of the sum performed, 1..32 -/
  rounds : Nat
  exit : Exit
  /-- the returned tensor `lambda_n * pi_theta / (alpha - q)` -/
  w : List α

/-- `alpha_min`, `alpha_max`, `alpha` -/
structure St (α : Type) where
  lo : α
  hi : α
  a : α

section Generic

variable {α : Type} [Add α] [Sub α] [Mul α] [Div α] [Neg α] [Zero α] [LT α] [LE α]
  [DecidableLT α] [DecidableLE α] [DecidableEq α]
  [OfNat α 1] [OfNat α 2] [OfNat α 1000] [OfNat α 1000000]

/-- `std::max(a, b)` = `(a < b) ? b : a` -/
def mx (a b : α) : α := if a < b then b else a

/-- `abs` -/
def absv (x : α) : α := if x < 0 then -x else x

/-- the returned tensor at a given `alpha`; an input is the list of pairs `(π_i, q_i)`
    (`len = pi_theta.sizes()[0]`, `q` has the same shape) -/
def weights (lam : α) (ps : List (α × α)) (a : α) : List α :=
  ps.map fun x => lam * x.1 / (a - x.2)

/-- `sum` / `sigma` -/
def g (lam : α) (ps : List (α × α)) (a : α) : α := (weights lam ps a).sum

/-- `SIGMA_EPSILON` / `ALPHA_EPSILON` -/
def sigmaEps : α := 1 / 1000

/-- the Python width exit `1e-6` -/
def widthEps : α := 1 / 1000000

/-- running maximum started from the first element (the C++ loop starts from −∞, torch's
    `.max()` reduces the tensor: the same value for K ≥ 1) -/
def maxOver (f : α × α → α) : List (α × α) → Option α
  | [] => none
  | x :: xs => some (xs.foldl (fun m y => mx m (f y)) (f x))

/-- `alpha_min = max_i (q_i + λ·π_i)` -/
def lo0 (lam : α) (ps : List (α × α)) : Option α := maxOver (fun x => x.2 + lam * x.1) ps

/-- `alpha_max = max_i (q_i + λ)` -/
def hi0 (lam : α) (ps : List (α × α)) : Option α := maxOver (fun x => x.2 + lam) ps

/-- one bracket update, given the value of the sum at `s.a` -/
def St.next (s : St α) (sum : α) : St α :=
  if 1 < sum then ⟨s.a, s.hi, (s.a + s.hi) / 2⟩ else ⟨s.lo, s.a, (s.a + s.lo) / 2⟩

/-- the bracket after `k` updates (no exit test): the trajectory both loops follow -/
def iter (lam : α) (ps : List (α × α)) : Nat → St α → St α
  | 0, s => s
  | k + 1, s => iter lam ps k (s.next (g lam ps s.a))

/-- `for (int loops = 0; loops < 32; loops++) {…}; throw` — `fuel` = rounds left, `k` = rounds
    done, `last` = `last_sum` (`none` = +∞) -/
def loopCpp (lam : α) (ps : List (α × α)) : Nat → Nat → St α → Option α → Except SolveErr (Out α)
  | 0, _, _, _ => .error .noConverge
  | fuel + 1, k, s, last =>
    let sum := g lam ps s.a
    if absv (sum - 1) ≤ sigmaEps then .ok ⟨s.a, k + 1, .sigma, weights lam ps s.a⟩
    else if last = some sum then .ok ⟨s.a, k + 1, .same, weights lam ps s.a⟩
    else loopCpp lam ps fuel (k + 1) (s.next sum) (some sum)

/-- `while True: iters += 1; if iters > 32: raise …` -/
def loopPy (lam : α) (ps : List (α × α)) : Nat → Nat → St α → Except SolveErr (Out α)
  | 0, _, _ => .error .noConverge
  | fuel + 1, k, s =>
    let sigma := g lam ps s.a
    if absv (1 - sigma) ≤ sigmaEps then .ok ⟨s.a, k + 1, .sigma, weights lam ps s.a⟩
    else if s.hi - s.lo ≤ widthEps then .ok ⟨s.a, k + 1, .width, weights lam ps s.a⟩
    else loopPy lam ps fuel (k + 1) (s.next sigma)

/-- the starting state: `alpha = (alpha_min + alpha_max)/2` -/
def init (lam : α) (ps : List (α × α)) : Option (St α) :=
  match lo0 lam ps, hi0 lam ps with
  | some lo, some hi => some ⟨lo, hi, (lo + hi) / 2⟩
  | _, _ => none

/-- `tak_ext.solve_policy` -/
def solveCpp (lam : α) (ps : List (α × α)) : Except SolveErr (Out α) :=
  match init lam ps with
  | some s => loopCpp lam ps 32 0 s none
  | none => .error .empty

/-- `tak.mcts.solve_policy_python` (`alpha = (alpha_max + alpha_min)/2`: the same midpoint) -/
def solvePy (lam : α) (ps : List (α × α)) : Except SolveErr (Out α) :=
  match init lam ps with
  | some s => loopPy lam ps 32 0 s
  | none => .error .empty

end Generic

/-- rounds and exit of a result (used to state facts about a run without naming the weights) -/
def brief {α : Type} : Except SolveErr (Out α) → Option (Nat × Exit)
  | .ok o => some (o.rounds, o.exit)
  | .error _ => none

/-! ### The executable instances the driver runs -/

def solveCppRat (lam : Rat) (ps : List (Rat × Rat)) : Except SolveErr (Out Rat) := solveCpp lam ps
def solvePyRat (lam : Rat) (ps : List (Rat × Rat)) : Except SolveErr (Out Rat) := solvePy lam ps

/-! ### Float bit patterns as exact rationals -/

def pow2 (e : Int) : Rat :=
  if 0 ≤ e then ((2 ^ e.toNat : Nat) : Rat) else 1 / ((2 ^ (-e).toNat : Nat) : Rat)

/-- IEEE-754 binary32 bit pattern → exact value; `none` for ±∞ and NaN -/
def ofBits32 (b : Nat) : Option Rat :=
  let sign : Rat := if (b >>> 31) % 2 = 1 then -1 else 1
  let e := (b >>> 23) % 256
  let m := b % 8388608
  if e = 255 then none
  else if e = 0 then some (sign * (m : Rat) * pow2 (-149))
  else some (sign * ((8388608 + m : Nat) : Rat) * pow2 ((e : Int) - 150))

/-- IEEE-754 binary64 bit pattern → exact value; `none` for ±∞ and NaN -/
def ofBits64 (b : Nat) : Option Rat :=
  let sign : Rat := if (b >>> 63) % 2 = 1 then -1 else 1
  let e := (b >>> 52) % 2048
  let m := b % 4503599627370496
  if e = 2047 then none
  else if e = 0 then some (sign * (m : Rat) * pow2 (-1074))
  else some (sign * ((4503599627370496 + m : Nat) : Rat) * pow2 ((e : Int) - 1075))

/-- `⌊log₂ |x|⌋` for `x ≠ 0` -/
def ilog2 (x : Rat) : Int :=
  let n := x.num.natAbs
  let e : Int := (n.log2 : Int) - (x.den.log2 : Int)
  if pow2 e ≤ absv x then e else e - 1

/-- the spacing of binary32 numbers at `x` (subnormal spacing below 2⁻¹²⁶) -/
def ulp32 (x : Rat) : Rat :=
  if x = 0 then pow2 (-149) else pow2 (max (ilog2 x) (-126) - 23)

/-! ### The contract, evaluated on an implementation's output

  `π`, `q`, `λ` are the exact inputs, `w` the returned tensor (`none` = a non-finite
  component).  The clauses, in the order they are tested:

  * `shape`   K ≥ 1 and the three vectors have the same length;
  * `domain`  (not a failure of the solver: the input is outside the property) `λ > 0`, every `π_i > 0`;
  * `finite`  every component is a finite number;
  * `nonneg`  every component is `≥ 0`;
  * `form`    the weights have the form `λ·π_i/(α − q_i)` for ONE `α`, to the relative
              resolution `res` of the number format: the intervals
              `{α | w_i ∈ [(1−res), (1+res)]·λπ_i/(α − q_i)} = [q_i + λπ_i(1−res)/w_i, q_i + λπ_i(1+res)/w_i]`
              have a common point (in particular `w_i ≠ 0`);
  * `above`   that `α` is above every `q_i`;
  * `sum`     `|Σ w − 1| ≤ tol`.
-/

inductive Clause where
  | shape | domain | finite | nonneg | form | above | sum
  deriving DecidableEq, Repr

def Clause.name : Clause → String
  | .shape => "shape" | .domain => "domain" | .finite => "finite" | .nonneg => "nonneg"
  | .form => "form" | .above => "above" | .sum => "sum"

def maxL : List Rat → Option Rat
  | [] => none
  | x :: xs => some (xs.foldl max x)

def minL : List Rat → Option Rat
  | [] => none
  | x :: xs => some (xs.foldl min x)

def allFinite : List (Option Rat) → Option (List Rat)
  | [] => some []
  | none :: _ => none
  | some x :: xs => (allFinite xs).map (x :: ·)

/-- the interval of `α` compatible with every component, `[max lower, min upper]`
    (meaningful when every `w_i > 0`) -/
def alphaInterval (res lam : Rat) (ps : List (Rat × Rat)) (w : List Rat) : Option (Rat × Rat) :=
  let lows := List.zipWith (fun x wi => x.2 + lam * x.1 * (1 - res) / wi) ps w
  let highs := List.zipWith (fun x wi => x.2 + lam * x.1 * (1 + res) / wi) ps w
  match maxL lows, minL highs with
  | some l, some h => some (l, h)
  | _, _ => none

/-- first clause that fails, or the recovered `α` interval -/
def contractCheck (res : Rat) (pi q : List Rat) (lam : Rat) (w : List (Option Rat))
    (tol : Rat) : Except Clause (Rat × Rat) :=
  if pi.length = 0 ∨ pi.length ≠ q.length ∨ pi.length ≠ w.length then .error .shape
  else if ¬ (0 < lam ∧ pi.all (fun p => decide (0 < p))) then .error .domain
  else match allFinite w with
  | none => .error .finite
  | some wf =>
    if ¬ wf.all (fun x => decide (0 ≤ x)) then .error .nonneg
    else if ¬ wf.all (fun x => decide (0 < x)) then .error .form
    else
      let ps := pi.zip q
      match alphaInterval res lam ps wf with
      | none => .error .shape
      | some (l, h) =>
        if ¬ l ≤ h then .error .form
        else if ¬ ps.all (fun x => decide (x.2 < l)) then .error .above
        else if ¬ absv (wf.sum - 1) ≤ tol then .error .sum
        else .ok (l, h)

/-- `Contract π q λ w tol` at relative resolution `res` -/
def ContractRes (res : Rat) (pi q : List Rat) (lam : Rat) (w : List (Option Rat)) (tol : Rat) : Bool :=
  match contractCheck res pi q lam w tol with
  | .ok _ => true
  | .error _ => false

/-- relative resolution allowed when recovering `α` from float32 weights: four half-ulps
    (`λ·π_i` rounded, `α − q_i` rounded, the quotient rounded, one to spare) -/
def res32 : Rat := 1 / 4194304

/-- the contract predicate of the property, for float32 output tensors -/
def Contract (pi q : List Rat) (lam : Rat) (w : List (Option Rat)) (tol : Rat) : Bool :=
  ContractRes res32 pi q lam w tol

/-! ### The tolerance the property states

  `1e-3` (the solver's own tolerance) + the effect of the solver's resolution `ρ` in `α` on
  the side where the root lies + the rounding of the returned float32 numbers:

  * total above one → the root is above the returned `α`; a solver with resolution `ρ` may
    stop up to `ρ` short of it: allowed excess `g(α) − g(α + ρ)`;
  * total below one → the root is below: allowed deficit `g(α − ρ) − g(α)`, which is
    unbounded (the total is in `(0, 1)`, nothing more can be said) when `α − ρ` is not above
    every `q_i`.

  `ρ` = one float32 ulp of `α` for the native solver, `1e-6` for the Python one (its bracket
  exit; this also covers the float32 rounding of `α` inside `alpha - q`: half the bracket
  plus half an ulp of any `|α| < 8` is below `1e-6`), `0` for `strict`.
-/

inductive SolverKind where
  | native | python | strict
  deriving DecidableEq, Repr

def SolverKind.rho (k : SolverKind) (alpha : Rat) : Rat :=
  match k with
  | .native => ulp32 alpha
  | .python => 1 / 1000000
  | .strict => 0

def qMax (ps : List (Rat × Rat)) : Option Rat := maxL (ps.map (·.2))

/-- the resolution term at `alpha`, on the side selected by `total` -/
def resolutionTerm (rho lam : Rat) (ps : List (Rat × Rat)) (alpha total : Rat) : Rat :=
  if rho = 0 then 0
  else if 1 ≤ total then g lam ps alpha - g lam ps (alpha + rho)
  else match qMax ps with
    | some m => if m < alpha - rho then g lam ps (alpha - rho) - g lam ps alpha else 1
    | none => 1

/-- the `α` interval of an output of the right form, whatever its total -/
def recoverAlpha (pi q : List Rat) (lam : Rat) (w : List (Option Rat)) : Option (Rat × Rat) :=
  match allFinite w with
  | none => none
  | some wf =>
    match contractCheck res32 pi q lam w (absv (wf.sum - 1)) with
    | .ok lh => some lh
    | .error _ => none

/-- the tolerance for an observed output: the `α` used is the midpoint of the recovered
    interval -/
def tolFor (k : SolverKind) (pi q : List Rat) (lam : Rat) (w : List (Option Rat)) : Rat :=
  match allFinite w with
  | none => 0
  | some wf =>
    let total := wf.sum
    let base : Rat := 1 / 1000 + res32 * (if 1 ≤ total then total else 1)
    match recoverAlpha pi q lam w with
    | some (l, h) =>
      let a := (l + h) / 2
      base + resolutionTerm (k.rho a) lam (pi.zip q) a total
    | none => base

/-- the whole check the harness asks for: contract with the stated tolerance -/
def check (k : SolverKind) (pi q : List Rat) (lam : Rat) (w : List (Option Rat)) : Except Clause (Rat × Rat) :=
  contractCheck res32 pi q lam w (tolFor k pi q lam w)

/-! ### Correspondence of an observed output with the exact model

  The exact model has no rounding, the implementations do.  An observed output (its
  recovered `α` interval `[l, h]`, or the fact that the call raised) corresponds to the
  model when it is the model's iterate at the first round where the model's exit test
  holds, where "holds" is decided up to the sensitivity `s_j = g(α_j − ρ) − g(α_j + ρ)` of the
  sum to the resolution `ρ` and a relative margin `1/100` on the two thresholds.  `ρ` is four
  float32 ulps at the magnitude of the bracket ends (a solver that forms the ends and the
  midpoints in float32 has all its iterates shifted by up to a few ulps); for the native
  solver the driver first tries `ρ = 2⁻²⁴ ulp` (a solver that carries `α` in double precision
  follows the exact trajectory) and reports which of the two matched.  Where the resolution can flip a decision of the bisection before any exit
  (`|g(α_j) − 1| ≤ s_j`), the exact model says nothing about the float path: `skip`.
-/

inductive Corr where
  | ok (round : Nat)
  | skip (round : Nat)
  | diverge (why : String)

def sensitivity (lam : Rat) (ps : List (Rat × Rat)) (qm a rho : Rat) : Option Rat :=
  if qm < a - rho then some (g lam ps (a - rho) - g lam ps (a + rho)) else none

/-- `obs = some (l, h)`: the call returned, `α ∈ [l, h]`; `none`: it raised non-convergence.
    `py` selects the Python exit tests. -/
def corrLoop (py : Bool) (lam : Rat) (ps : List (Rat × Rat)) (qm rho : Rat) (obs : Option (Rat × Rat)) :
    Nat → Nat → St Rat → Corr
  | 0, k, _ =>
    match obs with
    | none => .ok k
    | some _ => .diverge "model-noconverge-impl-returned"
  | fuel + 1, k, s =>
    let gj := g lam ps s.a
    let e := absv (gj - 1)
    let margin : Rat := 1 / 100
    let wd := s.hi - s.lo
    match sensitivity lam ps qm s.a rho with
    | none => .skip k
    | some sj =>
      let relaxed := e ≤ sigmaEps * (1 + margin) + sj ∨ (py ∧ wd ≤ widthEps * (1 + margin))
      let strict := e ≤ sigmaEps * (1 - margin) - sj ∨ (py ∧ wd ≤ widthEps * (1 - margin))
      let here : Bool := match obs with
        | some (l, h) => relaxed ∧ l - rho ≤ s.a ∧ s.a ≤ h + rho
        | none => false
      if here then .ok k
      else if strict then
        .diverge (match obs with
          | some _ => s!"model-exits-at-round-{k + 1}-with-another-alpha"
          | none => s!"model-exits-at-round-{k + 1}-impl-raised")
      else if e ≤ sj then .skip k
      else corrLoop py lam ps qm rho obs fuel (k + 1) (s.next gj)

/-- `ulps` = the resolution `ρ` in float32 ulps at the magnitude of the bracket ends -/
def corr (py : Bool) (ulps : Rat) (lam : Rat) (ps : List (Rat × Rat)) (obs : Option (Rat × Rat)) : Corr :=
  match init lam ps, qMax ps with
  | some s, some qm => corrLoop py lam ps qm (ulps * ulp32 (max (absv s.lo) (absv s.hi))) obs 32 0 s
  | _, _ => .diverge "empty"

end Tak.Solver

/-
  Model of python/tak/self_play.py: `Transcript`, `Transcript.results`, `play_one_game`
  (the REPAIRED code: `log.result = None` in the ply-limit branch, `log.result = color` in
  the game-over branch; design/planned_repairs.diff).

  The engine is an oracle: a stream `Nat → Answer` of per-ply answers.  Answer `i` is what
  the `i`-th call of `engine.analyze` / `engine.tree_probs` / `torch.multinomial` produced:
  the root's children (move and position of each), the search probabilities, the root's
  `value` and `simulations`, its `v_zero`, and the index drawn by `torch.multinomial`.
  The loop consumes the head of the stream and hands the tail to the next iteration.

  `outcome` is the adjudication `Position.winner()` in the form
     none           = not over          (`(None, None)`)
     some none      = over, drawn       (`(None, FLATS)`)
     some (some c)  = over, `c` won     (`(c, ROAD|FLATS)`)
  The model is parametric in it (every theorem of C11 holds for any adjudication function);
  `winnerOutcome` below is the instance given by the model of `Position.winner()` of property
  C02 (`Impl.winner`), which is what the driver and the `…_winner` corollaries use.

  The `while True` loop takes fuel; `playOneGame` supplies `ply_limit + 2`, which suffices
  (`Tak.C11.C11_terminates`).  The four `log.X.append(..)` of one iteration are `push`
  (the recursion returns the rest of the log, so `append` in loop order is `cons` here).
-/
import TakVerif.Model.Core
import TakVerif.Model.Move
import TakVerif.Model.Winner

namespace Tak
namespace SelfPlay

/-- `color, over = position.winner()` read the way the loop reads it (`over is not None`
    = the game is over, `color` = the winner or None): the adjudication model of property C02
    (`Impl.winner`, Model/Winner.lean) as the `outcome` argument of `playFrom`. -/
def winnerOutcome (p : Pos) : Option (Option Color) :=
  match Impl.winner p with
  | (color, some _) => some color
  | (_, none) => none

/-- `Transcript` (the `stats` field is not part of the property and is not modelled) -/
structure Transcript where
  positions : List Pos
  moves : List (List Move)
  probs : List (List Rat)
  values : List Rat
  result : Option Color
  deriving Repr, Inhabited

/-- `Transcript()` with `result` set -/
def Transcript.empty (r : Option Color) : Transcript := ⟨[], [], [], [], r⟩

/-- `Transcript.results`:
    `[0]*len(positions)` when `result is None`, else `+1` where the winner is to move, `-1` otherwise -/
def Transcript.results (t : Transcript) : List Rat :=
  match t.result with
  | none => List.replicate t.positions.length 0
  | some c => t.positions.map fun p => if p.toMove = c then 1 else -1

/-- the part of `SelfPlayConfig` that `play_one_game` reads -/
structure SelfPlayConfig where
  size : Nat
  threshold : Rat      -- resignation_threshold
  plyLimit : Int       -- ply_limit
  deriving Repr, Inhabited

/-- what the engine (and the sampler) answered at one ply -/
structure Answer where
  /-- `[(c.move, c.position) for c in tree.children]` -/
  children : List (Move × Pos)
  /-- `engine.tree_probs(tree)` -/
  probs : List Rat
  /-- `tree.value` -/
  value : Rat
  /-- `tree.simulations` -/
  sims : Nat
  /-- `tree.v_zero` -/
  v0 : Rat
  /-- `torch.multinomial(probs, 1).item()` -/
  chosen : Nat
  deriving Repr, Inhabited

/-- how the loop was left -/
inductive Stop where
  | cutoff        -- `position.ply > cfg.ply_limit`
  | decided       -- `position.winner()` says the game is over
  | resigned      -- `abs(tree.v_zero) >= cfg.resignation_threshold`
  | crashed       -- `tree.children[i]` with `i` out of range (IndexError escapes)
  | outOfFuel     -- the model's fuel ran out (never, see `C11_terminates`)
  deriving DecidableEq, Repr, Inhabited

/-- the loop was left through one of its three `break`s -/
def Stop.normal : Stop → Prop
  | .cutoff | .decided | .resigned => True
  | .crashed | .outOfFuel => False

structure Run where
  log : Transcript
  stop : Stop
  deriving Repr, Inhabited

/-- the four appends of one iteration:
    `log.positions.append(position)`, `log.moves.append([c.move for c in tree.children])`,
    `log.probs.append(probs.numpy())`, `log.values.append(tree.value / tree.simulations)` -/
def Transcript.push (p : Pos) (a : Answer) (t : Transcript) : Transcript :=
  { t with positions := p :: t.positions,
           moves := a.children.map (·.1) :: t.moves,
           probs := a.probs :: t.probs,
           values := a.value / (a.sims : Rat) :: t.values }

/-- the tail of the oracle stream -/
def tail (oracle : Nat → Answer) : Nat → Answer := fun i => oracle (i + 1)

/-- the `while True:` loop of `play_one_game`, entered with `position = p` -/
def playFrom (cfg : SelfPlayConfig) (outcome : Pos → Option (Option Color)) :
    Nat → (Nat → Answer) → Pos → Run
  | 0, _, _ => ⟨Transcript.empty none, .outOfFuel⟩
  | fuel + 1, oracle, p =>
    if p.ply > cfg.plyLimit then                          -- `if position.ply > cfg.ply_limit:`
      ⟨Transcript.empty none, .cutoff⟩                    --   `log.result = None; break`
    else
      match outcome p with                                -- `color, over = position.winner()`
      | some color =>                                     -- `if over is not None:`
        ⟨Transcript.empty color, .decided⟩                --   `log.result = color; break`
      | none =>
        let a := oracle 0                                 -- `tree = engine.analyze(position)` …
        if a.v0.abs ≥ cfg.threshold then                  -- `if abs(tree.v_zero) >= cfg.resignation_threshold:`
          let r := if a.v0 ≥ cfg.threshold then p.toMove  --   `log.result = position.to_move()`
                   else p.toMove.flip                     --   `log.result = position.to_move().flip()`
          ⟨(Transcript.empty (some r)).push p a, .resigned⟩
        else
          match a.children[a.chosen]? with                -- `tree.children[torch.multinomial(probs, 1).item()]`
          | none => ⟨(Transcript.empty none).push p a, .crashed⟩
          | some c =>
            let rest := playFrom cfg outcome fuel (tail oracle) c.2   -- `position = ….position`
            ⟨rest.log.push p a, rest.stop⟩

/-- `Position.from_config(Config(size=cfg.size))` -/
def initialPos (size : Nat) : Pos := Pos.fromConfig (Config.standard size)

/-- fuel handed to the loop -/
def fuelFor (cfg : SelfPlayConfig) : Nat := cfg.plyLimit.toNat + 2

/-- `play_one_game(cfg, engine)` together with the way the loop was left -/
def playRun (cfg : SelfPlayConfig) (outcome : Pos → Option (Option Color)) (oracle : Nat → Answer) : Run :=
  playFrom cfg outcome (fuelFor cfg) oracle (initialPos cfg.size)

/-- `play_one_game(cfg, engine)` -/
def playOneGame (cfg : SelfPlayConfig) (outcome : Pos → Option (Option Color)) (oracle : Nat → Answer) :
    Transcript :=
  (playRun cfg outcome oracle).log

end SelfPlay
end Tak

/-
  Model of python/tak/ptn/tps.py (REPAIRED parser: the tps.py hunk of
  design/planned_repairs.diff) over `List Char`.  No Mathlib.

  * `splitOn sep s`   = Python `s.split(sep)` for a one-character separator
  * `joinSep sep xs`  = Python `sep.join(xs)`
  * `natStr`/`intStr` = Python `str(int)`;  `decVal` = Python `int(s)` on a string that has
                        passed `s.isascii() and s.isdigit()`
  * `formatTPS`       = `format_tps` (`_format_row`'s run-length loop with fuel = `len(row)`,
                        `_format_square`)
  * `parseTPS`        = `parse_tps` / `parse_row`; result `Except TPSErr Pos`:
                        `illegal` = `IllegalTPS`, `crash cls` = any other exception class.
                        The places where the Python text could raise something else
                        (`Position.from_squares`' `ValueError`) are kept as explicit `crash`
                        branches; `C13_no_crash` proves them unreachable.

  Data refinement, stated once: Python's `stack` list in `parse_row` is bottom-first
  (`append`, `stack[-1]`, finally `list(reversed(stack))`); the model carries the same
  stack TOP-first (cons, head, returned as is), which is the representation of `Stack`
  everywhere in the model.

  Not modelled: CPython refuses `int(s)` for more than `sys.get_int_max_str_digits()`
  (default 4300) digits (the repaired code turns that `ValueError` into `IllegalTPS`);
  `decVal` is unbounded.  The harness demands only "no crash" for such move numbers.
-/
import TakVerif.Model.Core

namespace Tak.TPS

abbrev TPSErr := Err

/-- Python `s.split(sep)`, `sep` one character: always at least one piece. -/
def splitOn (sep : Char) : List Char → List (List Char)
  | [] => [[]]
  | c :: cs =>
    if c = sep then [] :: splitOn sep cs
    else match splitOn sep cs with
      | [] => [[c]]
      | h :: t => (c :: h) :: t

/-- Python `sep.join(parts)` -/
def joinSep (sep : Char) : List (List Char) → List Char
  | [] => []
  | [a] => a
  | a :: b :: r => a ++ sep :: joinSep sep (b :: r)

/-- `str(n)` for `n ≥ 0` -/
def natStr (n : Nat) : List Char := Nat.toDigits 10 n

/-- `str(i)` -/
def intStr (i : Int) : List Char :=
  if i < 0 then '-' :: natStr i.natAbs else natStr i.toNat

/-- `int(s)` for a string of ASCII digits -/
def decVal (s : List Char) : Nat := Nat.ofDigitChars 10 s 0

/-! ### format_tps -/

def colorChar : Color → Char
  | .white => '1'
  | .black => '2'

/-- `_format_square(sq)`; only called on a non-empty square -/
def formatSquare (sq : Stack) : List Char :=
  (sq.reverse.map fun p => colorChar p.color) ++
    (match sq.head? with
     | some ⟨_, .standing⟩ => ['S']
     | some ⟨_, .cap⟩ => ['C']
     | _ => [])

/-- the inner `while i + x < len(row) and row[i + x] == []: x += 1`, on the rest of the row -/
def countEmpty : List Stack → Nat
  | [] :: r => countEmpty r + 1
  | _ => 0

/-- the outer `while i < len(row)` loop of `_format_row`, on the rest `row[i:]`;
    fuel = number of iterations allowed (`len(row)` suffices: `i` grows every time) -/
def formatItems : Nat → List Stack → List (List Char)
  | 0, _ => []
  | fuel + 1, row =>
    match row with
    | [] => []
    | sq :: _ =>
      let x := countEmpty row
      if x > 0 then
        ('x' :: (if x > 1 then natStr x else [])) :: formatItems fuel (row.drop x)
      else
        formatSquare sq :: formatItems fuel (row.drop 1)

/-- `_format_row(row)` -/
def formatRow (row : List Stack) : List Char :=
  joinSep ',' (formatItems row.length row)

/-- `format_tps(pos)` -/
def formatTPS (p : Pos) : List Char :=
  let rows := (List.range p.size).map fun r =>
    formatRow ((p.board.drop (r * p.size)).take p.size)
  joinSep ' ' [joinSep '/' rows.reverse, intStr (p.ply % 2 + 1), intStr (p.ply / 2 + 1)]

/-! ### parse_tps (repaired) -/

/-- the `for i, c in enumerate(b)` loop of `parse_row`; `i != len(b) - 1` is
    "characters remain after `c`"; `st` is the stack so far, top first -/
def parseStack : List Char → Stack → Except TPSErr Stack
  | [], st => .ok st
  | c :: rest, st =>
    if (c = 'C' ∨ c = 'S') ∧ rest ≠ [] then .error .illegal
    else if c = '1' then parseStack rest (⟨.white, .flat⟩ :: st)
    else if c = '2' then parseStack rest (⟨.black, .flat⟩ :: st)
    else if c = 'C' ∨ c = 'S' then
      match st with
      | [] => .error .illegal                         -- bare capstone or standing
      | top :: below =>
        parseStack rest (⟨top.color, if c = 'C' then .cap else .standing⟩ :: below)
    else .error .illegal                              -- bad character

/-- one item `b` of a row: the squares it contributes -/
def parseItem (b : List Char) : Except TPSErr (List Stack) :=
  match b with
  | [] => .error .illegal                             -- empty square
  | c0 :: b1 =>
    if c0 = 'x' then
      match b1 with
      | [] => .ok [[]]
      | [d] =>
        if d ∈ ['1', '2', '3', '4', '5', '6', '7', '8'] then
          .ok (List.replicate (decVal [d]) [])
        else .error .illegal                          -- bad empty-square count
      | _ => .error .illegal
    else
      match parseStack b [] with
      | .error e => .error e
      | .ok st => .ok [st]

/-- `for b in bits` of `parse_row` with `squares` as accumulator -/
def parseItems : List (List Char) → List Stack → Except TPSErr (List Stack)
  | [], sqs => .ok sqs
  | b :: bs, sqs =>
    match parseItem b with
    | .error e => .error e
    | .ok s => parseItems bs (sqs ++ s)

/-- `parse_row(rtext)` -/
def parseRow (r : List Char) : Except TPSErr (List Stack) :=
  parseItems (splitOn ',' r) []

/-- `for row in reversed(rows)` of `parse_tps`; `n = len(rows)` -/
def parseRows (n : Nat) : List (List Char) → List Stack → Except TPSErr (List Stack)
  | [], sqs => .ok sqs
  | r :: rs, sqs =>
    match parseRow r with
    | .error e => .error e
    | .ok rsq =>
      if rsq.length ≠ n then .error .illegal            -- inconsistent size
      else parseRows n rs (sqs ++ rsq)

/-- `move.isascii() and move.isdigit()` -/
def isDigits (s : List Char) : Bool := !s.isEmpty && s.all Char.isDigit

/-- `parse_tps(tps)` -/
def parseTPS (t : List Char) : Except TPSErr Pos :=
  match splitOn ' ' t with
  | [board, who, move] =>
    if who ≠ ['1'] ∧ who ≠ ['2'] then .error .illegal
    else if !isDigits move || decVal move < 1 then .error .illegal
    else
      let ply : Int := 2 * ((decVal move : Int) - 1) + (decVal who : Int) - 1
      let rows := splitOn '/' board
      if ¬ (3 ≤ rows.length ∧ rows.length ≤ 8) then .error .illegal
      else
        match parseRows rows.length rows.reverse [] with
        | .error e => .error e
        | .ok squares =>
          match Pos.fromSquares (Config.standard rows.length) squares ply with
          | none => .error (.crash "ValueError")
          | some p => .ok p
  | _ => .error .illegal                                -- need three components

end Tak.TPS

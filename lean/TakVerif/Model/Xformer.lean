/-
  Model of `/repo/python/xformer/model.py` (`Transformer.forward`), the `PolicyValue` head
  (`tak/model/heads.py`), `ModelWrapper.evaluate` (`tak/model/wrapper.py`) and of the three
  ways the code builds a key-padding mask (`tak/model/batches.py`, `tak/alphazero/data.py`,
  `tak/model/server.py`).  Mathlib-free; generic over a scalar class so that the SAME
  definitions are executed on `Float` by the driver (numerical tie with torch) and reasoned
  about on `ℝ` (`Props/C16.lean`).

  What is mirrored (read off model.py and torch's `nn.MultiheadAttention(batch_first=True)`):

  * `TextEmbedding`: `embedding(tokens)` then the positional encoding `x + pe[: x.size(1)]`
    (`sin`: table computed from sin/cos; `learned`: a parameter table; `none`: identity).
    The encoding of a token depends on its INDEX in the row only.
  * `Torso`: `n_layer` × `Resblock`, each pre-LN:
      `resid + attn(attn_ln(resid))`, then `resid + mlp_down(relu(mlp_up(mlp_ln(resid))))`.
    `attn_mask = triu(ones(n,n), diagonal=1)` when `cfg.autoregressive_mask` (True = NOT
    allowed, i.e. key j is hidden from query i iff j > i); `key_padding_mask` True = ignore key.
  * `nn.MultiheadAttention`: packed in-projection `in_proj_weight` rows `[q; k; v]` with bias,
    heads are contiguous `d_head` slices, `q · sqrt(1/d_head)`, scores `q kᵀ`, both masks
    merged into an additive `-inf` mask, softmax over keys, `bmm` with `v`, heads concatenated,
    out-projection with bias.
  * Layer norm: biased variance, eps `1e-5`, elementwise affine.
  * Heads: `TextUnembedding` = final LN then linear on every token; `PolicyValue` = final LN,
    token 0, `tanh(v_proj)` and `move_proj`.  `ModelWrapper.evaluate` = softmax of the move
    logits + the value.

  Masking by EXCLUSION instead of by adding `-inf`.  torch adds `-inf` to the score of every
  hidden key and then takes an ordinary softmax.  Over the extended reals `s + (-inf) = -inf`
  and `exp(-inf) = 0`; the row maximum that the softmax kernel subtracts is the maximum of the
  visible scores as soon as one key is visible.  So a hidden key has softmax numerator exactly
  `0`, adds exactly `0` to the denominator and its value vector is multiplied by exactly `0`.
  The model says this directly: every key carries a boolean `allowed`; a key that is not
  allowed gets numerator `0` (`maskedSoftmax`), is skipped by the running maximum
  (`maskedMax`), but is STILL summed over (dense formulation: `0` is added, `0 * v` is added).
  This avoids needing an `-inf` element in the scalar class.  On IEEE doubles the two agree bit
  for bit whenever the value vectors are finite (`exp(-inf) = +0`, `x + 0 = x`, `0 * v = ±0`);
  on `ℝ` the equivalence with the additive formulation over `WithBot ℝ` is the theorem
  `C16_additive_neg_inf`, and that the hidden keys are inert is `C16_masked_keys_inert`.
  Only difference: a query that sees NO key gives `nan` in torch and `0/0` here (`nan` on
  `Float`, `0` on `ℝ`); it cannot happen for a real token (it sees itself).

  Totalised accessors (`getD`, `zipWith` truncation) stand for torch's shape errors; the
  function `Model.accepts` says when torch runs without raising, and `hidden?` / `forwardText?`
  / `forwardPV?` are the guarded versions.
-/

namespace Tak.Xformer

/-- the scalar operations the forward pass needs -/
class Scalar (α : Type) extends Add α, Sub α, Mul α, Div α, Neg α, Zero α, One α where
  ofNat : Nat → α
  exp : α → α
  log : α → α
  sqrt : α → α
  tanh : α → α
  sin : α → α
  cos : α → α
  /-- strict order test (used by ReLU and by the running maximum of softmax) -/
  lt : α → α → Bool

section
variable {α : Type} [Scalar α]

/-! ### per-token building blocks -/

def dot (a b : List α) : α := (List.zipWith (· * ·) a b).sum

def vadd (a b : List α) : List α := List.zipWith (· + ·) a b

def smax (a b : α) : α := if Scalar.lt a b then b else a

/-- `nn.ReLU` -/
def relu (x : α) : α := if Scalar.lt 0 x then x else 0

/-- `nn.Linear`: `w` has one row per output feature -/
structure Linear (α : Type) where
  w : List (List α)
  b : List α

def Linear.apply (L : Linear α) (x : List α) : List α :=
  List.zipWith (fun row b => dot row x + b) L.w L.b

structure LayerNorm (α : Type) where
  w : List α
  b : List α

/-- eps of `nn.LayerNorm` (default `1e-5`; `1/100000` is the same double) -/
def lnEps : α := Scalar.ofNat 1 / Scalar.ofNat 100000

def mean (x : List α) : α := x.sum / Scalar.ofNat x.length

/-- `nn.LayerNorm(d_model)`: biased variance, eps inside the square root, affine -/
def LayerNorm.apply (L : LayerNorm α) (x : List α) : List α :=
  let mu := mean x
  let c := x.map (· - mu)
  let var := mean (c.map (fun t => t * t))
  let r := Scalar.sqrt (var + lnEps)
  List.zipWith (fun t wb => t / r * wb.1 + wb.2) c (L.w.zip L.b)

/-! ### softmax with a boolean mask -/

/-- maximum of the allowed scores; `none` when no score is allowed -/
def maskedMax : List (Bool × α) → Option α
  | [] => none
  | (a, s) :: r =>
    match maskedMax r with
    | none => if a then some s else none
    | some m => if a then some (smax s m) else some m

/-- softmax over the allowed entries; an entry that is not allowed has weight `0` (and is
    still part of every sum).  The kernel's max-subtraction is kept. -/
def maskedSoftmax (l : List (Bool × α)) : List α :=
  let m := (maskedMax l).getD 0
  let e := l.map (fun p => if p.1 then Scalar.exp (p.2 - m) else 0)
  let z := e.sum
  e.map (· / z)

/-- `torch.softmax` -/
def softmax (l : List α) : List α := maskedSoftmax (l.map (fun s => (true, s)))

/-! ### attention -/

/-- one key as seen by one query of one head: is it visible, its key and value slices -/
abbrev Key (α : Type) := Bool × List α × List α

/-- one head, one query: `softmax(q·scale · kᵀ + mask) · v`, output of width `dHead` -/
def attnHead (dHead : Nat) (scale : α) (q : List α) (keys : List (Key α)) : List α :=
  let qs := q.map (· * scale)
  let p := maskedSoftmax (keys.map (fun k => (k.1, dot qs k.2.1)))
  (List.range dHead).map (fun c => (List.zipWith (fun w k => w * k.2.2.getD c 0) p keys).sum)

/-- is key `j` visible to query `i`?  `key_padding_mask[j]` True hides the key; the causal
    mask `triu(diagonal=1)` hides `j > i`. -/
def allowed (causal : Bool) (mask : Option (List Bool)) (i j : Nat) : Bool :=
  (!(match mask with
     | none => false
     | some m => m.getD j false)) && (!causal || decide (j ≤ i))

/-- head `h` is the contiguous slice `[h*dHead, (h+1)*dHead)` -/
def slice (dHead h : Nat) (v : List α) : List α := (v.drop (h * dHead)).take dHead

/-- `sqrt(1 / d_head)` (torch: `q_scaled = q * math.sqrt(1.0 / float(E))`) -/
def attnScale (dHead : Nat) : α := Scalar.sqrt (Scalar.ofNat 1 / Scalar.ofNat dHead)

/-- all heads for query `i` (its projected `q`), against the projected `(k, v)` of every token
    of the row; heads concatenated -/
def mhaQuery (nHead dHead : Nat) (causal : Bool) (mask : Option (List Bool))
    (kvs : List (List α × List α)) (i : Nat) (q : List α) : List α :=
  (List.range nHead).flatMap (fun h =>
    attnHead dHead (attnScale dHead) (slice dHead h q)
      (kvs.mapIdx (fun j kv => (allowed causal mask i j, slice dHead h kv.1, slice dHead h kv.2))))

structure Block (α : Type) where
  attnLn : LayerNorm α
  /-- `in_proj_weight` (3·d_model rows: q, k, v) and `in_proj_bias` -/
  inProj : Linear α
  outProj : Linear α
  mlpLn : LayerNorm α
  mlpUp : Linear α
  mlpDown : Linear α

/-- the MLP half of a `Resblock`, one token -/
def Block.mlp (B : Block α) (r : List α) : List α :=
  vadd r (B.mlpDown.apply ((B.mlpUp.apply (B.mlpLn.apply r)).map relu))

/-- `nn.MultiheadAttention` on a row of tokens (self-attention), before the residual add -/
def Block.attn (B : Block α) (nHead dHead : Nat) (causal : Bool) (mask : Option (List Bool))
    (xs : List (List α)) : List (List α) :=
  let d := nHead * dHead
  let qkv := xs.map (fun x => B.inProj.apply (B.attnLn.apply x))
  let kvs := qkv.map (fun r => ((r.drop d).take d, r.drop (2 * d)))
  (qkv.mapIdx (fun i r => mhaQuery nHead dHead causal mask kvs i (r.take d))).map B.outProj.apply

/-- `Resblock.forward` on one row -/
def Block.apply (B : Block α) (nHead dHead : Nat) (causal : Bool) (mask : Option (List Bool))
    (xs : List (List α)) : List (List α) :=
  (List.zipWith vadd xs (B.attn nHead dHead causal mask xs)).map B.mlp

/-! ### embedding, torso, heads -/

inductive PosEnc (α : Type) where
  | none
  | learned (pe : List (List α))
  | sin

/-- row `i` of `PositionalEncoding.pe` for width `d`:
    `pe[i, 2k] = sin(i · e_k)`, `pe[i, 2k+1] = cos(i · e_k)`, `e_k = exp(2k · (−ln 10000 / d))` -/
def sinRow (d i : Nat) : List α :=
  (List.range d).map (fun c =>
    let e : α := Scalar.exp (Scalar.ofNat (2 * (c / 2)) * (-(Scalar.log (Scalar.ofNat 10000)) / Scalar.ofNat d))
    if c % 2 = 0 then Scalar.sin (Scalar.ofNat i * e) else Scalar.cos (Scalar.ofNat i * e))

/-- positional encoding applied to the embedding `x` of the token at index `i` -/
def PosEnc.add (p : PosEnc α) (d i : Nat) (x : List α) : List α :=
  match p with
  | .none => x
  | .learned pe => vadd x (pe.getD i [])
  | .sin => vadd x (sinRow d i)

/-- `xformer.Config` + the parameters of `TextEmbedding` and `Torso` -/
structure Model (α : Type) where
  nVocab : Nat
  nCtx : Nat
  nHead : Nat
  dHead : Nat
  /-- `cfg.autoregressive_mask` -/
  causal : Bool
  pos : PosEnc α
  emb : List (List α)
  blocks : List (Block α)

def Model.dModel (M : Model α) : Nat := M.nHead * M.dHead

/-- `TextEmbedding.forward` on one row -/
def Model.embed (M : Model α) (toks : List Nat) : List (List α) :=
  toks.mapIdx (fun i t => M.pos.add M.dModel i (M.emb.getD t []))

/-- `Torso.forward` on one row -/
def torso (blocks : List (Block α)) (nHead dHead : Nat) (causal : Bool) (mask : Option (List Bool))
    (xs : List (List α)) : List (List α) :=
  blocks.foldl (fun acts B => B.apply nHead dHead causal mask acts) xs

/-- activations after the last block (input of the output head), one vector per token -/
def Model.hidden (M : Model α) (toks : List Nat) (mask : Option (List Bool)) : List (List α) :=
  torso M.blocks M.nHead M.dHead M.causal mask (M.embed toks)

/-- `TextUnembedding` -/
structure TextHead (α : Type) where
  ln : LayerNorm α
  unemb : Linear α

/-- `tak.model.heads.PolicyValue` -/
structure PVHead (α : Type) where
  ln : LayerNorm α
  vProj : Linear α
  moveProj : Linear α

/-- `Transformer.forward` with the text head: logits for every token -/
def forwardText (M : Model α) (H : TextHead α) (toks : List Nat) (mask : Option (List Bool)) :
    List (List α) :=
  (M.hidden toks mask).map (fun x => H.unemb.apply (H.ln.apply x))

/-- `PolicyValue.forward` on the torso output: final LN, token 0, (value, move logits) -/
def PVHead.apply (H : PVHead α) (acts : List (List α)) : α × List α :=
  let a := (acts.map H.ln.apply).headD []
  (Scalar.tanh ((H.vProj.apply a).headD 0), H.moveProj.apply a)

/-- `Transformer.forward` with the `PolicyValue` head: `(values[i], moves[i])` of one row -/
def forwardPV (M : Model α) (H : PVHead α) (toks : List Nat) (mask : Option (List Bool)) : α × List α :=
  H.apply (M.hidden toks mask)

/-- `ModelWrapper.evaluate`: one unpadded row, NO mask; softmax over all move ids, value -/
def evaluate (M : Model α) (H : PVHead α) (toks : List Nat) : List α × α :=
  let out := forwardPV M H toks none
  (softmax out.2, out.1)

/-- torch evaluates the rows of a batch independently (trusted: `nn.Linear`, `nn.LayerNorm`,
    `nn.MultiheadAttention` have no cross-row term); a batch is a list of rows of equal width
    with one mask row each (or no mask at all) -/
def forwardPVBatch (M : Model α) (H : PVHead α) (rows : List (List Nat)) (masks : Option (List (List Bool))) :
    List (α × List α) :=
  match masks with
  | none => rows.map (fun r => forwardPV M H r none)
  | some ms => List.zipWith (fun r m => forwardPV M H r (some m)) rows ms

def forwardTextBatch (M : Model α) (H : TextHead α) (rows : List (List Nat)) (masks : Option (List (List Bool))) :
    List (List (List α)) :=
  match masks with
  | none => rows.map (fun r => forwardText M H r none)
  | some ms => List.zipWith (fun r m => forwardText M H r (some m)) rows ms

/-! ### when torch accepts the input (no shape / index error) -/

def Linear.shapeOK (L : Linear α) (nOut nIn : Nat) : Bool :=
  L.w.length == nOut && L.b.length == nOut && L.w.all (·.length == nIn)

def LayerNorm.shapeOK (L : LayerNorm α) (d : Nat) : Bool := L.w.length == d && L.b.length == d

def Block.shapeOK (B : Block α) (d : Nat) : Bool :=
  B.attnLn.shapeOK d && B.inProj.shapeOK (3 * d) d && B.outProj.shapeOK d d &&
  B.mlpLn.shapeOK d && B.mlpUp.shapeOK (4 * d) d && B.mlpDown.shapeOK d (4 * d)

def Model.shapeOK (M : Model α) : Bool :=
  0 < M.dHead && M.emb.length == M.nVocab && M.emb.all (·.length == M.dModel) &&
  M.blocks.all (·.shapeOK M.dModel) &&
  (match M.pos with
   | .none => true
   | .learned pe => pe.length == M.nCtx && pe.all (·.length == M.dModel)
   | .sin => M.dModel % 2 == 0)

/-- `Transformer.forward(tokens, padding_mask)` runs without raising on this row -/
def Model.accepts (M : Model α) (toks : List Nat) (mask : Option (List Bool)) : Bool :=
  M.shapeOK && toks.all (· < M.nVocab) &&
  (toks.length ≤ M.nCtx || (!M.causal && (match M.pos with | .none => true | _ => false))) &&
  (match mask with
   | none => true
   | some m => m.length == toks.length)

def Model.hidden? (M : Model α) (toks : List Nat) (mask : Option (List Bool)) : Option (List (List α)) :=
  if M.accepts toks mask then some (M.hidden toks mask) else none

def forwardText? (M : Model α) (H : TextHead α) (toks : List Nat) (mask : Option (List Bool)) :
    Option (List (List α)) :=
  if M.accepts toks mask && H.ln.shapeOK M.dModel && H.unemb.w.all (·.length == M.dModel)
      && H.unemb.w.length == H.unemb.b.length then
    some (forwardText M H toks mask) else none

/-- additionally needs a token 0 to read out (`[:, 0]` raises on an empty row) -/
def forwardPV? (M : Model α) (H : PVHead α) (toks : List Nat) (mask : Option (List Bool)) :
    Option (α × List α) :=
  if M.accepts toks mask && !toks.isEmpty && H.ln.shapeOK M.dModel && H.vProj.shapeOK 1 M.dModel
      && H.moveProj.w.all (·.length == M.dModel) && H.moveProj.w.length == H.moveProj.b.length then
    some (forwardPV M H toks mask) else none

end

/-! ### the mask-building call sites (no scalars involved) -/

/-- the key-padding mask the property speaks of: `n` real tokens, then `p` padded ones -/
def padMask (n p : Nat) : List Bool := List.replicate n false ++ List.replicate p true

/-- pad a row with `fill` up to `width` (`out[i, :len] = encoded`, rest of the `zeros` tensor) -/
def padRow (width fill : Nat) (row : List Nat) : List Nat := row ++ List.replicate (width - row.length) fill

def maxLen (rows : List (List Nat)) : Nat := rows.foldl (fun m r => max m r.length) 0

/-- `encoding._encode_batch`: rows zero-padded to the longest one; `mask[i, :len_i] = 1`
    (True = REAL token) -/
def encodeBatch (rows : List (List Nat)) : List (List Nat) × List (List Bool) :=
  let w := maxLen rows
  (rows.map (padRow w 0),
   rows.map (fun r => List.replicate r.length true ++ List.replicate (w - r.length) false))

/-- `PositionValuePolicy.extra_inputs`, `Position.extra_inputs`, `ReplayBufferBatch.extra_inputs`:
    `(~mask,)` -/
def extraInputs (mask : List (List Bool)) : List (List Bool) := mask.map (·.map (!·))

/-- `ReplayBufferDataset.cat_replay_buffer` widening one stored row to `maxwidth`:
    positions with `0`, mask with `False` (not real) -/
def widenRow (maxwidth : Nat) (row : List Nat) (m : List Bool) : List Nat × List Bool :=
  (row ++ List.replicate (maxwidth - row.length) 0, m ++ List.replicate (maxwidth - m.length) false)

/-- `Server.worker_loop.run_model`: `positions = zeros(len(batch), maxlen)`,
    `positions[i, :len] = b.position`, `mask = zeros(bool)`, `mask[i, len:] = 1` -/
def serverBatch (rows : List (List Nat)) : List (List Nat) × List (List Bool) :=
  let w := maxLen rows
  (rows.map (padRow w 0),
   rows.map (fun r => (List.replicate w false).take r.length ++ List.replicate (w - r.length) true))

end Tak.Xformer

/-
  Training batches and datasets:
    python/tak/self_play.py        `Transcript.results`, `Transcript.logits`, `encode_games`
    python/tak/model/encoding.py   `_encode_batch` (the growing-width loop; local copy, see below)
    python/tak/alphazero/trainer.py `dedup_batch`
    python/tak/alphazero/data.py   `ReplayBufferDataset` (`cat_replay_buffer`, `__iter__`)
    python/xformer/data/__init__.py `Dataset` (`__attrs_post_init__`, `_next_epoch`,
                                    `fastforward_epochs`, `__iter__`, `__getstate__/__setstate__`)

  * search probabilities, values, labels and every averaged target are `Rat`;
  * a tensor of shape (N, …) is the list of its N rows; for `dedup_batch` the non-key columns of a
    row (`moves`, `values`, `results`, …) are flattened and concatenated into one vector `tgt`
    (the code treats them element-wise: `+=` and `/= counts`);
  * the token encoding of a position is a PARAMETER `enc : Pos → List Nat` of `encodeGames`;
    `Batch.encodeTokens` below is a local copy of `encoding.encode(p)` for the driver and
    `Batch.encodeBatch` a local copy of `_encode_batch`; Lemmas/BatchTokens.lean proves them equal to
    `Tak.Tokens.encode · true` and `Tak.Tokens.encodeBatch` of the C06 model (Model/Tokens.lean);
  * `torch.randperm` / `torch.Generator` are oracles (`RNG`); the permutation is an input.
  No Mathlib imports (the driver is a native executable).
-/
import TakVerif.Model.Core
import TakVerif.Model.Gen

namespace Tak
namespace Batch

/-! ## small tensor helpers -/

/-- `dst[:len(src)] = src` for `len(src) ≤ len(dst)` -/
def writePrefix {α : Type} (dst src : List α) : List α := src ++ dst.drop src.length

/-- element-wise `a += b` on rows of equal width -/
def vadd (a b : List Rat) : List Rat := List.zipWith (· + ·) a b

/-- all results when none of them is an exception -/
def allSome {α : Type} : List (Option α) → Option (List α)
  | [] => some []
  | none :: _ => none
  | some a :: l => (allSome l).map (a :: ·)

/-! ## `_encode_batch` / `encode_batch` (on the already encoded rows) -/

/-- state of the first loop of `_encode_batch`: `out` as its rows, `out.size(1)`, `lens` -/
structure EBState where
  out : List (List Nat)
  width : Nat
  lens : List Nat
  deriving Repr, DecidableEq

/-- one iteration `for (i, p) in enumerate(inputs)` with `encoded = encode_one(p)` -/
def ebStep (st : EBState) (i : Nat) (encoded : List Nat) : EBState :=
  let st :=
    if encoded.length > st.width then
      -- tmp = zeros((rows, len(encoded))); tmp[:, :width] = out; out = tmp
      { st with out := st.out.map (fun row => writePrefix (List.replicate encoded.length 0) row),
                width := encoded.length }
    else st
  -- out[i, :len(encoded)] = encoded; lens[i] = len(encoded)
  { st with out := st.out.modify i (fun row => writePrefix row encoded),
            lens := st.lens.set i encoded.length }

def ebLoop : EBState → Nat → List (List Nat) → EBState
  | st, _, [] => st
  | st, i, e :: rest => ebLoop (ebStep st i e) (i + 1) rest

/-- `_encode_batch(inputs, encode_one, uint8)` applied to the list of `encode_one(p)`: (out, mask) -/
def encodeBatch (rows : List (List Nat)) : List (List Nat) × List (List Bool) :=
  let n := rows.length
  let st := ebLoop ⟨List.replicate n [], 0, List.replicate n 0⟩ 0 rows
  -- mask = zeros_like(out, bool); for i, l in enumerate(lens): mask[i, :l] = 1
  let mask := st.lens.map fun l =>
    writePrefix (List.replicate st.width false) (List.replicate l true)
  (st.out, mask)

/-! ## `Transcript` -/

structure Transcript where
  positions : List Pos
  /-- `moves[i]`: the candidate moves (children of the root) at ply `i` -/
  moves : List (List Move)
  /-- `probs[i][j]`: search probability of `moves[i][j]` -/
  probs : List (List Rat)
  values : List Rat
  result : Option Color
  deriving Repr

/-- `Transcript.results` -/
def Transcript.results (t : Transcript) : List Int :=
  match t.result with
  | none => List.replicate t.positions.length 0
  | some c => t.positions.map fun p => if p.toMove = c then 1 else -1

/-- `MOVES_TO_ID[size][m]` on the table of the size (`none`: KeyError); the table is passed in so
    that it is built once per transcript, as the Python builds it once per process -/
def encodeIn (table : List Move) (m : Move) : Option Nat := Gen.lastIdxOf m table

theorem encodeIn_table (size : Nat) (m : Move) :
    encodeIn (Gen.allMovesForSize size) m = Gen.encodeMove size m := rfl

/-- `MAX_MOVE_ID = len(MOVES_BY_SIZE[-1])`, `MOVES_BY_SIZE = [… for s in range(7)]` -/
def maxMoveId : Nat := (Gen.allMovesForSize 6).length

/-- inner loop `for (j, mid) in enumerate(self.moves[i]): np_view[i, encode_move(size, mid)] = self.probs[i][j]`
    on one row of width `W`.  `none`: KeyError (move not in the table), IndexError (`probs[i][j]`,
    column outside the row). -/
def scatter (table : List Move) (W : Nat) (probs : List Rat) :
    List Move → Nat → List Rat → Option (List Rat)
  | [], _, row => some row
  | m :: ms, j, row =>
    match encodeIn table m, probs[j]? with
    | some id, some p => if id < W then scatter table W probs ms (j + 1) (row.set id p) else none
    | _, _ => none

/-- `Transcript.logits` with head width `W` (`encoding.MAX_MOVE_ID` in the code).
    `none`: an exception (`positions[0]` on an empty transcript, `probs[i]` missing, KeyError …). -/
def Transcript.logits (t : Transcript) (W : Nat) : Option (List (List Rat)) :=
  match t.positions with
  | [] => none
  | p0 :: _ =>
    let table := Gen.allMovesForSize p0.size
    allSome <| t.moves.zipIdx.map fun (ms, i) =>
      match t.probs[i]? with
      | some ps => scatter table W ps ms 0 (List.replicate W 0)
      | none => if ms.isEmpty then some (List.replicate W 0) else none

/-! ## `encode_games` -/

structure GameBatch where
  positions : List (List Nat)
  mask : List (List Bool)
  moves : List (List Rat)
  values : List Rat
  results : List Rat
  deriving Repr

/-- `encode_games(logs)`; `none`: an exception (`torch.cat([])`, a failing `logits`). -/
def encodeGames (enc : Pos → List Nat) (W : Nat) (logs : List Transcript) : Option GameBatch :=
  let allPositions := logs.flatMap (·.positions)
  let allValues := logs.flatMap (·.values)
  if logs.isEmpty then none else
  match allSome (logs.map (·.logits W)) with
  | none => none
  | some ls =>
    let allResults := logs.flatMap (·.results)
    let (encoded, mask) := encodeBatch (allPositions.map enc)
    some ⟨encoded, mask, ls.flatten, allValues, allResults.map fun (r : Int) => (r : Rat)⟩

/-! ## `dedup_batch` -/

/-- one row of a batch: `positions[i]`, `mask[i]` and the concatenation of all other columns -/
structure Row where
  toks : List Nat
  mask : List Bool
  tgt : List Rat
  deriving Repr, DecidableEq

/-- `tuple(batch["positions"][i][batch["mask"][i]].tolist())` -/
def key (r : Row) : List Nat := ((r.toks.zip r.mask).filter (·.2)).map (·.1)

/-- row `i` of `{k: torch.zeros_like(v)}` -/
def zerosLike (r : Row) : Row :=
  ⟨r.toks.map fun _ => 0, r.mask.map fun _ => false, r.tgt.map fun _ => 0⟩

structure DState where
  /-- the dict `ids`, in insertion order -/
  ids : List (List Nat × Nat)
  out : List Row
  counts : List Nat
  next : Nat
  deriving Repr, DecidableEq

/-- body of `for i in range(N)` for row `r = batch[…][i]` -/
def dedupStep (st : DState) (r : Row) : DState :=
  let k := key r
  match st.ids.lookup k with
  | some idx =>
    { st with
      counts := st.counts.modify idx (· + 1),
      out := st.out.modify idx fun o => { o with tgt := vadd o.tgt r.tgt } }
  | none =>
    let idx := st.next
    { ids := st.ids ++ [(k, idx)],
      next := st.next + 1,
      counts := st.counts.modify idx (· + 1),
      -- out["positions"][idx] = …; out["mask"][idx] = …; then out[k][idx] += batch[k][i]
      out := st.out.modify idx fun o => { toks := r.toks, mask := r.mask, tgt := vadd o.tgt r.tgt } }

/-- `out[k] /= counts.reshape(…)` and `v[:next]` -/
def dedupFinish (st : DState) : List Row :=
  ((st.out.zip st.counts).map fun (o, c) => { o with tgt := o.tgt.map (· / (c : Rat)) }).take st.next

/-- `dedup_batch(batch)` -/
def dedupBatch (b : List Row) : List Row :=
  dedupFinish (b.foldl dedupStep ⟨[], b.map zerosLike, b.map fun _ => 0, 0⟩)

/-! ## epochs: permute every column with the same permutation, cut into batches -/

/-- `v[perm]` (an index outside `v` is an IndexError in torch; `randperm(len(v))` never
    produces one — all theorems carry that hypothesis) -/
def gather {α : Type} (v : List α) (perm : List Nat) : List α := perm.filterMap (v[·]?)

/-- the number of values of `range(0, n, b)` for `b ≥ 1` -/
def numBatches (n b : Nat) : Nat := (n + b - 1) / b

/-- `[v[i : i + b] for i in range(0, n, b)]` -/
def chunks {α : Type} (b n : Nat) (v : List α) : List (List α) :=
  (List.range (numBatches n b)).map fun k => (v.drop (k * b)).take b

/-- `len(self)`: the length of the first column -/
def nRows {α : Type} : List (List α) → Nat
  | [] => 0
  | v :: _ => v.length

/-- one epoch over columns `cols` with the permutation `perm`:
    `shuffled = {k: v[perm]}`; `for i in range(0, n, b): {k: v[i:i+b] for k, v in shuffled}`.
    Result: the list of batches, each batch the list of its column slices (column order kept). -/
def epochBatches {α : Type} (perm : List Nat) (b : Nat) (cols : List (List α)) : List (List (List α)) :=
  let shuffled := cols.map (gather · perm)
  (List.range (numBatches (nRows cols) b)).map fun k =>
    shuffled.map fun v => (v.drop (k * b)).take b

/-! ## the file dataset `xformer.data.Dataset` -/

/-- the two torch RNG operations the dataset uses -/
structure RNG (G : Type) where
  /-- `torch.Generator().manual_seed(seed)` -/
  manualSeed : Nat → G
  /-- `torch.randperm(n, generator=g)`: the permutation and the advanced generator -/
  randperm : Nat → G → List Nat × G

/-- the non-transient attributes (what `__getstate__` returns), with the content of the file at
    `path` in place of the path -/
structure DsCfg (α : Type) where
  file : List (List α)
  batchSize : Nat
  batches : Option Nat
  seed : Nat

structure Ds (α G : Type) where
  cfg : DsCfg α
  data : List (List α)
  gen : G

/-- the loop of `__attrs_post_init__` (the uint8→long promotion changes no value) -/
def loadData {α : Type} (cfg : DsCfg α) : List (List α) :=
  cfg.file.map fun v =>
    match cfg.batches with
    | none => v
    | some t => v.take (t * cfg.batchSize)

/-- `Dataset(path, batch_size, batches, seed)` / `__attrs_post_init__` -/
def Ds.init {α G : Type} (R : RNG G) (cfg : DsCfg α) : Ds α G :=
  ⟨cfg, loadData cfg, R.manualSeed cfg.seed⟩

/-- `_next_epoch`: the shuffled columns and the dataset with the advanced generator -/
def Ds.nextEpoch {α G : Type} (R : RNG G) (ds : Ds α G) : List Nat × Ds α G :=
  let (perm, g) := R.randperm (nRows ds.data) ds.gen
  (perm, { ds with gen := g })

/-- `list(iter(ds))`: the batches of one epoch and the dataset afterwards -/
def Ds.iter {α G : Type} (R : RNG G) (ds : Ds α G) : List (List (List α)) × Ds α G :=
  let (perm, ds') := ds.nextEpoch R
  (epochBatches perm ds.cfg.batchSize ds.data, ds')

/-- `fastforward_epochs(n)` -/
def Ds.fastforward {α G : Type} (R : RNG G) : Nat → Ds α G → Ds α G
  | 0, ds => ds
  | n + 1, ds => Ds.fastforward R n (ds.nextEpoch R).2

/-- the first `k` epochs produced by `ds` -/
def Ds.stream {α G : Type} (R : RNG G) : Nat → Ds α G → List (List (List (List α)))
  | 0, _ => []
  | k + 1, ds => (ds.iter R).1 :: Ds.stream R k (ds.iter R).2

/-- the dataset after `m` epochs were consumed by iteration -/
def Ds.after {α G : Type} (R : RNG G) : Nat → Ds α G → Ds α G
  | 0, ds => ds
  | m + 1, ds => Ds.after R m (ds.iter R).2

/-! ### several live epoch iterators over ONE dataset object

`iter(ds)` returns a generator; its body (draw the epoch's permutation, shuffle, then yield the
batches one by one) starts at the first `next`.  A training loop, an evaluation hook and a
fast-forward may all use the same dataset object while an epoch is half consumed. -/

/-- a started epoch iterator: which draw produced it, what it has yielded, what is left -/
structure EpochIter (α : Type) where
  epoch : Nat
  yielded : List (List (List α))
  rest : List (List (List α))

/-- the dataset, the number of permutations drawn from its generator so far, and every iterator
    obtained from it (`none`: `iter(ds)` was called, the body has not started) -/
structure Sess (α G : Type) where
  ds : Ds α G
  draws : Nat
  iters : List (Option (EpochIter α))
  /-- iterators the caller gave up (`it.close()`, `break` out of the loop, the generator object
      dropped): nothing of the dataset is undone, the iterator yields nothing any more -/
  closed : List Nat := []

inductive SessOp where
  /-- `it = iter(ds)` -/
  | mk
  /-- `next(it_j)` -/
  | next (j : Nat)
  /-- `ds.fastforward_epochs(n)` -/
  | ff (n : Nat)
  /-- iterator `j` is abandoned (`it_j.close()` / garbage collected): `GeneratorExit` at its `yield` -/
  | close (j : Nat)
  deriving Repr

inductive SessOut (α : Type) where
  | unit
  | batch (b : List (List α))
  /-- `StopIteration` -/
  | stop
  /-- no such iterator -/
  | noIter

def Sess.init {α G : Type} (ds : Ds α G) : Sess α G := ⟨ds, 0, [], []⟩

/-- the generator body starts: `shuffled = self._next_epoch()`, then the first `yield` -/
def Sess.startIter {α G : Type} (R : RNG G) (s : Sess α G) (j : Nat) : Sess α G × SessOut α :=
  match (s.ds.iter R).1 with
  | [] => ({ s with ds := (s.ds.iter R).2, draws := s.draws + 1,
                    iters := s.iters.set j (some ⟨s.draws, [], []⟩) }, .stop)
  | b :: r => ({ s with ds := (s.ds.iter R).2, draws := s.draws + 1,
                        iters := s.iters.set j (some ⟨s.draws, [b], r⟩) }, .batch b)

/-- the next `yield` of a started generator (or `StopIteration`) -/
def Sess.advance {α G : Type} (s : Sess α G) (j : Nat) (it : EpochIter α) : Sess α G × SessOut α :=
  match it.rest with
  | [] => (s, .stop)
  | b :: r => ({ s with iters := s.iters.set j (some ⟨it.epoch, it.yielded ++ [b], r⟩) }, .batch b)

def Sess.step {α G : Type} (R : RNG G) (s : Sess α G) : SessOp → Sess α G × SessOut α
  | .mk => ({ s with iters := s.iters ++ [none] }, .unit)
  | .ff n => ({ s with ds := Ds.fastforward R n s.ds, draws := s.draws + n }, .unit)
  | .close j => ({ s with closed := j :: s.closed }, .unit)
  | .next j =>
    if s.closed.contains j then (s, .stop)
    else
      match s.iters[j]? with
      | none => (s, .noIter)
      | some none => s.startIter R j
      | some (some it) => s.advance j it

/-- run a list of operations; the trace pairs every operation with what it returned -/
def Sess.run {α G : Type} (R : RNG G) : Sess α G → List SessOp → Sess α G × List (SessOp × SessOut α)
  | s, [] => (s, [])
  | s, op :: ops =>
    let (s', o) := s.step R op
    let (s'', tr) := Sess.run R s' ops
    (s'', (op, o) :: tr)

/-- the batches `next(it_j)` returned, in order -/
def batchesOf {α : Type} (j : Nat) : List (SessOp × SessOut α) → List (List (List α))
  | [] => []
  | (.next k, .batch b) :: tr => if k = j then b :: batchesOf j tr else batchesOf j tr
  | _ :: tr => batchesOf j tr

/-- `__getstate__` -/
def Ds.getstate {α G : Type} (ds : Ds α G) : DsCfg α := ds.cfg

/-- `__setstate__`: set the attributes, then `__attrs_post_init__` (reload, re-seed) -/
def Ds.setstate {α G : Type} (R : RNG G) (state : DsCfg α) : Ds α G := Ds.init R state

/-! ## the replay-buffer dataset -/

/-- one element of `replay_buffer`: a batch as produced by `encode_games` (+ `dedup_batch`) -/
structure Buffer (α : Type) where
  positions : List (List Nat)
  mask : List (List Bool)
  /-- `positions.size(1)` (kept explicitly: it counts even when the buffer has no rows) -/
  width : Nat
  /-- the other columns (`moves`, `values`, `results`, …), in dict order -/
  others : List (List α)
  deriving Repr

structure FlatBuffer (α : Type) where
  positions : List (List Nat)
  mask : List (List Bool)
  others : List (List α)
  deriving Repr

/-- `max(b["positions"].size(1) for b in replay_buffer)` -/
def maxWidth {α : Type} (bufs : List (Buffer α)) : Nat := bufs.foldl (fun m b => max m b.width) 0

/-- the number of keys of `replay_buffer[0]` besides `positions` and `mask` -/
def nKeysOf {α : Type} : List (Buffer α) → Nat
  | [] => 0
  | b0 :: _ => b0.others.length

/-- `cat_replay_buffer`: other columns concatenated key by key (keys of `replay_buffer[0]`);
    `positions[n : n+N_i, :W_i] = b["positions"]` into zeros of the widest width, same for `mask`. -/
def catReplayBuffer {α : Type} (bufs : List (Buffer α)) : FlatBuffer α :=
  let others := (List.range (nKeysOf bufs)).map fun c => bufs.flatMap fun d => d.others.getD c []
  let w := maxWidth bufs
  let positions := bufs.flatMap fun d => d.positions.map fun row => writePrefix (List.replicate w 0) row
  let mask := bufs.flatMap fun d => d.mask.map fun row => writePrefix (List.replicate w false) row
  ⟨positions, mask, others⟩

structure RBBatch (α : Type) where
  positions : List (List Nat)
  mask : List (List Bool)
  others : List (List α)
  deriving Repr

/-- `ReplayBufferDataset.__iter__` with the drawn permutation `perm` -/
def rbEpoch {α : Type} (perm : List Nat) (b : Nat) (flat : FlatBuffer α) : List (RBBatch α) :=
  let npos := flat.positions.length
  let sp := gather flat.positions perm
  let sm := gather flat.mask perm
  let so := flat.others.map (gather · perm)
  (List.range (numBatches npos b)).map fun k =>
    ⟨(sp.drop (k * b)).take b, (sm.drop (k * b)).take b, so.map fun v => (v.drop (k * b)).take b⟩

/-! ## local copy of `encoding.encode(p)` (include_sentinel = True) for the driver -/

def reservesTok (i : Int) : Nat := 203 + i.toNat
def capstonesTok (i : Int) : Nat := 253 + i.toNat

def topTok (mine : Bool) : Kind → Nat
  | .flat => if mine then 1 else 5
  | .standing => if mine then 3 else 7
  | .cap => if mine then 4 else 8

def squareToks (mover : Color) : Stack → List Nat
  | [] => [0]
  | top :: stack =>
    topTok (top.color == mover) top.kind :: stack.map fun f => if f.color = mover then 2 else 6

/-- `encode(p)`; reserves inside the vocabulary (`0 ≤ stones < 50`, `0 ≤ caps < 2`) -/
def encodeTokens (p : Pos) : List Nat :=
  let mover := p.toMove
  [255, if mover = Color.white then 9 else 10,
   reservesTok (p.stones mover), capstonesTok (p.caps mover),
   reservesTok (p.stones mover.flip), capstonesTok (p.caps mover.flip)]
  ++ p.board.flatMap (squareToks mover)

/-- the unfolding equations are generated here, so that `Props/C12.lean` and `Props/C20.lean`
    declare property theorems only -/
theorem unfoldingEquationsGenerated : True := by
  have := @Transcript.results.eq_1
  have := @Ds.init.eq_1
  have := @chunks.eq_1
  have := @loadData.eq_1
  have := @rbEpoch.eq_1
  trivial

end Batch
end Tak

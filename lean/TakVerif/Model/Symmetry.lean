/-
  Model of python/tak/symmetry/symmetry.py (with the repair of finding F8: the transformed
  position keeps the reserves of the position it came from, `attrs.evolve(pos, board=sqs)`).

  * `rot`, `flip`, `SYMS` : the 3x3 integer matrices, `SYMS` built exactly as `SYMMETRIES`
    is: `[l·r for l in (I, rot, rot·rot, (rot·rot)·rot) for r in (I, flip)]`.
  * `scatter` / `transformPos` : the double loop `for i: for j: sqs[oi + oj*size] = pos[i, j]`
    with `(oi, oj, _) = sym · (i, j, size-1)`, starting from `sqs = list(pos.board)`.
    The write index is converted with `Int.toNat`; for the eight matrices of `SYMS` it is
    always inside `[0, size²)` (`C15_bijection`), so neither Python's negative-index
    wrap-around nor an `IndexError` is reachable there.  `transformPos` is only claimed to
    describe `transform_position` for matrices of `SYMS`.
  * `transformMove?` : square by the matrix applied to `(x, y, size-1)`, direction of a slide
    by the matrix applied to `(dx, dy, 0)` and `MoveType.from_direction` (a dictionary lookup:
    `none` stands for the `KeyError`; never `none` for a matrix of `SYMS`, `transformMove?_isSome`).
  * `symmetries` : de-duplication by `!=` on positions, in the order of `SYMS`.

  No Mathlib (the driver links this file).
-/
import TakVerif.Model.Core

namespace Tak
namespace Sym

/-- a 3x3 integer matrix, row major -/
structure Mat3 where
  a00 : Int
  a01 : Int
  a02 : Int
  a10 : Int
  a11 : Int
  a12 : Int
  a20 : Int
  a21 : Int
  a22 : Int
  deriving DecidableEq, Repr, Inhabited

namespace Mat3

/-- `np.matmul(a, b)` -/
def mul (a b : Mat3) : Mat3 :=
  ⟨a.a00 * b.a00 + a.a01 * b.a10 + a.a02 * b.a20,
   a.a00 * b.a01 + a.a01 * b.a11 + a.a02 * b.a21,
   a.a00 * b.a02 + a.a01 * b.a12 + a.a02 * b.a22,
   a.a10 * b.a00 + a.a11 * b.a10 + a.a12 * b.a20,
   a.a10 * b.a01 + a.a11 * b.a11 + a.a12 * b.a21,
   a.a10 * b.a02 + a.a11 * b.a12 + a.a12 * b.a22,
   a.a20 * b.a00 + a.a21 * b.a10 + a.a22 * b.a20,
   a.a20 * b.a01 + a.a21 * b.a11 + a.a22 * b.a21,
   a.a20 * b.a02 + a.a21 * b.a12 + a.a22 * b.a22⟩

/-- `np.identity(3, dtype=int)` -/
def ident : Mat3 := ⟨1, 0, 0, 0, 1, 0, 0, 0, 1⟩

/-- first coordinate of `np.matmul(m, [x, y, w])` -/
def ax (m : Mat3) (x y w : Int) : Int := m.a00 * x + m.a01 * y + m.a02 * w
/-- second coordinate of `np.matmul(m, [x, y, w])` -/
def ay (m : Mat3) (x y w : Int) : Int := m.a10 * x + m.a11 * y + m.a12 * w
/-- third coordinate of `np.matmul(m, [x, y, w])` -/
def az (m : Mat3) (x y w : Int) : Int := m.a20 * x + m.a21 * y + m.a22 * w

def toList (m : Mat3) : List Int :=
  [m.a00, m.a01, m.a02, m.a10, m.a11, m.a12, m.a20, m.a21, m.a22]

end Mat3

open Mat3

/-- `rot` of symmetry.py -/
def rot : Mat3 := ⟨0, 1, 0, -1, 0, 1, 0, 0, 1⟩
/-- `flip` of symmetry.py -/
def flip : Mat3 := ⟨-1, 0, 1, 0, 1, 0, 0, 0, 1⟩

/-- `SYMMETRIES`: the comprehension `[matmul(l, r) for l in [...] for r in [...]]` -/
def SYMS : List Mat3 :=
  [ident, rot, mul rot rot, mul (mul rot rot) rot].flatMap fun l =>
    [ident, flip].map fun r => mul l r

/-- the board built by the double loop of `transform_position` from the board `b` of an
    `n × n` position (`sqs = list(pos.board)`, then one write per `(i, j)`) -/
def scatter (s : Mat3) (n : Nat) (b : List Stack) : List Stack :=
  (List.range n).foldl
    (fun sqs (i : Nat) =>
      (List.range n).foldl
        (fun sqs (j : Nat) =>
          let oi := s.ax (i : Int) (j : Int) ((n : Int) - 1)
          let oj := s.ay (i : Int) (j : Int) ((n : Int) - 1)
          sqs.set (oi + oj * n).toNat (b.getD (i + j * n) []))
        sqs)
    b

/-- `transform_position` (repaired: `attrs.evolve(pos, board=sqs)`) -/
def transformPos (s : Mat3) (p : Pos) : Pos :=
  { p with board := scatter s p.size p.board }

/-- `MoveType.from_direction`: lookup in `RDIRECTIONS`; `none` is the `KeyError` -/
def fromDirection (dx dy : Int) : Option MoveType :=
  if dx = -1 ∧ dy = 0 then some .left
  else if dx = 1 ∧ dy = 0 then some .right
  else if dx = 0 ∧ dy = 1 then some .up
  else if dx = 0 ∧ dy = -1 then some .down
  else none

/-- `transform_move(sym, move, size)`; `none` is the `KeyError` of `from_direction` -/
def transformMove? (s : Mat3) (m : Move) (n : Nat) : Option Move :=
  let ox := s.ax m.x m.y ((n : Int) - 1)
  let oy := s.ay m.x m.y ((n : Int) - 1)
  if m.type.isSlide then
    let dx := s.ax m.type.direction.1 m.type.direction.2 0
    let dy := s.ay m.type.direction.1 m.type.direction.2 0
    (fromDirection dx dy).map fun t => ⟨ox, oy, t, m.slides⟩
  else some ⟨ox, oy, m.type, m.slides⟩

/-- `transform_move` as a total function; the default is unreachable for the matrices of
    `SYMS` (`transformMove?_isSome` in Lemmas/SymBasic.lean) -/
def transformMove (s : Mat3) (m : Move) (n : Nat) : Move :=
  (transformMove? s m n).getD m

/-- the loop of `symmetries` over an arbitrary list of matrices -/
def symmetriesOf (l : List Mat3) (p : Pos) : List (Mat3 × Pos) :=
  l.foldl
    (fun out s =>
      let t := transformPos s p
      if out.all (fun e => decide (t ≠ e.2)) then out ++ [(s, t)] else out)
    []

/-- `symmetries(pos)` -/
def symmetries (p : Pos) : List (Mat3 × Pos) := symmetriesOf SYMS p

end Sym
end Tak

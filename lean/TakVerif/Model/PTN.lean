/-
  PTN move and game notation: python/tak/ptn/ptn.py (`format_move`, `parse_move`, `PTN.parse`,
  `PTN.initial_position`), over `List Char`.  Mathlib-free (linked into the native driver).

  The model mirrors the REPAIRED code (design/planned_repairs.diff, hunk python/tak/ptn/ptn.py):
    * `parse_move` refuses a slide whose drops total more than 8            (F6)
    * the comment pattern is `{[^}]*}` and the tag pattern `"([^"]*)"`       (F7)

  What is modelled of CPython / `re` (trusted, tied behaviourally):
    * `re.search(r"\A([CFS]?)([1-8]?)([a-h])([1-8])([<>+-]?)([1-8]*)[CFS]?\Z", s)`: every class is
      disjoint from the class (or end anchor) that may follow it, so the backtracking matcher has
      exactly one way to match and the greedy left-to-right matcher `matchMove` below is the same
      function (tied exhaustively on all strings over the PTN alphabet up to a length bound);
    * the classes `\s`, `\d`, `\w` are the Unicode tables of `Model/PTNClasses.lean`;
    * `str.split("\n\n", 1)`, `re.findall` with `re.M`, `re.sub`, `re.split(r"\s+")`.
-/
import TakVerif.Model.Core
import TakVerif.Model.PTNClasses

namespace Tak.PTN

/-- `BadMove` (the parser's own error) versus any other exception class -/
inductive PErr where
  | badMove
  | crash (cls : String)
  deriving DecidableEq, Repr, Inhabited

/-! ### character classes of the move pattern -/

def stoneChars : List Char := ['C', 'F', 'S']
def countChars : List Char := ['1', '2', '3', '4', '5', '6', '7', '8']
def fileChars : List Char := ['a', 'b', 'c', 'd', 'e', 'f', 'g', 'h']
def dirChars : List Char := ['<', '>', '+', '-']

/-- `[CFS]` -/
def isStone (c : Char) : Bool := stoneChars.contains c
/-- `[1-8]` -/
def isCount (c : Char) : Bool := countChars.contains c
/-- `[a-h]` -/
def isFile (c : Char) : Bool := fileChars.contains c
/-- `[<>+-]` -/
def isDir (c : Char) : Bool := dirChars.contains c

/-! ### `format_move` -/

/-- `place_rmap.get(move.type, "")` -/
def placeR : MoveType → List Char
  | .placeStanding => ['S']
  | .placeCap => ['C']
  | _ => []

/-- `slide_rmap[move.type]` (consulted for slides only) -/
def slideR : MoveType → List Char
  | .left => ['<']
  | .right => ['>']
  | .up => ['+']
  | .down => ['-']
  | _ => []

/-- `str(i)` for a Python int -/
def intStr (i : Int) : List Char :=
  if i < 0 then '-' :: Nat.toDigits 10 i.natAbs else Nat.toDigits 10 i.toNat

/-- `chr(i + base)` (a `ValueError` for a negative argument is outside every statement made) -/
def chrOff (base : Nat) (i : Int) : Char := Char.ofNat (i + base).toNat

/-- `format_move`.  `sum(move.slides)` is formatted with `str`, so a total of ten or more gives two
    characters; the drops are written one character each (`chr(d + ord("0"))`). -/
def formatMove (m : Move) : List Char :=
  let sl := m.slides.getD []
  placeR m.type
    ++ (if m.type.isSlide then (if sl.sum ≠ 1 then intStr sl.sum else []) else [])
    ++ [chrOff 97 m.x, chrOff 49 m.y]
    ++ (if m.type.isSlide then
          slideR m.type ++ (if sl.length > 1 then sl.map (chrOff 48) else [])
        else [])

/-! ### `parse_move` -/

/-- the groups of the move pattern (`trail` is the final, uncaptured `[CFS]?`) -/
structure Groups where
  stone : Option Char
  pickup : Option Char
  file : Char
  rank : Char
  dir : Option Char
  drops : List Char
  trail : Option Char
  deriving DecidableEq, Repr

/-- `X?` for a one-character class -/
def optChar (p : Char → Bool) : List Char → Option Char × List Char
  | c :: r => if p c then (some c, r) else (none, c :: r)
  | [] => (none, [])

/-- `\A([CFS]?)([1-8]?)([a-h])([1-8])([<>+-]?)([1-8]*)[CFS]?\Z` -/
def matchMove (s : List Char) : Option Groups :=
  let a := optChar isStone s
  let b := optChar isCount a.2
  match b.2 with
  | f :: r :: s3 =>
    if isFile f && isCount r then
      let d := optChar isDir s3
      let drops := d.2.takeWhile isCount
      let e := optChar isStone (d.2.dropWhile isCount)
      if e.2.isEmpty then some ⟨a.1, b.1, f, r, d.1, drops, e.1⟩ else none
    else none
  | _ => none

/-- `slide_map[dir]` (`none`: `KeyError`) -/
def slideMap : Char → Option MoveType
  | '-' => some .down
  | '+' => some .up
  | '<' => some .left
  | '>' => some .right
  | _ => none

/-- `place_map[stone]` (`none`: `KeyError`) -/
def placeMap : Option Char → Option MoveType
  | none => some .placeFlat
  | some 'S' => some .placeStanding
  | some 'C' => some .placeCap
  | some 'F' => some .placeFlat
  | some _ => none

/-- `ord(c) - ord("0")`, also `int(c)` for a digit character -/
def digitVal (c : Char) : Int := (c.toNat : Int) - 48

/-- truth value of `slides` (`None` and `()` are false) -/
def truthy : Option (List Int) → Bool
  | some (_ :: _) => true
  | _ => false

/-- `sum(slides)`; `sum(None)` raises `TypeError` -/
def sumSlides : Option (List Int) → Except PErr Int
  | some l => .ok l.sum
  | none => .error (.crash "TypeError")

/-- the type looked up from the direction, else from the stone letter -/
def typeOf (g : Groups) : Except PErr MoveType :=
  match g.dir with
  | some d => (match slideMap d with | some t => .ok t | none => .error (.crash "KeyError"))
  | none => (match placeMap g.stone with | some t => .ok t | none => .error (.crash "KeyError"))

/-- the checks of `parse_move` after the pattern has matched, in the code's order -/
def semantic (g : Groups) : Except PErr Move :=
  let x : Int := (g.file.toNat : Int) - 97
  let y : Int := (g.rank.toNat : Int) - 49
  -- if pickup and not dir: raise
  if g.pickup.isSome && g.dir.isNone then .error .badMove else
  match typeOf g with
  | .error e => .error e
  | .ok typ =>
  -- slides = tuple(ord(c) - ord("0") for c in drops) if drops
  let slides0 : Option (List Int) := if g.drops.isEmpty then none else some (g.drops.map digitVal)
  -- if (drops or pickup) and not dir: raise
  if (!g.drops.isEmpty || g.pickup.isSome) && g.dir.isNone then .error .badMove else
  -- if dir and not pickup and not slides: pickup = "1"
  let pickup : Option Char :=
    if g.dir.isSome && g.pickup.isNone && !truthy slides0 then some '1' else g.pickup
  -- if pickup and not slides: slides = (int(pickup),)
  let slides : Option (List Int) :=
    match pickup with
    | some p => if !truthy slides0 then some [digitVal p] else slides0
    | none => slides0
  -- (repair F6) if slides and sum(slides) > 8: raise
  --   (`and` short-circuits: for falsy `slides` the sum is not taken; 0 stands for "not over 8")
  match (if truthy slides then sumSlides slides else .ok 0) with
  | .error e => .error e
  | .ok total =>
  if total > 8 then .error .badMove else
  -- if pickup and int(pickup) != sum(slides): raise
  match pickup with
  | some p =>
    (match sumSlides slides with
     | .error e => .error e
     | .ok s => if digitVal p ≠ s then .error .badMove else .ok ⟨x, y, typ, slides⟩)
  | none => .ok ⟨x, y, typ, slides⟩

/-- `parse_move` -/
def parseMove (t : List Char) : Except PErr Move :=
  match matchMove t with
  | none => .error .badMove
  | some g => semantic g

/-! ### `PTN.parse` -/

/-- `text.split("\n\n", 1)` unpacked into two names: `none` is the `ValueError` of the unpacking
    when the text has no blank line -/
def splitBlank : List Char → Option (List Char × List Char)
  | [] => none
  | c :: r =>
    if c == '\n' && r.head? == some '\n' then some ([], r.tail)
    else (splitBlank r).map fun p => (c :: p.1, p.2)

/-- `$` under `re.M`: end of text or just before a newline -/
def atEol : List Char → Bool
  | [] => true
  | c :: _ => c == '\n'

/-- one match of `\[(\w+) "([^"]*)"\]$` starting here: key, value, number of characters consumed -/
def matchTag (s : List Char) : Option (List Char × List Char × Nat) :=
  match s with
  | '[' :: s1 =>
    let key := s1.takeWhile pyWord
    if key.isEmpty then none else
    match s1.dropWhile pyWord with
    | ' ' :: '"' :: s3 =>
      let val := s3.takeWhile (fun c => c != '"')
      (match s3.dropWhile (fun c => c != '"') with
       | '"' :: ']' :: s4 => if atEol s4 then some (key, val, key.length + val.length + 5) else none
       | _ => none)
    | _ => none
  | _ => none

/-- `re.findall(r'^\[(\w+) "([^"]*)"\]$', head, re.M)`: `skip` characters of a match still to be
    passed over, `ls` = the position is the start of the text or follows a newline (`^`). -/
def scanTags : Nat → Bool → List Char → List (List Char × List Char)
  | _, _, [] => []
  | skip + 1, _, c :: r => scanTags skip (c == '\n') r
  | 0, ls, c :: r =>
    if ls then
      match matchTag (c :: r) with
      | some (k, v, n) => (k, v) :: scanTags (n - 1) (c == '\n') r
      | none => scanTags 0 (c == '\n') r
    else scanTags 0 (c == '\n') r

/-- `re.sub(r"{[^}]*}", " ", tail)`; the flag says we are inside a comment whose closing brace exists -/
def stripComments : Bool → List Char → List Char
  | _, [] => []
  | true, c :: r => if c == '}' then stripComments false r else stripComments true r
  | false, c :: r =>
    if c == '{' then (if r.contains '}' then ' ' :: stripComments true r else c :: r)
    else c :: stripComments false r

/-- `re.split(r"\s+", s)` (with the empty strings `re.split` produces at the two ends) -/
def splitWs : List Char → List (List Char)
  | [] => [[]]
  | c :: r =>
    if pySpace c then
      (match r with
       | c' :: _ => if pySpace c' then splitWs r else [] :: splitWs r
       | [] => [] :: splitWs r)
    else
      (match splitWs r with
       | t :: ts => (c :: t) :: ts
       | [] => [[c]])

def resultSides : List (List Char) := [['0'], ['R'], ['F'], ['1'], ['1', '/', '2']]

/-- `\A(0|R|F|1|1/2)-(0|R|F|1|1/2)\Z` -/
def isResult (t : List Char) : Bool :=
  resultSides.any fun a => resultSides.any fun b => t == a ++ '-' :: b

/-- `\A\d+\.\Z` -/
def isMoveNo (t : List Char) : Bool :=
  !(t.takeWhile pyDigit).isEmpty && t.dropWhile pyDigit == ['.']

def isAnnot (c : Char) : Bool := c == '\'' || c == '!' || c == '?'

/-- `re.sub(r"['!?]+$", "", t)` for a token (tokens hold no newline, so `$` is the end) -/
def stripAnnot (t : List Char) : List Char := (t.reverse.dropWhile isAnnot).reverse

/-- the `continue` conditions of the token loop, in the code's order -/
def skipToken (t : List Char) : Bool :=
  t == ['-', '-'] || isResult t || isMoveNo t || t.isEmpty

/-- the token loop; the first `BadMove` escapes -/
def parseTokens : List (List Char) → Except PErr (List Move)
  | [] => .ok []
  | t :: ts =>
    if skipToken t then parseTokens ts else
    match parseMove (stripAnnot t) with
    | .error e => .error e
    | .ok m =>
      match parseTokens ts with
      | .error e => .error e
      | .ok ms => .ok (m :: ms)

/-- what `PTN.parse` returns: the `findall` list the tag dictionary is built from, and the moves -/
structure Game where
  tags : List (List Char × List Char)
  moves : List Move
  deriving DecidableEq, Repr

/-- `PTN.parse` -/
def parse (text : List Char) : Except PErr Game :=
  match splitBlank text with
  | none => .error (.crash "ValueError")
  | some (head, tail) =>
    let tags := scanTags 0 true head
    match parseTokens (splitWs (stripComments false tail)) with
    | .error e => .error e
    | .ok ms => .ok ⟨tags, ms⟩

/-- `dict(tags_)[k]`: the last pair with the key wins -/
def lookupTag (tags : List (List Char × List Char)) (k : List Char) : Option (List Char) :=
  (tags.reverse.find? fun p => p.1 == k).map (·.2)

/-- decimal value of a string of ASCII digits (the part of `int(s)` that is modelled) -/
def decimal? (s : List Char) : Option Nat :=
  if s.isEmpty || !s.all (fun c => decide ('0' ≤ c) && decide (c ≤ '9')) then none
  else some (s.foldl (fun n c => 10 * n + (c.toNat - 48)) 0)

/-- `PTN.initial_position`; `parse_tps` is an oracle here (it is property C13's subject).
    `Config(size=n)` reads `DEFAULT_PIECES[n]`, a 9-entry list. -/
def initialPosition (parseTps : List Char → Except PErr Pos) (g : Game) : Except PErr Pos :=
  match lookupTag g.tags ['T', 'P', 'S'] with
  | some v => parseTps v
  | none =>
    match lookupTag g.tags ['S', 'i', 'z', 'e'] with
    | none => .error (.crash "KeyError")
    | some v =>
      match decimal? v with
      | none => .error (.crash "ValueError")
      | some n => if n ≤ 8 then .ok (Pos.fromConfig (Config.standard n)) else .error (.crash "IndexError")

/-! ### rendering decorated games (used by the theorems and by the driver op `render`) -/

/-- one element of a PTN body -/
inductive Item where
  /-- a move, written as `text` (any text `parse_move` accepts) followed by annotation marks -/
  | move (text : List Char) (annot : List Char)
  /-- a move number `digits.` -/
  | number (digits : List Char)
  /-- the placeholder `--` -/
  | dashes
  /-- a result marker `a-b` (indices into `resultSides`) -/
  | result (a b : Nat)
  deriving DecidableEq, Repr

/-- what separates elements: white space characters and `{comments}` -/
inductive GapAtom where
  | ws (c : Char)
  | comment (body : List Char)
  deriving DecidableEq, Repr

def renderAtom : GapAtom → List Char
  | .ws c => [c]
  | .comment b => '{' :: b ++ ['}']

def renderGap (g : List GapAtom) : List Char := g.flatMap renderAtom

def renderItem : Item → List Char
  | .move t a => t ++ a
  | .number d => d ++ ['.']
  | .dashes => ['-', '-']
  | .result a b => resultSides.getD a [] ++ '-' :: resultSides.getD b []

def renderTag (kv : List Char × List Char) : List Char :=
  '[' :: kv.1 ++ ' ' :: '"' :: kv.2 ++ ['"', ']']

def renderHead : List (List Char × List Char) → List Char
  | [] => []
  | [kv] => renderTag kv
  | kv :: rest => renderTag kv ++ '\n' :: renderHead rest

/-- body: a leading gap, then every element followed by its gap -/
def renderBody (lead : List GapAtom) (items : List (Item × List GapAtom)) : List Char :=
  renderGap lead ++ items.flatMap fun p => renderItem p.1 ++ renderGap p.2

/-- a PTN game text: tag lines, a blank line, the body -/
def render (tags : List (List Char × List Char)) (lead : List GapAtom)
    (items : List (Item × List GapAtom)) : List Char :=
  renderHead tags ++ '\n' :: '\n' :: renderBody lead items

end Tak.PTN

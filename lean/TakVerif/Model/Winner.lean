/-
  Model of the game-over adjudication of python/tak/game.py:
  `Position.is_road`, `_walk`, `has_road`, `flat_counts`, `flats_winner`, `winner`.
  Same order of checks and the same loop structure as the Python.

  `_walk` is a `while q:` loop over an explicit stack `q` (a Python list, `q.pop()` takes
  the LAST element) and a `seen` set.  In the model the stack is a `List` whose HEAD is the
  last element of the Python list, so
    * `q = list(seeds)`                 is `seeds.reverse`,
    * `q.pop()`                         is the head,
    * four `q.append(..)` in a row      put the four cells in front, last appended first.
  `seen` is a list used as a set (only membership is ever asked).  The loop takes fuel; the
  fuel supplied by `hasRoad` is sufficient (`Tak.C02.C02_walk_iff_path`).
-/
import TakVerif.Model.Core
import TakVerif.Model.Outcome

namespace Tak
namespace Impl

open Pos

/-- a board cell as the Python tuple `(x, y)`; neighbours of edge cells leave the board,
    so coordinates are integers -/
abbrev Cell := Int × Int

/-- `Position.is_road(x, y)`: `len(sq) > 0 and sq[0].is_road()` -/
def isRoad (p : Pos) (x y : Int) : Bool :=
  match p.atI x y with
  | [] => false
  | pc :: _ => pc.kind.isRoad

/-- `self[x, y][0].color != color`; only evaluated after `is_road` answered true, i.e. on a
    non-empty square (the `[]` branch is the unreachable `IndexError`, given as `true`
    = "skip the cell") -/
def topColorNe (p : Pos) (x y : Int) (color : Color) : Bool :=
  match p.atI x y with
  | [] => true
  | pc :: _ => pc.color != color

/-- the four `q.append` of `_walk`, in the order in which they will be popped:
    `(x, y-1)` was appended last and is popped first -/
def pushed (x y : Int) : List Cell :=
  [(x, y - 1), (x, y + 1), (x - 1, y), (x + 1, y)]

/-- `Position._walk(seeds, color, horiz)`: the `while q:` loop.
    `walk p color horiz fuel seen q`. -/
def walk (p : Pos) (color : Color) (horiz : Bool) : Nat → List Cell → List Cell → Bool
  | 0, _, _ => false
  | _ + 1, _, [] => false                              -- `while q:` ends, `return False`
  | fuel + 1, seen, j :: q =>                          -- `j = q.pop()`
    if j ∈ seen then walk p color horiz fuel seen q    -- `if j in seen: continue`
    else
      let seen' := j :: seen                           -- `seen.add(j)`
      let x := j.1
      let y := j.2
      if !p.inBounds x y then walk p color horiz fuel seen' q
      else if !isRoad p x y || topColorNe p x y color then walk p color horiz fuel seen' q
      else if horiz && x == (p.size : Int) - 1 then true
      else if !horiz && y == (p.size : Int) - 1 then true
      else walk p color horiz fuel seen' (pushed x y ++ q)

/-- `left = [(0, i) for i in range(self.size)]` -/
def leftSeeds (p : Pos) : List Cell := (List.range p.size).map fun (i : Nat) => ((0 : Int), (i : Int))

/-- `top = [(i, 0) for i in range(self.size)]` -/
def topSeeds (p : Pos) : List Cell := (List.range p.size).map fun (i : Nat) => ((i : Int), (0 : Int))

/-- fuel handed to the loop: one pop per seed plus four pops per cell of the board and its
    one-cell halo (more than is ever used) -/
def walkFuel (p : Pos) (seeds : List Cell) : Nat := seeds.length + 4 * ((p.size + 2) * (p.size + 2))

/-- `self._walk(seeds, color, horiz)` as called: `seen = set()`, `q = list(seeds)` -/
def walkFrom (p : Pos) (seeds : List Cell) (color : Color) (horiz : Bool) : Bool :=
  walk p color horiz (walkFuel p seeds) [] seeds.reverse

/-- `Position.has_road()` -/
def hasRoad (p : Pos) : Option Color :=
  let left := leftSeeds p
  let top := topSeeds p
  let w := walkFrom p left .white true || walkFrom p top .white false
  let b := walkFrom p left .black true || walkFrom p top .black false
  if w && b then some p.toMove.flip
  else if w then some .white
  else if b then some .black
  else none

/-- one iteration of the `for sq in self.board` loop of `flat_counts` -/
def flatStep (acc : Nat × Nat) (sq : Stack) : Nat × Nat :=
  match sq with
  | [] => acc                                            -- `len(sq) == 0`: continue
  | pc :: _ =>
    if pc.kind != .flat then acc                         -- `sq[0].kind != FLAT`: continue
    else if pc.color == .white then (acc.1 + 1, acc.2)
    else (acc.1, acc.2 + 1)

/-- `Position.flat_counts()` -/
def flatCounts (p : Pos) : Nat × Nat := p.board.foldl flatStep (0, 0)

/-- `Position.flats_winner()` -/
def flatsWinner (p : Pos) : Option Color :=
  let (w, b) := flatCounts p
  if w > b then some .white
  else if w < b then some .black
  else none

/-- `all(self.board)`: every square is a non-empty list -/
def boardFull (p : Pos) : Bool := p.board.all fun sq => !sq.isEmpty

/-- `any((s.stones + s.caps) == 0 for s in self.stones)` -/
def someReserveEmpty (p : Pos) : Bool :=
  [(p.wStones, p.wCaps), (p.bStones, p.bCaps)].any fun s => s.1 + s.2 == 0

/-- `Position.winner()` -/
def winner (p : Pos) : Option Color × Option WinReason :=
  match hasRoad p with
  | some color => (some color, some .road)
  | none =>
    if boardFull p || someReserveEmpty p then (flatsWinner p, some .flats)
    else (none, none)

end Impl
end Tak

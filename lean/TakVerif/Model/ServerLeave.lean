/-
  C17 — callers that go away.  An `Evaluate` call can be abandoned by its caller (the RPC is
  cancelled, the client times out, the connection drops) while it is parked in `queue.put`, while its
  request sits in the queue or in the batch being formed, or while the model runs.  What the Python
  code does then (`tak/model/server.py` has no code for it; it is asyncio's behaviour):

    parked in `await self.queue.put(req)`   the cancelled putter is skipped by the queue: the request never enters
    waiting in `await req.ready.wait()`     the `QueueRequest` stays where it is (queue / batch / running batch):
                                            it is evaluated like any other row and its answer is dropped

  Layered on the transition system of Model/Server.lean: `leave id` only MARKS the caller as gone.
  A gone caller that is still parked never enters (`enter` is refused for it), a gone caller's
  answer is not delivered; the state of the server itself (`base`) is not touched by `leave`, so
  every execution with departures projects onto an execution of the base system (`eraseLeaves`).
-/
import TakVerif.Model.Server

namespace Tak.Server

variable {P R : Type}

/-- `gone`: ids of the callers that went away; `delivered`: the responses callers actually
    received, in order of delivery (a sublist of `base.answered`) -/
structure LState (P R : Type) where
  base : State P R := {}
  gone : List Nat := []
  delivered : List (Nat × R) := []

inductive LAction (P : Type) where
  | act (a : Action P)
  | leave (id : Nat)

/-- the responses handed out by one base step -/
def newAnswers (old new : State P R) : List (Nat × R) := new.answered.drop old.answered.length

def stays (gone : List Nat) (x : Nat × R) : Bool := !gone.contains x.1

/-- is this base action allowed given who has left?  (a parked caller that left never enters) -/
def allowed (s : LState P R) : Action P → Bool
  | .enter k =>
    match s.base.putters[k]? with
    | some r => !s.gone.contains r.id
    | none => true
  | _ => true

def lstep (cap : Nat) (f : P → R) (s : LState P R) : LAction P → Option (LState P R)
  | .act a =>
    if allowed s a then
      match step cap f s.base a with
      | some b => some { s with base := b,
                                delivered := s.delivered ++ (newAnswers s.base b).filter (stays s.gone) }
      | none => none
    else none
  | .leave id =>
    if s.gone.contains id || !(s.base.arrived.map (·.id)).contains id then none
    else some { s with gone := id :: s.gone }

def lrun (cap : Nat) (f : P → R) : LState P R → List (LAction P) → Option (LState P R)
  | s, [] => some s
  | s, a :: as => (lstep cap f s a).bind fun s' => lrun cap f s' as

def linit : LState P R := {}

/-- the base actions of an execution with departures -/
def eraseLeaves : List (LAction P) → List (Action P)
  | [] => []
  | .act a :: as => a :: eraseLeaves as
  | .leave _ :: as => eraseLeaves as

/-- callers still waiting for an answer -/
def LState.waiting (s : LState P R) : List (Req P) :=
  s.base.pending.filter fun r => !s.gone.contains r.id

/-- is the caller of this request still there? -/
def LState.present (s : LState P R) (r : Req P) : Bool := !s.gone.contains r.id

/-- the service order as the callers see it: the line (a request whose caller left keeps its
    place until its batch is done), then the parked callers that are still there -/
def LState.order (s : LState P R) : List Nat :=
  s.base.line.map (·.id) ++ (s.base.putters.filter s.present).map (·.id)

/-- fair admission with departures: the first parked caller that is STILL THERE enters first, and
    a fresh arrival does not slip past one (asyncio skips cancelled putters when it wakes one) -/
def fairLStep (cap : Nat) (s : LState P R) : LAction P → Bool
  | .act (.arrive _) => (s.base.putters.filter s.present).isEmpty || decide (cap ≤ s.base.queue.length)
  | .act (.enter k) => s.base.putters.findIdx? s.present == some k
  | _ => true

def lallSteps (ok : LState P R → LAction P → Bool) (cap : Nat) (f : P → R) :
    LState P R → List (LAction P) → Bool
  | _, [] => true
  | s, a :: as =>
    ok s a &&
      match lstep cap f s a with
      | some s' => lallSteps ok cap f s' as
      | none => true

def fairLRun (cap : Nat) (f : P → R) (s : LState P R) (as : List (LAction P)) : Bool :=
  lallSteps (fairLStep cap) cap f s as

/-! ### observed traces with departures -/

inductive LEvent where
  | ev (e : Event)
  | leave (id : Nat)
deriving Repr

/-- a parked caller that left is never seen entering -/
def gateOk (s : LState (List Nat) R) : Event → Bool
  | .enter id => !s.gone.contains id
  | _ => true

def lcheckEvent (cap : Nat) (f : List Nat → R) (s : LState (List Nat) R) :
    LEvent → Except String (LState (List Nat) R)
  | .ev e =>
    if gateOk s e then
      match checkEvent cap f s.base e with
      | .ok b => .ok { s with base := b,
                              delivered := s.delivered ++ (newAnswers s.base b).filter (stays s.gone) }
      | .error m => .error m
    else .error "enter-after-leaving"
  | .leave id =>
    match lstep cap f s (.leave id) with
    | some s' => .ok s'
    | none => .error (if s.gone.contains id then "leave-twice" else "leave-unknown-id")

def lcheckTrace (cap : Nat) (f : List Nat → R) :
    LState (List Nat) R → Nat → List LEvent → Except (Nat × String) (LState (List Nat) R)
  | s, _, [] => .ok s
  | s, i, e :: es =>
    match lcheckEvent cap f s e with
    | .ok s' => lcheckTrace cap f s' (i + 1) es
    | .error msg => .error (i, msg)

/-- did every admission respect the order among the callers still there (diagnostic) -/
def ltraceFair (cap : Nat) (f : List Nat → R) : LState (List Nat) R → List LEvent → Bool
  | _, [] => true
  | s, e :: es =>
    (match e with
      | .ev (.arrive _ _) =>
        (s.base.putters.filter s.present).isEmpty || decide (cap ≤ s.base.queue.length)
      | .ev (.enter id) => ((s.base.putters.filter s.present).head?.map (·.id)) == some id
      | _ => true) &&
    match lcheckEvent cap f s e with
    | .ok s' => ltraceFair cap f s' es
    | .error _ => true

end Tak.Server

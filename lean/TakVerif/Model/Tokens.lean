/-
  Model of python/tak/model/encoding.py: `Token`, `TOP_PIECES`, `encode`, `decode` (REPAIRED:
  the reserves are read from the reserve tokens, see design/planned_repairs.diff), `_encode_batch`
  (the growing-width loop) and `encode_batch`.

  * tokens are `Nat` (Python ints; in a batch they are stored in a uint8 tensor, C06_byte shows
    that nothing is lost there);
  * `encodeE` is the code as written: `Token.RESERVES[stones]` / `Token.CAPSTONES[caps]` are Python
    list subscripts (negative indices wrap, out-of-range raises `IndexError`);  `encode` is the
    same function with the subscripts totalised (`203 + stones`), equal to `encodeE` whenever the
    reserves lie inside the vocabulary (`encodeE_eq_encode`);
  * `decode` takes the token list (the content of the tensor); every exception class the loop can
    raise is an explicit `Err.crash`;
  * `encodeBatch` works on the already encoded rows (`encode_one(p)` is the row).
  No Mathlib imports (the driver is a native executable).
-/
import TakVerif.Model.Core

namespace Tak.Tokens

/-! ### `class Token` -/

def EMPTY : Nat := 0
def MY_TOP_FLAT : Nat := 1
def MY_FLAT : Nat := 2
def MY_STANDING : Nat := 3
def MY_CAPSTONE : Nat := 4
def THEIR_TOP_FLAT : Nat := 5
def THEIR_FLAT : Nat := 6
def THEIR_STANDING : Nat := 7
def THEIR_CAPSTONE : Nat := 8
def WHITE_TO_PLAY : Nat := 9
def BLACK_TO_PLAY : Nat := 10

def MAX_RESERVES : Nat := 50
def MAX_CAPSTONES : Nat := 2
def LAST_CAPSTONE_VALUE : Nat := 254
/-- `CAPSTONES[0]` = 254 - 2 + 1 -/
def FIRST_CAPSTONES_VALUE : Nat := LAST_CAPSTONE_VALUE - MAX_CAPSTONES + 1
def LAST_RESERVES_VALUE : Nat := FIRST_CAPSTONES_VALUE - 1
/-- `RESERVES[0]` = 252 - 50 + 1 -/
def FIRST_RESERVES_VALUE : Nat := LAST_RESERVES_VALUE - MAX_RESERVES + 1
def OUTPUT_SENTINEL : Nat := 255

/-- `list(range(base, base+n))[i]` for a Python int `i`: negative indices count from the end,
    anything else outside `0..n-1` is an `IndexError` (`none`). -/
def pyRangeIndex (base n : Nat) (i : Int) : Option Nat :=
  if 0 ≤ i ∧ i < n then some (base + i.toNat)
  else if -(n : Int) ≤ i ∧ i < 0 then some (base + (n + i).toNat)
  else none

/-- `Token.RESERVES[i]` -/
def reservesTok? (i : Int) : Option Nat := pyRangeIndex FIRST_RESERVES_VALUE MAX_RESERVES i
/-- `Token.CAPSTONES[i]` -/
def capstonesTok? (i : Int) : Option Nat := pyRangeIndex FIRST_CAPSTONES_VALUE MAX_CAPSTONES i

/-- `Token.RESERVES[i]` for an index inside the list (`0 ≤ i < 50`) -/
def reservesTok (i : Int) : Nat := FIRST_RESERVES_VALUE + i.toNat
/-- `Token.CAPSTONES[i]` for an index inside the list (`0 ≤ i < 2`) -/
def capstonesTok (i : Int) : Nat := FIRST_CAPSTONES_VALUE + i.toNat

/-- `TOP_PIECES[(mine, kind)]` -/
def topPieces : Bool → Kind → Nat
  | true, .flat => MY_TOP_FLAT
  | false, .flat => THEIR_TOP_FLAT
  | true, .standing => MY_STANDING
  | false, .standing => THEIR_STANDING
  | true, .cap => MY_CAPSTONE
  | false, .cap => THEIR_CAPSTONE

def toPlayTok : Color → Nat
  | .white => WHITE_TO_PLAY
  | .black => BLACK_TO_PLAY

def flatTok (mover : Color) (flat : Piece) : Nat :=
  if flat.color = mover then MY_FLAT else THEIR_FLAT

/-! ### `encode` -/

/-- the body of `for square in p.board:` — appends the tokens of one square to `data` -/
def encSquare (mover : Color) (data : List Nat) (square : Stack) : List Nat :=
  match square with
  | [] => data ++ [EMPTY]
  | top :: stack =>
    stack.foldl (fun d flat => d ++ [flatTok mover flat])
      (data ++ [topPieces (top.color == mover) top.kind])

/-- everything `encode` appends before the board loop, given the four reserve tokens -/
def encHeader (p : Pos) (s : Bool) (r1 c1 r2 c2 : Nat) : List Nat :=
  let data : List Nat := []
  let data := if s then data ++ [OUTPUT_SENTINEL] else data
  let data := data ++ [if p.toMove = Color.white then WHITE_TO_PLAY else BLACK_TO_PLAY]
  let data := data ++ [r1]
  let data := data ++ [c1]
  let data := data ++ [r2]
  data ++ [c2]

/-- `encode(p, include_sentinel)` as written: the subscripts of `Token.RESERVES` /
    `Token.CAPSTONES` can raise. -/
def encodeE (p : Pos) (s : Bool) : Except Err (List Nat) :=
  let mover := p.toMove
  match reservesTok? (p.stones mover), capstonesTok? (p.caps mover),
        reservesTok? (p.stones mover.flip), capstonesTok? (p.caps mover.flip) with
  | some r1, some c1, some r2, some c2 =>
    .ok (p.board.foldl (encSquare mover) (encHeader p s r1 c1 r2 c2))
  | _, _, _, _ => .error (.crash "IndexError")

/-- `encode(p, include_sentinel)` for reserves inside the vocabulary -/
def encode (p : Pos) (s : Bool) : List Nat :=
  let mover := p.toMove
  p.board.foldl (encSquare mover)
    (encHeader p s (reservesTok (p.stones mover)) (capstonesTok (p.caps mover))
      (reservesTok (p.stones mover.flip)) (capstonesTok (p.caps mover.flip)))

/-! ### `decode` (repaired) -/

/-- `board[i]` on the tensor -/
def tget (ts : List Nat) (i : Nat) : Except Err Nat :=
  match ts[i]? with
  | some t => .ok t
  | none => .error (.crash "IndexError")

/-- the dict literal of `decode` together with the `color` computation:
    token ↦ (is the mover's, kind);  `none` = `KeyError` -/
def topOfTok (t : Nat) : Option (Bool × Kind) :=
  if t = MY_CAPSTONE then some (true, .cap)
  else if t = THEIR_CAPSTONE then some (false, .cap)
  else if t = MY_STANDING then some (true, .standing)
  else if t = THEIR_STANDING then some (false, .standing)
  else if t = MY_TOP_FLAT then some (true, .flat)
  else if t = THEIR_TOP_FLAT then some (false, .flat)
  else none

/-- `if this_sq is not None: squares.append(this_sq)` -/
def flush (squares : List Stack) (thisSq : Option Stack) : List Stack :=
  match thisSq with
  | some c => squares ++ [c]
  | none => squares

/-- `for sq in board[i:]` with the accumulators `squares`, `this_sq`, followed by the final
    `if this_sq is not None: squares.append(this_sq)`. -/
def decBoard (toPlay : Color) : List Stack → Option Stack → List Nat → Except Err (List Stack)
  | squares, thisSq, [] => .ok (flush squares thisSq)
  | squares, thisSq, sq :: rest =>
    if sq = MY_FLAT then
      match thisSq with
      | none => .error (.crash "AttributeError")
      | some c => decBoard toPlay squares (some (c ++ [⟨toPlay, .flat⟩])) rest
    else if sq = THEIR_FLAT then
      match thisSq with
      | none => .error (.crash "AttributeError")
      | some c => decBoard toPlay squares (some (c ++ [⟨toPlay.flip, .flat⟩])) rest
    else
      let squares := flush squares thisSq
      if sq = EMPTY then decBoard toPlay squares (some []) rest
      else
        match topOfTok sq with
        | none => .error (.crash "KeyError")
        | some (mine, kind) =>
          decBoard toPlay squares (some [⟨if mine then toPlay else toPlay.flip, kind⟩]) rest

/-- `int(n ** (1/2))` for the lengths that occur (exact for every `n < 2^52`): the integer
    square root, by downward search. -/
def isqrtGo (n : Nat) : Nat → Nat
  | 0 => 0
  | k + 1 => if (k + 1) * (k + 1) ≤ n then k + 1 else isqrtGo n k

def isqrt (n : Nat) : Nat := isqrtGo n n

/-- one round of `for _ in range(2):` — two asserts, two reads; returns (stones, caps, i) -/
def readReserves (ts : List Nat) (i : Nat) : Except Err (Int × Int × Nat) := do
  let t ← tget ts i
  if ¬ (FIRST_RESERVES_VALUE ≤ t ∧ t ≤ LAST_RESERVES_VALUE) then
    throw (.crash "AssertionError")
  let stones : Int := (t : Int) - (FIRST_RESERVES_VALUE : Int)
  let i := i + 1
  let t ← tget ts i
  if ¬ (FIRST_CAPSTONES_VALUE ≤ t ∧ t ≤ LAST_CAPSTONE_VALUE) then
    throw (.crash "AssertionError")
  let caps : Int := (t : Int) - (FIRST_CAPSTONES_VALUE : Int)
  let i := i + 1
  pure (stones, caps, i)

def decode (ts : List Nat) : Except Err Pos := do
  let i := 0
  let t0 ← tget ts i
  let i := if t0 = OUTPUT_SENTINEL then i + 1 else i
  let tp ← tget ts i
  let toPlay := if tp = WHITE_TO_PLAY then Color.white else Color.black
  let i := i + 1
  let (s1, c1, i) ← readReserves ts i
  let (s2, c2, i) ← readReserves ts i
  -- `if to_play == BLACK: reserves.reverse()`
  let (w, b) := if toPlay = Color.black then ((s2, c2), (s1, c1)) else ((s1, c1), (s2, c2))
  let squares ← decBoard toPlay [] none (ts.drop i)
  let size := isqrt squares.length
  if size * size ≠ squares.length then
    throw (.crash "AssertionError")
  pure { size := size, wStones := w.1, wCaps := w.2, bStones := b.1, bCaps := b.2,
         ply := if toPlay = Color.white then 2 else 3, board := squares }

/-! ### `_encode_batch` -/

/-- `dst[:len(src)] = src` for `len(src) ≤ len(dst)` -/
def writePrefix {α : Type} (dst src : List α) : List α := src ++ dst.drop src.length

/-- state of the first loop: `out` as its rows, `out.size(1)`, `lens` -/
structure BatchState where
  out : List (List Nat)
  width : Nat
  lens : List Nat

/-- one iteration `for (i, p) in enumerate(inputs)` with `encoded = encode_one(p)` -/
def batchStep (st : BatchState) (ie : List Nat × Nat) : BatchState :=
  let encoded := ie.1
  let i := ie.2
  let st :=
    if encoded.length > st.width then
      -- tmp = zeros((rows, len)); tmp[:, :width] = out; out = tmp
      { st with out := st.out.map (fun row => writePrefix (List.replicate encoded.length 0) row),
                width := encoded.length }
    else st
  { st with out := st.out.modify i (fun row => writePrefix row encoded),
            lens := st.lens.set i encoded.length }

/-- `_encode_batch(inputs, encode_one)` on the list of `encode_one(p)` values: (out, mask) -/
def encodeBatch (rows : List (List Nat)) : List (List Nat) × List (List Bool) :=
  let n := rows.length
  let st0 : BatchState := ⟨List.replicate n [], 0, List.replicate n 0⟩
  let st := rows.zipIdx.foldl batchStep st0
  -- mask = zeros_like(out); for i, l in enumerate(lens): mask[i, :l] = 1
  let mask := st.lens.map (fun l => writePrefix (List.replicate st.width false) (List.replicate l true))
  (st.out, mask)

end Tak.Tokens

/-
  The value type of `Position.winner()` (data only; shared by the model `Model/Winner.lean`
  and the specification `Spec/Road.lean`, which otherwise do not import one another).
-/
import TakVerif.Model.Core

namespace Tak

/-- `game.WinReason` -/
inductive WinReason where
  | road | flats
  deriving DecidableEq, Repr, Inhabited

/-- what `winner()` returns: `(colour or None, reason or None)` -/
abbrev Outcome := Option Color × Option WinReason

end Tak

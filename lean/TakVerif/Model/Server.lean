/-
  C17 — model of `tak/model/server.py` (request queue + batching worker) and of the byte
  codec used between `Server.Evaluate` (`probs.tobytes()`) and `GRPCNetwork.evaluate`
  (`np.frombuffer(…, dtype=np.float32)`).  Mathlib-free: the native driver imports this file.

  The server is a transition system.  Who does what in the Python code:

    Evaluate(request):  req = QueueRequest(position); await queue.put(req)      -- `arrive`, later `enter`
                        await req.ready.wait(); return response(req.probs, req.value)
    worker_loop:        batch = [await queue.get()]                             -- `take`
                        … more `queue.get()` / `get_nowait()` by some policy …   -- `take`*
                        probs, values = await run_in_executor(run_model, batch) -- `close`
                        for (i, b) in enumerate(batch):                         -- `complete`
                            b.probs = probs[i]; b.value = values[i]; b.ready.set()

  Nothing below depends on WHEN the worker stops taking (the code: "at least 8 → drain without
  waiting, fewer → wait up to 1 ms for one more"), nor on the capacity (80): `close` is enabled
  whenever the batch being formed is non-empty, and the capacity is a parameter.  So every
  batch-formation policy — in particular the one in the code, for every threshold and
  timeout — is a refinement of this system.

  `asyncio.Queue(maxsize).put` enqueues at once when fewer than `maxsize` items are queued and
  otherwise parks the caller (`putters`); a parked caller enters later, when there is room
  (`enter k`: the k-th parked caller; asyncio wakes them head first, but a woken caller can be
  overtaken by a fresh `put` that runs before it, so the safety theorems allow any k and the
  progress theorem for parked callers assumes head-first admission explicitly).
-/

namespace Tak.Server

/-- `MAX_QUEUE_DEPTH` -/
def maxQueueDepth : Nat := 80

/-- one `Evaluate` call: the identity of the caller and the position it sent -/
structure Req (P : Type) where
  id : Nat
  position : P
deriving Repr

/-- `arrived` is a ghost field (every request ever submitted, in order of submission);
    `answered` lists the responses delivered, in order of delivery. -/
structure State (P R : Type) where
  putters : List (Req P) := []
  queue : List (Req P) := []
  batch : List (Req P) := []
  running : Option (List (Req P)) := none
  answered : List (Nat × R) := []
  arrived : List (Req P) := []

inductive Action (P : Type) where
  | arrive (r : Req P)
  | enter (k : Nat)
  | take
  | close
  | complete

variable {P R : Type}

/-- `for (i, b) in enumerate(batch): b.probs = probs[i]` — responses are handed out by row index -/
def assign (b : List (Req P)) (outs : List R) : List (Nat × R) :=
  (b.zip outs).map fun x => (x.1.id, x.2)

/-- the batched model: one output row per input row, each computed from that row alone
    (that the padded, masked transformer has this form is property C16) -/
def runModel (f : P → R) (b : List (Req P)) : List R :=
  b.map fun r => f r.position

/-- one step; `none` = the action is not enabled in this state -/
def step (cap : Nat) (f : P → R) (s : State P R) : Action P → Option (State P R)
  | .arrive r =>
      if r.id ∈ s.arrived.map (·.id) then none
      else if s.queue.length < cap then
        some { s with queue := s.queue ++ [r], arrived := s.arrived ++ [r] }
      else
        some { s with putters := s.putters ++ [r], arrived := s.arrived ++ [r] }
  | .enter k =>
      match s.putters[k]? with
      | none => none
      | some r =>
        if s.queue.length < cap then
          some { s with putters := s.putters.take k ++ s.putters.drop (k + 1),
                        queue := s.queue ++ [r] }
        else none
  | .take =>
      match s.running, s.queue with
      | none, r :: q => some { s with queue := q, batch := s.batch ++ [r] }
      | _, _ => none
  | .close =>
      match s.running, s.batch with
      | none, r :: b => some { s with batch := [], running := some (r :: b) }
      | _, _ => none
  | .complete =>
      match s.running with
      | some b => some { s with running := none,
                                answered := s.answered ++ assign b (runModel f b) }
      | none => none

/-- executions: action lists from a state -/
def run (cap : Nat) (f : P → R) : State P R → List (Action P) → Option (State P R)
  | s, [] => some s
  | s, a :: as => (step cap f s a).bind fun s' => run cap f s' as

def init : State P R := {}

/-- requests not yet answered, in the order in which the worker will serve them -/
def State.pending (s : State P R) : List (Req P) :=
  s.running.getD [] ++ s.batch ++ s.queue ++ s.putters

/-- the part of `pending` that has entered the queue -/
def State.line (s : State P R) : List (Req P) :=
  s.running.getD [] ++ s.batch ++ s.queue

def State.answeredIds (s : State P R) : List Nat := s.answered.map (·.1)

def Action.isComplete : Action P → Bool
  | .complete => true
  | _ => false

def Action.isArrive : Action P → Bool
  | .arrive _ => true
  | _ => false

/-- number of completed batches in an action list -/
def completes (as : List (Action P)) : Nat := (as.filter Action.isComplete).length

/-- head-first admission, no overtaking of a parked caller (asyncio's wake-up order when a woken
    caller runs before any later `put`) -/
def fairStep (cap : Nat) (s : State P R) : Action P → Bool
  | .arrive _ => s.putters.isEmpty || decide (cap ≤ s.queue.length)
  | .enter k => k == 0
  | _ => true

/-- every step of the execution from `s` satisfies `ok` (in the state it is taken from) -/
def allSteps (ok : State P R → Action P → Bool) (cap : Nat) (f : P → R) :
    State P R → List (Action P) → Bool
  | _, [] => true
  | s, a :: as =>
    ok s a &&
      match step cap f s a with
      | some s' => allSteps ok cap f s' as
      | none => true

def fairRun (cap : Nat) (f : P → R) (s : State P R) (as : List (Action P)) : Bool :=
  allSteps (fairStep cap) cap f s as

/-! ### observed traces -/

/-- what the harness sees from outside the server: `put` called, a parked `put` returning, an
    item leaving the queue, the model being invoked (on n rows, not checked), the model call returning -/
inductive Event where
  | arrive (id : Nat) (toks : List Nat)
  | enter (id : Nat)
  | take (id : Nat)
  | run (n : Nat)
  | done
deriving Repr

/-- check one observed event against the transition system (positions = token lists) -/
def checkEvent (cap : Nat) (f : List Nat → R) (s : State (List Nat) R) :
    Event → Except String (State (List Nat) R)
  | .arrive id toks =>
      match step cap f s (.arrive ⟨id, toks⟩) with
      | some s' => .ok s'
      | none => .error "arrive-duplicate-id"
  | .enter id =>
      match s.putters.findIdx? (fun r => r.id == id) with
      | none => .error "enter-not-waiting"
      | some k =>
        match step cap f s (.enter k) with
        | some s' => .ok s'
        | none => .error "enter-queue-full"
  | .take id =>
      match s.queue with
      | [] => .error "take-empty-queue"
      | r :: _ =>
        if r.id ≠ id then .error "take-not-fifo-head"
        else
          match step cap f s .take with
          | some s' => .ok s'
          | none => .error "take-while-model-running"
  | .run _ =>
      -- the number of rows the model call had is informational: de-duplicating or re-ordering
      -- rows inside `run_model` is the implementation's business as long as every requester
      -- gets the answer for its own position (judged on the deliveries, not here)
      match step cap f s .close with
      | some s' => .ok s'
      | none => .error "run-empty-or-model-running"
  | .done =>
      match step cap f s .complete with
      | some s' => .ok s'
      | none => .error "done-without-run"

/-- returns the final state, or the index of the first offending event and the reason -/
def checkTrace (cap : Nat) (f : List Nat → R) :
    State (List Nat) R → Nat → List Event → Except (Nat × String) (State (List Nat) R)
  | s, _, [] => .ok s
  | s, i, e :: es =>
    match checkEvent cap f s e with
    | .ok s' => checkTrace cap f s' (i + 1) es
    | .error msg => .error (i, msg)

def validTrace (cap : Nat) (f : List Nat → R) (es : List Event) : Bool :=
  match checkTrace cap f init 0 es with
  | .ok _ => true
  | .error _ => false

/-- did every admission in the trace respect arrival order (diagnostic, not a requirement) -/
def traceFair (cap : Nat) (f : List Nat → R) : State (List Nat) R → List Event → Bool
  | _, [] => true
  | s, e :: es =>
    (match e with
      | .arrive _ _ => s.putters.isEmpty || decide (cap ≤ s.queue.length)
      | .enter id => (s.putters.head?.map (·.id)) == some id
      | _ => true) &&
    match checkEvent cap f s e with
    | .ok s' => traceFair cap f s' es
    | .error _ => true

/-! ### the property's predicates on observed deliveries (used by the failing-input search) -/

/-- position submitted under an id -/
def positionOf (arrivals : List (Req P)) (id : Nat) : Option P :=
  (arrivals.find? fun r => r.id == id).map (·.position)

inductive Verdict where
  | ok
  | wrongRecipient (id other : Nat)
  | notLocalEqual (id : Nat)
  | answeredTwice (id : Nat)
  | unanswered (id : Nat)
  | unknownId (id : Nat)
deriving Repr, DecidableEq

/-- pairing: a delivered response must be `f` of the requester's own position.  When it is not,
    say whether (part of) it is some other requester's answer: `borrowed own other resp` tells
    whether `resp` has a component that differs from `own` and equals that of `other`. -/
def judgePairing [DecidableEq R] (f : P → R) (borrowed : R → R → R → Bool)
    (arrivals : List (Req P)) : List (Nat × R) → Verdict
  | [] => .ok
  | (id, resp) :: rest =>
    match positionOf arrivals id with
    | none => .unknownId id
    | some p =>
      if resp = f p then judgePairing f borrowed arrivals rest
      else
        match arrivals.find? fun r => r.id != id && borrowed (f p) (f r.position) resp with
        | some o => .wrongRecipient id o.id
        | none => .notLocalEqual id

def firstDup : List Nat → Option Nat
  | [] => none
  | x :: xs => if x ∈ xs then some x else firstDup xs

/-- `delivered`: (id, response) per returned `Evaluate` call; `served`: ids in the order the worker
    took them; `idle`: the event loop has nothing left to do. -/
def judge [DecidableEq R] (f : P → R) (borrowed : R → R → R → Bool) (arrivals : List (Req P))
    (served : List Nat) (delivered : List (Nat × R)) (idle : Bool) : Verdict :=
  match judgePairing f borrowed arrivals delivered with
  | .ok =>
    match firstDup (delivered.map (·.1)), firstDup served with
    | some i, _ => .answeredTwice i
    | none, some i => .answeredTwice i
    | none, none =>
      if idle then
        match arrivals.find? fun r => !(delivered.map (·.1)).contains r.id with
        | some r => .unanswered r.id
        | none => .ok
      else .ok
  | v => v

/-! ### progress, evaluated on an observed run

  `C17_fifo_progress`: a request standing at index k of the line (requests that have entered the
  queue and are not answered yet) is answered after at most k + 1 further completed model calls.
  The observation of a run is the timeline of: a request entering the queue, a model call
  completing, a caller receiving its answer.  `firstStarved` replays the timeline, remembers for
  every waiting request the depth at which it entered and the number of completed model calls
  it has seen since, and reports the first request that sees more than depth + 1 of them. -/

inductive Obs where
  | entered (id : Nat)
  | completed
  | answered (id : Nat)
deriving Repr

structure Wait where
  id : Nat
  depth : Nat
  seen : Nat
deriving Repr

def Wait.over (x : Wait) : Bool := decide (x.depth + 1 < x.seen)

/-- one observation: the new waiting list and, possibly, a request that waited too long -/
def obsStep (w : List Wait) : Obs → List Wait × Option Wait
  | .entered i => (w ++ [⟨i, w.length, 0⟩], none)
  | .completed =>
    let w' := w.map fun x => { x with seen := x.seen + 1 }
    (w', w'.find? Wait.over)
  | .answered i => (w.filter fun x => x.id != i, none)

def firstStarved : List Wait → List Obs → Option Wait
  | _, [] => none
  | w, o :: os =>
    match obsStep w o with
    | (_, some x) => some x
    | (w', none) => firstStarved w' os

/-- the timeline an execution of the transition system produces (answers are handed out at the
    moment the model call completes) -/
def obsOfStep (cap : Nat) (s : State P R) : Action P → List Obs
  | .arrive r => if s.queue.length < cap then [.entered r.id] else []
  | .enter k =>
    match s.putters[k]? with
    | some r => [.entered r.id]
    | none => []
  | .take => []
  | .close => []
  | .complete => .completed :: (s.running.getD []).map fun r => .answered r.id

def obsOfRun (cap : Nat) (f : P → R) : State P R → List (Action P) → List Obs
  | _, [] => []
  | s, a :: as =>
    match step cap f s a with
    | some s' => obsOfStep cap s a ++ obsOfRun cap f s' as
    | none => []

/-! ### the fingerprinting row model of the tie

  logits: `0` at index `i * fpVocab + tokᵢ` for every unmasked column `i`, `-inf` elsewhere, so
  the support of the soft-max identifies the tokens the row was computed from; value:
  `Σ (i+1)·tokᵢ`. -/

def fpVocab : Nat := 32

def fpSupport : Nat → List Nat → List Nat
  | _, [] => []
  | i, t :: ts => (i * fpVocab + t) :: fpSupport (i + 1) ts

def fpValue : Nat → List Nat → Nat
  | _, [] => 0
  | i, t :: ts => (i + 1) * t + fpValue (i + 1) ts

def fingerprint (toks : List Nat) : List Nat × Nat := (fpSupport 0 toks, fpValue 0 toks)

/-! ### client side: float32 vector → bytes → vector

  `ndarray.tobytes()` of a float32 array on a little-endian host = each 32-bit pattern as four
  bytes, least significant first; `np.frombuffer(…, float32)` reads them back (and raises when
  the length is not a multiple of four). -/

def encodeWord (w : BitVec 32) : List (BitVec 8) :=
  [BitVec.ofNat 8 w.toNat, BitVec.ofNat 8 (w.toNat / 256),
   BitVec.ofNat 8 (w.toNat / 65536), BitVec.ofNat 8 (w.toNat / 16777216)]

def decodeWord (b0 b1 b2 b3 : BitVec 8) : BitVec 32 :=
  BitVec.ofNat 32 (b0.toNat + 256 * b1.toNat + 65536 * b2.toNat + 16777216 * b3.toNat)

def encodeLE : List (BitVec 32) → List (BitVec 8)
  | [] => []
  | w :: ws => encodeWord w ++ encodeLE ws

def decodeLE : List (BitVec 8) → Option (List (BitVec 32))
  | [] => some []
  | b0 :: b1 :: b2 :: b3 :: rest => (decodeLE rest).map (decodeWord b0 b1 b2 b3 :: ·)
  | _ => none

end Tak.Server

/-
  The outcome of the game, stated declaratively, and its invariance under the eight
  symmetries.

  `Model/Winner.lean` (the flood fill `Impl.winner`, property C02) did not exist when this
  was written, so the invariance is stated over a declarative outcome written here from the
  rule book: a road is a chain of orthogonally adjacent squares whose top pieces are flats or
  capstones of one colour, joining two opposite edges of the board; a double road is won by
  the player who made the move; otherwise, when the board is full or a player has no piece
  left, the flat count decides.
-/
import TakVerif.Lemmas.SymRules

namespace Tak
namespace Sym
open Mat3

/-! ### the image board is a permutation of the board -/

theorem getD_eq_of_range {N : Nat} (b : List Stack) (hb : b.length = N) :
    b = (List.range N).map (fun k => b.getD k []) := by
  apply List.ext_getElem (by simp [hb])
  intro i h1 h2
  simp [List.getD_eq_getElem?_getD, h1]

/-- flat index of the image of the square `(i, j)` -/
def gxy (s : Mat3) (n : Nat) (i j : Nat) : Nat :=
  (sx s n (i : Int) (j : Int)).toNat + (sy s n (i : Int) (j : Int)).toNat * n

/-- flat index of the image of the square with flat index `k` -/
def gidx (s : Mat3) (n : Nat) (k : Nat) : Nat := gxy s n (k % n) (k / n)

theorem gxy_spec {s : Mat3} (hs : s ∈ SYMS) {n i j : Nat} (hi : i < n) (hj : j < n) :
    InB n (i : Int) (j : Int) ∧ InB n (sx s n (i : Int) (j : Int)) (sy s n (i : Int) (j : Int)) ∧
    gxy s n i j < n * n := by
  have hin : InB n (i : Int) (j : Int) := by unfold InB; omega
  have himg := (InB_image hs n _ _).2 hin
  refine ⟨hin, himg, ?_⟩
  unfold gxy
  unfold InB at himg
  exact idx_lt (by omega) (by omega)

theorem gxy_inj {s : Mat3} (hs : s ∈ SYMS) {n i j i' j' : Nat} (hi : i < n) (hj : j < n)
    (hi' : i' < n) (hj' : j' < n) (e : gxy s n i j = gxy s n i' j') : i = i' ∧ j = j' := by
  obtain ⟨_, ia, _⟩ := gxy_spec hs hi hj
  obtain ⟨_, ib, _⟩ := gxy_spec hs hi' hj'
  unfold gxy at e
  unfold InB at ia ib
  have := idx_inj (n := n) (by omega) (by omega) e
  have e1 : sx s n (i : Int) (j : Int) = sx s n (i' : Int) (j' : Int) := by omega
  have e2 : sy s n (i : Int) (j : Int) = sy s n (i' : Int) (j' : Int) := by omega
  have := image_inj hs e1 e2
  omega

theorem gxy_surj {s : Mat3} (hs : s ∈ SYMS) {n X Y : Nat} (hX : X < n) (hY : Y < n) :
    ∃ i j, i < n ∧ j < n ∧ gxy s n i j = X + Y * n := by
  have hin : InB n (X : Int) (Y : Int) := by unfold InB; omega
  obtain ⟨x, y, hxy, ex, ey⟩ := image_surj hs hin
  unfold InB at hxy
  refine ⟨x.toNat, y.toNat, by omega, by omega, ?_⟩
  unfold gxy
  have e1 : ((x.toNat : Nat) : Int) = x := Int.toNat_of_nonneg hxy.1
  have e2 : ((y.toNat : Nat) : Int) = y := Int.toNat_of_nonneg hxy.2.2.1
  rw [e1, e2, ex, ey]
  simp

theorem gidx_perm {s : Mat3} (hs : s ∈ SYMS) (n : Nat) :
    ((List.range (n * n)).map (gidx s n)).Perm (List.range (n * n)) := by
  rw [List.perm_ext_iff_of_nodup _ List.nodup_range]
  · intro a
    simp only [List.mem_map, List.mem_range]
    constructor
    · rintro ⟨k, hk, rfl⟩
      obtain ⟨h1, h2, _⟩ := idx_decomp hk
      exact (gxy_spec hs h1 h2).2.2
    · intro ha
      obtain ⟨h1, h2, h3⟩ := idx_decomp ha
      obtain ⟨i, j, hi, hj, e⟩ := gxy_surj hs h1 h2
      refine ⟨i + j * n, idx_lt hi hj, ?_⟩
      unfold gidx
      rw [idx_mod _ hi, idx_div _ hi, e, h3]
  · rw [List.nodup_iff_pairwise_ne, List.pairwise_map]
    apply List.Pairwise.imp_of_mem _ (List.nodup_range (n := n * n))
    intro a b ha hb hne e
    apply hne
    rw [List.mem_range] at ha hb
    obtain ⟨a1, a2, a3⟩ := idx_decomp ha
    obtain ⟨b1, b2, b3⟩ := idx_decomp hb
    have := gxy_inj hs a1 a2 b1 b2 e
    rw [← a3, ← b3, this.1, this.2]

/-- the image board holds the same stacks as the board, in another order -/
theorem scatter_perm {s : Mat3} (hs : s ∈ SYMS) {n : Nat} {b : List Stack} (hb : b.length = n * n) :
    (scatter s n b).Perm b := by
  have hr := rel_scatter hs hb
  have e1 : b = ((List.range (n * n)).map (gidx s n)).map (fun k => (scatter s n b).getD k []) := by
    rw [List.map_map]
    conv => lhs; rw [getD_eq_of_range b hb]
    apply List.map_congr_left
    intro k hk
    rw [List.mem_range] at hk
    obtain ⟨h1, h2, h3⟩ := idx_decomp hk
    obtain ⟨hin, _, _⟩ := gxy_spec hs h1 h2
    have := hr.2.2 _ _ hin
    unfold getI at this
    simp only [Int.toNat_natCast] at this
    rw [h3] at this
    exact this.symm
  have e2 := getD_eq_of_range (scatter s n b) hr.2.1
  rw [e2]
  conv => rhs; rw [e1]
  exact ((gidx_perm hs n).map _).symm

/-! ### the declarative outcome -/

/-- the square is on the board and its top piece is a road piece (flat or capstone) of colour `c` -/
def RoadSq (p : Pos) (c : Color) (a : Int × Int) : Prop :=
  p.inBounds a.1 a.2 = true ∧
    ∃ t rest, p.atI a.1 a.2 = t :: rest ∧ t.color = c ∧ t.kind.isRoad = true

/-- orthogonal neighbours -/
def Adj (a b : Int × Int) : Prop :=
  (a.1 = b.1 ∧ (a.2 = b.2 + 1 ∨ b.2 = a.2 + 1)) ∨ (a.2 = b.2 ∧ (a.1 = b.1 + 1 ∨ b.1 = a.1 + 1))

/-- a chain of orthogonally adjacent road squares of colour `c` from `a` to `b` -/
inductive Connected (p : Pos) (c : Color) : Int × Int → Int × Int → Prop
  | single (a : Int × Int) : RoadSq p c a → Connected p c a a
  | step (a b d : Int × Int) : RoadSq p c a → Adj a b → Connected p c b d → Connected p c a d

/-- `a` and `b` lie on two opposite edges of the `n × n` board -/
def OppositeEdges (n : Nat) (a b : Int × Int) : Prop :=
  (a.1 = 0 ∧ b.1 = (n : Int) - 1) ∨ (a.1 = (n : Int) - 1 ∧ b.1 = 0) ∨
  (a.2 = 0 ∧ b.2 = (n : Int) - 1) ∨ (a.2 = (n : Int) - 1 ∧ b.2 = 0)

/-- colour `c` has a road -/
def HasRoad (p : Pos) (c : Color) : Prop :=
  ∃ a b, Connected p c a b ∧ OppositeEdges p.size a b

/-- number of squares whose top piece is a flat of colour `c` -/
def flatCount (p : Pos) (c : Color) : Nat :=
  p.board.countP fun st => match st with
    | [] => false
    | t :: _ => decide (t.color = c) && decide (t.kind = .flat)

def BoardFull (p : Pos) : Prop := ∀ st ∈ p.board, st ≠ []

def ReservesEmpty (p : Pos) : Prop := ∃ c, p.stones c + p.caps c = 0

def flatsWinner (p : Pos) : Option Color :=
  if flatCount p .black < flatCount p .white then some .white
  else if flatCount p .white < flatCount p .black then some .black
  else none

inductive Reason where
  | road | flats
  deriving DecidableEq, Repr

open Classical in
/-- the outcome the rules prescribe: winner (if any) and why; `(none, none)` = game goes on,
    `(none, some .flats)` = draw on flats -/
noncomputable def outcome (p : Pos) : Option Color × Option Reason :=
  if HasRoad p .white ∧ HasRoad p .black then (some p.toMove.flip, some .road)
  else if HasRoad p .white then (some .white, some .road)
  else if HasRoad p .black then (some .black, some .road)
  else if BoardFull p ∨ ReservesEmpty p then (flatsWinner p, some .flats)
  else (none, none)

/-! ### invariance -/

/-- image of a square -/
def img (s : Mat3) (n : Nat) (a : Int × Int) : Int × Int := (sx s n a.1 a.2, sy s n a.1 a.2)

theorem adj_img {s : Mat3} (hs : s ∈ SYMS) (n : Nat) {a b : Int × Int} (h : Adj a b) :
    Adj (img s n a) (img s n b) := by
  obtain ⟨a1, a2⟩ := a
  obtain ⟨b1, b2⟩ := b
  unfold Adj img sx sy at *
  simp only at h ⊢
  rcases mem_cases hs with rfl | rfl | rfl | rfl | rfl | rfl | rfl | rfl <;>
    simp only [ax, ay] <;> omega

theorem opposite_img {s : Mat3} (hs : s ∈ SYMS) (n : Nat) {a b : Int × Int} (h : OppositeEdges n a b) :
    OppositeEdges n (img s n a) (img s n b) := by
  obtain ⟨a1, a2⟩ := a
  obtain ⟨b1, b2⟩ := b
  unfold OppositeEdges img sx sy at *
  simp only at h ⊢
  rcases mem_cases hs with rfl | rfl | rfl | rfl | rfl | rfl | rfl | rfl <;>
    simp only [ax, ay] <;> omega

theorem roadSq_T {s : Mat3} (hs : s ∈ SYMS) {p : Pos} (hwf : p.WF) {c : Color} {a : Int × Int}
    (h : RoadSq p c a) : RoadSq (transformPos s p) c (img s p.size a) := by
  obtain ⟨hin, t, rest, h1, h2, h3⟩ := h
  refine ⟨(inBounds_T hs p a.1 a.2).trans hin, t, rest, ?_, h2, h3⟩
  exact (atI_T hs hwf hin).trans h1

theorem connected_T {s : Mat3} (hs : s ∈ SYMS) {p : Pos} (hwf : p.WF) {c : Color} {a b : Int × Int}
    (h : Connected p c a b) : Connected (transformPos s p) c (img s p.size a) (img s p.size b) := by
  induction h with
  | single a ha => exact .single _ (roadSq_T hs hwf ha)
  | step a b d ha hab _ ih => exact .step _ _ _ (roadSq_T hs hwf ha) (adj_img hs _ hab) ih

theorem hasRoad_T {s : Mat3} (hs : s ∈ SYMS) {p : Pos} (hwf : p.WF) {c : Color}
    (h : HasRoad p c) : HasRoad (transformPos s p) c := by
  obtain ⟨a, b, hc, ho⟩ := h
  exact ⟨_, _, connected_T hs hwf hc, opposite_img hs _ ho⟩

/-- roads map to roads (and back) -/
theorem hasRoad_T_iff {s : Mat3} (hs : s ∈ SYMS) {p : Pos} (hwf : p.WF) (c : Color) :
    HasRoad (transformPos s p) c ↔ HasRoad p c := by
  refine ⟨fun h => ?_, hasRoad_T hs hwf⟩
  obtain ⟨s', hs', h1, _⟩ := exists_inv hs
  have := hasRoad_T hs' (transformPos_wf (s := s) hwf) h
  rwa [transformPos_inv hs hs' h1 hwf] at this

theorem flatCount_T {s : Mat3} (hs : s ∈ SYMS) {p : Pos} (hwf : p.WF) (c : Color) :
    flatCount (transformPos s p) c = flatCount p c :=
  (scatter_perm hs hwf.2).countP_eq _

theorem boardFull_T {s : Mat3} (hs : s ∈ SYMS) {p : Pos} (hwf : p.WF) :
    BoardFull (transformPos s p) ↔ BoardFull p := by
  unfold BoardFull
  have := scatter_perm hs hwf.2
  constructor
  · intro h st hst; exact h st (this.mem_iff.2 hst)
  · intro h st hst; exact h st (this.mem_iff.1 hst)

theorem reservesEmpty_T (s : Mat3) (p : Pos) : ReservesEmpty (transformPos s p) ↔ ReservesEmpty p := by
  unfold ReservesEmpty
  simp only [transformPos_stones, transformPos_caps]

theorem flatsWinner_T {s : Mat3} (hs : s ∈ SYMS) {p : Pos} (hwf : p.WF) :
    flatsWinner (transformPos s p) = flatsWinner p := by
  unfold flatsWinner
  rw [flatCount_T hs hwf, flatCount_T hs hwf]

open Classical in
/-- the outcome of the game is the same for a position and each of its eight images -/
theorem outcome_T {s : Mat3} (hs : s ∈ SYMS) {p : Pos} (hwf : p.WF) :
    outcome (transformPos s p) = outcome p := by
  unfold outcome
  simp only [hasRoad_T_iff hs hwf, boardFull_T hs hwf, reservesEmpty_T, flatsWinner_T hs hwf,
    transformPos_toMove]

end Sym
end Tak

/-
  Helper lemmas for C06 about `encode` / `decode` of Model/Tokens.lean.
-/
import TakVerif.Model.Tokens
import TakVerif.Spec.Tokens

namespace Tak.Tokens

/-! ### `encode` in closed form -/

/-- the tokens one square contributes -/
def squareTokens (mover : Color) : Stack → List Nat
  | [] => [EMPTY]
  | top :: stack => topPieces (top.color == mover) top.kind :: stack.map (flatTok mover)

theorem foldl_append_singleton {α β : Type} (g : α → β) (l : List α) (init : List β) :
    l.foldl (fun d a => d ++ [g a]) init = init ++ l.map g := by
  induction l generalizing init with
  | nil => simp
  | cons a l ih => simp [ih]

theorem encSquare_eq (mover : Color) (data : List Nat) (sq : Stack) :
    encSquare mover data sq = data ++ squareTokens mover sq := by
  cases sq with
  | nil => rfl
  | cons top stack =>
    simp only [encSquare, squareTokens, foldl_append_singleton (flatTok mover)]
    simp

theorem foldl_encSquare (mover : Color) (b : List Stack) (data : List Nat) :
    b.foldl (encSquare mover) data = data ++ b.flatMap (squareTokens mover) := by
  induction b generalizing data with
  | nil => simp
  | cons sq b ih => simp [ih, encSquare_eq]

theorem squareTokens_eq_layout (mover : Color) (sq : Stack) :
    squareTokens mover sq = squareLayout mover sq := by
  cases sq with
  | nil => rfl
  | cons top stack =>
    obtain ⟨c, k⟩ := top
    simp only [squareTokens, squareLayout, List.cons.injEq]
    refine ⟨?_, ?_⟩
    · cases c <;> cases mover <;> cases k <;> rfl
    · apply List.map_congr_left
      intro pc _
      simp [flatTok, MY_FLAT, THEIR_FLAT]

theorem layout_def (p : Pos) (s : Bool) :
    layout p s =
      (if s then [255] else []) ++
      [if p.toMove = Color.white then 9 else 10] ++
      [(203 + p.stones p.toMove).toNat, (253 + p.caps p.toMove).toNat,
       (203 + p.stones p.toMove.flip).toNat, (253 + p.caps p.toMove.flip).toNat] ++
      p.board.flatMap (squareLayout p.toMove) := rfl

theorem encHeader_eq (p : Pos) (s : Bool) (r1 c1 r2 c2 : Nat) :
    encHeader p s r1 c1 r2 c2 =
      (if s then [OUTPUT_SENTINEL] else []) ++ toPlayTok p.toMove :: [r1, c1, r2, c2] := by
  cases s <;> cases h : p.toMove <;> simp [encHeader, toPlayTok, h]

theorem encode_eq (p : Pos) (s : Bool) :
    encode p s =
      (if s then [OUTPUT_SENTINEL] else []) ++ toPlayTok p.toMove ::
        reservesTok (p.stones p.toMove) :: capstonesTok (p.caps p.toMove) ::
        reservesTok (p.stones p.toMove.flip) :: capstonesTok (p.caps p.toMove.flip) ::
        p.board.flatMap (squareTokens p.toMove) := by
  simp only [encode, foldl_encSquare, encHeader_eq]
  simp

/-! ### vocabulary arithmetic -/

theorem InVocab.mover {p : Pos} (h : InVocab p) (c : Color) :
    (0 ≤ p.stones c ∧ p.stones c ≤ 49) ∧ (0 ≤ p.caps c ∧ p.caps c ≤ 1) := by
  obtain ⟨h1, h2, h3, h4⟩ := h
  cases c <;> simp [Pos.stones, Pos.caps, *]

theorem reservesTok?_eq {i : Int} (h0 : 0 ≤ i) (h1 : i ≤ 49) : reservesTok? i = some (reservesTok i) := by
  have h : 0 ≤ i ∧ i < ((MAX_RESERVES : Nat) : Int) := ⟨h0, by simp only [MAX_RESERVES]; omega⟩
  simp only [reservesTok?, reservesTok, pyRangeIndex, if_pos h]

theorem capstonesTok?_eq {i : Int} (h0 : 0 ≤ i) (h1 : i ≤ 1) : capstonesTok? i = some (capstonesTok i) := by
  have h : 0 ≤ i ∧ i < ((MAX_CAPSTONES : Nat) : Int) := ⟨h0, by simp only [MAX_CAPSTONES]; omega⟩
  simp only [capstonesTok?, capstonesTok, pyRangeIndex, if_pos h]

theorem encodeE_eq_encode {p : Pos} (h : InVocab p) (s : Bool) : encodeE p s = .ok (encode p s) := by
  obtain ⟨⟨a1, a2⟩, ⟨a3, a4⟩⟩ := h.mover p.toMove
  obtain ⟨⟨b1, b2⟩, ⟨b3, b4⟩⟩ := h.mover p.toMove.flip
  simp only [encodeE, encode, reservesTok?_eq a1 a2, capstonesTok?_eq a3 a4,
    reservesTok?_eq b1 b2, capstonesTok?_eq b3 b4]

/-! ### `decode` on the image of `encode` -/

theorem flatTok_ne (mover : Color) (pc : Piece) :
    flatTok mover pc = MY_FLAT ∨ flatTok mover pc = THEIR_FLAT := by
  unfold flatTok; split <;> simp

theorem decBoard_flats (tp : Color) (sqs : List Stack) (c buried : Stack) (rest : List Nat)
    (hb : buried.all (fun pc => pc.kind == Kind.flat) = true) :
    decBoard tp sqs (some c) (buried.map (flatTok tp) ++ rest) =
      decBoard tp sqs (some (c ++ buried)) rest := by
  induction buried generalizing c with
  | nil => simp
  | cons pc buried ih =>
    simp only [List.all_cons, Bool.and_eq_true, beq_iff_eq] at hb
    obtain ⟨col, k⟩ := pc
    obtain ⟨hk, hb⟩ := hb
    simp only at hk
    subst hk
    simp only [List.map_cons, List.cons_append]
    by_cases hc : col = tp
    · subst hc
      rw [decBoard]
      simp only [flatTok, if_true]
      rw [ih _ hb]
      simp
    · have hflip : col = tp.flip := by cases col <;> cases tp <;> simp_all [Color.flip]
      rw [decBoard]
      simp only [flatTok, hc, if_false, THEIR_FLAT, MY_FLAT]
      simp only [show (6 : Nat) ≠ 2 by decide, if_false, if_true]
      rw [ih _ hb, hflip]
      simp

theorem decBoard_cons (tp : Color) (squares : List Stack) (thisSq : Option Stack) (sq : Nat)
    (rest : List Nat) :
    decBoard tp squares thisSq (sq :: rest) =
      if sq = MY_FLAT then
        match thisSq with
        | none => .error (.crash "AttributeError")
        | some c => decBoard tp squares (some (c ++ [⟨tp, .flat⟩])) rest
      else if sq = THEIR_FLAT then
        match thisSq with
        | none => .error (.crash "AttributeError")
        | some c => decBoard tp squares (some (c ++ [⟨tp.flip, .flat⟩])) rest
      else
        if sq = EMPTY then decBoard tp (flush squares thisSq) (some []) rest
        else
          match topOfTok sq with
          | none => .error (.crash "KeyError")
          | some (mine, kind) =>
            decBoard tp (flush squares thisSq) (some [⟨if mine then tp else tp.flip, kind⟩]) rest := by
  rfl

theorem topOfTok_topPieces (mine : Bool) (k : Kind) :
    topOfTok (topPieces mine k) = some (mine, k) := by
  cases mine <;> cases k <;> decide

theorem topPieces_ne (mine : Bool) (k : Kind) :
    topPieces mine k ≠ MY_FLAT ∧ topPieces mine k ≠ THEIR_FLAT ∧ topPieces mine k ≠ EMPTY := by
  cases mine <;> cases k <;> decide

theorem decBoard_square (tp : Color) (sqs : List Stack) (cur : Option Stack) (sq : Stack)
    (rest : List Nat) (h : stackTopsOnly sq = true) :
    decBoard tp sqs cur (squareTokens tp sq ++ rest) = decBoard tp (flush sqs cur) (some sq) rest := by
  cases sq with
  | nil =>
    simp only [squareTokens, List.cons_append, List.nil_append]
    rw [decBoard_cons]
    simp [EMPTY, MY_FLAT, THEIR_FLAT]
  | cons top stack =>
    obtain ⟨col, k⟩ := top
    simp only [squareTokens, List.cons_append]
    rw [decBoard_cons]
    obtain ⟨n1, n2, n3⟩ := topPieces_ne (col == tp) k
    simp only [n1, n2, n3, if_false, topOfTok_topPieces]
    rw [decBoard_flats _ _ _ _ _ h]
    have : (if col = tp then tp else tp.flip) = col := by
      cases col <;> cases tp <;> simp [Color.flip]
    simp [this]

theorem decBoard_board (tp : Color) (sqs : List Stack) (cur : Option Stack) (b : List Stack)
    (h : ∀ s ∈ b, stackTopsOnly s = true) :
    decBoard tp sqs cur (b.flatMap (squareTokens tp)) = .ok (flush sqs cur ++ b) := by
  induction b generalizing sqs cur with
  | nil => simp [decBoard]
  | cons sq b ih =>
    simp only [List.flatMap_cons]
    rw [decBoard_square _ _ _ _ _ (h sq (by simp)), ih _ _ (fun s hs => h s (by simp [hs]))]
    simp [flush]

theorem isqrtGo_sq (n m : Nat) (h : n ≤ m) : isqrtGo (n * n) m = n := by
  induction m with
  | zero => have : n = 0 := by omega
            subst this; rfl
  | succ m ih =>
    unfold isqrtGo
    by_cases hm : n = m + 1
    · subst hm; simp
    · have hlt : n < m + 1 := by omega
      have : ¬ (m + 1) * (m + 1) ≤ n * n := by
        have := Nat.mul_lt_mul'' hlt hlt
        omega
      simp only [this, if_false]
      exact ih (by omega)

theorem isqrt_sq (n : Nat) : isqrt (n * n) = n := by
  unfold isqrt
  apply isqrtGo_sq
  cases n with
  | zero => simp
  | succ k => exact Nat.le_mul_of_pos_left _ (by omega)

/-- what `decode` does after the header has been read -/
def decodeTail (tp : Color) (s1 c1 s2 c2 : Int) (body : List Nat) : Except Err Pos :=
  match decBoard tp [] none body with
  | .error e => .error e
  | .ok squares =>
    if isqrt squares.length * isqrt squares.length ≠ squares.length then .error (.crash "AssertionError")
    else
      .ok { size := isqrt squares.length,
            wStones := if tp = Color.black then s2 else s1,
            wCaps := if tp = Color.black then c2 else c1,
            bStones := if tp = Color.black then s1 else s2,
            bCaps := if tp = Color.black then c1 else c2,
            ply := if tp = Color.white then 2 else 3, board := squares }

theorem decode_frame (tp : Color) (a b c d : Nat) (body : List Nat) (s : Bool)
    (ha : 203 ≤ a ∧ a ≤ 252) (hb : 253 ≤ b ∧ b ≤ 254) (hc : 203 ≤ c ∧ c ≤ 252)
    (hd : 253 ≤ d ∧ d ≤ 254) :
    decode ((if s then [OUTPUT_SENTINEL] else []) ++ toPlayTok tp :: a :: b :: c :: d :: body) =
      decodeTail tp ((a : Int) - 203) ((b : Int) - 253) ((c : Int) - 203) ((d : Int) - 253) body := by
  cases s <;> cases tp <;>
    simp [decode, decodeTail, tget, readReserves, toPlayTok, OUTPUT_SENTINEL, WHITE_TO_PLAY, BLACK_TO_PLAY,
      FIRST_RESERVES_VALUE, LAST_RESERVES_VALUE, FIRST_CAPSTONES_VALUE, LAST_CAPSTONE_VALUE,
      MAX_RESERVES, MAX_CAPSTONES, ha, hb, hc, hd, bind, Except.bind, pure, Except.pure, throw, throwThe, MonadExceptOf.throw] <;>
    (cases decBoard _ [] none body <;> rfl)

theorem decode_encode {p : Pos} (h : EncWF p) (s : Bool) :
    decode (encode p s) = .ok { p with ply := if p.toMove = Color.white then 2 else 3 } := by
  obtain ⟨⟨_, hlen⟩, htops, hv⟩ := h
  obtain ⟨⟨a1, a2⟩, ⟨a3, a4⟩⟩ := hv.mover p.toMove
  obtain ⟨⟨b1, b2⟩, ⟨b3, b4⟩⟩ := hv.mover p.toMove.flip
  rw [encode_eq, decode_frame]
  · simp only [decodeTail, decBoard_board _ _ _ _ htops, flush, List.nil_append, hlen, isqrt_sq,
      ne_eq, not_true_eq_false, if_false]
    obtain ⟨n, ws, wc, bs, bc, ply, b⟩ := p
    cases hm : Pos.toMove ⟨n, ws, wc, bs, bc, ply, b⟩ <;>
      simp [hm, reservesTok, capstonesTok, FIRST_RESERVES_VALUE, LAST_RESERVES_VALUE,
        FIRST_CAPSTONES_VALUE, LAST_CAPSTONE_VALUE, MAX_RESERVES, MAX_CAPSTONES, Pos.stones, Pos.caps,
        Color.flip] at * <;> omega
  all_goals
    simp only [reservesTok, capstonesTok, FIRST_RESERVES_VALUE, LAST_RESERVES_VALUE,
        FIRST_CAPSTONES_VALUE, LAST_CAPSTONE_VALUE, MAX_RESERVES, MAX_CAPSTONES]
    omega

/-! ### the colour-swapped twin -/

theorem toMove_swap (p : Pos) : (swapColours p).toMove = p.toMove.flip := by
  simp only [Pos.toMove, swapColours]
  by_cases h : p.ply % 2 = 0
  · have : ¬ (p.ply + 1) % 2 = 0 := by omega
    simp [h, this, Color.flip]
  · have : (p.ply + 1) % 2 = 0 := by omega
    simp [h, this, Color.flip]

theorem stones_swap (p : Pos) (c : Color) : (swapColours p).stones c = p.stones c.flip := by
  cases c <;> rfl

theorem caps_swap (p : Pos) (c : Color) : (swapColours p).caps c = p.caps c.flip := by
  cases c <;> rfl

theorem squareTokens_swap (mover : Color) (sq : Stack) :
    squareTokens mover.flip (sq.map flipPiece) = squareTokens mover sq := by
  have hf : ∀ pc : Piece, flatTok mover.flip (flipPiece pc) = flatTok mover pc := by
    intro ⟨c, k⟩; cases c <;> cases mover <;> rfl
  cases sq with
  | nil => rfl
  | cons top stack =>
    obtain ⟨c, k⟩ := top
    simp only [List.map_cons, squareTokens, flipPiece, List.map_map, List.cons.injEq]
    refine ⟨?_, ?_⟩
    · cases c <;> cases mover <;> rfl
    · apply List.map_congr_left
      intro pc _
      exact hf pc

theorem encode_swap (p : Pos) (s : Bool) :
    encode (swapColours p) s =
      (encode p s).set (if s then 1 else 0) (toPlayTok p.toMove.flip) := by
  have hb : (swapColours p).board.flatMap (squareTokens p.toMove.flip) =
      p.board.flatMap (squareTokens p.toMove) := by
    simp only [swapColours, List.flatMap_map]
    congr 1
    funext sq
    exact squareTokens_swap _ _
  rw [encode_eq, encode_eq, toMove_swap, hb]
  simp only [stones_swap, caps_swap, Color.flip_flip]
  cases s <;> simp

theorem encWF_swap {p : Pos} (h : EncWF p) : EncWF (swapColours p) := by
  obtain ⟨⟨h1, h2⟩, ht, ⟨v1, v2, v3, v4⟩⟩ := h
  refine ⟨⟨h1, by simpa [swapColours] using h2⟩, ?_, ⟨v3, v4, v1, v2⟩⟩
  intro s hs
  simp only [swapColours, List.mem_map] at hs
  obtain ⟨s0, hs0, rfl⟩ := hs
  have := ht s0 hs0
  cases s0 with
  | nil => rfl
  | cons top rest =>
    simp only [stackTopsOnly, List.map_cons, List.all_map] at this ⊢
    simpa [flipPiece, Function.comp_def] using this

end Tak.Tokens

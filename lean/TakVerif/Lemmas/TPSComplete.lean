/-
  Completeness of the (repaired) parser for C13: every text of the TPS grammar is accepted,
  and what the parser returns is always a position TPS can express.
-/
import TakVerif.Lemmas.TPSMain

namespace Tak.TPS
open Tak.Spec.TPS

/-! ### stacks and items of the grammar are accepted -/

theorem isColour_iff {c : Char} (h : isColour c = true) : ∃ col, c = colorChar col := by
  simp only [isColour, Bool.or_eq_true, decide_eq_true_eq] at h
  rcases h with rfl | rfl
  · exact ⟨.white, rfl⟩
  · exact ⟨.black, rfl⟩

theorem isMark_iff {c : Char} (h : isMark c = true) : ∃ k, k ≠ Kind.flat ∧ [c] = markOf k := by
  simp only [isMark, Bool.or_eq_true, decide_eq_true_eq] at h
  rcases h with rfl | rfl
  · exact ⟨.standing, by decide, rfl⟩
  · exact ⟨.cap, by decide, rfl⟩

theorem isStackText_struct : ∀ (n : Nat) (b : List Char), b.length = n → isStackText b = true →
    ∃ cols : List Color, ∃ k, cols ≠ [] ∧ b = cols.map colorChar ++ markOf k := by
  intro n
  induction n with
  | zero =>
    intro b hl h
    have : b = [] := by simpa using hl
    subst this; simp [isStackText] at h
  | succ n ih =>
    intro b hl h
    match b, hl, h with
    | [c], _, h =>
      obtain ⟨col, rfl⟩ := isColour_iff (by simpa [isStackText] using h)
      exact ⟨[col], .flat, by simp, by simp [markOf]⟩
    | [c, m], _, h =>
      simp only [isStackText, Bool.and_eq_true, Bool.or_eq_true] at h
      obtain ⟨col, rfl⟩ := isColour_iff h.1
      rcases h.2 with hm | hm
      · obtain ⟨col', rfl⟩ := isColour_iff hm
        exact ⟨[col, col'], .flat, by simp, by simp [markOf]⟩
      · obtain ⟨k, _, hk⟩ := isMark_iff hm
        exact ⟨[col], k, by simp, by simp [← hk]⟩
    | c :: c' :: c'' :: rest, hl, h =>
      rw [isStackText] at h
      · simp only [Bool.and_eq_true] at h
        obtain ⟨col, rfl⟩ := isColour_iff h.1
        obtain ⟨cols, k, _, hb⟩ := ih (c' :: c'' :: rest) (by simpa using hl) h.2
        exact ⟨col :: cols, k, by simp, by simp [hb]⟩
      all_goals (intros; simp_all)

theorem parseStack_of_struct (cols : List Color) (k : Kind) (hc : cols ≠ []) :
    ∃ s, parseStack (cols.map colorChar ++ markOf k) [] = .ok s := by
  rw [parseStack_colours]
  cases hr : cols.reverse with
  | nil => exact absurd (by simpa using hr) hc
  | cons a r =>
    cases k <;> simp [markOf, parseStack]

theorem parseItem_of_isItem {b : List Char} (h : isItem b = true) : ∃ S, parseItem b = .ok S := by
  unfold isItem at h
  split at h
  · cases h
  · rename_i c rest
    split at h
    · rename_i hx
      subst hx
      split at h
      · exact ⟨_, parseItem_gap1⟩
      · rename_i d
        have hd : d ∈ ['1', '2', '3', '4', '5', '6', '7', '8'] := by
          simpa [isCount, or_assoc] using h
        exact ⟨List.replicate (decVal [d]) [], by simp only [parseItem, hd, if_true]⟩
      · cases h
    · rename_i hx
      obtain ⟨cols, k, hc, hb⟩ := isStackText_struct _ _ rfl h
      obtain ⟨s, hs⟩ := parseStack_of_struct cols k hc
      rw [← hb] at hs
      exact ⟨[s], by rw [parseItem_stack rest hx, hs]⟩

theorem parseItems_of_isItem (items : List (List Char)) (h : ∀ it ∈ items, isItem it = true) :
    ∀ sqs, ∃ out, parseItems items sqs = .ok out := by
  induction items with
  | nil => intro sqs; exact ⟨sqs, rfl⟩
  | cons it rest ih =>
    intro sqs
    obtain ⟨S, hS⟩ := parseItem_of_isItem (h it (by simp))
    obtain ⟨out, ho⟩ := ih (fun a ha => h a (List.mem_cons_of_mem _ ha)) (sqs ++ S)
    exact ⟨out, by rw [parseItems_cons_ok _ _ hS, ho]⟩

theorem parseRow_of_isRow {n : Nat} {r : List Char} (h : isRow n r = true) :
    ∃ R, parseRow r = .ok R ∧ R.length = n := by
  simp only [isRow, fields_eq_splitOn, Bool.and_eq_true, List.all_eq_true, beq_iff_eq] at h
  obtain ⟨R, hR⟩ := parseItems_of_isItem (splitOn ',' r) h.1 []
  refine ⟨R, hR, ?_⟩
  have := (parseItems_sound _ _ _ hR).2
  simp only [List.length_nil, Nat.zero_add] at this
  omega

theorem parseRows_of_isRow (n : Nat) : ∀ (Rt : List (List Char)),
    (∀ r ∈ Rt, isRow n r = true) → ∀ sqs, ∃ out, parseRows n Rt sqs = .ok out := by
  intro Rt
  induction Rt with
  | nil => intro _ sqs; exact ⟨sqs, rfl⟩
  | cons r Rt ih =>
    intro h sqs
    obtain ⟨R, hR, hl⟩ := parseRow_of_isRow (h r (by simp))
    obtain ⟨out, ho⟩ := ih (fun a ha => h a (List.mem_cons_of_mem _ ha)) (sqs ++ R)
    refine ⟨out, ?_⟩
    rw [parseRows, hR]
    simp only [hl, ne_eq, not_true_eq_false, ↓reduceIte]
    exact ho

/-! ### what the parser returns is expressible -/

theorem parseStack_expressible {b : List Char} {s : Stack} (h : parseStack b [] = .ok s) :
    flatsBelowTop s = true := by
  obtain ⟨cols, k, _, hs⟩ := parseStack_ok h
  have hflat : ∀ (l : List Color), ∀ pc ∈ l.map flatOf, pc.kind = Kind.flat := by
    intro l pc hp
    obtain ⟨c, _, rfl⟩ := List.mem_map.mp hp
    rfl
  rcases hs with ⟨_, rfl⟩ | ⟨_, top, below, hst, rfl⟩
  · simp only [List.append_nil, flatsBelowTop, List.all_eq_true, beq_iff_eq]
    intro pc hp
    exact hflat _ pc (List.mem_of_mem_tail hp)
  · simp only [List.append_nil] at hst
    simp only [flatsBelowTop, List.tail_cons, List.all_eq_true, beq_iff_eq]
    intro pc hp
    exact hflat cols.reverse pc (by rw [hst]; exact List.mem_cons_of_mem _ hp)

theorem parseItem_expressible {b : List Char} {S : List Stack} (h : parseItem b = .ok S) :
    ∀ s ∈ S, flatsBelowTop s = true := by
  rcases parseItem_ok h with ⟨_, rfl⟩ | ⟨d, _, _, rfl⟩ | ⟨c, r, s, _, _, hs, rfl⟩
  · intro s hs; simp at hs; subst hs; rfl
  · intro s hs
    have : s = [] := (List.mem_replicate.mp hs).2
    subst this; rfl
  · intro s' hs'
    simp at hs'; subst hs'
    exact parseStack_expressible hs

theorem parseItems_expressible (items : List (List Char)) : ∀ (sqs out : List Stack),
    parseItems items sqs = .ok out → (∀ s ∈ sqs, flatsBelowTop s = true) →
    ∀ s ∈ out, flatsBelowTop s = true := by
  induction items with
  | nil =>
    intro sqs out h hs
    have : out = sqs := by simpa [parseItems] using h.symm
    subst this; exact hs
  | cons it rest ih =>
    intro sqs out h hs
    unfold parseItems at h
    split at h
    · cases h
    · rename_i S hS
      refine ih _ _ h ?_
      intro s hm
      rcases List.mem_append.mp hm with hm | hm
      · exact hs s hm
      · exact parseItem_expressible hS s hm

theorem parseRows_expressible (n : Nat) : ∀ (Rt : List (List Char)) (sqs out : List Stack),
    parseRows n Rt sqs = .ok out → (∀ s ∈ sqs, flatsBelowTop s = true) →
    ∀ s ∈ out, flatsBelowTop s = true := by
  intro Rt
  induction Rt with
  | nil =>
    intro sqs out h hs
    have : out = sqs := by simpa [parseRows] using h.symm
    subst this; exact hs
  | cons r Rt ih =>
    intro sqs out h hs
    unfold parseRows at h
    split at h
    · cases h
    · rename_i R hR
      split at h
      · cases h
      · refine ih _ _ h ?_
        intro s hm
        rcases List.mem_append.mp hm with hm | hm
        · exact hs s hm
        · exact parseItems_expressible _ _ _ hR (by simp) s hm

/-- every accepted text denotes a position TPS can express -/
theorem parse_tpswf (t : List Char) (p : Pos) (h : parseTPS t = .ok p) : TPSWF p := by
  obtain ⟨b, w, m, squares, _, hw, _, hmv, h3, h8, hrows, hfs⟩ := parseTPS_ok h
  obtain ⟨hsl, hsize, hply, hboard⟩ := fromSquares_some hfs
  simp only [Config.standard] at hsl hsize
  refine ⟨⟨by omega, by rw [hboard, hsize]; exact hsl⟩, by omega, by omega, ?_, ?_⟩
  · rw [hply, plyOf]
    have : decVal w = 1 ∨ decVal w = 2 := by
      rcases hw with e | e <;> subst e
      · left; decide
      · right; decide
    omega
  · rw [hboard, List.all_eq_true]
    exact parseRows_expressible _ _ _ _ hrows (by simp)

/-! ### every text of the grammar is accepted -/

theorem isNumber_iff {m : List Char} (h : isNumber m = true) :
    isDigits m = true ∧ 1 ≤ decVal m := by
  simp only [isNumber, Bool.and_eq_true, Bool.not_eq_true', List.isEmpty_eq_false_iff,
    List.all_eq_true, List.any_eq_true, decide_eq_true_eq] at h
  obtain ⟨⟨hne, hd⟩, c, hc, hc0⟩ := h
  have hd' : ∀ c ∈ m, c.isDigit = true := by
    intro c hc
    obtain ⟨h0, h9⟩ := hd c hc
    rw [isDigit_iff]
    have e0 : ('0' : Char).toNat = 48 := rfl
    have e9 : ('9' : Char).toNat = 57 := rfl
    have h0' : ('0' : Char).val ≤ c.val := h0
    have h9' : c.val ≤ ('9' : Char).val := h9
    rw [UInt32.le_iff_toNat_le] at h0' h9'
    have a0 : ('0' : Char).val.toNat = 48 := rfl
    have a9 : ('9' : Char).val.toNat = 57 := rfl
    have ac : c.val.toNat = c.toNat := rfl
    omega
  refine ⟨?_, (decVal_pos_iff hd').mpr ⟨c, hc, by simpa using hc0⟩⟩
  simp only [isDigits, Bool.and_eq_true, Bool.not_eq_true', List.isEmpty_eq_false_iff,
    List.all_eq_true]
  exact ⟨hne, hd'⟩

theorem complete (t : List Char) (h : Grammar t) : ∃ p, parseTPS t = .ok p := by
  simp only [Grammar, grammarb, fields_eq_splitOn] at h
  split at h
  · rename_i b w m hsp
    simp only [Bool.and_eq_true] at h
    obtain ⟨⟨hb, hw⟩, hm⟩ := h
    obtain ⟨hmd, hmv⟩ := isNumber_iff hm
    have hw' : w = ['1'] ∨ w = ['2'] := by simpa [isPlayer] using hw
    simp only [isBoard, fields_eq_splitOn, Bool.and_eq_true, decide_eq_true_eq,
      List.all_eq_true] at hb
    obtain ⟨⟨h3, h8⟩, hrows⟩ := hb
    obtain ⟨squares, hsq⟩ := parseRows_of_isRow (splitOn '/' b).length (splitOn '/' b).reverse
      (fun r hr => hrows r (by simpa using hr)) []
    have hl := (parseRows_sound _ _ _ _ hsq).2
    simp only [List.length_nil, Nat.zero_add, List.length_reverse] at hl
    unfold parseTPS
    rw [hsp]
    simp only
    have hnw : ¬ (w ≠ ['1'] ∧ w ≠ ['2']) := by rcases hw' with e | e <;> simp [e]
    rw [if_neg hnw]
    have hnm : (!isDigits m || decide (decVal m < 1)) = false := by
      rw [hmd]; simp; omega
    rw [hnm]
    simp only [Bool.false_eq_true, ↓reduceIte]
    have hsz : ¬ ¬ (3 ≤ (splitOn '/' b).length ∧ (splitOn '/' b).length ≤ 8) := by simp [h3, h8]
    rw [if_neg hsz, hsq]
    simp [Pos.fromSquares, Config.standard, hl]
  · cases h

/-- the reserves of a parsed position are the standard set minus what is on the board -/
theorem reparsed_of_parse (t : List Char) (p : Pos) (h : parseTPS t = .ok p) : reparsed p = p := by
  obtain ⟨b, w, m, squares, _, _, _, _, _, _, _, hfs⟩ := parseTPS_ok h
  unfold Pos.fromSquares at hfs
  split at hfs
  · cases hfs
  · simp only [Option.some.injEq] at hfs
    subst hfs
    rfl

/-- an accepted text denotes the position whose standard text the parser reads back as the
    same position -/
theorem accepted_means_standard (t : List Char) (p : Pos) (h : parseTPS t = .ok p) :
    parseTPS (writeTPS p) = .ok p := by
  have hwf := parse_tpswf t p h
  rw [← format_is_standard p hwf]
  exact parse_format_exact p hwf (reparsed_of_parse t p h)

end Tak.TPS

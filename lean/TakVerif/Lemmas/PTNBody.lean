/-
  The body of a rendered game: comment removal, white-space split, the token loop.
-/
import TakVerif.Lemmas.PTNGame

namespace Tak.C14
open Tak Tak.PTN

/-! ### the characters tokens are made of -/

def tokChars : List Char :=
  stoneChars ++ countChars ++ fileChars ++ dirChars ++ ['\'', '!', '?', '.', '/', '0', '9', 'R']

theorem tokChars_facts : ∀ c ∈ tokChars, c ≠ '{' ∧ c ≠ '}' ∧ pySpace c = false := by decide

theorem pySpace_ne_open {c : Char} (h : pySpace c = true) : c ≠ '{' := by
  intro e; subst e; revert h; decide

/-- every character of an accepted move text is of the PTN alphabet, and one of them is a file letter -/
theorem accepted_chars {t : List Char} {m : Move} (h : parseMove t = .ok m) :
    (∀ c ∈ t, c ∈ stoneChars ++ countChars ++ fileChars ++ dirChars) ∧ ∃ c ∈ t, isFile c = true := by
  unfold parseMove at h
  cases hm : matchMove t with
  | none => simp [hm] at h
  | some g =>
    obtain ⟨ht, hst, hpk, hf, hr, hd, hdr, htr⟩ := matchMove_spec hm
    constructor
    · intro c hc
      rw [ht] at hc
      simp only [List.mem_append, List.mem_cons, Option.mem_toList] at hc ⊢
      rcases hc with hc | hc | rfl | rfl | hc | hc | hc
      · exact Or.inl (Or.inl (Or.inl (isStone_iff.1 (hst c hc))))
      · exact Or.inl (Or.inl (Or.inr (isCount_iff.1 (hpk c hc))))
      · exact Or.inl (Or.inr (isFile_iff.1 hf))
      · exact Or.inl (Or.inl (Or.inr (isCount_iff.1 hr)))
      · exact Or.inr (isDir_iff.1 (hd c hc))
      · exact Or.inl (Or.inl (Or.inr (isCount_iff.1 (hdr c hc))))
      · exact Or.inl (Or.inl (Or.inl (isStone_iff.1 (htr c hc))))
    · exact ⟨g.file, by rw [ht]; simp, hf⟩

theorem item_chars (i : Item) (h : ItemOK i) : ∀ c ∈ renderItem i, c ∈ tokChars := by
  cases i with
  | move t a =>
    obtain ⟨⟨m, hm⟩, ha⟩ := h
    intro c hc
    simp only [renderItem, List.mem_append] at hc
    rcases hc with hc | hc
    · have := (accepted_chars hm).1 c hc
      simp only [tokChars, List.mem_append] at this ⊢
      exact Or.inl this
    · have := ha c hc
      simp only [isAnnot, Bool.or_eq_true, beq_iff_eq] at this
      rcases this with (rfl | rfl) | rfl <;> decide
  | number d =>
    intro c hc
    simp only [renderItem, List.mem_append, List.mem_singleton] at hc
    rcases hc with hc | rfl
    · exact (by decide : ∀ c ∈ asciiDigits, c ∈ tokChars) c (h.2 c hc)
    · decide
  | dashes =>
    intro c hc
    simp only [renderItem, List.mem_cons, List.not_mem_nil, or_false, or_self] at hc
    subst hc; decide
  | result a b =>
    obtain ⟨ha, hb⟩ := h
    exact (by decide : ∀ a < 5, ∀ b < 5, ∀ c ∈ renderItem (.result a b), c ∈ tokChars) a ha b hb

/-! ### comment removal -/

/-- what a gap looks like after the comments have been replaced by a blank -/
def flatGap (g : List GapAtom) : List Char :=
  g.map fun a => match a with | .ws c => c | .comment _ => ' '

theorem flatGap_space (g : List GapAtom) (h : ∀ a ∈ g, AtomOK a) : ∀ c ∈ flatGap g, pySpace c = true := by
  intro c hc
  obtain ⟨a, ha, rfl⟩ := List.mem_map.1 hc
  cases a with
  | ws c => exact h _ ha
  | comment b => show pySpace ' ' = true; decide

theorem strip_plain (l s : List Char) (h : ∀ c ∈ l, c ≠ '{') :
    stripComments false (l ++ s) = l ++ stripComments false s := by
  induction l with
  | nil => rfl
  | cons c t ih =>
    have hc : (c == '{') = false := by simp [h c (by simp)]
    simp only [List.cons_append, stripComments, hc, Bool.false_eq_true, if_false]
    rw [ih (fun c' hc' => h c' (List.mem_cons_of_mem _ hc'))]

theorem strip_inside (b s : List Char) (h : '}' ∉ b) :
    stripComments true (b ++ '}' :: s) = stripComments false s := by
  induction b with
  | nil => simp [stripComments]
  | cons c t ih =>
    have hc : (c == '}') = false := by
      simp only [List.mem_cons, not_or] at h
      simp [Ne.symm h.1]
    simp only [List.cons_append, stripComments, hc, Bool.false_eq_true, if_false]
    exact ih (fun h' => h (List.mem_cons_of_mem _ h'))

theorem strip_comment (b s : List Char) (h : '}' ∉ b) :
    stripComments false ('{' :: b ++ '}' :: s) = ' ' :: stripComments false s := by
  have hc : (b ++ '}' :: s).contains '}' = true := by simp
  simp only [List.cons_append, stripComments, beq_self_eq_true, if_true, hc]
  rw [strip_inside b s h]

theorem strip_gap (g : List GapAtom) (s : List Char) (h : ∀ a ∈ g, AtomOK a) :
    stripComments false (renderGap g ++ s) = flatGap g ++ stripComments false s := by
  induction g with
  | nil => rfl
  | cons a t ih =>
    have ih := ih (fun a' ha' => h a' (List.mem_cons_of_mem _ ha'))
    have ha := h a (by simp)
    cases a with
    | ws c =>
      have hc : (c == '{') = false := by simp [pySpace_ne_open ha]
      simp only [renderGap, List.flatMap_cons, renderAtom, List.cons_append,
        List.nil_append, stripComments, hc, Bool.false_eq_true, if_false, flatGap, List.map_cons] at ih ⊢
      rw [ih]
    | comment b =>
      simp only [renderGap, List.flatMap_cons, renderAtom, List.append_assoc, List.cons_append,
        List.nil_append, flatGap, List.map_cons] at ih ⊢
      have := strip_comment b (List.flatMap renderAtom t ++ s) ha
      simp only [List.cons_append] at this
      rw [this, ih]

/-- the body after comment removal -/
def flatItems (items : List (Item × List GapAtom)) : List Char :=
  items.flatMap fun p => renderItem p.1 ++ flatGap p.2

theorem itemsOK_all : ∀ (items : List (Item × List GapAtom)), ItemsOK items →
    ∀ p ∈ items, ItemOK p.1 ∧ ∀ a ∈ p.2, AtomOK a
  | [], _ => by simp
  | [p], h => by intro q hq; simp at hq; subst hq; exact h
  | p :: q :: rest, h => by
    intro r hr
    rcases List.mem_cons.1 hr with rfl | hr
    · exact ⟨h.1, h.2.1⟩
    · exact itemsOK_all (q :: rest) h.2.2.2 r hr

theorem strip_items (items : List (Item × List GapAtom))
    (h : ∀ p ∈ items, ItemOK p.1 ∧ ∀ a ∈ p.2, AtomOK a) :
    stripComments false (items.flatMap fun p => renderItem p.1 ++ renderGap p.2) = flatItems items := by
  induction items with
  | nil => rfl
  | cons p t ih =>
    have ih := ih (fun q hq => h q (List.mem_cons_of_mem _ hq))
    obtain ⟨hi, hg⟩ := h p (by simp)
    simp only [List.flatMap_cons, List.append_assoc, flatItems] at ih ⊢
    rw [strip_plain _ _ (fun c hc => (tokChars_facts c (item_chars p.1 hi c hc)).1), strip_gap _ _ hg, ih]

theorem strip_body (lead : List GapAtom) (items : List (Item × List GapAtom))
    (hl : ∀ a ∈ lead, AtomOK a) (hi : ItemsOK items) :
    stripComments false (renderBody lead items) = flatGap lead ++ flatItems items := by
  unfold renderBody
  rw [strip_gap _ _ hl, strip_items _ (itemsOK_all items hi)]

/-! ### the white-space split and the token loop -/

/-- a text that is empty or begins with white space starts a new (empty) token -/
theorem splitWs_space_head : ∀ (s : List Char), (s = [] ∨ ∃ c r, s = c :: r ∧ pySpace c = true) →
    ∃ tl, splitWs s = [] :: tl
  | [], _ => ⟨[], rfl⟩
  | c :: r, h => by
    have hc : pySpace c = true := by
      rcases h with h | ⟨c', r', h, hc'⟩
      · cases h
      · cases h; exact hc'
    cases r with
    | nil => simp only [splitWs, hc, if_true]; exact ⟨_, rfl⟩
    | cons c' r' =>
      by_cases hc' : pySpace c' = true
      · obtain ⟨tl, htl⟩ := splitWs_space_head (c' :: r') (Or.inr ⟨c', r', rfl, hc'⟩)
        exact ⟨tl, by simp only [splitWs, hc, hc', if_true] at htl ⊢; exact htl⟩
      · simp only [splitWs, hc, hc', if_true, Bool.false_eq_true, if_false]; exact ⟨_, rfl⟩

theorem splitWs_word (w s : List Char) (tl : List (List Char)) (hw : ∀ c ∈ w, pySpace c = false)
    (hs : splitWs s = [] :: tl) : splitWs (w ++ s) = w :: tl := by
  induction w with
  | nil => exact hs
  | cons c t ih =>
    have := ih (fun c' hc' => hw c' (List.mem_cons_of_mem _ hc'))
    simp only [List.cons_append, splitWs, hw c (by simp), Bool.false_eq_true, if_false, this]

/-- the token loop after a white-space character: the character changes nothing -/
theorem tokens_space (c : Char) (s : List Char) (hc : pySpace c = true) :
    parseTokens (splitWs (c :: s)) = parseTokens (splitWs s) := by
  cases s with
  | nil => simp [splitWs, hc, parseTokens, skipToken]
  | cons c' r =>
    by_cases hc' : pySpace c' = true
    · simp only [splitWs, hc, hc', if_true]
    · simp only [splitWs, hc, hc', if_true, Bool.false_eq_true, if_false]
      simp [parseTokens, skipToken]

theorem tokens_spaces (l s : List Char) (h : ∀ c ∈ l, pySpace c = true) :
    parseTokens (splitWs (l ++ s)) = parseTokens (splitWs s) := by
  induction l with
  | nil => rfl
  | cons c t ih =>
    rw [List.cons_append, tokens_space c _ (h c (by simp)), ih (fun c' hc' => h c' (List.mem_cons_of_mem _ hc'))]

/-- one word followed by the end or by white space: the loop sees the word, then the rest -/
theorem tokens_word (w s : List Char) (hw : ∀ c ∈ w, pySpace c = false)
    (hs : s = [] ∨ ∃ c r, s = c :: r ∧ pySpace c = true) :
    ∃ tl, parseTokens (splitWs (w ++ s)) = parseTokens (w :: tl) ∧
      parseTokens tl = parseTokens (splitWs s) := by
  obtain ⟨tl, htl⟩ := splitWs_space_head s hs
  refine ⟨tl, by rw [splitWs_word w s tl hw htl], ?_⟩
  rw [htl]
  simp [parseTokens, skipToken]

/-! ### what the loop does with each kind of element -/

theorem isResult_chars {u : List Char} (h : isResult u = true) : ∀ c ∈ u, isFile c = false := by
  simp only [isResult, List.any_eq_true, beq_iff_eq] at h
  obtain ⟨x, hx, y, hy, rfl⟩ := h
  exact (by decide : ∀ x ∈ resultSides, ∀ y ∈ resultSides, ∀ c ∈ x ++ '-' :: y, isFile c = false) x hx y hy

theorem isMoveNo_chars {u : List Char} (h : isMoveNo u = true) : ∀ c ∈ u, pyDigit c = true ∨ c = '.' := by
  simp only [isMoveNo, Bool.and_eq_true, beq_iff_eq] at h
  intro c hc
  rw [← List.takeWhile_append_dropWhile (p := pyDigit) (l := u), h.2] at hc
  rcases List.mem_append.1 hc with hc | hc
  · exact Or.inl (mem_takeWhile_imp hc)
  · exact Or.inr (by simpa using hc)

theorem skip_hasFile (u : List Char) (h : ∃ c ∈ u, isFile c = true) : skipToken u = false := by
  obtain ⟨c, hc, hf⟩ := h
  have hcf := isFile_iff.1 hf
  simp only [skipToken, Bool.or_eq_false_iff]
  refine ⟨⟨⟨?_, ?_⟩, ?_⟩, ?_⟩
  · apply Bool.eq_false_iff.2
    intro e
    have e := beq_iff_eq.1 e
    rw [e] at hc
    simp only [List.mem_cons, List.not_mem_nil, or_false, or_self] at hc
    subst hc
    exact absurd hf (by decide)
  · apply Bool.eq_false_iff.2
    intro e
    have := isResult_chars e c hc
    rw [hf] at this; cases this
  · apply Bool.eq_false_iff.2
    intro e
    have hfd := (by decide +kernel : ∀ c ∈ fileChars, pyDigit c = false ∧ c ≠ '.') c hcf
    rcases isMoveNo_chars e c hc with h1 | h1
    · rw [hfd.1] at h1; cases h1
    · exact hfd.2 h1
  · cases u with
    | nil => cases hc
    | cons _ _ => rfl

theorem stripAnnot_move (t a : List Char) (hne : t ≠ []) (ht : ∀ c ∈ t, isAnnot c = false)
    (ha : ∀ c ∈ a, isAnnot c = true) : stripAnnot (t ++ a) = t := by
  unfold stripAnnot
  rw [List.reverse_append, List.dropWhile_append_of_pos (by intro c hc; exact ha c (List.mem_reverse.1 hc))]
  cases hr : t.reverse with
  | nil => exact absurd (List.reverse_eq_nil_iff.1 hr) hne
  | cons x xs =>
    have hx : isAnnot x = false := ht x (List.mem_reverse.1 (by rw [hr]; simp))
    rw [List.dropWhile_cons_of_neg (by simp [hx]), ← hr, List.reverse_reverse]

theorem move_token (t a : List Char) (m : Move) (hm : parseMove t = .ok m) (ha : ∀ c ∈ a, isAnnot c = true) :
    skipToken (t ++ a) = false ∧ stripAnnot (t ++ a) = t := by
  obtain ⟨hch, c, hc, hf⟩ := accepted_chars hm
  refine ⟨skip_hasFile _ ⟨c, List.mem_append_left _ hc, hf⟩, stripAnnot_move t a ?_ ?_ ha⟩
  · intro e; rw [e] at hc; cases hc
  · intro c' hc'
    exact (by decide : ∀ c ∈ stoneChars ++ countChars ++ fileChars ++ dirChars, isAnnot c = false) c' (hch c' hc')

theorem skip_number (d : List Char) (hne : d ≠ []) (hd : ∀ c ∈ d, c ∈ asciiDigits) :
    skipToken (d ++ ['.']) = true := by
  have hdig : ∀ c ∈ d, pyDigit c = true :=
    fun c hc => (by decide +kernel : ∀ c ∈ asciiDigits, pyDigit c = true) c (hd c hc)
  obtain ⟨h1, h2⟩ := takeWhile_append_stop pyDigit d '.' [] hdig (by decide +kernel)
  have : d.isEmpty = false := by cases d with | nil => exact absurd rfl hne | cons _ _ => rfl
  simp [skipToken, isMoveNo, h1, h2, this]

theorem skip_result (a b : Nat) (ha : a < 5) (hb : b < 5) : skipToken (renderItem (.result a b)) = true :=
  (by decide : ∀ a < 5, ∀ b < 5, skipToken (renderItem (.result a b)) = true) a ha b hb

/-! ### the whole body -/

theorem tokens_step (p : Item × List GapAtom) (r : List (Item × List GapAtom))
    (hp : ItemOK p.1) (hg : ∀ a ∈ p.2, AtomOK a) (hlast : p.2 = [] → r = [])
    (ih : parseTokens (splitWs (flatItems r)) = .ok (movesOf r)) :
    parseTokens (splitWs (flatItems (p :: r))) = .ok (movesOf (p :: r)) := by
  have e : flatItems (p :: r) = renderItem p.1 ++ (flatGap p.2 ++ flatItems r) := by
    simp [flatItems]
  have hsp := flatGap_space p.2 hg
  have hs : (flatGap p.2 ++ flatItems r) = [] ∨
      ∃ c t, (flatGap p.2 ++ flatItems r) = c :: t ∧ pySpace c = true := by
    cases hgap : p.2 with
    | nil => left; rw [hlast hgap]; rfl
    | cons a g =>
      right
      rw [hgap] at hsp
      simp only [flatGap, List.map_cons, List.cons_append] at hsp ⊢
      exact ⟨_, _, rfl, hsp _ (by simp)⟩
  have hw : ∀ c ∈ renderItem p.1, pySpace c = false :=
    fun c hc => (tokChars_facts c (item_chars p.1 hp c hc)).2.2
  obtain ⟨tl, h1, h2⟩ := tokens_word _ _ hw hs
  rw [tokens_spaces _ _ hsp, ih] at h2
  rw [e, h1]
  obtain ⟨i, g⟩ := p
  simp only at hp hg hlast hw ⊢
  cases i with
  | move t a =>
    obtain ⟨⟨m, hm⟩, ha⟩ := hp
    obtain ⟨hk, hst⟩ := move_token t a m hm ha
    simp only [renderItem, parseTokens, hk, hst, hm, h2, Bool.false_eq_true, if_false]
    simp [movesOf, hm]
  | number d =>
    simp only [renderItem, parseTokens, skip_number d hp.1 hp.2, if_true, h2]
    simp [movesOf]
  | dashes =>
    have : skipToken ['-', '-'] = true := by simp [skipToken]
    simp only [renderItem, parseTokens, this, if_true, h2]
    simp [movesOf]
  | result a b =>
    simp only [parseTokens, skip_result a b hp.1 hp.2, if_true, h2]
    simp [movesOf]

theorem tokens_items : ∀ (items : List (Item × List GapAtom)), ItemsOK items →
    parseTokens (splitWs (flatItems items)) = .ok (movesOf items)
  | [], _ => by simp [flatItems, splitWs, parseTokens, skipToken, movesOf]
  | [p], h => tokens_step p [] h.1 h.2 (fun _ => rfl) (tokens_items [] trivial)
  | p :: q :: rest, h =>
    tokens_step p (q :: rest) h.1 h.2.1 (fun e => absurd e h.2.2.1) (tokens_items (q :: rest) h.2.2.2)

/-- `PTN.parse` of a rendered game gives back its tags and exactly its moves, in order -/
theorem game (tags : List (List Char × List Char)) (lead : List GapAtom)
    (items : List (Item × List GapAtom))
    (ht : ∀ kv ∈ tags, TagOK kv) (hl : ∀ a ∈ lead, AtomOK a) (hi : ItemsOK items) :
    parse (render tags lead items) = .ok ⟨tags, movesOf items⟩ := by
  unfold parse render
  rw [splitBlank_head tags ht]
  simp only
  rw [scanTags_head tags ht, strip_body lead items hl hi,
    tokens_spaces _ _ (flatGap_space lead hl), tokens_items items hi]

/-! ### any text: the loop never crashes, and accepts only when every word is decoration or a move -/

theorem parseTokens_cases (ts : List (List Char)) :
    (∃ ms, parseTokens ts = .ok ms) ∨ parseTokens ts = .error .badMove := by
  induction ts with
  | nil => exact Or.inl ⟨[], rfl⟩
  | cons t r ih =>
    simp only [parseTokens]
    split
    · exact ih
    · rcases parseMove_cases (stripAnnot t) with h | ⟨m, h, _⟩
      · right; simp [h]
      · rcases ih with ⟨ms, hms⟩ | hms
        · left; exact ⟨m :: ms, by simp [h, hms]⟩
        · right; simp [h, hms]

/-- the moves the loop is supposed to return for a list of words -/
def wordMoves (ts : List (List Char)) : List Move :=
  ts.filterMap fun w =>
    if skipToken w then none else
    match parseMove (stripAnnot w) with
    | .ok m => some m
    | .error _ => none

theorem parseTokens_ok (ts : List (List Char)) (ms : List Move) (h : parseTokens ts = .ok ms) :
    ms = wordMoves ts ∧ ∀ w ∈ ts, skipToken w = true ∨ ∃ m, parseMove (stripAnnot w) = .ok m := by
  induction ts generalizing ms with
  | nil => simp [parseTokens] at h; subst h; simp [wordMoves]
  | cons t r ih =>
    simp only [parseTokens] at h
    by_cases hk : skipToken t = true
    · simp only [hk, if_true] at h
      obtain ⟨h1, h2⟩ := ih ms h
      refine ⟨by rw [h1]; simp [wordMoves, hk], ?_⟩
      intro w hw
      rcases List.mem_cons.1 hw with rfl | hw
      · exact Or.inl hk
      · exact h2 w hw
    · simp only [hk] at h
      cases hm : parseMove (stripAnnot t) with
      | error e => simp [hm] at h
      | ok m =>
        cases hr : parseTokens r with
        | error e => simp [hm, hr] at h
        | ok ms' =>
          simp [hm, hr] at h
          obtain ⟨h1, h2⟩ := ih ms' hr
          refine ⟨by rw [← h, h1]; simp [wordMoves, hk, hm], ?_⟩
          intro w hw
          rcases List.mem_cons.1 hw with rfl | hw
          · exact Or.inr ⟨m, hm⟩
          · exact h2 w hw

theorem parse_cases (t : List Char) :
    (∃ g, parse t = .ok g) ∨ parse t = .error .badMove ∨
      (parse t = .error (.crash "ValueError") ∧ splitBlank t = none) := by
  unfold parse
  cases hs : splitBlank t with
  | none => exact Or.inr (Or.inr ⟨rfl, rfl⟩)
  | some ht =>
    obtain ⟨head, tail⟩ := ht
    simp only
    rcases parseTokens_cases (splitWs (stripComments false tail)) with ⟨ms, h⟩ | h
    · left; exact ⟨_, by rw [h]⟩
    · right; left; rw [h]

theorem parse_ok (t head tail : List Char) (g : Game) (hs : splitBlank t = some (head, tail))
    (h : parse t = .ok g) :
    g.tags = scanTags 0 true head ∧ g.moves = wordMoves (splitWs (stripComments false tail)) ∧
    ∀ w ∈ splitWs (stripComments false tail), skipToken w = true ∨ ∃ m, parseMove (stripAnnot w) = .ok m := by
  unfold parse at h
  rw [hs] at h
  simp only at h
  cases hp : parseTokens (splitWs (stripComments false tail)) with
  | error e => simp [hp] at h
  | ok ms =>
    simp [hp] at h
    subst h
    obtain ⟨h1, h2⟩ := parseTokens_ok _ ms hp
    exact ⟨rfl, h1, h2⟩

end Tak.C14

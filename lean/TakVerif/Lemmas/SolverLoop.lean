/-
  Helper lemmas for C10: what the two loops return (in terms of the trajectory `iter`) and
  when they are guaranteed to return.  Any linearly ordered field.
-/
import TakVerif.Lemmas.Solver

set_option linter.unusedSectionVars false
set_option linter.unusedVariables false

namespace Tak.Solver

variable {F : Type} [Field F] [LinearOrder F] [IsStrictOrderedRing F]

theorem iter_succ' (lam : F) (ps : List (F × F)) (j : Nat) (s : St F) :
    iter lam ps (j + 1) s = iter lam ps j (s.next (g lam ps s.a)) := rfl

/-- what a returned value of the C++ loop is: the midpoint of the `j`-th bracket, with the
    sum within `1e-3` of one there; the `sum == last_sum` exit is never the one taken -/
theorem loopCpp_ok {lam b : F} {ps : List (F × F)} (hv : Valid lam ps) :
    ∀ (fuel k : Nat) (s : St F) (last : Option F) (o : Out F),
      Inv lam ps b s → (∀ v, last = some v → v ≠ g lam ps s.a) →
      loopCpp lam ps fuel k s last = .ok o →
      ∃ j, j < fuel ∧ o.alpha = (iter lam ps j s).a ∧ o.rounds = k + j + 1 ∧
        o.w = weights lam ps o.alpha ∧ o.exit = .sigma ∧ |g lam ps o.alpha - 1| ≤ 1 / 1000 := by
  intro fuel
  induction fuel with
  | zero => intro k s last o _ _ h; simp [loopCpp] at h
  | succ fuel ih =>
    intro k s last o hinv hlast h
    simp only [loopCpp] at h
    split at h
    · next hs =>
      simp only [Except.ok.injEq] at h
      subst h
      rw [absv_eq_abs, sigmaEps_eq] at hs
      exact ⟨0, Nat.succ_pos _, rfl, rfl, rfl, rfl, hs⟩
    · next hs =>
      split at h
      · next hsame => exact absurd rfl (hlast _ hsame)
      · next hsame =>
        have hne1 : g lam ps s.a ≠ 1 := by
          intro h1
          apply hs
          rw [absv_eq_abs, sigmaEps_eq, h1, sub_self, abs_zero]
          norm_num
        obtain ⟨j, hj, h1, h2, h3, h4, h5⟩ := ih (k + 1) _ _ o hinv.next
          (by
            intro v hv'
            simp only [Option.some.injEq] at hv'
            subst hv'
            exact (hinv.next_ne hv hne1).symm) h
        exact ⟨j + 1, Nat.succ_lt_succ hj, by rw [iter_succ']; exact h1, by omega, h3, h4, h5⟩

/-- what a returned value of the Python loop is -/
theorem loopPy_ok {lam b : F} {ps : List (F × F)} :
    ∀ (fuel k : Nat) (s : St F) (o : Out F),
      loopPy lam ps fuel k s = .ok o →
      ∃ j, j < fuel ∧ o.alpha = (iter lam ps j s).a ∧ o.rounds = k + j + 1 ∧
        o.w = weights lam ps o.alpha ∧
        ((o.exit = .sigma ∧ |g lam ps o.alpha - 1| ≤ 1 / 1000) ∨
         (o.exit = .width ∧ (iter lam ps j s).hi - (iter lam ps j s).lo ≤ 1 / 1000000)) := by
  intro fuel
  induction fuel with
  | zero => intro k s o h; simp [loopPy] at h
  | succ fuel ih =>
    intro k s o h
    simp only [loopPy] at h
    split at h
    · next hs =>
      simp only [Except.ok.injEq] at h
      subst h
      rw [absv_eq_abs, sigmaEps_eq, abs_sub_comm] at hs
      exact ⟨0, Nat.succ_pos _, rfl, rfl, rfl, Or.inl ⟨rfl, hs⟩⟩
    · next hs =>
      split at h
      · next hw =>
        simp only [Except.ok.injEq] at h
        subst h
        rw [widthEps_eq] at hw
        exact ⟨0, Nat.succ_pos _, rfl, rfl, rfl, Or.inr ⟨rfl, hw⟩⟩
      · next hw =>
        obtain ⟨j, hj, h1, h2, h3, h4⟩ := ih (k + 1) _ o h
        exact ⟨j + 1, Nat.succ_lt_succ hj, by rw [iter_succ']; exact h1, by omega, h3,
          by rw [iter_succ']; exact h4⟩

/-- the Python loop returns as soon as `fuel` halvings bring the width below `1e-6` -/
theorem loopPy_terminates (lam : F) (ps : List (F × F)) :
    ∀ (fuel k : Nat) (s : St F), s.a = (s.lo + s.hi) / 2 →
      s.hi - s.lo ≤ 1 / 1000000 * 2 ^ fuel → ∃ o, loopPy lam ps (fuel + 1) k s = .ok o := by
  intro fuel
  induction fuel with
  | zero =>
    intro k s hmid hw
    simp only [loopPy]
    split
    · exact ⟨_, rfl⟩
    · rw [if_pos (by rw [widthEps_eq]; simpa using hw)]
      exact ⟨_, rfl⟩
  | succ fuel ih =>
    intro k s hmid hw
    simp only [loopPy]
    split
    · exact ⟨_, rfl⟩
    · split
      · exact ⟨_, rfl⟩
      · apply ih (k + 1) _ (next_mid _ _)
        rw [next_width _ _ hmid]
        rw [pow_succ] at hw
        linarith

/-- the C++ loop returns as soon as `fuel` halvings bring `(half width)/(lo₀ − max q)` below
    `1e-3` -/
theorem loopCpp_terminates {lam b m : F} {ps : List (F × F)} (hv : Valid lam ps)
    (hq : ∀ x ∈ ps, x.2 ≤ m) (hm : m < b) :
    ∀ (fuel k : Nat) (s : St F) (last : Option F), Inv lam ps b s →
      (s.hi - s.lo) / 2 / (b - m) ≤ 1 / 1000 * 2 ^ fuel →
      ∃ o, loopCpp lam ps (fuel + 1) k s last = .ok o := by
  intro fuel
  induction fuel with
  | zero =>
    intro k s last hinv hw
    simp only [loopCpp]
    have := hinv.err_le hv hq hm
    rw [if_pos (by rw [absv_eq_abs, sigmaEps_eq]; simp only [pow_zero, mul_one] at hw; linarith)]
    exact ⟨_, rfl⟩
  | succ fuel ih =>
    intro k s last hinv hw
    simp only [loopCpp]
    split
    · exact ⟨_, rfl⟩
    · split
      · exact ⟨_, rfl⟩
      · apply ih (k + 1) _ _ hinv.next
        rw [next_width _ _ hinv.mid]
        have hbm : 0 < b - m := by linarith
        rw [pow_succ] at hw
        have : (s.hi - s.lo) / 2 / 2 / (b - m) = (s.hi - s.lo) / 2 / (b - m) / 2 := by ring
        rw [this]
        linarith

end Tak.Solver

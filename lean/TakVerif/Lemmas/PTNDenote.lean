/-
  The model against the standard (`Spec/PTNGrammar.lean`): standard-form text is accepted with the
  denoted meaning; accepted text is inside the loose grammar.
-/
import TakVerif.Lemmas.PTNParse
import TakVerif.Spec.PTNGrammar

namespace Tak.C14
open Tak Tak.PTN

/-! ### the spec's tables against the model's classes -/

theorem fileIdx_spec {c : Char} {x : Nat} (h : Spec.fileIdx c = some x) :
    isFile c = true ∧ (c.toNat : Int) - 97 = x := by
  unfold Spec.fileIdx at h
  split at h <;> first | (cases h; decide) | cases h

theorem digit18_spec {c : Char} {n : Nat} (h : Spec.digit18 c = some n) :
    isCount c = true ∧ digitVal c = n ∧ (c.toNat : Int) - 49 = ((n - 1 : Nat) : Int) ∧ 1 ≤ n ∧ n ≤ 8 := by
  unfold Spec.digit18 at h
  split at h <;> first | (cases h; decide) | cases h

theorem rankIdx_spec {c : Char} {y : Nat} (h : Spec.rankIdx c = some y) :
    isCount c = true ∧ (c.toNat : Int) - 49 = y := by
  unfold Spec.rankIdx at h
  cases hd : Spec.digit18 c with
  | none => simp [hd] at h
  | some n =>
    simp [hd] at h
    subst h
    exact ⟨(digit18_spec hd).1, (digit18_spec hd).2.2.1⟩

theorem dirVec_spec {c : Char} {v : Int × Int} (h : Spec.dirVec c = some v) :
    isDir c = true ∧ ∃ t, slideMap c = some t ∧ t.isSlide = true ∧ t.direction = v := by
  unfold Spec.dirVec at h
  split at h <;> first | (cases h; decide) | cases h

theorem stoneKind_spec {c : Char} {k : Kind} (h : Spec.stoneKind c = some k) :
    isStone c = true ∧ placeMap (some c) = some (Spec.placeType k) := by
  unfold Spec.stoneKind at h
  split at h <;> first | (cases h; decide) | cases h

theorem sum_map_ofNat (ns : List Nat) : (ns.map Int.ofNat).sum = (ns.sum : Int) := by
  induction ns with
  | nil => rfl
  | cons a t ih => simp only [List.map_cons, List.sum_cons, ih]; simp

theorem dropsOf_spec {cs : List Char} {ns : List Nat} (h : Spec.dropsOf cs = some ns) :
    (∀ c ∈ cs, isCount c = true) ∧ cs.map digitVal = ns.map Int.ofNat ∧ (cs = [] ↔ ns = []) := by
  induction cs generalizing ns with
  | nil => simp [Spec.dropsOf] at h; subst h; simp
  | cons c t ih =>
    simp only [Spec.dropsOf] at h
    cases hd : Spec.digit18 c with
    | none => simp [hd] at h
    | some n =>
      cases ht : Spec.dropsOf t with
      | none => simp [hd, ht] at h
      | some ms =>
        simp [hd, ht] at h
        subst h
        obtain ⟨h1, h2, _⟩ := ih ht
        obtain ⟨hc, hv, _⟩ := digit18_spec hd
        refine ⟨?_, ?_, by simp⟩
        · intro c' hc'
          rcases List.mem_cons.1 hc' with rfl | h'
          · exact hc
          · exact h1 _ h'
        · simp only [List.map_cons, h2, hv]; rfl

theorem dropPart_spec (rest : List Char) :
    ∃ tr : Option Char, rest = Spec.dropPart rest ++ tr.toList ∧ ∀ c, tr = some c → isStone c = true := by
  unfold Spec.dropPart
  cases hl : rest.getLast? with
  | none => exact ⟨none, by simp, by simp⟩
  | some c =>
    simp only
    cases hk : Spec.stoneKind c with
    | none => exact ⟨none, by simp, by simp⟩
    | some k =>
      refine ⟨some c, ?_, ?_⟩
      · obtain ⟨ys, rfl⟩ := List.getLast?_eq_some_iff.1 hl
        simp
      · intro c' hc'; cases hc'; exact (stoneKind_spec hk).1

/-! ### standard-form text is accepted and means what the standard says -/

theorem denote_slide_core (pk : Option Char) (count : Option Nat)
    (hpk : (pk = none ∧ count = none) ∨ (∃ p n, pk = some p ∧ count = some n ∧ Spec.digit18 p = some n))
    (f r d : Char) (rest : List Char) (den : Spec.PTNDen)
    (h : Spec.denoteSlide count (f :: r :: d :: rest) = some den) :
    ∃ m, parseMove (pk.toList ++ f :: r :: d :: rest) = .ok m ∧ Spec.DenotesMove den m := by
  simp only [Spec.denoteSlide] at h
  cases hf : Spec.fileIdx f with
  | none => simp [hf] at h
  | some x =>
  cases hr : Spec.rankIdx r with
  | none => simp [hf, hr] at h
  | some y =>
  cases hd : Spec.dirVec d with
  | none => simp [hf, hr, hd] at h
  | some v =>
  cases hdr : Spec.dropsOf (Spec.dropPart rest) with
  | none => simp [hf, hr, hd, hdr] at h
  | some ns =>
  simp only [hf, hr, hd, hdr] at h
  obtain ⟨hfc, hfx⟩ := fileIdx_spec hf
  obtain ⟨hrc, hry⟩ := rankIdx_spec hr
  obtain ⟨hdc, t, ht, hts, htd⟩ := dirVec_spec hd
  obtain ⟨hcs, hmap, hemp⟩ := dropsOf_spec hdr
  obtain ⟨tr, hrest, htr⟩ := dropPart_spec rest
  have hpkc : ∀ c, pk = some c → isCount c = true := by
    intro c hc
    rcases hpk with ⟨h1, _⟩ | ⟨p, n, h1, _, h3⟩
    · rw [h1] at hc; cases hc
    · rw [h1] at hc; cases hc; exact (digit18_spec h3).1
  have hm : matchMove (pk.toList ++ f :: r :: d :: rest)
      = some ⟨none, pk, f, r, some d, Spec.dropPart rest, tr⟩ := by
    have := matchMove_build none pk f r (some d) (Spec.dropPart rest) tr (by simp) hpkc hfc hrc
      (by intro c hc; cases hc; exact hdc) hcs htr
    rw [← hrest] at this
    simpa using this
  unfold parseMove
  rw [hm]
  simp only
  by_cases hne : ns = []
  · -- no drops written: the whole carry is dropped on the first square
    have hdp : Spec.dropPart rest = [] := hemp.2 hne
    subst hne
    simp only [List.isEmpty_nil, if_true, Option.some.injEq] at h
    subst h
    rw [hdp]
    rcases hpk with ⟨h1, h2⟩ | ⟨p, n, h1, h2, h3⟩
    · subst h1; subst h2
      refine ⟨_, semantic_slide_bare _ _ _ _ _ t ht, ?_⟩
      simp [Spec.DenotesMove, Spec.denotesMoveb, hfx, hry, hts, htd]
    · subst h1; subst h2
      obtain ⟨_, hv, _, _, h8⟩ := digit18_spec h3
      refine ⟨_, semantic_slide_count _ _ _ _ _ _ t ht (by rw [hv]; omega), ?_⟩
      simp [Spec.DenotesMove, Spec.denotesMoveb, hfx, hry, hts, htd, hv]
  · have hne' : Spec.dropPart rest ≠ [] := fun e => hne (hemp.1 e)
    have hie : ns.isEmpty = false := by
      cases ns with
      | nil => exact absurd rfl hne
      | cons _ _ => rfl
    simp only [hie, Bool.false_eq_true, if_false] at h
    split at h
    · rename_i hsum
      simp only [Option.some.injEq] at h
      subst h
      have hsumI : ((Spec.dropPart rest).map digitVal).sum = ((count.getD 1 : Nat) : Int) := by
        rw [hmap, sum_map_ofNat, hsum]
      have h8 : ((count.getD 1 : Nat) : Int) ≤ 8 := by
        rcases hpk with ⟨_, h2⟩ | ⟨p, n, _, h2, h3⟩
        · subst h2; simp
        · subst h2; have := (digit18_spec h3).2.2.2.2; simp; omega
      refine ⟨_, semantic_slide_drops _ _ _ _ _ pk _ t ht hne' (by rw [hsumI]; exact h8) ?_, ?_⟩
      · intro p hp
        rcases hpk with ⟨h1, _⟩ | ⟨p', n, h1, h2, h3⟩
        · rw [h1] at hp; cases hp
        · rw [h1] at hp; cases hp
          rw [hsumI, (digit18_spec h3).2.1, h2]; rfl
      · simp [Spec.DenotesMove, Spec.denotesMoveb, hfx, hry, hts, htd, hmap, hsum]
    · cases h

theorem denote_place (st : Option Char) (k : Kind) (f r : Char) (x y : Nat)
    (hst : (st = none ∧ k = .flat) ∨ ∃ c, st = some c ∧ Spec.stoneKind c = some k)
    (hf : Spec.fileIdx f = some x) (hr : Spec.rankIdx r = some y) :
    ∃ m, parseMove (st.toList ++ [f, r]) = .ok m ∧ Spec.DenotesMove (.place x y k) m := by
  obtain ⟨hfc, hfx⟩ := fileIdx_spec hf
  obtain ⟨hrc, hry⟩ := rankIdx_spec hr
  have hsc : ∀ c, st = some c → isStone c = true := by
    intro c hc
    rcases hst with ⟨h1, _⟩ | ⟨c', h1, h2⟩
    · rw [h1] at hc; cases hc
    · rw [h1] at hc; cases hc; exact (stoneKind_spec h2).1
  have hpm : placeMap st = some (Spec.placeType k) := by
    rcases hst with ⟨h1, h2⟩ | ⟨c', h1, h2⟩
    · subst h1; subst h2; rfl
    · subst h1; exact (stoneKind_spec h2).2
  have hm : matchMove (st.toList ++ [f, r]) = some ⟨st, none, f, r, none, [], none⟩ := by
    have := matchMove_build st none f r none [] none hsc (by simp) hfc hrc (by simp) (by simp) (by simp)
    simpa using this
  unfold parseMove
  rw [hm]
  refine ⟨_, semantic_place _ _ _ _ _ hpm, ?_⟩
  simp [Spec.DenotesMove, Spec.denotesMoveb, hfx, hry]

theorem denotes (t : List Char) (d : Spec.PTNDen) (h : Spec.ptnDenote t = some d) :
    ∃ m, parseMove t = .ok m ∧ Spec.DenotesMove d m := by
  cases t with
  | nil => simp [Spec.ptnDenote] at h
  | cons a t1 =>
  cases t1 with
  | nil =>
    simp only [Spec.ptnDenote] at h
    cases hk : Spec.stoneKind a with
    | some k => simp [hk] at h
    | none =>
      cases hn : Spec.digit18 a with
      | some n => simp [hk, hn, Spec.denoteSlide] at h
      | none => simp [hk, hn, Spec.denoteSlide] at h
  | cons b t2 =>
  cases t2 with
  | nil =>
    simp only [Spec.ptnDenote] at h
    cases hf : Spec.fileIdx a with
    | none => simp [hf] at h
    | some x =>
      cases hr : Spec.rankIdx b with
      | none => simp [hf, hr] at h
      | some y =>
        simp [hf, hr] at h
        subst h
        exact denote_place none .flat a b x y (Or.inl ⟨rfl, rfl⟩) hf hr
  | cons c t3 =>
    simp only [Spec.ptnDenote] at h
    cases hk : Spec.stoneKind a with
    | some k =>
      simp only [hk] at h
      cases t3 with
      | cons e t4 => simp at h
      | nil =>
        simp only at h
        cases hf : Spec.fileIdx b with
        | none => simp [hf] at h
        | some x =>
          cases hr : Spec.rankIdx c with
          | none => simp [hf, hr] at h
          | some y =>
            simp [hf, hr] at h
            subst h
            exact denote_place (some a) k b c x y (Or.inr ⟨a, rfl, hk⟩) hf hr
    | none =>
      simp only [hk] at h
      cases hn : Spec.digit18 a with
      | some n =>
        simp only [hn] at h
        cases t3 with
        | nil => simp [Spec.denoteSlide] at h
        | cons e t4 =>
          exact denote_slide_core (some a) (some n) (Or.inr ⟨a, n, rfl, rfl, hn⟩) b c e t4 d h
      | none =>
        simp only [hn] at h
        exact denote_slide_core none none (Or.inl ⟨rfl, rfl⟩) a b c t3 d h

/-! ### accepted text is inside the loose grammar (everything else is refused) -/

/-- what acceptance by `semantic` says about the groups -/
theorem semantic_ok_inv (g : Groups) (m : Move) (h : semantic g = .ok m) :
    (g.dir = none → g.pickup = none ∧ g.drops = []) ∧
    (g.drops ≠ [] → (g.drops.map digitVal).sum ≤ 8 ∧
      ∀ p, g.pickup = some p → digitVal p = (g.drops.map digitVal).sum) := by
  obtain ⟨stone, pickup, file, rank, dir, drops, trail⟩ := g
  cases dir with
  | none =>
    cases pickup with
    | some p => simp [semantic] at h
    | none =>
      cases drops with
      | nil => simp
      | cons c cs =>
        exfalso
        simp only [semantic] at h
        split at h
        · cases h
        · split at h
          · cases h
          · simp at h
  | some d =>
    refine ⟨by simp, ?_⟩
    intro hne
    simp only at hne ⊢
    cases drops with
    | nil => exact absurd rfl hne
    | cons c cs =>
      simp only [semantic] at h
      cases ht : typeOf ⟨stone, pickup, file, rank, some d, c :: cs, trail⟩ with
      | error e => simp [ht] at h
      | ok t =>
        cases pickup with
        | none =>
          simp [ht, truthy, sumSlides] at h
          split at h
          · cases h
          · rename_i h8
            refine ⟨?_, by simp⟩
            simp only [List.map_cons, List.sum_cons]
            omega
        | some p =>
          simp [ht, truthy, sumSlides] at h
          simp only [List.map_cons, List.sum_cons]
          split at h
          · cases h
          · rename_i h8
            split at h
            · rename_i hp
              refine ⟨by omega, ?_⟩
              intro p' hp'
              cases hp'
              exact hp
            · cases h

theorem stone_spec {c : Char} (h : isStone c = true) : Spec.IsStone c :=
  (by decide : ∀ c ∈ stoneChars, (Spec.stoneKind c).isSome = true) c (isStone_iff.1 h)
theorem file_spec {c : Char} (h : isFile c = true) : Spec.IsFile c :=
  (by decide : ∀ c ∈ fileChars, (Spec.fileIdx c).isSome = true) c (isFile_iff.1 h)
theorem dir_spec {c : Char} (h : isDir c = true) : Spec.IsDir c :=
  (by decide : ∀ c ∈ dirChars, (Spec.dirVec c).isSome = true) c (isDir_iff.1 h)
theorem count_spec {c : Char} (h : isCount c = true) :
    Spec.IsDigit18 c ∧ (((Spec.digit18 c).getD 0 : Nat) : Int) = digitVal c :=
  (by decide : ∀ c ∈ countChars, (Spec.digit18 c).isSome = true ∧
      (((Spec.digit18 c).getD 0 : Nat) : Int) = digitVal c) c (isCount_iff.1 h)

theorem optOf_toList {P : Char → Prop} {p : Char → Bool} (o : Option Char)
    (h : ∀ c, o = some c → p c = true) (hp : ∀ c, p c = true → P c) : Spec.OptOf P o.toList := by
  cases o with
  | none => left; rfl
  | some c => right; exact ⟨c, hp c (h c rfl), rfl⟩

theorem dropTotal_eq (cs : List Char) (h : ∀ c ∈ cs, isCount c = true) :
    ((Spec.dropTotal cs : Nat) : Int) = (cs.map digitVal).sum := by
  induction cs with
  | nil => rfl
  | cons c t ih =>
    have := ih (fun c' hc' => h c' (List.mem_cons_of_mem _ hc'))
    have hc := (count_spec (h c (by simp))).2
    simp only [Spec.dropTotal, List.map_cons, List.sum_cons] at this ⊢
    omega

theorem accepted_loose (t : List Char) (m : Move) (h : parseMove t = .ok m) : Spec.Loose t := by
  unfold parseMove at h
  cases hm : matchMove t with
  | none => simp [hm] at h
  | some g =>
    simp only [hm] at h
    obtain ⟨ht, hst, hpk, hf, hr, hd, hdr, htr⟩ := matchMove_spec hm
    obtain ⟨hnd, hdrops⟩ := semantic_ok_inv g m h
    refine ⟨g.stone.toList, g.pickup.toList ++ (g.file :: g.rank :: (g.dir.toList ++ g.drops)), g.trail.toList,
      by rw [ht]; simp, optOf_toList _ hst (fun _ => stone_spec), optOf_toList _ htr (fun _ => stone_spec), ?_⟩
    cases hdir : g.dir with
    | none =>
      obtain ⟨h1, h2⟩ := hnd hdir
      left
      exact ⟨g.file, g.rank, by simp [h1, h2], file_spec hf, (count_spec hr).1⟩
    | some d =>
      right
      refine ⟨g.pickup.toList, g.file, g.rank, d, g.drops, by simp,
        optOf_toList _ hpk (fun _ hc => (count_spec hc).1), file_spec hf, (count_spec hr).1,
        dir_spec (hd d hdir), fun c hc => (count_spec (hdr c hc)).1, ?_, ?_⟩
      · by_cases hne : g.drops = []
        · rw [hne]; simp [Spec.dropTotal]
        · have := (hdrops hne).1
          have e := dropTotal_eq g.drops hdr
          omega
      · intro hc hne
        cases hp : g.pickup with
        | none => simp [hp] at hc
        | some p =>
          have := (hdrops hne).2 p hp
          have e := dropTotal_eq g.drops hdr
          have e2 := dropTotal_eq [p] (by intro c hc; simp at hc; rw [hc]; exact hpk p hp)
          simp only [Option.toList_some]
          simp only [List.map_cons, List.map_nil, List.sum_cons, List.sum_nil] at e2
          omega

/-! ### conversely, everything inside the loose grammar is accepted -/

theorem spec_stone {c : Char} (h : Spec.IsStone c) : isStone c = true := by
  unfold Spec.IsStone Spec.stoneKind at h
  split at h <;> first | decide | simp at h
theorem spec_file {c : Char} (h : Spec.IsFile c) : isFile c = true := by
  unfold Spec.IsFile Spec.fileIdx at h
  split at h <;> first | decide | simp at h
theorem spec_digit {c : Char} (h : Spec.IsDigit18 c) : isCount c = true := by
  unfold Spec.IsDigit18 Spec.digit18 at h
  split at h <;> first | decide | simp at h
theorem spec_dir {c : Char} (h : Spec.IsDir c) : isDir c = true := by
  unfold Spec.IsDir Spec.dirVec at h
  split at h <;> first | decide | simp at h

theorem optOf_inv {P : Char → Prop} {p : Char → Bool} {l : List Char} (h : Spec.OptOf P l)
    (hp : ∀ c, P c → p c = true) : ∃ o : Option Char, l = o.toList ∧ ∀ c, o = some c → p c = true := by
  rcases h with rfl | ⟨c, hc, rfl⟩
  · exact ⟨none, rfl, by simp⟩
  · exact ⟨some c, rfl, by intro c' hc'; cases hc'; exact hp c hc⟩

theorem loose_accepted (t : List Char) (h : Spec.Loose t) : ∃ m, parseMove t = .ok m := by
  obtain ⟨pre, core, post, rfl, hpre, hpost, hcore⟩ := h
  obtain ⟨st, rfl, hst⟩ := optOf_inv hpre (fun _ => spec_stone)
  obtain ⟨tr, rfl, htr⟩ := optOf_inv hpost (fun _ => spec_stone)
  rcases hcore with ⟨f, r, rfl, hf, hr⟩ | ⟨cnt, f, r, d, drops, rfl, hcnt, hf, hr, hd, hdr, htot, hsum⟩
  · have hm := matchMove_build st none f r none [] tr hst (by simp) (spec_file hf) (spec_digit hr)
      (by simp) (by simp) htr
    obtain ⟨ty, hty, _⟩ := placeMap_stone hst
    have e : st.toList ++ [f, r] ++ tr.toList
        = st.toList ++ ((none : Option Char).toList ++ (f :: r :: ((none : Option Char).toList ++ ([] ++ tr.toList)))) := by
      simp
    unfold parseMove
    rw [e, hm]
    exact ⟨_, semantic_place _ _ _ _ ty hty⟩
  · obtain ⟨pk, rfl, hpk⟩ := optOf_inv hcnt (fun _ => spec_digit)
    have hdrc : ∀ c ∈ drops, isCount c = true := fun c hc => spec_digit (hdr c hc)
    have hm := matchMove_build st pk f r (some d) drops tr hst hpk (spec_file hf) (spec_digit hr)
      (by intro c hc; cases hc; exact spec_dir hd) hdrc htr
    obtain ⟨ty, hty, _⟩ := slideMap_dir (spec_dir hd)
    have e : st.toList ++ (pk.toList ++ [f, r, d] ++ drops) ++ tr.toList
        = st.toList ++ (pk.toList ++ (f :: r :: ((some d).toList ++ (drops ++ tr.toList)))) := by
      simp
    unfold parseMove
    rw [e, hm]
    by_cases hne : drops = []
    · subst hne
      cases pk with
      | none => exact ⟨_, semantic_slide_bare _ _ _ _ _ ty hty⟩
      | some p => exact ⟨_, semantic_slide_count _ _ _ _ _ _ ty hty (count_range (hpk p rfl)).2.2.2⟩
    · have e1 := dropTotal_eq drops hdrc
      refine ⟨_, semantic_slide_drops _ _ _ _ _ pk drops ty hty hne (by omega) ?_⟩
      intro p hp
      subst hp
      have := hsum (by simp) hne
      have e2 := dropTotal_eq [p] (by intro c hc; simp at hc; rw [hc]; exact hpk p rfl)
      simp only [Option.toList_some] at this
      simp only [List.map_cons, List.map_nil, List.sum_cons, List.sum_nil] at e2
      omega

end Tak.C14

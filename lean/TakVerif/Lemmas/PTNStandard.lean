/-
  `formatMove` writes standard-form text that denotes the move it was given.
-/
import TakVerif.Lemmas.PTNDenote

namespace Tak.C14
open Tak Tak.PTN

theorem file_chr (x : Int) (h0 : 0 ≤ x) (h7 : x ≤ 7) :
    Spec.fileIdx (chrOff 97 x) = some x.toNat ∧ Spec.stoneKind (chrOff 97 x) = none ∧
      Spec.digit18 (chrOff 97 x) = none := by
  have : x = 0 ∨ x = 1 ∨ x = 2 ∨ x = 3 ∨ x = 4 ∨ x = 5 ∨ x = 6 ∨ x = 7 := by omega
  rcases this with rfl | rfl | rfl | rfl | rfl | rfl | rfl | rfl <;> decide

theorem rank_chr (y : Int) (h0 : 0 ≤ y) (h7 : y ≤ 7) : Spec.rankIdx (chrOff 49 y) = some y.toNat := by
  have : y = 0 ∨ y = 1 ∨ y = 2 ∨ y = 3 ∨ y = 4 ∨ y = 5 ∨ y = 6 ∨ y = 7 := by omega
  rcases this with rfl | rfl | rfl | rfl | rfl | rfl | rfl | rfl <;> decide

theorem digit_chr (d : Int) (h1 : 1 ≤ d) (h8 : d ≤ 8) :
    Spec.digit18 (chrOff 48 d) = some d.toNat ∧ Spec.stoneKind (chrOff 48 d) = none := by
  have : d = 1 ∨ d = 2 ∨ d = 3 ∨ d = 4 ∨ d = 5 ∨ d = 6 ∨ d = 7 ∨ d = 8 := by omega
  rcases this with rfl | rfl | rfl | rfl | rfl | rfl | rfl | rfl <;> decide

theorem dropsOf_chr (ds : List Int) (h : ∀ d ∈ ds, 1 ≤ d ∧ d ≤ 8) :
    Spec.dropsOf (ds.map (chrOff 48)) = some (ds.map Int.toNat) := by
  induction ds with
  | nil => rfl
  | cons a t ih =>
    simp only [List.map_cons, Spec.dropsOf, ih (fun d hd => h d (List.mem_cons_of_mem _ hd)),
      (digit_chr a (h a (by simp)).1 (h a (by simp)).2).1]

theorem dropPart_plain (l : List Char) (h : ∀ c ∈ l, Spec.stoneKind c = none) : Spec.dropPart l = l := by
  unfold Spec.dropPart
  cases hl : l.getLast? with
  | none => rfl
  | some c =>
    obtain ⟨ys, rfl⟩ := List.getLast?_eq_some_iff.1 hl
    simp [h c (by simp)]

theorem map_toNat_back (ds : List Int) (h : ∀ d ∈ ds, 1 ≤ d ∧ d ≤ 8) :
    (ds.map Int.toNat).map Int.ofNat = ds ∧ (((ds.map Int.toNat).sum : Nat) : Int) = ds.sum := by
  induction ds with
  | nil => exact ⟨rfl, rfl⟩
  | cons a t ih =>
    obtain ⟨i1, i2⟩ := ih (fun d hd => h d (List.mem_cons_of_mem _ hd))
    have ha := h a (by simp)
    constructor
    · simp only [List.map_cons, i1]
      congr 1
      exact Int.toNat_of_nonneg (by omega)
    · simp only [List.map_cons, List.sum_cons]
      omega

/-- the denotation of a move of the universe, read off the `Move` value (no text involved) -/
def denOf (m : Move) : Spec.PTNDen :=
  match m.type with
  | .placeFlat => .place m.x.toNat m.y.toNat .flat
  | .placeStanding => .place m.x.toNat m.y.toNat .standing
  | .placeCap => .place m.x.toNat m.y.toNat .cap
  | t =>
    let ds := (m.slides.getD []).map Int.toNat
    .slide m.x.toNat m.y.toNat t.direction.1 t.direction.2 ds.sum ds

theorem format_standard_slide (x y : Int) (t : MoveType) (dc : Char) (ds : List Int)
    (hx0 : 0 ≤ x) (hx7 : x ≤ 7) (hy0 : 0 ≤ y) (hy7 : y ≤ 7)
    (hR : slideR t = [dc]) (hvec : Spec.dirVec dc = some t.direction) (hsl : t.isSlide = true)
    (hne : ds ≠ []) (hrange : ∀ d ∈ ds, 1 ≤ d ∧ d ≤ 8) (hsum : ds.sum ≤ 8) :
    Spec.ptnDenote (formatMove ⟨x, y, t, some ds⟩)
      = some (.slide x.toNat y.toNat t.direction.1 t.direction.2 (ds.map Int.toNat).sum (ds.map Int.toNat)) := by
  obtain ⟨hf, hfs, hfd⟩ := file_chr x hx0 hx7
  have hr := rank_chr y hy0 hy7
  have hP := placeR_slide hsl
  have hlen := sum_ge_length ds (fun d hd => (hrange d hd).1)
  obtain ⟨hb1, hb2⟩ := map_toNat_back ds hrange
  cases ds with
  | nil => exact absurd rfl hne
  | cons a rest =>
  cases rest with
  | nil =>
    have ha := hrange a (by simp)
    obtain ⟨_, _, hastr⟩ := drop_digit a ha.1 ha.2
    obtain ⟨had, has⟩ := digit_chr a ha.1 ha.2
    by_cases h1 : a = 1
    · subst h1
      have e : formatMove ⟨x, y, t, some [1]⟩ = [chrOff 97 x, chrOff 49 y, dc] := by
        simp [formatMove, hP, hsl, hR]
      rw [e]
      simp [Spec.ptnDenote, hfs, hfd, Spec.denoteSlide, hf, hr, hvec, Spec.dropPart, Spec.dropsOf]
    · have e : formatMove ⟨x, y, t, some [a]⟩ = [chrOff 48 a, chrOff 97 x, chrOff 49 y, dc] := by
        simp [formatMove, hP, hsl, hR, h1, hastr]
      rw [e]
      simp [Spec.ptnDenote, has, had, Spec.denoteSlide, hf, hr, hvec, Spec.dropPart, Spec.dropsOf]
  | cons b rest' =>
    have h2 : 2 ≤ (a :: b :: rest').sum := by
      simp only [List.length_cons] at hlen
      omega
    obtain ⟨_, _, hsstr⟩ := drop_digit _ (by omega : 1 ≤ (a :: b :: rest').sum) hsum
    obtain ⟨hsd, hss⟩ := digit_chr _ (by omega : 1 ≤ (a :: b :: rest').sum) hsum
    have hne1 : (a :: b :: rest').sum ≠ 1 := by omega
    have e : formatMove ⟨x, y, t, some (a :: b :: rest')⟩ =
        chrOff 48 (a :: b :: rest').sum :: chrOff 97 x :: chrOff 49 y :: dc :: (a :: b :: rest').map (chrOff 48) := by
      simp only [formatMove, hP, hsl, hR, Option.getD_some, if_true, hsstr, hne1, ne_eq, not_false_eq_true]
      simp
    have hdp : Spec.dropPart ((a :: b :: rest').map (chrOff 48)) = (a :: b :: rest').map (chrOff 48) := by
      apply dropPart_plain
      intro c hc
      obtain ⟨d, hd, rfl⟩ := List.mem_map.1 hc
      exact (digit_chr d (hrange d hd).1 (hrange d hd).2).2
    have hdo := dropsOf_chr (a :: b :: rest') hrange
    have hsumN : ((a :: b :: rest').map Int.toNat).sum = ((a :: b :: rest').sum).toNat := by omega
    rw [e]
    generalize (a :: b :: rest') = L at *
    have hemp : (L.map Int.toNat).isEmpty = false := by
      cases L with
      | nil => exact absurd rfl hne
      | cons _ _ => rfl
    simp only [Spec.ptnDenote, hss, hsd, Spec.denoteSlide, hf, hr, hvec, hdp, hdo, Option.getD_some, hemp,
      hsumN, Bool.false_eq_true, if_false, if_true]

theorem format_standard (m : Move) (h : Move8 m) :
    Spec.ptnDenote (formatMove m) = some (denOf m) ∧ Spec.DenotesMove (denOf m) m := by
  obtain ⟨x, y, t, sl⟩ := m
  obtain ⟨hx0, hx7, hy0, hy7, hs⟩ := h
  simp only at hx0 hx7 hy0 hy7 hs
  obtain ⟨hf, hfs, hfd⟩ := file_chr x hx0 hx7
  have hr := rank_chr y hy0 hy7
  have hxn : ((x.toNat : Nat) : Int) = x := Int.toNat_of_nonneg hx0
  have hyn : ((y.toNat : Nat) : Int) = y := Int.toNat_of_nonneg hy0
  have slideCase : ∀ (t : MoveType) (dc : Char) (ds : List Int), slideR t = [dc] →
      Spec.dirVec dc = some t.direction → t.isSlide = true → ds ≠ [] → (∀ d ∈ ds, 1 ≤ d ∧ d ≤ 8) → ds.sum ≤ 8 →
      denOf ⟨x, y, t, some ds⟩ = .slide x.toNat y.toNat t.direction.1 t.direction.2 (ds.map Int.toNat).sum (ds.map Int.toNat) →
      Spec.ptnDenote (formatMove ⟨x, y, t, some ds⟩) = some (denOf ⟨x, y, t, some ds⟩) ∧
        Spec.DenotesMove (denOf ⟨x, y, t, some ds⟩) ⟨x, y, t, some ds⟩ := by
    intro t dc ds hR hvec hsl hne hrange hsum hden
    rw [hden]
    refine ⟨format_standard_slide x y t dc ds hx0 hx7 hy0 hy7 hR hvec hsl hne hrange hsum, ?_⟩
    simp [Spec.DenotesMove, Spec.denotesMoveb, hxn, hyn, hsl, (map_toNat_back ds hrange).1]
  cases t with
  | placeFlat =>
    simp only [MoveType.isSlide] at hs; simp at hs; subst hs
    have e : formatMove ⟨x, y, .placeFlat, none⟩ = [chrOff 97 x, chrOff 49 y] := by
      simp [formatMove, placeR, MoveType.isSlide]
    rw [e]
    simp [denOf, Spec.ptnDenote, hf, hr, Spec.DenotesMove, Spec.denotesMoveb, hxn, hyn, Spec.placeType]
  | placeStanding =>
    simp only [MoveType.isSlide] at hs; simp at hs; subst hs
    have e : formatMove ⟨x, y, .placeStanding, none⟩ = ['S', chrOff 97 x, chrOff 49 y] := by
      simp [formatMove, placeR, MoveType.isSlide]
    rw [e]
    simp [denOf, Spec.ptnDenote, Spec.stoneKind, hf, hr, Spec.DenotesMove, Spec.denotesMoveb, hxn, hyn, Spec.placeType]
  | placeCap =>
    simp only [MoveType.isSlide] at hs; simp at hs; subst hs
    have e : formatMove ⟨x, y, .placeCap, none⟩ = ['C', chrOff 97 x, chrOff 49 y] := by
      simp [formatMove, placeR, MoveType.isSlide]
    rw [e]
    simp [denOf, Spec.ptnDenote, Spec.stoneKind, hf, hr, Spec.DenotesMove, Spec.denotesMoveb, hxn, hyn, Spec.placeType]
  | left =>
    simp only [MoveType.isSlide, if_true] at hs
    obtain ⟨ds, rfl, hne, hr', hsum⟩ := hs
    exact slideCase .left '<' ds rfl rfl rfl hne hr' hsum rfl
  | right =>
    simp only [MoveType.isSlide, if_true] at hs
    obtain ⟨ds, rfl, hne, hr', hsum⟩ := hs
    exact slideCase .right '>' ds rfl rfl rfl hne hr' hsum rfl
  | up =>
    simp only [MoveType.isSlide, if_true] at hs
    obtain ⟨ds, rfl, hne, hr', hsum⟩ := hs
    exact slideCase .up '+' ds rfl rfl rfl hne hr' hsum rfl
  | down =>
    simp only [MoveType.isSlide, if_true] at hs
    obtain ⟨ds, rfl, hne, hr', hsum⟩ := hs
    exact slideCase .down '-' ds rfl rfl rfl hne hr' hsum rfl

end Tak.C14

/-
  Inverses at the level of positions and moves, and transport of `Rules.Legal`
  (proved from Spec/Rules.lean directly, no use of the C01 refinement).
-/
import TakVerif.Spec.Rules
import TakVerif.Lemmas.SymMove

namespace Tak
namespace Sym
open Mat3 Rules

/-! ### undoing a symmetry -/

theorem scatter_inv {s s' : Mat3} (hs : s ∈ SYMS) (hs' : s' ∈ SYMS) (h : mul s' s = ident)
    {n : Nat} {b : List Stack} (hb : b.length = n * n) :
    scatter s' n (scatter s n b) = b := by
  have hr := rel_scatter hs hb
  have : Rel s' n (scatter s n b) b := by
    refine ⟨hr.2.1, hb, ?_⟩
    intro X Y hXY
    obtain ⟨x, y, hxy, rfl, rfl⟩ := image_surj hs hXY
    have := inv_act hs h x y ((n : Int) - 1)
    unfold sx sy
    rw [this.1, this.2]
    exact (hr.2.2 x y hxy).symm
  exact (rel_eq_scatter hs' this).symm

theorem transformPos_inv {s s' : Mat3} (hs : s ∈ SYMS) (hs' : s' ∈ SYMS) (h : mul s' s = ident)
    {p : Pos} (hwf : p.WF) : transformPos s' (transformPos s p) = p := by
  unfold transformPos
  simp only [scatter_inv hs hs' h hwf.2]

theorem direction_inj {t1 t2 : MoveType} (h1 : t1.isSlide = true) (h2 : t2.isSlide = true)
    (h : t1.direction = t2.direction) : t1 = t2 := by
  cases t1 <;> cases t2 <;>
    first
      | rfl
      | (exfalso; revert h; decide)
      | (exfalso; revert h1; decide)
      | (exfalso; revert h2; decide)

theorem transformMove_inv {s s' : Mat3} (hs : s ∈ SYMS) (hs' : s' ∈ SYMS) (h : mul s' s = ident)
    (m : Move) (n : Nat) : transformMove s' (transformMove s m n) n = m := by
  obtain ⟨ax1, ay1, asl1, ais1, ans1, ad1⟩ := transformMove_spec hs m n
  obtain ⟨ax2, ay2, asl2, ais2, ans2, ad2⟩ := transformMove_spec hs' (transformMove s m n) n
  generalize transformMove s m n = m1 at *
  generalize transformMove s' m1 n = m2 at *
  obtain ⟨x, y, t, sl⟩ := m
  obtain ⟨x1, y1, t1, sl1⟩ := m1
  obtain ⟨x2, y2, t2, sl2⟩ := m2
  simp only at *
  subst ax1 ay1 asl1 ax2 ay2 asl2
  have e := inv_act hs h x y ((n : Int) - 1)
  rw [e.1, e.2]
  suffices t2 = t by rw [this]
  cases hsl : t.isSlide
  · rw [ans2 (by rw [ais1, hsl]), ans1 hsl]
  · have i1 : t1.isSlide = true := by rw [ais1, hsl]
    have i2 : t2.isSlide = true := by rw [ais2, i1]
    apply direction_inj i2 hsl
    rw [ad2 i1, ad1 hsl]
    have e0 := inv_act hs h t.direction.1 t.direction.2 0
    simp only [e0.1, e0.2]

/-! ### legality is transported -/

theorem pathSq_T {s : Mat3} (hs : s ∈ SYMS) (m : Move) (n : Nat) (hsl : m.type.isSlide = true) (i : Nat) :
    pathSq (transformMove s m n) i = (sx s n (pathSq m i).1 (pathSq m i).2, sy s n (pathSq m i).1 (pathSq m i).2) := by
  obtain ⟨hx, hy, _, _, _, hd⟩ := transformMove_spec hs m n
  unfold pathSq
  rw [hx, hy, hd hsl]
  simp only [sx, sy, ax_affine, ay_affine]

theorem placeOK_T {s : Mat3} (hs : s ∈ SYMS) {p : Pos} (hwf : p.WF) {m : Move} {k : Kind}
    (h : PlaceOK p m k) : PlaceOK (transformPos s p) (transformMove s m p.size) k := by
  obtain ⟨hx, hy, _, _, hns, _⟩ := transformMove_spec hs m p.size
  have hnsl : m.type.isSlide = false := by
    have := h.kind
    cases ht : m.type <;> simp [ht, placeKind] at this <;> rfl
  refine ⟨?_, ?_, ?_, ?_, ?_⟩
  · rw [hns hnsl]; exact h.kind
  · rw [hx, hy]; exact (inBounds_T hs p m.x m.y).trans h.onBoard
  · exact h.opening
  · rw [hx, hy]; exact (atI_T hs hwf h.onBoard).trans h.empty
  · exact h.reserve

theorem slideOK_T {s : Mat3} (hs : s ∈ SYMS) {p : Pos} (hwf : p.WF) {m : Move} {ds : List Nat}
    (h : SlideOK p m ds) : SlideOK (transformPos s p) (transformMove s m p.size) ds := by
  obtain ⟨hx, hy, hsl, his, _, _⟩ := transformMove_spec hs m p.size
  have horig : (transformPos s p).atI (transformMove s m p.size).x (transformMove s m p.size).y
      = p.atI m.x m.y := by rw [hx, hy]; exact atI_T hs hwf h.onBoard
  have hpath : ∀ i, i < ds.length →
      pathStack (transformPos s p) (transformMove s m p.size) i = pathStack p m i := by
    intro i hi
    unfold pathStack
    rw [pathSq_T hs m p.size h.isSlide i]
    exact atI_T hs hwf (h.pathIn i hi)
  refine ⟨?_, ?_, ?_, ?_, ?_, ?_, ?_, ?_, ?_, ?_⟩
  · rw [his]; exact h.isSlide
  · exact h.opening
  · rw [hx, hy]; exact (inBounds_T hs p m.x m.y).trans h.onBoard
  · have := h.drops; unfold slideDrops at this ⊢; rw [hsl]; exact this
  · exact h.carryLimit
  · rw [horig]; exact h.height
  · rw [horig]; exact h.owner
  · intro i hi
    rw [pathSq_T hs m p.size h.isSlide i]
    exact (inBounds_T hs p _ _).trans (h.pathIn i hi)
  · intro i hi; rw [hpath i hi]; exact h.noCap i hi
  · intro i hi; rw [hpath i hi, horig]; exact h.wall i hi

theorem legal_T {s : Mat3} (hs : s ∈ SYMS) {p : Pos} (hwf : p.WF) {m : Move}
    (h : Legal p m) : Legal (transformPos s p) (transformMove s m p.size) := by
  rcases h with ⟨k, hk⟩ | ⟨ds, hd⟩
  · exact .inl ⟨k, placeOK_T hs hwf hk⟩
  · exact .inr ⟨ds, slideOK_T hs hwf hd⟩

theorem legal_T_iff {s : Mat3} (hs : s ∈ SYMS) {p : Pos} (hwf : p.WF) (m : Move) :
    Legal p m ↔ Legal (transformPos s p) (transformMove s m p.size) := by
  refine ⟨legal_T hs hwf, fun h => ?_⟩
  obtain ⟨s', hs', h1, _⟩ := exists_inv hs
  have := legal_T hs' (transformPos_wf (s := s) hwf) h
  rwa [transformPos_size, transformPos_inv hs hs' h1 hwf, transformMove_inv hs hs' h1] at this

end Sym
end Tak

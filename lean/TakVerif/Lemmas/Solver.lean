/-
  Helper lemmas for C10: the sum `g`, the bracket, the bisection invariant.
  Everything is stated for an arbitrary linearly ordered field `F`, so it applies verbatim to
  the executable `Rat` instance of the model and to `ℝ`.
-/
import Mathlib.Algebra.Order.Field.Basic
import Mathlib.Algebra.Order.BigOperators.Group.List
import Mathlib.Algebra.BigOperators.Group.List.Basic
import Mathlib.Tactic.Linarith
import Mathlib.Tactic.Positivity
import Mathlib.Tactic.FieldSimp
import Mathlib.Tactic.Ring
import Mathlib.Tactic.NormNum
import TakVerif.Model.Solver

set_option linter.unusedSectionVars false
set_option linter.unusedVariables false

namespace Tak.Solver

variable {F : Type} [Field F] [LinearOrder F] [IsStrictOrderedRing F]

/-! ### the primitive operations are the usual ones -/

theorem mx_eq_max (a b : F) : mx a b = max a b := by
  unfold mx
  split
  · next h => exact (max_eq_right h.le).symm
  · next h => exact (max_eq_left (not_lt.mp h)).symm

theorem absv_eq_abs (x : F) : absv x = |x| := by
  unfold absv
  split
  · next h => exact (abs_of_neg h).symm
  · next h => exact (abs_of_nonneg (not_lt.mp h)).symm

theorem sigmaEps_eq : (sigmaEps : F) = 1 / 1000 := rfl
theorem widthEps_eq : (widthEps : F) = 1 / 1000000 := rfl

/-! ### running maximum -/

theorem foldl_mx_ge (f : F × F → F) (xs : List (F × F)) (m : F) :
    m ≤ xs.foldl (fun m y => mx m (f y)) m ∧
    ∀ y ∈ xs, f y ≤ xs.foldl (fun m y => mx m (f y)) m := by
  induction xs generalizing m with
  | nil => simp
  | cons x xs ih =>
    simp only [List.foldl_cons, List.mem_cons, forall_eq_or_imp]
    obtain ⟨h1, h2⟩ := ih (mx m (f x))
    rw [mx_eq_max] at h1 h2 ⊢
    exact ⟨le_trans (le_max_left _ _) h1, le_trans (le_max_right _ _) h1, h2⟩

theorem foldl_mx_mem (f : F × F → F) (xs : List (F × F)) (m : F) :
    xs.foldl (fun m y => mx m (f y)) m = m ∨
    ∃ y ∈ xs, xs.foldl (fun m y => mx m (f y)) m = f y := by
  induction xs generalizing m with
  | nil => simp
  | cons x xs ih =>
    simp only [List.foldl_cons, List.mem_cons, exists_eq_or_imp]
    rcases ih (mx m (f x)) with h | ⟨y, hy, h⟩
    · rw [h, mx_eq_max]
      rcases max_choice m (f x) with h' | h'
      · exact Or.inl h'
      · exact Or.inr (Or.inl h')
    · exact Or.inr (Or.inr ⟨y, hy, h⟩)

/-- `maxOver f ps = some m`: `m` bounds every `f x` and is attained -/
theorem maxOver_spec {f : F × F → F} {ps : List (F × F)} {m : F} (h : maxOver f ps = some m) :
    (∀ x ∈ ps, f x ≤ m) ∧ ∃ y ∈ ps, f y = m := by
  cases ps with
  | nil => simp [maxOver] at h
  | cons x xs =>
    simp only [maxOver, Option.some.injEq] at h
    subst h
    obtain ⟨h1, h2⟩ := foldl_mx_ge f xs (f x)
    refine ⟨?_, ?_⟩
    · intro y hy
      rcases List.mem_cons.mp hy with rfl | hy
      · exact h1
      · exact h2 y hy
    · rcases foldl_mx_mem f xs (f x) with h | ⟨y, hy, h⟩
      · exact ⟨x, List.mem_cons_self, h.symm⟩
      · exact ⟨y, List.mem_cons_of_mem _ hy, h.symm⟩

theorem maxOver_isSome (f : F × F → F) {ps : List (F × F)} (h : ps ≠ []) :
    ∃ m, maxOver f ps = some m := by
  cases ps with
  | nil => exact absurd rfl h
  | cons x xs => exact ⟨_, rfl⟩

/-! ### the sum `g` -/

theorem g_nil (lam a : F) : g lam [] a = 0 := by simp [g, weights]

theorem g_cons (lam a : F) (x : F × F) (ps : List (F × F)) :
    g lam (x :: ps) a = lam * x.1 / (a - x.2) + g lam ps a := by
  simp [g, weights]

theorem term_pos {lam a : F} {x : F × F} (hl : 0 < lam) (hp : 0 < x.1) (ha : x.2 < a) :
    0 < lam * x.1 / (a - x.2) :=
  div_pos (mul_pos hl hp) (sub_pos.mpr ha)

theorem g_nonneg {lam a : F} {ps : List (F × F)} (hl : 0 < lam) (hp : ∀ x ∈ ps, 0 < x.1)
    (ha : ∀ x ∈ ps, x.2 < a) : 0 ≤ g lam ps a := by
  induction ps with
  | nil => simp [g_nil]
  | cons x ps ih =>
    rw [g_cons]
    have := term_pos hl (hp x List.mem_cons_self) (ha x List.mem_cons_self)
    have := ih (fun y hy => hp y (List.mem_cons_of_mem _ hy)) (fun y hy => ha y (List.mem_cons_of_mem _ hy))
    linarith

theorem term_le_g {lam a : F} {ps : List (F × F)} (hl : 0 < lam) (hp : ∀ x ∈ ps, 0 < x.1)
    (ha : ∀ x ∈ ps, x.2 < a) {y : F × F} (hy : y ∈ ps) : lam * y.1 / (a - y.2) ≤ g lam ps a := by
  induction ps with
  | nil => simp at hy
  | cons x ps ih =>
    rw [g_cons]
    have hp' : ∀ z ∈ ps, 0 < z.1 := fun z hz => hp z (List.mem_cons_of_mem _ hz)
    have ha' : ∀ z ∈ ps, z.2 < a := fun z hz => ha z (List.mem_cons_of_mem _ hz)
    rcases List.mem_cons.mp hy with rfl | hy
    · have := g_nonneg hl hp' ha'
      linarith
    · have := ih hp' ha' hy
      have := term_pos hl (hp x List.mem_cons_self) (ha x List.mem_cons_self)
      linarith

theorem g_pos {lam a : F} {ps : List (F × F)} (hne : ps ≠ []) (hl : 0 < lam)
    (hp : ∀ x ∈ ps, 0 < x.1) (ha : ∀ x ∈ ps, x.2 < a) : 0 < g lam ps a := by
  cases ps with
  | nil => exact absurd rfl hne
  | cons x ps =>
    have h1 := term_pos hl (hp x List.mem_cons_self) (ha x List.mem_cons_self)
    have h2 := term_le_g hl hp ha (y := x) List.mem_cons_self
    linarith

/-- one term: the difference across `[a, b]` against the value at `b` -/
theorem term_diff {lam a b m : F} {x : F × F} (hl : 0 < lam) (hp : 0 < x.1) (hq : x.2 ≤ m)
    (hm : m < a) (hab : a ≤ b) :
    lam * x.1 / (a - x.2) - lam * x.1 / (b - x.2) ≤ (b - a) / (a - m) * (lam * x.1 / (b - x.2)) := by
  have h1 : 0 < a - x.2 := by linarith
  have h2 : 0 < b - x.2 := by linarith
  have h3 : 0 < a - m := by linarith
  have h4 : 0 < lam * x.1 := mul_pos hl hp
  have key : lam * x.1 / (a - x.2) - lam * x.1 / (b - x.2)
      = (b - a) / (a - x.2) * (lam * x.1 / (b - x.2)) := by
    field_simp
    ring
  rw [key]
  have h5 : (b - a) / (a - x.2) ≤ (b - a) / (a - m) :=
    div_le_div_of_nonneg_left (by linarith) h3 (by linarith)
  exact mul_le_mul_of_nonneg_right h5 (div_pos h4 h2).le

/-- the Lipschitz-type bound: for `max q ≤ m < a ≤ b`,
    `g(a) − g(b) ≤ (b − a)/(a − m) · g(b)` -/
theorem g_diff_le {lam a b m : F} {ps : List (F × F)} (hl : 0 < lam) (hp : ∀ x ∈ ps, 0 < x.1)
    (hq : ∀ x ∈ ps, x.2 ≤ m) (hm : m < a) (hab : a ≤ b) :
    g lam ps a - g lam ps b ≤ (b - a) / (a - m) * g lam ps b := by
  induction ps with
  | nil => simp [g_nil]
  | cons x ps ih =>
    rw [g_cons, g_cons]
    have h1 := term_diff hl (hp x List.mem_cons_self) (hq x List.mem_cons_self) hm hab
    have h2 := ih (fun y hy => hp y (List.mem_cons_of_mem _ hy)) (fun y hy => hq y (List.mem_cons_of_mem _ hy))
    rw [mul_add]
    linarith

/-- `g` is antitone above every `q_i` -/
theorem g_anti {lam a b : F} {ps : List (F × F)} (hl : 0 < lam) (hp : ∀ x ∈ ps, 0 < x.1)
    (ha : ∀ x ∈ ps, x.2 < a) (hab : a ≤ b) : g lam ps b ≤ g lam ps a := by
  induction ps with
  | nil => simp [g_nil]
  | cons x ps ih =>
    rw [g_cons, g_cons]
    have h2 := ih (fun y hy => hp y (List.mem_cons_of_mem _ hy)) (fun y hy => ha y (List.mem_cons_of_mem _ hy))
    have hx := ha x List.mem_cons_self
    have h1 : lam * x.1 / (b - x.2) ≤ lam * x.1 / (a - x.2) :=
      div_le_div_of_nonneg_left (mul_pos hl (hp x List.mem_cons_self)).le (by linarith) (by linarith)
    linarith

/-- `g` is strictly antitone above every `q_i` (K ≥ 1) -/
theorem g_strictAnti {lam a b : F} {ps : List (F × F)} (hne : ps ≠ []) (hl : 0 < lam)
    (hp : ∀ x ∈ ps, 0 < x.1) (ha : ∀ x ∈ ps, x.2 < a) (hab : a < b) :
    g lam ps b < g lam ps a := by
  cases ps with
  | nil => exact absurd rfl hne
  | cons x ps =>
    rw [g_cons, g_cons]
    have h2 := g_anti (ps := ps) hl (fun y hy => hp y (List.mem_cons_of_mem _ hy))
      (fun y hy => ha y (List.mem_cons_of_mem _ hy)) hab.le
    have hx := ha x List.mem_cons_self
    have h1 : lam * x.1 / (b - x.2) < lam * x.1 / (a - x.2) :=
      div_lt_div_of_pos_left (mul_pos hl (hp x List.mem_cons_self)) (by linarith) (by linarith)
    linarith

/-- hence injective there -/
theorem g_inj {lam a b : F} {ps : List (F × F)} (hne : ps ≠ []) (hl : 0 < lam)
    (hp : ∀ x ∈ ps, 0 < x.1) (ha : ∀ x ∈ ps, x.2 < a) (hb : ∀ x ∈ ps, x.2 < b)
    (h : g lam ps a = g lam ps b) : a = b := by
  rcases lt_trichotomy a b with hab | hab | hab
  · exact absurd h (ne_of_gt (g_strictAnti hne hl hp ha hab))
  · exact hab
  · exact absurd h (ne_of_lt (g_strictAnti hne hl hp hb hab))

/-! ### the hypotheses of the property -/

/-- K ≥ 1, λ > 0, priors positive and summing to one (q is arbitrary) -/
structure Valid (lam : F) (ps : List (F × F)) : Prop where
  ne : ps ≠ []
  lam_pos : 0 < lam
  pi_pos : ∀ x ∈ ps, 0 < x.1
  pi_sum : (ps.map Prod.fst).sum = 1

theorem sum_fst_ge {ps : List (F × F)} (hp : ∀ x ∈ ps, 0 < x.1) {y : F × F} (hy : y ∈ ps) :
    y.1 ≤ (ps.map Prod.fst).sum := by
  induction ps with
  | nil => simp at hy
  | cons x ps ih =>
    simp only [List.map_cons, List.sum_cons]
    have hp' : ∀ z ∈ ps, 0 < z.1 := fun z hz => hp z (List.mem_cons_of_mem _ hz)
    have hnn : 0 ≤ (ps.map Prod.fst).sum :=
      List.sum_nonneg (by intro v hv; obtain ⟨z, hz, rfl⟩ := List.mem_map.mp hv; exact (hp' z hz).le)
    rcases List.mem_cons.mp hy with rfl | hy
    · linarith
    · have := ih hp' hy
      have := hp x List.mem_cons_self
      linarith

theorem Valid.pi_le_one {lam : F} {ps : List (F × F)} (hv : Valid lam ps) {y : F × F} (hy : y ∈ ps) :
    y.1 ≤ 1 := hv.pi_sum ▸ sum_fst_ge hv.pi_pos hy

/-- `Σ_i λπ_i/(a − q_i) ≤ Σ π_i` when `a − q_i ≥ λ` for every `i` -/
theorem g_le_sum_fst {lam a : F} {ps : List (F × F)} (hl : 0 < lam) (hp : ∀ x ∈ ps, 0 < x.1)
    (ha : ∀ x ∈ ps, x.2 + lam ≤ a) : g lam ps a ≤ (ps.map Prod.fst).sum := by
  induction ps with
  | nil => simp [g_nil]
  | cons x ps ih =>
    rw [g_cons]
    simp only [List.map_cons, List.sum_cons]
    have h2 := ih (fun y hy => hp y (List.mem_cons_of_mem _ hy)) (fun y hy => ha y (List.mem_cons_of_mem _ hy))
    have hx := ha x List.mem_cons_self
    have hpx := hp x List.mem_cons_self
    have h1 : lam * x.1 / (a - x.2) ≤ x.1 := by
      rw [div_le_iff₀ (by linarith)]
      nlinarith
    linarith

/-! ### the bracket -/

section Bracket
variable {lam lo hi : F} {ps : List (F × F)}

theorem lo0_above (hv : Valid lam ps) (hlo : lo0 lam ps = some lo) : ∀ x ∈ ps, x.2 < lo := by
  intro x hx
  have h : x.2 + lam * x.1 ≤ lo := (maxOver_spec hlo).1 x hx
  have := mul_pos hv.lam_pos (hv.pi_pos x hx)
  linarith

theorem g_lo0_ge_one (hv : Valid lam ps) (hlo : lo0 lam ps = some lo) : 1 ≤ g lam ps lo := by
  obtain ⟨y, hy, hy'⟩ := (maxOver_spec hlo).2
  have hy' : y.2 + lam * y.1 = lo := hy'
  have habove := lo0_above hv hlo
  have h := term_le_g hv.lam_pos hv.pi_pos habove hy
  have hpos := mul_pos hv.lam_pos (hv.pi_pos y hy)
  have : lam * y.1 / (lo - y.2) = 1 := by
    have : lo - y.2 = lam * y.1 := by linarith
    rw [this, div_self hpos.ne']
  linarith

theorem hi0_ge (hv : Valid lam ps) (hhi : hi0 lam ps = some hi) : ∀ x ∈ ps, x.2 + lam ≤ hi :=
  fun x hx => (maxOver_spec hhi).1 x hx

theorem g_hi0_le_one (hv : Valid lam ps) (hhi : hi0 lam ps = some hi) : g lam ps hi ≤ 1 :=
  hv.pi_sum ▸ g_le_sum_fst hv.lam_pos hv.pi_pos (hi0_ge hv hhi)

theorem lo0_le_hi0 (hv : Valid lam ps) (hlo : lo0 lam ps = some lo) (hhi : hi0 lam ps = some hi) :
    lo ≤ hi := by
  obtain ⟨y, hy, hy'⟩ := (maxOver_spec hlo).2
  have hy' : y.2 + lam * y.1 = lo := hy'
  have h1 := hi0_ge hv hhi y hy
  have h2 := hv.pi_le_one hy
  nlinarith [hv.lam_pos]

/-- the bracket is narrower than `λ` -/
theorem hi0_sub_lo0_lt (hv : Valid lam ps) (hlo : lo0 lam ps = some lo) (hhi : hi0 lam ps = some hi) :
    hi - lo < lam := by
  obtain ⟨z, hz, hz'⟩ := (maxOver_spec hhi).2
  have hz' : z.2 + lam = hi := hz'
  have := lo0_above hv hlo z hz
  linarith

/-- the distance of the lower end from `max q` is at least `λ·π_j` at the arg-max `j` -/
theorem lo0_sub_qmax_ge (hv : Valid lam ps) (hlo : lo0 lam ps = some lo) {m : F}
    (hm : maxOver Prod.snd ps = some m) : ∃ y ∈ ps, lam * y.1 ≤ lo - m := by
  obtain ⟨y, hy, hy'⟩ := (maxOver_spec hm).2
  have hy' : y.2 = m := hy'
  refine ⟨y, hy, ?_⟩
  have : y.2 + lam * y.1 ≤ lo := (maxOver_spec hlo).1 y hy
  linarith

end Bracket

/-! ### the bisection invariant -/

/-- the invariant of the bracket: `b` is the initial lower end, above every `q_i` -/
structure Inv (lam : F) (ps : List (F × F)) (b : F) (s : St F) : Prop where
  hb : ∀ x ∈ ps, x.2 < b
  base : b ≤ s.lo
  le : s.lo ≤ s.hi
  mid : s.a = (s.lo + s.hi) / 2
  glo : 1 ≤ g lam ps s.lo
  ghi : g lam ps s.hi ≤ 1

theorem Inv.above {lam b : F} {ps : List (F × F)} {s : St F} (h : Inv lam ps b s) :
    ∀ x ∈ ps, x.2 < s.lo := fun x hx => lt_of_lt_of_le (h.hb x hx) h.base

theorem Inv.lo_le_a {lam b : F} {ps : List (F × F)} {s : St F} (h : Inv lam ps b s) : s.lo ≤ s.a := by
  have := h.le; rw [h.mid]; linarith

theorem Inv.a_le_hi {lam b : F} {ps : List (F × F)} {s : St F} (h : Inv lam ps b s) : s.a ≤ s.hi := by
  have := h.le; rw [h.mid]; linarith

theorem Inv.above_a {lam b : F} {ps : List (F × F)} {s : St F} (h : Inv lam ps b s) :
    ∀ x ∈ ps, x.2 < s.a := fun x hx => lt_of_lt_of_le (h.above x hx) h.lo_le_a

theorem next_width (s : St F) (v : F) (hmid : s.a = (s.lo + s.hi) / 2) :
    (s.next v).hi - (s.next v).lo = (s.hi - s.lo) / 2 := by
  unfold St.next
  split
  · simp only [hmid]; ring
  · simp only [hmid]; ring

theorem next_mid (s : St F) (v : F) : (s.next v).a = ((s.next v).lo + (s.next v).hi) / 2 := by
  unfold St.next
  split
  · rfl
  · simp only; ring

theorem Inv.next {lam b : F} {ps : List (F × F)} {s : St F} (h : Inv lam ps b s) :
    Inv lam ps b (s.next (g lam ps s.a)) := by
  unfold St.next
  split
  · next hgt =>
    exact ⟨h.hb, le_trans h.base h.lo_le_a, h.a_le_hi, rfl, hgt.le, h.ghi⟩
  · next hle =>
    exact ⟨h.hb, h.base, h.lo_le_a, by simp only; ring, h.glo, not_lt.mp hle⟩

theorem Inv.iter {lam b : F} {ps : List (F × F)} {s : St F} (h : Inv lam ps b s) (k : Nat) :
    Inv lam ps b (iter lam ps k s) := by
  induction k generalizing s with
  | zero => exact h
  | succ k ih => exact ih h.next

theorem iter_width {lam : F} {ps : List (F × F)} (s : St F) (hmid : s.a = (s.lo + s.hi) / 2) (k : Nat) :
    (iter lam ps k s).hi - (iter lam ps k s).lo = (s.hi - s.lo) / 2 ^ k := by
  induction k generalizing s with
  | zero => simp [iter]
  | succ k ih =>
    simp only [iter]
    rw [ih _ (next_mid _ _), next_width _ _ hmid, pow_succ]
    field_simp

theorem iter_mid {lam : F} {ps : List (F × F)} (s : St F) (hmid : s.a = (s.lo + s.hi) / 2) (k : Nat) :
    (iter lam ps k s).a = ((iter lam ps k s).lo + (iter lam ps k s).hi) / 2 := by
  induction k generalizing s with
  | zero => exact hmid
  | succ k ih => exact ih _ (next_mid _ _)

theorem init_spec {lam : F} {ps : List (F × F)} {s : St F} (h : init lam ps = some s) :
    lo0 lam ps = some s.lo ∧ hi0 lam ps = some s.hi ∧ s.a = (s.lo + s.hi) / 2 := by
  unfold init at h
  split at h
  · next lo hi h1 h2 =>
    simp only [Option.some.injEq] at h
    subst h
    exact ⟨h1, h2, rfl⟩
  · exact absurd h (by simp)

theorem init_isSome {lam : F} {ps : List (F × F)} (hne : ps ≠ []) : ∃ s, init lam ps = some s := by
  obtain ⟨lo, hlo⟩ := maxOver_isSome (fun x : F × F => x.2 + lam * x.1) hne
  obtain ⟨hi, hhi⟩ := maxOver_isSome (fun x : F × F => x.2 + lam) hne
  exact ⟨⟨lo, hi, (lo + hi) / 2⟩, by simp [init, lo0, hi0, hlo, hhi]⟩

theorem Inv.init {lam : F} {ps : List (F × F)} {s : St F} (hv : Valid lam ps) (h : init lam ps = some s) :
    Inv lam ps s.lo s := by
  obtain ⟨hlo, hhi, hmid⟩ := init_spec h
  exact ⟨lo0_above hv hlo, le_rfl, lo0_le_hi0 hv hlo hhi, hmid, g_lo0_ge_one hv hlo, g_hi0_le_one hv hhi⟩

/-- distance of the midpoint value from one, in terms of the half width -/
theorem Inv.err_le {lam b m : F} {ps : List (F × F)} {s : St F} (hv : Valid lam ps)
    (h : Inv lam ps b s) (hq : ∀ x ∈ ps, x.2 ≤ m) (hm : m < b) :
    |g lam ps s.a - 1| ≤ (s.hi - s.lo) / 2 / (b - m) := by
  have hbm : 0 < b - m := by linarith
  have hwa : s.hi - s.a = (s.hi - s.lo) / 2 := by rw [h.mid]; ring
  have hwb : s.a - s.lo = (s.hi - s.lo) / 2 := by rw [h.mid]; ring
  have hw : 0 ≤ (s.hi - s.lo) / 2 := by have := h.le; linarith
  rw [abs_le]
  constructor
  · -- 1 − g(a) ≤ g(lo) − g(a) ≤ (a − lo)/(lo − m) · g(a)
    by_cases hga : g lam ps s.a ≤ 1
    · have h1 := g_diff_le hv.lam_pos hv.pi_pos hq (lt_of_lt_of_le hm h.base) h.lo_le_a
      have hg0 := g_nonneg hv.lam_pos hv.pi_pos h.above_a
      have h2 : (s.a - s.lo) / (s.lo - m) * g lam ps s.a ≤ (s.hi - s.lo) / 2 / (b - m) := by
        rw [hwb]
        have h3 : (s.hi - s.lo) / 2 / (s.lo - m) ≤ (s.hi - s.lo) / 2 / (b - m) :=
          div_le_div_of_nonneg_left hw hbm (by have := h.base; linarith)
        have h4 : 0 ≤ (s.hi - s.lo) / 2 / (s.lo - m) :=
          div_nonneg hw (by have := h.base; linarith)
        calc (s.hi - s.lo) / 2 / (s.lo - m) * g lam ps s.a
            ≤ (s.hi - s.lo) / 2 / (s.lo - m) * 1 := mul_le_mul_of_nonneg_left hga h4
          _ ≤ (s.hi - s.lo) / 2 / (b - m) := by rw [mul_one]; exact h3
      have := h.glo
      linarith
    · have : 0 ≤ (s.hi - s.lo) / 2 / (b - m) := div_nonneg hw hbm.le
      have hga := not_le.mp hga
      linarith
  · -- g(a) − 1 ≤ g(a) − g(hi) ≤ (hi − a)/(a − m) · g(hi)
    have hma : m < s.a := lt_of_lt_of_le (lt_of_lt_of_le hm h.base) h.lo_le_a
    have h1 := g_diff_le hv.lam_pos hv.pi_pos hq hma h.a_le_hi
    have hg0 := g_nonneg hv.lam_pos hv.pi_pos
      (fun x hx => lt_of_lt_of_le (h.above_a x hx) h.a_le_hi)
    have h2 : (s.hi - s.a) / (s.a - m) * g lam ps s.hi ≤ (s.hi - s.lo) / 2 / (b - m) := by
      rw [hwa]
      have hba : b ≤ s.a := le_trans h.base h.lo_le_a
      have h3 : (s.hi - s.lo) / 2 / (s.a - m) ≤ (s.hi - s.lo) / 2 / (b - m) :=
        div_le_div_of_nonneg_left hw hbm (by linarith)
      have h4 : 0 ≤ (s.hi - s.lo) / 2 / (s.a - m) := div_nonneg hw (by linarith)
      calc (s.hi - s.lo) / 2 / (s.a - m) * g lam ps s.hi
          ≤ (s.hi - s.lo) / 2 / (s.a - m) * 1 := mul_le_mul_of_nonneg_left h.ghi h4
        _ ≤ (s.hi - s.lo) / 2 / (b - m) := by rw [mul_one]; exact h3
    have := h.ghi
    linarith

/-- the coarser bound used at the Python width exit: the whole width -/
theorem Inv.err_le_width {lam b m : F} {ps : List (F × F)} {s : St F} (hv : Valid lam ps)
    (h : Inv lam ps b s) (hq : ∀ x ∈ ps, x.2 ≤ m) (hm : m < b) :
    |g lam ps s.a - 1| ≤ 1 / (b - m) * (s.hi - s.lo) := by
  have h1 := h.err_le hv hq hm
  have hbm : 0 < b - m := by linarith
  have hw : 0 ≤ s.hi - s.lo := by have := h.le; linarith
  have : (s.hi - s.lo) / 2 / (b - m) ≤ 1 / (b - m) * (s.hi - s.lo) := by
    rw [div_div, one_div, inv_mul_eq_div]
    exact div_le_div_of_nonneg_left hw hbm (by linarith)
  linarith

/-- in exact arithmetic the value of the sum changes at every non-exiting round, so the C++
    exit `sum == last_sum` never fires on its own -/
theorem Inv.next_ne {lam b : F} {ps : List (F × F)} {s : St F} (hv : Valid lam ps)
    (h : Inv lam ps b s) (hne : g lam ps s.a ≠ 1) :
    g lam ps (s.next (g lam ps s.a)).a ≠ g lam ps s.a := by
  have hn := h.next
  intro heq
  have ha := g_inj hv.ne hv.lam_pos hv.pi_pos hn.above_a h.above_a heq
  unfold St.next at ha
  split at ha
  · next hgt =>
    -- (a + hi)/2 = a → hi = a → g(hi) = g(a) > 1
    simp only at ha
    have : s.hi = s.a := by linarith
    have := h.ghi
    rw [‹s.hi = s.a›] at this
    linarith
  · next hle =>
    simp only at ha
    have hlo : s.lo = s.a := by linarith
    have := h.glo
    rw [hlo] at this
    exact hne (le_antisymm (not_lt.mp hle) this)

end Tak.Solver

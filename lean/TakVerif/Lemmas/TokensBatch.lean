/-
  Helper lemmas for C06 about `encodeBatch` (the growing-width loop of `_encode_batch`).
-/
import TakVerif.Model.Tokens
import TakVerif.Spec.Tokens

namespace Tak.Tokens

theorem maxLen_nil : maxLen [] = 0 := rfl

theorem maxLen_cons (r : List Nat) (rows : List (List Nat)) :
    maxLen (r :: rows) = max r.length (maxLen rows) := rfl

theorem maxLen_append_singleton (pre : List (List Nat)) (r : List Nat) :
    maxLen (pre ++ [r]) = max (maxLen pre) r.length := by
  induction pre with
  | nil => simp [maxLen]
  | cons x pre ih =>
    simp only [List.cons_append, maxLen_cons, ih]
    omega

theorem le_maxLen {rows : List (List Nat)} {x : List Nat} (h : x ∈ rows) : x.length ≤ maxLen rows := by
  induction rows with
  | nil => simp at h
  | cons y rows ih =>
    rw [maxLen_cons]
    rcases List.mem_cons.mp h with rfl | h
    · omega
    · have := ih h; omega

theorem writePrefix_pad {x : List Nat} {w L : Nat} (h1 : x.length ≤ w) (h2 : w ≤ L) :
    writePrefix (List.replicate L 0) (padRow w x) = padRow L x := by
  simp only [writePrefix, padRow, List.length_append, List.length_replicate, List.drop_replicate,
    List.append_assoc, List.replicate_append_replicate]
  congr 2
  omega

theorem writePrefix_zeros {w L : Nat} (h2 : w ≤ L) :
    writePrefix (List.replicate L 0) (List.replicate w (0 : Nat)) = List.replicate L 0 := by
  simp only [writePrefix, List.length_replicate, List.drop_replicate, List.replicate_append_replicate]
  congr 1
  omega

theorem writePrefix_row {r : List Nat} {w : Nat} :
    writePrefix (List.replicate w 0) r = padRow w r := by
  simp [writePrefix, padRow]

theorem writePrefix_mask {l w : Nat} :
    writePrefix (List.replicate w false) (List.replicate l true) =
      List.replicate l true ++ List.replicate (w - l) false := by
  simp [writePrefix]

theorem modify_append_length {α : Type} (A : List α) (z : α) (Z : List α) (f : α → α) :
    (A ++ z :: Z).modify A.length f = A ++ f z :: Z := by
  induction A with
  | nil => simp
  | cons a A ih => simp [ih]

theorem set_append_length {α : Type} (A : List α) (z v : α) (Z : List α) :
    (A ++ z :: Z).set A.length v = A ++ v :: Z := by
  induction A with
  | nil => simp
  | cons a A ih => simp [ih]

/-- the loop state after the rows `pre` have been written and `m` rows are still blank -/
def batchInv (pre : List (List Nat)) (m : Nat) : BatchState :=
  ⟨pre.map (padRow (maxLen pre)) ++ List.replicate m (List.replicate (maxLen pre) 0),
   maxLen pre, pre.map List.length ++ List.replicate m 0⟩

theorem batchStep_inv (pre : List (List Nat)) (m : Nat) (r : List Nat) :
    batchStep (batchInv pre (m + 1)) (r, pre.length) = batchInv (pre ++ [r]) m := by
  have hw : maxLen (pre ++ [r]) = max (maxLen pre) r.length := maxLen_append_singleton pre r
  have hlen1 : (pre.map (padRow (maxLen (pre ++ [r])))).length = pre.length := by simp
  have hlen2 : (pre.map List.length).length = pre.length := by simp
  by_cases hgt : r.length > maxLen pre
  · have hw' : maxLen (pre ++ [r]) = r.length := by omega
    simp only [batchStep, batchInv, hgt, if_true, List.map_append, List.map_map, List.map_replicate, hw']
    have e1 : List.map ((fun row => writePrefix (List.replicate r.length 0) row) ∘ padRow (maxLen pre)) pre
        = List.map (padRow r.length) pre := by
      apply List.map_congr_left
      intro x hx
      exact writePrefix_pad (le_maxLen hx) (by omega)
    rw [e1, writePrefix_zeros (w := maxLen pre) (L := r.length) (by omega)]
    simp only [List.replicate_succ]
    rw [hw'] at hlen1
    have := modify_append_length (List.map (padRow r.length) pre) (List.replicate r.length 0)
      (List.replicate m (List.replicate r.length 0)) (fun row => writePrefix row r)
    rw [hlen1] at this
    have h2 := set_append_length (pre.map List.length) 0 r.length (List.replicate m 0)
    rw [hlen2] at h2
    simp only [this, h2, writePrefix_row, List.map_cons, List.map_nil, List.append_assoc,
      List.cons_append, List.nil_append]
  · have hw' : maxLen (pre ++ [r]) = maxLen pre := by omega
    simp only [batchStep, batchInv, hgt, if_false, List.map_append, List.replicate_succ, hw']
    rw [hw'] at hlen1
    have := modify_append_length (List.map (padRow (maxLen pre)) pre) (List.replicate (maxLen pre) 0)
      (List.replicate m (List.replicate (maxLen pre) 0)) (fun row => writePrefix row r)
    rw [hlen1] at this
    have h2 := set_append_length (pre.map List.length) 0 r.length (List.replicate m 0)
    rw [hlen2] at h2
    simp only [this, h2, writePrefix_row, List.map_cons, List.map_nil, List.append_assoc,
      List.cons_append, List.nil_append]

theorem foldl_batchStep (pre todo : List (List Nat)) :
    (todo.zipIdx pre.length).foldl batchStep (batchInv pre todo.length) = batchInv (pre ++ todo) 0 := by
  induction todo generalizing pre with
  | nil => simp
  | cons r todo ih =>
    simp only [List.zipIdx_cons, List.foldl_cons, List.length_cons, batchStep_inv]
    have := ih (pre ++ [r])
    simp only [List.length_append, List.length_singleton, List.append_assoc, List.cons_append,
      List.nil_append] at this
    exact this

theorem encodeBatch_eq_spec (rows : List (List Nat)) : encodeBatch rows = batchSpec rows := by
  have h := foldl_batchStep [] rows
  simp only [List.length_nil, List.nil_append] at h
  have h0 : batchInv [] rows.length = ⟨List.replicate rows.length [], 0, List.replicate rows.length 0⟩ := by
    simp [batchInv, maxLen]
  rw [h0] at h
  simp only [encodeBatch, batchSpec, h]
  simp only [batchInv, List.replicate_zero, List.append_nil, List.map_map, Prod.mk.injEq, true_and]
  apply List.map_congr_left
  intro r _
  simp [writePrefix_mask, maskRow]

end Tak.Tokens

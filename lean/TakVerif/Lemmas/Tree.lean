/-
  Helper lemmas for C08/C09 (search tree): list sums under `List.set`, the single-pass
  description `simRec` of one simulation and its agreement with `Tree.simulate`
  (descend / populate / update as three passes, as the Python does it).
-/
import TakVerif.Model.Tree
import TakVerif.Spec.TreeInv
import TakVerif.Lemmas.Board
import Mathlib.Tactic.Linarith
import Mathlib.Tactic.Ring
import Mathlib.Tactic.Abel
import Mathlib.Algebra.Order.Field.Rat

namespace Tak
namespace Tree

/-! ### lists -/

theorem sum_map_set {α : Type} [AddCommMonoid α] {β : Type} (f : β → α) (d : α) :
    ∀ (l : List β) (i : Nat) (a b : β), l[i]? = some a → f b = f a + d →
      ((l.set i b).map f).sum = (l.map f).sum + d := by
  intro l
  induction l with
  | nil => intro i a b h; simp at h
  | cons x r ih =>
    intro i a b h hf
    cases i with
    | zero =>
      simp only [List.getElem?_cons_zero, Option.some.injEq] at h
      subst h
      simp only [List.set_cons_zero, List.map_cons, List.sum_cons, hf]
      abel
    | succ j =>
      simp only [List.getElem?_cons_succ] at h
      simp only [List.set_cons_succ, List.map_cons, List.sum_cons, ih j a b h hf]
      abel

theorem map_set_same {β γ : Type} (f : β → γ) :
    ∀ (l : List β) (i : Nat) (a b : β), l[i]? = some a → f b = f a → (l.set i b).map f = l.map f := by
  intro l
  induction l with
  | nil => intro i a b h; simp at h
  | cons x r ih =>
    intro i a b h hf
    cases i with
    | zero =>
      simp only [List.getElem?_cons_zero, Option.some.injEq] at h
      subst h
      simp only [List.set_cons_zero, List.map_cons, hf]
    | succ j =>
      simp only [List.getElem?_cons_succ] at h
      simp only [List.set_cons_succ, List.map_cons, ih j a b h hf]

theorem mem_of_getElem? {β : Type} {l : List β} {i : Nat} {a : β} (h : l[i]? = some a) : a ∈ l :=
  List.mem_of_getElem? h

theorem mem_set_cases {β : Type} {l : List β} {i : Nat} {b x : β} (h : x ∈ l.set i b) : x = b ∨ x ∈ l := by
  rcases List.mem_or_eq_of_mem_set h with h | h
  · exact .inr h
  · exact .inl h

/-! ### `rabs` -/

theorem rabs_eq_abs (x : Rat) : rabs x = |x| := by
  unfold rabs
  split
  · rename_i h; exact (abs_of_neg h).symm
  · rename_i h; exact (abs_of_nonneg (not_lt.1 h)).symm

theorem rabs_nonneg (x : Rat) : 0 ≤ rabs x := by rw [rabs_eq_abs]; exact abs_nonneg x

theorem rabs_zero : rabs 0 = 0 := by simp [rabs]

/-! ### one simulation as a single recursive pass -/

/-- populate the leaf and count the visit: what the three passes do to the end of the path -/
def leafStep (cfg : Cfg) (isRoot : Bool) (answers : List Answer) (t : Node) :
    Option (Node × Rat × List Answer) :=
  match populate cfg isRoot answers t with
  | none => none
  | some (t', as) => some ({ t' with value := t'.value + t'.v0, sims := t'.sims + 1 }, t'.v0, as)

/-- one simulation, descending and backing up in one recursion; also returns the amount added to
    the value of the node -/
def simRec (cfg : Cfg) : Bool → List Nat → List Answer → Node → Option (Node × Rat × List Nat × List Answer)
  | isRoot, [], answers, t =>
    match t.children with
    | none => (leafStep cfg isRoot answers t).map fun r => (r.1, r.2.1, [], r.2.2)
    | some _ => none
  | isRoot, c :: rest, answers, t =>
    match t.children with
    | none => (leafStep cfg isRoot answers t).map fun r => (r.1, r.2.1, c :: rest, r.2.2)
    | some cs =>
      match cs[c]? with
      | none => none
      | some ch =>
        (simRec cfg false rest answers ch).map fun r =>
          ({ t with children := some (cs.set c r.1), value := t.value + (-r.2.1), sims := t.sims + 1 },
            -r.2.1, r.2.2.1, r.2.2.2)

/-- `Tree.simulate` with the root flag as a parameter and the backed-up amount exposed -/
def passes (cfg : Cfg) (isRoot : Bool) (choices : List Nat) (answers : List Answer) (t : Node) :
    Option (Node × Rat × List Nat × List Answer) :=
  match descend choices t with
  | none => none
  | some path =>
    match nodeAt path t with
    | none => none
    | some leaf =>
      match populate cfg (isRoot && path.isEmpty) answers leaf with
      | none => none
      | some (leaf', answers') =>
        match replaceAt path leaf' t with
        | none => none
        | some t1 =>
          match update path t1 with
          | none => none
          | some (t2, x) => some (t2, x, choices.drop path.length, answers')

theorem simulate_eq_passes (cfg : Cfg) (choices : List Nat) (answers : List Answer) (t : Node) :
    simulate cfg choices answers t =
      (passes cfg true choices answers t).map fun r => (r.1, r.2.2.1, r.2.2.2) := by
  unfold simulate passes
  cases descend choices t with
  | none => rfl
  | some path =>
    simp only [Bool.true_and]
    cases nodeAt path t with
    | none => rfl
    | some leaf =>
      simp only
      cases populate cfg path.isEmpty answers leaf with
      | none => rfl
      | some r =>
        obtain ⟨leaf', answers'⟩ := r
        simp only
        cases replaceAt path leaf' t with
        | none => rfl
        | some t1 =>
          simp only
          cases update path t1 with
          | none => rfl
          | some r2 => obtain ⟨t2, x⟩ := r2; rfl

theorem passes_leaf (cfg : Cfg) (isRoot : Bool) (choices : List Nat) (answers : List Answer) (t : Node)
    (hc : t.children = none) :
    passes cfg isRoot choices answers t =
      (leafStep cfg isRoot answers t).map fun r => (r.1, r.2.1, choices, r.2.2) := by
  have hd : descend choices t = some [] := by
    cases choices <;> simp [descend, hc]
  unfold passes leafStep
  rw [hd]
  simp only [nodeAt, List.isEmpty_nil, Bool.and_true]
  cases populate cfg isRoot answers t with
  | none => rfl
  | some r =>
    obtain ⟨t', as⟩ := r
    simp [replaceAt, update]

theorem passes_cons (cfg : Cfg) (isRoot : Bool) (c : Nat) (rest : List Nat) (answers : List Answer)
    (t : Node) (cs : List Node) (ch : Node) (hc : t.children = some cs) (hch : cs[c]? = some ch) :
    passes cfg isRoot (c :: rest) answers t =
      (passes cfg false rest answers ch).map fun r =>
        ({ t with children := some (cs.set c r.1), value := t.value + (-r.2.1), sims := t.sims + 1 },
          -r.2.1, r.2.2.1, r.2.2.2) := by
  have hlt : c < cs.length := by
    rcases List.getElem?_eq_some_iff.1 hch with ⟨h, _⟩; exact h
  unfold passes
  simp only [descend, hc, hch]
  cases hd : descend rest ch with
  | none => rfl
  | some path =>
    simp only [Option.map_some, nodeAt, hc, hch, List.isEmpty_cons, Bool.and_false, Bool.false_and,
      List.length_cons, List.drop_succ_cons]
    cases nodeAt path ch with
    | none => rfl
    | some leaf =>
      simp only
      cases populate cfg false answers leaf with
      | none => rfl
      | some r =>
        obtain ⟨leaf', answers'⟩ := r
        simp only [replaceAt, hc, hch]
        cases replaceAt path leaf' ch with
        | none => rfl
        | some ch1 =>
          simp only [Option.map_some, update, List.getElem?_set_self hlt, List.set_set]
          cases update path ch1 with
          | none => rfl
          | some r2 => obtain ⟨ch2, x⟩ := r2; rfl

theorem passes_eq_simRec (cfg : Cfg) :
    ∀ (choices : List Nat) (isRoot : Bool) (answers : List Answer) (t : Node),
      passes cfg isRoot choices answers t = simRec cfg isRoot choices answers t := by
  intro choices
  induction choices with
  | nil =>
    intro isRoot answers t
    cases hc : t.children with
    | none => rw [passes_leaf cfg isRoot [] answers t hc]; simp [simRec, hc]
    | some cs => simp [passes, descend, hc, simRec]
  | cons c rest ih =>
    intro isRoot answers t
    cases hc : t.children with
    | none => rw [passes_leaf cfg isRoot (c :: rest) answers t hc]; simp [simRec, hc]
    | some cs =>
      cases hch : cs[c]? with
      | none => simp [passes, descend, hc, hch, simRec]
      | some ch =>
        rw [passes_cons cfg isRoot c rest answers t cs ch hc hch, ih false answers ch]
        simp [simRec, hc, hch]

theorem simulate_eq_simRec (cfg : Cfg) (choices : List Nat) (answers : List Answer) (t : Node) :
    simulate cfg choices answers t =
      (simRec cfg true choices answers t).map fun r => (r.1, r.2.2.1, r.2.2.2) := by
  rw [simulate_eq_passes, passes_eq_simRec]

/-! ### expansion -/

/-- the statement of `Tak.C01.C01_move_refines_rules`, taken as a hypothesis until Props/C01.lean
    provides it -/
def C01Hyp : Prop :=
  ∀ (p : Pos) (m : Move), p.WF →
    Impl.move p m = if Rules.Legal p m then .ok (Rules.result p m) else .error .illegal

theorem takeReserve_size (p : Pos) (c : Color) (k : Kind) : (Rules.takeReserve p c k).size = p.size := by
  unfold Rules.takeReserve
  cases c <;> cases decide (k = Kind.cap) <;> rfl

theorem result_WF {p : Pos} (m : Move) (h : p.WF) : (Rules.result p m).WF := by
  obtain ⟨h1, _⟩ := h
  unfold Rules.result
  split
  · refine ⟨?_, ?_⟩
    · simpa [takeReserve_size] using h1
    · simp [Rules.boardOf, takeReserve_size]
  · refine ⟨?_, ?_⟩
    · simpa using h1
    · simp [Rules.boardOf]

theorem expand_eq (h01 : C01Hyp) {p : Pos} (hwf : p.WF) : ∀ cands : List (Move × Rat),
    expand p cands =
      some ((cands.filter fun c => decide (Rules.Legal p c.1)).map fun c =>
        (fresh (Rules.result p c.1) (some c.1), c.2)) := by
  intro cands
  induction cands with
  | nil => rfl
  | cons c r ih =>
    obtain ⟨m, pr⟩ := c
    unfold expand
    rw [h01 p m hwf]
    by_cases hl : Rules.Legal p m
    · simp [hl, ih]
    · simp [hl, ih]

theorem zip_take_length {α β : Type} : ∀ (l : List α) (xs : List β), l.zip (xs.take l.length) = l.zip xs := by
  intro l
  induction l with
  | nil => intro xs; simp
  | cons a r ih =>
    intro xs
    cases xs with
    | nil => simp
    | cons x xr => simp [ih]

theorem zip_zipWith_take {α β γ δ : Type} (f : γ → β → δ) :
    ∀ (l : List α) (nz : List γ) (xs : List β),
      l.zip (List.zipWith f nz (xs.take l.length)) = l.zip (List.zipWith f nz xs) := by
  intro l
  induction l with
  | nil => intro nz xs; simp
  | cons a r ih =>
    intro nz xs
    cases xs with
    | nil => simp
    | cons x xr =>
      cases nz with
      | nil => simp
      | cons n nr => simp [ih]

/-- the answer as `populate` files it in the ghost field -/
def filed (cfg : Cfg) (isRoot : Bool) (ans : Answer) : Answer :=
  { ans with noise := if isRoot && cfg.noise then ans.noise else none }

theorem zip_effective (cfg : Cfg) (isRoot : Bool) (ans : Answer) (tbl : List Move) (eff : List Rat)
    (h : effective cfg isRoot ans tbl.length = some eff) :
    tbl.zip eff = tbl.zip (effectivePrior cfg (filed cfg isRoot ans)) := by
  unfold effective at h
  unfold effectivePrior filed
  cases hf : (isRoot && cfg.noise) with
  | false =>
    simp only [hf, Bool.false_eq_true, if_false, Option.some.injEq] at h ⊢
    subst h
    exact zip_take_length tbl ans.probs
  | true =>
    simp only [hf, if_true] at h ⊢
    cases hn : ans.noise with
    | none => simp [hn] at h
    | some nz =>
      simp only [hn, Option.map_some, Option.some.injEq] at h
      subst h
      exact zip_zipWith_take _ tbl nz ans.probs

/-- the children `populate` creates, in terms of the specification's selection -/
def expansionOf (cfg : Cfg) (t : Node) (ev : Answer) : Node :=
  { t with
    v0 := ev.value
    children := some ((selected cfg t.position ev).map fun c => fresh (Rules.result t.position c.1) (some c.1))
    priors := (selected cfg t.position ev).map fun c => c.2 / selectedMass cfg t.position ev
    ev := some ev }

theorem populate_terminal (cfg : Cfg) (isRoot : Bool) (answers : List Answer) (t : Node) (w : Option Color)
    (hout : cfg.outcome t.position = some w) :
    populate cfg isRoot answers t = some ({ t with v0 := outcomeValue t.position.toMove w }, answers) := by
  unfold populate; rw [hout]

theorem populate_nonterminal (h01 : C01Hyp) (cfg : Cfg) (isRoot : Bool) (answers : List Answer)
    (t t' : Node) (as' : List Answer) (hwf : t.position.WF) (hout : cfg.outcome t.position = none)
    (h : populate cfg isRoot answers t = some (t', as')) :
    ∃ ans, answers = ans :: as' ∧ t' = expansionOf cfg t (filed cfg isRoot ans) := by
  unfold populate at h
  rw [hout] at h
  cases answers with
  | nil => simp at h
  | cons ans rest =>
    simp only at h
    cases he : effective cfg isRoot ans (cfg.table t.position.size).length with
    | none => simp [he] at h
    | some eff =>
      simp only [he] at h
      rw [expand_eq h01 hwf] at h
      simp only [Option.some.injEq, Prod.mk.injEq] at h
      obtain ⟨h1, h2⟩ := h
      refine ⟨ans, by rw [h2], ?_⟩
      have hsel : ((((cfg.table t.position.size).zip eff).filter fun c => decide (cfg.cutoff ≤ c.2)).filter
          fun c => decide (Rules.Legal t.position c.1)) = selected cfg t.position (filed cfg isRoot ans) := by
        unfold selected
        rw [← zip_effective cfg isRoot ans _ eff he, List.filter_filter]
        apply List.filter_congr
        intro x _
        exact Bool.and_comm _ _
      rw [hsel] at h1
      rw [← h1]
      unfold expansionOf selectedMass filed
      simp only [List.map_map]
      rfl

end Tree
end Tak

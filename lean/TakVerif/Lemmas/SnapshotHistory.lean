/-
  Helper lemmas for C19, part 3: every crash prefix of a (repaired) save / hook call leaves the
  run directory typed and designating either what it designated before or the new snapshot;
  a completed save designates the new snapshot; the invariant of whole histories.
-/
import TakVerif.Lemmas.SnapshotSave

namespace Tak.Snapshot

theorem isLive_iff (fs : FS) (n : Nat) :
    isLive fs n = true ↔
      (get fs (.step n)).isSome = true ∧ get fs .latest = some (.link (.step n)) := by
  simp [isLive]

/-- a step directory other than the one `latest` designates, when the save is not a re-save
    of the live snapshot -/
theorem not_live_ne {fs : FS} {n m : Nat} (hl : Live fs) (hn : ¬ isLive fs n = true)
    (hm : get fs .latest = some (.link (.step m))) : m ≠ n := by
  intro e
  subst e
  obtain ⟨m', es, c, hnd, hd, _, _⟩ := hl _ hm
  simp at hnd
  subst hnd
  exact hn ((isLive_iff fs m).2 ⟨by simp [hd], hm⟩)

theorem typed_prefix (ord : Name → List FName) (s : TrainState) (fs : FS) (ht : Typed fs)
    (k : Nat) : Typed (runPrefix k (saveOps ord s fs) fs) :=
  runPrefix_inv Typed (fun _ hop _ _ hty hrun => typed_run hty (saveOps_shaped hop) hrun) ht k

/-- **every crash prefix of a save**: the directory is typed and designates the old or the new -/
theorem save_prefix (ord : Name → List FName) (s : TrainState) (fs : FS) (hi : FsInv fs)
    (k : Nat) :
    Typed (runPrefix k (saveOps ord s fs) fs) ∧
      (Same fs (runPrefix k (saveOps ord s fs) fs) ∨ New s (runPrefix k (saveOps ord s fs) fs)) := by
  refine ⟨typed_prefix ord s fs hi.typed k, ?_⟩
  rw [saveOps_eq]
  by_cases hlive : isLive fs s.elapsed.step = true
  · -- re-save of the live snapshot: only the link is refreshed
    simp only [hlive, if_true, List.nil_append]
    obtain ⟨hlat, hfr⟩ := link_prefix s.elapsed.step fs hi.typed k
    left
    refine ⟨?_, fun m _ => hfr _ (by simp) (by simp)⟩
    rcases hlat with h | h
    · exact h
    · rw [h, ((isLive_iff _ _).1 hlive).2]
  · rw [if_neg hlive]
    by_cases hk : k ≤ (stageOps ord s fs).length
    · -- crash while staging: nothing that `latest` designates has been touched
      rw [runPrefix_append_le _ _ hk]
      obtain ⟨_, hfr⟩ := stage_prefix ord s fs hi.typed k
      left
      refine ⟨hfr _ (by simp) (by simp), fun m hm => hfr _ (by simp) ?_⟩
      have := not_live_ne hi.live hlive hm
      simpa using this
    · -- crash while switching `latest`
      have hk' : (stageOps ord s fs).length ≤ k := by omega
      obtain ⟨fsA, es, hrun, hstep, hsnap, _, hfrA⟩ := stage_run ord s fs hi.typed
      have htA : Typed fsA := by
        have := (stage_prefix ord s fs hi.typed (stageOps ord s fs).length).1
        rwa [runPrefix_of_length_le _ (Nat.le_refl _), runAll_of_runAll? hrun] at this
      rw [runPrefix_append_ge _ hk' hrun]
      obtain ⟨hlat, hfr⟩ := link_prefix s.elapsed.step fsA htA (k - (stageOps ord s fs).length)
      rcases hlat with h | h
      · left
        refine ⟨by rw [h, hfrA _ (by simp) (by simp)], fun m hm => ?_⟩
        have hne := not_live_ne hi.live hlive hm
        rw [hfr _ (by simp) (by simp), hfrA _ (by simp) (by simpa using hne)]
      · right
        exact ⟨h, es, by rw [hfr _ (by simp) (by simp), hstep], hsnap⟩

/-- **a save that is not interrupted** runs to its end and designates the new snapshot.
    `hsame`: within a run the step counter identifies the state the live snapshot holds. -/
theorem save_complete (ord : Name → List FName) (s : TrainState) (fs : FS) (hi : FsInv fs)
    (hsame : ∀ c, resume fs = .loaded c → c.elapsed.step = s.elapsed.step → c = s) :
    ∃ st, runAll? (saveOps ord s fs) fs = some st ∧ New s st := by
  rw [saveOps_eq]
  by_cases hlive : isLive fs s.elapsed.step = true
  · simp only [hlive, if_true, List.nil_append]
    obtain ⟨st, hrun, hlat, hfr⟩ := link_complete s.elapsed.step fs hi.typed
    obtain ⟨_, hL⟩ := (isLive_iff _ _).1 hlive
    obtain ⟨m, es, c, hnd, hd, hsn, hc⟩ := hi.live _ hL
    simp at hnd
    subst hnd
    have hres : resume fs = .loaded c := by simp [resume, hL, hd, readSnap_of_snap hsn]
    have : c = s := hsame c hres hc
    subst this
    exact ⟨st, hrun, hlat, es, by rw [hfr _ (by simp) (by simp), hd], hsn⟩
  · rw [if_neg hlive]
    obtain ⟨fsA, es, hrun, hstep, hsnap, _, hfrA⟩ := stage_run ord s fs hi.typed
    have htA : Typed fsA := by
      have := (stage_prefix ord s fs hi.typed (stageOps ord s fs).length).1
      rwa [runPrefix_of_length_le _ (Nat.le_refl _), runAll_of_runAll? hrun] at this
    obtain ⟨st, hrun2, hlat, hfr⟩ := link_complete s.elapsed.step fsA htA
    refine ⟨st, ?_, hlat, es, by rw [hfr _ (by simp) (by simp), hstep], hsnap⟩
    rw [runAll?_append, hrun]
    exact hrun2

/-! ### the hook (periodic test, `SAVE_NOW`) -/

theorem rmtreeOps_congr {ord : List FName} {fs fs' : FS} {d : Name} (h : get fs' d = get fs d) :
    rmtreeOps ord fs' d = rmtreeOps ord fs d := by
  unfold rmtreeOps; rw [h]

theorem saveOps_congr {ord : Name → List FName} {s : TrainState} {fs fs' : FS}
    (h : ∀ x, x ≠ .saveNow → get fs' x = get fs x) : saveOps ord s fs' = saveOps ord s fs := by
  unfold saveOps isLive
  simp only []
  rw [h (.step s.elapsed.step) (by simp), h .latest (by simp),
    rmtreeOps_congr (h (.stepTmp s.elapsed.step) (by simp)),
    rmtreeOps_congr (h (.step s.elapsed.step) (by simp))]

theorem fsInv_congr {fs fs' : FS} (hi : FsInv fs) (ht : Typed fs')
    (h : ∀ x, x ≠ .saveNow → get fs' x = get fs x) : FsInv fs' :=
  ⟨ht, live_of_same hi.live ⟨h _ (by simp), fun m _ => h _ (by simp)⟩⟩

theorem same_trans_congr {fs fs' st : FS} (h : ∀ x, x ≠ .saveNow → get fs' x = get fs x)
    (hs : Same fs' st) : Same fs st := by
  refine ⟨by rw [hs.1, h _ (by simp)], fun m hm => ?_⟩
  rw [hs.2 m (by rw [h _ (by simp)]; exact hm), h _ (by simp)]

/-- whether this hook call saves at all -/
def hookSaves (t : Trigger) (s : TrainState) (fs : FS) : Bool :=
  match t with
  | .afterRun => true
  | .afterStep freq =>
    decide (freq ≠ 0) && (decide (s.elapsed.step % freq = 0) || (get fs .saveNow).isSome)

theorem unlink_flag_run {fs : FS} (ht : Typed fs) (h : (get fs .saveNow).isSome = true) :
    (Op.unlink .saveNow true).run fs = some (del fs .saveNow) := by
  cases hg : get fs .saveNow with
  | none => simp [hg] at h
  | some nd =>
    have := ht _ _ hg
    cases nd <;> simp [OKType] at this
    simp [Op.run, hg]

/-- **every crash prefix of a hook call** -/
theorem hook_prefix (t : Trigger) (ord : Name → List FName) (s : TrainState) (fs : FS)
    (hi : FsInv fs) (k : Nat) :
    Typed (runPrefix k (hookOps t ord s fs) fs) ∧
      (Same fs (runPrefix k (hookOps t ord s fs) fs) ∨ New s (runPrefix k (hookOps t ord s fs) fs)) := by
  have hnil : ∀ k, runPrefix k [] fs = fs := by intro k; simp [runPrefix, runAll]
  cases t with
  | afterRun => exact save_prefix ord s fs hi k
  | afterStep freq =>
    unfold hookOps
    simp only []
    split
    · rw [hnil]; exact ⟨hi.typed, Or.inl (same_refl fs)⟩
    · split
      · exact save_prefix ord s fs hi k
      · split
        · next _ _ hflag =>
          match k with
          | 0 => simp only [runPrefix, List.take, runAll]; exact ⟨hi.typed, Or.inl (same_refl fs)⟩
          | k + 1 =>
            have hrun := unlink_flag_run hi.typed hflag
            have hfr : ∀ x, x ≠ Name.saveNow → get (del fs .saveNow) x = get fs x :=
              fun x hx => get_del_ne _ hx
            have hi' : FsInv (del fs .saveNow) := fsInv_congr hi (typed_del hi.typed) hfr
            have := save_prefix ord s (del fs .saveNow) hi' k
            rw [saveOps_congr hfr] at this
            simp only [runPrefix, List.take, runAll, hrun]
            simp only [runPrefix] at this
            refine ⟨this.1, ?_⟩
            rcases this.2 with h | h
            · exact Or.inl (same_trans_congr hfr h)
            · exact Or.inr h
        · rw [hnil]; exact ⟨hi.typed, Or.inl (same_refl fs)⟩

theorem hook_prefix_inv (t : Trigger) (ord : Name → List FName) (s : TrainState) (fs : FS)
    (hi : FsInv fs) (k : Nat) : FsInv (runPrefix k (hookOps t ord s fs) fs) := by
  obtain ⟨ht, hv⟩ := hook_prefix t ord s fs hi k
  rcases hv with h | h
  · exact ⟨ht, live_of_same hi.live h⟩
  · exact ⟨ht, live_of_new h⟩

theorem hook_prefix_resume (t : Trigger) (ord : Name → List FName) (s : TrainState) (fs : FS)
    (hi : FsInv fs) (k : Nat) :
    resume (runPrefix k (hookOps t ord s fs) fs) = resume fs ∨
      resume (runPrefix k (hookOps t ord s fs) fs) = .loaded s := by
  rcases (hook_prefix t ord s fs hi k).2 with h | h
  · exact Or.inl (resume_of_same hi.live h)
  · exact Or.inr (resume_of_new h)

/-- **a hook call that saves and is not interrupted** -/
theorem hook_complete (t : Trigger) (ord : Name → List FName) (s : TrainState) (fs : FS)
    (hi : FsInv fs) (hs : hookSaves t s fs = true)
    (hsame : ∀ c, resume fs = .loaded c → c.elapsed.step = s.elapsed.step → c = s) :
    ∃ st, runAll? (hookOps t ord s fs) fs = some st ∧ New s st := by
  cases t with
  | afterRun => exact save_complete ord s fs hi hsame
  | afterStep freq =>
    simp only [hookSaves, Bool.and_eq_true, Bool.or_eq_true, decide_eq_true_eq] at hs
    obtain ⟨hf, hs⟩ := hs
    unfold hookOps
    simp only [hf, if_false]
    by_cases hp : s.elapsed.step % freq = 0
    · simp only [hp, if_true]; exact save_complete ord s fs hi hsame
    · have hflag : (get fs .saveNow).isSome = true := by
        rcases hs with h | h
        · exact absurd h hp
        · exact h
      simp only [hp, if_false, hflag, if_true]
      have hrun := unlink_flag_run hi.typed hflag
      have hfr : ∀ x, x ≠ Name.saveNow → get (del fs .saveNow) x = get fs x :=
        fun x hx => get_del_ne _ hx
      have hi' : FsInv (del fs .saveNow) := fsInv_congr hi (typed_del hi.typed) hfr
      have hres : resume (del fs .saveNow) = resume fs :=
        resume_of_same hi.live ⟨hfr _ (by simp), fun m _ => hfr _ (by simp)⟩
      obtain ⟨st, h1, h2⟩ := save_complete ord s (del fs .saveNow) hi' (by rw [hres]; exact hsame)
      rw [saveOps_congr hfr] at h1
      exact ⟨st, by simp only [runAll?, hrun]; exact h1, h2⟩

/-! ### `load_model` does not matter once the run directory designates a snapshot -/

theorem resumeWith_loaded {fs : FS} {s : TrainState} (lm : LoadModel) (h : resume fs = .loaded s) :
    resumeWith lm fs = .loaded s := by simp [resumeWith, h]

theorem resumeWith_congr {a b : FS} (lm : LoadModel) (h : resume a = resume b) :
    resumeWith lm a = resumeWith lm b := by simp [resumeWith, h]

theorem resumeWith_error_iff (lm : LoadModel) (fs : FS) :
    resumeWith lm fs = .error ↔ resume fs = .error := by
  unfold resumeWith
  cases resume fs <;> cases lm <;> simp

theorem resumeWith_unset (fs : FS) :
    resumeWith .unset fs = (match resume fs with
      | .fresh => .fresh
      | .loaded s => .loaded s
      | .error => .error) := by
  unfold resumeWith
  cases resume fs <;> rfl

/-! ### histories -/

/-- the live snapshot is not ahead of the running trainer, and at equal step counters it IS the
    trainer's state (a step counter is only ever advanced by a training step) -/
def MemInv (sys : Sys) : Prop :=
  ∀ s, sys.mem = some s → ∀ c, resume sys.fs = .loaded c →
    c.elapsed.step ≤ s.elapsed.step ∧ (c.elapsed.step = s.elapsed.step → c = s)

structure SysInv (sys : Sys) : Prop where
  fs : FsInv sys.fs
  mem : MemInv sys

theorem sysInv_empty : SysInv ⟨[], none⟩ := ⟨fsInv_nil, by intro s h; simp at h⟩

theorem event_inv (init : TrainState) (lm : LoadModel) (e : Event) (sys : Sys) (hi : SysInv sys) :
    SysInv (e.apply init lm sys) := by
  obtain ⟨hfs, hmem⟩ := hi
  cases e with
  | start =>
    simp only [Event.apply]
    cases hr : resume sys.fs with
    | fresh => exact ⟨hfs, by intro s _ c hc; simp [hr] at hc⟩
    | loaded s0 =>
      refine ⟨hfs, ?_⟩
      intro s hs c hc
      simp only [Option.some.injEq] at hs
      subst hs
      rw [hr] at hc
      simp only [Outcome.loaded.injEq] at hc
      subst hc
      exact ⟨Nat.le_refl _, fun _ => rfl⟩
    | error => exact ⟨hfs, by intro s hs; simp at hs⟩
  | train p o b k pos ep =>
    simp only [Event.apply]
    cases hm : sys.mem with
    | none => exact ⟨hfs, by intro s hs; simp [hm] at hs⟩
    | some s0 =>
      refine ⟨hfs, ?_⟩
      intro s hs c hc
      simp only [Option.some.injEq] at hs
      subst hs
      have := (hmem s0 hm c hc).1
      simp only
      constructor
      · omega
      · intro h; omega
  | touch =>
    simp only [Event.apply]
    have hfr : ∀ x, x ≠ Name.saveNow → get (put sys.fs .saveNow .flag) x = get sys.fs x :=
      fun x hx => get_put_ne _ _ hx
    have hres : resume (put sys.fs .saveNow .flag) = resume sys.fs :=
      resume_of_same hfs.live ⟨hfr _ (by simp), fun m _ => hfr _ (by simp)⟩
    refine ⟨fsInv_congr hfs (typed_put hfs.typed (by simp [OKType])) hfr, ?_⟩
    intro s hs c hc
    exact hmem s hs c (by rw [← hres]; exact hc)
  | hook t ord =>
    simp only [Event.apply]
    cases hm : sys.mem with
    | none => exact ⟨hfs, by intro s hs; simp [hm] at hs⟩
    | some s0 =>
      simp only []
      have hrw : runAll (hookOps t ord s0 sys.fs) sys.fs
          = runPrefix (hookOps t ord s0 sys.fs).length (hookOps t ord s0 sys.fs) sys.fs :=
        (runPrefix_of_length_le _ (Nat.le_refl _)).symm
      rw [hrw]
      refine ⟨hook_prefix_inv t ord s0 sys.fs hfs _, ?_⟩
      intro s hs c hc
      simp only at hs hc
      simp only [Option.some.injEq] at hs
      subst hs
      rcases hook_prefix_resume t ord s0 sys.fs hfs (hookOps t ord s0 sys.fs).length with h | h
      · exact hmem s0 hm c (by rw [← h]; exact hc)
      · rw [h] at hc
        simp only [Outcome.loaded.injEq] at hc
        subst hc
        exact ⟨Nat.le_refl _, fun _ => rfl⟩
  | crash t ord k =>
    simp only [Event.apply]
    cases hm : sys.mem with
    | none => exact ⟨hfs, by intro s hs; simp [hm] at hs⟩
    | some s0 =>
      exact ⟨hook_prefix_inv t ord s0 sys.fs hfs k, by intro s hs; simp at hs⟩
  | kill =>
    exact ⟨hfs, by intro s hs; simp [Event.apply] at hs⟩

theorem history_inv (init : TrainState) (lm : LoadModel) (h : List Event) (sys : Sys)
    (hi : SysInv sys) : SysInv (runHistory init lm h sys) := by
  induction h generalizing sys with
  | nil => exact hi
  | cons e r ih => exact ih _ (event_inv init lm e sys hi)

/-- a single event never makes the run directory fall back to `fresh` -/
theorem event_not_fresh (init : TrainState) (lm : LoadModel) (e : Event) (sys : Sys)
    (hi : SysInv sys) (hn : resume sys.fs ≠ .fresh) : resume (e.apply init lm sys).fs ≠ .fresh := by
  have keep : ∀ (t : Trigger) (ord : Name → List FName) (s0 : TrainState) (k : Nat),
      resume (runPrefix k (hookOps t ord s0 sys.fs) sys.fs) ≠ .fresh := by
    intro t ord s0 k
    rcases hook_prefix_resume t ord s0 sys.fs hi.fs k with h | h
    · rw [h]; exact hn
    · rw [h]; simp
  cases e with
  | start => simp only [Event.apply]; split <;> exact hn
  | train p o b k pos ep => simp only [Event.apply]; split <;> exact hn
  | touch =>
    simp only [Event.apply]
    have hfr : ∀ x, x ≠ Name.saveNow → get (put sys.fs .saveNow .flag) x = get sys.fs x :=
      fun x hx => get_put_ne _ _ hx
    rw [resume_of_same hi.fs.live ⟨hfr _ (by simp), fun m _ => hfr _ (by simp)⟩]
    exact hn
  | hook t ord =>
    simp only [Event.apply]
    split
    · next s0 _ =>
      simp only
      rw [← runPrefix_of_length_le _ (Nat.le_refl _)]
      exact keep t ord s0 _
    · exact hn
  | crash t ord k =>
    simp only [Event.apply]
    split
    · next s0 _ => exact keep t ord s0 k
    · exact hn
  | kill => exact hn

theorem history_not_fresh (init : TrainState) (lm : LoadModel) (h : List Event) (sys : Sys)
    (hi : SysInv sys) (hn : resume sys.fs ≠ .fresh) :
    resume (runHistory init lm h sys).fs ≠ .fresh := by
  induction h generalizing sys with
  | nil => exact hn
  | cons e r ih => exact ih _ (event_inv init lm e sys hi) (event_not_fresh init lm e sys hi hn)

end Tak.Snapshot

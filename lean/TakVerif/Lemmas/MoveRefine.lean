/-
  Helper lemmas for C01: `Impl.move` refines `Rules.Legal` / `Rules.result`.

  * list-sum facts about drop lists,
  * geometry of the slide path (unit directions: path squares are pairwise distinct and
    distinct from the origin),
  * a relational characterisation of `Rules.slideSquare`,
  * the loop invariant of `Impl.slideLoop`,
  * `movePlace` / `moveSlide` against the rules.
-/
import TakVerif.Model.Move
import TakVerif.Spec.Rules
import TakVerif.Lemmas.Board

namespace Tak
namespace MoveRefine

open Pos Rules Impl

/-! ### sums of drop lists -/

theorem sum_take_succ (ds : List Nat) {i : Nat} (h : i < ds.length) :
    (ds.take (i + 1)).sum = (ds.take i).sum + ds[i] := by
  rw [List.take_succ_eq_append_getElem h, List.sum_append]
  simp

theorem sum_take_add_drop (ds : List Nat) (i : Nat) :
    (ds.take i).sum + (ds.drop i).sum = ds.sum := by
  rw [← List.sum_append, List.take_append_drop]

theorem sum_take_le (ds : List Nat) (i : Nat) : (ds.take i).sum ≤ ds.sum := by
  have := sum_take_add_drop ds i
  omega

theorem sum_take_length (ds : List Nat) : (ds.take ds.length).sum = ds.sum := by
  rw [List.take_length]

/-- a list of positive drops sums to at least its length -/
theorem length_le_sum_of_pos (ds : List Nat) (h : ∀ d ∈ ds, 1 ≤ d) : ds.length ≤ ds.sum := by
  induction ds with
  | nil => simp
  | cons a t ih =>
    have h1 := h a (by simp)
    have h2 := ih (fun d hd => h d (by simp [hd]))
    simp only [List.length_cons, List.sum_cons]
    omega

/-- the `Int` drop tuple and its `Nat` image have the same total when all drops are ≥ 1 -/
theorem sum_map_toNat (ds : List Int) (h : ∀ d ∈ ds, 1 ≤ d) :
    (((ds.map Int.toNat).sum : Nat) : Int) = ds.sum := by
  induction ds with
  | nil => simp
  | cons a t ih =>
    have h1 := h a (by simp)
    have h2 := ih (fun d hd => h d (by simp [hd]))
    simp only [List.map_cons, List.sum_cons, Int.natCast_add, h2]
    omega

/-! ### `slideDrops` -/

theorem slideDrops_some (m : Move) (dsI : List Int) (hs : m.slides = some dsI)
    (hne : dsI ≠ []) (hpos : ∀ d ∈ dsI, 1 ≤ d) : slideDrops m = some (dsI.map Int.toNat) := by
  unfold slideDrops
  rw [hs]
  have : dsI.all (fun d => decide (1 ≤ d)) = true := by
    simp only [List.all_eq_true, decide_eq_true_eq]; exact hpos
  simp [hne, this]

theorem slideDrops_eq_some {m : Move} {ds : List Nat} (h : slideDrops m = some ds) :
    ∃ dsI, m.slides = some dsI ∧ dsI ≠ [] ∧ (∀ d ∈ dsI, 1 ≤ d) ∧ ds = dsI.map Int.toNat := by
  unfold slideDrops at h
  split at h
  · cases h
  · rename_i dsI hs
    split at h
    · rename_i hc
      refine ⟨dsI, hs, hc.1, ?_, ?_⟩
      · have := hc.2
        simpa only [List.all_eq_true, decide_eq_true_eq] using this
      · cases h; rfl
    · cases h

/-- the drops of a slide that the rules accept are all positive and there is at least one -/
theorem slideDrops_pos {m : Move} {ds : List Nat} (h : slideDrops m = some ds) :
    ds ≠ [] ∧ ∀ d ∈ ds, 1 ≤ d := by
  obtain ⟨dsI, _, hne, hpos, rfl⟩ := slideDrops_eq_some h
  refine ⟨by simpa using hne, ?_⟩
  intro d hd
  simp only [List.mem_map] at hd
  obtain ⟨a, ha, rfl⟩ := hd
  have := hpos a ha
  omega

/-! ### bounds -/

theorem inBounds_iff (p : Pos) (x y : Int) :
    p.inBounds x y = true ↔ 0 ≤ x ∧ x < p.size ∧ 0 ≤ y ∧ y < p.size := by
  simp [Pos.inBounds, and_assoc]

theorem inBounds_nat (p : Pos) {x y : Int} (h : p.inBounds x y = true) :
    x.toNat < p.size ∧ y.toNat < p.size ∧ (x.toNat : Int) = x ∧ (y.toNat : Int) = y := by
  rw [inBounds_iff] at h
  omega

theorem atI_eq_getD (p : Pos) (x y : Int) :
    p.atI x y = p.board.getD (x.toNat + y.toNat * p.size) [] := rfl

theorem atI_natCast (p : Pos) (a b : Nat) : p.atI (a : Int) (b : Int) = p.sq a b := by
  simp [Pos.atI]

/-! ### geometry of the path -/

theorem pathSq_succ_fst (m : Move) (k : Nat) :
    (pathSq m (k + 1)).1 = (pathSq m k).1 + m.type.direction.1 := by
  simp only [pathSq]; grind

theorem pathSq_succ_snd (m : Move) (k : Nat) :
    (pathSq m (k + 1)).2 = (pathSq m k).2 + m.type.direction.2 := by
  simp only [pathSq]; grind

theorem pathSq_zero (m : Move) :
    pathSq m 0 = (m.x + m.type.direction.1, m.y + m.type.direction.2) := by
  simp [pathSq]

/-- path squares are pairwise distinct (the direction is a unit vector) -/
theorem pathSq_inj {m : Move} (hs : m.type.isSlide = true) {i j : Nat}
    (h : pathSq m i = pathSq m j) : i = j := by
  simp only [pathSq, Prod.mk.injEq] at h
  cases ht : m.type <;> simp only [ht, MoveType.isSlide, MoveType.direction] at h hs <;>
    first | omega | (cases hs)

/-- no path square is the origin -/
theorem pathSq_ne_origin {m : Move} (hs : m.type.isSlide = true) (i : Nat) :
    pathSq m i ≠ (m.x, m.y) := by
  intro h
  simp only [pathSq, Prod.mk.injEq] at h
  cases ht : m.type <;> simp only [ht, MoveType.isSlide, MoveType.direction] at h hs <;>
    first | omega | (cases hs)

/-! ### `slideSquare`, relationally -/

theorem slideSquare_origin (p : Pos) (m : Move) (ds : List Nat) {a b : Nat}
    (h : ((a : Int), (b : Int)) = (m.x, m.y)) :
    slideSquare p m ds a b = (p.atI m.x m.y).drop ds.sum := by
  unfold slideSquare; rw [if_pos h]

theorem slideSquare_path (p : Pos) (m : Move) (ds : List Nat) (hs : m.type.isSlide = true)
    {a b i : Nat} (hi : i < ds.length) (h : pathSq m i = ((a : Int), (b : Int))) :
    slideSquare p m ds a b = segment p m ds i ++ flattened (p.sq a b) := by
  unfold slideSquare
  have hne : ¬ ((a : Int), (b : Int)) = (m.x, m.y) := by
    rw [← h]; exact pathSq_ne_origin hs i
  rw [if_neg hne]
  have : (List.range ds.length).find? (fun i => pathSq m i = ((a : Int), (b : Int))) = some i := by
    rw [List.find?_range_eq_some]
    refine ⟨by simpa using h, by simpa using hi, ?_⟩
    intro j hj
    have : pathSq m j ≠ ((a : Int), (b : Int)) := by
      intro e
      have := pathSq_inj hs (e.trans h.symm)
      omega
    simpa using this
  rw [this]

theorem slideSquare_other (p : Pos) (m : Move) (ds : List Nat) {a b : Nat}
    (h0 : ¬ ((a : Int), (b : Int)) = (m.x, m.y))
    (h : ∀ i, i < ds.length → pathSq m i ≠ ((a : Int), (b : Int))) :
    slideSquare p m ds a b = p.sq a b := by
  unfold slideSquare
  rw [if_neg h0]
  have : (List.range ds.length).find? (fun i => pathSq m i = ((a : Int), (b : Int))) = none := by
    rw [List.find?_eq_none]
    intro i hi
    have := h i (by simpa using hi)
    simpa using this
  rw [this]

/-! ### flattening -/

theorem flatten_eq_flattened (s : Stack) :
    (if topKind s = some Kind.standing then flattenTop s else s) = flattened s := by
  cases s with
  | nil => simp [flattened, topKind]
  | cons t r =>
    by_cases h : t.kind = .standing <;> simp [flattened, flattenTop, topKind, h]

/-! ### the slide loop -/

/-- standing facts about a slide whose origin, drops and height have been validated -/
structure SlideCtx (p : Pos) (m : Move) (ds : List Nat) : Prop where
  wf : p.WF
  isSlide : m.type.isSlide = true
  onBoard : p.inBounds m.x m.y = true
  pos : ∀ d ∈ ds, 1 ≤ d
  height : ds.sum ≤ (p.atI m.x m.y).length

/-- the rule clauses about path square `i` -/
def StepOK (p : Pos) (m : Move) (ds : List Nat) (i : Nat) : Prop :=
  p.inBounds (pathSq m i).1 (pathSq m i).2 = true ∧
  topKind (pathStack p m i) ≠ some .cap ∧
  (topKind (pathStack p m i) = some .standing →
     ds.sum - (ds.take i).sum = 1 ∧ topKind (p.atI m.x m.y) = some .cap)

/-- loop invariant on the board under construction after `k` drops -/
def Inv (p : Pos) (m : Move) (ds : List Nat) (k : Nat) (nb : List Stack) : Prop :=
  nb.length = p.size * p.size ∧
  ∀ a b, a < p.size → b < p.size →
    ((((a : Int), (b : Int)) = (m.x, m.y) ∨ ∃ i, i < k ∧ pathSq m i = ((a : Int), (b : Int))) →
        nb.getD (a + b * p.size) [] = slideSquare p m ds a b) ∧
    (¬ (((a : Int), (b : Int)) = (m.x, m.y) ∨ ∃ i, i < k ∧ pathSq m i = ((a : Int), (b : Int))) →
        nb.getD (a + b * p.size) [] = p.sq a b)

theorem carried_length {p : Pos} {m : Move} {ds : List Nat} (c : SlideCtx p m ds) :
    (carried p m ds).length = ds.sum := by
  simp [carried, c.height]

theorem Inv_zero {p : Pos} {m : Move} {ds : List Nat} (c : SlideCtx p m ds) :
    Inv p m ds 0 (p.board.set (p.idx m.x.toNat m.y.toNat) ((p.atI m.x m.y).drop ds.sum)) := by
  obtain ⟨hx, hy, ex, ey⟩ := inBounds_nat p c.onBoard
  refine ⟨by simp [c.wf.2], ?_⟩
  intro a b ha hb
  have hg := Pos.getD_set_idx p.board c.wf.2 hx hy ha hb ((p.atI m.x m.y).drop ds.sum)
  unfold Pos.idx
  have hiff : (((a : Int), (b : Int)) = (m.x, m.y)) ↔ (a = m.x.toNat ∧ b = m.y.toNat) := by
    simp only [Prod.mk.injEq]; omega
  constructor
  · intro h
    have h0 : ((a : Int), (b : Int)) = (m.x, m.y) := by
      rcases h with h | ⟨i, hi, _⟩
      · exact h
      · omega
    rw [hg, if_pos (hiff.1 h0), slideSquare_origin p m ds h0]
  · intro h
    have h0 : ¬ (a = m.x.toNat ∧ b = m.y.toNat) := fun e => h (.inl (hiff.2 e))
    rw [hg, if_neg h0]; rfl

theorem Inv_final {p : Pos} {m : Move} {ds : List Nat} {k : Nat} {nb : List Stack}
    (hk : ds.length ≤ k) (h : Inv p m ds k nb) : nb = boardOf p.size (slideSquare p m ds) := by
  apply Pos.board_ext nb _ h.1 (length_boardOf _ _)
  intro a b ha hb
  rw [getD_boardOf _ ha hb]
  obtain ⟨h1, h2⟩ := h.2 a b ha hb
  by_cases hc : (((a : Int), (b : Int)) = (m.x, m.y) ∨ ∃ i, i < k ∧ pathSq m i = ((a : Int), (b : Int)))
  · exact h1 hc
  · rw [h2 hc, slideSquare_other]
    · exact fun e => hc (.inl e)
    · intro i hi e
      exact hc (.inr ⟨i, by omega, e⟩)

theorem Inv_step {p : Pos} {m : Move} {ds : List Nat} {k : Nat} {nb : List Stack}
    (c : SlideCtx p m ds) (hk : k < ds.length)
    (hin : p.inBounds (pathSq m k).1 (pathSq m k).2 = true) (h : Inv p m ds k nb) :
    Inv p m ds (k + 1)
      (nb.set (p.idx (pathSq m k).1.toNat (pathSq m k).2.toNat)
        (segment p m ds k ++ flattened (pathStack p m k))) := by
  obtain ⟨hx, hy, ex, ey⟩ := inBounds_nat p hin
  refine ⟨by simp [h.1], ?_⟩
  intro a b ha hb
  have hg := Pos.getD_set_idx nb h.1 hx hy ha hb (segment p m ds k ++ flattened (pathStack p m k))
  unfold Pos.idx
  rw [hg]
  have hiff : pathSq m k = ((a : Int), (b : Int)) ↔
      (a = (pathSq m k).1.toNat ∧ b = (pathSq m k).2.toNat) := by
    rw [Prod.ext_iff]; simp only []; omega
  by_cases hab : a = (pathSq m k).1.toNat ∧ b = (pathSq m k).2.toNat
  · rw [if_pos hab]
    have hp := hiff.2 hab
    constructor
    · intro _
      rw [slideSquare_path p m ds c.isSlide hk hp]
      have : pathStack p m k = p.sq a b := by
        unfold pathStack Pos.atI; rw [hab.1, hab.2]
      rw [this]
    · intro hn
      exact absurd (.inr ⟨k, by omega, hp⟩) hn
  · rw [if_neg hab]
    have hnp : ¬ pathSq m k = ((a : Int), (b : Int)) := fun e => hab (hiff.1 e)
    have hcond : (((a : Int), (b : Int)) = (m.x, m.y) ∨ ∃ i, i < k + 1 ∧ pathSq m i = ((a : Int), (b : Int))) ↔
        (((a : Int), (b : Int)) = (m.x, m.y) ∨ ∃ i, i < k ∧ pathSq m i = ((a : Int), (b : Int))) := by
      constructor
      · rintro (e | ⟨i, hi, e⟩)
        · exact .inl e
        · have : i ≠ k := fun ik => hnp (ik ▸ e)
          exact .inr ⟨i, by omega, e⟩
      · rintro (e | ⟨i, hi, e⟩)
        · exact .inl e
        · exact .inr ⟨i, by omega, e⟩
    rw [hcond]
    exact h.2 a b ha hb

/-- the carried pieces dropped at step `k` are the rule book's `segment` -/
theorem carry_drop_eq_segment {p : Pos} {m : Move} {ds : List Nat} (c : SlideCtx p m ds)
    {k : Nat} (hk : k < ds.length) :
    let C := (carried p m ds).take (ds.sum - (ds.take k).sum)
    C.drop (C.length - ds[k]) = segment p m ds k ∧
    C.take (C.length - ds[k]) = (carried p m ds).take (ds.sum - (ds.take (k + 1)).sum) ∧
    C.length = ds.sum - (ds.take k).sum ∧ 1 ≤ C.length := by
  intro C
  have hl : C.length = ds.sum - (ds.take k).sum := by
    simp only [C, List.length_take, carried_length c]; omega
  have h1 := sum_take_succ ds hk
  have h2 := sum_take_le ds (k + 1)
  have h3 := c.pos ds[k] (by simp)
  have e : C.length - ds[k] = ds.sum - (ds.take (k + 1)).sum := by omega
  refine ⟨?_, ?_, hl, by omega⟩
  · rw [e]; rfl
  · rw [e]; simp only [C, List.take_take]
    congr 1; omega

theorem carry_head {p : Pos} {m : Move} {ds : List Nat} (c : SlideCtx p m ds)
    {k : Nat} (hk : k < ds.length) :
    ((carried p m ds).take (ds.sum - (ds.take k).sum)).head? = (p.atI m.x m.y).head? := by
  have h := (carry_drop_eq_segment c hk).2.2
  simp only [carried, List.head?_take] at h ⊢
  have h1 : ¬ ds.sum - (ds.take k).sum = 0 := by omega
  have h2 : ¬ ds.sum = 0 := by omega
  rw [if_neg h1, if_neg h2]

theorem slideLoop_spec {p : Pos} {m : Move} {ds : List Nat} (c : SlideCtx p m ds) :
    ∀ (rest : List Nat) (k : Nat) (x y : Int) (nb : List Stack),
      ds.drop k = rest →
      x + m.type.direction.1 = (pathSq m k).1 → y + m.type.direction.2 = (pathSq m k).2 →
      Inv p m ds k nb →
      ((∀ i, k ≤ i → i < ds.length → StepOK p m ds i) →
        slideLoop p m.type.direction.1 m.type.direction.2 x y
          ((carried p m ds).take (ds.sum - (ds.take k).sum)) nb rest
          = .ok (boardOf p.size (slideSquare p m ds))) ∧
      (¬ (∀ i, k ≤ i → i < ds.length → StepOK p m ds i) →
        slideLoop p m.type.direction.1 m.type.direction.2 x y
          ((carried p m ds).take (ds.sum - (ds.take k).sum)) nb rest
          = .error .illegal) := by
  intro rest
  induction rest with
  | nil =>
    intro k x y nb hd _ _ hinv
    have hk : ds.length ≤ k := by simpa using hd
    constructor
    · intro _; simp only [slideLoop]; rw [Inv_final hk hinv]
    · intro hn; exact absurd (fun i h1 h2 => by omega) hn
  | cons d rest' ih =>
    intro k x y nb hd hx hy hinv
    have hk : k < ds.length := by
      apply Decidable.byContradiction
      intro hge; rw [List.drop_eq_nil_of_le (by omega)] at hd; cases hd
    rw [List.drop_eq_getElem_cons hk] at hd
    injection hd with hdk hrest
    subst hdk
    obtain ⟨hseg, htake, hlen, hpos⟩ := carry_drop_eq_segment c hk
    have hhead := carry_head c hk
    have hall : (∀ i, k ≤ i → i < ds.length → StepOK p m ds i) ↔
        StepOK p m ds k ∧ (∀ i, k + 1 ≤ i → i < ds.length → StepOK p m ds i) := by
      constructor
      · intro h; exact ⟨h k (Nat.le_refl _) hk, fun i h1 h2 => h i (by omega) h2⟩
      · rintro ⟨h0, h1⟩ i hi1 hi2
        by_cases e : i = k
        · subst e; exact h0
        · exact h1 i (by omega) hi2
    rw [hall]
    generalize hC : (carried p m ds).take (ds.sum - (ds.take k).sum) = C at *
    rw [slideLoop]
    simp only [hx, hy]
    have hps : p.board.getD (p.idx (pathSq m k).1.toNat (pathSq m k).2.toNat) [] = pathStack p m k := rfl
    simp only [hps, flatten_eq_flattened]
    cases C with
    | nil => simp at hpos
    | cons c0 tl =>
      simp only []
      rw [htake, hseg]
      have hc0 : topKind (p.atI m.x m.y) = some .cap ↔ c0.kind = .cap := by
        unfold topKind; rw [← hhead]; simp
      by_cases hin : p.inBounds (pathSq m k).1 (pathSq m k).2 = true
      case neg =>
        refine ⟨fun h => absurd h.1.1 hin, fun _ => ?_⟩
        simp only [Bool.not_eq_true] at hin
        simp only [hin, Bool.not_false, ↓reduceIte]
      simp only [hin, Bool.not_true, Bool.false_eq_true, ↓reduceIte]
      by_cases hcap : topKind (pathStack p m k) = some .cap
      case pos =>
        refine ⟨fun h => absurd hcap h.1.2.1, fun _ => ?_⟩
        simp only [hcap, ↓reduceIte]
      simp only [hcap, ↓reduceIte]
      by_cases hw : topKind (pathStack p m k) = some Kind.standing ∧ (c0.kind ≠ Kind.cap ∨ (c0 :: tl).length ≠ 1)
      case pos =>
        rw [if_pos hw]
        refine ⟨fun h => ?_, fun _ => rfl⟩
        have := h.1.2.2 hw.1
        rw [hc0, ← hlen] at this
        rcases hw.2 with e | e
        · exact absurd this.2 e
        · exact absurd this.1 e
      rw [if_neg hw]
      have hstep : StepOK p m ds k := by
        refine ⟨hin, hcap, fun hs => ?_⟩
        rw [hc0, ← hlen]
        constructor
        · apply Decidable.byContradiction; intro e; exact hw ⟨hs, .inr e⟩
        · apply Decidable.byContradiction; intro e; exact hw ⟨hs, .inl e⟩
      have IH := ih (k + 1) _ _ _ hrest (pathSq_succ_fst m k).symm (pathSq_succ_snd m k).symm
        (Inv_step c hk hin hinv)
      refine ⟨fun h => IH.1 h.2, fun h => IH.2 (fun h' => h ⟨hstep, h'⟩)⟩

/-! ### `moveSlide` against the rules -/

theorem placeKind_none_of_slide {t : MoveType} (h : t.isSlide = true) : placeKind t = none := by
  cases t <;> simp_all [MoveType.isSlide, placeKind]

theorem moveSlide_refines {p : Pos} {m : Move} (hwf : p.WF) (hb : p.inBounds m.x m.y = true)
    (hs : m.type.isSlide = true) :
    ((∃ ds, SlideOK p m ds) → moveSlide p m = .ok (result p m)) ∧
    (¬ (∃ ds, SlideOK p m ds) → moveSlide p m = .error .illegal) := by
  unfold moveSlide
  by_cases hply : p.ply < 2
  · rw [if_pos hply]
    exact ⟨fun ⟨ds, h⟩ => by have := h.opening; omega, fun _ => rfl⟩
  rw [if_neg hply]
  cases hsl : m.slides with
  | none =>
    refine ⟨fun ⟨ds, h⟩ => ?_, fun _ => rfl⟩
    have := h.drops
    simp [slideDrops, hsl] at this
  | some dsI =>
    simp only []
    by_cases hbad : dsI = [] ∨ dsI.any (· < 1) = true
    · rw [if_pos hbad]
      refine ⟨fun ⟨ds, h⟩ => ?_, fun _ => rfl⟩
      obtain ⟨dsI', h1, h2, h3, _⟩ := slideDrops_eq_some h.drops
      rw [hsl] at h1; cases h1
      rcases hbad with e | e
      · exact absurd e h2
      · simp only [List.any_eq_true, decide_eq_true_eq] at e
        obtain ⟨d, hd, hlt⟩ := e
        have := h3 d hd; omega
    rw [if_neg hbad]
    have hne : dsI ≠ [] := fun e => hbad (.inl e)
    have hpos : ∀ d ∈ dsI, 1 ≤ d := by
      intro d hd
      apply Decidable.byContradiction; intro hlt
      apply hbad; right
      simp only [List.any_eq_true, decide_eq_true_eq]
      exact ⟨d, hd, by omega⟩
    have hdrops := slideDrops_some m dsI hsl hne hpos
    have hsum := sum_map_toNat dsI hpos
    generalize hds : dsI.map Int.toNat = ds at *
    have key : ∀ {P : Prop}, (SlideOK p m ds → P) → ((∃ ds', SlideOK p m ds') → P) := by
      rintro P f ⟨ds', h⟩
      have : ds' = ds := by have := h.drops; rw [hdrops] at this; cases this; rfl
      exact f (this ▸ h)
    have hposN : ∀ d ∈ ds, 1 ≤ d := (slideDrops_pos hdrops).2
    have hlen1 : 1 ≤ ds.sum := by
      have := length_le_sum_of_pos ds hposN
      have : ds ≠ [] := (slideDrops_pos hdrops).1
      have : 0 < ds.length := List.length_pos_iff.2 this
      omega
    rw [← hsum, Int.toNat_natCast]
    by_cases hlim : (ds.sum : Int) > p.size ∨ ((p.atI m.x m.y).length : Int) < ds.sum
    · rw [if_pos hlim]
      refine ⟨key fun h => ?_, fun _ => rfl⟩
      have h1 := h.carryLimit; have h2 := h.height
      omega
    rw [if_neg hlim]
    have hlt : ¬ ((ds.sum : Int) < 1) := by omega
    rw [if_neg hlt]
    have hheight : ds.sum ≤ (p.atI m.x m.y).length := by omega
    have c : SlideCtx p m ds := ⟨hwf, hs, hb, hposN, hheight⟩
    have hloop := slideLoop_spec c ds 0 m.x m.y _ rfl (by rw [pathSq_zero]) (by rw [pathSq_zero])
      (Inv_zero c)
    have hcar : (carried p m ds).take (ds.sum - (ds.take 0).sum) = (p.atI m.x m.y).take ds.sum := by
      simp [carried, List.take_take]
    rw [hcar] at hloop
    rcases hst : p.atI m.x m.y with _ | ⟨top, tl⟩
    · rw [hst] at hheight; simp at hheight; omega
    simp only []
    rw [← hst]
    have hown : topColor (p.atI m.x m.y) = some p.toMove ↔ top.color = p.toMove := by
      rw [hst]; simp [topColor]
    by_cases hcol : top.color ≠ p.toMove
    · rw [if_pos hcol]
      refine ⟨key fun h => ?_, fun _ => rfl⟩
      exact absurd (hown.1 h.owner) hcol
    rw [if_neg hcol]
    by_cases hall : ∀ i, 0 ≤ i → i < ds.length → StepOK p m ds i
    · rw [hloop.1 hall]
      refine ⟨fun _ => ?_, fun hn => ?_⟩
      · simp [result, placeKind_none_of_slide hs, hdrops]
      · exfalso; apply hn
        refine ⟨ds, hs, by omega, hb, hdrops, by omega, hheight, hown.2 (by simpa using hcol), ?_, ?_, ?_⟩
        · exact fun i hi => (hall i (Nat.zero_le _) hi).1
        · exact fun i hi => (hall i (Nat.zero_le _) hi).2.1
        · exact fun i hi => (hall i (Nat.zero_le _) hi).2.2
    · rw [hloop.2 hall]
      refine ⟨key fun h => ?_, fun _ => rfl⟩
      exfalso; apply hall
      exact fun i _ hi => ⟨h.pathIn i hi, h.noCap i hi, h.wall i hi⟩

/-! ### `movePlace` against the rules -/

theorem place_type_kind {t : MoveType} (h : t.isSlide = false) :
    ∃ k0, placeKind t = some k0 ∧ (t ≠ .placeFlat ↔ k0 ≠ .flat) ∧
      (decide (t = .placeCap) = decide (k0 = .cap)) ∧
      (if t = .placeCap then Kind.cap else if t = .placeStanding then .standing else .flat) = k0 := by
  cases t <;> simp_all [MoveType.isSlide, placeKind]

theorem set_eq_boardOf {p : Pos} (hwf : p.WF) {x y : Int} (hb : p.inBounds x y = true) (s : Stack) :
    p.board.set (p.idx x.toNat y.toNat) s =
      boardOf p.size (fun a b => if ((a : Int), (b : Int)) = (x, y) then s else p.sq a b) := by
  obtain ⟨hx, hy, ex, ey⟩ := inBounds_nat p hb
  apply Pos.board_ext _ _ (by simp [hwf.2]) (length_boardOf _ _)
  intro a b ha hb'
  rw [getD_boardOf _ ha hb']
  unfold Pos.idx
  rw [Pos.getD_set_idx p.board hwf.2 hx hy ha hb']
  have hiff : (((a : Int), (b : Int)) = (x, y)) ↔ (a = x.toNat ∧ b = y.toNat) := by
    simp only [Prod.mk.injEq]; omega
  by_cases h : a = x.toNat ∧ b = y.toNat
  · rw [if_pos h, if_pos (hiff.2 h)]
  · rw [if_neg h, if_neg (fun e => h (hiff.1 e))]; rfl

theorem movePlace_refines {p : Pos} {m : Move} (hwf : p.WF) (hb : p.inBounds m.x m.y = true)
    (hs : m.type.isSlide = false) :
    ((∃ k, PlaceOK p m k) → movePlace p m = .ok (result p m)) ∧
    (¬ (∃ k, PlaceOK p m k) → movePlace p m = .error .illegal) := by
  obtain ⟨k0, hk0, hflat, hcapd, hkind⟩ := place_type_kind hs
  have key : ∀ {P : Prop}, (PlaceOK p m k0 → P) → ((∃ k, PlaceOK p m k) → P) := by
    rintro P f ⟨k, h⟩
    have : k = k0 := by have := h.kind; rw [hk0] at this; cases this; rfl
    exact f (this ▸ h)
  unfold movePlace
  by_cases hop : p.ply < 2 ∧ m.type ≠ .placeFlat
  · rw [if_pos hop]
    refine ⟨key fun h => ?_, fun _ => rfl⟩
    exact absurd (h.opening hop.1) (hflat.1 hop.2)
  rw [if_neg hop]
  by_cases hemp : p.atI m.x m.y ≠ []
  · rw [if_pos hemp]
    exact ⟨key fun h => absurd h.empty hemp, fun _ => rfl⟩
  rw [if_neg hemp]
  simp only [hkind, hcapd]
  have hcolor : (if p.ply < 2 then p.toMove.flip else p.toMove) = placeColor p := rfl
  simp only [hcolor]
  have havail : (if decide (k0 = Kind.cap) = true then p.caps (placeColor p)
      else p.stones (placeColor p)) = reserveFor p (placeColor p) k0 := by simp [reserveFor]
  rw [havail]
  by_cases hav : reserveFor p (placeColor p) k0 ≤ 0
  · rw [if_pos hav]
    exact ⟨key fun h => by have := h.reserve; omega, fun _ => rfl⟩
  rw [if_neg hav]
  refine ⟨fun _ => ?_, fun hn => ?_⟩
  · have hres : result p m =
        { takeReserve p (placeColor p) k0 with
          ply := p.ply + 1
          board := boardOf p.size fun x y =>
            if ((x : Int), (y : Int)) = (m.x, m.y) then [⟨placeColor p, k0⟩] else p.sq x y } := by
      simp only [result, hk0]
    rw [hres, ← set_eq_boardOf hwf hb]
    rfl
  · exfalso; apply hn
    refine ⟨k0, hk0, hb, fun h2 => ?_, by simpa using hemp, by omega⟩
    apply Decidable.byContradiction
    intro hk
    exact hop ⟨h2, hflat.2 hk⟩

/-! ### an accepted move advances the ply and keeps the size (no well-formedness needed) -/

theorem movePlace_ok {p : Pos} {m : Move} {q : Pos} (h : movePlace p m = .ok q) :
    q.ply = p.ply + 1 ∧ q.size = p.size := by
  unfold movePlace at h
  split at h
  · cases h
  split at h
  · cases h
  simp only [] at h
  generalize (if p.ply < 2 then p.toMove.flip else p.toMove) = col at h
  generalize decide (m.type = MoveType.placeCap) = isCap at h
  by_cases hav : (if isCap = true then p.caps col else p.stones col) ≤ 0
  · rw [if_pos hav] at h; cases h
  rw [if_neg hav] at h
  injection h with h
  subst h
  refine ⟨rfl, ?_⟩
  cases col <;> cases isCap <;> rfl

theorem moveSlide_ok {p : Pos} {m : Move} {q : Pos} (h : moveSlide p m = .ok q) :
    q.ply = p.ply + 1 ∧ q.size = p.size := by
  unfold moveSlide at h
  split at h
  · cases h
  split at h
  · cases h
  split at h
  · cases h
  simp only [] at h
  split at h
  · cases h
  split at h
  · cases h
  split at h
  · cases h
  split at h
  · cases h
  split at h
  · cases h
  injection h with h
  subst h
  exact ⟨rfl, rfl⟩

theorem move_ok {p : Pos} {m : Move} {q : Pos} (h : Impl.move p m = .ok q) :
    q.ply = p.ply + 1 ∧ q.size = p.size := by
  unfold Impl.move at h
  split at h
  · cases h
  split at h
  · exact moveSlide_ok h
  · exact movePlace_ok h

/-! ### the segments of a slide, read back in order -/

theorem flatMap_congr_mem {α β : Type} (l : List α) (f g : α → List β)
    (h : ∀ a ∈ l, f a = g a) : l.flatMap f = l.flatMap g := by
  induction l with
  | nil => rfl
  | cons a t ih =>
    rw [List.flatMap_cons, List.flatMap_cons, h a (by simp), ih (fun b hb => h b (by simp [hb]))]

theorem take_drop_glue {α : Type} (c : List α) {k j n : Nat} (hkj : k ≤ j) (hjn : j ≤ n) :
    (c.take j).drop k ++ (c.take n).drop j = (c.take n).drop k := by
  rw [List.drop_take, List.drop_take, List.drop_take]
  have e1 : c.drop j = (c.drop k).drop (j - k) := by
    rw [List.drop_drop]; congr 1; omega
  have e2 : n - k = (j - k) + (n - j) := by omega
  rw [e1, e2, List.take_add]

theorem flatMap_segment_prefix (p : Pos) (m : Move) (ds : List Nat) :
    ∀ L, L ≤ ds.length →
      (List.range L).reverse.flatMap (segment p m ds) =
        ((carried p m ds).take ds.sum).drop (ds.sum - (ds.take L).sum) := by
  intro L
  induction L with
  | zero =>
    intro _
    simp [carried]
  | succ L ih =>
    intro hL
    have hlt : L < ds.length := by omega
    rw [List.range_succ, List.reverse_append, List.reverse_singleton, List.singleton_append,
      List.flatMap_cons, ih (by omega)]
    have h1 := sum_take_succ ds hlt
    unfold segment
    exact take_drop_glue _ (by omega) (by omega)

theorem flatMap_segment (p : Pos) (m : Move) (ds : List Nat) :
    (List.range ds.length).reverse.flatMap (segment p m ds) = carried p m ds := by
  rw [flatMap_segment_prefix p m ds ds.length (Nat.le_refl _), sum_take_length]
  simp [carried, List.take_take]

theorem segment_length (p : Pos) (m : Move) (ds : List Nat) {i : Nat} (hi : i < ds.length)
    (hh : ds.sum ≤ (p.atI m.x m.y).length) : (segment p m ds i).length = ds[i] := by
  have h1 := sum_take_succ ds hi
  have h2 := sum_take_le ds (i + 1)
  simp only [segment, carried, List.length_drop, List.length_take]
  omega

/-- the board of the successor of a legal slide -/
theorem result_slide {p : Pos} {m : Move} {ds : List Nat} (h : SlideOK p m ds) :
    result p m = { p with ply := p.ply + 1, board := boardOf p.size (slideSquare p m ds) } := by
  simp [result, placeKind_none_of_slide h.isSlide, h.drops]

theorem result_slide_atI {p : Pos} {m : Move} {ds : List Nat} (h : SlideOK p m ds)
    {x y : Int} (hb : p.inBounds x y = true) :
    (result p m).atI x y = slideSquare p m ds x.toNat y.toNat := by
  obtain ⟨hx, hy, _, _⟩ := inBounds_nat p hb
  rw [result_slide h]
  exact getD_boardOf _ hx hy

end MoveRefine
end Tak

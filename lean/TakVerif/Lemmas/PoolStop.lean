/-
  Helper lemmas for C18, `stop()` part: W `None` commands, shutdown event, join.
-/
import TakVerif.Model.Pool

namespace Tak.Pool

theorem ssum_set (f : SW → Nat) :
    ∀ (ws : List SW) (j : Nat) (a b : SW), ws[j]? = some a →
      ssum f (ws.set j b) + f a = ssum f ws + f b := by
  intro ws
  induction ws with
  | nil => intro j a b h; simp at h
  | cons w ws ih =>
    intro j a b h
    cases j with
    | zero =>
      simp at h; subst h
      simp [ssum]; omega
    | succ j =>
      simp at h
      have := ih j a b h
      simp [ssum] at this ⊢; omega

theorem ssum_eq_zero (f : SW → Nat) (ws : List SW) (h : ssum f ws = 0) : ∀ w ∈ ws, f w = 0 := by
  induction ws with
  | nil => simp
  | cons w ws ih =>
    simp [ssum] at h
    intro x hx
    simp at hx
    rcases hx with rfl | hx
    · exact h.1
    · exact ih (by simpa [ssum] using h.2) x hx

theorem ssum_le_length (ws : List SW) : ssum needsNone ws ≤ ws.length := by
  induction ws with
  | nil => simp [ssum]
  | cons w ws ih =>
    have : needsNone w ≤ 1 := by cases w <;> simp [needsNone]
    simp [ssum] at ih ⊢; omega

structure SInv (W : Nat) (s : StopState) : Prop where
  len : s.ws.length = W
  enough : ssum needsNone s.ws ≤ s.nones + s.putsLeft

theorem sinv_init {W : Nat} {s : StopState} (h : StopInit W s) : SInv W s := by
  obtain ⟨h1, h2, _, h4, _⟩ := h
  refine ⟨h4, ?_⟩
  have := ssum_le_length s.ws
  omega

theorem sinv_step {W : Nat} {fc : Int} {s s' : StopState} {a : SAct} (hi : SInv W s)
    (h : sstep? fc s a = some s') : SInv W s' := by
  obtain ⟨hl, he⟩ := hi
  cases a with
  | putNone =>
    simp only [sstep?] at h
    split at h <;> simp at h
    subst h
    exact ⟨hl, by simp; omega⟩
  | setShutdown =>
    simp only [sstep?] at h
    split at h <;> simp at h
    subst h
    exact ⟨hl, he⟩
  | start j =>
    simp only [sstep?] at h
    split at h <;> simp at h
    rename_i hj; subst h
    have := ssum_set needsNone _ _ _ .waiting hj
    exact ⟨by simpa using hl, by simp [needsNone] at this ⊢; omega⟩
  | factoryFail j =>
    simp only [sstep?] at h
    split at h <;> simp at h
    rename_i hj; subst h
    have := ssum_set needsNone _ _ _ (.dead fc) hj
    exact ⟨by simpa using hl, by simp [needsNone] at this ⊢; omega⟩
  | takeNone j =>
    simp only [sstep?] at h
    split at h <;> simp at h
    rename_i hj; subst h
    have := ssum_set needsNone _ _ _ .parked hj.1
    exact ⟨by simpa using hl, by simp [needsNone] at this ⊢; omega⟩
  | exit j =>
    simp only [sstep?] at h
    split at h <;> simp at h
    rename_i hj; subst h
    have := ssum_set needsNone _ _ _ (.dead 0) hj.1
    exact ⟨by simpa using hl, by simp [needsNone] at this ⊢; omega⟩
  | kill j =>
    simp only [sstep?] at h
    split at h
    · rename_i w hj
      split at h <;> simp at h
      subst h
      have := ssum_set needsNone _ _ _ (.dead killCode) hj
      exact ⟨by simpa using hl, by cases w <;> simp [needsNone] at this ⊢ <;> omega⟩
    · simp at h

theorem sinv_reachable {W : Nat} {fc : Int} {s : StopState} (h : StopReachable W fc s) : SInv W s := by
  induction h with
  | init hi => exact sinv_init hi
  | step _ hs ih => exact sinv_step ih hs

theorem spotential_step {fc : Int} {s s' : StopState} {a : SAct} (h : sstep? fc s a = some s') :
    spotential s' < spotential s := by
  cases a with
  | putNone =>
    simp only [sstep?] at h
    split at h <;> simp at h
    subst h
    simp [spotential]; omega
  | setShutdown =>
    simp only [sstep?] at h
    split at h <;> simp at h
    rename_i hg; subst h
    simp [spotential, hg.2]
  | start j =>
    simp only [sstep?] at h
    split at h <;> simp at h
    rename_i hj; subst h
    have := ssum_set swt _ _ _ .waiting hj
    simp [spotential, swt] at this ⊢; omega
  | factoryFail j =>
    simp only [sstep?] at h
    split at h <;> simp at h
    rename_i hj; subst h
    have := ssum_set swt _ _ _ (.dead fc) hj
    simp [spotential, swt] at this ⊢; omega
  | takeNone j =>
    simp only [sstep?] at h
    split at h <;> simp at h
    rename_i hj; subst h
    have := ssum_set swt _ _ _ .parked hj.1
    simp [spotential, swt] at this ⊢; omega
  | exit j =>
    simp only [sstep?] at h
    split at h <;> simp at h
    rename_i hj; subst h
    have := ssum_set swt _ _ _ (.dead 0) hj.1
    simp [spotential, swt] at this ⊢; omega
  | kill j =>
    simp only [sstep?] at h
    split at h
    · rename_i w hj
      split at h <;> simp at h
      rename_i hlive; subst h
      have := ssum_set swt _ _ _ (.dead killCode) hj
      cases w <;> simp [spotential, swt, SW.live] at this hlive ⊢ <;> omega
    · simp at h

theorem stop_stalled_all_dead {W : Nat} {fc : Int} {s : StopState} (hi : SInv W s)
    (hst : StopStalled fc s) : ∀ w ∈ s.ws, ∃ k, w = SW.dead k := by
  obtain ⟨_, he⟩ := hi
  have hp : s.putsLeft = 0 := by
    have := hst .putNone rfl
    simp [sstep?] at this; exact this
  have hs : s.shutdown = true := by
    have := hst .setShutdown rfl
    simp [sstep?, hp] at this; exact this
  intro w hw
  obtain ⟨j, hj⟩ := List.getElem?_of_mem hw
  cases w with
  | init => have := hst (.start j) rfl; simp [sstep?, hj] at this
  | waiting =>
    have h0 := hst (.takeNone j) rfl
    simp [sstep?, hj] at h0
    -- no `None` left, but a waiting worker still needs one: contradicts the invariant
    have h1 := ssum_set needsNone _ _ _ (.dead 0) hj
    simp [needsNone] at h1
    omega
  | parked => have := hst (.exit j) rfl; simp [sstep?, hj, hs] at this
  | dead k => exact ⟨k, rfl⟩

/-! ### `stop()` after a raise: W non-blocking puts into a queue nobody reads -/

theorem stopAfterRaise_nonblocking (cap : Nat) : ∀ (k cmd : Nat),
    (stopAfterRaise false cap cmd k = .joined ↔ cmd + k ≤ cap ∨ k = 0) ∧
    (stopAfterRaise false cap cmd k = .full ↔ cap < cmd + k ∧ 0 < k) ∧
    stopAfterRaise false cap cmd k ≠ .blocked := by
  intro k
  induction k with
  | zero => intro cmd; simp [stopAfterRaise]
  | succ k ih =>
    intro cmd
    simp only [stopAfterRaise]
    by_cases h : cmd < cap
    · simp only [h, if_true]
      obtain ⟨h1, h2, h3⟩ := ih (cmd + 1)
      refine ⟨?_, ?_, h3⟩
      · rw [h1]; omega
      · rw [h2]; omega
    · simp [h]; omega

theorem stopAfterRaise_blocking (cap : Nat) : ∀ (k cmd : Nat),
    (stopAfterRaise true cap cmd k = .blocked ↔ cap < cmd + k ∧ 0 < k) := by
  intro k
  induction k with
  | zero => intro cmd; simp [stopAfterRaise]
  | succ k ih =>
    intro cmd
    simp only [stopAfterRaise]
    by_cases h : cmd < cap
    · simp only [h, if_true]
      rw [ih (cmd + 1)]; omega
    · simp [h]; omega

/-- number of `put` attempts `stop()` makes: never more than the W of the `for` loop -/
def putAttempts (cap cmd : Nat) : Nat → Nat
  | 0 => 0
  | k + 1 => if cmd < cap then 1 + putAttempts cap (cmd + 1) k else 1

theorem putAttempts_le (cap : Nat) : ∀ (k cmd : Nat), putAttempts cap cmd k ≤ k := by
  intro k
  induction k with
  | zero => intro cmd; simp [putAttempts]
  | succ k ih =>
    intro cmd
    simp only [putAttempts]
    split
    · have := ih (cmd + 1); omega
    · omega

theorem killAll_dead (s : State) : ∀ w ∈ (killAll s).ws, ∃ k, w = WState.dead k := by
  intro w hw
  simp only [killAll, List.mem_map] at hw
  obtain ⟨x, _, hx⟩ := hw
  cases x <;> simp [WState.live] at hx <;> exact ⟨_, hx.symm⟩

theorem stopOf_init {c : Cfg} {s : State} (hl : s.ws.length = c.W) : StopInit c.W (stopOf c s) := by
  refine ⟨rfl, rfl, rfl, by simp [stopOf, hl], ?_⟩
  intro w hw
  simp [stopOf] at hw
  obtain ⟨x, _, hx⟩ := hw
  cases x <;> simp [toSW] at hx <;> subst hx <;> simp

end Tak.Pool

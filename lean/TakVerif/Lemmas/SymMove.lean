/-
  `Impl.move` commutes with the eight symmetries (the heart of C15).
-/
import TakVerif.Model.Move
import TakVerif.Lemmas.SymBoard

namespace Tak
namespace Sym
open Mat3 Impl

@[simp] theorem transformPos_size (s : Mat3) (p : Pos) : (transformPos s p).size = p.size := rfl
@[simp] theorem transformPos_ply (s : Mat3) (p : Pos) : (transformPos s p).ply = p.ply := rfl
@[simp] theorem transformPos_board (s : Mat3) (p : Pos) :
    (transformPos s p).board = scatter s p.size p.board := rfl
@[simp] theorem transformPos_toMove (s : Mat3) (p : Pos) : (transformPos s p).toMove = p.toMove := rfl
@[simp] theorem transformPos_stones (s : Mat3) (p : Pos) (c : Color) :
    (transformPos s p).stones c = p.stones c := by cases c <;> rfl
@[simp] theorem transformPos_caps (s : Mat3) (p : Pos) (c : Color) :
    (transformPos s p).caps c = p.caps c := by cases c <;> rfl

theorem transformPos_wf {s : Mat3} {p : Pos} (h : p.WF) : (transformPos s p).WF :=
  ⟨h.1, by simp [scatter_length, h.2]⟩

theorem rel_transformPos {s : Mat3} (hs : s ∈ SYMS) {p : Pos} (h : p.WF) :
    Rel s p.size p.board (transformPos s p).board :=
  rel_scatter hs h.2

/-- in-bounds is transported (all integer squares) -/
theorem inBounds_T {s : Mat3} (hs : s ∈ SYMS) (p : Pos) (x y : Int) :
    (transformPos s p).inBounds (sx s p.size x y) (sy s p.size x y) = p.inBounds x y := by
  rw [Bool.eq_iff_iff, inBounds_iff, inBounds_iff]
  exact InB_image hs p.size x y

/-- the stack on the image square is the stack on the square -/
theorem atI_T {s : Mat3} (hs : s ∈ SYMS) {p : Pos} (h : p.WF) {x y : Int}
    (hin : p.inBounds x y = true) :
    (transformPos s p).atI (sx s p.size x y) (sy s p.size x y) = p.atI x y :=
  (rel_transformPos hs h).2.2 x y ((inBounds_iff p x y).1 hin)

/-- the `for drop in m.slides` loop, run on the image position from the image square in the
    image direction with a related board under construction, gives the image board (or the
    same refusal) -/
theorem slideLoop_comm {s : Mat3} (hs : s ∈ SYMS) {p : Pos} (hwf : p.WF) (dx dy : Int) :
    ∀ (ds : List Nat) (x y : Int) (carry : Stack) (nb nb' : List Stack), Rel s p.size nb nb' →
      slideLoop (transformPos s p) (s.ax dx dy 0) (s.ay dx dy 0) (sx s p.size x y) (sy s p.size x y)
          carry nb' ds
        = (slideLoop p dx dy x y carry nb ds).map (scatter s p.size) := by
  intro ds
  induction ds with
  | nil =>
    intro x y carry nb nb' hrel
    simp only [slideLoop, Except.map]
    rw [rel_eq_scatter hs hrel]
  | cons d ds ih =>
    intro x y carry nb nb' hrel
    have e1 : sx s p.size x y + s.ax dx dy 0 = sx s p.size (x + dx) (y + dy) := (ax_step ..).symm
    have e2 : sy s p.size x y + s.ay dx dy 0 = sy s p.size (x + dx) (y + dy) := (ay_step ..).symm
    simp only [slideLoop, e1, e2, inBounds_T hs]
    cases hb : p.inBounds (x + dx) (y + dy)
    · simp [Except.map]
    · have hin := (inBounds_iff _ _ _).1 hb
      have eo : (transformPos s p).board.getD (p.idx (sx s p.size (x + dx) (y + dy)).toNat (sy s p.size (x + dx) (y + dy)).toNat) []
          = p.board.getD (p.idx (x + dx).toNat (y + dy).toNat) [] := (rel_transformPos hs hwf).2.2 _ _ hin
      have ei : ∀ a b, (transformPos s p).idx a b = p.idx a b := fun _ _ => rfl
      simp only [ei]
      simp only [eo, Bool.not_true, Bool.false_eq_true, ↓reduceIte]
      by_cases hc : topKind (p.board.getD (p.idx (x + dx).toNat (y + dy).toNat) []) = some Kind.cap
      · simp only [hc, ↓reduceIte, Except.map]
      · simp only [hc, ↓reduceIte]
        cases carry with
        | nil => simp only [Except.map]
        | cons c0 tl =>
          simp only []
          by_cases hst : topKind (p.board.getD (p.idx (x + dx).toNat (y + dy).toNat) []) = some Kind.standing ∧ (c0.kind ≠ Kind.cap ∨ (c0 :: tl).length ≠ 1)
          · simp only [if_pos hst, Except.map]
          · simp only [if_neg hst]
            exact ih _ _ _ _ _ (rel_set hs hrel hin _)

theorem scatter_set {s : Mat3} (hs : s ∈ SYMS) {n : Nat} {b : List Stack} (hb : b.length = n * n)
    {x y : Int} (hin : InB n x y) (v : Stack) :
    (scatter s n b).set ((sx s n x y).toNat + (sy s n x y).toNat * n) v =
      scatter s n (b.set (x.toNat + y.toNat * n) v) :=
  rel_eq_scatter hs (rel_set hs (rel_scatter hs hb) hin v)

theorem movePlace_comm {s : Mat3} (hs : s ∈ SYMS) {p : Pos} (hwf : p.WF) (m : Move)
    (hin : p.inBounds m.x m.y = true) (hns : m.type.isSlide = false) :
    movePlace (transformPos s p) (transformMove s m p.size) = (movePlace p m).map (transformPos s) := by
  obtain ⟨hx, hy, _, _, ht, _⟩ := transformMove_spec hs m p.size
  have ht := ht hns
  have hat := atI_T hs hwf hin
  have hset := scatter_set hs hwf.2 ((inBounds_iff _ _ _).1 hin)
  generalize transformMove s m p.size = m' at hx hy ht
  obtain ⟨x', y', t', sl'⟩ := m'
  simp only at hx hy ht
  subst hx hy ht
  obtain ⟨n, ws, wc, bs, bc, ply, b⟩ := p
  unfold movePlace
  dsimp only [transformPos, Pos.toMove, Pos.caps, Pos.stones] at hat hset ⊢
  simp only [hat]
  by_cases h1 : ply < 2 ∧ m.type ≠ .placeFlat
  · simp only [if_pos h1, Except.map]
  · simp only [if_neg h1]
    by_cases h2 : Pos.atI ⟨n, ws, wc, bs, bc, ply, b⟩ m.x m.y ≠ []
    · simp only [if_pos h2, Except.map]
    · simp only [if_neg h2]
      by_cases hply : ply < 2 <;> by_cases hpar : ply % 2 = 0 <;>
        cases hcap : decide (m.type = MoveType.placeCap) <;>
        simp only [hply, hpar, ↓reduceIte, Color.flip, Bool.false_eq_true] <;>
        split <;> simp only [Except.map, Pos.idx, hset, transformPos]

theorem moveSlide_comm {s : Mat3} (hs : s ∈ SYMS) {p : Pos} (hwf : p.WF) (m : Move)
    (hin : p.inBounds m.x m.y = true) (hsl : m.type.isSlide = true) :
    moveSlide (transformPos s p) (transformMove s m p.size) = (moveSlide p m).map (transformPos s) := by
  obtain ⟨hx, hy, hsd, _, _, hd⟩ := transformMove_spec hs m p.size
  have hd := hd hsl
  have hat := atI_T hs hwf hin
  have hInB := (inBounds_iff _ _ _).1 hin
  generalize transformMove s m p.size = m' at hx hy hsd hd
  obtain ⟨x', y', t', sl'⟩ := m'
  simp only at hx hy hsd hd
  subst hx hy hsd
  unfold moveSlide
  have ei : ∀ a b, (transformPos s p).idx a b = p.idx a b := fun _ _ => rfl
  dsimp only [transformPos_ply, transformPos_size, transformPos_toMove, ei]
  simp only [hat]
  by_cases h1 : p.ply < 2
  · simp only [if_pos h1, Except.map]
  · simp only [if_neg h1]
    cases hds : m.slides with
    | none => simp only [Except.map]
    | some ds =>
      simp only []
      by_cases h2 : ds = [] ∨ ds.any (· < 1) = true
      · simp only [if_pos h2, Except.map]
      · simp only [if_neg h2]
        by_cases h3 : ds.sum > (p.size : Int) ∨ ((p.atI m.x m.y).length : Int) < ds.sum
        · simp only [if_pos h3, Except.map]
        · simp only [if_neg h3]
          by_cases h4 : ds.sum < 1
          · simp only [if_pos h4, Except.map]
          · simp only [if_neg h4]
            cases hst : p.atI m.x m.y with
            | nil => simp only [Except.map]
            | cons top rest =>
              simp only []
              by_cases h5 : top.color ≠ p.toMove
              · simp only [if_pos h5, Except.map]
              · simp only [if_neg h5]
                have hrel := rel_set hs (rel_transformPos hs hwf) hInB (List.drop ds.sum.toNat (top :: rest))
                have hc := slideLoop_comm hs hwf m.type.direction.1 m.type.direction.2
                  (ds.map Int.toNat) m.x m.y (List.take ds.sum.toNat (top :: rest)) _ _ hrel
                rw [hd]
                dsimp only [Pos.idx, transformPos_size] at hc ⊢
                rw [hc]
                cases slideLoop p m.type.direction.1 m.type.direction.2 m.x m.y
                  (List.take ds.sum.toNat (top :: rest))
                  (p.board.set (m.x.toNat + m.y.toNat * p.size) (List.drop ds.sum.toNat (top :: rest)))
                  (List.map Int.toNat ds) <;> simp only [Except.map, transformPos]

/-- `Position.move` commutes with every one of the eight symmetries, for every position
    (well-formed) and every move, legal or not: a refusal is mapped to the same refusal. -/
theorem move_comm {s : Mat3} (hs : s ∈ SYMS) {p : Pos} (hwf : p.WF) (m : Move) :
    Impl.move (transformPos s p) (transformMove s m p.size) = (Impl.move p m).map (transformPos s) := by
  obtain ⟨hx, hy, _, hsl, _, _⟩ := transformMove_spec hs m p.size
  have hb : (transformPos s p).inBounds (transformMove s m p.size).x (transformMove s m p.size).y
      = p.inBounds m.x m.y := by rw [hx, hy]; exact inBounds_T hs p m.x m.y
  unfold Impl.move
  rw [hb, hsl]
  cases hin : p.inBounds m.x m.y
  · simp [Except.map]
  · cases hs' : m.type.isSlide
    · simpa using movePlace_comm hs hwf m hin hs'
    · simpa using moveSlide_comm hs hwf m hin hs'
end Sym
end Tak

/-
  Helper lemmas for C18 (worker pool transition system).
-/
import TakVerif.Model.Pool

namespace Tak.Pool

/-! ### per-worker sums under `List.set` -/

theorem wsum_set (f : WState → Nat) :
    ∀ (ws : List WState) (j : Nat) (a b : WState), ws[j]? = some a →
      wsum f (ws.set j b) + f a = wsum f ws + f b := by
  intro ws
  induction ws with
  | nil => intro j a b h; simp at h
  | cons w ws ih =>
    intro j a b h
    cases j with
    | zero =>
      simp at h; subst h
      simp [wsum]; omega
    | succ j =>
      simp at h
      have := ih j a b h
      simp [wsum] at this ⊢; omega

theorem wsum_eq_zero (f : WState → Nat) (ws : List WState) (h : ∀ w ∈ ws, f w = 0) :
    wsum f ws = 0 := by
  induction ws with
  | nil => rfl
  | cons w ws ih =>
    have h1 := h w (by simp)
    have h2 := ih (fun x hx => h x (by simp [hx]))
    simp [wsum] at h2 ⊢; omega

theorem wsum_pos (f : WState → Nat) (ws : List WState) (h : 0 < wsum f ws) :
    ∃ w ∈ ws, 0 < f w := by
  induction ws with
  | nil => simp [wsum] at h
  | cons w ws ih =>
    by_cases hw : 0 < f w
    · exact ⟨w, by simp, hw⟩
    · have : 0 < wsum f ws := by simp [wsum] at h ⊢; omega
      obtain ⟨x, hx, hfx⟩ := ih this
      exact ⟨x, by simp [hx], hfx⟩

theorem mem_of_getElem? {ws : List WState} {j : Nat} {w : WState} (h : ws[j]? = some w) : w ∈ ws :=
  List.mem_of_getElem? h

theorem mem_set {ws : List WState} {j : Nat} {b x : WState} (h : x ∈ ws.set j b) : x = b ∨ x ∈ ws := by
  rcases List.mem_or_eq_of_mem_set h with h | h
  · exact Or.inr h
  · exact Or.inl h

/-! ### the invariant -/

def codeOK (c : Cfg) : WState → Prop
  | .dead k => k = c.failCode ∨ k = killCode
  | _ => True

structure Inv (c : Cfg) (s : State) : Prop where
  cons : s.todo + s.cmd + s.playing + s.holding + s.games + s.logs + s.lost = c.N
  len : s.ws.length = c.W
  codes : ∀ w ∈ s.ws, codeOK c w
  lostDead : s.lost ≤ s.deadCount

theorem inv_init {c : Cfg} {s : State} (h : Init c s) : Inv c s := by
  obtain ⟨h1, h2, h3, h4, h5, _, h7, h8⟩ := h
  have hp : s.playing = 0 := wsum_eq_zero _ _ (fun w hw => by
    have := h8 w hw; cases w <;> simp_all [idle, isPlaying])
  have hh : s.holding = 0 := wsum_eq_zero _ _ (fun w hw => by
    have := h8 w hw; cases w <;> simp_all [idle, isHolding])
  refine ⟨by omega, h7, ?_, by omega⟩
  intro w hw
  have := h8 w hw
  cases w <;> simp_all [idle, codeOK]

/-- effect of replacing worker j's state `a` by `b` on the three counters -/
theorem counters_set {s : State} {j : Nat} {a b : WState} (h : s.ws[j]? = some a) :
    wsum isPlaying (s.ws.set j b) + isPlaying a = s.playing + isPlaying b ∧
    wsum isHolding (s.ws.set j b) + isHolding a = s.holding + isHolding b ∧
    wsum isDead (s.ws.set j b) + isDead a = s.deadCount + isDead b :=
  ⟨wsum_set _ _ _ _ _ h, wsum_set _ _ _ _ _ h, wsum_set _ _ _ _ _ h⟩

theorem codes_set {c : Cfg} {ws : List WState} {j : Nat} {b : WState}
    (h : ∀ w ∈ ws, codeOK c w) (hb : codeOK c b) : ∀ w ∈ ws.set j b, codeOK c w := by
  intro w hw
  rcases mem_set hw with rfl | hw
  · exact hb
  · exact h w hw

theorem inv_step {c : Cfg} {s s' : State} {a : Act} (hi : Inv c s) (h : Step c s a s') : Inv c s' := by
  obtain ⟨hc, hl, hk, hd⟩ := hi
  unfold Step at h
  cases a with
  | put =>
    simp only [step?] at h
    split at h <;> simp at h
    subst h
    exact ⟨by simp [State.playing, State.holding] at hc ⊢; omega, hl, hk, hd⟩
  | recv =>
    simp only [step?] at h
    split at h <;> simp at h
    subst h
    exact ⟨by simp [State.playing, State.holding] at hc ⊢; omega, hl, hk, hd⟩
  | poll =>
    simp only [step?] at h
    split at h
    · split at h <;> simp at h <;> subst h
      · exact ⟨hc, hl, hk, hd⟩
      · exact ⟨hc, hl, hk, hd⟩
    · simp at h
  | start j =>
    simp only [step?] at h
    split at h <;> simp at h
    rename_i hj
    subst h
    obtain ⟨p1, p2, p3⟩ := counters_set (b := .waiting) hj
    refine ⟨?_, by simpa using hl, codes_set hk trivial, ?_⟩
    · simp [State.playing, State.holding, isPlaying, isHolding] at hc p1 p2 ⊢; omega
    · simp [State.deadCount, isDead] at hd p3 ⊢; omega
  | factoryFail j =>
    simp only [step?] at h
    split at h <;> simp at h
    rename_i hj
    subst h
    obtain ⟨p1, p2, p3⟩ := counters_set (b := .dead c.failCode) hj
    refine ⟨?_, by simpa using hl, codes_set hk (Or.inl rfl), ?_⟩
    · simp [State.playing, State.holding, isPlaying, isHolding] at hc p1 p2 ⊢; omega
    · simp [State.deadCount, isDead] at hd p3 ⊢; omega
  | take j =>
    simp only [step?] at h
    split at h <;> simp at h
    rename_i hj
    subst h
    obtain ⟨p1, p2, p3⟩ := counters_set (b := .playing) hj.1
    refine ⟨?_, by simpa using hl, codes_set hk trivial, ?_⟩
    · simp [State.playing, State.holding, isPlaying, isHolding] at hc p1 p2 ⊢; omega
    · simp [State.deadCount, isDead] at hd p3 ⊢; omega
  | finish j =>
    simp only [step?] at h
    split at h <;> simp at h
    rename_i hj
    subst h
    obtain ⟨p1, p2, p3⟩ := counters_set (b := .holding) hj
    refine ⟨?_, by simpa using hl, codes_set hk trivial, ?_⟩
    · simp [State.playing, State.holding, isPlaying, isHolding] at hc p1 p2 ⊢; omega
    · simp [State.deadCount, isDead] at hd p3 ⊢; omega
  | gameFail j =>
    simp only [step?] at h
    split at h <;> simp at h
    rename_i hj
    subst h
    obtain ⟨p1, p2, p3⟩ := counters_set (b := .dead c.failCode) hj
    refine ⟨?_, by simpa using hl, codes_set hk (Or.inl rfl), ?_⟩
    · simp [State.playing, State.holding, isPlaying, isHolding] at hc p1 p2 ⊢; omega
    · simp [State.deadCount, isDead] at hd p3 ⊢; omega
  | deliver j =>
    simp only [step?] at h
    split at h <;> simp at h
    rename_i hj
    subst h
    obtain ⟨p1, p2, p3⟩ := counters_set (b := .waiting) hj.1
    refine ⟨?_, by simpa using hl, codes_set hk trivial, ?_⟩
    · simp [State.playing, State.holding, isPlaying, isHolding] at hc p1 p2 ⊢; omega
    · simp [State.deadCount, isDead] at hd p3 ⊢; omega
  | kill j =>
    simp only [step?] at h
    split at h
    · rename_i w hj
      split at h <;> simp at h
      rename_i hlive
      subst h
      obtain ⟨p1, p2, p3⟩ := counters_set (b := .dead killCode) hj
      refine ⟨?_, by simpa using hl, codes_set hk (Or.inr rfl), ?_⟩
      · cases w <;> simp [State.playing, State.holding, isPlaying, isHolding, inHand, WState.live] at hc p1 p2 hlive ⊢ <;> omega
      · cases w <;> simp [State.deadCount, isDead, inHand, WState.live] at hd p3 hlive ⊢ <;> omega
    · simp at h

theorem inv_reachable {c : Cfg} {s : State} (h : Reachable c s) : Inv c s := by
  induction h with
  | init hi => exact inv_init hi
  | step _ hs ih => exact inv_step ih hs

theorem reachable_of_run {c : Cfg} {s : State} (hs : Reachable c s) :
    ∀ {acts : List Act} {s' : State}, run c s acts = some s' → Reachable c s' := by
  intro acts
  induction acts generalizing s with
  | nil => intro s' h; simp [run] at h; subst h; exact hs
  | cons a as ih =>
    intro s' h
    simp only [run] at h
    split at h
    · rename_i s1 h1
      exact ih (Reachable.step hs h1) h
    · simp at h

/-! ### potential -/

theorem potential_step {c : Cfg} {s s' : State} {a : Act} (h : Step c s a s') :
    (a ≠ .poll → potential s' < potential s) ∧ potential s' ≤ potential s := by
  unfold Step at h
  cases a with
  | put =>
    simp only [step?] at h
    split at h <;> simp at h
    rename_i hg; subst h
    simp [potential]; omega
  | recv =>
    simp only [step?] at h
    split at h <;> simp at h
    rename_i hg; subst h
    simp [potential]; omega
  | poll =>
    simp only [step?] at h
    split at h
    · split at h <;> simp at h <;> subst h <;> simp [potential]
    · simp at h
  | start j =>
    simp only [step?] at h
    split at h <;> simp at h
    rename_i hj; subst h
    have := wsum_set wt _ _ _ .waiting hj
    simp [potential, wt] at this ⊢; omega
  | factoryFail j =>
    simp only [step?] at h
    split at h <;> simp at h
    rename_i hj; subst h
    have := wsum_set wt _ _ _ (.dead c.failCode) hj
    simp [potential, wt] at this ⊢; omega
  | take j =>
    simp only [step?] at h
    split at h <;> simp at h
    rename_i hj; subst h
    have := wsum_set wt _ _ _ .playing hj.1
    simp [potential, wt] at this ⊢; omega
  | finish j =>
    simp only [step?] at h
    split at h <;> simp at h
    rename_i hj; subst h
    have := wsum_set wt _ _ _ .holding hj
    simp [potential, wt] at this ⊢; omega
  | gameFail j =>
    simp only [step?] at h
    split at h <;> simp at h
    rename_i hj; subst h
    have := wsum_set wt _ _ _ (.dead c.failCode) hj
    simp [potential, wt] at this ⊢; omega
  | deliver j =>
    simp only [step?] at h
    split at h <;> simp at h
    rename_i hj; subst h
    have := wsum_set wt _ _ _ .waiting hj.1
    simp [potential, wt] at this ⊢; omega
  | kill j =>
    simp only [step?] at h
    split at h
    · rename_i w hj
      split at h <;> simp at h
      rename_i hlive; subst h
      have := wsum_set wt _ _ _ (.dead killCode) hj
      cases w <;> simp [potential, wt, WState.live] at this hlive ⊢ <;> omega
    · simp at h

/-- number of actions of a trace that are not the time-out poll -/
def nonPoll (acts : List Act) : Nat := (acts.filter (· ≠ .poll)).length

theorem run_bound {c : Cfg} : ∀ (acts : List Act) (s s' : State), run c s acts = some s' →
    nonPoll acts + potential s' ≤ potential s := by
  intro acts
  induction acts with
  | nil => intro s s' h; simp [run] at h; subst h; simp [nonPoll]
  | cons a as ih =>
    intro s s' h
    simp only [run] at h
    split at h
    · rename_i s1 h1
      have h2 := ih s1 s' h
      have h3 := potential_step (c := c) (s := s) (s' := s1) (a := a) h1
      by_cases ha : a = .poll
      · subst ha; simp [nonPoll] at h2 ⊢; omega
      · have := h3.1 ha
        simp [nonPoll, ha] at h2 ⊢; omega
    · simp at h

theorem wsum_replicate (f : WState → Nat) (n : Nat) (w : WState) :
    wsum f (List.replicate n w) = n * f w := by
  induction n with
  | zero => simp [wsum]
  | succ n ih => simp [wsum, List.replicate_succ, Nat.succ_mul] at ih ⊢; omega

theorem potential_fresh (c : Cfg) : potential (fresh c) = 5 * c.N + 2 * c.W + 1 := by
  simp [potential, fresh, wsum_replicate, wt]; omega

/-! ### stall analysis -/

theorem stall_core {c : Cfg} {s : State} (hi : Inv c s) (hW : 1 ≤ c.W)
    (hrun : s.phase = .running) (hlt : s.logs < c.N) (hst : Stalled c s) :
    s.games = 0 ∧ ∃ w ∈ s.ws, ∃ k, w = .dead k := by
  obtain ⟨hc, hl, hk, hd⟩ := hi
  -- recv disabled
  have hg : s.games = 0 := by
    have := hst .recv rfl
    simp [step?, hrun, hlt] at this
    exact this
  refine ⟨hg, ?_⟩
  -- suppose nobody is dead
  apply Classical.byContradiction
  intro hno
  have hnd : ∀ w ∈ s.ws, ∀ k, w ≠ .dead k := by
    intro w hw k hk'
    exact hno ⟨w, hw, k, hk'⟩
  -- every worker is waiting
  have hall : ∀ (j : Nat) (w : WState), s.ws[j]? = some w → w = WState.waiting := by
    intro j w hj
    cases w with
    | init => have := hst (.start j) rfl; simp [step?, hj] at this
    | waiting => rfl
    | playing => have := hst (.finish j) rfl; simp [step?, hj] at this
    | holding =>
      have := hst (.deliver j) rfl
      simp [step?, hj, hg] at this
      omega
    | dead k => exact absurd rfl (hnd _ (mem_of_getElem? hj) k)
  -- there is a worker 0
  have h0 : s.ws[0]? = some WState.waiting := by
    cases hws : s.ws with
    | nil => simp [hws] at hl; omega
    | cons w ws =>
      have := hall 0 w (by simp [hws])
      simp [this]
  have hcmd : s.cmd = 0 := by
    have := hst (.take 0) rfl
    simp [step?, h0] at this
    exact this
  have htodo : s.todo = 0 := by
    have := hst .put rfl
    simp [step?, hrun, hlt, hcmd] at this
    omega
  have hallm : ∀ w ∈ s.ws, w = WState.waiting := by
    intro w hw
    obtain ⟨j, hj⟩ := List.getElem?_of_mem hw
    exact hall j w hj
  have hp : s.playing = 0 := wsum_eq_zero _ _ (fun w hw => by rw [hallm w hw]; rfl)
  have hh : s.holding = 0 := wsum_eq_zero _ _ (fun w hw => by rw [hallm w hw]; rfl)
  have hdc : s.deadCount = 0 := wsum_eq_zero _ _ (fun w hw => by rw [hallm w hw]; rfl)
  omega

theorem crashed_of_mem {s : State} {k : Int} (hm : WState.dead k ∈ s.ws) (hk : k ≠ 0) :
    crashed s = true := by
  simp only [crashed, List.any_eq_true]
  exact ⟨.dead k, hm, by simp [hk]⟩

theorem wsum_isDead_pos (k : Int) : ∀ (l : List WState), WState.dead k ∈ l → 0 < wsum isDead l := by
  intro l
  induction l with
  | nil => simp
  | cons x xs ihx =>
    intro hm
    simp at hm
    rcases hm with rfl | hm
    · simp [wsum, isDead]; omega
    · have := ihx hm; simp [wsum] at this ⊢; omega

/-- fault-free executions: nobody is dead, nothing is lost, the parent is running -/
theorem ff_inv {c : Cfg} {s : State} (h : FFReachable c s) :
    Reachable c s ∧ s.deadCount = 0 ∧ s.phase = .running := by
  induction h with
  | init =>
    refine ⟨Reachable.init ?_, ?_, rfl⟩
    · refine ⟨rfl, rfl, rfl, rfl, rfl, rfl, by simp [fresh], ?_⟩
      intro w hw
      simp [fresh] at hw
      rw [hw.2]; trivial
    · simp [State.deadCount, fresh, wsum_replicate, isDead]
  | @step s a s' _ hf hs ih =>
    obtain ⟨hr, hd, hp⟩ := ih
    refine ⟨Reachable.step hr hs, ?_, ?_⟩
    · unfold Step at hs
      cases a with
      | put => simp only [step?] at hs; split at hs <;> simp at hs; subst hs; exact hd
      | recv => simp only [step?] at hs; split at hs <;> simp at hs; subst hs; exact hd
      | poll =>
        simp only [step?] at hs
        split at hs
        · split at hs <;> simp at hs <;> subst hs <;> exact hd
        · simp at hs
      | start j =>
        simp only [step?] at hs; split at hs <;> simp at hs
        rename_i hj; subst hs
        have := (counters_set (b := .waiting) hj).2.2
        simp [State.deadCount, isDead] at this hd ⊢; omega
      | take j =>
        simp only [step?] at hs; split at hs <;> simp at hs
        rename_i hj; subst hs
        have := (counters_set (b := .playing) hj.1).2.2
        simp [State.deadCount, isDead] at this hd ⊢; omega
      | finish j =>
        simp only [step?] at hs; split at hs <;> simp at hs
        rename_i hj; subst hs
        have := (counters_set (b := .holding) hj).2.2
        simp [State.deadCount, isDead] at this hd ⊢; omega
      | deliver j =>
        simp only [step?] at hs; split at hs <;> simp at hs
        rename_i hj; subst hs
        have := (counters_set (b := .waiting) hj.1).2.2
        simp [State.deadCount, isDead] at this hd ⊢; omega
      | factoryFail j => simp [Act.fault] at hf
      | gameFail j => simp [Act.fault] at hf
      | kill j => simp [Act.fault] at hf
    · unfold Step at hs
      cases a with
      | poll =>
        simp only [step?] at hs
        split at hs
        · split at hs
          · rename_i hcr
            -- nobody is dead, so `crashed` is false
            exfalso
            simp only [crashed, List.any_eq_true] at hcr
            obtain ⟨w, hw, hwc⟩ := hcr
            cases w with
            | dead k =>
              have hpos : 0 < s.deadCount := wsum_isDead_pos _ _ hw
              omega
            | _ => simp at hwc
          · simp at hs; subst hs; exact hp
        · simp at hs
      | put => simp only [step?] at hs; split at hs <;> simp at hs; subst hs; exact hp
      | recv => simp only [step?] at hs; split at hs <;> simp at hs; subst hs; exact hp
      | start j => simp only [step?] at hs; split at hs <;> simp at hs; subst hs; exact hp
      | take j => simp only [step?] at hs; split at hs <;> simp at hs; subst hs; exact hp
      | finish j => simp only [step?] at hs; split at hs <;> simp at hs; subst hs; exact hp
      | deliver j => simp only [step?] at hs; split at hs <;> simp at hs; subst hs; exact hp
      | factoryFail j => simp [Act.fault] at hf
      | gameFail j => simp [Act.fault] at hf
      | kill j => simp [Act.fault] at hf

/-! ### the queues never exceed their `maxsize` -/

theorem bounds_step {c : Cfg} {s s' : State} {a : Act} (hb : s.cmd ≤ 2 * c.W ∧ s.games ≤ c.W)
    (h : Step c s a s') : s'.cmd ≤ 2 * c.W ∧ s'.games ≤ c.W := by
  unfold Step at h
  cases a with
  | poll =>
    simp only [step?] at h
    split at h
    · split at h <;> simp at h <;> subst h <;> exact hb
    · simp at h
  | kill j =>
    simp only [step?] at h
    split at h
    · split at h <;> simp at h
      subst h; exact hb
    · simp at h
  | put => simp only [step?] at h; split at h <;> simp at h; subst h; simp; omega
  | recv => simp only [step?] at h; split at h <;> simp at h; subst h; simp; omega
  | start j => simp only [step?] at h; split at h <;> simp at h; subst h; exact hb
  | factoryFail j => simp only [step?] at h; split at h <;> simp at h; subst h; exact hb
  | take j => simp only [step?] at h; split at h <;> simp at h; subst h; simp; omega
  | finish j => simp only [step?] at h; split at h <;> simp at h; subst h; exact hb
  | gameFail j => simp only [step?] at h; split at h <;> simp at h; subst h; exact hb
  | deliver j => simp only [step?] at h; split at h <;> simp at h; subst h; simp; omega

theorem bounds_reachable {c : Cfg} {s : State} (h : Reachable c s) :
    s.cmd ≤ 2 * c.W ∧ s.games ≤ c.W := by
  induction h with
  | init hi => obtain ⟨_, h2, h3, _⟩ := hi; omega
  | step _ hs ih => exact bounds_step ih hs

end Tak.Pool

/-
  Lemmas about `matchMove` / `semantic` / `parseMove` / `formatMove` (Model/PTN.lean) for C14.
-/
import TakVerif.Model.PTN

deriving instance DecidableEq for Except

namespace Tak.C14
open Tak Tak.PTN

/-- the universe of moves of board sizes up to 8: a square of a..h × 1..8; a placement without
    drops, or a slide with a non-empty list of drops, each 1..8, totalling at most 8 -/
def Move8 (m : Move) : Prop :=
  0 ≤ m.x ∧ m.x ≤ 7 ∧ 0 ≤ m.y ∧ m.y ≤ 7 ∧
  (if m.type.isSlide then
     ∃ ds, m.slides = some ds ∧ ds ≠ [] ∧ (∀ d ∈ ds, 1 ≤ d ∧ d ≤ 8) ∧ ds.sum ≤ 8
   else m.slides = none)

def slidesOK : Option (List Int) → Prop
  | some ds => ds ≠ [] ∧ (∀ d ∈ ds, 1 ≤ d ∧ d ≤ 8) ∧ ds.sum ≤ 8
  | none => False

instance : (s : Option (List Int)) → Decidable (slidesOK s)
  | some ds => inferInstanceAs (Decidable (ds ≠ [] ∧ (∀ d ∈ ds, 1 ≤ d ∧ d ≤ 8) ∧ ds.sum ≤ 8))
  | none => inferInstanceAs (Decidable False)

theorem slidesOK_iff (s : Option (List Int)) :
    slidesOK s ↔ ∃ ds, s = some ds ∧ ds ≠ [] ∧ (∀ d ∈ ds, 1 ≤ d ∧ d ≤ 8) ∧ ds.sum ≤ 8 := by
  cases s with
  | none => simp [slidesOK]
  | some ds => simp [slidesOK]

instance (m : Move) : Decidable (Move8 m) :=
  decidable_of_iff
    (0 ≤ m.x ∧ m.x ≤ 7 ∧ 0 ≤ m.y ∧ m.y ≤ 7 ∧ (if m.type.isSlide then slidesOK m.slides else m.slides = none))
    (by unfold Move8; rw [slidesOK_iff])

/-! ### the character classes -/

theorem isStone_iff {c : Char} : isStone c = true ↔ c ∈ stoneChars := by simp [isStone]
theorem isCount_iff {c : Char} : isCount c = true ↔ c ∈ countChars := by simp [isCount]
theorem isFile_iff {c : Char} : isFile c = true ↔ c ∈ fileChars := by simp [isFile]
theorem isDir_iff {c : Char} : isDir c = true ↔ c ∈ dirChars := by simp [isDir]

theorem count_not_stone {c : Char} (h : isCount c = true) : isStone c = false :=
  (by decide : ∀ c ∈ countChars, isStone c = false) c (isCount_iff.1 h)
theorem file_not_stone {c : Char} (h : isFile c = true) : isStone c = false :=
  (by decide : ∀ c ∈ fileChars, isStone c = false) c (isFile_iff.1 h)
theorem file_not_count {c : Char} (h : isFile c = true) : isCount c = false :=
  (by decide : ∀ c ∈ fileChars, isCount c = false) c (isFile_iff.1 h)
theorem count_not_dir {c : Char} (h : isCount c = true) : isDir c = false :=
  (by decide : ∀ c ∈ countChars, isDir c = false) c (isCount_iff.1 h)
theorem stone_not_dir {c : Char} (h : isStone c = true) : isDir c = false :=
  (by decide : ∀ c ∈ stoneChars, isDir c = false) c (isStone_iff.1 h)
theorem stone_not_count {c : Char} (h : isStone c = true) : isCount c = false :=
  (by decide : ∀ c ∈ stoneChars, isCount c = false) c (isStone_iff.1 h)

theorem mem_takeWhile_imp {α} {p : α → Bool} {l : List α} {a : α} (h : a ∈ l.takeWhile p) : p a = true := by
  induction l with
  | nil => simp at h
  | cons b t ih =>
    simp only [List.takeWhile_cons] at h
    split at h
    · rcases List.mem_cons.1 h with rfl | h'
      · assumption
      · exact ih h'
    · simp at h

/-! ### `optChar` -/

theorem optChar_spec {p : Char → Bool} {s : List Char} {o : Option Char} {r : List Char}
    (h : optChar p s = (o, r)) : s = o.toList ++ r ∧ (∀ c, o = some c → p c = true) := by
  cases s with
  | nil => simp [optChar] at h; obtain ⟨rfl, rfl⟩ := h; simp
  | cons c t =>
    simp only [optChar] at h
    split at h
    · obtain ⟨rfl, rfl⟩ := Prod.mk.inj h
      exact ⟨by simp, by intro c' hc'; cases hc'; assumption⟩
    · obtain ⟨rfl, rfl⟩ := Prod.mk.inj h
      exact ⟨by simp, by intro c' hc'; cases hc'⟩

/-- building: an optional class character in front of a rest that does not start with the class -/
theorem optChar_build {p : Char → Bool} (o : Option Char) (r : List Char)
    (ho : ∀ c, o = some c → p c = true) (hr : o = none → ∀ c, r.head? = some c → p c = false) :
    optChar p (o.toList ++ r) = (o, r) := by
  cases o with
  | some c => simp [optChar, ho c rfl]
  | none =>
    cases r with
    | nil => simp [optChar]
    | cons c t => simp [optChar, hr rfl c rfl]

/-! ### the matcher: building a match, reading a match -/

theorem matchMove_build (st pk : Option Char) (f r : Char) (d : Option Char) (drops : List Char)
    (tr : Option Char)
    (hst : ∀ c, st = some c → isStone c = true) (hpk : ∀ c, pk = some c → isCount c = true)
    (hf : isFile f = true) (hr : isCount r = true) (hd : ∀ c, d = some c → isDir c = true)
    (hdr : ∀ c ∈ drops, isCount c = true) (htr : ∀ c, tr = some c → isStone c = true) :
    matchMove (st.toList ++ (pk.toList ++ (f :: r :: (d.toList ++ (drops ++ tr.toList)))))
      = some ⟨st, pk, f, r, d, drops, tr⟩ := by
  have h1 : optChar isStone (st.toList ++ (pk.toList ++ (f :: r :: (d.toList ++ (drops ++ tr.toList)))))
      = (st, pk.toList ++ (f :: r :: (d.toList ++ (drops ++ tr.toList)))) := by
    apply optChar_build _ _ hst
    intro _ c hc
    cases pk with
    | some q => simp at hc; subst hc; exact count_not_stone (hpk _ rfl)
    | none => simp at hc; subst hc; exact file_not_stone hf
  have h2 : optChar isCount (pk.toList ++ (f :: r :: (d.toList ++ (drops ++ tr.toList))))
      = (pk, f :: r :: (d.toList ++ (drops ++ tr.toList))) := by
    apply optChar_build _ _ hpk
    intro _ c hc
    simp at hc; subst hc; exact file_not_count hf
  have h3 : optChar isDir (d.toList ++ (drops ++ tr.toList)) = (d, drops ++ tr.toList) := by
    apply optChar_build _ _ hd
    intro _ c hc
    cases drops with
    | cons q qs => simp at hc; subst hc; exact count_not_dir (hdr _ (by simp))
    | nil =>
      cases tr with
      | some q => simp at hc; subst hc; exact stone_not_dir (htr _ rfl)
      | none => simp at hc
  have h4 : (drops ++ tr.toList).takeWhile isCount = drops := by
    rw [List.takeWhile_append_of_pos hdr]
    cases tr with
    | none => simp
    | some q => simp [stone_not_count (htr q rfl)]
  have h5 : (drops ++ tr.toList).dropWhile isCount = tr.toList := by
    rw [List.dropWhile_append_of_pos hdr]
    cases tr with
    | none => simp
    | some q => simp [stone_not_count (htr q rfl)]
  have h6 : optChar isStone tr.toList = (tr, []) := by
    have := optChar_build (p := isStone) tr [] htr (by intro _ c hc; simp at hc)
    simpa using this
  simp only [matchMove, h1, h2, hf, hr, h3, h4, h5, h6, Bool.and_self, if_true, List.isEmpty_nil]

/-- reading: the text is the concatenation of the groups, and every group is of its class -/
theorem matchMove_spec {s : List Char} {g : Groups} (h : matchMove s = some g) :
    s = g.stone.toList ++ (g.pickup.toList ++ (g.file :: g.rank :: (g.dir.toList ++ (g.drops ++ g.trail.toList)))) ∧
    (∀ c, g.stone = some c → isStone c = true) ∧ (∀ c, g.pickup = some c → isCount c = true) ∧
    isFile g.file = true ∧ isCount g.rank = true ∧ (∀ c, g.dir = some c → isDir c = true) ∧
    (∀ c ∈ g.drops, isCount c = true) ∧ (∀ c, g.trail = some c → isStone c = true) := by
  unfold matchMove at h
  rcases ha : optChar isStone s with ⟨a1, a2⟩
  rw [ha] at h
  simp only at h
  rcases hb : optChar isCount a2 with ⟨b1, b2⟩
  rw [hb] at h
  simp only at h
  obtain ⟨es, hs⟩ := optChar_spec ha
  obtain ⟨eb, hbp⟩ := optChar_spec hb
  cases b2 with
  | nil => simp at h
  | cons f t =>
  cases t with
  | nil => simp at h
  | cons r s3 =>
    simp only at h
    split at h
    · rename_i hfr
      rcases hd : optChar isDir s3 with ⟨d1, d2⟩
      rw [hd] at h
      simp only at h
      rcases he : optChar isStone (List.dropWhile isCount d2) with ⟨e1, e2⟩
      rw [he] at h
      simp only at h
      obtain ⟨ed, hdp⟩ := optChar_spec hd
      obtain ⟨ee, hep⟩ := optChar_spec he
      split at h
      · rename_i hemp
        cases h
        have he2 : e2 = [] := by simpa using hemp
        subst he2
        simp only [Bool.and_eq_true] at hfr
        refine ⟨?_, hs, hbp, hfr.1, hfr.2, hdp, ?_, hep⟩
        · rw [es, eb, ed]
          have := List.takeWhile_append_dropWhile (p := isCount) (l := d2)
          rw [ee] at this
          simp only [List.append_nil] at this
          rw [this]
        · intro c hc
          exact mem_takeWhile_imp hc
      · cases h
    · cases h

/-! ### digits and coordinates -/

theorem file_coord (x : Int) (h0 : 0 ≤ x) (h7 : x ≤ 7) :
    isFile (chrOff 97 x) = true ∧ ((chrOff 97 x).toNat : Int) - 97 = x := by
  have : x = 0 ∨ x = 1 ∨ x = 2 ∨ x = 3 ∨ x = 4 ∨ x = 5 ∨ x = 6 ∨ x = 7 := by omega
  rcases this with rfl | rfl | rfl | rfl | rfl | rfl | rfl | rfl <;> decide

theorem rank_coord (y : Int) (h0 : 0 ≤ y) (h7 : y ≤ 7) :
    isCount (chrOff 49 y) = true ∧ ((chrOff 49 y).toNat : Int) - 49 = y := by
  have : y = 0 ∨ y = 1 ∨ y = 2 ∨ y = 3 ∨ y = 4 ∨ y = 5 ∨ y = 6 ∨ y = 7 := by omega
  rcases this with rfl | rfl | rfl | rfl | rfl | rfl | rfl | rfl <;> decide

theorem drop_digit (d : Int) (h1 : 1 ≤ d) (h8 : d ≤ 8) :
    isCount (chrOff 48 d) = true ∧ digitVal (chrOff 48 d) = d ∧ intStr d = [chrOff 48 d] := by
  have : d = 1 ∨ d = 2 ∨ d = 3 ∨ d = 4 ∨ d = 5 ∨ d = 6 ∨ d = 7 ∨ d = 8 := by omega
  rcases this with rfl | rfl | rfl | rfl | rfl | rfl | rfl | rfl <;> decide

/-- what the classes say about the numbers read from them -/
theorem file_range {c : Char} (h : isFile c = true) : 0 ≤ (c.toNat : Int) - 97 ∧ (c.toNat : Int) - 97 ≤ 7 :=
  (by decide : ∀ c ∈ fileChars, 0 ≤ (c.toNat : Int) - 97 ∧ (c.toNat : Int) - 97 ≤ 7) c (isFile_iff.1 h)

theorem count_range {c : Char} (h : isCount c = true) :
    0 ≤ (c.toNat : Int) - 49 ∧ (c.toNat : Int) - 49 ≤ 7 ∧ 1 ≤ digitVal c ∧ digitVal c ≤ 8 :=
  (by decide : ∀ c ∈ countChars,
      0 ≤ (c.toNat : Int) - 49 ∧ (c.toNat : Int) - 49 ≤ 7 ∧ 1 ≤ digitVal c ∧ digitVal c ≤ 8) c (isCount_iff.1 h)

theorem slideMap_dir {c : Char} (h : isDir c = true) : ∃ t, slideMap c = some t ∧ t.isSlide = true :=
  (by decide : ∀ c ∈ dirChars, ∃ t, slideMap c = some t ∧ t.isSlide = true) c (isDir_iff.1 h)

theorem placeMap_stone {o : Option Char} (h : ∀ c, o = some c → isStone c = true) :
    ∃ t, placeMap o = some t ∧ t.isSlide = false := by
  cases o with
  | none => exact ⟨_, rfl, rfl⟩
  | some c =>
    exact (by decide : ∀ c ∈ stoneChars, ∃ t, placeMap (some c) = some t ∧ t.isSlide = false) c
      (isStone_iff.1 (h c rfl))

theorem sum_ge_length (ds : List Int) (h : ∀ d ∈ ds, 1 ≤ d) : (ds.length : Int) ≤ ds.sum := by
  induction ds with
  | nil => simp
  | cons a t ih =>
    have := ih (fun d hd => h d (List.mem_cons_of_mem _ hd))
    have := h a (by simp)
    simp only [List.length_cons, List.sum_cons]
    omega

theorem map_digit_roundtrip (ds : List Int) (h : ∀ d ∈ ds, 1 ≤ d ∧ d ≤ 8) :
    (ds.map (chrOff 48)).map digitVal = ds := by
  induction ds with
  | nil => rfl
  | cons a t ih =>
    simp only [List.map_cons]
    rw [ih (fun d hd => h d (List.mem_cons_of_mem _ hd)), (drop_digit a (h a (by simp)).1 (h a (by simp)).2).2.1]

theorem sum_map_digitVal_pos (cs : List Char) (h : ∀ c ∈ cs, isCount c = true) :
    ∀ d ∈ cs.map digitVal, 1 ≤ d ∧ d ≤ 8 := by
  intro d hd
  obtain ⟨c, hc, rfl⟩ := List.mem_map.1 hd
  exact ⟨(count_range (h c hc)).2.2.1, (count_range (h c hc)).2.2.2⟩

end Tak.C14

/-
  Helper lemmas for C04: counting pieces through `List.set`, `take/drop`, flattening;
  the loop invariant of `Impl.slideLoop` (board length, piece count, tops-only); the exact
  effect of an accepted placement / slide on reserves, ply and size.
-/
import TakVerif.Model.Core
import TakVerif.Model.Move
import TakVerif.Spec.Inv
import TakVerif.Lemmas.Board

namespace Tak
namespace Cons

open Pos

/-- pieces of colour `c` (capstones if `cap`, else flats and walls) on a list of stacks -/
def cnt (c : Color) (cap : Bool) (b : List Stack) : Nat := (b.map (countStack c cap)).sum

theorem onBoard_eq (p : Pos) (c : Color) (cap : Bool) : p.onBoard c cap = cnt c cap p.board := rfl

@[simp] theorem countStack_nil (c : Color) (cap : Bool) : countStack c cap [] = 0 := rfl

theorem countStack_append (c : Color) (cap : Bool) (s t : Stack) :
    countStack c cap (s ++ t) = countStack c cap s + countStack c cap t := by
  simp [countStack, List.filter_append]

theorem countStack_take_drop (c : Color) (cap : Bool) (s : Stack) (k : Nat) :
    countStack c cap (s.take k) + countStack c cap (s.drop k) = countStack c cap s := by
  rw [← countStack_append, List.take_append_drop]

theorem countStack_flattenTop (c : Color) (cap : Bool) (s : Stack)
    (h : topKind s = some .standing) :
    countStack c cap (Impl.flattenTop s) = countStack c cap s := by
  cases s with
  | nil => rfl
  | cons t rest =>
    obtain ⟨col, k⟩ := t
    simp only [topKind, List.head?_cons, Option.map_some, Option.some.injEq] at h
    subst h
    cases cap <;> simp [Impl.flattenTop, countStack, List.filter_cons] <;> split <;> simp

theorem countStack_singleton (c : Color) (cap : Bool) (pc : Piece) :
    countStack c cap [pc] = if pc.color = c ∧ (pc.kind = .cap ↔ cap = true) then 1 else 0 := by
  obtain ⟨col, k⟩ := pc
  cases col <;> cases k <;> cases c <;> cases cap <;> decide

theorem cnt_replicate_nil (c : Color) (cap : Bool) (n : Nat) : cnt c cap (List.replicate n []) = 0 := by
  induction n with
  | zero => rfl
  | succ n ih => simp only [cnt, List.replicate_succ, List.map_cons, List.sum_cons] at *; simp

/-- overwriting one stack: what leaves the count and what enters it -/
theorem cnt_set (c : Color) (cap : Bool) (b : List Stack) (i : Nat) (hi : i < b.length) (s : Stack) :
    cnt c cap (b.set i s) + countStack c cap (b.getD i []) = cnt c cap b + countStack c cap s := by
  induction b generalizing i with
  | nil => simp at hi
  | cons a rest ih =>
    cases i with
    | zero => simp [cnt]; omega
    | succ j =>
      have := ih j (by simpa using hi)
      simp only [cnt, List.set_cons_succ, List.map_cons, List.sum_cons, List.getD_cons_succ] at *
      omega

/-! tops-only on stacks -/

theorem sto_nil : StackTopsOnly [] := by intro pc h; simp at h

theorem sto_singleton (pc : Piece) : StackTopsOnly [pc] := by intro q h; simp at h

/-- every piece of the stack is a flat -/
def AllFlat (s : Stack) : Prop := ∀ pc ∈ s, pc.kind = Kind.flat

theorem AllFlat.sto {s : Stack} (h : AllFlat s) : StackTopsOnly s :=
  fun pc hpc => h pc (List.mem_of_mem_tail hpc)

theorem sto_take {s : Stack} (h : StackTopsOnly s) (k : Nat) : StackTopsOnly (s.take k) := by
  cases s with
  | nil => simpa using sto_nil
  | cons t rest =>
    cases k with
    | zero => simpa using sto_nil
    | succ k =>
      intro pc hpc
      simp only [List.take_succ_cons, List.tail_cons] at hpc
      exact h pc (by simpa using List.mem_of_mem_take hpc)

theorem sto_drop {s : Stack} (h : StackTopsOnly s) (k : Nat) : StackTopsOnly (s.drop k) := by
  intro pc hpc
  cases s with
  | nil => simp at hpc
  | cons a r =>
    rw [List.tail_drop, List.drop_succ_cons] at hpc
    exact h pc (by simpa using List.mem_of_mem_drop hpc)

theorem sto_append {s t : Stack} (hs : StackTopsOnly s) (ht : AllFlat t) : StackTopsOnly (s ++ t) := by
  cases s with
  | nil => simpa using ht.sto
  | cons a rest =>
    intro pc hpc
    simp only [List.cons_append, List.tail_cons, List.mem_append] at hpc
    rcases hpc with h | h
    · exact hs pc (by simpa using h)
    · exact ht pc h

/-- the stack a slide drops onto, after the flattening decision, consists of flats only:
    its top was a flat already, or it was a wall and has been flattened (a capstone on top
    refuses the move, as does a wall that is not flattened) -/
theorem allFlat_target {orig : Stack} (h : StackTopsOnly orig) (hcap : topKind orig ≠ some .cap) :
    AllFlat (if topKind orig = some .standing then Impl.flattenTop orig else orig) ∨
    (topKind orig = some .standing) := by
  by_cases hs : topKind orig = some .standing
  · exact Or.inr hs
  · left
    rw [if_neg hs]
    cases orig with
    | nil => intro pc h; simp at h
    | cons t rest =>
      intro pc hpc
      rcases List.mem_cons.mp hpc with rfl | h'
      · simp only [topKind, List.head?_cons, Option.map_some, ne_eq, Option.some.injEq] at hcap hs
        cases hk : pc.kind <;> simp_all
      · exact h pc (by simpa using h')

theorem allFlat_flattenTop {orig : Stack} (h : StackTopsOnly orig) : AllFlat (Impl.flattenTop orig) := by
  cases orig with
  | nil => intro pc h; simp [Impl.flattenTop] at h
  | cons t rest =>
    intro pc hpc
    simp only [Impl.flattenTop, List.mem_cons] at hpc
    rcases hpc with rfl | h'
    · rfl
    · exact h pc (by simpa using h')

/-! the slide loop -/

/-- the four directions of a slide -/
def UnitDir (dx dy : Int) : Prop :=
  (dx = 1 ∧ dy = 0) ∨ (dx = -1 ∧ dy = 0) ∨ (dx = 0 ∧ dy = 1) ∨ (dx = 0 ∧ dy = -1)

/-- `(a, b)` lies strictly ahead of `(x, y)` in direction `(dx, dy)` -/
def Ahead (dx dy x y : Int) (a b : Nat) : Prop :=
  (dx = 1 ∧ dy = 0 ∧ (b : Int) = y ∧ x < a) ∨ (dx = -1 ∧ dy = 0 ∧ (b : Int) = y ∧ (a : Int) < x) ∨
  (dx = 0 ∧ dy = 1 ∧ (a : Int) = x ∧ y < b) ∨ (dx = 0 ∧ dy = -1 ∧ (a : Int) = x ∧ (b : Int) < y)

theorem isSlide_unitDir {t : MoveType} (h : t.isSlide = true) : UnitDir t.direction.1 t.direction.2 := by
  cases t <;> simp [MoveType.isSlide] at h <;> simp [UnitDir, MoveType.direction]

theorem inBounds_iff (p : Pos) (x y : Int) :
    p.inBounds x y = true ↔ 0 ≤ x ∧ x < p.size ∧ 0 ≤ y ∧ y < p.size := by
  simp [Pos.inBounds, and_assoc]

theorem ahead_step {dx dy x y : Int} (hdir : UnitDir dx dy) (hx : 0 ≤ x + dx) (hy : 0 ≤ y + dy) :
    Ahead dx dy x y (x + dx).toNat (y + dy).toNat := by
  unfold Ahead; unfold UnitDir at hdir; omega

theorem ahead_next {dx dy x y : Int} {a b : Nat} (hx : 0 ≤ x + dx) (hy : 0 ≤ y + dy)
    (h : Ahead dx dy (x + dx) (y + dy) a b) :
    Ahead dx dy x y a b ∧ ¬ (a = (x + dx).toNat ∧ b = (y + dy).toNat) := by
  unfold Ahead at *; omega

/-- one iteration of the drop loop that does not refuse: the next square is on the board,
    does not carry a capstone, the hand is not empty, and the loop continues with the
    dropped segment put on the (possibly flattened) original stack of that square -/
theorem slideLoop_cons {p : Pos} {dx dy x y : Int} {carry : Stack} {nb res : List Stack}
    {drop : Nat} {rest : List Nat}
    (h : Impl.slideLoop p dx dy x y carry nb (drop :: rest) = .ok res) :
    p.inBounds (x + dx) (y + dy) = true ∧
    topKind (p.board.getD (p.idx (x + dx).toNat (y + dy).toNat) []) ≠ some .cap ∧
    ∃ orig' : Stack,
      ((orig' = p.board.getD (p.idx (x + dx).toNat (y + dy).toNat) [] ∧
          topKind (p.board.getD (p.idx (x + dx).toNat (y + dy).toNat) []) ≠ some .standing) ∨
       (orig' = Impl.flattenTop (p.board.getD (p.idx (x + dx).toNat (y + dy).toNat) []) ∧
          topKind (p.board.getD (p.idx (x + dx).toNat (y + dy).toNat) []) = some .standing)) ∧
      Impl.slideLoop p dx dy (x + dx) (y + dy) (carry.take (carry.length - drop))
        (nb.set (p.idx (x + dx).toNat (y + dy).toNat) (carry.drop (carry.length - drop) ++ orig')) rest
        = .ok res := by
  simp only [Impl.slideLoop] at h
  split at h
  · exact absurd h (by simp)
  rename_i hib
  split at h
  · exact absurd h (by simp)
  rename_i hcap
  split at h
  · exact absurd h (by simp)
  rename_i c0 ctail
  split at h
  · exact absurd h (by simp)
  refine ⟨by simpa using hib, hcap, _, ?_, h⟩
  by_cases hs : topKind (p.board.getD (p.idx (x + dx).toNat (y + dy).toNat) []) = some .standing
  · right; exact ⟨by rw [if_pos hs], hs⟩
  · left; exact ⟨by rw [if_neg hs], hs⟩

/-- What one run of the drop loop does, for ANY list of drop counts: if the squares ahead
    are still as in `p` and the loop accepts, then the board keeps its length, the pieces on
    the resulting board are those on `nb` plus those carried (provided the drops use up the
    carry), and if every stack of `nb`, of `p` and the carry are tops-only, so is the result. -/
theorem slideLoop_inv (p : Pos) (hwf : p.WF) (dx dy : Int) (hdir : UnitDir dx dy) :
    ∀ (drops : List Nat) (x y : Int) (carry : Stack) (nb res : List Stack),
      nb.length = p.size * p.size →
      (∀ a b : Nat, a < p.size → b < p.size → Ahead dx dy x y a b →
          nb.getD (a + b * p.size) [] = p.board.getD (a + b * p.size) []) →
      carry.length ≤ drops.sum →
      Impl.slideLoop p dx dy x y carry nb drops = .ok res →
      res.length = p.size * p.size ∧
      (∀ c cap, cnt c cap res = cnt c cap nb + countStack c cap carry) ∧
      ((∀ s ∈ p.board, StackTopsOnly s) → StackTopsOnly carry → (∀ s ∈ nb, StackTopsOnly s) →
          ∀ s ∈ res, StackTopsOnly s) := by
  intro drops
  induction drops with
  | nil =>
    intro x y carry nb res hlen _ hc h
    simp only [Impl.slideLoop, Except.ok.injEq] at h
    subst h
    have : carry = [] := by
      cases carry with
      | nil => rfl
      | cons a r => simp at hc
    subst this
    exact ⟨hlen, fun c cap => by simp, fun _ _ h => h⟩
  | cons drop rest ih =>
    intro x y carry nb res hlen hahead hc h
    obtain ⟨hib, hcap, orig', horig', h⟩ := slideLoop_cons h
    have hb := (inBounds_iff p _ _).mp hib
    -- the target square, as natural coordinates
    have hxn : (x + dx).toNat < p.size := by omega
    have hyn : (y + dy).toNat < p.size := by omega
    have hi : p.idx (x + dx).toNat (y + dy).toNat < nb.length := by
      rw [hlen]; exact idx_lt hxn hyn
    have horig : nb.getD (p.idx (x + dx).toNat (y + dy).toNat) [] =
        p.board.getD (p.idx (x + dx).toNat (y + dy).toNat) [] :=
      hahead _ _ hxn hyn (ahead_step hdir hb.1 hb.2.2.1)
    have horigP : (∀ s ∈ p.board, StackTopsOnly s) →
        StackTopsOnly (p.board.getD (p.idx (x + dx).toNat (y + dy).toNat) []) := by
      intro hp
      have hlt : p.idx (x + dx).toNat (y + dy).toNat < p.board.length := by
        rw [hwf.2]; exact idx_lt hxn hyn
      rw [List.getD_eq_getElem?_getD, List.getElem?_eq_getElem hlt]
      exact hp _ (List.getElem_mem hlt)
    -- what is known of the stack that receives the drop
    have hcnt' : ∀ c cap, countStack c cap orig' =
        countStack c cap (p.board.getD (p.idx (x + dx).toNat (y + dy).toNat) []) := by
      intro c cap
      rcases horig' with ⟨e, _⟩ | ⟨e, hs⟩
      · rw [e]
      · rw [e]; exact countStack_flattenTop c cap _ hs
    have hflat' : (∀ s ∈ p.board, StackTopsOnly s) → AllFlat orig' := by
      intro hp
      rcases horig' with ⟨e, hns⟩ | ⟨e, _⟩
      · rw [e]
        rcases allFlat_target (horigP hp) hcap with h2 | h2
        · rw [if_neg hns] at h2; exact h2
        · exact absurd h2 hns
      · rw [e]; exact allFlat_flattenTop (horigP hp)
    clear horig'
    generalize hX : (x + dx).toNat = X at *
    generalize hY : (y + dy).toNat = Y at *
    generalize hk : carry.length - drop = k at *
    have hlen' : (nb.set (p.idx X Y) (List.drop k carry ++ orig')).length = p.size * p.size := by
      simpa using hlen
    have hahead' : ∀ a b : Nat, a < p.size → b < p.size → Ahead dx dy (x + dx) (y + dy) a b →
        (nb.set (p.idx X Y) (List.drop k carry ++ orig')).getD (a + b * p.size) [] =
        p.board.getD (a + b * p.size) [] := by
      intro a b ha hb' hab
      obtain ⟨hab1, hne⟩ := ahead_next hb.1 hb.2.2.1 hab
      rw [hX, hY] at hne
      have := getD_set_idx nb hlen hxn hyn ha hb' (s := List.drop k carry ++ orig')
      rw [if_neg hne] at this
      rw [← hahead a b ha hb' hab1]
      exact this
    have hc' : (List.take k carry).length ≤ rest.sum := by
      simp only [List.length_take, List.sum_cons] at *
      omega
    obtain ⟨r1, r2, r3⟩ := ih _ _ _ _ res hlen' hahead' hc' h
    refine ⟨r1, ?_, ?_⟩
    · intro c cap
      have e1 := r2 c cap
      have e2 := cnt_set c cap nb _ hi (List.drop k carry ++ orig')
      have e3 := countStack_take_drop c cap carry k
      rw [countStack_append, horig, hcnt' c cap] at e2
      omega
    · intro hp hcarry hnb
      apply r3 hp (sto_take hcarry _)
      intro s hs
      rcases List.mem_or_eq_of_mem_set hs with h1 | h1
      · exact hnb s h1
      · subst h1
        exact sto_append (sto_drop hcarry _) (hflat' hp)

/-! exact effect of accepted moves -/

theorem sum_map_toNat (ds : List Int) (h : ds.any (· < 1) = false) :
    ((ds.map Int.toNat).sum : Int) = ds.sum := by
  induction ds with
  | nil => rfl
  | cons d rest ih =>
    simp only [List.any_cons, Bool.or_eq_false_iff, decide_eq_false_iff_not] at h
    have := ih h.2
    simp only [List.map_cons, List.sum_cons] at *
    omega

/-- an accepted placement: colour and kind of the new piece, the square it went to, and
    which reserve paid for it -/
theorem movePlace_ok {p : Pos} {m : Move} {q : Pos} (h : Impl.movePlace p m = .ok q) :
    ∃ pc : Piece,
      pc.color = (if p.ply < 2 then p.toMove.flip else p.toMove) ∧
      (p.ply < 2 → pc.kind = .flat) ∧
      p.atI m.x m.y = [] ∧
      q.board = p.board.set (p.idx m.x.toNat m.y.toNat) [pc] ∧
      q.ply = p.ply + 1 ∧ q.size = p.size ∧
      (∀ c, q.stones c = p.stones c - (if pc.color = c ∧ pc.kind ≠ .cap then 1 else 0)) ∧
      (∀ c, q.caps c = p.caps c - (if pc.color = c ∧ pc.kind = .cap then 1 else 0)) ∧
      0 < (if pc.kind = .cap then p.caps pc.color else p.stones pc.color) := by
  unfold Impl.movePlace at h
  by_cases hopen : p.ply < 2 ∧ m.type ≠ .placeFlat
  · rw [if_pos hopen] at h; cases h
  rw [if_neg hopen] at h
  by_cases hempty : p.atI m.x m.y ≠ []
  · rw [if_pos hempty] at h; cases h
  rw [if_neg hempty] at h
  have hempty' : p.atI m.x m.y = [] := by simpa using hempty
  have hkind : p.ply < 2 → m.type = .placeFlat :=
    fun hlt => Decidable.byContradiction fun hm => hopen ⟨hlt, hm⟩
  simp only [] at h
  generalize hcol : (if p.ply < 2 then p.toMove.flip else p.toMove) = color at h ⊢
  by_cases hcap : m.type = .placeCap
  · simp only [hcap, decide_true, if_true] at h
    by_cases hav : p.caps color ≤ 0
    · rw [if_pos hav] at h; cases h
    rw [if_neg hav] at h
    cases color <;> simp only [Except.ok.injEq] at h <;> subst h <;>
      refine ⟨⟨_, .cap⟩, rfl, ?_, hempty', rfl, rfl, rfl, ?_, ?_, ?_⟩
    all_goals first
      | (intro hlt; have := hkind hlt; rw [hcap] at this; cases this)
      | (intro c; cases c <;> simp [Pos.stones, Pos.caps])
      | (simp [Pos.caps] at hav ⊢; omega)
  · simp only [hcap, decide_false, Bool.false_eq_true, if_false] at h
    by_cases hav : p.stones color ≤ 0
    · rw [if_pos hav] at h; cases h
    rw [if_neg hav] at h
    by_cases hst : m.type = .placeStanding
    · simp only [hst, if_true] at h
      cases color <;> simp only [Except.ok.injEq] at h <;> subst h <;>
        refine ⟨⟨_, .standing⟩, rfl, ?_, hempty', rfl, rfl, rfl, ?_, ?_, ?_⟩
      all_goals first
        | (intro hlt; have := hkind hlt; rw [hst] at this; cases this)
        | (intro c; cases c <;> simp [Pos.stones, Pos.caps])
        | (simp [Pos.stones] at hav ⊢; omega)
    · simp only [hst, if_false] at h
      cases color <;> simp only [Except.ok.injEq] at h <;> subst h <;>
        refine ⟨⟨_, .flat⟩, rfl, ?_, hempty', rfl, rfl, rfl, ?_, ?_, ?_⟩
      all_goals first
        | (intro _; rfl)
        | (intro c; cases c <;> simp [Pos.stones, Pos.caps])
        | (simp [Pos.stones] at hav ⊢; omega)

/-- an accepted slide: everything but the board and the ply counter is untouched, and the
    board is the outcome of the drop loop started from the lifted stack -/
theorem moveSlide_ok {p : Pos} {m : Move} {q : Pos} (h : Impl.moveSlide p m = .ok q) :
    ∃ (ds : List Int) (n : Nat) (nb : List Stack),
      2 ≤ p.ply ∧ ds.any (· < 1) = false ∧ (n : Int) = ds.sum ∧ n ≤ (p.atI m.x m.y).length ∧
      Impl.slideLoop p m.type.direction.1 m.type.direction.2 m.x m.y ((p.atI m.x m.y).take n)
        (p.board.set (p.idx m.x.toNat m.y.toNat) ((p.atI m.x m.y).drop n)) (ds.map Int.toNat) = .ok nb ∧
      q = { p with ply := p.ply + 1, board := nb } := by
  unfold Impl.moveSlide at h
  split at h
  · exact absurd h (by simp)
  rename_i hply
  split at h
  · exact absurd h (by simp)
  rename_i ds _
  split at h
  · exact absurd h (by simp)
  rename_i hds
  simp only at h
  split at h
  · exact absurd h (by simp)
  rename_i hsum
  split at h
  · exact absurd h (by simp)
  rename_i hpos
  split at h
  · exact absurd h (by simp)
  rename_i top tl hstack
  split at h
  · exact absurd h (by simp)
  split at h
  · exact absurd h (by simp)
  rename_i nb hloop
  simp only [Except.ok.injEq] at h
  refine ⟨ds, ds.sum.toNat, nb, by omega, ?_, by omega, ?_, ?_, h.symm⟩
  · simp only [not_or, Bool.not_eq_true] at hds; exact hds.2
  · rw [hstack] at hsum ⊢; omega
  · exact hloop

/-! the invariant through one accepted move -/

theorem ahead_ne {dx dy x y : Int} {a b : Nat} (hx : 0 ≤ x) (hy : 0 ≤ y) (h : Ahead dx dy x y a b) :
    ¬ (a = x.toNat ∧ b = y.toNat) := by
  unfold Ahead at h; omega

theorem atI_eq_getD (p : Pos) (x y : Int) :
    p.atI x y = p.board.getD (p.idx x.toNat y.toNat) [] := rfl

theorem Inv_movePlace {cfg : Config} {p q : Pos} {m : Move} (hinv : Inv cfg p)
    (hib : p.inBounds m.x m.y = true) (h : Impl.movePlace p m = .ok q) : Inv cfg q := by
  obtain ⟨pc, _, _, hempty, hboard, hply, hsize, hst, hcp, hav⟩ := movePlace_ok h
  have hb := (inBounds_iff p _ _).mp hib
  have hi : p.idx m.x.toNat m.y.toNat < p.board.length := by
    rw [hinv.wf.2]; exact idx_lt (by omega) (by omega)
  have hcnt : ∀ c cap, cnt c cap q.board = cnt c cap p.board + countStack c cap [pc] := by
    intro c cap
    have := cnt_set c cap p.board _ hi [pc]
    rw [← atI_eq_getD, hempty, countStack_nil] at this
    rw [hboard]; omega
  refine ⟨⟨by rw [hsize]; exact hinv.wf.1, by rw [hboard, hsize, List.length_set]; exact hinv.wf.2⟩,
    by rw [hsize]; exact hinv.size, ?_, ?_, ?_, ?_, ?_, by have := hinv.ply; omega⟩
  · intro c
    have h1 := hinv.stones c
    rw [onBoard_eq] at h1 ⊢
    rw [hcnt c false, hst c, countStack_singleton]
    by_cases hc : pc.color = c <;> by_cases hk : pc.kind = .cap <;> simp [hc, hk] <;> omega
  · intro c
    have h1 := hinv.caps c
    rw [onBoard_eq] at h1 ⊢
    rw [hcnt c true, hcp c, countStack_singleton]
    by_cases hc : pc.color = c <;> by_cases hk : pc.kind = .cap <;> simp [hc, hk] <;> omega
  · intro c
    have h1 := hinv.stonesNonneg c
    rw [hst c]
    by_cases hc : pc.color = c <;> by_cases hk : pc.kind = .cap <;> simp [hc, hk] at hav ⊢ <;> omega
  · intro c
    have h1 := hinv.capsNonneg c
    rw [hcp c]
    by_cases hc : pc.color = c <;> by_cases hk : pc.kind = .cap <;> simp [hc, hk] at hav ⊢ <;> omega
  · intro s hs
    rw [hboard] at hs
    rcases List.mem_or_eq_of_mem_set hs with h1 | h1
    · exact hinv.topsOnly s h1
    · rw [h1]; exact sto_singleton pc

theorem Inv_moveSlide {cfg : Config} {p q : Pos} {m : Move} (hinv : Inv cfg p)
    (hib : p.inBounds m.x m.y = true) (hsl : m.type.isSlide = true)
    (h : Impl.moveSlide p m = .ok q) : Inv cfg q := by
  obtain ⟨ds, n, nb, hply, hpos, hn, hle, hloop, rfl⟩ := moveSlide_ok h
  have hb := (inBounds_iff p _ _).mp hib
  have hxn : m.x.toNat < p.size := by omega
  have hyn : m.y.toNat < p.size := by omega
  have hi : p.idx m.x.toNat m.y.toNat < p.board.length := by
    rw [hinv.wf.2]; exact idx_lt hxn hyn
  have hsum := sum_map_toNat ds hpos
  have hres := slideLoop_inv p hinv.wf _ _ (isSlide_unitDir hsl) (ds.map Int.toNat) m.x m.y
    ((p.atI m.x m.y).take n) (p.board.set (p.idx m.x.toNat m.y.toNat) ((p.atI m.x m.y).drop n)) nb
    (by rw [List.length_set]; exact hinv.wf.2)
    (by
      intro a b ha hb' hab
      have hne := ahead_ne hb.1 hb.2.2.1 hab
      have := getD_set_idx p.board hinv.wf.2 hxn hyn ha hb' (s := (p.atI m.x m.y).drop n)
      rw [if_neg hne] at this
      exact this)
    (by rw [List.length_take]; omega)
    hloop
  obtain ⟨r1, r2, r3⟩ := hres
  have hcnt : ∀ c cap, cnt c cap nb = cnt c cap p.board := by
    intro c cap
    have e1 := r2 c cap
    have e2 := cnt_set c cap p.board _ hi ((p.atI m.x m.y).drop n)
    rw [← atI_eq_getD] at e2
    have e3 := countStack_take_drop c cap (p.atI m.x m.y) n
    omega
  have hstack : StackTopsOnly (p.atI m.x m.y) := by
    rw [atI_eq_getD, List.getD_eq_getElem?_getD, List.getElem?_eq_getElem hi]
    exact hinv.topsOnly _ (List.getElem_mem hi)
  refine ⟨⟨hinv.wf.1, r1⟩, hinv.size, ?_, ?_, hinv.stonesNonneg, hinv.capsNonneg, ?_,
    by have := hinv.ply; show (0 : Int) ≤ p.ply + 1; omega⟩
  · intro c
    have := hinv.stones c
    rw [onBoard_eq] at this ⊢
    show ((cnt c false nb : Nat) : Int) + p.stones c = cfg.pieces
    rw [hcnt]; exact this
  · intro c
    have := hinv.caps c
    rw [onBoard_eq] at this ⊢
    show ((cnt c true nb : Nat) : Int) + p.caps c = cfg.capstones
    rw [hcnt]; exact this
  · apply r3 hinv.topsOnly (sto_take hstack n)
    intro s hs
    rcases List.mem_or_eq_of_mem_set hs with h1 | h1
    · exact hinv.topsOnly s h1
    · rw [h1]; exact sto_drop hstack n

/-- ply and side to move after one accepted move -/
theorem move_ply {p q : Pos} {m : Move} (h : Impl.move p m = .ok q) : q.ply = p.ply + 1 := by
  unfold Impl.move at h
  split at h
  · exact absurd h (by simp)
  split at h
  · obtain ⟨ds, n, nb, _, _, _, _, _, rfl⟩ := moveSlide_ok h; rfl
  · obtain ⟨pc, _, _, _, _, hply, _⟩ := movePlace_ok h; exact hply

theorem toMove_succ {p q : Pos} (h : q.ply = p.ply + 1) : q.toMove = p.toMove.flip := by
  unfold Pos.toMove
  rw [h]
  by_cases h0 : p.ply % 2 = 0
  · have : ¬ (p.ply + 1) % 2 = 0 := by omega
    simp [h0, this, Color.flip]
  · have : (p.ply + 1) % 2 = 0 := by omega
    simp [h0, this, Color.flip]

/-! the opening -/

/-- an accepted move while `ply < 2` puts one flat of the colour that is NOT to move on an
    empty square and takes it from that colour's stone reserve; nothing else changes -/
theorem opening_move {p q : Pos} {m : Move} (hlen : p.board.length = p.size * p.size)
    (hply : p.ply < 2) (h : Impl.move p m = .ok q) :
    ∃ i, i < p.board.length ∧ p.board.getD i [] = [] ∧
      q.board = p.board.set i [⟨p.toMove.flip, .flat⟩] ∧ q.ply = p.ply + 1 ∧ q.size = p.size ∧
      (∀ c, q.stones c = p.stones c - if p.toMove.flip = c then 1 else 0) ∧
      (∀ c, q.caps c = p.caps c) := by
  unfold Impl.move at h
  split at h
  · exact absurd h (by simp)
  rename_i hib
  have hb := (inBounds_iff p _ _).mp (by simpa using hib)
  split at h
  · obtain ⟨ds, n, nb, h2, _⟩ := moveSlide_ok h; omega
  · obtain ⟨pc, hcol, hkind, hempty, hboard, hq, hsize, hst, hcp, _⟩ := movePlace_ok h
    have hk := hkind hply
    rw [if_pos hply] at hcol
    obtain ⟨col, k⟩ := pc
    simp only at hcol hk
    subst hcol hk
    refine ⟨_, ?_, hempty, hboard, hq, hsize, ?_, ?_⟩
    · rw [hlen]; exact idx_lt (by omega) (by omega)
    · intro c; rw [hst c]; simp
    · intro c; rw [hcp c]; simp

theorem cnt_set_empty (c : Color) (cap : Bool) (b : List Stack) (i : Nat) (hi : i < b.length)
    (he : b.getD i [] = []) (s : Stack) :
    cnt c cap (b.set i s) = cnt c cap b + countStack c cap s := by
  have := cnt_set c cap b i hi s
  rw [he, countStack_nil] at this
  omega

theorem flatSingles_replicate (n : Nat) : ∀ s ∈ List.replicate n ([] : Stack),
    s.length ≤ 1 ∧ ∀ pc ∈ s, pc.kind = Kind.flat := by
  intro s hs
  rw [List.mem_replicate] at hs
  rw [hs.2]; simp

theorem flatSingles_set {b : List Stack} (h : ∀ s ∈ b, s.length ≤ 1 ∧ ∀ pc ∈ s, pc.kind = Kind.flat)
    (i : Nat) (col : Color) :
    ∀ s ∈ b.set i [⟨col, .flat⟩], s.length ≤ 1 ∧ ∀ pc ∈ s, pc.kind = Kind.flat := by
  intro s hs
  rcases List.mem_or_eq_of_mem_set hs with h1 | h1
  · exact h s h1
  · rw [h1]; simp

/-! folds over attempted moves -/

theorem run_cons (p : Pos) (m : Move) (ms : List Move) : run p (m :: ms) = run (attempt p m) ms := rfl

theorem run_of_accepted_zero : ∀ (ms : List Move) (p : Pos), accepted p ms = 0 → run p ms = p := by
  intro ms
  induction ms with
  | nil => intro p _; rfl
  | cons m ms ih =>
    intro p h
    rw [run_cons]
    unfold accepted at h
    unfold attempt
    split at h
    · omega
    · exact ih p h

/-- the first accepted move of a list of attempts -/
theorem accepted_succ : ∀ (ms : List Move) (p : Pos) (k : Nat), accepted p ms = k + 1 →
    ∃ m q ms', Impl.move p m = .ok q ∧ accepted q ms' = k ∧ run p ms = run q ms' := by
  intro ms
  induction ms with
  | nil => intro p k h; simp [accepted] at h
  | cons m ms ih =>
    intro p k h
    rw [run_cons]
    unfold accepted at h
    unfold attempt
    split at h
    · rename_i q hq
      exact ⟨m, q, ms, hq, by omega, rfl⟩
    · exact ih p k h

/-! conservation without a configuration: the totals of the position itself -/

theorem totals_movePlace {p q : Pos} {m : Move} (hwf : p.WF)
    (hib : p.inBounds m.x m.y = true) (h : Impl.movePlace p m = .ok q) (c : Color) :
    (q.onBoard c false : Int) + q.stones c = (p.onBoard c false : Int) + p.stones c ∧
    (q.onBoard c true : Int) + q.caps c = (p.onBoard c true : Int) + p.caps c := by
  obtain ⟨pc, _, _, hempty, hboard, _, _, hst, hcp, _⟩ := movePlace_ok h
  have hb := (inBounds_iff p _ _).mp hib
  have hi : p.idx m.x.toNat m.y.toNat < p.board.length := by
    rw [hwf.2]; exact idx_lt (by omega) (by omega)
  have hcnt : ∀ cap, cnt c cap q.board = cnt c cap p.board + countStack c cap [pc] := by
    intro cap
    have := cnt_set c cap p.board _ hi [pc]
    rw [← atI_eq_getD, hempty, countStack_nil] at this
    rw [hboard]; omega
  constructor
  · rw [onBoard_eq, onBoard_eq, hcnt false, hst c, countStack_singleton]
    by_cases hc : pc.color = c <;> by_cases hk : pc.kind = .cap <;> simp [hc, hk] <;> omega
  · rw [onBoard_eq, onBoard_eq, hcnt true, hcp c, countStack_singleton]
    by_cases hc : pc.color = c <;> by_cases hk : pc.kind = .cap <;> simp [hc, hk] <;> omega

theorem totals_moveSlide {p q : Pos} {m : Move} (hwf : p.WF)
    (hib : p.inBounds m.x m.y = true) (hsl : m.type.isSlide = true)
    (h : Impl.moveSlide p m = .ok q) (c : Color) (cap : Bool) :
    q.onBoard c cap = p.onBoard c cap ∧ q.stones c = p.stones c ∧ q.caps c = p.caps c := by
  obtain ⟨ds, n, nb, hply, hpos, hn, hle, hloop, rfl⟩ := moveSlide_ok h
  have hb := (inBounds_iff p _ _).mp hib
  have hxn : m.x.toNat < p.size := by omega
  have hyn : m.y.toNat < p.size := by omega
  have hi : p.idx m.x.toNat m.y.toNat < p.board.length := by
    rw [hwf.2]; exact idx_lt hxn hyn
  have hsum := sum_map_toNat ds hpos
  have hres := slideLoop_inv p hwf _ _ (isSlide_unitDir hsl) (ds.map Int.toNat) m.x m.y
    ((p.atI m.x m.y).take n) (p.board.set (p.idx m.x.toNat m.y.toNat) ((p.atI m.x m.y).drop n)) nb
    (by rw [List.length_set]; exact hwf.2)
    (by
      intro a b ha hb' hab
      have hne := ahead_ne hb.1 hb.2.2.1 hab
      have := getD_set_idx p.board hwf.2 hxn hyn ha hb' (s := (p.atI m.x m.y).drop n)
      rw [if_neg hne] at this
      exact this)
    (by rw [List.length_take]; omega)
    hloop
  obtain ⟨_, r2, _⟩ := hres
  refine ⟨?_, rfl, rfl⟩
  rw [onBoard_eq, onBoard_eq]
  show cnt c cap nb = cnt c cap p.board
  have e1 := r2 c cap
  have e2 := cnt_set c cap p.board _ hi ((p.atI m.x m.y).drop n)
  rw [← atI_eq_getD] at e2
  have e3 := countStack_take_drop c cap (p.atI m.x m.y) n
  omega

/-! Unfolding facts.  (Equation lemmas are generated in the module that first unfolds a
    definition; unfolding them here keeps `Props/C04.lean` to property theorems only.) -/

theorem fromConfig_ply (c : Config) : (Pos.fromConfig c).ply = 0 := by simp only [Pos.fromConfig]

theorem onBoard_unfold (p : Pos) (c : Color) (cap : Bool) :
    p.onBoard c cap = (p.board.map (countStack c cap)).sum := by simp only [Pos.onBoard]

theorem toMove_unfold (p : Pos) : p.toMove = if p.ply % 2 = 0 then .white else .black := by
  simp only [Pos.toMove]

theorem attempt_unfold (p : Pos) (m : Move) :
    attempt p m = match Impl.move p m with | .ok q => q | .error _ => p := by simp only [attempt]; rfl

theorem run_unfold (p : Pos) (ms : List Move) : run p ms = ms.foldl attempt p := by simp only [run]

end Cons
end Tak

/-
  Helper lemmas for C17: the invariant of the request-queue / batch-worker transition system
  and its preservation by every action.
-/
import TakVerif.Model.Server

namespace Tak.Server

variable {P R : Type}

/-! ### lists -/

theorem assign_runModel (f : P → R) (b : List (Req P)) :
    assign b (runModel f b) = b.map fun r => (r.id, f r.position) := by
  induction b with
  | nil => rfl
  | cons r b ih =>
    simp only [assign, runModel, List.map_cons, List.zip_cons_cons] at ih ⊢
    rw [ih]

theorem split_at {α : Type} {l : List α} {k : Nat} {r : α} (h : l[k]? = some r) :
    l = l.take k ++ r :: l.drop (k + 1) := by
  obtain ⟨hk, rfl⟩ := List.getElem?_eq_some_iff.mp h
  rw [← List.drop_eq_getElem_cons hk, List.take_append_drop]

theorem eq_of_id_eq {l : List (Req P)} (nd : (l.map (·.id)).Nodup) {a b : Req P}
    (ha : a ∈ l) (hb : b ∈ l) (h : a.id = b.id) : a = b := by
  induction l with
  | nil => cases ha
  | cons x l ih =>
    simp only [List.map_cons, List.nodup_cons, List.mem_map, not_exists, not_and] at nd
    rcases List.mem_cons.mp ha with rfl | ha' <;> rcases List.mem_cons.mp hb with rfl | hb'
    · rfl
    · exact absurd h.symm (nd.1 b hb')
    · exact absurd h (nd.1 a ha')
    · exact ih nd.2 ha' hb'

/-! ### the invariant -/

def ids (l : List (Req P)) : List Nat := l.map (·.id)

@[simp] theorem ids_nil : ids ([] : List (Req P)) = [] := rfl
@[simp] theorem ids_append (a b : List (Req P)) : ids (a ++ b) = ids a ++ ids b := by
  simp [ids]
@[simp] theorem ids_cons (r : Req P) (l : List (Req P)) : ids (r :: l) = r.id :: ids l := rfl

theorem mem_ids {l : List (Req P)} {r : Req P} (h : r ∈ l) : r.id ∈ ids l :=
  List.mem_map.mpr ⟨r, h, rfl⟩

structure Inv (f : P → R) (s : State P R) : Prop where
  /-- request ids are unique -/
  nodup : (ids s.arrived).Nodup
  /-- every arrived id is pending or answered, with multiplicity -/
  count : ∀ i, (ids s.pending).count i + s.answeredIds.count i = (ids s.arrived).count i
  /-- pending requests are the arrived ones (position included) -/
  sub : ∀ r ∈ s.pending, r ∈ s.arrived
  /-- every delivered response was computed from the position submitted under that id -/
  paired : ∀ x ∈ s.answered, ∃ r ∈ s.arrived, r.id = x.1 ∧ x.2 = f r.position
  /-- a running batch is non-empty and no batch is formed while the model runs -/
  busy : ∀ b, s.running = some b → b ≠ [] ∧ s.batch = []

theorem inv_init (f : P → R) : Inv f (init : State P R) where
  nodup := List.nodup_nil
  count := fun _ => rfl
  sub := fun _ h => by cases h
  paired := fun _ h => by cases h
  busy := fun _ h => by cases h

theorem answeredIds_complete (f : P → R) (s : State P R) (b : List (Req P)) :
    (s.answered ++ assign b (runModel f b)).map (·.1) = s.answeredIds ++ ids b := by
  simp [assign_runModel, State.answeredIds, ids, Function.comp_def]

theorem inv_step {cap : Nat} {f : P → R} {s s' : State P R} {a : Action P}
    (h : Inv f s) (hs : step cap f s a = some s') : Inv f s' := by
  obtain ⟨hnd, hcnt, hsub, hpair, hbusy⟩ := h
  cases a with
  | arrive r =>
    simp only [step] at hs
    split at hs
    · cases hs
    have hfresh : r.id ∉ ids s.arrived := by assumption
    have hc0 : (ids s.arrived).count r.id = 0 := List.count_eq_zero.mpr hfresh
    split at hs <;> cases hs
    all_goals
      refine ⟨?_, ?_, ?_, ?_, ?_⟩
      · simp only [ids_append, ids_cons, ids_nil]
        refine List.nodup_append.mpr ⟨hnd, by simp, ?_⟩
        intro a ha b hb
        simp only [List.mem_singleton] at hb
        subst hb
        exact fun e => hfresh (e ▸ ha)
      · intro i
        have := hcnt i
        simp only [State.pending, State.answeredIds, ids_append, ids_cons, ids_nil,
          List.count_append, List.count_cons, List.count_nil] at this ⊢
        omega
      · intro x hx
        simp only [State.pending, List.mem_append, List.mem_singleton] at hx ⊢
        have hs' := hsub x
        simp only [State.pending, List.mem_append] at hs'
        grind
      · intro x hx
        obtain ⟨q, hq, e⟩ := hpair x hx
        exact ⟨q, List.mem_append_left _ hq, e⟩
      · exact hbusy
  | enter k =>
    simp only [step] at hs
    split at hs
    · cases hs
    rename_i r hr
    split at hs <;> cases hs
    have hsplit := split_at hr
    refine ⟨hnd, ?_, ?_, hpair, hbusy⟩
    · intro i
      have := hcnt i
      simp only [State.pending, State.answeredIds] at this ⊢
      rw [hsplit] at this
      simp only [ids_append, ids_cons, ids_nil, List.count_append, List.count_cons,
        List.count_nil] at this ⊢
      omega
    · intro x hx
      apply hsub x
      simp only [State.pending, List.mem_append, List.mem_singleton] at hx ⊢
      rw [hsplit]
      simp only [List.mem_append, List.mem_cons]
      grind
  | take =>
    simp only [step] at hs
    split at hs
    · rename_i r q hrun hq
      cases hs
      refine ⟨hnd, ?_, ?_, hpair, ?_⟩
      · intro i
        have := hcnt i
        simp only [State.pending, State.answeredIds, hq, hrun, ids_append, ids_cons, ids_nil,
          List.count_append, List.count_cons, List.count_nil] at this ⊢
        omega
      · intro x hx
        apply hsub x
        simp only [State.pending, hq, hrun, List.mem_append, List.mem_cons] at hx ⊢
        grind
      · intro b hb
        simp only [hrun] at hb
        cases hb
    · cases hs
  | close =>
    simp only [step] at hs
    split at hs
    · rename_i r b hrun hb
      cases hs
      refine ⟨hnd, ?_, ?_, hpair, ?_⟩
      · intro i
        have := hcnt i
        simp only [State.pending, State.answeredIds, hb, hrun, Option.getD_none,
          Option.getD_some, ids_append, ids_cons, ids_nil, List.count_append, List.count_cons,
          List.count_nil] at this ⊢
        omega
      · intro x hx
        apply hsub x
        simp only [State.pending, hb, hrun, Option.getD_none, Option.getD_some, List.mem_append,
          List.mem_cons] at hx ⊢
        grind
      · intro b' hb'
        cases hb'
        exact ⟨List.cons_ne_nil _ _, rfl⟩
    · cases hs
  | complete =>
    simp only [step] at hs
    split at hs
    · rename_i b hrun
      cases hs
      refine ⟨hnd, ?_, ?_, ?_, ?_⟩
      · intro i
        have := hcnt i
        simp only [State.answeredIds] at this
        simp only [State.pending, hrun, Option.getD_some, ids_append,
          List.count_append] at this
        simp only [State.pending, State.answeredIds, Option.getD_none,
          answeredIds_complete, ids_append, List.count_append, List.nil_append]
        omega
      · intro x hx
        apply hsub x
        simp only [State.pending, hrun, Option.getD_none, Option.getD_some, List.mem_append,
          List.nil_append] at hx ⊢
        grind
      · intro x hx
        rcases List.mem_append.mp hx with hx | hx
        · exact hpair x hx
        · rw [assign_runModel] at hx
          obtain ⟨q, hq, rfl⟩ := List.mem_map.mp hx
          refine ⟨q, hsub q ?_, rfl, rfl⟩
          simp only [State.pending, hrun, Option.getD_some, List.mem_append]
          exact Or.inl (Or.inl (Or.inl hq))
      · intro b' hb'
        cases hb'
    · cases hs

theorem inv_run {cap : Nat} {f : P → R} {as : List (Action P)} {s s' : State P R}
    (h : Inv f s) (hr : run cap f s as = some s') : Inv f s' := by
  induction as generalizing s with
  | nil => simp only [run] at hr; cases hr; exact h
  | cons a as ih =>
    simp only [run] at hr
    cases hstep : step cap f s a with
    | none => simp [hstep] at hr
    | some s1 =>
      simp only [hstep, Option.bind_some] at hr
      exact ih (inv_step h hstep) hr

theorem inv_reachable {cap : Nat} {f : P → R} {as : List (Action P)} {s : State P R}
    (hr : run cap f init as = some s) : Inv f s :=
  inv_run (inv_init f) hr

/-! ### responses are never withdrawn -/

theorem answered_mono_step {cap : Nat} {f : P → R} {s s' : State P R} {a : Action P}
    (hs : step cap f s a = some s') : ∃ l, s'.answered = s.answered ++ l := by
  cases a <;> simp only [step] at hs <;> (repeat' split at hs) <;> cases hs <;>
    first | exact ⟨[], (List.append_nil _).symm⟩ | exact ⟨_, rfl⟩

theorem answered_mono_run {cap : Nat} {f : P → R} {as : List (Action P)} {s s' : State P R}
    (hr : run cap f s as = some s') : ∃ l, s'.answered = s.answered ++ l := by
  induction as generalizing s with
  | nil => simp only [run] at hr; cases hr; exact ⟨[], (List.append_nil _).symm⟩
  | cons a as ih =>
    simp only [run] at hr
    cases hstep : step cap f s a with
    | none => simp [hstep] at hr
    | some s1 =>
      simp only [hstep, Option.bind_some] at hr
      obtain ⟨l1, h1⟩ := answered_mono_step hstep
      obtain ⟨l2, h2⟩ := ih hr
      exact ⟨l1 ++ l2, by rw [h2, h1, List.append_assoc]⟩

/-! ### the ghost list of arrivals only grows -/

theorem arrived_mono_step {cap : Nat} {f : P → R} {s s' : State P R} {a : Action P}
    (hs : step cap f s a = some s') : ∀ r ∈ s.arrived, r ∈ s'.arrived := by
  intro r hr
  cases a <;> simp only [step] at hs <;> (repeat' split at hs) <;> cases hs <;>
    first | exact hr | exact List.mem_append_left _ hr

theorem arrived_arrive {cap : Nat} {f : P → R} {s s' : State P R} {r : Req P}
    (hs : step cap f s (.arrive r) = some s') : r ∈ s'.arrived := by
  simp only [step] at hs
  (repeat' split at hs) <;> cases hs <;>
    exact List.mem_append_right _ (List.mem_singleton.mpr rfl)

end Tak.Server

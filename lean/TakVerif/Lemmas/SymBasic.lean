/-
  Facts about the eight matrices of `Sym.SYMS` as maps of the plane (no board yet):
  explicit entries, action on `(x, y, w)`, affinity, in-bounds transport, injectivity,
  inverses, transport of directions.  Everything later uses only these lemmas, never the
  entries.
-/
import TakVerif.Model.Symmetry

namespace Tak
namespace Sym
open Mat3

/-- the eight matrices, entries written out -/
theorem SYMS_eq : SYMS =
  [⟨1,0,0, 0,1,0, 0,0,1⟩, ⟨-1,0,1, 0,1,0, 0,0,1⟩, ⟨0,1,0, -1,0,1, 0,0,1⟩, ⟨0,1,0, 1,0,0, 0,0,1⟩,
   ⟨-1,0,1, 0,-1,1, 0,0,1⟩, ⟨1,0,0, 0,-1,1, 0,0,1⟩, ⟨0,-1,1, 1,0,0, 0,0,1⟩, ⟨0,-1,1, -1,0,1, 0,0,1⟩] := by
  decide

theorem ident_mem : ident ∈ SYMS := by decide

/-! ### identities valid for every matrix -/

theorem ax_mul (a b : Mat3) (x y w : Int) :
    (mul a b).ax x y w = a.ax (b.ax x y w) (b.ay x y w) (b.az x y w) := by
  simp only [mul, ax, ay, az]; grind

theorem ay_mul (a b : Mat3) (x y w : Int) :
    (mul a b).ay x y w = a.ay (b.ax x y w) (b.ay x y w) (b.az x y w) := by
  simp only [mul, ax, ay, az]; grind

/-- the maps are affine: a ray `c + k·d` goes to the ray `σ(c) + k·lin(σ)(d)` -/
theorem ax_affine (s : Mat3) (x y dx dy k w : Int) :
    s.ax (x + k * dx) (y + k * dy) w = s.ax x y w + k * s.ax dx dy 0 := by
  simp only [ax]; grind

theorem ay_affine (s : Mat3) (x y dx dy k w : Int) :
    s.ay (x + k * dx) (y + k * dy) w = s.ay x y w + k * s.ay dx dy 0 := by
  simp only [ay]; grind

theorem ax_step (s : Mat3) (x y dx dy w : Int) :
    s.ax (x + dx) (y + dy) w = s.ax x y w + s.ax dx dy 0 := by
  have := ax_affine s x y dx dy 1 w; simpa using this

theorem ay_step (s : Mat3) (x y dx dy w : Int) :
    s.ay (x + dx) (y + dy) w = s.ay x y w + s.ay dx dy 0 := by
  have := ay_affine s x y dx dy 1 w; simpa using this

@[simp] theorem ax_ident (x y w : Int) : ident.ax x y w = x := by simp [ident, ax]
@[simp] theorem ay_ident (x y w : Int) : ident.ay x y w = y := by simp [ident, ay]

/-! ### facts about the eight -/

/-- case analysis on membership in `SYMS` -/
theorem mem_cases {s : Mat3} (hs : s ∈ SYMS) :
    s = ⟨1,0,0, 0,1,0, 0,0,1⟩ ∨ s = ⟨-1,0,1, 0,1,0, 0,0,1⟩ ∨ s = ⟨0,1,0, -1,0,1, 0,0,1⟩ ∨
    s = ⟨0,1,0, 1,0,0, 0,0,1⟩ ∨ s = ⟨-1,0,1, 0,-1,1, 0,0,1⟩ ∨ s = ⟨1,0,0, 0,-1,1, 0,0,1⟩ ∨
    s = ⟨0,-1,1, 1,0,0, 0,0,1⟩ ∨ s = ⟨0,-1,1, -1,0,1, 0,0,1⟩ := by
  rw [SYMS_eq] at hs
  simpa only [List.mem_cons, List.not_mem_nil, or_false] using hs

theorem az_eq {s : Mat3} (hs : s ∈ SYMS) (x y w : Int) : s.az x y w = w := by
  rcases mem_cases hs with rfl | rfl | rfl | rfl | rfl | rfl | rfl | rfl <;> simp only [az] <;> omega

/-- a square is on the board iff its image is (for ALL integer squares) -/
theorem inB_iff {s : Mat3} (hs : s ∈ SYMS) (x y w : Int) :
    (0 ≤ s.ax x y w ∧ s.ax x y w ≤ w ∧ 0 ≤ s.ay x y w ∧ s.ay x y w ≤ w) ↔
    (0 ≤ x ∧ x ≤ w ∧ 0 ≤ y ∧ y ≤ w) := by
  rcases mem_cases hs with rfl | rfl | rfl | rfl | rfl | rfl | rfl | rfl <;>
    simp only [ax, ay] <;> omega

theorem act_inj {s : Mat3} (hs : s ∈ SYMS) {x y x' y' w : Int}
    (h1 : s.ax x y w = s.ax x' y' w) (h2 : s.ay x y w = s.ay x' y' w) : x = x' ∧ y = y' := by
  rcases mem_cases hs with rfl | rfl | rfl | rfl | rfl | rfl | rfl | rfl <;>
    simp only [ax, ay] at h1 h2 <;> omega

/-- every one of the eight has a two-sided inverse among the eight -/
theorem exists_inv {s : Mat3} (hs : s ∈ SYMS) :
    ∃ s' ∈ SYMS, mul s' s = ident ∧ mul s s' = ident := by
  revert s; decide

theorem inv_act {s s' : Mat3} (hs : s ∈ SYMS) (h : mul s' s = ident) (x y w : Int) :
    s'.ax (s.ax x y w) (s.ay x y w) w = x ∧ s'.ay (s.ax x y w) (s.ay x y w) w = y := by
  have h1 := ax_mul s' s x y w
  have h2 := ay_mul s' s x y w
  rw [h, az_eq hs] at h1 h2
  simp only [ax_ident, ay_ident] at h1 h2
  exact ⟨h1.symm, h2.symm⟩

/-- the linear part maps the four unit directions to unit directions, and
    `from_direction` finds the move type with exactly that direction -/
theorem dir_transport {s : Mat3} (hs : s ∈ SYMS) {t : MoveType} (ht : t.isSlide = true) :
    ∃ t', fromDirection (s.ax t.direction.1 t.direction.2 0) (s.ay t.direction.1 t.direction.2 0) = some t' ∧
      t'.isSlide = true ∧
      t'.direction = (s.ax t.direction.1 t.direction.2 0, s.ay t.direction.1 t.direction.2 0) := by
  revert s
  cases t <;> first | (exfalso; revert ht; decide) | decide

theorem transformMove?_isSome {s : Mat3} (hs : s ∈ SYMS) (m : Move) (n : Nat) :
    (transformMove? s m n).isSome = true := by
  unfold transformMove?
  by_cases h : m.type.isSlide = true
  · obtain ⟨t', h1, _, _⟩ := dir_transport hs h
    simp [h, h1]
  · simp [h]

/-- what `transform_move` produces, field by field -/
theorem transformMove_spec {s : Mat3} (hs : s ∈ SYMS) (m : Move) (n : Nat) :
    (transformMove s m n).x = s.ax m.x m.y ((n : Int) - 1) ∧
    (transformMove s m n).y = s.ay m.x m.y ((n : Int) - 1) ∧
    (transformMove s m n).slides = m.slides ∧
    (transformMove s m n).type.isSlide = m.type.isSlide ∧
    (m.type.isSlide = false → (transformMove s m n).type = m.type) ∧
    (m.type.isSlide = true → (transformMove s m n).type.direction =
        (s.ax m.type.direction.1 m.type.direction.2 0, s.ay m.type.direction.1 m.type.direction.2 0)) := by
  unfold transformMove transformMove?
  by_cases h : m.type.isSlide = true
  · obtain ⟨t', h1, h2, h3⟩ := dir_transport hs h
    simp [h, h1, h2, h3]
  · simp [h]

end Sym
end Tak

/-
  Helper lemmas for C19, part 1: association lists, running operation lists, framing
  (an operation changes only the names it writes) and typing of the run directory.
-/
import TakVerif.Model.Snapshot

namespace Tak.Snapshot

/-! ### association lists -/

section Assoc
variable {κ ν : Type} [DecidableEq κ]

@[simp] theorem get_nil (k : κ) : get ([] : List (κ × ν)) k = none := rfl

theorem get_cons (k' k : κ) (v : ν) (r : List (κ × ν)) :
    get ((k', v) :: r) k = if k' = k then some v else get r k := rfl

theorem get_del_same (m : List (κ × ν)) (k : κ) : get (del m k) k = none := by
  induction m with
  | nil => rfl
  | cons e r ih =>
    obtain ⟨k', v⟩ := e
    by_cases h : k' = k
    · simp [del, h] at ih ⊢; exact ih
    · simp [del, h, get_cons] at ih ⊢; exact ih

theorem get_del_ne (m : List (κ × ν)) {k k' : κ} (h : k' ≠ k) : get (del m k) k' = get m k' := by
  induction m with
  | nil => rfl
  | cons e r ih =>
    obtain ⟨k₀, v⟩ := e
    by_cases h0 : k₀ = k
    · subst h0
      have : ¬ k₀ = k' := fun e => h e.symm
      simp [del, get_cons, this] at ih ⊢; exact ih
    · by_cases h1 : k₀ = k'
      · subst h1; simp [del, h0, get_cons]
      · simp [del, h0, get_cons, h1] at ih ⊢; exact ih

theorem get_put_same (m : List (κ × ν)) (k : κ) (v : ν) : get (put m k v) k = some v := by
  simp [put, get_cons]

theorem get_put_ne (m : List (κ × ν)) {k k' : κ} (v : ν) (h : k' ≠ k) :
    get (put m k v) k' = get m k' := by
  have : ¬ k = k' := fun e => h e.symm
  simp [put, get_cons, this, get_del_ne m h]

theorem get_put (m : List (κ × ν)) (k k' : κ) (v : ν) :
    get (put m k v) k' = if k' = k then some v else get m k' := by
  by_cases h : k' = k
  · subst h; simp [get_put_same]
  · simp [h, get_put_ne m v h]

theorem get_del (m : List (κ × ν)) (k k' : κ) :
    get (del m k) k' = if k' = k then none else get m k' := by
  by_cases h : k' = k
  · subst h; simp [get_del_same]
  · simp [h, get_del_ne m h]

theorem get_some_mem {m : List (κ × ν)} {k : κ} {v : ν} (h : get m k = some v) : (k, v) ∈ m := by
  induction m with
  | nil => simp at h
  | cons e r ih =>
    obtain ⟨k₀, v₀⟩ := e
    by_cases h0 : k₀ = k
    · simp [get_cons, h0] at h; subst h0; subst h; simp
    · simp [get_cons, h0] at h; exact List.mem_cons_of_mem _ (ih h)

theorem del_del_filter (m : List (κ × ν)) (k : κ) (L : List κ) :
    (del m k).filter (fun e => decide (e.1 ∉ L)) = m.filter (fun e => decide (e.1 ∉ k :: L)) := by
  simp only [del, List.filter_filter]
  congr 1
  funext e
  by_cases h1 : e.1 = k <;> by_cases h2 : e.1 ∈ L <;> simp [h1, h2]

end Assoc

/-! ### running operation lists -/

theorem runAll?_append (A B : List Op) (fs : FS) :
    runAll? (A ++ B) fs = (runAll? A fs).bind (runAll? B) := by
  induction A generalizing fs with
  | nil => rfl
  | cons op r ih =>
    simp only [List.cons_append, runAll?]
    cases h : op.run fs with
    | none => rfl
    | some fs' => exact ih fs'

theorem runAll_of_runAll? {ops : List Op} {fs fs' : FS} (h : runAll? ops fs = some fs') :
    runAll ops fs = fs' := by
  induction ops generalizing fs with
  | nil => simp [runAll?] at h; simp [runAll, h]
  | cons op r ih =>
    simp only [runAll?, runAll] at h ⊢
    cases h1 : op.run fs with
    | none => simp [h1] at h
    | some fs1 => simp only [h1] at h ⊢; exact ih h

theorem runAll_append_of_some {A : List Op} {fs fsA : FS} (B : List Op)
    (h : runAll? A fs = some fsA) : runAll (A ++ B) fs = runAll B fsA := by
  induction A generalizing fs with
  | nil => simp [runAll?] at h; simp [h]
  | cons op r ih =>
    simp only [runAll?, List.cons_append, runAll] at h ⊢
    cases h1 : op.run fs with
    | none => simp [h1] at h
    | some fs1 => simp only [h1] at h ⊢; exact ih h

theorem runPrefix_of_length_le {ops : List Op} {k : Nat} (fs : FS) (h : ops.length ≤ k) :
    runPrefix k ops fs = runAll ops fs := by
  simp [runPrefix, List.take_of_length_le h]

theorem runPrefix_append_le {A : List Op} {k : Nat} (B : List Op) (fs : FS) (h : k ≤ A.length) :
    runPrefix k (A ++ B) fs = runPrefix k A fs := by
  simp [runPrefix, List.take_append_of_le_length h]

theorem runPrefix_append_ge {A : List Op} {k : Nat} {fs fsA : FS} (B : List Op)
    (h : A.length ≤ k) (hA : runAll? A fs = some fsA) :
    runPrefix k (A ++ B) fs = runPrefix (k - A.length) B fsA := by
  unfold runPrefix
  rw [List.take_append, List.take_of_length_le h]
  exact runAll_append_of_some _ hA

/-- an invariant kept by every operation of the list holds after every crash prefix -/
theorem runAll_inv (I : FS → Prop) {ops : List Op}
    (hstep : ∀ op ∈ ops, ∀ st st', I st → op.run st = some st' → I st') {fs : FS} (h0 : I fs) :
    I (runAll ops fs) := by
  induction ops generalizing fs with
  | nil => exact h0
  | cons op r ih =>
    simp only [runAll]
    cases h1 : op.run fs with
    | none => exact h0
    | some fs1 =>
      exact ih (fun o ho => hstep o (List.mem_cons_of_mem _ ho))
        (hstep op (List.mem_cons_self) fs fs1 h0 h1)

theorem runPrefix_inv (I : FS → Prop) {ops : List Op}
    (hstep : ∀ op ∈ ops, ∀ st st', I st → op.run st = some st' → I st') {fs : FS} (h0 : I fs)
    (k : Nat) : I (runPrefix k ops fs) :=
  runAll_inv I (fun op ho => hstep op (List.mem_of_mem_take ho)) h0

/-! ### framing: an operation changes only the names it writes -/

def Op.writes : Op → List Name
  | .mkdir d => [d]
  | .create d _ => [d]
  | .finish d _ _ => [d]
  | .unlinkIn d _ => [d]
  | .rmdir d => [d]
  | .rename a b => [a, b]
  | .unlink a _ => [a]
  | .symlink _ a => [a]

theorem get_run_frame {op : Op} {fs fs' : FS} {x : Name} (h : op.run fs = some fs')
    (hx : x ∉ op.writes) : get fs' x = get fs x := by
  cases op with
  | mkdir d =>
    simp only [Op.writes, List.mem_singleton] at hx
    simp only [Op.run] at h
    split at h <;> simp at h
    · subst h; exact get_put_ne _ _ hx
    · subst h; rfl
  | create d f =>
    simp only [Op.writes, List.mem_singleton] at hx
    simp only [Op.run] at h
    split at h <;> simp at h
    subst h; exact get_put_ne _ _ hx
  | finish d f c =>
    simp only [Op.writes, List.mem_singleton] at hx
    simp only [Op.run] at h
    split at h <;> simp at h
    obtain ⟨_, h⟩ := h
    subst h; exact get_put_ne _ _ hx
  | unlinkIn d f =>
    simp only [Op.writes, List.mem_singleton] at hx
    simp only [Op.run] at h
    split at h <;> simp at h
    · subst h; exact get_put_ne _ _ hx
    · subst h; rfl
  | rmdir d =>
    simp only [Op.writes, List.mem_singleton] at hx
    simp only [Op.run] at h
    split at h <;> simp at h
    · subst h; exact get_del_ne _ hx
    · subst h; rfl
  | rename a b =>
    simp only [Op.writes, List.mem_cons, List.not_mem_nil, or_false, not_or] at hx
    obtain ⟨hxa, hxb⟩ := hx
    simp only [Op.run] at h
    split at h
    · split at h <;> simp at h
      subst h; rfl
    · split at h
      · simp at h
      · split at h <;> simp at h
        · subst h; rw [get_put_ne _ _ hxb, get_del_ne _ hxa]
        · subst h; rw [get_put_ne _ _ hxb, get_del_ne _ hxa]
      · split at h <;> simp at h
        subst h; rw [get_put_ne _ _ hxb, get_del_ne _ hxa]
  | unlink a must =>
    simp only [Op.writes, List.mem_singleton] at hx
    simp only [Op.run] at h
    split at h
    · split at h <;> simp at h
      subst h; rfl
    · simp at h
    · simp at h; subst h; exact get_del_ne _ hx
  | symlink t a =>
    simp only [Op.writes, List.mem_singleton] at hx
    simp only [Op.run] at h
    split at h <;> simp at h
    subst h; exact get_put_ne _ _ hx

/-! ### typing of the run directory -/

/-- which kind of node each name may hold -/
def OKType : Name → Node → Prop
  | .step _, .dir _ => True
  | .stepTmp _, .dir _ => True
  | .latest, .link _ => True
  | .latestTmp, .link _ => True
  | .saveNow, .flag => True
  | _, _ => False

def Typed (fs : FS) : Prop := ∀ x nd, get fs x = some nd → OKType x nd

theorem typed_nil : Typed [] := by intro x nd h; simp at h

theorem typed_put {fs : FS} {k : Name} {v : Node} (h : Typed fs) (hv : OKType k v) :
    Typed (put fs k v) := by
  intro x nd hx
  rw [get_put] at hx
  split at hx
  · next e => subst e; simp at hx; subst hx; exact hv
  · exact h x nd hx

theorem typed_del {fs : FS} {k : Name} (h : Typed fs) : Typed (del fs k) := by
  intro x nd hx
  rw [get_del] at hx
  split at hx
  · simp at hx
  · exact h x nd hx

/-- the forms of operation the hook issues -/
def Op.Shaped : Op → Prop
  | .mkdir (.stepTmp _) => True
  | .create (.stepTmp _) _ => True
  | .finish (.stepTmp _) _ _ => True
  | .unlinkIn (.stepTmp _) _ => True
  | .unlinkIn (.step _) _ => True
  | .rmdir (.stepTmp _) => True
  | .rmdir (.step _) => True
  | .rename (.stepTmp _) (.step _) => True
  | .rename .latestTmp .latest => True
  | .unlink .latestTmp _ => True
  | .unlink .saveNow _ => True
  | .symlink _ .latestTmp => True
  | _ => False

theorem typed_run {op : Op} {fs fs' : FS} (ht : Typed fs) (hs : op.Shaped)
    (h : op.run fs = some fs') : Typed fs' := by
  cases op with
  | mkdir d =>
    cases d <;> simp [Op.Shaped] at hs
    simp only [Op.run] at h
    split at h <;> simp at h
    · subst h; exact typed_put ht (by simp [OKType])
    · subst h; exact ht
  | create d f =>
    cases d <;> simp [Op.Shaped] at hs
    simp only [Op.run] at h
    split at h <;> simp at h
    subst h; exact typed_put ht (by simp [OKType])
  | finish d f c =>
    cases d <;> simp [Op.Shaped] at hs
    simp only [Op.run] at h
    split at h <;> simp at h
    obtain ⟨_, h⟩ := h
    subst h; exact typed_put ht (by simp [OKType])
  | unlinkIn d f =>
    cases d <;> simp [Op.Shaped] at hs
    all_goals
      simp only [Op.run] at h
      split at h <;> simp at h
      · subst h; exact typed_put ht (by simp [OKType])
      · subst h; exact ht
  | rmdir d =>
    cases d <;> simp [Op.Shaped] at hs
    all_goals
      simp only [Op.run] at h
      split at h <;> simp at h
      · subst h; exact typed_del ht
      · subst h; exact ht
  | rename a b =>
    cases a <;> cases b <;> simp [Op.Shaped] at hs
    · -- stepTmp → step
      simp only [Op.run] at h
      split at h
      · next e => simp at e
      · split at h
        · simp at h
        · split at h <;> simp at h
          · subst h; exact typed_put (typed_del ht) (by simp [OKType])
          · subst h; exact typed_put (typed_del ht) (by simp [OKType])
        · next na hnd hna =>
          have := ht _ _ hna
          cases na <;> simp [OKType] at this
          exact absurd rfl (hnd _)
    · -- latestTmp → latest
      simp only [Op.run] at h
      split at h
      · next e => simp at e
      · split at h
        · simp at h
        · next es hes =>
          have := ht _ _ hes
          simp [OKType] at this
        · next na hnd hna =>
          have hty := ht _ _ hna
          split at h <;> simp at h
          subst h
          refine typed_put (typed_del ht) ?_
          cases na <;> simp [OKType] at hty ⊢
  | unlink a must =>
    cases a <;> simp [Op.Shaped] at hs
    all_goals
      simp only [Op.run] at h
      split at h
      · split at h <;> simp at h
        subst h; exact ht
      · simp at h
      · simp at h; subst h; exact typed_del ht
  | symlink t a =>
    cases a <;> simp [Op.Shaped] at hs
    simp only [Op.run] at h
    split at h <;> simp at h
    subst h; exact typed_put ht (by simp [OKType])

end Tak.Snapshot

/-
  Heap lemmas, part 3: the other producers of positions — `parse_tps`, `transform_position`,
  `decode`, caller-built boards.  For each: the heap only grows (`Frame`), and an accepted
  result is a well-formed heap position.
-/
import TakVerif.Lemmas.Heap

namespace Tak
namespace HeapModel

/-- `sq` is an outer list all of whose entries are stack lists (`HWF` for a bare reference) -/
def GoodOuter (h : Heap) (sq : Ref) : Prop :=
  ∃ refs, h[sq]? = some (.outer refs) ∧ ∀ r ∈ refs, IsStack h r

theorem HWF_iff_goodOuter (h : Heap) (hp : HPos) : HWF h hp ↔ GoodOuter h hp.board := Iff.rfl

theorem GoodOuter.lt {h : Heap} {sq : Ref} (g : GoodOuter h sq) : sq < h.length := by
  obtain ⟨refs, hb, _⟩ := g
  exact IsOuter.lt ⟨refs, hb⟩

theorem GoodOuter.frame {h h' : Heap} {sq : Ref} (g : GoodOuter h sq) (f : Frame h h') : GoodOuter h' sq := by
  obtain ⟨refs, hb, hall⟩ := g
  exact ⟨refs, by rw [f _ (IsOuter.lt ⟨refs, hb⟩), hb], fun r hr => f.kindMono.1 r (hall r hr)⟩

theorem GoodOuter.refs_isStack {h : Heap} {sq : Ref} (g : GoodOuter h sq) : ∀ r ∈ refsAt h sq, IsStack h r := by
  obtain ⟨refs, hb, hall⟩ := g
  rw [refsAt_of hb]; exact hall

theorem GoodOuter.extend {h : Heap} {sq : Ref} (g : GoodOuter h sq) {rs : List Ref}
    (hrs : ∀ r ∈ rs, IsStack h r) : GoodOuter (extendRefs h sq rs) sq := by
  obtain ⟨refs, hb, hall⟩ := g
  refine ⟨refs ++ rs, extendRefs_self hb rs, ?_⟩
  intro r hr
  rcases List.mem_append.mp hr with hm | hm
  · exact (kindMono_extendRefs _ _ _).1 r (hall r hm)
  · exact (kindMono_extendRefs _ _ _).1 r (hrs r hm)

theorem GoodOuter.setItem {h : Heap} {sq : Ref} (g : GoodOuter h sq) (i : Nat) {r : Ref}
    (hr : IsStack h r) : GoodOuter (setItem h sq i r) sq := by
  obtain ⟨refs, hb, hall⟩ := g
  refine ⟨refs.set i r, refsAt_setItem_self hb i r, ?_⟩
  intro r' hr'
  rcases List.mem_or_eq_of_mem_set hr' with hm | rfl
  · exact (kindMono_setItem _ _ _ _).1 _ (hall _ hm)
  · exact (kindMono_setItem _ _ _ _).1 _ hr

theorem GoodOuter.pushPiece {h : Heap} {sq : Ref} (g : GoodOuter h sq) (s : Ref) (pc : Piece) :
    GoodOuter (pushPiece h s pc) sq := by
  obtain ⟨refs, hb, hall⟩ := g
  exact ⟨refs, pushPiece_outer hb s pc, fun r hr => (kindMono_pushPiece _ _ _).1 r (hall r hr)⟩

theorem GoodOuter.setLastPiece {h : Heap} {sq : Ref} (g : GoodOuter h sq) (s : Ref) (pc : Piece) :
    GoodOuter (setLastPiece h s pc) sq := by
  obtain ⟨refs, hb, hall⟩ := g
  exact ⟨refs, setLastPiece_outer hb s pc, fun r hr => (kindMono_setLastPiece _ _ _).1 r (hall r hr)⟩

theorem goodOuter_alloc_nil (h : Heap) : GoodOuter (alloc h (.outer [])).1 (alloc h (.outer [])).2 :=
  ⟨[], by simp, by simp⟩

theorem isStack_alloc_new (h : Heap) (s : Stack) : IsStack (alloc h (.stack s)).1 (alloc h (.stack s)).2 :=
  ⟨s, by simp⟩

/-! ### `transform_position` -/

theorem hTransformLoop_spec (src : List Ref) (nb : Ref) (base : Heap) (hnb : base.length ≤ nb) :
    ∀ (table : List (Nat × Nat)) (h : Heap), Frame base h → GoodOuter h nb → (∀ r ∈ src, IsStack h r) →
      Frame base (hTransformLoop src nb h table).1 ∧ GoodOuter (hTransformLoop src nb h table).1 nb := by
  intro table
  induction table with
  | nil => intro h f g _; exact ⟨f, g⟩
  | cons ds rest ih =>
    intro h f g hsrc
    obtain ⟨d, s⟩ := ds
    unfold hTransformLoop
    split
    · exact ⟨f, g⟩
    · next r hr =>
      split
      · have hmem : r ∈ src := List.mem_of_getElem? hr
        apply ih
        · exact f.setItem hnb _ _
        · exact g.setItem _ (hsrc r hmem)
        · exact fun r' hr' => (kindMono_setItem _ _ _ _).1 r' (hsrc r' hr')
      · exact ⟨f, g⟩

theorem hTransform_spec {h : Heap} {hp : HPos} (w : HWF h hp) (table : List (Nat × Nat)) :
    Frame h (hTransform h hp table).1 ∧
    ∀ hp', (hTransform h hp table).2 = .ok hp' → HWF (hTransform h hp table).1 hp' := by
  obtain ⟨refs, hb, hall⟩ := w
  have fa : Frame h (alloc h (.outer (refsAt h hp.board))).1 := (Frame.refl h).alloc _
  have ga : GoodOuter (alloc h (.outer (refsAt h hp.board))).1 (alloc h (.outer (refsAt h hp.board))).2 := by
    refine ⟨refs, by simp [refsAt_of hb], fun r hr => fa.kindMono.1 r (hall r hr)⟩
  have hsrc : ∀ r ∈ refsAt h hp.board, IsStack (alloc h (.outer (refsAt h hp.board))).1 r := by
    intro r hr
    have hr' : r ∈ refs := by rw [refsAt_of hb] at hr; exact hr
    exact fa.kindMono.1 r (hall r hr')
  obtain ⟨f, g⟩ := hTransformLoop_spec (refsAt h hp.board) (alloc h (.outer (refsAt h hp.board))).2 h
    (Nat.le_refl _) table _ fa ga hsrc
  unfold hTransform
  simp only
  generalize hTransformLoop (refsAt h hp.board) (alloc h (.outer (refsAt h hp.board))).2 _ table = res at *
  obtain ⟨h1, r1⟩ := res
  cases r1 with
  | error e => exact ⟨f, by intro _ hh; cases hh⟩
  | ok u =>
    refine ⟨f, ?_⟩
    intro hp' hh
    simp only [Except.ok.injEq] at hh
    subst hh
    exact g

/-! ### `decode` -/

theorem publish_spec {base h : Heap} {sq : Ref} (hsq : base.length ≤ sq) (f : Frame base h) (g : GoodOuter h sq)
    (cur : Option Ref) (hcur : ∀ c, cur = some c → IsStack h c) :
    Frame base (publish h sq cur) ∧ GoodOuter (publish h sq cur) sq := by
  cases cur with
  | none => exact ⟨f, g⟩
  | some c =>
    refine ⟨f.extendRefs hsq _, g.extend ?_⟩
    intro r hr
    simp only [List.mem_singleton] at hr
    subst hr
    exact hcur _ rfl

theorem hDecodeLoop_spec (sq : Ref) (base : Heap) (hsq : base.length ≤ sq) :
    ∀ (toks : List DTok) (h : Heap) (cur : Option Ref), Frame base h → GoodOuter h sq →
      (∀ c, cur = some c → IsStack h c ∧ base.length ≤ c) →
      Frame base (hDecodeLoop sq h cur toks).1 ∧ GoodOuter (hDecodeLoop sq h cur toks).1 sq := by
  intro toks
  induction toks with
  | nil =>
    intro h cur f g hcur
    unfold hDecodeLoop
    exact publish_spec hsq f g cur (fun c hc => (hcur c hc).1)
  | cons tok rest ih =>
    intro h cur f g hcur
    have general : ∀ init : Stack,
        Frame base (hDecodeLoop sq (alloc (publish h sq cur) (.stack init)).1
          (some (alloc (publish h sq cur) (.stack init)).2) rest).1 ∧
        GoodOuter (hDecodeLoop sq (alloc (publish h sq cur) (.stack init)).1
          (some (alloc (publish h sq cur) (.stack init)).2) rest).1 sq := by
      intro init
      obtain ⟨fp, gp⟩ := publish_spec hsq f g cur (fun c hc => (hcur c hc).1)
      apply ih
      · exact fp.alloc _
      · exact gp.frame (frame_append _ _)
      · intro c hc
        simp only [Option.some.injEq] at hc
        subst hc
        exact ⟨isStack_alloc_new _ _, fp.length_le⟩
    cases tok with
    | under col =>
      cases cur with
      | none => unfold hDecodeLoop; exact ⟨f, g⟩
      | some c =>
        unfold hDecodeLoop
        obtain ⟨hc1, hc2⟩ := hcur c rfl
        apply ih
        · exact f.pushPiece hc2 _
        · exact g.pushPiece _ _
        · intro c' hc'
          simp only [Option.some.injEq] at hc'
          subst hc'
          exact ⟨(kindMono_pushPiece _ _ _).1 _ hc1, hc2⟩
    | empty => unfold hDecodeLoop; exact general _
    | top pc => unfold hDecodeLoop; exact general _

theorem hDecode_spec (h : Heap) (sc : HPos) (toks : List DTok) :
    Frame h (hDecode h sc toks).1 ∧
    ∀ hp', (hDecode h sc toks).2 = .ok hp' → HWF (hDecode h sc toks).1 hp' := by
  obtain ⟨f, g⟩ := hDecodeLoop_spec (alloc h (.outer [])).2 h (Nat.le_refl _) toks (alloc h (.outer [])).1 none
    ((Frame.refl h).alloc _) (goodOuter_alloc_nil h) (by intro c hc; cases hc)
  unfold hDecode
  simp only
  generalize hDecodeLoop (alloc h (.outer [])).2 (alloc h (.outer [])).1 none toks = res at *
  obtain ⟨h1, r1⟩ := res
  cases r1 with
  | error e => exact ⟨f, by intro _ hh; cases hh⟩
  | ok u =>
    simp only
    split
    · exact ⟨f, by intro _ hh; cases hh⟩
    · refine ⟨f, ?_⟩
      intro hp' hh
      simp only [Except.ok.injEq] at hh
      subst hh
      exact g

/-! ### `parse_tps` -/

/-- the character loop writes only the local list `st`; every outer list is untouched -/
theorem hParseChars_spec (st : Ref) (base : Heap) (hst : base.length ≤ st) :
    ∀ (cs : List PChar) (h : Heap), Frame base h →
      Frame base (hParseChars st h cs).1 ∧ KindMono h (hParseChars st h cs).1 ∧
      ∀ sq, GoodOuter h sq → GoodOuter (hParseChars st h cs).1 sq := by
  intro cs
  induction cs with
  | nil => intro h f; exact ⟨f, KindMono.refl h, fun _ g => g⟩
  | cons c rest ih =>
    intro h f
    have push : ∀ pc, Frame base (hParseChars st (pushPiece h st pc) rest).1 ∧
        KindMono h (hParseChars st (pushPiece h st pc) rest).1 ∧
        ∀ sq, GoodOuter h sq → GoodOuter (hParseChars st (pushPiece h st pc) rest).1 sq := by
      intro pc
      obtain ⟨f1, k1, g1⟩ := ih (pushPiece h st pc) (f.pushPiece hst pc)
      exact ⟨f1, (kindMono_pushPiece _ _ _).trans k1, fun sq g => g1 sq (g.pushPiece _ _)⟩
    have setl : ∀ pc, Frame base (hParseChars st (setLastPiece h st pc) rest).1 ∧
        KindMono h (hParseChars st (setLastPiece h st pc) rest).1 ∧
        ∀ sq, GoodOuter h sq → GoodOuter (hParseChars st (setLastPiece h st pc) rest).1 sq := by
      intro pc
      obtain ⟨f1, k1, g1⟩ := ih (setLastPiece h st pc) (f.setLastPiece hst pc)
      exact ⟨f1, (kindMono_setLastPiece _ _ _).trans k1, fun sq g => g1 sq (g.setLastPiece _ _)⟩
    cases c with
    | one => unfold hParseChars; exact push _
    | two => unfold hParseChars; exact push _
    | markS =>
      unfold hParseChars
      split
      · exact ⟨f, KindMono.refl h, fun _ g => g⟩
      split
      · exact ⟨f, KindMono.refl h, fun _ g => g⟩
      · exact setl _
    | markC =>
      unfold hParseChars
      split
      · exact ⟨f, KindMono.refl h, fun _ g => g⟩
      split
      · exact ⟨f, KindMono.refl h, fun _ g => g⟩
      · exact setl _

theorem hParseItems_spec (sq : Ref) (base : Heap) (hsq : base.length ≤ sq) :
    ∀ (items : List RowItem) (h : Heap), Frame base h → GoodOuter h sq →
      Frame base (hParseItems sq h items).1 ∧ GoodOuter (hParseItems sq h items).1 sq := by
  intro items
  induction items with
  | nil => intro h f g; exact ⟨f, g⟩
  | cons it rest ih =>
    intro h f g
    cases it with
    | empties n =>
      unfold hParseItems
      simp only
      apply ih
      · exact (f.alloc _).extendRefs hsq _
      · apply (g.frame (frame_append _ _)).extend
        intro r hr
        rw [List.eq_of_mem_replicate hr]
        exact isStack_alloc_new h []
    | pieces cs =>
      unfold hParseItems
      split
      · exact ⟨f, g⟩
      simp only
      have flen := f.length_le
      obtain ⟨f1, k1, g1⟩ := hParseChars_spec (alloc h (.stack [])).2 base
        (by simpa using flen) cs (alloc h (.stack [])).1 (f.alloc _)
      have g2 := g1 sq (g.frame (frame_append _ _))
      generalize hParseChars (alloc h (.stack [])).2 (alloc h (.stack [])).1 cs = res at *
      obtain ⟨h1, r1⟩ := res
      cases r1 with
      | error e => exact ⟨f1, g2⟩
      | ok u =>
        simp only
        apply ih
        · exact (f1.alloc _).extendRefs hsq _
        · apply (g2.frame (frame_append _ _)).extend
          intro r hr
          simp only [List.mem_singleton] at hr
          subst hr
          exact isStack_alloc_new _ _

theorem hParseRow_spec (h : Heap) (items : List RowItem) :
    Frame h (hParseRow h items).1 ∧
    ∀ rr, (hParseRow h items).2 = .ok rr → GoodOuter (hParseRow h items).1 rr := by
  obtain ⟨f, g⟩ := hParseItems_spec (alloc h (.outer [])).2 h (Nat.le_refl _) items (alloc h (.outer [])).1
    ((Frame.refl h).alloc _) (goodOuter_alloc_nil h)
  unfold hParseRow
  simp only
  generalize hParseItems (alloc h (.outer [])).2 (alloc h (.outer [])).1 items = res at *
  obtain ⟨h1, r1⟩ := res
  cases r1 with
  | error e => exact ⟨f, by intro _ hh; cases hh⟩
  | ok u =>
    refine ⟨f, ?_⟩
    intro rr hh
    simp only [Except.ok.injEq] at hh
    subst hh
    exact g

theorem hParseRows_spec (n : Nat) (sq : Ref) (base : Heap) (hsq : base.length ≤ sq) :
    ∀ (rows : List (List RowItem)) (h : Heap), Frame base h → GoodOuter h sq →
      Frame base (hParseRows n sq h rows).1 ∧ GoodOuter (hParseRows n sq h rows).1 sq := by
  intro rows
  induction rows with
  | nil => intro h f g; exact ⟨f, g⟩
  | cons row rest ih =>
    intro h f g
    obtain ⟨fr, gr⟩ := hParseRow_spec h row
    unfold hParseRows
    simp only
    generalize hParseRow h row = res at *
    obtain ⟨h1, r1⟩ := res
    cases r1 with
    | error e => exact ⟨f.trans fr, g.frame fr⟩
    | ok rr =>
      simp only
      split
      · exact ⟨f.trans fr, g.frame fr⟩
      · apply ih
        · exact (f.trans fr).extendRefs hsq _
        · exact (g.frame fr).extend (gr rr rfl).refs_isStack

theorem hParseTPS_spec (h : Heap) (rows : List (List RowItem)) (ply : Int) :
    Frame h (hParseTPS h rows ply).1 ∧
    ∀ hp', (hParseTPS h rows ply).2 = .ok hp' → HWF (hParseTPS h rows ply).1 hp' := by
  obtain ⟨f, g⟩ := hParseRows_spec rows.length (alloc h (.outer [])).2 h (Nat.le_refl _) rows.reverse
    (alloc h (.outer [])).1 ((Frame.refl h).alloc _) (goodOuter_alloc_nil h)
  unfold hParseTPS
  simp only
  generalize hParseRows rows.length (alloc h (.outer [])).2 (alloc h (.outer [])).1 rows.reverse = res at *
  obtain ⟨h1, r1⟩ := res
  cases r1 with
  | error e => exact ⟨f, by intro _ hh; cases hh⟩
  | ok u =>
    simp only
    split
    · exact ⟨f, by intro _ hh; cases hh⟩
    · refine ⟨f, ?_⟩
      intro hp' hh
      simp only [Except.ok.injEq] at hh
      subst hh
      exact g

/-! ### caller-built boards -/

theorem hAdoptLoop_spec (kept : List HPos) :
    ∀ (srcs : List SqSrc) (h : Heap) (acc : List Ref), (∀ hp ∈ kept, HWF h hp) → (∀ r ∈ acc, IsStack h r) →
      Frame h (hAdoptLoop kept h acc srcs).1 ∧
      ∀ refs, (hAdoptLoop kept h acc srcs).2 = some refs → ∀ r ∈ refs, IsStack (hAdoptLoop kept h acc srcs).1 r := by
  intro srcs
  induction srcs with
  | nil =>
    intro h acc _ hacc
    refine ⟨Frame.refl h, ?_⟩
    intro refs hh
    simp only [hAdoptLoop, Option.some.injEq] at hh
    subst hh
    exact hacc
  | cons src rest ih =>
    intro h acc hk hacc
    have same : ∀ r, IsStack h r →
        Frame h (hAdoptLoop kept h (acc ++ [r]) rest).1 ∧
        ∀ refs, (hAdoptLoop kept h (acc ++ [r]) rest).2 = some refs →
          ∀ r' ∈ refs, IsStack (hAdoptLoop kept h (acc ++ [r]) rest).1 r' := by
      intro r hr
      apply ih h (acc ++ [r]) hk
      intro r' hr'
      rcases List.mem_append.mp hr' with hm | hm
      · exact hacc r' hm
      · simp only [List.mem_singleton] at hm; subst hm; exact hr
    cases src with
    | fresh s =>
      unfold hAdoptLoop
      simp only
      have fa : Frame h (alloc h (.stack s)).1 := frame_append _ _
      obtain ⟨f1, g1⟩ := ih (alloc h (.stack s)).1 (acc ++ [(alloc h (.stack s)).2])
        (fun hp hm => (hk hp hm).frame fa)
        (by
          intro r' hr'
          rcases List.mem_append.mp hr' with hm | hm
          · exact fa.kindMono.1 r' (hacc r' hm)
          · simp only [List.mem_singleton] at hm; subst hm; exact isStack_alloc_new h s)
      exact ⟨fa.trans f1, g1⟩
    | own j =>
      unfold hAdoptLoop
      split
      · exact ⟨Frame.refl h, by intro _ hh; cases hh⟩
      · next r hr => exact same r (hacc r (List.mem_of_getElem? hr))
    | shared k i =>
      unfold hAdoptLoop
      split
      · exact ⟨Frame.refl h, by intro _ hh; cases hh⟩
      · next hp hhp =>
        split
        · exact ⟨Frame.refl h, by intro _ hh; cases hh⟩
        · next r hr =>
          have w : HWF h hp := hk hp (List.mem_of_getElem? hhp)
          exact same r (GoodOuter.refs_isStack w r (List.mem_of_getElem? hr))

theorem hAdopt_spec {h : Heap} {kept : List HPos} (hk : ∀ hp ∈ kept, HWF h hp) (sc : HPos) (srcs : List SqSrc) :
    Frame h (hAdopt h kept sc srcs).1 ∧
    ∀ hp', (hAdopt h kept sc srcs).2 = some hp' → HWF (hAdopt h kept sc srcs).1 hp' := by
  obtain ⟨f, g⟩ := hAdoptLoop_spec kept srcs h [] hk (by simp)
  unfold hAdopt
  simp only
  generalize hAdoptLoop kept h [] srcs = res at *
  obtain ⟨h1, r1⟩ := res
  cases r1 with
  | none => exact ⟨f, by intro _ hh; cases hh⟩
  | some refs =>
    simp only
    refine ⟨f.alloc _, ?_⟩
    intro hp' hh
    simp only [Option.some.injEq] at hh
    subst hh
    refine ⟨refs, by simp, ?_⟩
    intro r hr
    exact (frame_append _ _).kindMono.1 r (g refs rfl r hr)

end HeapModel
end Tak

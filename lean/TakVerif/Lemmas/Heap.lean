/-
  Heap lemmas, part 1: the frame relation and how every primitive / list method behaves
  with respect to it; kinds of cells; reading values after growth.
-/
import TakVerif.Model.Heap

namespace Tak
namespace HeapModel

/-- `h` still holds every cell of `base` unchanged (so it is at least as long) -/
def Frame (base h : Heap) : Prop := ∀ r, r < base.length → h[r]? = base[r]?

theorem Frame.refl (h : Heap) : Frame h h := fun _ _ => rfl

theorem Frame.length_le {base h : Heap} (f : Frame base h) : base.length ≤ h.length := by
  rcases Nat.eq_zero_or_pos base.length with h0 | hpos
  · omega
  · have := f (base.length - 1) (by omega)
    have hb : base[base.length - 1]? ≠ none := by
      simp; omega
    rw [← this] at hb
    rcases Nat.lt_or_ge (base.length - 1) h.length with hc | hc
    · omega
    · exact absurd (List.getElem?_eq_none_iff.mpr hc) hb

theorem Frame.trans {a b c : Heap} (f : Frame a b) (g : Frame b c) : Frame a c := by
  intro r hr
  have := f.length_le
  rw [g r (by omega), f r hr]

@[simp] theorem alloc_snd (h : Heap) (c : Cell) : (alloc h c).2 = h.length := rfl
@[simp] theorem alloc_fst (h : Heap) (c : Cell) : (alloc h c).1 = h ++ [c] := rfl

theorem frame_append (h t : Heap) : Frame h (h ++ t) := by
  intro r hr
  simp [List.getElem?_append_left hr]

theorem Frame.alloc {base h : Heap} (f : Frame base h) (c : Cell) : Frame base (alloc h c).1 :=
  f.trans (frame_append h [c])

theorem Frame.write {base h : Heap} (f : Frame base h) {r : Ref} (hr : base.length ≤ r) (c : Cell) :
    Frame base (write h r c) := by
  intro r' hr'
  have : r ≠ r' := Nat.ne_of_gt (Nat.lt_of_lt_of_le hr' hr)
  simp [HeapModel.write, this, f r' hr']

@[simp] theorem write_length (h : Heap) (r : Ref) (c : Cell) : (write h r c).length = h.length := by
  simp [write]

theorem Frame.setItem {base h : Heap} (f : Frame base h) {l : Ref} (hl : base.length ≤ l) (i : Nat) (r : Ref) :
    Frame base (setItem h l i r) := by
  unfold HeapModel.setItem
  split
  · exact f.write hl _
  · exact f

theorem Frame.extendRefs {base h : Heap} (f : Frame base h) {l : Ref} (hl : base.length ≤ l) (rs : List Ref) :
    Frame base (extendRefs h l rs) := by
  unfold HeapModel.extendRefs
  split
  · exact f.write hl _
  · exact f

theorem Frame.pushPiece {base h : Heap} (f : Frame base h) {s : Ref} (hs : base.length ≤ s) (pc : Piece) :
    Frame base (pushPiece h s pc) := by
  unfold HeapModel.pushPiece
  split
  · exact f.write hs _
  · exact f

theorem Frame.setLastPiece {base h : Heap} (f : Frame base h) {s : Ref} (hs : base.length ≤ s) (pc : Piece) :
    Frame base (setLastPiece h s pc) := by
  unfold HeapModel.setLastPiece
  split
  · exact f.write hs _
  · exact f

@[simp] theorem setItem_length (h : Heap) (l : Ref) (i : Nat) (r : Ref) : (setItem h l i r).length = h.length := by
  unfold setItem; split <;> simp

@[simp] theorem extendRefs_length (h : Heap) (l : Ref) (rs : List Ref) : (extendRefs h l rs).length = h.length := by
  unfold extendRefs; split <;> simp

@[simp] theorem pushPiece_length (h : Heap) (s : Ref) (pc : Piece) : (pushPiece h s pc).length = h.length := by
  unfold pushPiece; split <;> simp

@[simp] theorem setLastPiece_length (h : Heap) (s : Ref) (pc : Piece) : (setLastPiece h s pc).length = h.length := by
  unfold setLastPiece; split <;> simp

/-! ### kinds of cells -/

def IsStack (h : Heap) (r : Ref) : Prop := ∃ s, h[r]? = some (.stack s)
def IsOuter (h : Heap) (r : Ref) : Prop := ∃ rs, h[r]? = some (.outer rs)

theorem IsStack.lt {h : Heap} {r : Ref} (hs : IsStack h r) : r < h.length := by
  obtain ⟨s, hs⟩ := hs
  rcases Nat.lt_or_ge r h.length with hc | hc
  · exact hc
  · rw [List.getElem?_eq_none_iff.mpr hc] at hs
    cases hs

theorem IsOuter.lt {h : Heap} {r : Ref} (hs : IsOuter h r) : r < h.length := by
  obtain ⟨s, hs⟩ := hs
  rcases Nat.lt_or_ge r h.length with hc | hc
  · exact hc
  · rw [List.getElem?_eq_none_iff.mpr hc] at hs
    cases hs

/-- every cell keeps its kind (no primitive sequence used by the model turns a stack list
    into an outer list or vice versa, and nothing is freed) -/
def KindMono (h h' : Heap) : Prop :=
  (∀ r, IsStack h r → IsStack h' r) ∧ (∀ r, IsOuter h r → IsOuter h' r)

theorem KindMono.refl (h : Heap) : KindMono h h := ⟨fun _ x => x, fun _ x => x⟩

theorem KindMono.trans {a b c : Heap} (f : KindMono a b) (g : KindMono b c) : KindMono a c :=
  ⟨fun r x => g.1 r (f.1 r x), fun r x => g.2 r (f.2 r x)⟩

theorem Frame.kindMono {h h' : Heap} (f : Frame h h') : KindMono h h' := by
  constructor
  · intro r hs
    have := hs.lt
    obtain ⟨s, hs⟩ := hs
    exact ⟨s, by rw [f r this, hs]⟩
  · intro r hs
    have := hs.lt
    obtain ⟨s, hs⟩ := hs
    exact ⟨s, by rw [f r this, hs]⟩

theorem kindMono_alloc (h : Heap) (c : Cell) : KindMono h (alloc h c).1 :=
  (frame_append h [c]).kindMono

theorem kindMono_write_outer {h : Heap} {l : Ref} {a : List Ref} (hl : h[l]? = some (.outer a)) (b : List Ref) :
    KindMono h (write h l (.outer b)) := by
  have hlt : l < h.length := IsOuter.lt ⟨a, hl⟩
  constructor
  · rintro r ⟨s, hs⟩
    have : l ≠ r := by rintro rfl; rw [hl] at hs; cases hs
    exact ⟨s, by simp [write, this, hs]⟩
  · rintro r ⟨s, hs⟩
    by_cases e : l = r
    · subst e; exact ⟨b, by simp [write, hlt]⟩
    · exact ⟨s, by simp [write, e, hs]⟩

theorem kindMono_write_stack {h : Heap} {l : Ref} {a : Stack} (hl : h[l]? = some (.stack a)) (b : Stack) :
    KindMono h (write h l (.stack b)) := by
  have hlt : l < h.length := IsStack.lt ⟨a, hl⟩
  constructor
  · rintro r ⟨s, hs⟩
    by_cases e : l = r
    · subst e; exact ⟨b, by simp [write, hlt]⟩
    · exact ⟨s, by simp [write, e, hs]⟩
  · rintro r ⟨s, hs⟩
    have : l ≠ r := by rintro rfl; rw [hl] at hs; cases hs
    exact ⟨s, by simp [write, this, hs]⟩

theorem kindMono_setItem (h : Heap) (l : Ref) (i : Nat) (r : Ref) : KindMono h (setItem h l i r) := by
  unfold setItem read
  split
  · next refs hl => exact kindMono_write_outer hl _
  · exact KindMono.refl h

theorem kindMono_extendRefs (h : Heap) (l : Ref) (rs : List Ref) : KindMono h (extendRefs h l rs) := by
  unfold extendRefs read
  split
  · next refs hl => exact kindMono_write_outer hl _
  · exact KindMono.refl h

theorem kindMono_pushPiece (h : Heap) (s : Ref) (pc : Piece) : KindMono h (pushPiece h s pc) := by
  unfold pushPiece read
  split
  · next ps hl => exact kindMono_write_stack hl _
  · exact KindMono.refl h

theorem kindMono_setLastPiece (h : Heap) (s : Ref) (pc : Piece) : KindMono h (setLastPiece h s pc) := by
  unfold setLastPiece read
  split
  · next ps hl => exact kindMono_write_stack hl _
  · exact KindMono.refl h

/-! ### what the list methods do to the cell they target and to the others -/

/-- writing an outer list leaves every stack list as it is -/
theorem stackAt_write_outer {h : Heap} {l : Ref} {a : List Ref} (hl : h[l]? = some (.outer a)) (b : List Ref)
    (r : Ref) : stackAt (write h l (.outer b)) r = stackAt h r := by
  have hlt : l < h.length := IsOuter.lt ⟨a, hl⟩
  unfold stackAt read write
  by_cases e : l = r
  · subst e; simp only [hl]; simp [hlt]
  · simp [e]

theorem stackAt_setItem (h : Heap) (l : Ref) (i : Nat) (r r' : Ref) :
    stackAt (setItem h l i r) r' = stackAt h r' := by
  unfold setItem read
  split
  · next refs hl => exact stackAt_write_outer hl _ _
  · rfl

theorem stackAt_extendRefs (h : Heap) (l : Ref) (rs : List Ref) (r' : Ref) :
    stackAt (extendRefs h l rs) r' = stackAt h r' := by
  unfold extendRefs read
  split
  · next refs hl => exact stackAt_write_outer hl _ _
  · rfl

theorem refsAt_setItem_self {h : Heap} {l : Ref} {refs : List Ref} (hl : h[l]? = some (.outer refs))
    (i : Nat) (r : Ref) : (setItem h l i r)[l]? = some (.outer (refs.set i r)) := by
  have hlt : l < h.length := IsOuter.lt ⟨refs, hl⟩
  simp only [setItem, read, hl]; simp [write, hlt]

theorem setItem_other {h : Heap} {l r' : Ref} (hne : l ≠ r') (i : Nat) (r : Ref) :
    (setItem h l i r)[r']? = h[r']? := by
  unfold setItem
  split
  · simp [write, hne]
  · rfl

theorem extendRefs_self {h : Heap} {l : Ref} {refs : List Ref} (hl : h[l]? = some (.outer refs))
    (rs : List Ref) : (extendRefs h l rs)[l]? = some (.outer (refs ++ rs)) := by
  have hlt : l < h.length := IsOuter.lt ⟨refs, hl⟩
  simp only [extendRefs, read, hl]; simp [write, hlt]

theorem extendRefs_other {h : Heap} {l r' : Ref} (hne : l ≠ r') (rs : List Ref) :
    (extendRefs h l rs)[r']? = h[r']? := by
  unfold extendRefs
  split
  · simp [write, hne]
  · rfl

/-- stack-list methods never change an outer list -/
theorem pushPiece_outer {h : Heap} {r : Ref} {refs : List Ref} (hr : h[r]? = some (.outer refs))
    (s : Ref) (pc : Piece) : (pushPiece h s pc)[r]? = some (.outer refs) := by
  unfold pushPiece read
  split
  · next ps hs =>
    have : s ≠ r := by rintro rfl; rw [hr] at hs; cases hs
    simp [write, this, hr]
  · exact hr

theorem setLastPiece_outer {h : Heap} {r : Ref} {refs : List Ref} (hr : h[r]? = some (.outer refs))
    (s : Ref) (pc : Piece) : (setLastPiece h s pc)[r]? = some (.outer refs) := by
  unfold setLastPiece read
  split
  · next ps hs =>
    have : s ≠ r := by rintro rfl; rw [hr] at hs; cases hs
    simp [write, this, hr]
  · exact hr

/-! ### reading after growth -/

theorem stackAt_frame {h h' : Heap} (f : Frame h h') {r : Ref} (hr : r < h.length) :
    stackAt h' r = stackAt h r := by
  unfold stackAt read; rw [f r hr]

theorem refsAt_frame {h h' : Heap} (f : Frame h h') {r : Ref} (hr : r < h.length) :
    refsAt h' r = refsAt h r := by
  unfold refsAt read; rw [f r hr]

theorem stackAt_alloc_new (h : Heap) (s : Stack) : stackAt (alloc h (.stack s)).1 h.length = s := by
  simp [stackAt, read]

theorem refsAt_of {h : Heap} {r : Ref} {refs : List Ref} (hr : h[r]? = some (.outer refs)) :
    refsAt h r = refs := by simp [refsAt, read, hr]

theorem stackAt_of {h : Heap} {r : Ref} {s : Stack} (hr : h[r]? = some (.stack s)) :
    stackAt h r = s := by simp [stackAt, read, hr]

theorem hwfb_sound {h : Heap} {hp : HPos} (hb : hwfb h hp = true) : HWF h hp := by
  unfold hwfb at hb
  split at hb
  · next refs hr =>
    refine ⟨refs, hr, ?_⟩
    intro r hm
    have := List.all_eq_true.mp hb r hm
    split at this
    · next s hs => exact ⟨s, hs⟩
    · cases this
  · cases hb

/-- a well-formed position stays well-formed, and denotes the same value, in any heap that
    still holds the old cells -/
theorem HWF.frame {h h' : Heap} {hp : HPos} (w : HWF h hp) (f : Frame h h') : HWF h' hp := by
  obtain ⟨refs, hb, hall⟩ := w
  refine ⟨refs, ?_, ?_⟩
  · rw [f _ (IsOuter.lt ⟨refs, hb⟩), hb]
  · intro r hr
    obtain ⟨s, hs⟩ := hall r hr
    exact ⟨s, by rw [f _ (IsStack.lt ⟨s, hs⟩), hs]⟩

theorem boardAt_frame {h h' : Heap} {hp : HPos} (w : HWF h hp) (f : Frame h h') :
    boardAt h' hp.board = boardAt h hp.board := by
  obtain ⟨refs, hb, hall⟩ := w
  unfold boardAt
  rw [refsAt_frame f (IsOuter.lt ⟨refs, hb⟩), refsAt_of hb]
  apply List.map_congr_left
  intro r hr
  obtain ⟨s, hs⟩ := hall r hr
  exact stackAt_frame f (IsStack.lt ⟨s, hs⟩)

theorem den_frame {h h' : Heap} {hp : HPos} (w : HWF h hp) (f : Frame h h') :
    den h' hp = den h hp := by
  unfold den; rw [boardAt_frame w f]

end HeapModel
end Tak

/-
  The round-by-round closure `Spec.closure` (an executable formulation of the road
  question that shares nothing with the flood fill) marks exactly the squares reachable
  from the starting edge; hence `Spec.roadB p c = true ↔ Spec.Road p c`.
-/
import TakVerif.Lemmas.WalkPath

namespace Tak.Walk
open Impl Spec

variable (p : Pos) (c : Color) (h : Bool)

/-- the seeds of the fill for a direction -/
def seedsOf : List Cell := if h then leftSeeds p else topSeeds p

/-! ### reading marks -/

theorem length_marksOf (f : Nat → Nat → Bool) : (marksOf p f).length = p.size * p.size := by
  simp [marksOf]

theorem getD_marksOf (f : Nat → Nat → Bool) {i : Nat} (hi : i < p.size * p.size) :
    (marksOf p f).getD i false = f (i % p.size) (i / p.size) := by
  simp [marksOf, List.getD_eq_getElem?_getD, hi]

theorem marked_marksOf (f : Nat → Nat → Bool) (x y : Nat) :
    marked p (marksOf p f) x y = (decide (x < p.size) && decide (y < p.size) && f x y) := by
  unfold marked
  by_cases hx : x < p.size
  · by_cases hy : y < p.size
    · simp only [hx, hy, decide_true, Bool.true_and]
      unfold Pos.idx
      rw [getD_marksOf p f (idx_lt hx hy), idx_mod y hx, idx_div y hx]
    · simp [hy]
  · simp [hx]

theorem marked_lt {m : List Bool} {x y : Nat} (hm : marked p m x y = true) :
    x < p.size ∧ y < p.size := by
  unfold marked at hm
  simp only [Bool.and_eq_true, decide_eq_true_eq] at hm
  exact ⟨hm.1.1, hm.1.2⟩

/-- what one round marks -/
def grownAt (m : List Bool) (x y : Nat) : Bool :=
  marked p m x y ||
    (roadSqB p c x y &&
      (marked p m (x + 1) y || (decide (0 < x) && marked p m (x - 1) y) ||
       marked p m x (y + 1) || (decide (0 < y) && marked p m x (y - 1))))

theorem growMarks_eq (m : List Bool) : growMarks p c m = marksOf p (grownAt p c m) := rfl

theorem growN_succ (k : Nat) (m : List Bool) :
    growN p c (k + 1) m = growMarks p c (growN p c k m) := by
  induction k generalizing m with
  | zero => rfl
  | succ k ih => rw [growN, ih (growMarks p c m)]; rfl

/-! ### soundness: marks are reachable -/

/-- every marked square is reachable from the seeds -/
def Good (m : List Bool) : Prop :=
  ∀ x y, marked p m x y = true → Reach p c (seedsOf p h) (cast (x, y))

theorem good_start : Good p c h (startMarks p c h) := by
  intro x y hm
  unfold startMarks at hm
  rw [marked_marksOf] at hm
  simp only [Bool.and_eq_true, decide_eq_true_eq, roadSqB] at hm
  obtain ⟨⟨hx, hy⟩, hr, he⟩ := hm
  refine Reach.seed ?_ ((ok_cast p c (x, y)).2 hr)
  unfold seedsOf
  cases h with
  | true =>
    simp only [if_true] at he ⊢
    exact (cast_mem_left p (x, y)).2 ⟨by simpa using he, hy⟩
  | false =>
    simp only [Bool.false_eq_true, if_false] at he ⊢
    exact (cast_mem_top p (x, y)).2 ⟨by simpa using he, hx⟩

theorem good_grow (m : List Bool) (hg : Good p c h m) : Good p c h (growMarks p c m) := by
  intro x y hm
  rw [growMarks_eq, marked_marksOf] at hm
  unfold grownAt at hm
  simp only [Bool.and_eq_true, Bool.or_eq_true, decide_eq_true_eq, roadSqB] at hm
  obtain ⟨⟨hx, hy⟩, hm⟩ := hm
  rcases hm with hm | ⟨hr, hn⟩
  · exact hg x y hm
  · have hok := (ok_cast p c (x, y)).2 hr
    have stepFrom : ∀ a : Nat × Nat, marked p m a.1 a.2 = true → Adj a (x, y) →
        Reach p c (seedsOf p h) (cast (x, y)) := fun a ha hadj =>
      Reach.step (hg a.1 a.2 ha) ((pushed_cast a (x, y)).2 hadj) hok
    rcases hn with ((hn | ⟨h0, hn⟩) | hn) | ⟨h0, hn⟩
    · exact stepFrom (x + 1, y) hn (by unfold Adj; simp)
    · exact stepFrom (x - 1, y) hn (by unfold Adj; simp; omega)
    · exact stepFrom (x, y + 1) hn (by unfold Adj; simp)
    · exact stepFrom (x, y - 1) hn (by unfold Adj; simp; omega)

theorem good_growN (k : Nat) (m : List Bool) (hg : Good p c h m) : Good p c h (growN p c k m) := by
  induction k generalizing m with
  | zero => exact hg
  | succ k ih => exact ih _ (good_grow p c h m hg)

/-! ### the rounds reach a fix-point -/

theorem count_mono : ∀ (a b : List Bool), a.length = b.length →
    (∀ i, a.getD i false = true → b.getD i false = true) →
    a.count true ≤ b.count true ∧ (a.count true = b.count true → a = b)
  | [], [], _, _ => by simp
  | [], _ :: _, hl, _ => by simp at hl
  | _ :: _, [], hl, _ => by simp at hl
  | x :: a, y :: b, hl, hp => by
    have hl' : a.length = b.length := by simpa using hl
    have ht : ∀ i, a.getD i false = true → b.getD i false = true := fun i hi => by
      have := hp (i + 1)
      simp only [List.getD_cons_succ] at this
      exact this hi
    have h0 := hp 0
    simp only [List.getD_cons_zero] at h0
    obtain ⟨ih1, ih2⟩ := count_mono a b hl' ht
    cases x <;> cases y
    · simp only [List.count_cons]
      simp only [beq_iff_eq, Bool.false_eq_true, if_false, Nat.add_zero]
      exact ⟨ih1, fun e => by rw [ih2 e]⟩
    · simp only [List.count_cons, beq_iff_eq, Bool.false_eq_true, if_false, Nat.add_zero, if_true]
      exact ⟨by omega, fun e => by omega⟩
    · exact absurd (h0 rfl) (by simp)
    · simp only [List.count_cons, beq_iff_eq, if_true]
      exact ⟨by omega, fun e => by rw [ih2 (by omega)]⟩

theorem length_growMarks (m : List Bool) : (growMarks p c m).length = p.size * p.size :=
  length_marksOf p _

theorem length_startMarks : (startMarks p c h).length = p.size * p.size := length_marksOf p _

theorem length_growN (k : Nat) (m : List Bool) (hm : m.length = p.size * p.size) :
    (growN p c k m).length = p.size * p.size := by
  induction k generalizing m with
  | zero => exact hm
  | succ k ih => exact ih _ (length_growMarks p c m)

/-- a round never removes a mark -/
theorem grow_mono (m : List Bool) (hm : m.length = p.size * p.size) (i : Nat)
    (hi : m.getD i false = true) : (growMarks p c m).getD i false = true := by
  have hlt : i < p.size * p.size := by
    by_cases hlt : i < m.length
    · omega
    · rw [List.getD_eq_getElem?_getD, List.getElem?_eq_none (by omega)] at hi
      simp at hi
  obtain ⟨hx, hy, he⟩ := idx_decomp hlt
  rw [growMarks_eq, getD_marksOf p _ hlt]
  unfold grownAt marked Pos.idx
  rw [Bool.or_eq_true]
  left
  simp only [hx, hy, he, decide_true, Bool.true_and]
  exact hi

/-- after `k` rounds either at least `k` squares are marked or a fix-point has been reached -/
theorem rounds (m : List Bool) (hm : m.length = p.size * p.size) : ∀ k : Nat,
    k ≤ (growN p c k m).count true ∨ growMarks p c (growN p c k m) = growN p c k m
  | 0 => Or.inl (Nat.zero_le _)
  | k + 1 => by
    rw [growN_succ]
    have hlen := length_growN p c k m hm
    by_cases hfix : growMarks p c (growN p c k m) = growN p c k m
    · right; rw [hfix, hfix]
    · left
      have hk : k ≤ (growN p c k m).count true := by
        rcases rounds m hm k with h1 | h1
        · exact h1
        · exact absurd h1 hfix
      obtain ⟨hle, heq⟩ := count_mono (growN p c k m) (growMarks p c (growN p c k m))
        (by rw [hlen, length_growMarks]) (grow_mono p c _ hlen)
      have : (growN p c k m).count true ≠ (growMarks p c (growN p c k m)).count true :=
        fun e => hfix (heq e).symm
      omega

/-- the closure is a fix-point of a round -/
theorem closure_fix : growMarks p c (closure p c h) = closure p c h := by
  unfold closure
  have hm := length_startMarks p c h
  have hlen := length_growN p c (p.size * p.size) _ hm
  rcases rounds p c _ hm (p.size * p.size) with h1 | h1
  · obtain ⟨hle, heq⟩ := count_mono _ (growMarks p c (growN p c (p.size * p.size) (startMarks p c h)))
      (by rw [hlen, length_growMarks]) (grow_mono p c _ hlen)
    have hub : (growMarks p c (growN p c (p.size * p.size) (startMarks p c h))).count true
        ≤ p.size * p.size := by
      exact Nat.le_trans List.count_le_length (Nat.le_of_eq (length_growMarks p c _))
    exact (heq (by omega)).symm
  · exact h1

theorem marked_growN_mono (k : Nat) (m : List Bool) (hm : m.length = p.size * p.size) (x y : Nat)
    (hxy : marked p m x y = true) : marked p (growN p c k m) x y = true := by
  induction k generalizing m with
  | zero => exact hxy
  | succ k ih =>
    apply ih _ (length_growMarks p c m)
    rw [growMarks_eq, marked_marksOf]
    obtain ⟨hx, hy⟩ := marked_lt p hxy
    unfold grownAt
    simp [hx, hy, hxy]

/-! ### completeness: everything reachable is marked -/

theorem closure_complete {j : Cell} (hr : Reach p c (seedsOf p h) j) :
    ∀ a : Nat × Nat, j = cast a → marked p (closure p c h) a.1 a.2 = true := by
  induction hr with
  | @seed j hs hok =>
    intro a ha
    subst ha
    have hroad := (ok_cast p c a).1 hok
    unfold closure
    apply marked_growN_mono p c _ _ (length_startMarks p c h)
    unfold startMarks
    rw [marked_marksOf]
    unfold seedsOf at hs
    cases h with
    | true =>
      simp only [if_true] at hs
      have := (cast_mem_left p a).1 hs
      simp only [Bool.and_eq_true, decide_eq_true_eq, roadSqB, if_true]
      exact ⟨⟨hroad.1, hroad.2.1⟩, hroad, by simpa using this.1⟩
    | false =>
      simp only [Bool.false_eq_true, if_false] at hs
      have := (cast_mem_top p a).1 hs
      simp only [Bool.and_eq_true, decide_eq_true_eq, roadSqB, Bool.false_eq_true, if_false]
      exact ⟨⟨hroad.1, hroad.2.1⟩, hroad, by simpa using this.1⟩
  | @step i j hi hji hok ih =>
    intro b hb
    subst hb
    obtain ⟨a, rfl⟩ := ok_is_cast p c (Reach.ok p c hi)
    have ha := ih a rfl
    have hadj : Adj a b := (pushed_cast a b).1 hji
    have hroad := (ok_cast p c b).1 hok
    rw [← closure_fix, growMarks_eq, marked_marksOf]
    obtain ⟨a1, a2⟩ := a
    obtain ⟨b1, b2⟩ := b
    unfold grownAt
    simp only [roadSqB, hroad, hroad.1, hroad.2.1, decide_true, Bool.true_and]
    unfold Adj at hadj
    simp only at hadj ha
    rcases hadj with ⟨e1, e2 | e2⟩ | ⟨e1, e2 | e2⟩
    · -- a is below b
      have e : a2 = b2 - 1 := by omega
      subst e1; subst e
      have : 0 < b2 := by omega
      simp [ha, this]
    · subst e1; subst e2
      simp [ha]
    · have e : a1 = b1 - 1 := by omega
      subst e1; subst e
      have : 0 < b1 := by omega
      simp [ha, this]
    · subst e1; subst e2
      simp [ha]

/-! ### the boolean road question -/

theorem spansB_iff :
    spansB p c h = true ↔ ∃ j, Reach p c (seedsOf p h) j ∧ goal p h j = true := by
  unfold spansB
  simp only [List.any_eq_true, List.mem_range, Bool.and_eq_true]
  have hgood : Good p c h (closure p c h) :=
    good_growN p c h _ _ (good_start p c h)
  constructor
  · rintro ⟨i, hi, hm, he⟩
    obtain ⟨hx, hy, hxy⟩ := idx_decomp hi
    refine ⟨cast (i % p.size, i / p.size), hgood _ _ ?_, ?_⟩
    · unfold marked Pos.idx
      simp only [hx, hy, hxy, decide_true, Bool.true_and]
      exact hm
    · cases h with
      | true =>
        simp only [if_true] at he
        exact (goal_cast_h p _).2 (by simpa using he)
      | false =>
        simp only [Bool.false_eq_true, if_false] at he
        exact (goal_cast_v p _).2 (by simpa using he)
  · rintro ⟨j, hr, hg⟩
    obtain ⟨a, rfl⟩ := ok_is_cast p c (Reach.ok p c hr)
    have hm := closure_complete p c h hr a rfl
    obtain ⟨hx, hy⟩ := marked_lt p hm
    refine ⟨a.1 + a.2 * p.size, idx_lt hx hy, ?_, ?_⟩
    · unfold marked Pos.idx at hm
      simpa [hx, hy] using hm
    · rw [idx_mod _ hx, idx_div _ hx]
      cases h with
      | true =>
        simp only [if_true]
        simpa using (goal_cast_h p a).1 hg
      | false =>
        simp only [Bool.false_eq_true, if_false]
        simpa using (goal_cast_v p a).1 hg

/-- the closure answers exactly as the flood fill does, direction by direction -/
theorem spansB_eq_walk_left : spansB p c true = walkFrom p (leftSeeds p) c true := by
  rw [Bool.eq_iff_iff, spansB_iff, walkFrom_iff]; rfl

theorem spansB_eq_walk_top : spansB p c false = walkFrom p (topSeeds p) c false := by
  rw [Bool.eq_iff_iff, spansB_iff, walkFrom_iff]; rfl

theorem roadB_iff_road : roadB p c = true ↔ Road p c := by
  unfold roadB
  rw [spansB_eq_walk_left, spansB_eq_walk_top]
  exact walks_iff_road p c

/-- `Road` is decidable: by the theorem above, evaluate the closure -/
instance decRoad (p : Pos) (c : Color) : Decidable (Road p c) :=
  decidable_of_iff _ (roadB_iff_road p c)

end Tak.Walk

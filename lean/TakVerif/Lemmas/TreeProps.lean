/-
  Helper lemmas for Props/C08.lean and Props/C09.lean: the budget loop, `Node.All` monotonicity,
  sums of absolute values.
-/
import TakVerif.Lemmas.TreeInv
import Mathlib.Algebra.Order.Ring.Abs
import Mathlib.Algebra.Order.BigOperators.Group.List

namespace Tak
namespace Tree

theorem analyzeLoop_spec (h01 : C01Hyp) (cfg : Cfg) (tol : Tol) (hp : 0 ≤ tol.ptol) (hv : 0 ≤ tol.vtol)
    (n : Nat) (hn : 0 < n) :
    ∀ (fuel : Nat) (t : Node) (choices : List Nat) (answers : List Answer) (t' : Node),
      TreeInv cfg tol t → analyzeLoop cfg n fuel t choices answers = some t' → n ≤ t.sims + fuel →
      TreeInv cfg tol t' ∧ t'.sims = max n t.sims ∧ t'.position = t.position ∧ t'.move = t.move := by
  intro fuel
  induction fuel with
  | zero =>
    intro t choices answers t' hinv h hle
    unfold analyzeLoop at h
    by_cases hstop : 0 < n ∧ n ≤ t.sims
    · rw [if_pos hstop] at h
      cases h
      exact ⟨hinv, (Nat.max_eq_right hstop.2).symm, rfl, rfl⟩
    · rw [if_neg hstop] at h; cases h
  | succ fuel ih =>
    intro t choices answers t' hinv h hle
    unfold analyzeLoop at h
    by_cases hstop : 0 < n ∧ n ≤ t.sims
    · rw [if_pos hstop] at h
      cases h
      exact ⟨hinv, (Nat.max_eq_right hstop.2).symm, rfl, rfl⟩
    · rw [if_neg hstop] at h
      simp only at h
      cases hs : simulate cfg choices answers t with
      | none => rw [hs] at h; cases h
      | some r =>
        obtain ⟨t1, ch1, as1⟩ := r
        rw [hs] at h
        simp only at h
        obtain ⟨hinv1, hs1, hp1, hm1⟩ := simulate_spec h01 cfg tol hp hv choices answers t _ hinv hs
        simp only at hinv1 hs1 hp1 hm1
        obtain ⟨a, b, c, d⟩ := ih t1 ch1 as1 t' hinv1 h (by omega)
        refine ⟨a, ?_, by rw [c, hp1], by rw [d, hm1]⟩
        rw [b, hs1]
        have : t.sims < n := by
          rcases Nat.lt_or_ge t.sims n with h | h
          · exact h
          · exact absurd ⟨hn, h⟩ hstop
        omega

theorem Node.All.imp {P Q : Node → Prop} (hpq : ∀ n, P n → Q n) {t : Node} (h : t.All P) : t.All Q := by
  induction h with
  | mk t h1 _ ih => exact Node.All.mk t (hpq t h1) ih

theorem sum_div {l : List Rat} (s : Rat) : (l.map (· / s)).sum = l.sum / s := by
  induction l with
  | nil => simp
  | cons a r ih => simp only [List.map_cons, List.sum_cons, ih]; ring

theorem abs_sum_le_of_forall (cs : List Node) (h : ∀ c ∈ cs, |c.value| ≤ (c.sims : Rat)) :
    |(cs.map (·.value)).sum| ≤ (((cs.map (·.sims)).sum : Nat) : Rat) := by
  induction cs with
  | nil => simp
  | cons a r ih =>
    simp only [List.map_cons, List.sum_cons]
    have h1 := h a List.mem_cons_self
    have h2 := ih (fun c hc => h c (List.mem_cons_of_mem _ hc))
    push_cast at h2 ⊢
    exact le_trans (abs_add_le _ _) (by linarith)

theorem abs_outcomeValue_le (c : Color) (w : Option Color) : |outcomeValue c w| ≤ 1 := by
  unfold outcomeValue
  cases w with
  | none => simp
  | some d => by_cases h : d = c <;> simp [h, abs_one]


theorem qOf_visited (t c : Node) (h : 0 < c.sims) : qOf t c = -c.value / (c.sims : Rat) := by
  unfold qOf; rw [if_pos h]

theorem qOf_unvisited (t c : Node) (h : c.sims = 0) : qOf t c = t.v0 := by
  unfold qOf; rw [if_neg (by omega)]

/-! ### progress: when one simulation returns -/

/-- The oracle streams suffice for one simulation from `t`: the sampler names an existing child at
    every expanded node on the way down, and if the leaf reached is not a finished game the
    evaluator has an answer (with a noise draw when the leaf is the root and root noise is on). -/
def Feeds (cfg : Cfg) : Bool → List Nat → List Answer → Node → Prop
  | isRoot, [], answers, t =>
    match t.children with
    | none => cfg.outcome t.position = none →
        ∃ a rest, answers = a :: rest ∧ (isRoot = true → cfg.noise = true → a.noise.isSome = true)
    | some _ => False
  | isRoot, c :: rest, answers, t =>
    match t.children with
    | none => cfg.outcome t.position = none →
        ∃ a rest, answers = a :: rest ∧ (isRoot = true → cfg.noise = true → a.noise.isSome = true)
    | some cs => ∃ ch, cs[c]? = some ch ∧ Feeds cfg false rest answers ch

theorem populate_isSome (h01 : C01Hyp) (cfg : Cfg) (isRoot : Bool) (answers : List Answer) (t : Node)
    (hwf : t.position.WF)
    (h : cfg.outcome t.position = none →
      ∃ a rest, answers = a :: rest ∧ (isRoot = true → cfg.noise = true → a.noise.isSome = true)) :
    (populate cfg isRoot answers t).isSome = true := by
  cases ho : cfg.outcome t.position with
  | some w => rw [populate_terminal cfg isRoot answers t w ho]; rfl
  | none =>
    obtain ⟨a, rest, rfl, hn⟩ := h ho
    unfold populate
    rw [ho]
    simp only
    have he : ∃ eff, effective cfg isRoot a (cfg.table t.position.size).length = some eff := by
      unfold effective
      cases hb : (isRoot && cfg.noise) with
      | false => exact ⟨_, rfl⟩
      | true =>
        simp only [Bool.and_eq_true] at hb
        have := hn hb.1 hb.2
        cases hz : a.noise with
        | none => rw [hz] at this; cases this
        | some nz => exact ⟨_, rfl⟩
    obtain ⟨eff, he⟩ := he
    rw [he]
    simp only
    rw [expand_eq h01 hwf]
    rfl

theorem simRec_isSome (h01 : C01Hyp) (cfg : Cfg) (tol : Tol) :
    ∀ (choices : List Nat) (isRoot : Bool) (answers : List Answer) (t : Node),
      TreeInv cfg tol t → Feeds cfg isRoot choices answers t →
      (simRec cfg isRoot choices answers t).isSome = true := by
  have hwf : ∀ t : Node, TreeInv cfg tol t → t.position.WF := by
    intro t h
    have := h.here
    unfold Local at this
    exact this.1
  have leaf : ∀ (isRoot : Bool) (answers : List Answer) (t : Node), TreeInv cfg tol t →
      (cfg.outcome t.position = none →
        ∃ a rest, answers = a :: rest ∧ (isRoot = true → cfg.noise = true → a.noise.isSome = true)) →
      (leafStep cfg isRoot answers t).isSome = true := by
    intro isRoot answers t hinv h
    have := populate_isSome h01 cfg isRoot answers t (hwf t hinv) h
    unfold leafStep
    cases hp : populate cfg isRoot answers t with
    | none => rw [hp] at this; cases this
    | some r => rfl
  intro choices
  induction choices with
  | nil =>
    intro isRoot answers t hinv hf
    unfold Feeds at hf
    unfold simRec
    cases hc : t.children with
    | some cs => rw [hc] at hf; exact absurd hf id
    | none =>
      rw [hc] at hf
      simp only [Option.isSome_map]
      exact leaf isRoot answers t hinv hf
  | cons c rest ih =>
    intro isRoot answers t hinv hf
    unfold Feeds at hf
    unfold simRec
    cases hc : t.children with
    | none =>
      rw [hc] at hf
      simp only [Option.isSome_map]
      exact leaf isRoot answers t hinv hf
    | some cs =>
      rw [hc] at hf
      obtain ⟨ch, hch, hf'⟩ := hf
      simp only [hch, Option.isSome_map]
      exact ih false answers ch (hinv.child hc (List.mem_of_getElem? hch)) hf'

end Tree
end Tak

/-
  `parseMove` accepts exactly moves of `Move8`, never crashes, and inverts `formatMove` on `Move8`.
-/
import TakVerif.Lemmas.PTNMove

namespace Tak.C14
open Tak Tak.PTN

/-- the crash branches of `semantic` (KeyError of the two dictionaries, TypeError of `sum(None)`)
    are unreachable for groups that came out of the pattern -/
theorem semantic_cases (g : Groups)
    (hst : ∀ c, g.stone = some c → isStone c = true) (hpk : ∀ c, g.pickup = some c → isCount c = true)
    (hf : isFile g.file = true) (hr : isCount g.rank = true) (hd : ∀ c, g.dir = some c → isDir c = true)
    (hdr : ∀ c ∈ g.drops, isCount c = true) :
    semantic g = .error .badMove ∨ ∃ m, semantic g = .ok m ∧ Move8 m := by
  obtain ⟨stone, pickup, file, rank, dir, drops, trail⟩ := g
  simp only at hst hpk hf hr hd hdr
  have hx := file_range hf
  have hy := count_range hr
  cases dir with
  | none =>
    obtain ⟨t, ht, hns⟩ := placeMap_stone hst
    cases pickup with
    | some p => left; simp [semantic]
    | none =>
      cases drops with
      | cons c cs => left; simp [semantic, typeOf, ht]
      | nil =>
        right
        refine ⟨⟨(file.toNat : Int) - 97, (rank.toNat : Int) - 49, t, none⟩, ?_, ?_⟩
        · simp [semantic, typeOf, ht, truthy]
        · simp [Move8, hns]; omega
  | some d =>
    obtain ⟨t, ht, hsl⟩ := slideMap_dir (hd d rfl)
    cases drops with
    | nil =>
      cases pickup with
      | none =>
        right
        refine ⟨⟨(file.toNat : Int) - 97, (rank.toNat : Int) - 49, t, some [1]⟩, ?_, ?_⟩
        · simp [semantic, typeOf, ht, truthy, sumSlides, digitVal]
        · simp [Move8, hsl]; omega
      | some p =>
        have hp := count_range (hpk p rfl)
        right
        refine ⟨⟨(file.toNat : Int) - 97, (rank.toNat : Int) - 49, t, some [digitVal p]⟩, ?_, ?_⟩
        · simp [semantic, typeOf, ht, truthy, sumSlides]
          omega
        · simp [Move8, hsl]; omega
    | cons c cs =>
      have hds := sum_map_digitVal_pos (c :: cs) hdr
      by_cases hsum : ((c :: cs).map digitVal).sum ≤ 8
      · cases pickup with
        | none =>
          right
          refine ⟨⟨(file.toNat : Int) - 97, (rank.toNat : Int) - 49, t, some ((c :: cs).map digitVal)⟩, ?_, ?_⟩
          · simp only [List.map_cons, List.sum_cons] at hsum
            simp [semantic, typeOf, ht, truthy, sumSlides]
            omega
          · simp only [Move8, hsl, if_true]
            exact ⟨hx.1, hx.2, hy.1, hy.2.1, _, rfl, by simp, hds, hsum⟩
        | some p =>
          by_cases hps : digitVal p = ((c :: cs).map digitVal).sum
          · right
            refine ⟨⟨(file.toNat : Int) - 97, (rank.toNat : Int) - 49, t, some ((c :: cs).map digitVal)⟩, ?_, ?_⟩
            · simp only [List.map_cons, List.sum_cons] at hsum hps
              simp [semantic, typeOf, ht, truthy, sumSlides, hps]
              omega
            · simp only [Move8, hsl, if_true]
              exact ⟨hx.1, hx.2, hy.1, hy.2.1, _, rfl, by simp, hds, hsum⟩
          · left
            simp only [List.map_cons, List.sum_cons] at hsum hps
            simp [semantic, typeOf, ht, truthy, sumSlides, hps]
      · left
        simp only [List.map_cons, List.sum_cons] at hsum
        cases pickup with
        | none =>
          simp [semantic, typeOf, ht, truthy, sumSlides]
          omega
        | some p =>
          simp [semantic, typeOf, ht, truthy, sumSlides]
          omega

theorem parseMove_cases (t : List Char) :
    parseMove t = .error .badMove ∨ ∃ m, parseMove t = .ok m ∧ Move8 m := by
  unfold parseMove
  cases hm : matchMove t with
  | none => left; rfl
  | some g =>
    obtain ⟨_, h1, h2, h3, h4, h5, h6, _⟩ := matchMove_spec hm
    exact semantic_cases g h1 h2 h3 h4 h5 h6

/-! ### the accepting branches of `semantic`, one by one -/

theorem semantic_place (stone trail : Option Char) (file rank : Char) (t : MoveType)
    (ht : placeMap stone = some t) :
    semantic ⟨stone, none, file, rank, none, [], trail⟩
      = .ok ⟨(file.toNat : Int) - 97, (rank.toNat : Int) - 49, t, none⟩ := by
  simp [semantic, typeOf, ht, truthy]

theorem semantic_slide_bare (stone trail : Option Char) (file rank d : Char) (t : MoveType)
    (ht : slideMap d = some t) :
    semantic ⟨stone, none, file, rank, some d, [], trail⟩
      = .ok ⟨(file.toNat : Int) - 97, (rank.toNat : Int) - 49, t, some [1]⟩ := by
  simp [semantic, typeOf, ht, truthy, sumSlides, digitVal]

theorem semantic_slide_count (stone trail : Option Char) (file rank d p : Char) (t : MoveType)
    (ht : slideMap d = some t) (hp : digitVal p ≤ 8) :
    semantic ⟨stone, some p, file, rank, some d, [], trail⟩
      = .ok ⟨(file.toNat : Int) - 97, (rank.toNat : Int) - 49, t, some [digitVal p]⟩ := by
  simp [semantic, typeOf, ht, truthy, sumSlides]
  omega

theorem semantic_slide_drops (stone trail : Option Char) (file rank d : Char) (pk : Option Char)
    (drops : List Char) (t : MoveType) (ht : slideMap d = some t) (hne : drops ≠ [])
    (hsum : (drops.map digitVal).sum ≤ 8) (hp : ∀ p, pk = some p → digitVal p = (drops.map digitVal).sum) :
    semantic ⟨stone, pk, file, rank, some d, drops, trail⟩
      = .ok ⟨(file.toNat : Int) - 97, (rank.toNat : Int) - 49, t, some (drops.map digitVal)⟩ := by
  cases drops with
  | nil => exact absurd rfl hne
  | cons c cs =>
    cases pk with
    | none =>
      simp only [List.map_cons, List.sum_cons] at hsum
      simp [semantic, typeOf, ht, truthy, sumSlides]
      omega
    | some p =>
      have hp := hp p rfl
      simp only [List.map_cons, List.sum_cons] at hsum hp
      simp [semantic, typeOf, ht, truthy, sumSlides, hp]
      omega

/-! ### `parse_move (format_move m) = m` -/

theorem placeR_slide {t : MoveType} (h : t.isSlide = true) : placeR t = [] := by
  cases t <;> simp [MoveType.isSlide] at h <;> rfl

theorem parse_format_place (x y : Int) (t : MoveType) (st : Option Char)
    (hx0 : 0 ≤ x) (hx7 : x ≤ 7) (hy0 : 0 ≤ y) (hy7 : y ≤ 7)
    (hR : placeR t = st.toList) (hst : ∀ c, st = some c → isStone c = true) (hmap : placeMap st = some t)
    (hns : t.isSlide = false) :
    parseMove (formatMove ⟨x, y, t, none⟩) = .ok ⟨x, y, t, none⟩ := by
  obtain ⟨hf, hfx⟩ := file_coord x hx0 hx7
  obtain ⟨hr, hry⟩ := rank_coord y hy0 hy7
  have e : formatMove ⟨x, y, t, none⟩ = st.toList ++ ((none : Option Char).toList ++
      (chrOff 97 x :: chrOff 49 y :: ((none : Option Char).toList ++ ([] ++ (none : Option Char).toList)))) := by
    simp [formatMove, hR, hns]
  rw [parseMove, e, matchMove_build st none _ _ none [] none hst (by simp) hf hr (by simp) (by simp) (by simp)]
  simp only [semantic_place _ _ _ _ t hmap, hfx, hry]

theorem parse_format_slide (x y : Int) (t : MoveType) (dc : Char) (ds : List Int)
    (hx0 : 0 ≤ x) (hx7 : x ≤ 7) (hy0 : 0 ≤ y) (hy7 : y ≤ 7)
    (hR : slideR t = [dc]) (hdir : isDir dc = true) (hmap : slideMap dc = some t) (hsl : t.isSlide = true)
    (hne : ds ≠ []) (hrange : ∀ d ∈ ds, 1 ≤ d ∧ d ≤ 8) (hsum : ds.sum ≤ 8) :
    parseMove (formatMove ⟨x, y, t, some ds⟩) = .ok ⟨x, y, t, some ds⟩ := by
  obtain ⟨hf, hfx⟩ := file_coord x hx0 hx7
  obtain ⟨hr, hry⟩ := rank_coord y hy0 hy7
  have hP := placeR_slide hsl
  have hlen := sum_ge_length ds (fun d hd => (hrange d hd).1)
  cases ds with
  | nil => exact absurd rfl hne
  | cons a rest =>
  cases rest with
  | nil =>
    have ha := hrange a (by simp)
    obtain ⟨hac, hav, hastr⟩ := drop_digit a ha.1 ha.2
    by_cases h1 : a = 1
    · subst h1
      have e : formatMove ⟨x, y, t, some [1]⟩ = (none : Option Char).toList ++ ((none : Option Char).toList ++
          (chrOff 97 x :: chrOff 49 y :: ((some dc).toList ++ ([] ++ (none : Option Char).toList)))) := by
        simp [formatMove, hP, hsl, hR]
      rw [parseMove, e, matchMove_build none none _ _ (some dc) [] none (by simp) (by simp) hf hr
        (by intro c hc; cases hc; exact hdir) (by simp) (by simp)]
      simp only [semantic_slide_bare _ _ _ _ _ t hmap, hfx, hry]
    · have e : formatMove ⟨x, y, t, some [a]⟩ = (none : Option Char).toList ++ ((some (chrOff 48 a)).toList ++
          (chrOff 97 x :: chrOff 49 y :: ((some dc).toList ++ ([] ++ (none : Option Char).toList)))) := by
        simp [formatMove, hP, hsl, hR, h1, hastr]
      rw [parseMove, e, matchMove_build none (some (chrOff 48 a)) _ _ (some dc) [] none (by simp)
        (by intro c hc; cases hc; exact hac) hf hr
        (by intro c hc; cases hc; exact hdir) (by simp) (by simp)]
      show semantic _ = _
      rw [semantic_slide_count _ _ _ _ _ _ t hmap (by rw [hav]; exact ha.2), hfx, hry, hav]
  | cons b rest' =>
    have h2 : 2 ≤ (a :: b :: rest').sum := by
      simp only [List.length_cons] at hlen
      omega
    obtain ⟨hsc, hsv, hsstr⟩ := drop_digit _ (by omega : 1 ≤ (a :: b :: rest').sum) hsum
    have hdrops : ∀ c ∈ (a :: b :: rest').map (chrOff 48), isCount c = true := by
      intro c hc
      obtain ⟨d, hd, rfl⟩ := List.mem_map.1 hc
      exact (drop_digit d (hrange d hd).1 (hrange d hd).2).1
    have hback := map_digit_roundtrip (a :: b :: rest') hrange
    have e : formatMove ⟨x, y, t, some (a :: b :: rest')⟩ = (none : Option Char).toList ++
        ((some (chrOff 48 (a :: b :: rest').sum)).toList ++
          (chrOff 97 x :: chrOff 49 y :: ((some dc).toList ++ ((a :: b :: rest').map (chrOff 48) ++ (none : Option Char).toList)))) := by
      have hne1 : (a :: b :: rest').sum ≠ 1 := by omega
      simp only [formatMove, hP, hsl, hR, Option.getD_some, if_true, hsstr, hne1, ne_eq, not_false_eq_true]
      simp
    rw [parseMove, e, matchMove_build none (some (chrOff 48 (a :: b :: rest').sum)) _ _ (some dc) _ none (by simp)
      (by intro c hc; cases hc; exact hsc) hf hr
      (by intro c hc; cases hc; exact hdir) hdrops (by simp)]
    show semantic _ = _
    rw [semantic_slide_drops _ _ _ _ _ _ _ t hmap (by rw [List.map_cons]; exact List.cons_ne_nil _ _) (by rw [hback]; exact hsum)
      (by intro p hp; cases hp; rw [hback, hsv]), hfx, hry, hback]

theorem parse_format (m : Move) (h : Move8 m) : parseMove (formatMove m) = .ok m := by
  obtain ⟨x, y, t, sl⟩ := m
  obtain ⟨hx0, hx7, hy0, hy7, hs⟩ := h
  simp only at hx0 hx7 hy0 hy7 hs
  cases t with
  | placeFlat =>
    simp only [MoveType.isSlide] at hs; simp at hs; subst hs
    exact parse_format_place x y _ none hx0 hx7 hy0 hy7 rfl (by simp) rfl rfl
  | placeStanding =>
    simp only [MoveType.isSlide] at hs; simp at hs; subst hs
    exact parse_format_place x y _ (some 'S') hx0 hx7 hy0 hy7 rfl (by intro c hc; cases hc; decide) rfl rfl
  | placeCap =>
    simp only [MoveType.isSlide] at hs; simp at hs; subst hs
    exact parse_format_place x y _ (some 'C') hx0 hx7 hy0 hy7 rfl (by intro c hc; cases hc; decide) rfl rfl
  | left =>
    simp only [MoveType.isSlide, if_true] at hs
    obtain ⟨ds, rfl, hne, hr, hsum⟩ := hs
    exact parse_format_slide x y _ '<' ds hx0 hx7 hy0 hy7 rfl (by decide) rfl rfl hne hr hsum
  | right =>
    simp only [MoveType.isSlide, if_true] at hs
    obtain ⟨ds, rfl, hne, hr, hsum⟩ := hs
    exact parse_format_slide x y _ '>' ds hx0 hx7 hy0 hy7 rfl (by decide) rfl rfl hne hr hsum
  | up =>
    simp only [MoveType.isSlide, if_true] at hs
    obtain ⟨ds, rfl, hne, hr, hsum⟩ := hs
    exact parse_format_slide x y _ '+' ds hx0 hx7 hy0 hy7 rfl (by decide) rfl rfl hne hr hsum
  | down =>
    simp only [MoveType.isSlide, if_true] at hs
    obtain ⟨ds, rfl, hne, hr, hsum⟩ := hs
    exact parse_format_slide x y _ '-' ds hx0 hx7 hy0 hy7 rfl (by decide) rfl rfl hne hr hsum

end Tak.C14

/-
  The outcome only looks at a three-part view of every square: is it empty, who owns its
  top piece if that is a flat or a capstone, who owns it if it is a flat.
-/
import TakVerif.Lemmas.WalkPath

namespace Tak.Walk
open Impl Spec

/-- colour of the top piece when it is a flat or a capstone -/
def roadOwner (s : Stack) : Option Color :=
  match s with
  | ⟨c, .flat⟩ :: _ => some c
  | ⟨c, .cap⟩ :: _ => some c
  | _ => none

/-- colour of the top piece when it is a flat -/
def flatOwner (s : Stack) : Option Color :=
  match s with
  | ⟨c, .flat⟩ :: _ => some c
  | _ => none

/-- everything adjudication reads off one square -/
def sqView (s : Stack) : Bool × Option Color × Option Color := (s.isEmpty, roadOwner s, flatOwner s)

/-- the views of all squares, in board order -/
def views (p : Pos) : List (Bool × Option Color × Option Color) := p.board.map sqView

theorem getD_map_comm {α β : Type} (f : α → β) (l : List α) (i : Nat) (d : α) :
    (l.map f).getD i (f d) = f (l.getD i d) := by
  simp only [List.getD_eq_getElem?_getD, List.getElem?_map]
  cases l[i]? <;> rfl

theorem sqView_sq (p : Pos) (x y : Nat) : sqView (p.sq x y) = (views p).getD (p.idx x y) (sqView []) := by
  unfold views Pos.sq
  rw [getD_map_comm]

theorem roadSq_iff_view (p : Pos) (c : Color) (x y : Nat) :
    RoadSq p c x y ↔ x < p.size ∧ y < p.size ∧ (sqView (p.sq x y)).2.1 = some c := by
  unfold RoadSq Spec.top sqView roadOwner
  cases p.sq x y with
  | nil => simp
  | cons pc rest =>
    obtain ⟨col, k⟩ := pc
    cases col <;> cases k <;> cases c <;> simp

theorem roadSq_congr {p q : Pos} (hs : p.size = q.size) (hv : views p = views q) (c : Color)
    (x y : Nat) : RoadSq p c x y ↔ RoadSq q c x y := by
  rw [roadSq_iff_view, roadSq_iff_view, sqView_sq, sqView_sq, hv, hs]
  unfold Pos.idx
  rw [hs]

theorem chain_congr {p q : Pos} (hs : p.size = q.size) (hv : views p = views q) (c : Color)
    (path : List (Nat × Nat)) (a b : Nat × Nat) : Chain p c path a b ↔ Chain q c path a b := by
  unfold Chain
  constructor
  · rintro ⟨h1, h2⟩
    exact ⟨fun cell hc => (roadSq_congr hs hv c _ _).1 (h1 cell hc), h2⟩
  · rintro ⟨h1, h2⟩
    exact ⟨fun cell hc => (roadSq_congr hs hv c _ _).2 (h1 cell hc), h2⟩

theorem road_congr {p q : Pos} (hs : p.size = q.size) (hv : views p = views q) (c : Color) :
    Road p c ↔ Road q c := by
  unfold Road
  constructor
  · rintro ⟨path, a, b, hc, he⟩
    exact ⟨path, a, b, (chain_congr hs hv c path a b).1 hc, hs ▸ he⟩
  · rintro ⟨path, a, b, hc, he⟩
    exact ⟨path, a, b, (chain_congr hs hv c path a b).2 hc, hs ▸ he⟩

theorem topFlats_view (p : Pos) (c : Color) :
    topFlats p c = (views p).countP fun v => v.2.2 == some c := by
  unfold topFlats views
  rw [List.countP_map]
  congr 1
  funext s
  unfold sqView flatOwner
  cases s with
  | nil => simp
  | cons pc rest =>
    obtain ⟨col, k⟩ := pc
    cases col <;> cases k <;> cases c <;> first | rfl | simp

theorem boardFull_view (p : Pos) : BoardFull p ↔ ∀ v ∈ views p, v.1 = false := by
  unfold BoardFull views sqView
  simp only [List.mem_map, forall_exists_index, and_imp]
  constructor
  · intro h v s hs hv
    subst hv
    have := h s hs
    cases s with
    | nil => exact absurd rfl this
    | cons _ _ => rfl
  · intro h s hs he
    subst he
    have := h _ [] hs rfl
    simp at this

theorem flatResult_congr {p q : Pos} (hv : views p = views q) : flatResult p = flatResult q := by
  unfold flatResult
  simp only [topFlats_view, hv]

theorem boardFull_congr {p q : Pos} (hv : views p = views q) : BoardFull p ↔ BoardFull q := by
  rw [boardFull_view, boardFull_view, hv]

/-- squares with the same top piece have the same view -/
theorem views_of_tops {p q : Pos} (h : p.board.map List.head? = q.board.map List.head?) :
    views p = views q := by
  have key : ∀ s : Stack, sqView s = (s.head?.isNone, roadOwner (s.head?.toList), flatOwner (s.head?.toList)) := by
    intro s
    cases s with
    | nil => rfl
    | cons pc rest =>
      obtain ⟨col, k⟩ := pc
      cases col <;> cases k <;> rfl
  unfold views
  have e : ∀ b : List Stack, b.map sqView =
      (b.map List.head?).map fun t => (t.isNone, roadOwner t.toList, flatOwner t.toList) := by
    intro b
    rw [List.map_map]
    apply List.map_congr_left
    intro s _
    exact key s
  rw [e, e, h]

end Tak.Walk

/-
  C10: the declarative side — what "meets the contract" means (`Meets`), the Lipschitz-type
  constant `Lip`, the inputs of the non-vacuity examples, and small list lemmas used by
  `Props/C10.lean`.  Any linearly ordered field.
-/
import Mathlib.Algebra.Order.Field.Rat
import Mathlib.Algebra.BigOperators.Fin
import TakVerif.Lemmas.SolverLoop

set_option linter.unusedSectionVars false
set_option linter.unusedVariables false

namespace Tak.C10
open Tak.Solver

variable {F : Type} [Field F] [LinearOrder F] [IsStrictOrderedRing F]

/-- the Lipschitz-type constant of the property: `L = 1/(lo₀ − max q)`.  For `max q < a ≤ b`
    with `a ≥ lo₀` one has `g(a) − g(b) ≤ L·(b − a)·g(b)` (`Solver.g_diff_le`). -/
def Lip (lo m : F) : F := 1 / (lo - m)

/-- what the contract asks of a returned vector `w`, with total tolerance `tol` -/
def Meets (lam : F) (ps : List (F × F)) (w : List F) (tol : F) : Prop :=
  ∃ α, (∀ x ∈ ps, x.2 < α) ∧ w = weights lam ps α ∧ (∀ v ∈ w, 0 < v) ∧ |w.sum - 1| ≤ tol

theorem weights_pos {lam α : F} {ps : List (F × F)} (hv : Valid lam ps) (ha : ∀ x ∈ ps, x.2 < α) :
    ∀ v ∈ weights lam ps α, 0 < v := by
  intro v hv'
  obtain ⟨x, hx, rfl⟩ := List.mem_map.mp hv'
  exact term_pos hv.lam_pos (hv.pi_pos x hx) (ha x hx)

theorem brief_some {r : Except SolveErr (Out F)} {n : Nat} {e : Exit} (h : brief r = some (n, e)) :
    ∃ o, r = .ok o ∧ o.rounds = n ∧ o.exit = e := by
  cases r with
  | error _ => simp [brief] at h
  | ok o =>
    simp only [brief, Option.some.injEq, Prod.mk.injEq] at h
    exact ⟨o, rfl, h.1, h.2⟩

/-- a badly conditioned input: one prior at the cutoff floor owns the maximum of `q` -/
def exPs2 : List (ℚ × ℚ) := [(999999 / 1000000, -1), (1 / 1000000, 1)]

theorem exValid2 : Valid (1 / 2 : ℚ) exPs2 :=
  ⟨by decide, by norm_num, by simp [exPs2], by norm_num [exPs2]⟩

theorem sum_sub_weights {lam a b : F} (ps : List (F × F)) :
    (List.zipWith (fun u v => u - v) (weights lam ps a) (weights lam ps b)).sum
      = g lam ps a - g lam ps b := by
  induction ps with
  | nil => simp [weights, g]
  | cons x ps ih =>
    simp only [weights, g, List.map_cons, List.zipWith_cons_cons, List.sum_cons] at ih ⊢
    rw [ih]; ring

theorem abs_sub_weights {lam a b : F} {ps : List (F × F)} (hl : 0 < lam) (hp : ∀ x ∈ ps, 0 < x.1)
    (ha : ∀ x ∈ ps, x.2 < a) (hab : a ≤ b) :
    List.zipWith (fun u v => |u - v|) (weights lam ps a) (weights lam ps b)
      = List.zipWith (fun u v => u - v) (weights lam ps a) (weights lam ps b) := by
  induction ps with
  | nil => simp [weights]
  | cons x ps ih =>
    simp only [weights, List.map_cons, List.zipWith_cons_cons] at ih ⊢
    rw [ih (fun y hy => hp y (List.mem_cons_of_mem _ hy)) (fun y hy => ha y (List.mem_cons_of_mem _ hy))]
    congr 1
    have hx := ha x List.mem_cons_self
    apply abs_of_nonneg
    have : lam * x.1 / (b - x.2) ≤ lam * x.1 / (a - x.2) :=
      div_le_div_of_nonneg_left (mul_pos hl (hp x List.mem_cons_self)).le (by linarith) (by linarith)
    linarith

theorem zipWith_abs_nonneg (w w' : List F) :
    ∀ d ∈ List.zipWith (fun u v => |u - v|) w w', 0 ≤ d := by
  induction w generalizing w' with
  | nil => simp
  | cons a w ih =>
    cases w' with
    | nil => simp
    | cons b w' =>
      simp only [List.zipWith_cons_cons, List.mem_cons]
      rintro d (rfl | hd)
      · exact abs_nonneg _
      · exact ih _ _ hd

/-- the input used by the non-vacuity examples: K = 3, priors 1/2, 1/4, 1/4, three distinct
    q, multiplier 1/2 -/
def exPs : List (ℚ × ℚ) := [(1 / 2, 0), (1 / 4, 1 / 2), (1 / 4, -1)]

theorem exValid : Valid (1 / 2 : ℚ) exPs :=
  ⟨by decide, by norm_num, by simp [exPs], by norm_num [exPs]⟩


/-! ### the executable contract predicate -/

theorem foldl_max_ge (xs : List ℚ) (m : ℚ) : m ≤ xs.foldl max m ∧ ∀ a ∈ xs, a ≤ xs.foldl max m := by
  induction xs generalizing m with
  | nil => simp
  | cons x xs ih =>
    simp only [List.foldl_cons, List.mem_cons, forall_eq_or_imp]
    obtain ⟨h1, h2⟩ := ih (max m x)
    exact ⟨le_trans (le_max_left _ _) h1, le_trans (le_max_right _ _) h1, h2⟩

theorem foldl_min_le (xs : List ℚ) (m : ℚ) : xs.foldl min m ≤ m ∧ ∀ a ∈ xs, xs.foldl min m ≤ a := by
  induction xs generalizing m with
  | nil => simp
  | cons x xs ih =>
    simp only [List.foldl_cons, List.mem_cons, forall_eq_or_imp]
    obtain ⟨h1, h2⟩ := ih (min m x)
    exact ⟨le_trans h1 (min_le_left _ _), le_trans h1 (min_le_right _ _), h2⟩

theorem maxL_spec {A : List ℚ} {l : ℚ} (h : maxL A = some l) : ∀ a ∈ A, a ≤ l := by
  cases A with
  | nil => simp [maxL] at h
  | cons x xs =>
    simp only [maxL, Option.some.injEq] at h
    subst h
    intro a ha
    rcases List.mem_cons.mp ha with rfl | ha
    · exact (foldl_max_ge xs a).1
    · exact (foldl_max_ge xs x).2 a ha

theorem minL_spec {A : List ℚ} {l : ℚ} (h : minL A = some l) : ∀ a ∈ A, l ≤ a := by
  cases A with
  | nil => simp [minL] at h
  | cons x xs =>
    simp only [minL, Option.some.injEq] at h
    subst h
    intro a ha
    rcases List.mem_cons.mp ha with rfl | ha
    · exact (foldl_min_le xs a).1
    · exact (foldl_min_le xs x).2 a ha

theorem allFinite_map_some (w : List ℚ) : allFinite (w.map some) = some w := by
  induction w with
  | nil => rfl
  | cons x xs ih => simp [allFinite, ih]

theorem weights_of_all_eq {lam l : ℚ} : ∀ (ps : List (ℚ × ℚ)) (w : List ℚ), ps.length = w.length →
    (∀ v ∈ w, 0 < v) → (∀ x ∈ ps, 0 < x.1) → 0 < lam →
    (∀ a ∈ List.zipWith (fun (x : ℚ × ℚ) wi => x.2 + lam * x.1 / wi) ps w, a = l) →
    w = weights lam ps l
  | [], [], _, _, _, _, _ => rfl
  | [], _ :: _, h, _, _, _, _ => by simp at h
  | _ :: _, [], h, _, _, _, _ => by simp at h
  | x :: ps, v :: w, hlen, hw, hp, hl, hall => by
    simp only [List.zipWith_cons_cons, List.mem_cons, forall_eq_or_imp] at hall
    have ih := weights_of_all_eq ps w (by simpa using hlen)
      (fun u hu => hw u (List.mem_cons_of_mem _ hu)) (fun y hy => hp y (List.mem_cons_of_mem _ hy)) hl hall.2
    have hv : 0 < v := hw v List.mem_cons_self
    have hx : 0 < lam * x.1 := mul_pos hl (hp x List.mem_cons_self)
    have h1 : l - x.2 = lam * x.1 / v := by linarith [hall.1]
    simp only [weights, List.map_cons]
    congr 1
    · rw [h1, div_div_eq_mul_div, mul_div_cancel_left₀ _ hx.ne']

/-! ### `Fin K`-indexed inputs -/

/-- an input given as two functions on `Fin K` -/
def ofFin {K : Nat} (π q : Fin K → F) : List (F × F) := List.ofFn fun i => (π i, q i)

theorem mem_ofFin {K : Nat} {π q : Fin K → F} {x : F × F} :
    x ∈ ofFin π q ↔ ∃ i, x = (π i, q i) := by
  simp only [ofFin, List.mem_ofFn]
  constructor
  · rintro ⟨i, rfl⟩; exact ⟨i, rfl⟩
  · rintro ⟨i, rfl⟩; exact ⟨i, rfl⟩

/-- the model's sum over such an input is the `Finset` sum -/
theorem g_ofFin {K : Nat} (lam : F) (π q : Fin K → F) (a : F) :
    g lam (ofFin π q) a = ∑ i, lam * π i / (a - q i) := by
  simp [g, weights, ofFin, List.map_ofFn, List.sum_ofFn, Function.comp_def]

theorem valid_ofFin {K : Nat} {lam : F} {π q : Fin K → F} (hK : 0 < K) (hl : 0 < lam)
    (hp : ∀ i, 0 < π i) (hs : ∑ i, π i = 1) : Valid lam (ofFin π q) := by
  refine ⟨?_, hl, ?_, ?_⟩
  · intro h
    have : (ofFin π q).length = K := by simp [ofFin]
    rw [h] at this
    simp at this
    omega
  · intro x hx
    obtain ⟨i, rfl⟩ := mem_ofFin.mp hx
    exact hp i
  · simp [ofFin, List.map_ofFn, List.sum_ofFn, Function.comp_def, hs]

end Tak.C10

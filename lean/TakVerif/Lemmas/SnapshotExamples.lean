/-
  Helper lemmas for C19, part 4: the replay-window lemma in its general form, and the concrete
  run directories used by the non-vacuity examples and the witness theorems of `Props/C19.lean`
  (with the proof that they satisfy the invariant: they are crash prefixes of repaired saves).
-/
import TakVerif.Lemmas.SnapshotHistory

namespace Tak.C19
open Tak.Snapshot

theorem modes_roundtrip (cast castBack : Nat → Nat) (r : Run) :
    (trainMode castBack (serveMode cast r)).model = r.model := by
  simp [trainMode, serveMode, loadStateDict]

theorem window_general {β : Type} (k : Nat) (bs buf : List β) (h : buf.length ≤ k) :
    pushes k buf bs = (buf ++ bs).drop ((buf ++ bs).length - k) := by
  induction bs generalizing buf with
  | nil =>
    have : buf.length - k = 0 := by omega
    simp [pushes, this]
  | cons b r ih =>
    have hp : push k buf b = (buf ++ [b]).drop ((buf ++ [b]).length - k) ∧
        (push k buf b).length ≤ k := by
      unfold push
      simp only [List.length_append, List.length_cons, List.length_nil]
      split
      · have : buf.length + (0 + 1) - k = 1 := by omega
        rw [this]
        exact ⟨rfl, by simp; omega⟩
      · have : buf.length + (0 + 1) - k = 0 := by omega
        rw [this]
        exact ⟨rfl, by simp; omega⟩
    have hfold : pushes k buf (b :: r) = pushes k (push k buf b) r := rfl
    rw [hfold, ih _ hp.2, hp.1]
    have hle : (buf ++ [b]).length - k ≤ (buf ++ [b]).length := Nat.sub_le _ _
    rw [← List.drop_append_of_le_length hle, List.drop_drop]
    congr 1
    · simp only [List.length_drop, List.length_append, List.length_cons, List.length_nil]
      omega
    · simp

/-! ### concrete values for the non-vacuity examples -/

def sA : TrainState := ⟨[11, 12], [21, 22, 23], [[1], [2, 3]], ⟨5, 40, 15⟩⟩
def sB : TrainState := ⟨[13, 14], [24, 25, 26], [[2, 3], [4]], ⟨10, 80, 30⟩⟩
/-- another state with the same step counter as `sB` (a different lineage) -/
def sB' : TrainState := ⟨[15, 16], [27, 28, 29], [[2, 3], [5]], ⟨10, 81, 30⟩⟩
def ord0 : Name → List FName := fun _ => [.elapsed, .model]

/-- the run directory after a first, completed save of `sA` -/
def fsA : FS := runAll (saveOps ord0 sA []) []
/-- … after a save of `sB` was then killed inside `opt.pt` (stale `step_000010.tmp`) -/
def fsDebris : FS := runPrefix 6 (saveOps ord0 sB fsA) fsA
/-- … after a save of `sB` was killed after the rename, before `latest` was switched
    (orphan `step_000010`, stale `latest.tmp` after one more operation) -/
def fsOrphan : FS := runPrefix 14 (saveOps ord0 sB fsA) fsA

theorem fsInv_prefix (ord : Name → List FName) (s : TrainState) (fs : FS) (hi : FsInv fs) (k : Nat) :
    FsInv (runPrefix k (saveOps ord s fs) fs) :=
  hook_prefix_inv .afterRun ord s fs hi k

theorem fsInv_fsA : FsInv fsA := by
  have := fsInv_prefix ord0 sA [] fsInv_nil (saveOps ord0 sA []).length
  rwa [runPrefix_of_length_le _ (Nat.le_refl _)] at this

theorem fsInv_fsDebris : FsInv fsDebris := fsInv_prefix ord0 sB fsA fsInv_fsA 6
theorem fsInv_fsOrphan : FsInv fsOrphan := fsInv_prefix ord0 sB fsA fsInv_fsA 14

end Tak.C19

/-
  The search-tree lemmas instantiated with the real engine's parameters (`Tree.realCfg`):
  adjudication by `Impl.winner` = the rule book's `Spec.outcome` (C02), ids decoded by the real move
  table `Gen.allMovesForSize`, which holds every legal move exactly once (C03, C07).
-/
import TakVerif.Lemmas.TreeC01
import TakVerif.Props.C02
import TakVerif.Props.C03
import TakVerif.Props.C07

namespace Tak
namespace Tree

/-- the rule book's verdict in the search's terms: `none` while the game goes on, `some winner`
    (`some none` = a draw) once it is over -/
noncomputable def specOutcome (p : Pos) : Option (Option Color) :=
  match Spec.outcome p with
  | (_, none) => none
  | (w, some _) => some w

theorem realOutcome_eq_spec (p : Pos) (hwf : p.WF) : realOutcome p = specOutcome p := by
  unfold realOutcome specOutcome
  rw [Tak.C02.C02_winner_spec p hwf]
  rcases Spec.outcome p with ⟨w, _ | r⟩ <;> rfl

theorem zip_map_fst_sublist {α β : Type} : ∀ (l₁ : List α) (l₂ : List β),
    ((l₁.zip l₂).map Prod.fst).Sublist l₁ := by
  intro l₁
  induction l₁ with
  | nil => intro l₂; simp
  | cons a r ih =>
    intro l₂
    cases l₂ with
    | nil => simp
    | cons b s => simpa using ih s

theorem nodup_map_some {α : Type} : ∀ l : List α, l.Nodup → (l.map some).Nodup := by
  intro l
  induction l with
  | nil => intro _; simp
  | cons a r ih =>
    intro h
    rw [List.nodup_cons] at h
    rw [List.map_cons, List.nodup_cons]
    refine ⟨?_, ih h.2⟩
    intro hm
    obtain ⟨x, hx, hxa⟩ := List.mem_map.1 hm
    cases hxa
    exact h.1 hx

theorem selected_real_nodup (cutoff : Rat) (noise : Bool) (mix : Rat) (p : Pos) (ev : Answer) :
    ((selected (realCfg cutoff noise mix) p ev).map (·.1)).Nodup := by
  unfold selected
  have h1 : (((Gen.allMovesForSize p.size).zip (effectivePrior (realCfg cutoff noise mix) ev)).map Prod.fst).Nodup :=
    (zip_map_fst_sublist _ _).nodup (Tak.C07.C07_table_nodup p.size)
  exact (List.Sublist.map _ List.filter_sublist).nodup h1

theorem selected_real_mem (cutoff : Rat) (noise : Bool) (mix : Rat) (p : Pos) (ev : Answer) (m : Move) (pr : Rat) :
    (m, pr) ∈ selected (realCfg cutoff noise mix) p ev ↔
      ∃ i, Gen.decodeMove p.size i = some m ∧
        (effectivePrior (realCfg cutoff noise mix) ev)[i]? = some pr ∧ cutoff ≤ pr ∧ Rules.Legal p m := by
  unfold selected Gen.decodeMove
  simp only [List.mem_filter, Bool.and_eq_true, decide_eq_true_eq]
  constructor
  · rintro ⟨hz, hc, hl⟩
    obtain ⟨i, hi⟩ := List.mem_iff_getElem?.1 hz
    rw [List.getElem?_zip_eq_some] at hi
    exact ⟨i, hi.1, hi.2, hc, hl⟩
  · rintro ⟨i, h1, h2, hc, hl⟩
    refine ⟨?_, hc, hl⟩
    apply List.mem_iff_getElem?.2
    exact ⟨i, List.getElem?_zip_eq_some.2 ⟨h1, h2⟩⟩

/-- an id that decodes to `m` is THE id of `m` -/
theorem decode_id_unique (n i : Nat) (m : Move) (h : Gen.decodeMove n i = some m) :
    Gen.encodeMove n m = some i := by
  have hi : i < (Gen.allMovesForSize n).length := by
    rcases Nat.lt_or_ge i (Gen.allMovesForSize n).length with h' | h'
    · exact h'
    · rw [Tak.C07.C07_decode_none n i h'] at h; cases h
  obtain ⟨m', h1, h2⟩ := Tak.C07.C07_decode_encode n i hi
  rw [h] at h1
  cases h1
  exact h2

end Tree
end Tak

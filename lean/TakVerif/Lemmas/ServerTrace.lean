/-
  Helper lemmas for C17: the trace checker only ever takes steps of the transition system, and
  the word-level facts of the little-endian float32 codec.
-/
import TakVerif.Lemmas.Server

namespace Tak.Server

variable {R : Type}

theorem checkEvent_sound {cap : Nat} {f : List Nat → R} {s s' : State (List Nat) R} {e : Event}
    (h : checkEvent cap f s e = .ok s') :
    ∃ a, step cap f s a = some s' ∧ ∀ i toks, e = .arrive i toks → a = .arrive ⟨i, toks⟩ := by
  cases e <;> simp only [checkEvent] at h <;> (repeat' split at h) <;>
    first
    | (cases h
       refine ⟨_, by assumption, fun i toks he => ?_⟩
       first | (cases he; rfl) | cases he)
    | cases h

theorem checkTrace_sound {cap : Nat} {f : List Nat → R} {es : List Event}
    {s s' : State (List Nat) R} {n : Nat} (h : checkTrace cap f s n es = .ok s') :
    ∃ as, as.length = es.length ∧ run cap f s as = some s' := by
  induction es generalizing s n with
  | nil => simp only [checkTrace] at h; cases h; exact ⟨[], rfl, rfl⟩
  | cons e es ih =>
    simp only [checkTrace] at h
    split at h
    · rename_i s1 he
      obtain ⟨a, ha, _⟩ := checkEvent_sound he
      obtain ⟨as, hlen, hrun⟩ := ih h
      exact ⟨a :: as, by simp [hlen], by simp [run, ha, hrun]⟩
    · cases h

theorem arrived_of_checkEvent {cap : Nat} {f : List Nat → R} {s s' : State (List Nat) R}
    {e : Event} (h : checkEvent cap f s e = .ok s') :
    (∀ r ∈ s.arrived, r ∈ s'.arrived) ∧
      ∀ i toks, e = .arrive i toks → (⟨i, toks⟩ : Req (List Nat)) ∈ s'.arrived := by
  obtain ⟨a, ha, harr⟩ := checkEvent_sound h
  refine ⟨arrived_mono_step ha, fun i toks he => ?_⟩
  have := harr i toks he
  subst this
  exact arrived_arrive ha

theorem arrived_of_checkTrace {cap : Nat} {f : List Nat → R} {es : List Event}
    {s s' : State (List Nat) R} {n : Nat} (h : checkTrace cap f s n es = .ok s') :
    (∀ r ∈ s.arrived, r ∈ s'.arrived) ∧
      ∀ i toks, Event.arrive i toks ∈ es → (⟨i, toks⟩ : Req (List Nat)) ∈ s'.arrived := by
  induction es generalizing s n with
  | nil => simp only [checkTrace] at h; cases h; exact ⟨fun _ h => h, fun _ _ h => by cases h⟩
  | cons e es ih =>
    simp only [checkTrace] at h
    split at h
    · rename_i s1 he
      obtain ⟨m1, a1⟩ := arrived_of_checkEvent he
      obtain ⟨m2, a2⟩ := ih h
      refine ⟨fun r hr => m2 r (m1 r hr), fun i toks hmem => ?_⟩
      rcases List.mem_cons.mp hmem with heq | hmem
      · exact m2 _ (a1 i toks heq.symm)
      · exact a2 i toks hmem
    · cases h

theorem decodeWord_encodeWord (w : BitVec 32) :
    decodeWord (BitVec.ofNat 8 w.toNat) (BitVec.ofNat 8 (w.toNat / 256))
      (BitVec.ofNat 8 (w.toNat / 65536)) (BitVec.ofNat 8 (w.toNat / 16777216)) = w := by
  apply BitVec.eq_of_toNat_eq
  have := w.isLt
  simp only [decodeWord, BitVec.toNat_ofNat]
  omega

theorem encodeWord_decodeWord (b0 b1 b2 b3 : BitVec 8) :
    encodeWord (decodeWord b0 b1 b2 b3) = [b0, b1, b2, b3] := by
  have h0 := b0.isLt
  have h1 := b1.isLt
  have h2 := b2.isLt
  have h3 := b3.isLt
  simp only [encodeWord, decodeWord, List.cons.injEq, and_true]
  refine ⟨?_, ?_, ?_, ?_⟩ <;>
    · apply BitVec.eq_of_toNat_eq
      simp only [BitVec.toNat_ofNat]
      omega

theorem encode_decodeLE (bs : List (BitVec 8)) (ws : List (BitVec 32))
    (h : decodeLE bs = some ws) : encodeLE ws = bs := by
  induction bs using decodeLE.induct generalizing ws with
  | case1 => simp only [decodeLE] at h; cases h; rfl
  | case2 b0 b1 b2 b3 rest ih =>
    simp only [decodeLE] at h
    cases hrest : decodeLE rest with
    | none => simp [hrest] at h
    | some ws' =>
      simp only [hrest, Option.map_some, Option.some.injEq] at h
      subst h
      simp only [encodeLE, encodeWord_decodeWord, ih ws' hrest, List.cons_append,
        List.nil_append]
  | case3 bs h1 h2 => simp only [decodeLE] at h; cases h

theorem decode_encodeLE (ws : List (BitVec 32)) : decodeLE (encodeLE ws) = some ws := by
  induction ws with
  | nil => rfl
  | cons w ws ih =>
    simp only [encodeLE, encodeWord, List.cons_append, List.nil_append, decodeLE, ih,
      Option.map_some, decodeWord_encodeWord]

end Tak.Server

/-
  Concrete executions used by the non-vacuity examples of `Props/C18.lean`.
-/
import TakVerif.Lemmas.Pool

namespace Tak.Pool

/-! concrete states used by the non-vacuity examples -/

/-- N = 5, W = 2, repaired exit code; mid-request with a kill: one game delivered, one in `games`,
    one being played, one lost with the killed worker, one still to submit -/
def cEx : Cfg := { N := 5, W := 2, failCode := 1 }
def actsEx : List Act :=
  [.put, .put, .put, .put, .start 0, .start 1, .take 0, .take 1, .finish 0, .deliver 0, .recv,
   .take 0, .finish 0, .deliver 0, .finish 1, .kill 1, .take 0]
def sEx : State :=
  { todo := 1, cmd := 0, games := 1, logs := 1, lost := 1,
    ws := [.playing, .dead killCode], phase := .running }

theorem sEx_run : run cEx (fresh cEx) actsEx = some sEx := by decide

theorem fresh_init (c : Cfg) : Init c (fresh c) := by
  refine ⟨rfl, rfl, rfl, rfl, rfl, rfl, by simp [fresh], ?_⟩
  intro w hw
  simp [fresh] at hw
  rw [hw.2]; trivial

theorem sEx_reachable : Reachable cEx sEx :=
  reachable_of_run (Reachable.init (fresh_init cEx)) sEx_run

/-- a completed request of 2 games on 2 workers, one of which was killed while idle -/
def actsDone : List Act :=
  [.put, .put, .start 0, .start 1, .kill 1, .take 0, .finish 0, .deliver 0, .take 0, .recv,
   .finish 0, .deliver 0, .recv]
def cDone : Cfg := { N := 2, W := 2, failCode := 1 }
def sDone : State :=
  { todo := 0, cmd := 0, games := 0, logs := 2, lost := 0, ws := [.waiting, .dead killCode], phase := .running }
theorem sDone_run : run cDone (fresh cDone) actsDone = some sDone := by decide
theorem sDone_reachable : Reachable cDone sDone :=
  reachable_of_run (Reachable.init (fresh_init cDone)) sDone_run

/-- a stalled incomplete state: the only worker raised during its game -/
def cSt : Cfg := { N := 1, W := 1, failCode := 1 }
def sSt : State := { todo := 0, cmd := 0, games := 0, logs := 0, lost := 1, ws := [.dead 1], phase := .running }
theorem sSt_run : run cSt (fresh cSt) [.put, .start 0, .take 0, .gameFail 0] = some sSt := by decide
theorem sSt_stalled : Stalled cSt sSt := by
  intro a ha
  cases a <;> simp [Act.normal] at ha <;> simp [step?, sSt, cSt]
  all_goals (rename_i j; cases j <;> simp)

end Tak.Pool

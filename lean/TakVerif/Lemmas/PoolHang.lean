/-
  Helper lemmas for C18: with failCode = 0 (the pinned `entrypoint`) every worker can fail in its
  factory and leave the parent polling for ever — for every N ≥ 1 and every W.
-/
import TakVerif.Lemmas.Pool

namespace Tak.Pool

/-- `factoryFail k, factoryFail (k+1), …` (m actions) -/
def failAll (k : Nat) : Nat → List Act
  | 0 => []
  | m + 1 => .factoryFail k :: failAll (k + 1) m

def midState (c : Cfg) (k m : Nat) : State :=
  { todo := c.N, cmd := 0, games := 0, logs := 0, lost := 0,
    ws := List.replicate k (.dead c.failCode) ++ List.replicate m .init, phase := .running }

theorem replicate_append_cons (a : WState) (l : List WState) :
    ∀ k, List.replicate k a ++ a :: l = a :: (List.replicate k a ++ l) := by
  intro k
  induction k with
  | zero => rfl
  | succ k ih => simp [List.replicate_succ, ih]

theorem run_failAll (c : Cfg) : ∀ (m k : Nat),
    run c (midState c k m) (failAll k m) = some (midState c (k + m) 0) := by
  intro m
  induction m with
  | zero => intro k; simp [failAll, run, midState]
  | succ m ih =>
    intro k
    have hget : (List.replicate k (WState.dead c.failCode) ++ List.replicate (m + 1) WState.init)[k]? = some .init := by
      rw [List.getElem?_append_right (by simp)]
      simp
    have hset : (List.replicate k (WState.dead c.failCode) ++ List.replicate (m + 1) WState.init).set k (.dead c.failCode)
        = List.replicate (k + 1) (.dead c.failCode) ++ List.replicate m .init := by
      rw [List.set_append_right _ _ (by simp)]
      simp [List.replicate_succ, replicate_append_cons]
    have hstep : step? c (midState c k (m + 1)) (.factoryFail k) = some (midState c (k + 1) m) := by
      simp only [step?, midState, hget, hset]
      simp
    simp only [failAll, run, hstep]
    have := ih (k + 1)
    rw [this]
    congr 2
    omega

theorem fresh_eq_mid (c : Cfg) : fresh c = midState c 0 c.W := by
  simp [fresh, midState]

/-- the closed set: every worker exited with code 0, nothing in `games`, the request is incomplete -/
def Hung (c : Cfg) (s : State) : Prop :=
  s.phase = .running ∧ s.logs < c.N ∧ s.games = 0 ∧ ∀ w ∈ s.ws, w = WState.dead 0

theorem hung_step {c : Cfg} {s s' : State} {a : Act} (hh : Hung c s) (h : Step c s a s') : Hung c s' := by
  obtain ⟨h1, h2, h3, h4⟩ := hh
  have hget : ∀ j w, s.ws[j]? = some w → w = WState.dead 0 := fun j w hj => h4 w (mem_of_getElem? hj)
  unfold Step at h
  cases a with
  | put => simp only [step?] at h; split at h <;> simp at h; subst h; exact ⟨h1, h2, h3, h4⟩
  | recv => simp only [step?] at h; split at h <;> simp at h; rename_i hg; omega
  | poll =>
    simp only [step?] at h
    split at h
    · split at h
      · rename_i hcr
        exfalso
        simp only [crashed, List.any_eq_true] at hcr
        obtain ⟨w, hw, hwc⟩ := hcr
        rw [h4 w hw] at hwc
        simp at hwc
      · simp at h; subst h; exact ⟨h1, h2, h3, h4⟩
    · simp at h
  | start j => simp only [step?] at h; split at h <;> simp at h; rename_i hj; have := hget _ _ hj; simp at this
  | factoryFail j => simp only [step?] at h; split at h <;> simp at h; rename_i hj; have := hget _ _ hj; simp at this
  | take j => simp only [step?] at h; split at h <;> simp at h; rename_i hj; have := hget _ _ hj.1; simp at this
  | finish j => simp only [step?] at h; split at h <;> simp at h; rename_i hj; have := hget _ _ hj; simp at this
  | gameFail j => simp only [step?] at h; split at h <;> simp at h; rename_i hj; have := hget _ _ hj; simp at this
  | deliver j => simp only [step?] at h; split at h <;> simp at h; rename_i hj; have := hget _ _ hj.1; simp at this
  | kill j =>
    simp only [step?] at h
    split at h
    · rename_i w hj
      have := hget _ _ hj
      subst this
      simp [WState.live] at h
    · simp at h

theorem hung_run {c : Cfg} : ∀ (acts : List Act) (s s' : State), Hung c s → run c s acts = some s' → Hung c s' := by
  intro acts
  induction acts with
  | nil => intro s s' hh h; simp [run] at h; subst h; exact hh
  | cons a as ih =>
    intro s s' hh h
    simp only [run] at h
    split at h
    · rename_i s1 h1
      exact ih s1 s' (hung_step hh h1) h
    · simp at h

end Tak.Pool

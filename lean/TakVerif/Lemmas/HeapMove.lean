/-
  Heap lemmas, part 2: `hMove` — frame, well-formedness of the result, refinement of the
  value model `Impl.move`.
-/
import TakVerif.Lemmas.Heap

namespace Tak
namespace HeapModel

/-! ### frame -/

theorem hSlideLoop_frame (hp : HPos) (dx dy : Int) (nb : Ref) (base : Heap) (hnb : base.length ≤ nb) :
    ∀ (drops : List Nat) (h : Heap) (x y : Int) (carry : Stack), Frame base h →
      Frame base (hSlideLoop hp dx dy nb h x y carry drops).1 := by
  intro drops
  induction drops with
  | nil => intro h x y carry f; simpa [hSlideLoop] using f
  | cons drop rest ih =>
    intro h x y carry f
    unfold hSlideLoop
    simp only
    split
    · exact f
    split
    · exact f
    split
    · exact f
    split
    · exact f
    · apply ih
      apply Frame.setItem _ hnb
      apply Frame.alloc
      split
      · exact f.alloc _
      · exact f

theorem hMovePlace_frame (h : Heap) (hp : HPos) (m : Move) : Frame h (hMovePlace h hp m).1 := by
  have key : ∀ c i, Frame h (setItem (alloc (alloc h (.outer (refsAt h hp.board))).1 c).1
      (alloc h (.outer (refsAt h hp.board))).2 i (alloc (alloc h (.outer (refsAt h hp.board))).1 c).2) := by
    intro c i
    apply Frame.setItem _ (Nat.le_refl _)
    exact ((Frame.refl h).alloc _).alloc _
  unfold hMovePlace
  simp only
  repeat' split
  all_goals first | exact Frame.refl h | exact key _ _

theorem hMoveSlide_frame (h : Heap) (hp : HPos) (m : Move) : Frame h (hMoveSlide h hp m).1 := by
  have key : ∀ c i x y carry drops, Frame h (hSlideLoop hp m.type.direction.1 m.type.direction.2
        (alloc h (.outer (refsAt h hp.board))).2
        (setItem (alloc (alloc h (.outer (refsAt h hp.board))).1 c).1 (alloc h (.outer (refsAt h hp.board))).2
          i (alloc (alloc h (.outer (refsAt h hp.board))).1 c).2)
        x y carry drops).1 := by
    intro c i x y carry drops
    apply hSlideLoop_frame _ _ _ _ _ (Nat.le_refl _)
    apply Frame.setItem _ (Nat.le_refl _)
    exact ((Frame.refl h).alloc _).alloc _
  unfold hMoveSlide
  simp only
  repeat' split
  all_goals first | exact Frame.refl h | exact key _ _ _ _ _ _

theorem hMove_frame (h : Heap) (hp : HPos) (m : Move) : Frame h (hMove h hp m).1 := by
  unfold hMove
  split
  · exact Frame.refl h
  split
  · exact hMoveSlide_frame h hp m
  · exact hMovePlace_frame h hp m

/-! ### reading the original squares through `hp.board` -/

theorem getD_boardAt (h : Heap) (b : Ref) (i : Nat) : (boardAt h b).getD i [] = readSq h b i := by
  unfold boardAt readSq
  rw [List.getD_eq_getElem?_getD, List.getElem?_map]
  cases (refsAt h b)[i]? <;> rfl

theorem readSq_frame {h0 h : Heap} {hp : HPos} (w : HWF h0 hp) (f : Frame h0 h) (i : Nat) :
    readSq h hp.board i = (den h0 hp).board.getD i [] := by
  have := getD_boardAt h hp.board i
  rw [boardAt_frame w f] at this
  exact this.symm

/-! ### refinement of the slide loop -/

/-- the board value held in the list object `nb` -/
def loopDen (res : Heap × Except Err Unit) (nb : Ref) : Except Err (List Stack) :=
  match res.2 with
  | .ok () => .ok (boardAt res.1 nb)
  | .error e => .error e

theorem hSlideLoop_refines {h0 : Heap} {hp : HPos} (w : HWF h0 hp) (dx dy : Int) (nb : Ref)
    (hnb : h0.length ≤ nb) :
    ∀ (drops : List Nat) (h : Heap) (x y : Int) (carry : Stack) (refs : List Ref),
      Frame h0 h → h[nb]? = some (.outer refs) → (∀ r ∈ refs, IsStack h r) →
      (∃ refs', (hSlideLoop hp dx dy nb h x y carry drops).1[nb]? = some (.outer refs') ∧
          ∀ r ∈ refs', IsStack (hSlideLoop hp dx dy nb h x y carry drops).1 r) ∧
      loopDen (hSlideLoop hp dx dy nb h x y carry drops) nb =
        Impl.slideLoop (den h0 hp) dx dy x y carry (refs.map (stackAt h)) drops := by
  intro drops
  induction drops with
  | nil =>
    intro h x y carry refs f hb hall
    refine ⟨⟨refs, by simpa [hSlideLoop] using hb, by simpa [hSlideLoop] using hall⟩, ?_⟩
    simp [hSlideLoop, loopDen, Impl.slideLoop, boardAt, refsAt_of hb]
  | cons drop rest ih =>
    intro h x y carry refs f hb hall
    have hin : ∀ a b, (den h0 hp).inBounds a b = hp.inBounds a b := fun _ _ => rfl
    have hidx : ∀ a b, (den h0 hp).idx a b = hp.idx a b := fun _ _ => rfl
    unfold hSlideLoop Impl.slideLoop
    simp only [hin, hidx, ← readSq_frame w f]
    by_cases c1 : (!hp.inBounds (x + dx) (y + dy)) = true
    · simp only [c1, ↓reduceIte]; exact ⟨⟨refs, hb, hall⟩, rfl⟩
    simp only [c1]
    by_cases c2 : topKind (readSq h hp.board (hp.idx (x + dx).toNat (y + dy).toNat)) = some Kind.cap
    · simp only [c2, ↓reduceIte]; exact ⟨⟨refs, hb, hall⟩, rfl⟩
    simp only [c2, ↓reduceIte]
    cases carry with
    | nil => exact ⟨⟨refs, hb, hall⟩, rfl⟩
    | cons c0 ctl =>
    simp only
    by_cases c3 : topKind (readSq h hp.board (hp.idx (x + dx).toNat (y + dy).toNat)) = some Kind.standing ∧
        (c0.kind ≠ Kind.cap ∨ (c0 :: ctl).length ≠ 1)
    · simp only [c3, ↓reduceIte]; exact ⟨⟨refs, hb, hall⟩, rfl⟩
    · rw [if_neg c3, if_neg c3]
      -- abbreviations
      generalize hi : hp.idx (x + dx).toNat (y + dy).toNat = i
      generalize horig : readSq h hp.board i = orig
      generalize hhf : (if topKind orig = some Kind.standing
          then (alloc h (Cell.stack (Impl.flattenTop orig))).1 else h) = hf
      generalize hnew : (List.drop ((c0 :: ctl).length - drop) (c0 :: ctl) ++
          if topKind orig = some Kind.standing then Impl.flattenTop orig else orig) = new
      have fhf : Frame h hf := by
        rw [← hhf]; split
        · exact (Frame.refl h).alloc _
        · exact Frame.refl h
      have flen := fhf.length_le
      have hnblt : nb < h.length := IsOuter.lt ⟨refs, hb⟩
      have fa : Frame h (alloc hf (.stack new)).1 := fhf.alloc _
      have hb1 : (alloc hf (.stack new)).1[nb]? = some (.outer refs) := by rw [fa nb hnblt, hb]
      have hb2 := refsAt_setItem_self hb1 i hf.length
      have hstk : ∀ r, r < h.length →
          stackAt (setItem (alloc hf (.stack new)).1 nb i (alloc hf (.stack new)).2) r = stackAt h r := by
        intro r hr
        rw [stackAt_setItem, stackAt_frame fa hr]
      have hnewstk :
          stackAt (setItem (alloc hf (.stack new)).1 nb i (alloc hf (.stack new)).2) hf.length = new := by
        rw [stackAt_setItem]; exact stackAt_alloc_new hf new
      have km : KindMono h (setItem (alloc hf (.stack new)).1 nb i (alloc hf (.stack new)).2) :=
        (fa.kindMono).trans (kindMono_setItem _ _ _ _)
      have hall2 : ∀ r ∈ refs.set i hf.length,
          IsStack (setItem (alloc hf (.stack new)).1 nb i (alloc hf (.stack new)).2) r := by
        intro r hr
        rcases List.mem_or_eq_of_mem_set hr with hm | rfl
        · exact km.1 r (hall r hm)
        · refine (kindMono_setItem _ _ _ _).1 _ ⟨new, ?_⟩
          simp
      have hmap : (refs.set i hf.length).map
            (stackAt (setItem (alloc hf (.stack new)).1 nb i (alloc hf (.stack new)).2)) =
          (refs.map (stackAt h)).set i new := by
        rw [List.map_set, hnewstk]
        congr 1
        apply List.map_congr_left
        intro r hr
        exact hstk r (hall r hr).lt
      have f2 : Frame h0 (setItem (alloc hf (.stack new)).1 nb i (alloc hf (.stack new)).2) :=
        (f.trans fa).setItem hnb _ _
      have := ih (setItem (alloc hf (.stack new)).1 nb i (alloc hf (.stack new)).2) (x + dx) (y + dy)
        (List.take ((c0 :: ctl).length - drop) (c0 :: ctl)) (refs.set i hf.length) f2
        (by simpa using hb2) hall2
      rw [hmap] at this
      exact this

/-! ### the common prologue `newboard = list(self.board); newboard[i] = <new list>` -/

theorem prologue {h : Heap} {b : Ref} {refs : List Ref} (hb : h[b]? = some (.outer refs))
    (hall : ∀ r ∈ refs, IsStack h r) (i : Nat) (s : Stack) :
    Frame h (setItem (alloc (alloc h (.outer (refsAt h b))).1 (.stack s)).1 (alloc h (.outer (refsAt h b))).2 i
                (alloc (alloc h (.outer (refsAt h b))).1 (.stack s)).2) ∧
    (setItem (alloc (alloc h (.outer (refsAt h b))).1 (.stack s)).1 (alloc h (.outer (refsAt h b))).2 i
                (alloc (alloc h (.outer (refsAt h b))).1 (.stack s)).2)[(alloc h (.outer (refsAt h b))).2]? =
      some (.outer (refs.set i (alloc (alloc h (.outer (refsAt h b))).1 (.stack s)).2)) ∧
    (∀ r ∈ refs.set i (alloc (alloc h (.outer (refsAt h b))).1 (.stack s)).2,
      IsStack (setItem (alloc (alloc h (.outer (refsAt h b))).1 (.stack s)).1 (alloc h (.outer (refsAt h b))).2 i
                (alloc (alloc h (.outer (refsAt h b))).1 (.stack s)).2) r) ∧
    (refs.set i (alloc (alloc h (.outer (refsAt h b))).1 (.stack s)).2).map
      (stackAt (setItem (alloc (alloc h (.outer (refsAt h b))).1 (.stack s)).1 (alloc h (.outer (refsAt h b))).2 i
                (alloc (alloc h (.outer (refsAt h b))).1 (.stack s)).2)) = (boardAt h b).set i s := by
  generalize hA : alloc h (.outer (refsAt h b)) = A
  generalize hB : alloc A.1 (.stack s) = B
  have hA2 : A.2 = h.length := by rw [← hA]; rfl
  have hA1 : A.1 = h ++ [.outer (refsAt h b)] := by rw [← hA]; rfl
  have hB2 : B.2 = A.1.length := by rw [← hB]; rfl
  have hB1 : B.1 = A.1 ++ [.stack s] := by rw [← hB]; rfl
  have f2 : Frame h B.1 := by
    rw [← hB, ← hA]; exact ((Frame.refl h).alloc _).alloc _
  have f3 : Frame h (setItem B.1 A.2 i B.2) := f2.setItem (Nat.le_of_eq hA2.symm) _ _
  have hnb : B.1[A.2]? = some (.outer refs) := by
    rw [hB1, hA1, hA2]; simp [refsAt_of hb]
  have h3nb := refsAt_setItem_self hnb i B.2
  have hs : ∀ r, stackAt (setItem B.1 A.2 i B.2) r = stackAt B.1 r :=
    fun r => stackAt_setItem _ _ _ _ _
  refine ⟨f3, h3nb, ?_, ?_⟩
  · intro r hr
    rcases List.mem_or_eq_of_mem_set hr with hm | rfl
    · exact f3.kindMono.1 r (hall r hm)
    · refine (kindMono_setItem _ _ _ _).1 _ ⟨s, ?_⟩
      rw [hB2, hB1]; simp
  · rw [List.map_set, hs]
    have : stackAt B.1 B.2 = s := by
      rw [hB2, hB1]; simp [stackAt, read]
    rw [this]
    congr 1
    unfold boardAt
    rw [refsAt_of hb]
    apply List.map_congr_left
    intro r hr
    rw [hs]; exact stackAt_frame f2 (hall r hr).lt

theorem den_atI (h : Heap) (hp : HPos) (x y : Int) :
    (den h hp).atI x y = readSq h hp.board (hp.idx x.toNat y.toNat) := by
  unfold Pos.atI Pos.sq
  exact getD_boardAt h hp.board _

theorem den_caps (h : Heap) (hp : HPos) (c : Color) : (den h hp).caps c = hp.caps c := by
  cases c <;> rfl

theorem den_stones (h : Heap) (hp : HPos) (c : Color) : (den h hp).stones c = hp.stones c := by
  cases c <;> rfl

/-! ### placements -/

theorem hMovePlace_spec {h : Heap} {hp : HPos} (w : HWF h hp) (m : Move) :
    (∀ hp', (hMovePlace h hp m).2 = .ok hp' → HWF (hMovePlace h hp m).1 hp') ∧
    denR (hMovePlace h hp m) = Impl.movePlace (den h hp) m := by
  obtain ⟨refs, hb, hall⟩ := w
  have hply : (den h hp).ply = hp.ply := rfl
  have htm : (den h hp).toMove = hp.toMove := rfl
  have hidx : ∀ a b, (den h hp).idx a b = hp.idx a b := fun _ _ => rfl
  unfold hMovePlace Impl.movePlace
  simp only [den_atI, hply, htm, den_caps, den_stones, hidx]
  by_cases c1 : hp.ply < 2 ∧ m.type ≠ .placeFlat
  · rw [if_pos c1, if_pos c1]
    exact ⟨(by intro _ hh; cases hh), rfl⟩
  rw [if_neg c1, if_neg c1]
  by_cases c2 : readSq h hp.board (hp.idx m.x.toNat m.y.toNat) ≠ []
  · rw [if_pos c2, if_pos c2]
    exact ⟨(by intro _ hh; cases hh), rfl⟩
  rw [if_neg c2, if_neg c2]
  generalize hcol : (if hp.ply < 2 then hp.toMove.flip else hp.toMove) = col
  generalize hkind : (if m.type = MoveType.placeCap then Kind.cap
      else if m.type = MoveType.placeStanding then Kind.standing else Kind.flat) = kind
  generalize hcap : decide (m.type = MoveType.placeCap) = isCap
  by_cases c3 : (if isCap = true then hp.caps col else hp.stones col) ≤ 0
  · rw [if_pos c3, if_pos c3]
    exact ⟨(by intro _ hh; cases hh), rfl⟩
  rw [if_neg c3, if_neg c3]
  obtain ⟨f3, h3nb, hall3, hmap⟩ := prologue hb hall (hp.idx m.x.toNat m.y.toNat) [⟨col, kind⟩]
  constructor
  · intro hp' hh
    simp only [Except.ok.injEq] at hh
    subst hh
    exact ⟨_, h3nb, hall3⟩
  · simp only [denR, den, boardAt]
    rw [refsAt_of h3nb, hmap]
    cases col <;> cases isCap <;> rfl

/-! ### slides -/

theorem hMoveSlide_spec {h : Heap} {hp : HPos} (w : HWF h hp) (m : Move) :
    (∀ hp', (hMoveSlide h hp m).2 = .ok hp' → HWF (hMoveSlide h hp m).1 hp') ∧
    denR (hMoveSlide h hp m) = Impl.moveSlide (den h hp) m := by
  have w' := w
  obtain ⟨refs, hb, hall⟩ := w
  have hply : (den h hp).ply = hp.ply := rfl
  have hsz : (den h hp).size = hp.size := rfl
  have htm : (den h hp).toMove = hp.toMove := rfl
  have hidx : ∀ a b, (den h hp).idx a b = hp.idx a b := fun _ _ => rfl
  unfold hMoveSlide Impl.moveSlide
  simp only [den_atI, hply, htm, hidx, hsz]
  by_cases c1 : hp.ply < 2
  · rw [if_pos c1, if_pos c1]; exact ⟨(by intro _ hh; cases hh), rfl⟩
  rw [if_neg c1, if_neg c1]
  cases hsl : m.slides with
  | none => exact ⟨(by intro _ hh; cases hh), rfl⟩
  | some ds =>
  simp only
  by_cases c2 : ds = [] ∨ ds.any (· < 1)
  · rw [if_pos c2, if_pos c2]; exact ⟨(by intro _ hh; cases hh), rfl⟩
  rw [if_neg c2, if_neg c2]
  generalize hstack : readSq h hp.board (hp.idx m.x.toNat m.y.toNat) = stack
  by_cases c3 : ds.sum > (hp.size : Int) ∨ (stack.length : Int) < ds.sum
  · rw [if_pos c3, if_pos c3]; exact ⟨(by intro _ hh; cases hh), rfl⟩
  rw [if_neg c3, if_neg c3]
  by_cases c4 : ds.sum < 1
  · rw [if_pos c4, if_pos c4]; exact ⟨(by intro _ hh; cases hh), rfl⟩
  rw [if_neg c4, if_neg c4]
  cases stack with
  | nil => exact ⟨(by intro _ hh; cases hh), rfl⟩
  | cons top tl =>
  simp only
  by_cases c5 : top.color ≠ hp.toMove
  · rw [if_pos c5, if_pos c5]; exact ⟨(by intro _ hh; cases hh), rfl⟩
  rw [if_neg c5, if_neg c5]
  obtain ⟨f3, h3nb, hall3, hmap⟩ := prologue hb hall (hp.idx m.x.toNat m.y.toNat)
      ((top :: tl).drop ds.sum.toNat)
  have := hSlideLoop_refines w' m.type.direction.1 m.type.direction.2 (alloc h (.outer (refsAt h hp.board))).2 (Nat.le_refl _)
    (ds.map Int.toNat) _ m.x m.y ((top :: tl).take ds.sum.toNat) _ f3 h3nb hall3
  rw [hmap] at this
  obtain ⟨⟨refs', hnb', hall'⟩, hden⟩ := this
  have hbd : boardAt h hp.board = (den h hp).board := rfl
  rw [hbd] at hden
  rw [← hden]
  generalize hSlideLoop hp m.type.direction.1 m.type.direction.2 _ _ m.x m.y _ _ = res at *
  obtain ⟨h4, r4⟩ := res
  cases r4 with
  | error e => exact ⟨(by intro _ hh; cases hh), rfl⟩
  | ok u =>
    constructor
    · intro hp' hh
      simp only [Except.ok.injEq] at hh
      subst hh
      exact ⟨refs', hnb', hall'⟩
    · simp [denR, loopDen, den]

theorem hMove_spec {h : Heap} {hp : HPos} (w : HWF h hp) (m : Move) :
    (∀ hp', (hMove h hp m).2 = .ok hp' → HWF (hMove h hp m).1 hp') ∧
    denR (hMove h hp m) = Impl.move (den h hp) m := by
  have hin : ∀ a b, (den h hp).inBounds a b = hp.inBounds a b := fun _ _ => rfl
  unfold hMove Impl.move
  simp only [hin]
  split
  · exact ⟨(by intro _ hh; cases hh), rfl⟩
  split
  · exact hMoveSlide_spec w m
  · exact hMovePlace_spec w m

end HeapModel
end Tak

/-
  Helper lemmas for C17 with departing callers (Model/ServerLeave.lean): every execution with
  departures projects onto an execution of the base system; the responses delivered are a sublist
  of the responses the base system handed out, and the ones withheld belong to callers that left.
-/
import TakVerif.Lemmas.Server
import TakVerif.Lemmas.ServerTrace
import TakVerif.Model.ServerLeave

namespace Tak.Server

variable {P R : Type}

/-! ### projection -/

theorem lstep_act {cap : Nat} {f : P → R} {s s' : LState P R} {a : Action P}
    (h : lstep cap f s (.act a) = some s') :
    step cap f s.base a = some s'.base ∧ s'.gone = s.gone ∧
      s'.delivered = s.delivered ++ (newAnswers s.base s'.base).filter (stays s.gone) := by
  simp only [lstep] at h
  split at h
  · split at h
    · cases h
      rename_i b hb
      exact ⟨hb, rfl, rfl⟩
    · cases h
  · cases h

theorem lstep_leave {cap : Nat} {f : P → R} {s s' : LState P R} {id : Nat}
    (h : lstep cap f s (.leave id) = some s') :
    s'.base = s.base ∧ s'.gone = id :: s.gone ∧ s'.delivered = s.delivered ∧
      id ∈ ids s.base.arrived ∧ id ∉ s.gone := by
  simp only [lstep] at h
  split at h
  · cases h
  · rename_i hc
    cases h
    simp only [Bool.or_eq_true, Bool.not_eq_eq_eq_not, Bool.not_true, not_or,
      Bool.not_eq_true, Bool.not_eq_false] at hc
    refine ⟨rfl, rfl, rfl, ?_, ?_⟩
    · have := hc.2
      simpa [ids] using this
    · have := hc.1
      simpa using this

theorem lrun_project {cap : Nat} {f : P → R} {as : List (LAction P)} {s s' : LState P R}
    (h : lrun cap f s as = some s') : run cap f s.base (eraseLeaves as) = some s'.base := by
  induction as generalizing s with
  | nil => simp only [lrun] at h; cases h; rfl
  | cons a as ih =>
    simp only [lrun] at h
    cases hstep : lstep cap f s a with
    | none => simp [hstep] at h
    | some s1 =>
      simp only [hstep, Option.bind_some] at h
      cases a with
      | act b =>
        obtain ⟨hb, _, _⟩ := lstep_act hstep
        simp only [eraseLeaves, run, hb, Option.bind_some]
        exact ih h
      | leave id =>
        obtain ⟨hb, _⟩ := lstep_leave hstep
        simp only [eraseLeaves]
        rw [← hb]
        exact ih h

/-- an execution of the base system is an execution with nobody leaving -/
theorem lrun_of_run {cap : Nat} {f : P → R} {as : List (Action P)} {s : LState P R}
    {b : State P R} (hg : s.gone = []) (h : run cap f s.base as = some b) :
    ∃ s', lrun cap f s (as.map .act) = some s' ∧ s'.base = b ∧ s'.gone = [] := by
  induction as generalizing s with
  | nil => simp only [run] at h; cases h; exact ⟨s, rfl, rfl, hg⟩
  | cons a as ih =>
    simp only [run] at h
    cases hstep : step cap f s.base a with
    | none => simp [hstep] at h
    | some b1 =>
      simp only [hstep, Option.bind_some] at h
      have hall : allowed s a = true := by
        cases a <;> simp only [allowed]
        split <;> simp [hg]
      let s1 : LState P R :=
        ⟨b1, s.gone, s.delivered ++ (newAnswers s.base b1).filter (stays s.gone)⟩
      obtain ⟨s', h1, h2, h3⟩ := ih (s := s1) hg h
      refine ⟨s', ?_, h2, h3⟩
      simp only [List.map_cons, lrun, lstep, hall, if_true, hstep, Option.bind_some]
      exact h1

theorem lrun_append {cap : Nat} {f : P → R} {as bs : List (LAction P)} {s s1 s2 : LState P R}
    (h1 : lrun cap f s as = some s1) (h2 : lrun cap f s1 bs = some s2) :
    lrun cap f s (as ++ bs) = some s2 := by
  induction as generalizing s with
  | nil => simp only [lrun] at h1; cases h1; simpa using h2
  | cons a as ih =>
    simp only [lrun, List.cons_append] at h1 ⊢
    cases hstep : lstep cap f s a with
    | none => simp [hstep] at h1
    | some s' =>
      simp only [hstep, Option.bind_some] at h1 ⊢
      exact ih h1

theorem arrived_mono_run {cap : Nat} {f : P → R} {as : List (Action P)} {s s' : State P R}
    (hr : run cap f s as = some s') : ∀ r ∈ s.arrived, r ∈ s'.arrived := by
  induction as generalizing s with
  | nil => simp only [run] at hr; cases hr; exact fun _ h => h
  | cons a as ih =>
    simp only [run] at hr
    cases hstep : step cap f s a with
    | none => simp [hstep] at hr
    | some s1 =>
      simp only [hstep, Option.bind_some] at hr
      exact fun r h => ih hr r (arrived_mono_step hstep r h)

/-! ### what is delivered -/

theorem newAnswers_of_append {old new : State P R} {l : List (Nat × R)}
    (h : new.answered = old.answered ++ l) : newAnswers old new = l := by
  simp [newAnswers, h]

structure LInv (s : LState P R) : Prop where
  /-- delivered responses are responses of the base system, in the same order -/
  sub : s.delivered.Sublist s.base.answered
  /-- a response that was not delivered belongs to a caller that left -/
  cover : ∀ x ∈ s.base.answered, x.1 ∈ s.gone ∨ x ∈ s.delivered
  /-- only callers that arrived leave -/
  goneArr : ∀ i ∈ s.gone, i ∈ ids s.base.arrived
  /-- nobody leaves twice -/
  goneNodup : s.gone.Nodup

theorem linv_init : LInv (linit : LState P R) where
  sub := List.Sublist.refl _
  cover := fun _ h => by cases h
  goneArr := fun _ h => by cases h
  goneNodup := List.nodup_nil

theorem linv_step {cap : Nat} {f : P → R} {s s' : LState P R} {a : LAction P}
    (h : LInv s) (hs : lstep cap f s a = some s') : LInv s' := by
  obtain ⟨hsub, hcov, harr, hnd⟩ := h
  cases a with
  | act b =>
    obtain ⟨hb, hg, hd⟩ := lstep_act hs
    obtain ⟨l, hl⟩ := answered_mono_step hb
    have hnew := newAnswers_of_append hl
    refine ⟨?_, ?_, ?_, ?_⟩
    · rw [hd, hl, hnew]
      exact List.Sublist.append hsub List.filter_sublist
    · intro x hx
      rw [hl] at hx
      rw [hg, hd, hnew]
      rcases List.mem_append.mp hx with hx | hx
      · rcases hcov x hx with h1 | h1
        · exact Or.inl h1
        · exact Or.inr (List.mem_append_left _ h1)
      · by_cases hgone : x.1 ∈ s.gone
        · exact Or.inl hgone
        · refine Or.inr (List.mem_append_right _ (List.mem_filter.mpr ⟨hx, ?_⟩))
          simp [stays, hgone]
    · intro i hi
      rw [hg] at hi
      obtain ⟨r, hr, hid⟩ := List.mem_map.mp (harr i hi)
      exact List.mem_map.mpr ⟨r, arrived_mono_step hb r hr, hid⟩
    · rw [hg]; exact hnd
  | leave id =>
    obtain ⟨hb, hg, hd, hmem, hfresh⟩ := lstep_leave hs
    refine ⟨?_, ?_, ?_, ?_⟩
    · rw [hb, hd]; exact hsub
    · intro x hx
      rw [hb] at hx
      rw [hg, hd]
      rcases hcov x hx with h1 | h1
      · exact Or.inl (List.mem_cons_of_mem _ h1)
      · exact Or.inr h1
    · intro i hi
      rw [hg] at hi
      rw [hb]
      rcases List.mem_cons.mp hi with rfl | hi
      · exact hmem
      · exact harr i hi
    · rw [hg]
      exact List.nodup_cons.mpr ⟨hfresh, hnd⟩

theorem linv_run {cap : Nat} {f : P → R} {as : List (LAction P)} {s s' : LState P R}
    (h : LInv s) (hr : lrun cap f s as = some s') : LInv s' := by
  induction as generalizing s with
  | nil => simp only [lrun] at hr; cases hr; exact h
  | cons a as ih =>
    simp only [lrun] at hr
    cases hstep : lstep cap f s a with
    | none => simp [hstep] at hr
    | some s1 =>
      simp only [hstep, Option.bind_some] at hr
      exact ih (linv_step h hstep) hr

theorem gone_mono_run {cap : Nat} {f : P → R} {as : List (LAction P)} {s s' : LState P R}
    (hr : lrun cap f s as = some s') : ∀ i ∈ s.gone, i ∈ s'.gone := by
  induction as generalizing s with
  | nil => simp only [lrun] at hr; cases hr; exact fun _ h => h
  | cons a as ih =>
    simp only [lrun] at hr
    cases hstep : lstep cap f s a with
    | none => simp [hstep] at hr
    | some s1 =>
      simp only [hstep, Option.bind_some] at hr
      intro i hi
      apply ih hr
      cases a with
      | act b => rw [(lstep_act hstep).2.1]; exact hi
      | leave id => rw [(lstep_leave hstep).2.1]; exact List.mem_cons_of_mem _ hi

/-- a parked caller stays parked unless it is the one that enters -/
theorem putters_step {cap : Nat} {f : P → R} {b b' : State P R} {a : Action P}
    (hb : step cap f b a = some b') {r : Req P} (hr : r ∈ b.putters)
    (hne : ∀ k, a = .enter k → b.putters[k]? ≠ some r) : r ∈ b'.putters := by
  cases a with
  | arrive q =>
    simp only [step] at hb
    (repeat' split at hb) <;> cases hb
    · exact hr
    · exact List.mem_append_left _ hr
  | enter k =>
    simp only [step] at hb
    split at hb
    · cases hb
    rename_i q hq
    split at hb <;> cases hb
    have hqr : q ≠ r := fun e => hne k rfl (e ▸ hq)
    have hsplit := split_at hq
    rw [hsplit] at hr
    simp only [List.mem_append, List.mem_cons] at hr ⊢
    rcases hr with h | h | h
    · exact Or.inl h
    · exact absurd h.symm hqr
    · exact Or.inr h
  | take =>
    simp only [step] at hb
    (repeat' split at hb) <;> cases hb
    exact hr
  | close =>
    simp only [step] at hb
    (repeat' split at hb) <;> cases hb
    exact hr
  | complete =>
    simp only [step] at hb
    (repeat' split at hb) <;> cases hb
    exact hr

/-- a parked caller that left stays parked for ever -/
theorem gone_putter_step {cap : Nat} {f : P → R} {s s' : LState P R} {a : LAction P}
    (hs : lstep cap f s a = some s') {r : Req P} (hr : r ∈ s.base.putters) (hg : r.id ∈ s.gone) :
    r ∈ s'.base.putters ∧ r.id ∈ s'.gone := by
  cases a with
  | leave id =>
    obtain ⟨hb, hg', _⟩ := lstep_leave hs
    rw [hb, hg']
    exact ⟨hr, List.mem_cons_of_mem _ hg⟩
  | act b =>
    have hgate : allowed s b = true := by
      simp only [lstep] at hs
      split at hs
      · assumption
      · cases hs
    obtain ⟨hb, hg', _⟩ := lstep_act hs
    rw [hg']
    refine ⟨putters_step hb hr ?_, hg⟩
    intro k hk hq
    subst hk
    simp only [allowed, hq] at hgate
    simp [hg] at hgate

/-! ### the trace checker with departures only takes steps of the layered system -/

/-- the action the checker takes for an event -/
def actionOf {R : Type} (s : State (List Nat) R) : Event → Action (List Nat)
  | .arrive id toks => .arrive ⟨id, toks⟩
  | .enter id => .enter ((s.putters.findIdx? fun r => r.id == id).getD 0)
  | .take _ => .take
  | .run _ => .close
  | .done => .complete

theorem checkEvent_action {R : Type} {cap : Nat} {f : List Nat → R}
    {s s' : State (List Nat) R} {e : Event} (h : checkEvent cap f s e = .ok s') :
    step cap f s (actionOf s e) = some s' := by
  cases e <;> simp only [checkEvent] at h <;> (repeat' split at h) <;>
    first
    | (cases h
       simp only [actionOf, *, Option.getD_some])
    | cases h

theorem lcheckEvent_sound {R : Type} {cap : Nat} {f : List Nat → R}
    {s s' : LState (List Nat) R} {e : LEvent} (h : lcheckEvent cap f s e = .ok s') :
    ∃ a, lstep cap f s a = some s' := by
  cases e with
  | leave id =>
    simp only [lcheckEvent] at h
    split at h
    · rename_i s1 hs
      cases h
      exact ⟨_, hs⟩
    · cases h
  | ev e =>
    simp only [lcheckEvent] at h
    split at h
    · rename_i hgate
      split at h
      · rename_i b hb
        cases h
        have ha := checkEvent_action hb
        refine ⟨.act (actionOf s.base e), ?_⟩
        have hall : allowed s (actionOf s.base e) = true := by
          cases e with
          | enter id =>
            simp only [actionOf, allowed]
            cases hk : s.base.putters.findIdx? (fun r => r.id == id) with
            | none =>
              simp only [checkEvent, hk] at hb
              cases hb
            | some k =>
              obtain ⟨hlt, hp, _⟩ := List.findIdx?_eq_some_iff_getElem.mp hk
              have hid : (s.base.putters[k]).id = id := by simpa using hp
              simp only [Option.getD_some, List.getElem?_eq_getElem hlt, hid]
              simpa [gateOk] using hgate
          | arrive i toks => rfl
          | take id => rfl
          | run n => rfl
          | done => rfl
        simp only [lstep, hall, if_true, ha]
      · cases h
    · cases h

theorem lcheckTrace_sound {R : Type} {cap : Nat} {f : List Nat → R} {es : List LEvent}
    {s s' : LState (List Nat) R} {n : Nat} (h : lcheckTrace cap f s n es = .ok s') :
    ∃ as, as.length = es.length ∧ lrun cap f s as = some s' := by
  induction es generalizing s n with
  | nil => simp only [lcheckTrace] at h; cases h; exact ⟨[], rfl, rfl⟩
  | cons e es ih =>
    simp only [lcheckTrace] at h
    split at h
    · rename_i s1 he
      obtain ⟨a, ha⟩ := lcheckEvent_sound he
      obtain ⟨as, hlen, hrun⟩ := ih h
      exact ⟨a :: as, by simp [hlen], by simp [lrun, ha, hrun]⟩
    · cases h

end Tak.Server

namespace Tak.Server

/-! ### without departures the layered checker is the base checker -/

theorem gateOk_nil {R : Type} (s : LState (List Nat) R) (hg : s.gone = []) (e : Event) :
    gateOk s e = true := by
  cases e <;> simp [gateOk, hg]

/-- relation between the two checkers' results -/
def sameResult {R : Type} :
    Except (Nat × String) (LState (List Nat) R) → Except (Nat × String) (State (List Nat) R) → Prop
  | .ok a, .ok b => a.base = b ∧ a.gone = []
  | .error x, .error y => x = y
  | _, _ => False

theorem lcheckTrace_noLeave {R : Type} {cap : Nat} {f : List Nat → R} (es : List Event)
    (s : LState (List Nat) R) (n : Nat) (hg : s.gone = []) :
    sameResult (lcheckTrace cap f s n (es.map .ev)) (checkTrace cap f s.base n es) := by
  induction es generalizing s n with
  | nil => simp [lcheckTrace, checkTrace, sameResult, hg]
  | cons e es ih =>
    simp only [List.map_cons, lcheckTrace, checkTrace, lcheckEvent, gateOk_nil s hg e, if_true]
    cases hce : checkEvent cap f s.base e with
    | error m => simp [sameResult]
    | ok b =>
      simp only
      exact ih _ (n + 1) hg

end Tak.Server

/-
  Bridge between the C12 model and the C06 model (TakVerif/Model/Tokens.lean): the local copies
  `Batch.encodeTokens` / `Batch.encodeBatch` used by `encodeGames` and the driver ARE
  `Tokens.encode · true` / `Tokens.encodeBatch`.
-/
import TakVerif.Lemmas.BatchEncode
import TakVerif.Lemmas.TokensBatch

namespace Tak
namespace BatchLemmas
open Tak.Batch Tak.BatchSpec

theorem foldl_max_eq (ls : List Nat) (m : Nat) :
    ls.foldl (fun a l => max a l) m = max m (ls.foldr max 0) := by
  induction ls generalizing m with
  | nil => simp
  | cons a ls ih => simp only [List.foldl_cons, List.foldr_cons, ih]; omega

theorem maxLen_eq_tokens (rows : List (List Nat)) : BatchSpec.maxLen rows = Tokens.maxLen rows := by
  unfold BatchSpec.maxLen Tokens.maxLen
  have := foldl_max_eq (rows.map List.length) 0
  rw [List.foldl_map] at this
  rw [this]; omega

theorem encodeBatch_eq_tokens (rows : List (List Nat)) :
    Batch.encodeBatch rows = Tokens.encodeBatch rows := by
  rw [encodeBatch_eq, Tokens.encodeBatch_eq_spec, Tokens.batchSpec, maxLen_eq_tokens]
  rfl

theorem foldl_flat (mover : Color) (stack : List Piece) (d : List Nat) :
    stack.foldl (fun d flat => d ++ [Tokens.flatTok mover flat]) d =
      d ++ stack.map (fun f => if f.color = mover then 2 else 6) := by
  induction stack generalizing d with
  | nil => simp
  | cons f stack ih =>
    simp only [List.foldl_cons, ih, List.map_cons, List.append_assoc, List.singleton_append]
    rfl

theorem encSquare_eq (mover : Color) (data : List Nat) (sq : Stack) :
    Tokens.encSquare mover data sq = data ++ squareToks mover sq := by
  cases sq with
  | nil => rfl
  | cons top stack =>
    simp only [Tokens.encSquare, foldl_flat, squareToks, List.append_assoc, List.singleton_append]
    congr 2
    cases top.kind <;> cases h : (top.color == mover) <;> rfl

theorem foldl_encSquare (mover : Color) (board : List Stack) (data : List Nat) :
    board.foldl (Tokens.encSquare mover) data = data ++ board.flatMap (squareToks mover) := by
  induction board generalizing data with
  | nil => simp
  | cons sq board ih => simp [List.foldl_cons, ih, encSquare_eq]

theorem encodeTokens_eq_tokens (p : Pos) : Batch.encodeTokens p = Tokens.encode p true := by
  unfold Batch.encodeTokens Tokens.encode
  rw [foldl_encSquare]
  rfl

end BatchLemmas
end Tak

/-
  Helper lemmas for C19, part 2: the invariant of the run directory, what each phase of the
  repaired save does (forward computation under the invariant), and the two "views" a crash
  prefix can leave: the run directory still designates the snapshot it designated before
  (`Same`), or it designates the new one (`New`).
-/
import TakVerif.Lemmas.Snapshot

namespace Tak.Snapshot

/-! ### the invariant -/

/-- the directory holds all five files, complete, with the content of `s` -/
structure Snap (es : Dir) (s : TrainState) : Prop where
  model : get es .model = some (.full (.params s.params))
  config : get es .config = some (.full .cfg)
  opt : get es .opt = some (.full (.opt s.opt))
  replay : get es .replay = some (.full (.replay s.replay))
  elapsed : get es .elapsed = some (.full (.elapsed s.elapsed))

/-- `latest`, when present, is a symlink to a `step_M` directory that holds a complete
    snapshot whose step counter is `M` -/
def Live (fs : FS) : Prop :=
  ∀ nd, get fs .latest = some nd →
    ∃ m es c, nd = .link (.step m) ∧ get fs (.step m) = some (.dir es) ∧ Snap es c ∧
      c.elapsed.step = m

/-- the invariant of the run directory -/
structure FsInv (fs : FS) : Prop where
  typed : Typed fs
  live : Live fs

theorem fsInv_nil : FsInv [] := ⟨typed_nil, by intro nd h; simp at h⟩

theorem readSnap_of_snap {es : Dir} {s : TrainState} (h : Snap es s) : readSnap es = .loaded s := by
  cases s
  simp [readSnap, h.model, h.opt, h.replay, h.elapsed]

/-- the state still designates what `fs` designated -/
def Same (fs st : FS) : Prop :=
  get st .latest = get fs .latest ∧
    ∀ m, get fs .latest = some (.link (.step m)) → get st (.step m) = get fs (.step m)

/-- the state designates a complete snapshot of `s` -/
def New (s : TrainState) (st : FS) : Prop :=
  get st .latest = some (.link (.step s.elapsed.step)) ∧
    ∃ es, get st (.step s.elapsed.step) = some (.dir es) ∧ Snap es s

theorem same_refl (fs : FS) : Same fs fs := ⟨rfl, fun _ _ => rfl⟩

theorem resume_of_same {fs st : FS} (hl : Live fs) (h : Same fs st) : resume st = resume fs := by
  obtain ⟨h1, h2⟩ := h
  unfold resume
  rw [h1]
  cases hL : get fs .latest with
  | none => rfl
  | some nd =>
    obtain ⟨m, es, c, rfl, hd, _, _⟩ := hl nd hL
    simp only []
    rw [h2 m hL]

theorem resume_of_new {s : TrainState} {st : FS} (h : New s st) : resume st = .loaded s := by
  obtain ⟨h1, es, h2, h3⟩ := h
  simp [resume, h1, h2, readSnap_of_snap h3]

theorem live_of_same {fs st : FS} (hl : Live fs) (h : Same fs st) : Live st := by
  intro nd hnd
  rw [h.1] at hnd
  obtain ⟨m, es, c, rfl, hd, hs, hc⟩ := hl nd hnd
  exact ⟨m, es, c, rfl, by rw [h.2 m hnd]; exact hd, hs, hc⟩

theorem live_of_new {s : TrainState} {st : FS} (h : New s st) : Live st := by
  intro nd hnd
  obtain ⟨h1, es, h2, h3⟩ := h
  rw [h1] at hnd
  simp at hnd
  subst hnd
  exact ⟨_, es, s, rfl, h2, h3, rfl⟩

theorem resume_of_live {fs : FS} (hl : Live fs) :
    resume fs = .fresh ∨ ∃ c, resume fs = .loaded c := by
  cases hL : get fs .latest with
  | none => left; simp [resume, hL]
  | some nd =>
    obtain ⟨m, es, c, rfl, hd, hs, _⟩ := hl nd hL
    right; exact ⟨c, by simp [resume, hL, hd, readSnap_of_snap hs]⟩

/-- what a live snapshot says about the name of its directory -/
theorem live_loaded {fs : FS} (hl : Live fs) {c : TrainState} (h : resume fs = .loaded c) :
    ∃ es, get fs .latest = some (.link (.step c.elapsed.step)) ∧
      get fs (.step c.elapsed.step) = some (.dir es) ∧ Snap es c := by
  cases hL : get fs .latest with
  | none => simp [resume, hL] at h
  | some nd =>
    obtain ⟨m, es, c', rfl, hd, hs, hm⟩ := hl nd hL
    simp [resume, hL, hd, readSnap_of_snap hs] at h
    subst h; subst hm
    exact ⟨es, rfl, hd, hs⟩

/-! ### membership in the operation lists -/

theorem mem_rmtreeOps {ord : List FName} {fs : FS} {d : Name} {op : Op}
    (h : op ∈ rmtreeOps ord fs d) : (∃ f, op = .unlinkIn d f) ∨ op = .rmdir d := by
  unfold rmtreeOps at h
  split at h
  · simp only [List.mem_append, List.mem_map, List.mem_singleton] at h
    rcases h with ⟨f, _, rfl⟩ | rfl
    · exact Or.inl ⟨f, rfl⟩
    · exact Or.inr rfl
  · simp at h

theorem mem_writeOps {d : Name} {s : TrainState} {op : Op} (h : op ∈ writeOps d s) :
    (∃ f, op = .create d f) ∨ (∃ f c, op = .finish d f c) := by
  simp only [writeOps, List.mem_cons, List.not_mem_nil, or_false] at h
  rcases h with rfl | rfl | rfl | rfl | rfl | rfl | rfl | rfl | rfl | rfl
  all_goals first | exact Or.inl ⟨_, rfl⟩ | exact Or.inr ⟨_, _, rfl⟩

/-- the staging part of a save (everything before the `latest` switch) -/
def stageOps (ord : Name → List FName) (s : TrainState) (fs : FS) : List Op :=
  let n := s.elapsed.step
  rmtreeOps (ord (.stepTmp n)) fs (.stepTmp n) ++ [.mkdir (.stepTmp n)] ++ writeOps (.stepTmp n) s
    ++ rmtreeOps (ord (.step n)) fs (.step n) ++ [.rename (.stepTmp n) (.step n)]

theorem saveOps_eq (ord : Name → List FName) (s : TrainState) (fs : FS) :
    saveOps ord s fs =
      (if isLive fs s.elapsed.step then [] else stageOps ord s fs) ++ linkOps s.elapsed.step := rfl

theorem stageOps_local {ord : Name → List FName} {s : TrainState} {fs : FS} {op : Op}
    (h : op ∈ stageOps ord s fs) :
    op.Shaped ∧ ∀ x ∈ op.writes, x = .stepTmp s.elapsed.step ∨ x = .step s.elapsed.step := by
  simp only [stageOps, List.mem_append, List.mem_singleton] at h
  rcases h with (((h | rfl) | h) | h) | rfl
  · rcases mem_rmtreeOps h with ⟨f, rfl⟩ | rfl <;> simp [Op.Shaped, Op.writes]
  · simp [Op.Shaped, Op.writes]
  · rcases mem_writeOps h with ⟨f, rfl⟩ | ⟨f, c, rfl⟩ <;> simp [Op.Shaped, Op.writes]
  · rcases mem_rmtreeOps h with ⟨f, rfl⟩ | rfl <;> simp [Op.Shaped, Op.writes]
  · simp [Op.Shaped, Op.writes]

theorem linkOps_local {n : Nat} {op : Op} (h : op ∈ linkOps n) :
    op.Shaped ∧ ∀ x ∈ op.writes, x = .latestTmp ∨ x = .latest := by
  simp only [linkOps, List.mem_cons, List.not_mem_nil, or_false] at h
  rcases h with rfl | rfl | rfl <;> simp [Op.Shaped, Op.writes]

theorem saveOps_shaped {ord : Name → List FName} {s : TrainState} {fs : FS} {op : Op}
    (h : op ∈ saveOps ord s fs) : op.Shaped := by
  rw [saveOps_eq, List.mem_append] at h
  rcases h with h | h
  · split at h
    · simp at h
    · exact (stageOps_local h).1
  · exact (linkOps_local h).1

/-! ### forward computation of the phases -/

theorem unlinks_run (d : Name) (L : List FName) :
    ∀ (st : FS) (es : Dir), get st d = some (.dir es) →
      ∃ st', runAll? (L.map (Op.unlinkIn d)) st = some st' ∧
        get st' d = some (.dir (es.filter (fun e => decide (e.1 ∉ L)))) ∧
        ∀ x, x ≠ d → get st' x = get st x := by
  induction L with
  | nil =>
    intro st es h
    exact ⟨st, rfl, by rw [h, List.filter_eq_self.2 (by simp)], fun _ _ => rfl⟩
  | cons f r ih =>
    intro st es h
    have hrun : (Op.unlinkIn d f).run st = some (put st d (.dir (del es f))) := by
      simp [Op.run, h]
    obtain ⟨st', h1, h2, h3⟩ := ih (put st d (.dir (del es f))) (del es f) (get_put_same _ _ _)
    refine ⟨st', ?_, ?_, ?_⟩
    · simp only [List.map_cons, runAll?, hrun]; exact h1
    · rw [h2, del_del_filter]
    · intro x hx; rw [h3 x hx, get_put_ne _ _ hx]

theorem rmtree_run (ord : List FName) (fs st : FS) (d : Name) (h : get st d = get fs d)
    (ht : ∀ nd, get fs d = some nd → ∃ es, nd = .dir es) :
    ∃ st', runAll? (rmtreeOps ord fs d) st = some st' ∧ get st' d = none ∧
      ∀ x, x ≠ d → get st' x = get st x := by
  unfold rmtreeOps
  cases hd : get fs d with
  | none => exact ⟨st, rfl, by rw [h, hd], fun _ _ => rfl⟩
  | some nd =>
    obtain ⟨es, rfl⟩ := ht nd hd
    simp only []
    rw [hd] at h
    obtain ⟨st1, h1, h2, h3⟩ := unlinks_run d
      ((ord.filter (fun f => decide (f ∈ es.map (·.1)))) ++
        (es.map (·.1)).filter (fun f => decide (f ∉ ord))) st es h
    have hempty : es.filter (fun e => decide (e.1 ∉
        (ord.filter (fun f => decide (f ∈ es.map (·.1)))) ++
          (es.map (·.1)).filter (fun f => decide (f ∉ ord)))) = [] := by
      rw [List.filter_eq_nil_iff]
      intro e he
      have hmem : e.1 ∈ es.map (·.1) := List.mem_map_of_mem he
      by_cases ho : e.1 ∈ ord
      · simp [List.mem_filter, ho, hmem]
      · simp [List.mem_filter, ho, hmem]
    rw [hempty] at h2
    refine ⟨del st1 d, ?_, get_del_same _ _, ?_⟩
    · rw [runAll?_append, h1]
      simp [runAll?, Op.run, h2]
    · intro x hx; rw [get_del_ne _ hx, h3 x hx]

theorem pair_run (d : Name) (f : FName) (c : Content) (rest : List Op) (st : FS) (es : Dir)
    (h : get st d = some (.dir es)) :
    ∃ st', runAll? (.create d f :: .finish d f c :: rest) st = runAll? rest st' ∧
      get st' d = some (.dir (put (put es f .part) f (.full c))) ∧
      ∀ x, x ≠ d → get st' x = get st x := by
  refine ⟨put (put st d (.dir (put es f .part))) d (.dir (put (put es f .part) f (.full c))),
    ?_, get_put_same _ _ _, ?_⟩
  · simp [runAll?, Op.run, h, get_put_same]
  · intro x hx; rw [get_put_ne _ _ hx, get_put_ne _ _ hx]

theorem write_run (d : Name) (s : TrainState) (st : FS) (es : Dir) (h : get st d = some (.dir es)) :
    ∃ st' es', runAll? (writeOps d s) st = some st' ∧ get st' d = some (.dir es') ∧ Snap es' s ∧
      ∀ x, x ≠ d → get st' x = get st x := by
  unfold writeOps
  obtain ⟨s1, r1, g1, f1⟩ := pair_run d .model (.params s.params) _ st es h
  obtain ⟨s2, r2, g2, f2⟩ := pair_run d .config .cfg _ s1 _ g1
  obtain ⟨s3, r3, g3, f3⟩ := pair_run d .opt (.opt s.opt) _ s2 _ g2
  obtain ⟨s4, r4, g4, f4⟩ := pair_run d .replay (.replay s.replay) _ s3 _ g3
  obtain ⟨s5, r5, g5, f5⟩ := pair_run d .elapsed (.elapsed s.elapsed) [] s4 _ g4
  refine ⟨s5, _, ?_, g5, ?_, ?_⟩
  · rw [r1, r2, r3, r4, r5]; rfl
  · constructor <;> simp [get_put]
  · intro x hx; rw [f5 x hx, f4 x hx, f3 x hx, f2 x hx, f1 x hx]

/-- the staging phase always runs to its end under the typing invariant; afterwards `step_N`
    holds a complete snapshot of `s`, `step_N.tmp` is gone and nothing else has changed -/
theorem stage_run (ord : Name → List FName) (s : TrainState) (fs : FS) (ht : Typed fs) :
    ∃ st es, runAll? (stageOps ord s fs) fs = some st ∧
      get st (.step s.elapsed.step) = some (.dir es) ∧ Snap es s ∧
      get st (.stepTmp s.elapsed.step) = none ∧
      ∀ x, x ≠ .stepTmp s.elapsed.step → x ≠ .step s.elapsed.step → get st x = get fs x := by
  have hne : (Name.step s.elapsed.step) ≠ .stepTmp s.elapsed.step := by simp
  have tdir : ∀ nd, get fs (.stepTmp s.elapsed.step) = some nd → ∃ es, nd = .dir es := by
    intro nd h; have := ht _ _ h; cases nd <;> simp [OKType] at this; exact ⟨_, rfl⟩
  have sdir : ∀ nd, get fs (.step s.elapsed.step) = some nd → ∃ es, nd = .dir es := by
    intro nd h; have := ht _ _ h; cases nd <;> simp [OKType] at this; exact ⟨_, rfl⟩
  -- rmtree of a stale step_N.tmp
  obtain ⟨s1, r1, g1, f1⟩ := rmtree_run (ord (.stepTmp s.elapsed.step)) fs fs _ rfl tdir
  -- mkdir
  have r2 : (Op.mkdir (.stepTmp s.elapsed.step)).run s1
      = some (put s1 (.stepTmp s.elapsed.step) (.dir [])) := by simp [Op.run, g1]
  -- the five files
  obtain ⟨s3, es3, r3, g3, sn3, f3⟩ := write_run (.stepTmp s.elapsed.step) s
    (put s1 (.stepTmp s.elapsed.step) (.dir [])) [] (get_put_same _ _ _)
  -- rmtree of an orphan step_N
  have hs3 : get s3 (.step s.elapsed.step) = get fs (.step s.elapsed.step) := by
    rw [f3 _ hne, get_put_ne _ _ hne, f1 _ hne]
  obtain ⟨s4, r4, g4, f4⟩ := rmtree_run (ord (.step s.elapsed.step)) fs s3 _ hs3 sdir
  -- rename into place
  have g4t : get s4 (.stepTmp s.elapsed.step) = some (.dir es3) := by
    rw [f4 _ hne.symm, g3]
  have r5 : (Op.rename (.stepTmp s.elapsed.step) (.step s.elapsed.step)).run s4
      = some (put (del s4 (.stepTmp s.elapsed.step)) (.step s.elapsed.step) (.dir es3)) := by
    simp [Op.run, g4t, g4]
  refine ⟨put (del s4 (.stepTmp s.elapsed.step)) (.step s.elapsed.step) (.dir es3), es3, ?_,
    get_put_same _ _ _, sn3, ?_, ?_⟩
  · unfold stageOps
    simp only [runAll?_append, r1, Option.bind_some, runAll?, r2, r3, r4, r5]
  · rw [get_put_ne _ _ hne.symm, get_del_same]
  · intro x hx1 hx2
    rw [get_put_ne _ _ hx2, get_del_ne _ hx1, f4 x hx2, f3 x hx1, get_put_ne _ _ hx1, f1 x hx1]

/-- crash prefixes of the staging phase leave everything but `step_N.tmp`/`step_N` alone -/
theorem stage_prefix (ord : Name → List FName) (s : TrainState) (fs : FS) (ht : Typed fs)
    (k : Nat) :
    Typed (runPrefix k (stageOps ord s fs) fs) ∧
      ∀ x, x ≠ .stepTmp s.elapsed.step → x ≠ .step s.elapsed.step →
        get (runPrefix k (stageOps ord s fs) fs) x = get fs x := by
  refine runPrefix_inv
    (fun st => Typed st ∧ ∀ x, x ≠ .stepTmp s.elapsed.step → x ≠ .step s.elapsed.step →
      get st x = get fs x) ?_ ⟨ht, fun _ _ _ => rfl⟩ k
  intro op hop st st' ⟨hty, hfr⟩ hrun
  obtain ⟨hsh, hw⟩ := stageOps_local hop
  refine ⟨typed_run hty hsh hrun, ?_⟩
  intro x hx1 hx2
  rw [get_run_frame hrun, hfr x hx1 hx2]
  intro hmem
  rcases hw x hmem with e | e
  · exact hx1 e
  · exact hx2 e

/-- the three operations that switch `latest`, from a typed state -/
theorem link_run (n : Nat) (st : FS) (ht : Typed st) :
    ∃ s1 s2 s3, (Op.unlink .latestTmp false).run st = some s1 ∧
      (Op.symlink (.step n) .latestTmp).run s1 = some s2 ∧
      (Op.rename .latestTmp .latest).run s2 = some s3 ∧
      (∀ x, x ≠ .latestTmp → get s1 x = get st x) ∧
      (∀ x, x ≠ .latestTmp → get s2 x = get st x) ∧
      get s3 .latest = some (.link (.step n)) ∧
      (∀ x, x ≠ .latestTmp → x ≠ .latest → get s3 x = get st x) := by
  have h1 : ∃ s1, (Op.unlink .latestTmp false).run st = some s1 ∧ get s1 .latestTmp = none ∧
      ∀ x, x ≠ .latestTmp → get s1 x = get st x := by
    cases hl : get st .latestTmp with
    | none => exact ⟨st, by simp [Op.run, hl], hl, fun _ _ => rfl⟩
    | some nd =>
      have := ht _ _ hl
      cases nd <;> simp [OKType] at this
      exact ⟨del st .latestTmp, by simp [Op.run, hl], get_del_same _ _,
        fun x hx => get_del_ne _ hx⟩
  obtain ⟨s1, r1, g1, f1⟩ := h1
  have r2 : (Op.symlink (.step n) .latestTmp).run s1 = some (put s1 .latestTmp (.link (.step n))) := by
    simp [Op.run, g1]
  have hne : (Name.latest) ≠ .latestTmp := by simp
  have hlat : ∀ es, get (put s1 .latestTmp (.link (.step n))) .latest ≠ some (.dir es) := by
    intro es h
    rw [get_put_ne _ _ hne, f1 _ hne] at h
    have := ht _ _ h
    simp [OKType] at this
  have r3 : (Op.rename .latestTmp .latest).run (put s1 .latestTmp (.link (.step n)))
      = some (put (del (put s1 .latestTmp (.link (.step n))) .latestTmp) .latest (.link (.step n))) := by
    simp only [Op.run, get_put_same]
    -- (the inner match on `latest` is resolved by `simp` from `hlat`: `latest` is not a directory)
    rw [if_neg (by simp)]
  refine ⟨s1, _, _, r1, r2, r3, f1, ?_, get_put_same _ _ _, ?_⟩
  · intro x hx; rw [get_put_ne _ _ hx, f1 x hx]
  · intro x hx1 hx2
    rw [get_put_ne _ _ hx2, get_del_ne _ hx1, get_put_ne _ _ hx1, f1 x hx1]

/-- every crash prefix of the `latest` switch: `latest` is the old one or the new one,
    nothing else that matters has changed -/
theorem link_prefix (n : Nat) (st : FS) (ht : Typed st) (k : Nat) :
    (get (runPrefix k (linkOps n) st) .latest = get st .latest ∨
      get (runPrefix k (linkOps n) st) .latest = some (.link (.step n))) ∧
    ∀ x, x ≠ .latestTmp → x ≠ .latest → get (runPrefix k (linkOps n) st) x = get st x := by
  obtain ⟨s1, s2, s3, r1, r2, r3, f1, f2, g3, f3⟩ := link_run n st ht
  have hne : (Name.latest) ≠ .latestTmp := by simp
  match k with
  | 0 => exact ⟨Or.inl rfl, fun _ _ _ => rfl⟩
  | 1 =>
    simp only [runPrefix, linkOps, List.take, runAll, r1]
    exact ⟨Or.inl (f1 _ hne), fun x hx _ => f1 x hx⟩
  | 2 =>
    simp only [runPrefix, linkOps, List.take, runAll, r1, r2]
    exact ⟨Or.inl (f2 _ hne), fun x hx _ => f2 x hx⟩
  | k + 3 =>
    simp only [runPrefix, linkOps, List.take, List.take_nil, runAll, r1, r2, r3]
    exact ⟨Or.inr g3, f3⟩

theorem link_complete (n : Nat) (st : FS) (ht : Typed st) :
    ∃ s3, runAll? (linkOps n) st = some s3 ∧ get s3 .latest = some (.link (.step n)) ∧
      ∀ x, x ≠ .latestTmp → x ≠ .latest → get s3 x = get st x := by
  obtain ⟨s1, s2, s3, r1, r2, r3, _, _, g3, f3⟩ := link_run n st ht
  exact ⟨s3, by simp [linkOps, runAll?, r1, r2, r3], g3, f3⟩

end Tak.Snapshot

/-
  The proofs of the C13 property theorems (stated in Props/C13.lean).
-/
import TakVerif.Lemmas.TPSBoard

namespace Tak.TPS
open Tak.Spec.TPS

/-- format_is_standard: `format_tps` writes exactly what the TPS standard prescribes:
    ranks from the top rank down, files left to right, stacks bottom to top with the mark of
    the top piece, maximal runs of empty squares as `x`/`x<n>`, side to move, move number. -/
theorem format_is_standard (p : Pos) (h : TPSWF p) : formatTPS p = writeTPS p := by
  obtain ⟨⟨_, hlen⟩, _, _, hply, _⟩ := h
  have hrows : ∀ y ∈ (List.range p.size).reverse,
      formatRow (List.take p.size (List.drop (y * p.size) p.board)) = writeRank p y := by
    intro y hy
    have hy' : y < p.size := by simpa using hy
    have hb : y * p.size + p.size ≤ p.board.length := by
      rw [hlen]
      calc y * p.size + p.size = (y + 1) * p.size := by rw [Nat.add_mul]; omega
        _ ≤ p.size * p.size := Nat.mul_le_mul_right _ hy'
    rw [take_drop_eq_map_getD p.board (y * p.size) p.size [] hb, formatRow_eq, writeRank,
      commaSep_eq]
    rfl
  have hboard : joinSep '/' (List.map (fun r => formatRow (List.take p.size
      (List.drop (r * p.size) p.board))) (List.range p.size)).reverse = writeBoard p := by
    rw [writeBoard, slashSep_eq, ranksTopDown, ← List.map_reverse]
    congr 1
    exact List.map_congr_left hrows
  have hwho : intStr (p.ply % 2 + 1) = writePlayer p := by
    rcases who_text hply with ⟨e, t⟩ | ⟨e, t⟩
    · rw [t]; simp [writePlayer, Pos.toMove, e]
    · rw [t]; simp [writePlayer, Pos.toMove, e]
  have hmove : intStr (p.ply / 2 + 1) = (Nat.repr (moveNumber p)).toList := by
    rw [move_text hply, Nat.toList_repr, moveNumber, natStr]
  simp only [formatTPS, writeTPS]
  rw [hboard, hwho, hmove]
  simp [joinSep]

/-- the position `parse_tps` builds from the text of `p`: same size, ply and board; reserves
    are the STANDARD piece set of that size minus what is on the board -/
def reparsed (p : Pos) : Pos :=
  { size := p.size,
    wStones := defaultPieces p.size - (p.onBoard .white false : Nat),
    wCaps := defaultCaps p.size - (p.onBoard .white true : Nat),
    bStones := defaultPieces p.size - (p.onBoard .black false : Nat),
    bCaps := defaultCaps p.size - (p.onBoard .black true : Nat),
    ply := p.ply, board := p.board }

/-- parse_format: parsing the text of any position TPS can express gives back the
    same board, ply (side to move and move number) and size, with the reserves of the
    standard piece set. -/
theorem parse_format (p : Pos) (h : TPSWF p) : parseTPS (formatTPS p) = .ok (reparsed p) := by
  obtain ⟨⟨_, hlen⟩, h3, h8, hply, hx⟩ := h
  have hx' : ∀ s ∈ p.board, flatsBelowTop s = true := by simpa [List.all_eq_true] using hx
  have hlen' : p.board.length = p.size * p.size := hlen
  -- the three fields
  let Rs := chunks p.size p.size p.board
  have hRs : ∀ R ∈ Rs, R.length = p.size ∧ ∀ s ∈ R, flatsBelowTop s = true := fun R hR =>
    ⟨mem_chunks_length p.size p.size p.board hlen' R hR,
      fun s hs => hx' s (mem_chunks_mem p.size p.size p.board hR hs)⟩
  have hRlen : Rs.length = p.size := chunks_length _ _ _
  let rows := (Rs.map formatRow).reverse
  have hrows_ne : rows ≠ [] := by
    intro e
    have := congrArg List.length e
    simp only [rows, List.length_reverse, List.length_map, hRlen, List.length_nil] at this
    omega
  have hrows_clean : ∀ r ∈ rows, '/' ∉ r := by
    intro r hr hc
    simp only [rows, List.mem_reverse, List.mem_map] at hr
    obtain ⟨R, _, rfl⟩ := hr
    exact (formatRow_chars hc).2 rfl
  let b := joinSep '/' rows
  have hb_sp : ' ' ∉ b := by
    intro hc
    rcases mem_joinSep hc with e | ⟨r, hr, hc⟩
    · exact absurd e (by decide)
    · simp only [rows, List.mem_reverse, List.mem_map] at hr
      obtain ⟨R, _, rfl⟩ := hr
      exact (formatRow_chars hc).1 rfl
  have hform : formatTPS p = joinSep ' ' [b, intStr (p.ply % 2 + 1), intStr (p.ply / 2 + 1)] := by
    simp only [formatTPS, b, rows, Rs, board_rows]
  have hmove := move_text hply
  have hm_digits : isDigits (intStr (p.ply / 2 + 1)) = true := by rw [hmove]; exact isDigits_natStr _
  have hm_val : decVal (intStr (p.ply / 2 + 1)) = p.ply.toNat / 2 + 1 := by
    rw [hmove]; exact decVal_natStr _
  have hm_sp : ' ' ∉ intStr (p.ply / 2 + 1) := by
    rw [hmove]
    intro hc
    exact (clean_of_digits (fun c hc => isDigit_of_mem_natStr hc) _ hc).1 rfl
  have hw : (intStr (p.ply % 2 + 1) = ['1'] ∨ intStr (p.ply % 2 + 1) = ['2']) ∧
      ' ' ∉ intStr (p.ply % 2 + 1) ∧
      plyOf (intStr (p.ply % 2 + 1)) (intStr (p.ply / 2 + 1)) = p.ply := by
    rcases who_text hply with ⟨e, t⟩ | ⟨e, t⟩
    · rw [t]
      refine ⟨.inl rfl, by decide, ?_⟩
      have : decVal ['1'] = 1 := by decide
      rw [plyOf, hm_val, this]; omega
    · rw [t]
      refine ⟨.inr rfl, by decide, ?_⟩
      have : decVal ['2'] = 2 := by decide
      rw [plyOf, hm_val, this]; omega
  obtain ⟨hw12, hw_sp, hplyOf⟩ := hw
  have hsplit : splitOn ' ' (formatTPS p) =
      [b, intStr (p.ply % 2 + 1), intStr (p.ply / 2 + 1)] := by
    rw [hform]
    apply splitOn_joinSep (by simp)
    intro x hx
    simp only [List.mem_cons, List.not_mem_nil, or_false] at hx
    rcases hx with rfl | rfl | rfl
    · exact hb_sp
    · exact hw_sp
    · exact hm_sp
  have hsb : splitOn '/' b = rows := splitOn_joinSep hrows_ne hrows_clean
  have hrl : rows.length = p.size := by simp [rows, hRlen]
  have hparse : parseRows p.size rows.reverse [] = .ok p.board := by
    have := parseRows_formatRows p.size (by omega) h8 Rs [] hRs
    simp only [rows, List.reverse_reverse, this, List.nil_append]
    rw [chunks_flatten p.size p.size p.board hlen']
  have hfs : Pos.fromSquares (Config.standard p.size) p.board p.ply = some (reparsed p) := by
    simp [Pos.fromSquares, hlen', Config.standard, reparsed, Pos.onBoard]
  -- run the parser
  unfold parseTPS
  rw [hsplit]
  simp only
  have hnw : ¬ (intStr (p.ply % 2 + 1) ≠ ['1'] ∧ intStr (p.ply % 2 + 1) ≠ ['2']) := by
    rcases hw12 with e | e <;> simp [e]
  rw [if_neg hnw]
  have hnm : (!isDigits (intStr (p.ply / 2 + 1)) || decide (decVal (intStr (p.ply / 2 + 1)) < 1))
      = false := by
    rw [hm_digits, hm_val]; simp
  rw [hnm]
  simp only [Bool.false_eq_true, ↓reduceIte, hsb, hrl]
  have hsz : ¬ ¬ (3 ≤ p.size ∧ p.size ≤ 8) := by simp [h3, h8]
  rw [if_neg hsz, hparse]
  simp only
  have := hplyOf
  rw [plyOf] at this
  rw [this, hfs]

/-- corollary: a position whose reserves are the standard set minus the pieces on the board
    (every position reached by play from the standard opening) round-trips EXACTLY -/
theorem parse_format_exact (p : Pos) (h : TPSWF p) (hr : reparsed p = p) :
    parseTPS (formatTPS p) = .ok p := by
  rw [parse_format p h, hr]

/-- format_parse: a canonical text that is accepted is reproduced character for
    character by formatting the parsed position. -/
theorem format_parse (t : List Char) (p : Pos) (hc : Canonical t)
    (h : parseTPS t = .ok p) : formatTPS p = t := by
  obtain ⟨b, w, m, squares, hsp, hw, hmd, hmv, h3, h8, hrows, hfs⟩ := parseTPS_ok h
  obtain ⟨hsl, hsize, hply, hboard⟩ := fromSquares_some hfs
  simp only [Config.standard] at hsl hsize
  -- canonical: rows and move number
  have hcan : (∀ r ∈ splitOn '/' b, rowCanonical r = true) ∧ m.head? ≠ some '0' := by
    have := hc
    simp only [Canonical, canonicalb, fields_eq_splitOn, hsp, Bool.and_eq_true, List.all_eq_true,
      bne_iff_ne, ne_eq] at this
    exact ⟨this.2.1, this.2.2⟩
  obtain ⟨Rs, hout, hRl, hRm⟩ := parseRows_canonical _ _ _ _ hrows
    (fun r hr => hcan.1 r (by simpa using hr))
  simp only [List.nil_append] at hout
  have hRsl : Rs.length = (splitOn '/' b).length := by
    have := congrArg List.length hRm
    simpa using this
  -- the board field
  have hb : joinSep '/' ((chunks p.size p.size p.board).map formatRow).reverse = b := by
    rw [hboard, hsize, hout]
    have := chunks_of_flatten (splitOn '/' b).length Rs hRl
    rw [hRsl] at this
    rw [this, hRm, List.reverse_reverse, joinSep_splitOn]
  -- digits of the move number
  have hmd' : m ≠ [] ∧ ∀ c ∈ m, c.isDigit = true := by
    simp only [isDigits, Bool.and_eq_true, Bool.not_eq_true', List.isEmpty_eq_false_iff,
      List.all_eq_true] at hmd
    exact hmd
  have hmstr : natStr (decVal m) = m := natStr_decVal' hmd'.1 hmd'.2 hcan.2
  have hwv : (decVal w = 1 ∧ w = ['1']) ∨ (decVal w = 2 ∧ w = ['2']) := by
    rcases hw with e | e
    · left; subst e; exact ⟨by decide, rfl⟩
    · right; subst e; exact ⟨by decide, rfl⟩
  have hp0 : 0 ≤ p.ply := by rw [hply, plyOf]; rcases hwv with ⟨e, _⟩ | ⟨e, _⟩ <;> omega
  have hwho : intStr (p.ply % 2 + 1) = w := by
    rcases hwv with ⟨e, e'⟩ | ⟨e, e'⟩
    · have : p.ply % 2 = 0 := by rw [hply, plyOf]; omega
      rw [this, e']; decide
    · have : p.ply % 2 = 1 := by rw [hply, plyOf]; omega
      rw [this, e']; decide
  have hmove : intStr (p.ply / 2 + 1) = m := by
    rw [move_text hp0]
    have : p.ply.toNat / 2 + 1 = decVal m := by
      rw [hply, plyOf]; rcases hwv with ⟨e, _⟩ | ⟨e, _⟩ <;> omega
    rw [this, hmstr]
  have hform : formatTPS p = joinSep ' ' [joinSep '/' ((chunks p.size p.size p.board).map
      formatRow).reverse, intStr (p.ply % 2 + 1), intStr (p.ply / 2 + 1)] := by
    simp only [formatTPS, board_rows]
  rw [hform, hb, hwho, hmove, ← hsp, joinSep_splitOn]

/-- sound: nothing outside the TPS grammar is accepted (malformed text is refused,
    never silently reinterpreted). -/
theorem sound (t : List Char) (p : Pos) (h : parseTPS t = .ok p) : Grammar t := by
  obtain ⟨b, w, m, squares, hsp, hw, hmd, hmv, h3, h8, hrows, _⟩ := parseTPS_ok h
  have hrs := (parseRows_sound _ _ _ _ hrows).1
  have hmd' : m ≠ [] ∧ ∀ c ∈ m, c.isDigit = true := by
    simp only [isDigits, Bool.and_eq_true, Bool.not_eq_true', List.isEmpty_eq_false_iff,
      List.all_eq_true] at hmd
    exact hmd
  simp only [Grammar, grammarb, fields_eq_splitOn, hsp, Bool.and_eq_true]
  refine ⟨⟨?_, ?_⟩, ?_⟩
  · simp only [isBoard, fields_eq_splitOn, Bool.and_eq_true, decide_eq_true_eq, List.all_eq_true]
    exact ⟨⟨h3, h8⟩, fun r hr => hrs r (by simpa using hr)⟩
  · rcases hw with e | e <;> subst e <;> decide
  · simp only [isNumber, Bool.and_eq_true, Bool.not_eq_true', List.isEmpty_eq_false_iff,
      List.all_eq_true, List.any_eq_true, decide_eq_true_eq]
    refine ⟨⟨hmd'.1, ?_⟩, ?_⟩
    · intro c hc
      have := (isDigit_iff c).mp (hmd'.2 c hc)
      have e0 : ('0' : Char).toNat = 48 := rfl
      have e9 : ('9' : Char).toNat = 57 := rfl
      constructor
      · show ('0' : Char).val ≤ c.val
        rw [UInt32.le_iff_toNat_le]; show ('0' : Char).toNat ≤ c.toNat; omega
      · show c.val ≤ ('9' : Char).val
        rw [UInt32.le_iff_toNat_le]; show c.toNat ≤ ('9' : Char).toNat; omega
    · obtain ⟨c, hc, hc0⟩ := (decVal_pos_iff hmd'.2).mp hmv
      exact ⟨c, hc, by simpa using hc0⟩

/-- no_crash: the only way `parse_tps` fails is its own error: no input reaches an
    `IndexError`/`ValueError`/… branch (in particular `Position.from_squares` always receives
    `size*size` squares). -/
theorem no_crash (t : List Char) (c : String) : parseTPS t ≠ .error (.crash c) := by
  intro h
  unfold parseTPS at h
  split at h
  · rename_i b w m hsp
    split at h
    · cases h
    · split at h
      · cases h
      · simp only at h
        split at h
        · cases h
        · split at h
          · rename_i e he
            cases h
            exact parseRows_not_crash _ _ _ _ he
          · rename_i squares hsq
            split at h
            · rename_i hnone
              have hl := (parseRows_sound _ _ _ _ hsq).2
              simp only [List.length_nil, Nat.zero_add, List.length_reverse] at hl
              simp [Pos.fromSquares, Config.standard, hl] at hnone
            · cases h
  · cases h

end Tak.TPS

/-
  Helper lemmas for C20: several live epoch iterators over one dataset object (`Sess`).
  Invariant: the dataset has advanced by exactly `draws` epochs; every started iterator holds,
  split into what it has yielded and what is left, exactly the epoch of the draw that started it;
  started iterators own distinct draws.
-/
import TakVerif.Lemmas.BatchEpoch

namespace Tak
namespace BatchLemmas
open Tak.Batch

section sess
variable {α G : Type} (R : RNG G)

theorem after_succ_right (m : Nat) (ds : Ds α G) :
    Ds.after R (m + 1) ds = ((Ds.after R m ds).iter R).2 := by
  induction m generalizing ds with
  | zero => rfl
  | succ m ih => rw [Ds.after, ih]; rfl

theorem after_add (d n : Nat) (ds : Ds α G) :
    Ds.after R n (Ds.after R d ds) = Ds.after R (d + n) ds := by
  induction d generalizing ds with
  | zero => simp [Ds.after]
  | succ d ih => rw [Ds.after, ih, Nat.add_right_comm]; rfl

/-- the epoch produced by the `e`-th draw (counting from 0) of the dataset `ds0` -/
def epochOf (ds0 : Ds α G) (e : Nat) : List (List (List α)) := ((Ds.after R e ds0).iter R).1

theorem epochOf_eq_stream (ds0 : Ds α G) (e : Nat) :
    (Ds.stream R (e + 1) ds0)[e]? = some (epochOf R ds0 e) := by
  rw [stream_add, List.getElem?_append_right (by rw [stream_length]; exact Nat.le_refl e), stream_length,
    Nat.sub_self]
  simp [Ds.stream, epochOf]

theorem step_next_closed (s : Sess α G) (j : Nat) (hc : s.closed.contains j = true) :
    s.step R (.next j) = (s, .stop) := by simp only [Sess.step, hc, if_true]

theorem step_next_none (s : Sess α G) (j : Nat) (hc : s.closed.contains j = false)
    (h : s.iters[j]? = none) :
    s.step R (.next j) = (s, .noIter) := by
  simp only [Sess.step, hc, Bool.false_eq_true, if_false, h]

theorem step_next_unstarted (s : Sess α G) (j : Nat) (hc : s.closed.contains j = false)
    (h : s.iters[j]? = some none) :
    s.step R (.next j) = s.startIter R j := by
  simp only [Sess.step, hc, Bool.false_eq_true, if_false, h]

theorem step_next_started (s : Sess α G) (j : Nat) (it : EpochIter α)
    (hc : s.closed.contains j = false)
    (h : s.iters[j]? = some (some it)) : s.step R (.next j) = s.advance j it := by
  simp only [Sess.step, hc, Bool.false_eq_true, if_false, h]

structure SessInv (ds0 : Ds α G) (s : Sess α G) : Prop where
  ds_eq : s.ds = Ds.after R s.draws ds0
  started : ∀ (j : Nat) (it : EpochIter α), s.iters[j]? = some (some it) →
    it.epoch < s.draws ∧ it.yielded ++ it.rest = epochOf R ds0 it.epoch
  distinct : ∀ (j k : Nat) (it it' : EpochIter α), j ≠ k →
    s.iters[j]? = some (some it) → s.iters[k]? = some (some it') → it.epoch ≠ it'.epoch

theorem sessInv_init (ds0 : Ds α G) : SessInv R ds0 (Sess.init ds0) :=
  ⟨rfl, by intro j it h; simp [Sess.init] at h, by intro j k it it' _ h; simp [Sess.init] at h⟩

theorem getElem?_set_some {β : Type} {l : List β} {j k : Nat} {a b : β}
    (h : (l.set j a)[k]? = some b) : (k = j ∧ b = a) ∨ (k ≠ j ∧ l[k]? = some b) := by
  rw [List.getElem?_set] at h
  split at h
  · next hjk =>
    split at h
    · left; exact ⟨hjk.symm, (Option.some.inj h).symm⟩
    · cases h
  · next hjk => right; exact ⟨fun e => hjk e.symm, h⟩

theorem getElem?_append_none {β : Type} {l : List (Option β)} {i : Nat} {x : β}
    (hi : (l ++ [none])[i]? = some (some x)) : l[i]? = some (some x) := by
  rcases Nat.lt_or_ge i l.length with hl | hl
  · rwa [List.getElem?_append_left hl] at hi
  · rw [List.getElem?_append_right hl] at hi
    cases hq : i - l.length with
    | zero => rw [hq] at hi; simp at hi
    | succ q => rw [hq] at hi; simp at hi

/-- a started iterator is put into slot `j`, whose epoch is the current draw -/
theorem sessInv_start (ds0 : Ds α G) (s : Sess α G) (j : Nat) (h : SessInv R ds0 s)
    (y r : List (List (List α))) (hyr : y ++ r = (s.ds.iter R).1) :
    SessInv R ds0 { s with ds := (s.ds.iter R).2, draws := s.draws + 1,
                           iters := s.iters.set j (some ⟨s.draws, y, r⟩) } := by
  have hep : (s.ds.iter R).1 = epochOf R ds0 s.draws := by rw [h.ds_eq]; rfl
  have hds : (s.ds.iter R).2 = Ds.after R (s.draws + 1) ds0 := by
    rw [after_succ_right, h.ds_eq]
  refine ⟨hds, ?_, ?_⟩
  · intro k it hk
    rcases getElem?_set_some hk with ⟨_, hit⟩ | ⟨_, hk'⟩
    · cases hit
      exact ⟨Nat.lt_succ_self _, by rw [← hep]; exact hyr⟩
    · have := h.started k it hk'
      exact ⟨Nat.lt_succ_of_lt this.1, this.2⟩
  · intro a b it it' hab ha hb
    rcases getElem?_set_some ha with ⟨haj, hit⟩ | ⟨haj, ha'⟩ <;>
      rcases getElem?_set_some hb with ⟨hbj, hit'⟩ | ⟨hbj, hb'⟩
    · exact absurd (haj.trans hbj.symm) hab
    · cases hit
      have := (h.started b it' hb').1
      intro e; simp only at e; omega
    · cases hit'
      have := (h.started a it ha').1
      intro e; simp only at e; omega
    · exact h.distinct a b it it' hab ha' hb'

theorem sessInv_startIter (ds0 : Ds α G) (s : Sess α G) (j : Nat) (h : SessInv R ds0 s) :
    SessInv R ds0 (s.startIter R j).1 := by
  unfold Sess.startIter
  cases hbs : (s.ds.iter R).1 with
  | nil => exact sessInv_start R ds0 s j h [] [] (by rw [hbs]; rfl)
  | cons b r => exact sessInv_start R ds0 s j h [b] r (by rw [hbs]; rfl)

theorem sessInv_advance (ds0 : Ds α G) (s : Sess α G) (j : Nat) (it : EpochIter α)
    (hj : s.iters[j]? = some (some it)) (h : SessInv R ds0 s) :
    SessInv R ds0 (s.advance j it).1 := by
  unfold Sess.advance
  cases hr : it.rest with
  | nil => exact h
  | cons b r =>
    have hst := h.started j it hj
    refine ⟨h.ds_eq, ?_, ?_⟩
    · intro k it2 hk
      rcases getElem?_set_some hk with ⟨_, hit⟩ | ⟨_, hk'⟩
      · cases hit
        refine ⟨hst.1, ?_⟩
        show (it.yielded ++ [b]) ++ r = _
        rw [List.append_assoc, List.singleton_append, ← hr]; exact hst.2
      · exact h.started k it2 hk'
    · intro a c ia ic hac ha hc
      rcases getElem?_set_some ha with ⟨haj, hia⟩ | ⟨haj, ha'⟩ <;>
        rcases getElem?_set_some hc with ⟨hcj, hic⟩ | ⟨hcj, hc'⟩
      · exact absurd (haj.trans hcj.symm) hac
      · cases hia
        exact h.distinct j c it ic (fun e => hcj e.symm) hj hc'
      · cases hic
        exact h.distinct a j ia it haj ha' hj
      · exact h.distinct a c ia ic hac ha' hc'

theorem sessInv_step (ds0 : Ds α G) (s : Sess α G) (op : SessOp) (h : SessInv R ds0 s) :
    SessInv R ds0 (s.step R op).1 := by
  cases op with
  | mk =>
    refine ⟨h.ds_eq, ?_, ?_⟩
    · intro j it hj
      exact h.started j it (getElem?_append_none hj)
    · intro j k it it' hjk hj hk
      exact h.distinct j k it it' hjk (getElem?_append_none hj) (getElem?_append_none hk)
  | ff n =>
    refine ⟨?_, ?_, ?_⟩
    · show Ds.fastforward R n s.ds = Ds.after R (s.draws + n) ds0
      rw [fastforward_eq_after, h.ds_eq, after_add]
    · intro j it hj
      have := h.started j it hj
      exact ⟨Nat.lt_of_lt_of_le this.1 (Nat.le_add_right _ _), this.2⟩
    · intro j k it it' hjk hj hk
      exact h.distinct j k it it' hjk hj hk
  | close j => exact ⟨h.ds_eq, h.started, h.distinct⟩
  | next j =>
    cases hc : s.closed.contains j with
    | true => rw [step_next_closed R s j hc]; exact h
    | false =>
      cases hj : s.iters[j]? with
      | none => rw [step_next_none R s j hc hj]; exact h
      | some oi =>
        cases oi with
        | none => rw [step_next_unstarted R s j hc hj]; exact sessInv_startIter R ds0 s j h
        | some it => rw [step_next_started R s j it hc hj]; exact sessInv_advance R ds0 s j it hj h

theorem sessInv_run (ds0 : Ds α G) (ops : List SessOp) (s : Sess α G) (h : SessInv R ds0 s) :
    SessInv R ds0 (Sess.run R s ops).1 := by
  induction ops generalizing s with
  | nil => exact h
  | cons op ops ih => exact ih _ (sessInv_step R ds0 s op h)

/-! what iterator `j` has yielded is what `next(it_j)` returned -/

/-- `yielded` of iterator `j` (empty while it has not started) -/
def yieldedOf (s : Sess α G) (j : Nat) : List (List (List α)) :=
  match s.iters[j]? with
  | some (some it) => it.yielded
  | _ => []

theorem yieldedOf_set_self (s : Sess α G) (j : Nat) (it : EpochIter α) (hlt : j < s.iters.length)
    (ds : Ds α G) (d : Nat) :
    yieldedOf ({ s with ds := ds, draws := d, iters := s.iters.set j (some it) } : Sess α G) j = it.yielded := by
  simp [yieldedOf, hlt]

theorem yieldedOf_set_other (s : Sess α G) (j k : Nat) (it : EpochIter α) (hjk : k ≠ j)
    (ds : Ds α G) (d : Nat) :
    yieldedOf ({ s with ds := ds, draws := d, iters := s.iters.set k (some it) } : Sess α G) j = yieldedOf s j := by
  simp [yieldedOf, hjk]

theorem yieldedOf_step (s : Sess α G) (op : SessOp) (j : Nat) :
    yieldedOf ((s.step R op).1) j = yieldedOf s j ++ batchesOf j [(op, (s.step R op).2)] := by
  cases op with
  | mk =>
    simp only [Sess.step, yieldedOf, batchesOf, List.append_nil]
    rcases Nat.lt_or_ge j s.iters.length with hl | hl
    · rw [List.getElem?_append_left hl]
    · rw [List.getElem?_append_right hl, List.getElem?_eq_none hl]
      cases hq : j - s.iters.length <;> simp
  | ff n => simp [Sess.step, yieldedOf, batchesOf]
  | close k => simp [Sess.step, yieldedOf, batchesOf]
  | next k =>
    cases hc : s.closed.contains k with
    | true => rw [step_next_closed R s k hc]; simp [batchesOf]
    | false =>
    cases hk : s.iters[k]? with
    | none => rw [step_next_none R s k hc hk]; simp [batchesOf]
    | some oi =>
      have hlt : k < s.iters.length := by
        rcases Nat.lt_or_ge k s.iters.length with h | h
        · exact h
        · rw [List.getElem?_eq_none h] at hk; cases hk
      cases oi with
      | none =>
        rw [step_next_unstarted R s k hc hk]
        unfold Sess.startIter
        have hys : k = j → yieldedOf s j = [] := by
          intro e; subst e; simp [yieldedOf, hk]
        cases hbs : (s.ds.iter R).1 with
        | nil =>
          by_cases hjk : k = j
          · subst hjk
            simp only [batchesOf, List.append_nil]
            rw [yieldedOf_set_self s k _ hlt, hys rfl]
          · simp only [batchesOf, List.append_nil]
            rw [yieldedOf_set_other s j k _ hjk]
        | cons b r =>
          by_cases hjk : k = j
          · subst hjk
            simp only [batchesOf, if_true]
            rw [yieldedOf_set_self s k _ hlt, hys rfl]; rfl
          · simp only [batchesOf, if_neg hjk, List.append_nil]
            rw [yieldedOf_set_other s j k _ hjk]
      | some it =>
        rw [step_next_started R s k it hc hk]
        unfold Sess.advance
        have hys : k = j → yieldedOf s j = it.yielded := by
          intro e; subst e; simp [yieldedOf, hk]
        cases hr : it.rest with
        | nil => simp [batchesOf]
        | cons b r =>
          by_cases hjk : k = j
          · subst hjk
            simp only [batchesOf, if_true]
            rw [yieldedOf_set_self s k _ hlt, hys rfl]
          · simp only [batchesOf, if_neg hjk, List.append_nil]
            rw [yieldedOf_set_other s j k _ hjk]

theorem batchesOf_cons (j : Nat) (x : SessOp × SessOut α) (tr : List (SessOp × SessOut α)) :
    batchesOf j (x :: tr) = batchesOf j [x] ++ batchesOf j tr := by
  obtain ⟨op, o⟩ := x
  cases op <;> cases o <;> simp [batchesOf]
  split <;> simp

theorem yieldedOf_run (ops : List SessOp) (s : Sess α G) (j : Nat) :
    yieldedOf (Sess.run R s ops).1 j = yieldedOf s j ++ batchesOf j (Sess.run R s ops).2 := by
  induction ops generalizing s with
  | nil => simp [Sess.run, batchesOf]
  | cons op ops ih =>
    simp only [Sess.run]
    rw [ih, yieldedOf_step, List.append_assoc, ← batchesOf_cons]

end sess

end BatchLemmas
end Tak

/-
  The list built by `symmetries(pos)`: first-occurrence de-duplication of the eight images.
-/
import TakVerif.Lemmas.SymMove

namespace Tak
namespace Sym
open Mat3

/-- the identity matrix leaves a well-formed position alone -/
theorem transformPos_ident {p : Pos} (hwf : p.WF) : transformPos ident p = p := by
  have : Rel ident p.size p.board p.board :=
    ⟨hwf.2, hwf.2, fun x y _ => by simp only [sx, sy, ax_ident, ay_ident]⟩
  have e := rel_eq_scatter ident_mem this
  unfold transformPos
  rw [← e]

/-- one iteration of the loop of `symmetries` -/
def vstep (p : Pos) (out : List (Mat3 × Pos)) (s : Mat3) : List (Mat3 × Pos) :=
  if out.all (fun e => decide (transformPos s p ≠ e.2)) then out ++ [(s, transformPos s p)] else out

theorem vstep_nil_ident {p : Pos} (hwf : p.WF) : vstep p [] ident = [(ident, p)] := by
  simp [vstep, transformPos_ident hwf]

theorem symmetriesOf_eq (l : List Mat3) (p : Pos) : symmetriesOf l p = l.foldl (vstep p) [] := rfl

theorem vfold_inv (p : Pos) (l : List Mat3) (acc : List (Mat3 × Pos))
    (hnd : (acc.map (·.2)).Nodup) :
    ((l.foldl (vstep p) acc).map (·.2)).Nodup ∧
    (∃ r, l.foldl (vstep p) acc = acc ++ r) ∧
    (∀ s ∈ l, transformPos s p ∈ (l.foldl (vstep p) acc).map (·.2)) ∧
    (∀ e ∈ l.foldl (vstep p) acc, e ∈ acc ∨ (e.1 ∈ l ∧ e.2 = transformPos e.1 p)) := by
  induction l generalizing acc with
  | nil => exact ⟨hnd, ⟨[], by simp⟩, by simp, fun e he => .inl he⟩
  | cons s l ih =>
    rw [List.foldl_cons]
    have hstep : ((vstep p acc s).map (·.2)).Nodup ∧ (∃ r, vstep p acc s = acc ++ r) ∧
        transformPos s p ∈ (vstep p acc s).map (·.2) ∧
        (∀ e ∈ vstep p acc s, e ∈ acc ∨ (e.1 = s ∧ e.2 = transformPos s p)) := by
      unfold vstep
      by_cases hc : acc.all (fun e => decide (transformPos s p ≠ e.2)) = true
      · rw [if_pos hc]
        have hnot : transformPos s p ∉ acc.map (·.2) := by
          intro hmem
          obtain ⟨e, he, ee⟩ := List.mem_map.1 hmem
          have := List.all_eq_true.1 hc e he
          simp only [decide_eq_true_eq] at this
          exact this ee.symm
        refine ⟨?_, ⟨_, rfl⟩, by simp, ?_⟩
        · rw [List.map_append, List.nodup_append]
          refine ⟨hnd, by simp, ?_⟩
          intro a ha b hb
          simp only [List.map_cons, List.map_nil, List.mem_singleton] at hb
          subst hb
          intro e; subst e; exact hnot ha
        · intro e he
          rcases List.mem_append.1 he with h | h
          · exact .inl h
          · simp only [List.mem_singleton] at h; subst h; exact .inr ⟨rfl, rfl⟩
      · rw [if_neg hc]
        refine ⟨hnd, ⟨[], by simp⟩, ?_, fun e he => .inl he⟩
        simp only [Bool.not_eq_true] at hc
        have : ¬ (∀ e ∈ acc, decide (transformPos s p ≠ e.2) = true) := by
          intro hall
          have := List.all_eq_true.2 hall
          rw [hc] at this; cases this
        have : ∃ e ∈ acc, transformPos s p = e.2 := by
          apply Classical.byContradiction
          intro hne
          apply this
          intro e he
          simp only [decide_eq_true_eq]
          intro eq
          exact hne ⟨e, he, eq⟩
        obtain ⟨e, he, eq⟩ := this
        exact List.mem_map.2 ⟨e, he, eq.symm⟩
    obtain ⟨h1, ⟨r1, h2⟩, h3, h4⟩ := hstep
    obtain ⟨i1, ⟨r2, i2⟩, i3, i4⟩ := ih (vstep p acc s) h1
    refine ⟨i1, ⟨r1 ++ r2, by rw [i2, h2, List.append_assoc]⟩, ?_, ?_⟩
    · intro s0 hs0
      rcases List.mem_cons.1 hs0 with rfl | hs0
      · rw [i2, List.map_append]; exact List.mem_append_left _ h3
      · exact i3 s0 hs0
    · intro e he
      rcases i4 e he with h | ⟨h, h'⟩
      · rcases h4 e h with h | ⟨h, h'⟩
        · exact .inl h
        · exact .inr ⟨by rw [h]; exact List.mem_cons_self, by rw [h', h]⟩
      · exact .inr ⟨List.mem_cons_of_mem _ h, h'⟩

end Sym
end Tak

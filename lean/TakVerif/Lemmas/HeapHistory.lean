/-
  Heap lemmas, part 4: histories — arbitrary interleavings of operations against a growing
  set of retained positions.
-/
import TakVerif.Lemmas.HeapMove
import TakVerif.Lemmas.HeapSources

namespace Tak
namespace HeapModel

/-- what one step may do to the world: the heap only grows, the retained list only grows,
    every retained position stays well-formed -/
structure Extends (w w' : World) : Prop where
  frame : Frame w.heap w'.heap
  kept : ∃ t, w'.kept = w.kept ++ t
  wf : w'.WF

theorem Extends.refl {w : World} (hw : w.WF) : Extends w w := ⟨Frame.refl _, ⟨[], by simp⟩, hw⟩

theorem Extends.trans {a b c : World} (x : Extends a b) (y : Extends b c) : Extends a c := by
  obtain ⟨t1, h1⟩ := x.kept
  obtain ⟨t2, h2⟩ := y.kept
  exact ⟨x.frame.trans y.frame, ⟨t1 ++ t2, by rw [h2, h1, List.append_assoc]⟩, y.wf⟩

theorem keepR_extends {w : World} (hw : w.WF) (r : Heap × Except Err HPos) (f : Frame w.heap r.1)
    (g : ∀ hp', r.2 = .ok hp' → HWF r.1 hp') : Extends w (keepR w r) := by
  obtain ⟨h1, r1⟩ := r
  cases r1 with
  | error e =>
    exact ⟨f, ⟨[], by simp [keepR]⟩, fun hp hm => (hw hp hm).frame f⟩
  | ok hp' =>
    refine ⟨f, ⟨[hp'], by simp [keepR]⟩, ?_⟩
    intro hp hm
    simp only [keepR, List.mem_append, List.mem_singleton] at hm
    rcases hm with hm | rfl
    · exact (hw hp hm).frame f
    · exact g _ rfl

theorem step_extends {w : World} (hw : w.WF) (op : Op) : Extends w (step w op) := by
  cases op with
  | move k m =>
    simp only [step]
    split
    · exact Extends.refl hw
    · next hp hk =>
      have w0 : HWF w.heap hp := hw hp (List.mem_of_getElem? hk)
      exact keepR_extends hw _ (hMove_frame _ _ _) (hMove_spec w0 m).1
  | transform k table =>
    simp only [step]
    split
    · exact Extends.refl hw
    · next hp hk =>
      have w0 : HWF w.heap hp := hw hp (List.mem_of_getElem? hk)
      exact keepR_extends hw _ (hTransform_spec w0 table).1 (hTransform_spec w0 table).2
  | parse rows ply =>
    exact keepR_extends hw _ (hParseTPS_spec _ rows ply).1 (hParseTPS_spec _ rows ply).2
  | decode sc toks =>
    exact keepR_extends hw _ (hDecode_spec _ sc toks).1 (hDecode_spec _ sc toks).2
  | adopt sc srcs =>
    obtain ⟨f, g⟩ := hAdopt_spec hw sc srcs
    simp only [step]
    generalize hAdopt w.heap w.kept sc srcs = res at *
    obtain ⟨h1, r1⟩ := res
    cases r1 with
    | none => exact ⟨f, ⟨[], by simp⟩, fun hp hm => (hw hp hm).frame f⟩
    | some hp' =>
      refine ⟨f, ⟨[hp'], rfl⟩, ?_⟩
      intro hp hm
      simp only [List.mem_append, List.mem_singleton] at hm
      rcases hm with hm | rfl
      · exact (hw hp hm).frame f
      · exact g _ rfl

theorem run_extends {w : World} (hw : w.WF) (ops : List Op) : Extends w (run w ops) := by
  induction ops generalizing w with
  | nil => exact Extends.refl hw
  | cons op rest ih =>
    have s := step_extends hw op
    exact s.trans (ih s.wf)

theorem run_append (w : World) (a b : List Op) : run w (a ++ b) = run (run w a) b := by
  simp [run, List.foldl_append]

theorem empty_wf : World.empty.WF := by intro hp hm; cases hm

end HeapModel
end Tak

/-
  `PTN.parse` on rendered games: header split, tag scan, comment removal, token split, token loop.
-/
import TakVerif.Lemmas.PTNParse

namespace Tak.C14
open Tak Tak.PTN

/-! ### hypotheses on what is rendered -/

/-- a tag line `[key "value"]`: the key is a non-empty `\w+` word, the value holds no quote and no newline -/
def TagOK (kv : List Char × List Char) : Prop :=
  kv.1 ≠ [] ∧ (∀ c ∈ kv.1, pyWord c = true) ∧ (∀ c ∈ kv.2, c ≠ '"' ∧ c ≠ '\n')

/-- white space is any `\s` character; a comment body is anything without a closing brace
    (it may be empty, hold newlines, opening braces, moves) -/
def AtomOK : GapAtom → Prop
  | .ws c => pySpace c = true
  | .comment b => '}' ∉ b

def asciiDigits : List Char := ['0', '1', '2', '3', '4', '5', '6', '7', '8', '9']

def ItemOK : Item → Prop
  | .move t a => (∃ m, parseMove t = .ok m) ∧ ∀ c ∈ a, isAnnot c = true
  | .number d => d ≠ [] ∧ ∀ c ∈ d, c ∈ asciiDigits
  | .dashes => True
  | .result a b => a < 5 ∧ b < 5

/-- every element is well formed and is followed by a non-empty gap, except that the last element's
    gap may be empty (a text need not end in white space) -/
def ItemsOK : List (Item × List GapAtom) → Prop
  | [] => True
  | [p] => ItemOK p.1 ∧ ∀ a ∈ p.2, AtomOK a
  | p :: q :: rest => ItemOK p.1 ∧ (∀ a ∈ p.2, AtomOK a) ∧ p.2 ≠ [] ∧ ItemsOK (q :: rest)

/-- the moves of a body, in order -/
def movesOf (items : List (Item × List GapAtom)) : List Move :=
  items.filterMap fun p =>
    match p.1 with
    | .move t _ => (match parseMove t with | .ok m => some m | .error _ => none)
    | _ => none

/-! ### header: `split("\n\n", 1)` -/

theorem splitBlank_append (l s : List Char) (h : ∀ c ∈ l, c ≠ '\n') :
    splitBlank (l ++ s) = (splitBlank s).map fun p => (l ++ p.1, p.2) := by
  induction l with
  | nil => simp
  | cons c t ih =>
    have hc : c ≠ '\n' := h c (by simp)
    have := ih (fun c' hc' => h c' (List.mem_cons_of_mem _ hc'))
    simp only [List.cons_append, splitBlank]
    rw [if_neg (by simp [hc]), this]
    cases splitBlank s <;> simp

theorem pyWord_ne_nl {c : Char} (h : pyWord c = true) : c ≠ '\n' := by
  intro e; subst e; revert h; decide +kernel

theorem pyWord_ne_space {c : Char} (h : pyWord c = true) : c ≠ ' ' := by
  intro e; subst e; revert h; decide +kernel

theorem renderTag_eq (kv : List Char × List Char) :
    renderTag kv = '[' :: (kv.1 ++ ' ' :: '"' :: (kv.2 ++ ['"', ']'])) := by
  simp [renderTag]

theorem renderTag_no_nl (kv : List Char × List Char) (h : TagOK kv) : ∀ c ∈ renderTag kv, c ≠ '\n' := by
  intro c hc
  rw [renderTag_eq] at hc
  simp only [List.mem_cons, List.mem_append, List.not_mem_nil, or_false] at hc
  rcases hc with rfl | hc | rfl | rfl | hc | rfl | rfl
  · decide
  · exact pyWord_ne_nl (h.2.1 c hc)
  · decide
  · decide
  · exact (h.2.2 c hc).2
  · decide
  · decide

theorem renderHead_head (kv : List Char × List Char) (rest : List (List Char × List Char)) (s : List Char) :
    ∃ r, renderHead (kv :: rest) ++ s = '[' :: r := by
  cases rest with
  | nil => simp only [renderHead, renderTag_eq, List.cons_append]; exact ⟨_, rfl⟩
  | cons q rs => simp only [renderHead, renderTag_eq, List.cons_append]; exact ⟨_, rfl⟩

theorem splitBlank_head (tags : List (List Char × List Char)) (h : ∀ kv ∈ tags, TagOK kv) (body : List Char) :
    splitBlank (renderHead tags ++ '\n' :: '\n' :: body) = some (renderHead tags, body) := by
  induction tags with
  | nil => simp [renderHead, splitBlank]
  | cons kv rest ih =>
    have hkv := renderTag_no_nl kv (h kv (by simp))
    cases rest with
    | nil =>
      simp only [renderHead]
      rw [splitBlank_append _ _ hkv]
      simp [splitBlank]
    | cons q rs =>
      have ih := ih (fun kv' hkv' => h kv' (List.mem_cons_of_mem _ hkv'))
      simp only [renderHead, List.append_assoc, List.cons_append]
      rw [splitBlank_append _ _ hkv]
      obtain ⟨r, hr⟩ := renderHead_head q rs ('\n' :: '\n' :: body)
      rw [splitBlank, if_neg (by rw [hr]; simp), ih]
      simp

/-! ### header: the tag scan -/

theorem takeWhile_append_stop {α} (p : α → Bool) (l : List α) (c : α) (s : List α)
    (hl : ∀ a ∈ l, p a = true) (hc : p c = false) :
    (l ++ c :: s).takeWhile p = l ∧ (l ++ c :: s).dropWhile p = c :: s := by
  constructor
  · rw [List.takeWhile_append_of_pos hl]; simp [hc]
  · rw [List.dropWhile_append_of_pos hl]; simp [hc]

theorem matchTag_render (kv : List Char × List Char) (h : TagOK kv) (s : List Char) (hs : atEol s = true) :
    matchTag (renderTag kv ++ s) = some (kv.1, kv.2, kv.1.length + kv.2.length + 5) := by
  obtain ⟨k, v⟩ := kv
  obtain ⟨hne, hk, hv⟩ := h
  simp only at hne hk hv
  have e : renderTag (k, v) ++ s = '[' :: (k ++ ' ' :: ('"' :: (v ++ '"' :: (']' :: s)))) := by
    simp [renderTag]
  obtain ⟨t1, d1⟩ := takeWhile_append_stop pyWord k ' ' ('"' :: (v ++ '"' :: (']' :: s))) hk (by decide +kernel)
  obtain ⟨t2, d2⟩ := takeWhile_append_stop (fun c => c != '"') v '"' (']' :: s)
    (by intro a ha; simp [(hv a ha).1]) (by simp)
  rw [e]
  simp only [matchTag, t1, d1, t2, d2, hs, if_true]
  have : k.isEmpty = false := by cases k with | nil => exact absurd rfl hne | cons _ _ => rfl
  simp [this]

theorem scanTags_skip (l s : List Char) (b : Bool) :
    scanTags l.length b (l ++ s) = scanTags 0 (l.foldl (fun _ c => c == '\n') b) s := by
  induction l generalizing b with
  | nil => simp
  | cons c t ih => simp only [List.length_cons, List.cons_append, scanTags, List.foldl_cons]; exact ih _

theorem scanTags_tag (kv : List Char × List Char) (h : TagOK kv) (s : List Char) (hs : atEol s = true) :
    scanTags 0 true (renderTag kv ++ s) = kv :: scanTags 0 false s := by
  have hm := matchTag_render kv h s hs
  have e : renderTag kv ++ s = '[' :: ((kv.1 ++ ' ' :: '"' :: kv.2 ++ ['"', ']']) ++ s) := by
    simp [renderTag]
  rw [e] at hm ⊢
  simp only [scanTags, if_true, hm]
  have hl : kv.1.length + kv.2.length + 5 - 1 = (kv.1 ++ ' ' :: '"' :: kv.2 ++ ['"', ']']).length := by
    simp; omega
  rw [hl, scanTags_skip]
  simp [List.foldl_append]

theorem scanTags_head (tags : List (List Char × List Char)) (h : ∀ kv ∈ tags, TagOK kv) :
    scanTags 0 true (renderHead tags) = tags := by
  induction tags with
  | nil => simp [renderHead, scanTags]
  | cons kv rest ih =>
    have hkv := h kv (by simp)
    cases rest with
    | nil =>
      have := scanTags_tag kv hkv [] rfl
      simp only [List.append_nil] at this
      simp only [renderHead, this, scanTags]
    | cons q rs =>
      have ih := ih (fun kv' hkv' => h kv' (List.mem_cons_of_mem _ hkv'))
      simp only [renderHead]
      rw [scanTags_tag kv hkv _ (by simp [atEol])]
      simp [scanTags, ih]

end Tak.C14

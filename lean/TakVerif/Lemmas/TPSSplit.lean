/-
  Character-level lemmas for C13: `splitOn`/`joinSep` are mutually inverse, the spec's
  `fields` is `splitOn`, decimal numbers round-trip.
-/
import TakVerif.Model.TPS
import TakVerif.Spec.TPSGrammar

namespace Tak.TPS

/-! ### splitOn / joinSep -/

theorem splitOn_ne_nil (sep : Char) (s : List Char) : splitOn sep s ≠ [] := by
  cases s with
  | nil => simp [splitOn]
  | cons c cs =>
    unfold splitOn
    split
    · simp
    · split <;> simp

theorem splitOn_exists (sep : Char) (s : List Char) : ∃ h t, splitOn sep s = h :: t := by
  cases h : splitOn sep s with
  | nil => exact absurd h (splitOn_ne_nil sep s)
  | cons a b => exact ⟨a, b, rfl⟩

theorem splitOn_nil (sep : Char) : splitOn sep [] = [[]] := rfl

theorem splitOn_cons_sep (sep : Char) (cs : List Char) :
    splitOn sep (sep :: cs) = [] :: splitOn sep cs := by
  simp [splitOn]

theorem splitOn_cons_ne {sep c : Char} (h : c ≠ sep) (cs : List Char) {a : List Char}
    {t : List (List Char)} (hs : splitOn sep cs = a :: t) :
    splitOn sep (c :: cs) = (c :: a) :: t := by
  rw [splitOn, if_neg h, hs]

theorem joinSep_cons_cons (sep : Char) (a b : List Char) (r : List (List Char)) :
    joinSep sep (a :: b :: r) = a ++ sep :: joinSep sep (b :: r) := rfl

theorem joinSep_splitOn (sep : Char) (s : List Char) : joinSep sep (splitOn sep s) = s := by
  induction s with
  | nil => rfl
  | cons c cs ih =>
    obtain ⟨a, t, hs⟩ := splitOn_exists sep cs
    by_cases h : c = sep
    · subst h
      rw [splitOn_cons_sep, hs, joinSep_cons_cons, ← hs, ih]; rfl
    · rw [splitOn_cons_ne h cs hs]
      rw [hs] at ih
      cases t with
      | nil => simpa [joinSep] using ih
      | cons b r =>
        rw [joinSep_cons_cons] at ih ⊢
        simp [ih]

theorem not_mem_of_mem_splitOn {sep : Char} {s p : List Char} (h : p ∈ splitOn sep s) :
    sep ∉ p := by
  induction s generalizing p with
  | nil => simp [splitOn] at h; simp [h]
  | cons c cs ih =>
    obtain ⟨a, t, hs⟩ := splitOn_exists sep cs
    by_cases hc : c = sep
    · subst hc
      rw [splitOn_cons_sep] at h
      rcases List.mem_cons.mp h with h | h
      · simp [h]
      · exact ih h
    · rw [splitOn_cons_ne hc cs hs] at h
      rw [hs] at ih
      rcases List.mem_cons.mp h with h | h
      · subst h
        have := ih (p := a) (by simp)
        intro hm
        rcases List.mem_cons.mp hm with hm | hm
        · exact hc hm.symm
        · exact this hm
      · exact ih (List.mem_cons_of_mem _ h)

theorem splitOn_of_not_mem {sep : Char} {a : List Char} (h : sep ∉ a) : splitOn sep a = [a] := by
  induction a with
  | nil => rfl
  | cons c cs ih =>
    have hc : c ≠ sep := fun e => h (by simp [e])
    have hcs : sep ∉ cs := fun e => h (List.mem_cons_of_mem _ e)
    exact splitOn_cons_ne hc cs (ih hcs)

theorem splitOn_append_sep {sep : Char} {a : List Char} (h : sep ∉ a) (rest : List Char) :
    splitOn sep (a ++ sep :: rest) = a :: splitOn sep rest := by
  induction a with
  | nil => exact splitOn_cons_sep sep rest
  | cons c cs ih =>
    have hc : c ≠ sep := fun e => h (by simp [e])
    have hcs : sep ∉ cs := fun e => h (List.mem_cons_of_mem _ e)
    exact splitOn_cons_ne hc _ (ih hcs)

theorem splitOn_joinSep {sep : Char} {parts : List (List Char)} (hne : parts ≠ [])
    (h : ∀ p ∈ parts, sep ∉ p) : splitOn sep (joinSep sep parts) = parts := by
  induction parts with
  | nil => exact absurd rfl hne
  | cons a r ih =>
    cases r with
    | nil => exact splitOn_of_not_mem (h a (by simp))
    | cons b r' =>
      rw [joinSep_cons_cons, splitOn_append_sep (h a (by simp)),
        ih (by simp) (fun p hp => h p (List.mem_cons_of_mem _ hp))]

/-- a text made of pieces that do not contain `sep`: membership -/
theorem mem_joinSep {sep c : Char} {parts : List (List Char)} (h : c ∈ joinSep sep parts) :
    c = sep ∨ ∃ p ∈ parts, c ∈ p := by
  induction parts with
  | nil => simp [joinSep] at h
  | cons a r ih =>
    cases r with
    | nil => exact .inr ⟨a, by simp, by simpa [joinSep] using h⟩
    | cons b r' =>
      rw [joinSep_cons_cons] at h
      rcases List.mem_append.mp h with h | h
      · exact .inr ⟨a, by simp, h⟩
      · rcases List.mem_cons.mp h with h | h
        · exact .inl h
        · rcases ih h with h | ⟨p, hp, hc⟩
          · exact .inl h
          · exact .inr ⟨p, List.mem_cons_of_mem _ hp, hc⟩

/-! ### the specification's `fields` is `splitOn` -/

open Tak.Spec.TPS in
theorem fieldsAux_eq (sep : Char) (s cur : List Char) :
    fieldsAux sep s cur =
      match splitOn sep s with
      | [] => []
      | a :: t => (cur.reverse ++ a) :: t := by
  induction s generalizing cur with
  | nil => simp [fieldsAux, splitOn]
  | cons c cs ih =>
    obtain ⟨a, t, hs⟩ := splitOn_exists sep cs
    by_cases hc : c = sep
    · subst hc
      rw [fieldsAux, if_pos rfl, splitOn_cons_sep, ih, hs]
      simp
    · rw [fieldsAux, if_neg hc, splitOn_cons_ne hc cs hs, ih, hs]
      simp

open Tak.Spec.TPS in
theorem fields_eq_splitOn (sep : Char) (s : List Char) : fields sep s = splitOn sep s := by
  obtain ⟨a, t, hs⟩ := splitOn_exists sep s
  rw [fields, fieldsAux_eq, hs]
  simp

/-! ### decimal numbers -/

theorem isDigit_iff (c : Char) : c.isDigit = true ↔ 48 ≤ c.toNat ∧ c.toNat ≤ 57 := by
  unfold Char.isDigit Char.toNat
  simp only [Bool.and_eq_true, decide_eq_true_eq, ge_iff_le, UInt32.le_iff_toNat_le]
  exact Iff.rfl

theorem char_eq_of_toNat {c d : Char} (h : c.toNat = d.toNat) : c = d := by
  apply Char.ext; apply UInt32.toNat_inj.mp; exact h

theorem rev_induction {P : List Char → Prop} (h0 : P [])
    (h1 : ∀ l c, P l → P (l ++ [c])) : ∀ l, P l := by
  have : ∀ l : List Char, P l.reverse := by
    intro l
    induction l with
    | nil => exact h0
    | cons c cs ih => rw [List.reverse_cons]; exact h1 _ _ ih
  intro l
  simpa using this l.reverse

theorem natStr_ne_nil (n : Nat) : natStr n ≠ [] := Nat.toDigits_ne_nil

theorem decVal_natStr (n : Nat) : decVal (natStr n) = n := Nat.ofDigitChars_ten_toDigits

theorem isDigit_of_mem_natStr {c : Char} {n : Nat} (h : c ∈ natStr n) : c.isDigit = true :=
  Nat.isDigit_of_mem_toDigits (by decide) (by decide) h

theorem isDigits_natStr (n : Nat) : isDigits (natStr n) = true := by
  simp only [isDigits, Bool.and_eq_true, Bool.not_eq_true', List.isEmpty_eq_false_iff,
    List.all_eq_true]
  exact ⟨natStr_ne_nil n, fun c hc => isDigit_of_mem_natStr hc⟩

theorem decVal_append_single (l : List Char) (c : Char) :
    decVal (l ++ [c]) = 10 * decVal l + (c.toNat - 48) := by
  simp [decVal, Nat.ofDigitChars_append, Nat.ofDigitChars_cons]

theorem digitChar_sub (c : Char) (h : c.isDigit = true) : Nat.digitChar (c.toNat - 48) = c := by
  have h1 := (isDigit_iff c).mp h
  apply char_eq_of_toNat
  rcases h1 with ⟨ha, hb⟩
  have hcases : c.toNat = 48 ∨ c.toNat = 49 ∨ c.toNat = 50 ∨ c.toNat = 51 ∨ c.toNat = 52 ∨
      c.toNat = 53 ∨ c.toNat = 54 ∨ c.toNat = 55 ∨ c.toNat = 56 ∨ c.toNat = 57 := by omega
  rcases hcases with e | e | e | e | e | e | e | e | e | e <;> rw [e] <;> rfl

/-- a digit string without a leading zero is the `str` of its value -/
theorem natStr_decVal : ∀ (n : Nat) (l : List Char), l.length = n → l ≠ [] →
    (∀ c ∈ l, c.isDigit = true) → (l.head? ≠ some '0' ∨ l = ['0']) → natStr (decVal l) = l := by
  intro n
  induction n with
  | zero => intro l hl hne; simp_all
  | succ n ih =>
    intro l hl hne hd hz
    obtain ⟨l', c, rfl⟩ : ∃ l' c, l = l' ++ [c] := by
      rcases List.eq_nil_or_concat l with h | ⟨l', c, h⟩
      · exact absurd h hne
      · exact ⟨l', c, by simpa using h⟩
    have hc : c.isDigit = true := hd c (by simp)
    have hc1 := (isDigit_iff c).mp hc
    rw [decVal_append_single]
    by_cases hl' : l' = []
    · subst hl'
      simp only [decVal, Nat.ofDigitChars_nil, Nat.mul_zero, Nat.zero_add, List.nil_append, natStr]
      rw [Nat.toDigits_of_lt_base (by omega), digitChar_sub c hc]
    · have hlen : l'.length = n := by simpa using hl
      have hd' : ∀ c ∈ l', c.isDigit = true := fun x hx => hd x (by simp [hx])
      have hz' : l'.head? ≠ some '0' := by
        rcases hz with hz | hz
        · cases l' with
          | nil => exact absurd rfl hl'
          | cons a b => simpa using hz
        · cases l' with
          | nil => exact absurd rfl hl'
          | cons a b => simp at hz
      have ih' := ih l' hlen hl' hd' (.inl hz')
      have hpos : 0 < decVal l' := by
        rcases Nat.eq_zero_or_pos (decVal l') with h0 | h0
        · rw [h0] at ih'
          rw [← ih'] at hz'
          simp [natStr] at hz'
        · exact h0
      simp only [natStr] at ih' ⊢
      rw [← Nat.toDigits_append_toDigits (by decide) hpos (by omega), ih',
        Nat.toDigits_of_lt_base (by omega), digitChar_sub c hc]

theorem natStr_decVal' {l : List Char} (hne : l ≠ []) (hd : ∀ c ∈ l, c.isDigit = true)
    (hz : l.head? ≠ some '0') : natStr (decVal l) = l :=
  natStr_decVal l.length l rfl hne hd (.inl hz)

/-- `decVal l ≥ 1` iff some digit is not `0` -/
theorem decVal_pos_iff {l : List Char} (hd : ∀ c ∈ l, c.isDigit = true) :
    1 ≤ decVal l ↔ ∃ c ∈ l, c ≠ '0' := by
  induction l using rev_induction with
  | h0 => simp [decVal]
  | h1 l' c ih =>
    have hc : c.isDigit = true := hd c (by simp)
    have hc1 := (isDigit_iff c).mp hc
    have ih' := ih (fun x hx => hd x (by simp [hx]))
    rw [decVal_append_single]
    constructor
    · intro h
      by_cases h0 : c = '0'
      · subst h0
        have : 1 ≤ decVal l' := by
          have : ('0' : Char).toNat = 48 := rfl
          omega
        obtain ⟨x, hx, hx0⟩ := ih'.mp this
        exact ⟨x, by simp [hx], hx0⟩
      · exact ⟨c, by simp, h0⟩
    · rintro ⟨x, hx, hx0⟩
      rcases List.mem_append.mp hx with hx | hx
      · have := ih'.mpr ⟨x, hx, hx0⟩
        omega
      · have hxc : x = c := by simpa using hx
        subst hxc
        have : x.toNat ≠ 48 := fun e => hx0 (char_eq_of_toNat e)
        omega

end Tak.TPS

/-
  The flood fill `Impl.walk` (explicit stack + `seen`) decides reachability:
  soundness, completeness and sufficiency of the fuel.  Everything here is about the
  integer cells the loop manipulates; `Lemmas/WalkPath.lean` translates to the
  declarative `Spec.Road`.
-/
import TakVerif.Model.Winner
import TakVerif.Lemmas.Board

namespace Tak.Walk
open Impl

variable (p : Pos) (c : Color) (h : Bool)

/-- the popped cell passes both `continue` tests: it is on the board and its top piece is a
    road piece of colour `c` -/
def ok (j : Cell) : Bool :=
  p.inBounds j.1 j.2 && (isRoad p j.1 j.2 && !topColorNe p j.1 j.2 c)

/-- the popped cell lies on the far edge for this direction -/
def goal (j : Cell) : Bool :=
  (h && j.1 == (p.size : Int) - 1) || (!h && j.2 == (p.size : Int) - 1)

theorem walk_nil (fuel : Nat) (seen : List Cell) : walk p c h fuel seen [] = false := by
  cases fuel <;> rfl

theorem walk_cons (fuel : Nat) (seen : List Cell) (j : Cell) (q : List Cell) :
    walk p c h (fuel + 1) seen (j :: q) =
      if j ∈ seen then walk p c h fuel seen q
      else if ok p c j = false then walk p c h fuel (j :: seen) q
      else if goal p h j = true then true
      else walk p c h fuel (j :: seen) (pushed j.1 j.2 ++ q) := by
  rw [walk]
  unfold ok goal
  dsimp only
  by_cases hs : j ∈ seen
  · simp [hs]
  · cases hb : p.inBounds j.1 j.2 <;> cases hr : isRoad p j.1 j.2 <;>
      cases ht : topColorNe p j.1 j.2 c <;> cases h <;>
      simp [hs]

/-- cells reachable from the seeds through cells that pass the tests -/
inductive Reach (seeds : List Cell) : Cell → Prop
  | seed {j : Cell} : j ∈ seeds → ok p c j = true → Reach seeds j
  | step {i j : Cell} : Reach seeds i → j ∈ pushed i.1 i.2 → ok p c j = true → Reach seeds j

theorem Reach.ok {seeds : List Cell} {j : Cell} (hr : Reach p c seeds j) : ok p c j = true := by
  cases hr <;> assumption

/-! ### soundness -/

theorem walk_sound (seeds : List Cell) : ∀ (fuel : Nat) (seen q : List Cell),
    (∀ j ∈ q, j ∈ seeds ∨ ∃ i, Reach p c seeds i ∧ j ∈ pushed i.1 i.2) →
    walk p c h fuel seen q = true → ∃ j, Reach p c seeds j ∧ goal p h j = true := by
  intro fuel
  induction fuel with
  | zero => intro seen q _ hw; simp [walk] at hw
  | succ fuel ih =>
    intro seen q hq hw
    cases q with
    | nil => simp [walk] at hw
    | cons j q =>
      rw [walk_cons] at hw
      have hq' : ∀ k ∈ q, k ∈ seeds ∨ ∃ i, Reach p c seeds i ∧ k ∈ pushed i.1 i.2 :=
        fun k hk => hq k (List.mem_cons_of_mem _ hk)
      split at hw
      · exact ih _ _ hq' hw
      · split at hw
        · exact ih _ _ hq' hw
        · rename_i hok
          have hok : ok p c j = true := by simpa using hok
          have hrj : Reach p c seeds j := by
            rcases hq j (List.mem_cons_self ..) with hs | ⟨i, hi, hji⟩
            · exact Reach.seed hs hok
            · exact Reach.step hi hji hok
          split at hw
          · rename_i hg
            exact ⟨j, hrj, hg⟩
          · apply ih _ _ _ hw
            intro k hk
            rcases List.mem_append.1 hk with hk | hk
            · exact Or.inr ⟨j, hrj, hk⟩
            · exact hq' k hk

/-! ### the measure: stack length + 4 · (board cells not yet seen) -/

/-- all cells of the board -/
def cells (n : Nat) : List Cell :=
  (List.range (n * n)).map fun (i : Nat) => (((i % n : Nat) : Int), ((i / n : Nat) : Int))

theorem length_cells (n : Nat) : (cells n).length = n * n := by simp [cells]

theorem mem_cells_of_inBounds {j : Cell} (hb : p.inBounds j.1 j.2 = true) : j ∈ cells p.size := by
  obtain ⟨x, y⟩ := j
  simp only [Pos.inBounds, Bool.and_eq_true, decide_eq_true_eq] at hb
  obtain ⟨⟨⟨h1, h2⟩, h3⟩, h4⟩ := hb
  have hx : x.toNat < p.size := by omega
  have hy : y.toNat < p.size := by omega
  simp only [cells, List.mem_map, List.mem_range]
  refine ⟨x.toNat + y.toNat * p.size, idx_lt hx hy, ?_⟩
  rw [idx_mod _ hx, idx_div _ hx]
  ext <;> simp <;> omega

/-- number of cells of `l` not in `seen` -/
def unseen (l seen : List Cell) : Nat := (l.filter fun j => decide (j ∉ seen)).length

theorem unseen_cons_le (l seen : List Cell) (j : Cell) : unseen l (j :: seen) ≤ unseen l seen := by
  unfold unseen
  induction l with
  | nil => simp
  | cons a l ih =>
    simp only [List.filter_cons]
    by_cases h1 : a ∈ seen
    · have h2 : a ∈ j :: seen := List.mem_cons_of_mem _ h1
      simpa [h1, h2] using ih
    · by_cases h2 : a ∈ j :: seen
      · simp only [h1, h2, not_true_eq_false, decide_false, not_false_eq_true, decide_true,
          if_true, List.length_cons]
        simp only [Bool.false_eq_true, if_false]
        omega
      · simp only [h1, h2, not_false_eq_true, decide_true, if_true, List.length_cons]
        omega

theorem unseen_cons_lt (l seen : List Cell) (j : Cell) (hj : j ∈ l) (hs : j ∉ seen) :
    unseen l (j :: seen) < unseen l seen := by
  induction l with
  | nil => simp at hj
  | cons a l ih =>
    have hle := unseen_cons_le l seen j
    unfold unseen at *
    simp only [List.filter_cons]
    by_cases ha : a = j
    · subst ha
      have e1 : (decide ¬a ∈ a :: seen) = false := by simp
      have e2 : (decide ¬a ∈ seen) = true := by simpa using hs
      rw [e1, e2]
      simp only [Bool.false_eq_true, if_false, if_true, List.length_cons]
      omega
    · have hj' : j ∈ l := by
        rcases List.mem_cons.1 hj with e | e
        · exact absurd e.symm ha
        · exact e
      have := ih hj'
      by_cases h1 : a ∈ seen
      · have h2 : a ∈ j :: seen := List.mem_cons_of_mem _ h1
        simpa [h1, h2] using this
      · have h2 : a ∉ j :: seen := by
          intro hm
          rcases List.mem_cons.1 hm with e | e
          · exact ha e
          · exact h1 e
        simp only [h1, h2, not_false_eq_true, decide_true, if_true, List.length_cons]
        omega

/-- the termination measure of the loop -/
def mu (seen q : List Cell) : Nat := q.length + 4 * unseen (cells p.size) seen

/-! ### completeness (with fuel sufficiency) -/

/-- when the stack is empty and the invariants hold, `seen` contains everything reachable -/
theorem reach_mem_seen (seeds seen : List Cell)
    (I1 : ∀ s ∈ seeds, s ∈ seen)
    (I2 : ∀ d ∈ seen, ok p c d = true → ∀ j ∈ pushed d.1 d.2, j ∈ seen) :
    ∀ j, Reach p c seeds j → j ∈ seen := by
  intro j hr
  induction hr with
  | seed hs _ => exact I1 _ hs
  | step hi hji _ ih => exact I2 _ ih (Reach.ok p c hi) _ hji

theorem walk_complete (seeds : List Cell) : ∀ (fuel : Nat) (seen q : List Cell),
    mu p seen q ≤ fuel →
    (∀ s ∈ seeds, s ∈ seen ∨ s ∈ q) →
    (∀ d ∈ seen, ok p c d = true → ∀ j ∈ pushed d.1 d.2, j ∈ seen ∨ j ∈ q) →
    (∀ d ∈ seen, ok p c d = true → goal p h d = false) →
    walk p c h fuel seen q = false → ∀ j, Reach p c seeds j → goal p h j = false := by
  intro fuel
  induction fuel with
  | zero =>
    intro seen q hmu I1 I2 I3 _ j hr
    have hq : q = [] := by
      unfold mu at hmu
      cases q with
      | nil => rfl
      | cons a q => simp at hmu
    subst hq
    have hm := reach_mem_seen p c seeds seen (fun s hs => by simpa using I1 s hs)
      (fun d hd hk j hj => by simpa using I2 d hd hk j hj) j hr
    have hokj : ok p c j = true := by cases hr <;> assumption
    exact I3 j hm hokj
  | succ fuel ih =>
    intro seen q hmu I1 I2 I3 hw j hr
    cases q with
    | nil =>
      have hm := reach_mem_seen p c seeds seen (fun s hs => by simpa using I1 s hs)
        (fun d hd hk j hj => by simpa using I2 d hd hk j hj) j hr
      have hokj : ok p c j = true := by cases hr <;> assumption
      exact I3 j hm hokj
    | cons k q =>
      rw [walk_cons] at hw
      unfold mu at hmu
      simp only [List.length_cons] at hmu
      split at hw
      · -- already seen
        rename_i hks
        refine ih seen q (by unfold mu; omega) ?_ ?_ I3 hw j hr
        · intro s hs
          rcases I1 s hs with h1 | h1
          · exact Or.inl h1
          · rcases List.mem_cons.1 h1 with e | e
            · exact Or.inl (e ▸ hks)
            · exact Or.inr e
        · intro d hd hk i hi
          rcases I2 d hd hk i hi with h1 | h1
          · exact Or.inl h1
          · rcases List.mem_cons.1 h1 with e | e
            · exact Or.inl (e ▸ hks)
            · exact Or.inr e
      · rename_i hks
        have hle := unseen_cons_le (cells p.size) seen k
        split at hw
        · -- off the board or not a road piece of this colour
          rename_i hnk
          refine ih (k :: seen) q (by unfold mu; omega) ?_ ?_ ?_ hw j hr
          · intro s hs
            rcases I1 s hs with h1 | h1
            · exact Or.inl (List.mem_cons_of_mem _ h1)
            · rcases List.mem_cons.1 h1 with e | e
              · exact Or.inl (e ▸ List.mem_cons_self ..)
              · exact Or.inr e
          · intro d hd hk i hi
            rcases List.mem_cons.1 hd with e | hd
            · rw [e, hnk] at hk; exact absurd hk (by simp)
            · rcases I2 d hd hk i hi with h1 | h1
              · exact Or.inl (List.mem_cons_of_mem _ h1)
              · rcases List.mem_cons.1 h1 with e | e
                · exact Or.inl (e ▸ List.mem_cons_self ..)
                · exact Or.inr e
          · intro d hd hk
            rcases List.mem_cons.1 hd with e | hd
            · rw [e, hnk] at hk; exact absurd hk (by simp)
            · exact I3 d hd hk
        · rename_i hokk
          have hokk : ok p c k = true := by simpa using hokk
          split at hw
          · exact absurd hw (by simp)
          · rename_i hgk
            have hgk : goal p h k = false := by simpa using hgk
            have hb : p.inBounds k.1 k.2 = true := by
              unfold ok at hokk
              simp only [Bool.and_eq_true] at hokk
              exact hokk.1
            have hlt := unseen_cons_lt (cells p.size) seen k (mem_cells_of_inBounds p hb) hks
            have hlen : (pushed k.1 k.2 ++ q).length = q.length + 4 := by
              simp [pushed]
            refine ih (k :: seen) (pushed k.1 k.2 ++ q) (by unfold mu; omega) ?_ ?_ ?_ hw j hr
            · intro s hs
              rcases I1 s hs with h1 | h1
              · exact Or.inl (List.mem_cons_of_mem _ h1)
              · rcases List.mem_cons.1 h1 with e | e
                · exact Or.inl (e ▸ List.mem_cons_self ..)
                · exact Or.inr (List.mem_append_right _ e)
            · intro d hd hk i hi
              rcases List.mem_cons.1 hd with e | hd
              · subst e; exact Or.inr (List.mem_append_left _ hi)
              · rcases I2 d hd hk i hi with h1 | h1
                · exact Or.inl (List.mem_cons_of_mem _ h1)
                · rcases List.mem_cons.1 h1 with e | e
                  · exact Or.inl (e ▸ List.mem_cons_self ..)
                  · exact Or.inr (List.mem_append_right _ e)
            · intro d hd hk
              rcases List.mem_cons.1 hd with e | hd
              · subst e; exact hgk
              · exact I3 d hd hk

/-! ### the fill as it is called -/

theorem fuel_enough (seeds : List Cell) : mu p [] seeds.reverse ≤ walkFuel p seeds := by
  unfold mu walkFuel unseen
  have h1 : ((cells p.size).filter fun j => decide (j ∉ ([] : List Cell))).length ≤ p.size * p.size := by
    rw [← length_cells p.size]; exact List.length_filter_le _ _
  have h2 : p.size * p.size ≤ (p.size + 2) * (p.size + 2) :=
    Nat.mul_le_mul (by omega) (by omega)
  simp only [List.length_reverse]
  omega

/-- `_walk(seeds, c, h)` answers true exactly when a far-edge cell is reachable from a seed
    through on-board road cells of colour `c`; the fuel supplied by the model is never
    exhausted. -/
theorem walkFrom_iff (seeds : List Cell) :
    walkFrom p seeds c h = true ↔ ∃ j, Reach p c seeds j ∧ goal p h j = true := by
  unfold walkFrom
  constructor
  · intro hw
    exact walk_sound p c h seeds _ _ _ (fun j hj => Or.inl (List.mem_reverse.1 hj)) hw
  · intro ⟨j, hr, hg⟩
    cases hw : walk p c h (walkFuel p seeds) [] seeds.reverse with
    | true => rfl
    | false =>
      have := walk_complete p c h seeds _ _ _ (fuel_enough p seeds)
        (fun s hs => Or.inr (List.mem_reverse.2 hs)) (by simp) (by simp) hw j hr
      rw [hg] at this; exact absurd this (by simp)

/-- more fuel than `walkFuel` changes nothing (the loop has ended) -/
theorem walk_fuel_irrelevant (seeds : List Cell) (fuel : Nat) (hf : walkFuel p seeds ≤ fuel) :
    walk p c h fuel [] seeds.reverse = walkFrom p seeds c h := by
  cases hw : walk p c h fuel [] seeds.reverse with
  | true =>
    have := walk_sound p c h seeds _ _ _ (fun j hj => Or.inl (List.mem_reverse.1 hj)) hw
    exact ((walkFrom_iff p c h seeds).2 this).symm
  | false =>
    cases hw' : walkFrom p seeds c h with
    | false => rfl
    | true =>
      obtain ⟨j, hr, hg⟩ := (walkFrom_iff p c h seeds).1 hw'
      have := walk_complete p c h seeds _ _ _ (Nat.le_trans (fuel_enough p seeds) hf)
        (fun s hs => Or.inr (List.mem_reverse.2 hs)) (by simp) (by simp) hw j hr
      rw [hg] at this; exact absurd this (by simp)

end Tak.Walk

/-
  Stack-, item- and row-level lemmas for C13: the model's `_format_row` loop is the
  standard's run writer; parsing what the writer wrote gives the squares back; writing
  what was parsed from canonical items gives the items back; whatever `parseItem` accepts
  is an item of the grammar.
-/
import TakVerif.Lemmas.TPSSplit

namespace Tak.TPS
open Tak.Spec.TPS

/-! ### stacks -/

def flatOf (c : Color) : Piece := ⟨c, .flat⟩

def markOf : Kind → List Char
  | .flat => []
  | .standing => ['S']
  | .cap => ['C']

theorem colorChar_eq (c : Color) : colorChar c = colourDigit c := by cases c <;> rfl

theorem colorChar_ne_x (c : Color) : colorChar c ≠ 'x' := by cases c <;> decide

theorem formatSquare_eq_writeStack (s : Stack) : formatSquare s = writeStack s := by
  cases s with
  | nil => rfl
  | cons top below =>
    obtain ⟨tc, tk⟩ := top
    cases tk <;> simp [formatSquare, writeStack, colorChar_eq, List.map_reverse]

/-- the text of a non-empty stack: colours bottom to top, then the mark -/
theorem writeStack_cons (top : Piece) (below : Stack) :
    writeStack (top :: below) =
      (((below.map (·.color)).reverse ++ [top.color]).map colorChar) ++ markOf top.kind := by
  obtain ⟨tc, tk⟩ := top
  cases tk <;>
    simp [writeStack, markOf, colorChar_eq, List.map_reverse, Function.comp_def]

theorem parseStack_colours (cols : List Color) (rest : List Char) (st : Stack) :
    parseStack (cols.map colorChar ++ rest) st =
      parseStack rest (cols.reverse.map flatOf ++ st) := by
  induction cols generalizing st with
  | nil => rfl
  | cons c cs ih =>
    have step : parseStack (colorChar c :: (cs.map colorChar ++ rest)) st =
        parseStack (cs.map colorChar ++ rest) (flatOf c :: st) := by
      cases c <;> simp [parseStack, colorChar, flatOf]
    rw [List.map_cons, List.cons_append, step, ih]
    simp

theorem allFlat_eq_map {l : Stack} (h : ∀ pc ∈ l, pc.kind = Kind.flat) :
    l = (l.map (·.color)).map flatOf := by
  induction l with
  | nil => rfl
  | cons a r ih =>
    have ha : a.kind = Kind.flat := h a (by simp)
    obtain ⟨ac, ak⟩ := a
    simp only at ha
    subst ha
    rw [List.map_cons, List.map_cons, ← ih (fun pc hp => h pc (List.mem_cons_of_mem _ hp))]
    rfl

theorem flatsBelowTop_cons {top : Piece} {below : Stack}
    (h : flatsBelowTop (top :: below) = true) : ∀ pc ∈ below, pc.kind = Kind.flat := by
  intro pc hp
  simp only [flatsBelowTop, List.tail_cons, List.all_eq_true] at h
  simpa using h pc hp

/-- parsing the text of an expressible non-empty stack gives the stack back -/
theorem parseStack_writeStack {top : Piece} {below : Stack}
    (h : flatsBelowTop (top :: below) = true) :
    parseStack (writeStack (top :: below)) [] = .ok (top :: below) := by
  have hb := allFlat_eq_map (flatsBelowTop_cons h)
  rw [writeStack_cons, parseStack_colours]
  have e : ((below.map (·.color)).reverse ++ [top.color]).reverse.map flatOf ++ [] =
      flatOf top.color :: below := by
    simp only [List.reverse_append, List.reverse_cons, List.reverse_nil, List.nil_append,
      List.reverse_reverse, List.cons_append, List.map_cons, List.append_nil]
    rw [← hb]
  rw [e]
  obtain ⟨tc, tk⟩ := top
  cases tk <;> simp [markOf, parseStack, flatOf]

theorem writeStack_head (top : Piece) (below : Stack) :
    ∃ c rest, writeStack (top :: below) = colorChar c :: rest := by
  rw [writeStack_cons]
  cases h : (below.map (·.color)).reverse with
  | nil => exact ⟨top.color, markOf top.kind, by simp⟩
  | cons a r => exact ⟨a, r.map colorChar ++ colorChar top.color :: markOf top.kind, by simp⟩

/-- what `parseStack` accepts: colours, then at most one mark, applied to the top -/
theorem parseStack_ok {b : List Char} {st s : Stack} (h : parseStack b st = .ok s) :
    ∃ cols : List Color, ∃ k : Kind, b = cols.map colorChar ++ markOf k ∧
      ((k = .flat ∧ s = cols.reverse.map flatOf ++ st) ∨
       (k ≠ .flat ∧ ∃ top below, cols.reverse.map flatOf ++ st = top :: below ∧
          s = ⟨top.color, k⟩ :: below)) := by
  induction b generalizing st with
  | nil =>
    refine ⟨[], .flat, rfl, .inl ⟨rfl, ?_⟩⟩
    simpa [parseStack] using h.symm
  | cons c rest ih =>
    unfold parseStack at h
    split at h
    · cases h
    · rename_i hguard
      split at h
      · rename_i h1
        subst h1
        obtain ⟨cols, k, hb, hs⟩ := ih h
        refine ⟨.white :: cols, k, by simp [hb, colorChar], ?_⟩
        simpa [flatOf] using hs
      · split at h
        · rename_i h2
          subst h2
          obtain ⟨cols, k, hb, hs⟩ := ih h
          refine ⟨.black :: cols, k, by simp [hb, colorChar], ?_⟩
          simpa [flatOf] using hs
        · split at h
          · rename_i hcs
            have hrest : rest = [] := by
              by_cases hr : rest = []
              · exact hr
              · exact absurd ⟨hcs, hr⟩ hguard
            subst hrest
            cases st with
            | nil => cases h
            | cons top below =>
              simp only [parseStack] at h
              rcases hcs with hc | hc
              · subst hc
                refine ⟨[], .cap, rfl, .inr ⟨by decide, top, below, rfl, ?_⟩⟩
                simpa using h.symm
              · subst hc
                refine ⟨[], .standing, rfl, .inr ⟨by decide, top, below, rfl, ?_⟩⟩
                simpa using h.symm
          · cases h

/-- writing what `parseStack` produced from an empty stack gives the text back -/
theorem writeStack_parseStack {b : List Char} {s : Stack} (h : parseStack b [] = .ok s) :
    writeStack s = b := by
  obtain ⟨cols, k, hb, hs⟩ := parseStack_ok h
  rcases hs with ⟨hk, hs⟩ | ⟨hk, top, below, hst, hs⟩
  · subst hk
    simp only [List.append_nil] at hs
    subst hs hb
    cases hc : cols.reverse with
    | nil =>
      have : cols = [] := by simpa using hc
      subst this; rfl
    | cons a r =>
      rw [List.map_cons, writeStack_cons]
      have : cols = r.reverse ++ [a] := by
        have := congrArg List.reverse hc
        simpa using this
      subst this
      simp [flatOf, markOf, Function.comp_def]
  · simp only [List.append_nil] at hst
    subst hs hb
    rw [writeStack_cons]
    have hcols : cols = (below.map (·.color)).reverse ++ [top.color] := by
      have h1 := congrArg (List.map (·.color)) hst
      simp only [List.map_map, List.map_cons] at h1
      have h2 : (List.map ((fun x => x.color) ∘ flatOf) cols.reverse) = cols.reverse := by
        simp [Function.comp_def, flatOf]
      rw [h2] at h1
      have := congrArg List.reverse h1
      simpa using this
    rw [← hcols]

theorem parseStack_ne_nil {b : List Char} {s : Stack} (hb : b ≠ [])
    (h : parseStack b [] = .ok s) : ∃ cols : List Color, ∃ k, cols ≠ [] ∧
      b = cols.map colorChar ++ markOf k := by
  obtain ⟨cols, k, hb', hs⟩ := parseStack_ok h
  refine ⟨cols, k, ?_, hb'⟩
  intro hc
  subst hc
  rcases hs with ⟨hk, _⟩ | ⟨_, top, below, hst, _⟩
  · subst hk; exact hb (by simpa [markOf] using hb')
  · simp at hst

theorem isStackText_of (cols : List Color) (k : Kind) (hc : cols ≠ []) :
    isStackText (cols.map colorChar ++ markOf k) = true := by
  induction cols with
  | nil => exact absurd rfl hc
  | cons a r ih =>
    cases r with
    | nil => cases a <;> cases k <;> decide
    | cons a' r' =>
      have ih' := ih (by simp)
      cases r' with
      | nil => cases a <;> cases a' <;> cases k <;> decide
      | cons a'' r'' =>
        simp only [List.map_cons, List.cons_append] at ih' ⊢
        rw [isStackText]
        all_goals first
          | (simp only [ih', Bool.and_true]; cases a <;> decide)
          | (intros; simp_all)

/-! ### items -/

theorem decVal_single (d : Char) : decVal [d] = d.toNat - 48 := by
  simp [decVal, Nat.ofDigitChars_cons]

theorem parseItem_stack {c : Char} (rest : List Char) (hc : c ≠ 'x') :
    parseItem (c :: rest) =
      match parseStack (c :: rest) [] with
      | .error e => .error e
      | .ok st => .ok [st] := by
  simp only [parseItem, hc, if_false]
  cases parseStack (c :: rest) [] <;> rfl

theorem parseItem_writeStack {top : Piece} {below : Stack}
    (h : flatsBelowTop (top :: below) = true) :
    parseItem (writeStack (top :: below)) = .ok [top :: below] := by
  obtain ⟨c, rest, e⟩ := writeStack_head top below
  have := parseStack_writeStack h
  rw [e] at this ⊢
  rw [parseItem_stack rest (colorChar_ne_x c), this]

theorem parseItem_gap1 : parseItem ['x'] = .ok [[]] := by simp [parseItem]

theorem gapText (j : Nat) (h2 : 2 ≤ j) (h8 : j ≤ 8) :
    (Nat.repr j).toList = [Nat.digitChar j] := by
  rw [Nat.toList_repr, Nat.toDigits_of_lt_base (by omega)]

theorem parseItem_gap (j : Nat) (h2 : 2 ≤ j) (h8 : j ≤ 8) :
    parseItem ('x' :: (Nat.repr j).toList) = .ok (List.replicate j []) := by
  rw [gapText j h2 h8]
  have : j = 2 ∨ j = 3 ∨ j = 4 ∨ j = 5 ∨ j = 6 ∨ j = 7 ∨ j = 8 := by omega
  rcases this with e | e | e | e | e | e | e <;> subst e <;> rfl

theorem writeGap_zero : writeGap 0 = [] := rfl
theorem writeGap_one : writeGap 1 = [['x']] := rfl
theorem writeGap_add_two (k : Nat) : writeGap (k + 2) = ['x' :: (Nat.repr (k + 2)).toList] := rfl

theorem parseItems_nil (sqs : List Stack) : parseItems [] sqs = .ok sqs := rfl

theorem parseItems_cons_ok {b : List Char} {S : List Stack} (bs : List (List Char))
    (sqs : List Stack) (h : parseItem b = .ok S) :
    parseItems (b :: bs) sqs = parseItems bs (sqs ++ S) := by
  simp [parseItems, h]

theorem parseItems_writeGap (k : Nat) (hk : k ≤ 8) (rest : List (List Char)) (sqs : List Stack) :
    parseItems (writeGap k ++ rest) sqs = parseItems rest (sqs ++ List.replicate k []) := by
  match k with
  | 0 => simp [writeGap_zero]
  | 1 => rw [writeGap_one]; exact parseItems_cons_ok rest sqs parseItem_gap1
  | k + 2 =>
    rw [writeGap_add_two]
    exact parseItems_cons_ok rest sqs (parseItem_gap (k + 2) (by omega) hk)

theorem writeItems_nil (k : Nat) : writeItems k [] = writeGap k := by
  simp [writeItems]

theorem writeItems_empty (k : Nat) (rest : List Stack) :
    writeItems k ([] :: rest) = writeItems (k + 1) rest := by
  simp [writeItems]

theorem writeItems_stack (k : Nat) (pc : Piece) (s : Stack) (rest : List Stack) :
    writeItems k ((pc :: s) :: rest) =
      writeGap k ++ writeStack (pc :: s) :: writeItems 0 rest := by
  simp [writeItems]

/-- parsing what the standard's row writer wrote gives the squares back -/
theorem parseItems_writeItems (row : List Stack) : ∀ (k : Nat) (sqs : List Stack),
    k + row.length ≤ 8 → (∀ s ∈ row, flatsBelowTop s = true) →
    parseItems (writeItems k row) sqs = .ok (sqs ++ List.replicate k [] ++ row) := by
  induction row with
  | nil =>
    intro k sqs hk _
    have := parseItems_writeGap k (by simpa using hk) [] sqs
    simp only [List.append_nil] at this
    rw [writeItems_nil, this, parseItems_nil]
    simp
  | cons sq rest ih =>
    intro k sqs hk hx
    have hx' : ∀ s ∈ rest, flatsBelowTop s = true := fun s hs => hx s (List.mem_cons_of_mem _ hs)
    simp only [List.length_cons] at hk
    cases sq with
    | nil =>
      rw [writeItems_empty, ih (k + 1) sqs (by omega) hx']
      simp [List.replicate_succ', List.append_assoc]
    | cons pc s =>
      rw [writeItems_stack, parseItems_writeGap k (by omega),
        parseItems_cons_ok _ _ (parseItem_writeStack (hx _ (by simp))),
        ih 0 _ (by omega) hx']
      simp

/-! ### `_format_row`'s loop is the standard's run writer -/

theorem countEmpty_replicate_append (k : Nat) (tail : List Stack) :
    countEmpty (List.replicate k [] ++ tail) = k + countEmpty tail := by
  induction k with
  | zero => simp
  | succ k ih =>
    rw [List.replicate_succ, List.cons_append, countEmpty, ih]
    omega

theorem drop_replicate_append (k : Nat) (tail : List Stack) :
    (List.replicate k ([] : Stack) ++ tail).drop k = tail := by
  have : (List.replicate k ([] : Stack)).length = k := by simp
  rw [List.drop_append_of_le_length (by omega)]
  simp

theorem formatItems_nil (fuel : Nat) : formatItems fuel [] = [] := by
  cases fuel <;> simp [formatItems]

theorem formatItems_stack (f : Nat) (pc : Piece) (s : Stack) (rest : List Stack) :
    formatItems (f + 1) ((pc :: s) :: rest) = formatSquare (pc :: s) :: formatItems f rest := by
  simp [formatItems, countEmpty]

theorem formatItems_gap (f k : Nat) (hk : 0 < k) (tail : List Stack) (ht : countEmpty tail = 0) :
    formatItems (f + 1) (List.replicate k [] ++ tail) =
      ('x' :: (if k > 1 then natStr k else [])) :: formatItems f tail := by
  have hc := countEmpty_replicate_append k tail
  rw [ht, Nat.add_zero] at hc
  obtain ⟨k', rfl⟩ : ∃ k', k = k' + 1 := ⟨k - 1, by omega⟩
  have hd := drop_replicate_append (k' + 1) tail
  rw [List.replicate_succ, List.cons_append] at hc hd ⊢
  rw [formatItems]
  simp only [hc, hd]
  simp

theorem gapItem (k : Nat) (hk : 0 < k) :
    [('x' :: (if k > 1 then natStr k else []))] = writeGap k := by
  match k with
  | 0 => omega
  | 1 => simp [writeGap_one]
  | k + 2 => simp [writeGap_add_two, natStr, Nat.toList_repr]

theorem formatItems_eq_writeItems (row : List Stack) : ∀ (k fuel : Nat),
    k + row.length ≤ fuel → formatItems fuel (List.replicate k [] ++ row) = writeItems k row := by
  induction row with
  | nil =>
    intro k fuel hf
    rw [writeItems_nil]
    by_cases hk : k = 0
    · subst hk; simp [formatItems_nil, writeGap_zero]
    · obtain ⟨f, rfl⟩ : ∃ f, fuel = f + 1 := ⟨fuel - 1, by simp at hf; omega⟩
      rw [formatItems_gap f k (by omega) [] rfl, formatItems_nil, gapItem k (by omega)]
  | cons sq rest ih =>
    intro k fuel hf
    simp only [List.length_cons] at hf
    cases sq with
    | nil =>
      rw [writeItems_empty, ← ih (k + 1) fuel (by omega)]
      simp [List.replicate_succ', List.append_assoc]
    | cons pc s =>
      rw [writeItems_stack]
      by_cases hk : k = 0
      · subst hk
        obtain ⟨f, rfl⟩ : ∃ f, fuel = f + 1 := ⟨fuel - 1, by omega⟩
        have := ih 0 f (by omega)
        simp only [List.replicate_zero, List.nil_append] at this ⊢
        rw [formatItems_stack, this, writeGap_zero, formatSquare_eq_writeStack]
        rfl
      · obtain ⟨f, rfl⟩ : ∃ f, fuel = f + 2 := ⟨fuel - 2, by omega⟩
        have := ih 0 f (by omega)
        simp only [List.replicate_zero, List.nil_append] at this
        rw [formatItems_gap (f + 1) k (by omega) _ rfl, formatItems_stack, this,
          ← gapItem k (by omega), formatSquare_eq_writeStack]
        rfl

/-! ### writing what was parsed from canonical items -/

theorem writeItems_replicate (j : Nat) : ∀ (k : Nat) (row : List Stack),
    writeItems k (List.replicate j [] ++ row) = writeItems (k + j) row := by
  induction j with
  | zero => intro k row; simp
  | succ j ih =>
    intro k row
    rw [List.replicate_succ, List.cons_append, writeItems_empty, ih]
    congr 1; omega

theorem parseItem_ok {b : List Char} {S : List Stack} (h : parseItem b = .ok S) :
    (b = ['x'] ∧ S = [[]]) ∨
    (∃ d, b = ['x', d] ∧ d ∈ ['1', '2', '3', '4', '5', '6', '7', '8'] ∧
        S = List.replicate (decVal [d]) []) ∨
    (∃ c rest s, b = c :: rest ∧ c ≠ 'x' ∧ parseStack b [] = .ok s ∧ S = [s]) := by
  unfold parseItem at h
  split at h
  · cases h
  · rename_i c0 b1
    split at h
    · rename_i hx
      subst hx
      split at h
      · left; exact ⟨rfl, by cases h; rfl⟩
      · rename_i d
        split at h
        · rename_i hd
          right; left
          exact ⟨d, rfl, hd, by cases h; rfl⟩
        · cases h
      · cases h
    · rename_i hx
      right; right
      split at h
      · cases h
      · rename_i st hst
        exact ⟨c0, b1, st, rfl, hx, hst, by cases h; rfl⟩

theorem count_cases {d : Char} (hd : d ∈ ['1', '2', '3', '4', '5', '6', '7', '8']) :
    d = '1' ∨ d = '2' ∨ d = '3' ∨ d = '4' ∨ d = '5' ∨ d = '6' ∨ d = '7' ∨ d = '8' := by
  simpa using hd

theorem parseStack_ok_ne_nil {b : List Char} {s : Stack} (hb : b ≠ [])
    (h : parseStack b [] = .ok s) : s ≠ [] := by
  intro hs
  subst hs
  have := writeStack_parseStack h
  exact hb (by simpa [writeStack] using this.symm)

theorem writeItems_parseItems (items : List (List Char)) : ∀ (k : Nat) (sqs out : List Stack),
    parseItems items sqs = .ok out → noAdjacentGaps items = true →
    (∀ it ∈ items, it ≠ ['x', '1']) → (k = 0 ∨ items.head?.map isGap ≠ some true) →
    ∃ row, out = sqs ++ row ∧ writeItems k row = writeGap k ++ items := by
  induction items with
  | nil =>
    intro k sqs out h _ _ _
    refine ⟨[], ?_, by simp [writeItems_nil]⟩
    simpa [parseItems] using h.symm
  | cons it rest ih =>
    intro k sqs out h hg hx hk
    have hx' : ∀ it ∈ rest, it ≠ ['x', '1'] := fun a ha => hx a (List.mem_cons_of_mem _ ha)
    have hg' : noAdjacentGaps rest = true := by
      cases rest with
      | nil => rfl
      | cons b r => simp only [noAdjacentGaps, Bool.and_eq_true] at hg; exact hg.2
    -- after a run of empty squares the next item is not a run
    have hnext : isGap it = true → rest.head?.map isGap ≠ some true := by
      intro hgi
      cases rest with
      | nil => simp
      | cons b r =>
        simp only [noAdjacentGaps, Bool.and_eq_true, Bool.not_eq_true', Bool.and_eq_false_iff] at hg
        rcases hg.1 with h1 | h1
        · rw [h1] at hgi; cases hgi
        · simp [h1]
    unfold parseItems at h
    split at h
    · cases h
    · rename_i S hS
      rcases parseItem_ok hS with ⟨rfl, rfl⟩ | ⟨d, rfl, hd, rfl⟩ | ⟨c, r, s, rfl, hc, hs, rfl⟩
      · -- `x`
        have hk0 : k = 0 := by
          rcases hk with hk | hk
          · exact hk
          · exact absurd (by simp [isGap]) hk
        subst hk0
        obtain ⟨row', ho, hw⟩ := ih 1 _ out h hg' hx' (.inr (hnext (by simp [isGap])))
        refine ⟨[] :: row', by simp [ho], ?_⟩
        rw [writeItems_empty, hw, writeGap_one, writeGap_zero]
        rfl
      · -- `x<d>`, d = 2..8
        have hk0 : k = 0 := by
          rcases hk with hk | hk
          · exact hk
          · exact absurd (by simp [isGap]) hk
        subst hk0
        have hd1 : d ≠ '1' := fun e => hx ['x', d] (by simp) (by rw [e])
        obtain ⟨row', ho, hw⟩ :=
          ih (decVal [d]) _ out h hg' hx' (.inr (hnext (by simp [isGap])))
        refine ⟨List.replicate (decVal [d]) [] ++ row', by simp [ho], ?_⟩
        rw [writeItems_replicate, Nat.zero_add, hw, writeGap_zero]
        have : writeGap (decVal [d]) = [['x', d]] := by
          rcases count_cases hd with e | e | e | e | e | e | e | e
          · exact absurd e hd1
          all_goals (subst e; rfl)
        rw [this]; rfl
      · -- a stack
        obtain ⟨pc, s', rfl⟩ : ∃ pc s', s = pc :: s' := by
          cases s with
          | nil => exact absurd rfl (parseStack_ok_ne_nil (by simp) hs)
          | cons a b => exact ⟨a, b, rfl⟩
        obtain ⟨row', ho, hw⟩ := ih 0 _ out h hg' hx' (.inl rfl)
        refine ⟨(pc :: s') :: row', by simp [ho], ?_⟩
        rw [writeItems_stack, hw, writeStack_parseStack hs, writeGap_zero]
        rfl

/-! ### whatever is accepted is in the grammar; nothing crashes -/

theorem itemSquares_stack {c : Char} (rest : List Char) (hc : c ≠ 'x') :
    itemSquares (c :: rest) = 1 := by
  unfold itemSquares
  split
  · rename_i c' d heq
    have : c = c' := by injection heq
    subst this
    simp [hc]
  · rfl

theorem parseItem_sound {b : List Char} {S : List Stack} (h : parseItem b = .ok S) :
    isItem b = true ∧ itemSquares b = S.length := by
  rcases parseItem_ok h with ⟨rfl, rfl⟩ | ⟨d, rfl, hd, rfl⟩ | ⟨c, r, s, rfl, hc, hs, rfl⟩
  · exact ⟨rfl, rfl⟩
  · rcases count_cases hd with e | e | e | e | e | e | e | e <;> subst e <;> exact ⟨rfl, rfl⟩
  · obtain ⟨cols, k, hne, hb⟩ := parseStack_ne_nil (by simp) hs
    refine ⟨?_, by simpa using itemSquares_stack r hc⟩
    have := isStackText_of cols k hne
    rw [← hb] at this
    simp [isItem, hc, this]

theorem parseItems_sound (items : List (List Char)) : ∀ (sqs out : List Stack),
    parseItems items sqs = .ok out →
    (∀ it ∈ items, isItem it = true) ∧
      out.length = sqs.length + (items.map itemSquares).sum := by
  induction items with
  | nil =>
    intro sqs out h
    have : out = sqs := by simpa [parseItems] using h.symm
    simp [this]
  | cons it rest ih =>
    intro sqs out h
    unfold parseItems at h
    split at h
    · cases h
    · rename_i S hS
      obtain ⟨h1, h2⟩ := parseItem_sound hS
      obtain ⟨h3, h4⟩ := ih _ _ h
      refine ⟨?_, ?_⟩
      · intro a ha
        rcases List.mem_cons.mp ha with rfl | ha
        · exact h1
        · exact h3 a ha
      · simp only [List.length_append] at h4
        simp only [List.map_cons, List.sum_cons]
        omega

theorem parseStack_not_crash (b : List Char) : ∀ (st : Stack) (c : String),
    parseStack b st ≠ .error (.crash c) := by
  induction b with
  | nil => intro st c h; simp [parseStack] at h
  | cons a r ih =>
    intro st c h
    unfold parseStack at h
    split at h
    · cases h
    · split at h
      · exact ih _ _ h
      · split at h
        · exact ih _ _ h
        · split at h
          · cases st with
            | nil => cases h
            | cons t bl => exact ih _ _ h
          · cases h

theorem parseItem_not_crash (b : List Char) (c : String) : parseItem b ≠ .error (.crash c) := by
  intro h
  unfold parseItem at h
  split at h
  · cases h
  · split at h
    · split at h
      · cases h
      · split at h <;> cases h
      · cases h
    · split at h
      · rename_i e he
        cases h
        exact parseStack_not_crash _ _ _ he
      · cases h

theorem parseItems_not_crash (items : List (List Char)) : ∀ (sqs : List Stack) (c : String),
    parseItems items sqs ≠ .error (.crash c) := by
  induction items with
  | nil => intro sqs c h; simp [parseItems] at h
  | cons it rest ih =>
    intro sqs c h
    unfold parseItems at h
    split at h
    · rename_i e he
      cases h
      exact parseItem_not_crash _ _ he
    · exact ih _ _ h

end Tak.TPS

/-
  The move table `Gen.allMovesForSize n` is exactly the well-formed moves of size `n`,
  without duplicates; `lastIdxOf` (the dict lookup) inverts indexing on such a list.
-/
import TakVerif.Model.Gen
import TakVerif.Spec.MoveWF
import TakVerif.Lemmas.Slides

namespace Tak
namespace Gen

/-! ### lists of drop counts: `Nat` in the tables, `Int` in `Move` -/

theorem map_ofNat_toNat : ∀ (ds : List Int), (∀ d ∈ ds, 1 ≤ d) → (ds.map Int.toNat).map Int.ofNat = ds
  | [], _ => rfl
  | d :: t, h => by
    have h1 := h d (by simp)
    have h2 := map_ofNat_toNat t (fun e he => h e (by simp [he]))
    simp only [List.map_cons, h2]
    congr 1
    simp only [Int.ofNat_eq_natCast]; omega

theorem map_toNat_ofNat : ∀ (s : List Nat), (s.map Int.ofNat).map Int.toNat = s
  | [] => rfl
  | d :: t => by simp [map_toNat_ofNat t]

theorem sum_map_ofNat : ∀ (s : List Nat), (s.map Int.ofNat).sum = (s.sum : Int)
  | [] => rfl
  | d :: t => by simp [sum_map_ofNat t]

theorem slideMove_inj {x y : Nat} {d d' : MoveType} {s s' : List Nat}
    (h : slideMove x y d s = slideMove x y d' s') : d = d' ∧ s = s' := by
  unfold slideMove at h
  injection h with _ _ h3 h4
  refine ⟨h3, ?_⟩
  have := congrArg (fun o => (o.getD []).map Int.toNat) h4
  simp only [Option.getD_some] at this
  rwa [map_toNat_ofNat, map_toNat_ofNat] at this

/-! ### the loops -/

theorem mem_grid {n : Nat} {cell : Nat → Nat → List Move} {m : Move} :
    m ∈ grid n cell ↔ ∃ x, x < n ∧ ∃ y, y < n ∧ m ∈ cell x y := by
  simp only [grid, List.mem_flatMap, List.mem_range]

theorem nodup_grid (n : Nat) (cell : Nat → Nat → List Move)
    (hc : ∀ x y, (cell x y).Nodup)
    (hxy : ∀ x y m, m ∈ cell x y → m.x = x ∧ m.y = y) : (grid n cell).Nodup := by
  unfold grid
  apply nodup_flatMap_of_key _ _ (fun m => m.x.toNat) List.nodup_range
  · intro x _
    apply nodup_flatMap_of_key _ _ (fun m => m.y.toNat) List.nodup_range
    · intro y _; exact hc x y
    · intro y _ m hm
      have := (hxy x y m hm).2
      simp [this]
  · intro x _ m hm
    simp only [List.mem_flatMap, List.mem_range] at hm
    obtain ⟨y, _, hm⟩ := hm
    have := (hxy x y m hm).1
    simp [this]

theorem mem_dirs {n x y : Nat} {d : MoveType} {l : Nat} :
    (d, l) ∈ dirs n x y ↔
      (d = .left ∧ l = x) ∨ (d = .right ∧ l = n - x - 1) ∨ (d = .down ∧ l = y) ∨
        (d = .up ∧ l = n - y - 1) := by
  simp [dirs]

theorem mem_slideLoop {n x y : Nat} {cond : List Nat → Nat → Bool} {m : Move} :
    m ∈ slideLoop n x y cond ↔
      ∃ s, s ∈ slides n ∧ ∃ d l, (d, l) ∈ dirs n x y ∧ cond s l = true ∧ m = slideMove x y d s := by
  simp only [slideLoop, List.mem_flatMap, List.mem_filterMap]
  constructor
  · rintro ⟨s, hs, ⟨d, l⟩, hdl, h⟩
    refine ⟨s, hs, d, l, hdl, ?_⟩
    by_cases hc : cond s l = true
    · simp only [hc, if_true, Option.some.injEq] at h
      exact ⟨hc, h.symm⟩
    · simp [hc] at h
  · rintro ⟨s, hs, d, l, hdl, hc, rfl⟩
    exact ⟨s, hs, (d, l), hdl, by simp [hc]⟩

theorem slideLoop_xy {n x y : Nat} {cond : List Nat → Nat → Bool} {m : Move}
    (h : m ∈ slideLoop n x y cond) : m.x = x ∧ m.y = y := by
  obtain ⟨s, _, d, l, _, _, rfl⟩ := mem_slideLoop.1 h
  exact ⟨rfl, rfl⟩

theorem nodup_slideLoop (n x y : Nat) (cond : List Nat → Nat → Bool) :
    (slideLoop n x y cond).Nodup := by
  unfold slideLoop
  apply nodup_flatMap_of_key _ _ (fun m => (m.slides.getD []).map Int.toNat) (slides_nodup n)
  · intro s _
    unfold List.Nodup
    rw [List.pairwise_filterMap]
    simp only [dirs, List.pairwise_cons, List.mem_cons, List.not_mem_nil, or_false,
      List.Pairwise.nil, and_true]
    simp only [forall_eq_or_imp, forall_eq]
    have key : ∀ (c c' : Prop) [Decidable c] [Decidable c'] (d d' : MoveType), d ≠ d' →
        ∀ b : Move, (if c then some (slideMove x y d s) else none) = some b →
          ∀ b' : Move, (if c' then some (slideMove x y d' s) else none) = some b' → b ≠ b' := by
      intro c c' _ _ d d' hd b hb b' hb' e
      subst e
      by_cases h1 : c
      · by_cases h2 : c'
        · rw [if_pos h1] at hb; rw [if_pos h2] at hb'
          exact hd (slideMove_inj ((Option.some.inj hb).trans (Option.some.inj hb').symm)).1
        · rw [if_neg h2] at hb'; cases hb'
      · rw [if_neg h1] at hb; cases hb
    refine ⟨⟨?_, ?_, ?_⟩, ⟨?_, ?_⟩, ?_, ?_⟩
    · exact key _ _ _ _ (by decide)
    · exact key _ _ _ _ (by decide)
    · exact key _ _ _ _ (by decide)
    · exact key _ _ _ _ (by decide)
    · exact key _ _ _ _ (by decide)
    · exact key _ _ _ _ (by decide)
    · intro a' h; cases h
  · intro s _ m hm
    simp only [List.mem_filterMap] at hm
    obtain ⟨⟨d, l⟩, _, h⟩ := hm
    split at h
    · simp only [Option.some.injEq] at h
      subst h
      simp only [slideMove, Option.getD_some, map_toNat_ofNat]
    · cases h

/-! ### the table -/

theorem mem_placements {x y : Nat} {m : Move} :
    m ∈ placements x y ↔ m.x = x ∧ m.y = y ∧ m.type.isSlide = false ∧ m.slides = none := by
  obtain ⟨mx, my, t, sl⟩ := m
  simp only [placements, List.mem_cons, List.not_mem_nil, or_false, Move.mk.injEq]
  constructor
  · rintro (⟨rfl, rfl, rfl, rfl⟩ | ⟨rfl, rfl, rfl, rfl⟩ | ⟨rfl, rfl, rfl, rfl⟩) <;> simp [MoveType.isSlide]
  · rintro ⟨rfl, rfl, ht, rfl⟩
    cases t <;> simp_all [MoveType.isSlide]

theorem nodup_placements (x y : Nat) : (placements x y).Nodup := by
  simp [placements]

theorem isSlide_of_mem_dirs {n x y : Nat} {d : MoveType} {l : Nat} (h : (d, l) ∈ dirs n x y) :
    d.isSlide = true := by
  rcases mem_dirs.1 h with ⟨rfl, _⟩ | ⟨rfl, _⟩ | ⟨rfl, _⟩ | ⟨rfl, _⟩ <;> rfl

/-- the room listed in `dirs` is the distance to the edge -/
theorem edgeDist_of_mem_dirs {n x y : Nat} (hx : x < n) (hy : y < n) {d : MoveType} {l : Nat}
    (h : (d, l) ∈ dirs n x y) (sl : Option (List Int)) :
    edgeDist n ⟨x, y, d, sl⟩ = l := by
  rcases mem_dirs.1 h with ⟨rfl, rfl⟩ | ⟨rfl, rfl⟩ | ⟨rfl, rfl⟩ | ⟨rfl, rfl⟩ <;>
    simp only [edgeDist] <;> omega

theorem exists_mem_dirs (n x y : Nat) {d : MoveType} (h : d.isSlide = true) :
    ∃ l, (d, l) ∈ dirs n x y := by
  cases d <;> simp [MoveType.isSlide] at h <;> simp [dirs]

theorem tableCell_mem {n x y : Nat} (hx : x < n) (hy : y < n) {m : Move} :
    m ∈ tableCell n x y ↔ m.x = x ∧ m.y = y ∧ MoveWF n m := by
  unfold tableCell
  rw [List.mem_append, mem_placements, mem_slideLoop]
  constructor
  · rintro (⟨h1, h2, h3, h4⟩ | ⟨s, hs, d, l, hdl, hc, rfl⟩)
    · refine ⟨h1, h2, ?_⟩
      unfold MoveWF
      rw [h1, h2, h4]
      exact ⟨by omega, by omega, by omega, by omega, h3⟩
    · refine ⟨rfl, rfl, ?_⟩
      obtain ⟨hne, hp, hsum⟩ := (slides_mem n s).1 hs
      have hc : s.length ≤ l := by simpa using hc
      unfold MoveWF
      simp only [slideMove]
      refine ⟨by omega, by omega, by omega, by omega, isSlide_of_mem_dirs hdl, ?_, ?_, ?_, ?_⟩
      · simpa using hne
      · intro d' hd'
        simp only [List.mem_map] at hd'
        obtain ⟨e, he, rfl⟩ := hd'
        have := hp e he
        simp only [Int.ofNat_eq_natCast]; omega
      · rw [sum_map_ofNat]; omega
      · rw [edgeDist_of_mem_dirs hx hy hdl]
        simp only [List.length_map]; omega
  · rintro ⟨h1, h2, hwf⟩
    obtain ⟨mx, my, t, sl⟩ := m
    simp only at h1 h2
    subst h1 h2
    unfold MoveWF at hwf
    obtain ⟨_, _, _, _, hwf⟩ := hwf
    cases sl with
    | none => left; exact ⟨rfl, rfl, hwf, rfl⟩
    | some ds =>
      right
      simp only at hwf
      obtain ⟨ht, hne, hp, hsum, hroom⟩ := hwf
      obtain ⟨l, hdl⟩ := exists_mem_dirs n x y ht
      rw [edgeDist_of_mem_dirs hx hy hdl] at hroom
      refine ⟨ds.map Int.toNat, ?_, t, l, hdl, ?_, ?_⟩
      · rw [slides_mem]
        refine ⟨by simpa using hne, ?_, ?_⟩
        · intro d hd
          simp only [List.mem_map] at hd
          obtain ⟨e, he, rfl⟩ := hd
          have := hp e he
          omega
        · have := sum_map_ofNat (ds.map Int.toNat)
          rw [map_ofNat_toNat ds hp] at this
          omega
      · simp only [List.length_map, decide_eq_true_eq]; omega
      · simp only [slideMove, map_ofNat_toNat ds hp]

theorem table_mem (n : Nat) (m : Move) : m ∈ allMovesForSize n ↔ MoveWF n m := by
  unfold allMovesForSize
  rw [mem_grid]
  constructor
  · rintro ⟨x, hx, y, hy, h⟩
    exact ((tableCell_mem hx hy).1 h).2.2
  · intro h
    have h' := h
    obtain ⟨h1, h2, h3, h4, _⟩ := h'
    refine ⟨m.x.toNat, by omega, m.y.toNat, by omega, ?_⟩
    rw [tableCell_mem (by omega) (by omega)]
    exact ⟨by omega, by omega, h⟩

theorem tableCell_nodup (n x y : Nat) : (tableCell n x y).Nodup := by
  unfold tableCell
  rw [List.nodup_append]
  refine ⟨nodup_placements x y, nodup_slideLoop _ _ _ _, ?_⟩
  intro a ha b hb e
  subst e
  have h1 := (mem_placements.1 ha).2.2.2
  obtain ⟨s, _, d, l, _, _, rfl⟩ := mem_slideLoop.1 hb
  simp [slideMove] at h1

theorem tableCell_xy {n x y : Nat} {m : Move} (h : m ∈ tableCell n x y) : m.x = x ∧ m.y = y := by
  unfold tableCell at h
  rcases List.mem_append.1 h with h | h
  · have := mem_placements.1 h; exact ⟨this.1, this.2.1⟩
  · exact slideLoop_xy h

theorem table_nodup (n : Nat) : (allMovesForSize n).Nodup :=
  nodup_grid n _ (tableCell_nodup n) (fun _ _ _ h => tableCell_xy h)

/-- table entries are plain: a placement in the table carries no drop tuple -/
theorem tableEntry_plain {n : Nat} {m : Move} (h : m ∈ allMovesForSize n) : m.Plain := by
  have hwf := (table_mem n m).1 h
  obtain ⟨_, _, _, _, hwf⟩ := hwf
  intro hs
  cases hsl : m.slides with
  | none => rfl
  | some ds =>
    rw [hsl] at hwf
    have := hwf.1
    rw [hs] at this; cases this

/-! ### the dict lookup -/

theorem lastIdxOf_some {m : Move} : ∀ {l : List Move} {i : Nat}, lastIdxOf m l = some i → l[i]? = some m
  | [], _, h => by simp [lastIdxOf] at h
  | a :: t, i, h => by
    unfold lastIdxOf at h
    split at h
    · rename_i j hj
      simp only [Option.some.injEq] at h
      subst h
      simpa using lastIdxOf_some hj
    · split at h
      · simp only [Option.some.injEq] at h
        subst h
        simp_all
      · cases h

theorem lastIdxOf_none {m : Move} : ∀ {l : List Move}, lastIdxOf m l = none → m ∉ l
  | [], _ => by simp
  | a :: t, h => by
    unfold lastIdxOf at h
    split at h
    · cases h
    · rename_i hn
      split at h
      · cases h
      · rename_i hne
        simp only [List.mem_cons, not_or]
        exact ⟨fun e => hne e.symm, lastIdxOf_none hn⟩

theorem lastIdxOf_of_mem {m : Move} {l : List Move} (h : m ∈ l) : ∃ i, lastIdxOf m l = some i := by
  cases e : lastIdxOf m l with
  | none => exact absurd h (lastIdxOf_none e)
  | some i => exact ⟨i, rfl⟩

/-- on a duplicate-free list the lookup inverts indexing -/
theorem lastIdxOf_getElem {l : List Move} (hl : l.Nodup) {i : Nat} (hi : i < l.length) :
    lastIdxOf l[i] l = some i := by
  obtain ⟨j, hj⟩ := lastIdxOf_of_mem (List.getElem_mem hi)
  have h1 := lastIdxOf_some hj
  have hjl : j < l.length := by
    rcases Nat.lt_or_ge j l.length with h | h
    · exact h
    · rw [List.getElem?_eq_none h] at h1; cases h1
  rw [List.getElem?_eq_getElem hjl] at h1
  simp only [Option.some.injEq] at h1
  have hpw := List.pairwise_iff_getElem.1 hl
  rcases Nat.lt_trichotomy j i with h | h | h
  · exact absurd h1 (hpw j i hjl hi h)
  · rw [hj, h]
  · exact absurd h1.symm (hpw i j hi hjl h)

end Gen
end Tak

/-
  One simulation preserves the search-tree invariant (the induction behind C08).
-/
import TakVerif.Lemmas.Tree

namespace Tak
namespace Tree

/-! ### unfolding `Local` by case -/

theorem local_terminal {cfg : Cfg} {tol : Tol} {t : Node} {w : Option Color}
    (ho : cfg.outcome t.position = some w) :
    Local cfg tol t ↔ t.position.WF ∧ t.children = none ∧
      (0 < t.sims → t.v0 = outcomeValue t.position.toMove w) ∧
      t.value = t.sims * outcomeValue t.position.toMove w := by
  unfold Local; rw [ho]

theorem local_unexpanded {cfg : Cfg} {tol : Tol} {t : Node}
    (ho : cfg.outcome t.position = none) (hc : t.children = none) :
    Local cfg tol t ↔ t.position.WF ∧ t.sims = 0 ∧ t.value = 0 := by
  unfold Local; rw [ho, hc]

theorem local_expanded {cfg : Cfg} {tol : Tol} {t : Node} {cs : List Node}
    (ho : cfg.outcome t.position = none) (hc : t.children = some cs) :
    Local cfg tol t ↔ t.position.WF ∧ ∃ ev, t.ev = some ev ∧ ExpandedOK cfg tol t cs ev := by
  unfold Local; rw [ho, hc]

/-- an expanded node is not a finished game -/
theorem outcome_none_of_expanded {cfg : Cfg} {tol : Tol} {t : Node} {cs : List Node}
    (h : Local cfg tol t) (hc : t.children = some cs) : cfg.outcome t.position = none := by
  cases ho : cfg.outcome t.position with
  | none => rfl
  | some w =>
    have := ((local_terminal ho).1 h).2.1
    rw [hc] at this; cases this

theorem fresh_inv (cfg : Cfg) (tol : Tol) (p : Pos) (m : Option Move) (hwf : p.WF) :
    TreeInv cfg tol (fresh p m) := by
  refine Node.All.mk _ ?_ ?_
  · cases ho : cfg.outcome p with
    | some w =>
      refine (local_terminal (t := fresh p m) ho).2 ⟨hwf, rfl, ?_, ?_⟩
      · intro h; exact absurd h (Nat.lt_irrefl 0)
      · simp [fresh]
    | none => exact (local_unexpanded (t := fresh p m) ho rfl).2 ⟨hwf, rfl, rfl⟩
  · intro cs hc; cases hc

theorem sum_sims_fresh {α : Type} (g : α → Pos) (h : α → Option Move) :
    ∀ l : List α, ((l.map fun c => fresh (g c) (h c)).map (·.sims)).sum = 0 := by
  intro l; induction l with
  | nil => rfl
  | cons a r ih => simpa [fresh] using ih

theorem sum_value_fresh {α : Type} (g : α → Pos) (h : α → Option Move) :
    ∀ l : List α, ((l.map fun c => fresh (g c) (h c)).map (·.value)).sum = 0 := by
  intro l; induction l with
  | nil => rfl
  | cons a r ih => simpa [fresh] using ih

theorem mem_zip_map_self {α β : Type} (f : α → β) :
    ∀ (l : List α) (x : β × α), x ∈ (l.map f).zip l → x.1 = f x.2 := by
  intro l; induction l with
  | nil => intro x h; simp at h
  | cons a r ih =>
    intro x h
    simp only [List.map_cons, List.zip_cons_cons, List.mem_cons] at h
    rcases h with rfl | h
    · rfl
    · exact ih x h

/-- the clauses of a node that has just been expanded on `ev` and visited once -/
theorem expandedOK_fresh (cfg : Cfg) (tol : Tol) (hp : 0 ≤ tol.ptol) (hv : 0 ≤ tol.vtol)
    (t2 : Node) (ev : Answer) (hsims : t2.sims = 1) (hv0 : t2.v0 = ev.value) (hval : t2.value = ev.value)
    (hpri : t2.priors = (selected cfg t2.position ev).map fun c => c.2 / selectedMass cfg t2.position ev)
    (hnoise : ev.noise.isSome = true → cfg.noise = true) :
    ExpandedOK cfg tol t2
      ((selected cfg t2.position ev).map fun c => fresh (Rules.result t2.position c.1) (some c.1)) ev := by
  refine
    { visits := ?_, value := ?_, own := hv0, noiseCfg := hnoise, moves := ?_, positions := ?_,
      priorsLen := ?_, priors := ?_, childNoise := ?_ }
  · rw [sum_sims_fresh, hsims]
  · rw [sum_value_fresh, hval, hv0, hsims]
    have : ev.value - (ev.value - 0) = 0 := by ring
    rw [this, rabs_zero]
    push_cast; linarith
  · rw [List.map_map]; rfl
  · intro c hm m hmv
    obtain ⟨x, _, rfl⟩ := List.mem_map.1 hm
    cases hmv; rfl
  · rw [hpri]; exact List.length_map _
  · intro x hx
    rw [hpri] at hx
    have h1 : x.1 = x.2.2 / selectedMass cfg t2.position ev :=
      mem_zip_map_self (fun c : Move × Rat => c.2 / selectedMass cfg t2.position ev) _ x hx
    rw [h1, sub_self, rabs_zero]
    exact mul_nonneg hp (rabs_nonneg _)
  · intro c hm e he
    obtain ⟨x, _, rfl⟩ := List.mem_map.1 hm
    cases he

/-- the conclusion shared by the leaf step and the recursive step -/
structure StepOK (cfg : Cfg) (tol : Tol) (isRoot : Bool) (t t' : Node) (x : Rat) : Prop where
  inv : TreeInv cfg tol t'
  sims : t'.sims = t.sims + 1
  value : t'.value = t.value + x
  position : t'.position = t.position
  move : t'.move = t.move
  noise : isRoot = false → (∀ e, t.ev = some e → e.noise = none) → ∀ e, t'.ev = some e → e.noise = none

theorem leafStep_spec (h01 : C01Hyp) (cfg : Cfg) (tol : Tol) (hp : 0 ≤ tol.ptol) (hv : 0 ≤ tol.vtol)
    (isRoot : Bool) (answers : List Answer) (t : Node) (r : Node × Rat × List Answer)
    (hc : t.children = none) (hinv : TreeInv cfg tol t) (h : leafStep cfg isRoot answers t = some r) :
    StepOK cfg tol isRoot t r.1 r.2.1 := by
  have hloc := hinv.here
  unfold leafStep at h
  cases ho : cfg.outcome t.position with
  | some w =>
    rw [populate_terminal cfg isRoot answers t w ho] at h
    simp only [Option.some.injEq] at h
    subst h
    obtain ⟨hwf, _, _, hval⟩ := (local_terminal ho).1 hloc
    refine ⟨Node.All.mk _ ?_ ?_, rfl, rfl, rfl, rfl, fun _ hn => hn⟩
    · refine (local_terminal (t := { t with v0 := _, value := _, sims := _ }) ho).2 ⟨hwf, hc, fun _ => rfl, ?_⟩
      show t.value + outcomeValue t.position.toMove w = ((t.sims + 1 : Nat) : Rat) * outcomeValue t.position.toMove w
      rw [hval]; push_cast; ring
    · intro cs hcs
      rw [show ({ t with v0 := outcomeValue t.position.toMove w, value := _, sims := _ } : Node).children = t.children from rfl, hc] at hcs
      cases hcs
  | none =>
    obtain ⟨hwf, hs, hval⟩ := (local_unexpanded ho hc).1 hloc
    cases hpop : populate cfg isRoot answers t with
    | none => rw [hpop] at h; cases h
    | some pr =>
      obtain ⟨t', as'⟩ := pr
      rw [hpop] at h
      simp only [Option.some.injEq] at h
      subst h
      obtain ⟨ans, _, ht'⟩ := populate_nonterminal h01 cfg isRoot answers t t' as' hwf ho hpop
      subst ht'
      let ev := filed cfg isRoot ans
      let sel := selected cfg t.position ev
      refine ⟨Node.All.mk _ ?_ ?_, rfl, rfl, rfl, rfl, ?_⟩
      · refine (local_expanded (cs := sel.map fun c => fresh (Rules.result t.position c.1) (some c.1))
          (t := { expansionOf cfg t ev with value := _, sims := _ }) ho rfl).2 ⟨hwf, ev, rfl, ?_⟩
        refine expandedOK_fresh cfg tol hp hv
          { expansionOf cfg t ev with value := _, sims := _ } ev ?_ rfl ?_ rfl ?_
        · show t.sims + 1 = 1
          rw [hs]
        · show t.value + ev.value = ev.value
          rw [hval]; ring
        · intro hn
          cases hb : (isRoot && cfg.noise) with
          | false =>
            have : ev.noise = none := by simp [ev, filed, hb]
            rw [this] at hn; cases hn
          | true =>
            cases isRoot <;> simp_all
      · intro cs hcs c hm
        have : cs = sel.map fun c => fresh (Rules.result t.position c.1) (some c.1) := by
          have : some cs = some (sel.map fun c => fresh (Rules.result t.position c.1) (some c.1)) := hcs.symm
          exact Option.some.inj this
        subst this
        obtain ⟨x, _, rfl⟩ := List.mem_map.1 hm
        exact fresh_inv cfg tol _ _ (result_WF _ hwf)
      · intro hr _ e he
        have : e = ev := by
          have : some ev = some e := he
          exact (Option.some.inj this).symm
        subst this
        simp [ev, filed, hr]

/-- replacing one child by a version of itself that has one more visit and `x` more value, and
    counting the visit at the parent, keeps the parent's clauses -/
theorem expandedOK_step (cfg : Cfg) (tol : Tol) (hv : 0 ≤ tol.vtol) (t : Node) (cs : List Node) (ev : Answer)
    (c : Nat) (ch ch' : Node) (x : Rat) (hch : cs[c]? = some ch)
    (h : ExpandedOK cfg tol t cs ev)
    (hs : ch'.sims = ch.sims + 1) (hval : ch'.value = ch.value + x)
    (hpos : ch'.position = ch.position) (hmv : ch'.move = ch.move)
    (hnz : ∀ e, ch'.ev = some e → e.noise = none)
    (t' : Node) (hp' : t'.position = t.position) (hv0' : t'.v0 = t.v0) (hpri' : t'.priors = t.priors)
    (hs' : t'.sims = t.sims + 1) (hval' : t'.value = t.value + (-x)) :
    ExpandedOK cfg tol t' (cs.set c ch') ev := by
  have hmem : ch ∈ cs := List.mem_of_getElem? hch
  refine
    { visits := ?_, value := ?_, own := by rw [hv0']; exact h.own, noiseCfg := h.noiseCfg, moves := ?_,
      positions := ?_, priorsLen := by rw [hpri', hp']; exact h.priorsLen, priors := ?_, childNoise := ?_ }
  · rw [hs', sum_map_set (·.sims) 1 cs c ch ch' hch hs, h.visits]; omega
  · rw [hval', hv0', hs', sum_map_set (·.value) x cs c ch ch' hch hval]
    have e : t.value + -x - (t.v0 - ((cs.map (·.value)).sum + x)) = t.value - (t.v0 - (cs.map (·.value)).sum) := by
      ring
    rw [e]
    have := h.value
    have h2 : tol.vtol * (t.sims : Rat) ≤ tol.vtol * ((t.sims + 1 : Nat) : Rat) := by
      apply mul_le_mul_of_nonneg_left _ hv
      push_cast; linarith
    linarith
  · rw [hp', map_set_same (·.move) cs c ch ch' hch hmv]; exact h.moves
  · intro k hk m hm
    rw [hp']
    rcases mem_set_cases hk with rfl | hk
    · rw [hpos]; rw [hmv] at hm; exact h.positions ch hmem m hm
    · exact h.positions k hk m hm
  · rw [hpri', hp']; exact h.priors
  · intro k hk e he
    rcases mem_set_cases hk with rfl | hk
    · exact hnz e he
    · exact h.childNoise k hk e he

theorem simRec_spec (h01 : C01Hyp) (cfg : Cfg) (tol : Tol) (hp : 0 ≤ tol.ptol) (hv : 0 ≤ tol.vtol) :
    ∀ (choices : List Nat) (isRoot : Bool) (answers : List Answer) (t : Node)
      (r : Node × Rat × List Nat × List Answer),
      TreeInv cfg tol t → simRec cfg isRoot choices answers t = some r →
      StepOK cfg tol isRoot t r.1 r.2.1 := by
  intro choices
  induction choices with
  | nil =>
    intro isRoot answers t r hinv h
    unfold simRec at h
    cases hc : t.children with
    | some cs => rw [hc] at h; cases h
    | none =>
      rw [hc] at h
      cases hl : leafStep cfg isRoot answers t with
      | none => rw [hl] at h; cases h
      | some r0 =>
        rw [hl] at h
        simp only [Option.map_some, Option.some.injEq] at h
        subst h
        exact leafStep_spec h01 cfg tol hp hv isRoot answers t r0 hc hinv hl
  | cons c rest ih =>
    intro isRoot answers t r hinv h
    unfold simRec at h
    cases hc : t.children with
    | none =>
      rw [hc] at h
      cases hl : leafStep cfg isRoot answers t with
      | none => rw [hl] at h; cases h
      | some r0 =>
        rw [hl] at h
        simp only [Option.map_some, Option.some.injEq] at h
        subst h
        exact leafStep_spec h01 cfg tol hp hv isRoot answers t r0 hc hinv hl
    | some cs =>
      rw [hc] at h
      simp only at h
      cases hch : cs[c]? with
      | none => rw [hch] at h; cases h
      | some ch =>
        rw [hch] at h
        simp only at h
        cases hr : simRec cfg false rest answers ch with
        | none => rw [hr] at h; cases h
        | some r1 =>
          rw [hr] at h
          simp only [Option.map_some, Option.some.injEq] at h
          subst h
          have hmem : ch ∈ cs := List.mem_of_getElem? hch
          have hloc := hinv.here
          have ho := outcome_none_of_expanded hloc hc
          obtain ⟨hwf, ev, hev, hok⟩ := (local_expanded ho hc).1 hloc
          have hstep := ih false answers ch r1 (hinv.child hc hmem) hr
          have hnz : ∀ e, r1.1.ev = some e → e.noise = none :=
            hstep.noise rfl (fun e he => hok.childNoise ch hmem e he)
          refine ⟨Node.All.mk _ ?_ ?_, rfl, rfl, rfl, rfl, fun _ hn => hn⟩
          · refine (local_expanded (cs := cs.set c r1.1)
              (t := { t with children := some (cs.set c r1.1), value := _, sims := _ }) ho rfl).2
              ⟨hwf, ev, hev, ?_⟩
            exact expandedOK_step cfg tol hv t cs ev c ch r1.1 r1.2.1 hch hok hstep.sims hstep.value
              hstep.position hstep.move hnz _ rfl rfl rfl rfl rfl
          · intro cs' hcs' k hk
            have : cs' = cs.set c r1.1 := by
              have : some (cs.set c r1.1) = some cs' := hcs'
              exact (Option.some.inj this).symm
            subst this
            rcases mem_set_cases hk with rfl | hk
            · exact hstep.inv
            · exact hinv.child hc hk

/-- one simulation, as the model performs it (three passes), preserves the invariant, adds one visit
    to the root and leaves the root's position, move and noise status alone -/
theorem simulate_spec (h01 : C01Hyp) (cfg : Cfg) (tol : Tol) (hp : 0 ≤ tol.ptol) (hv : 0 ≤ tol.vtol)
    (choices : List Nat) (answers : List Answer) (t : Node) (r : Node × List Nat × List Answer)
    (hinv : TreeInv cfg tol t) (h : simulate cfg choices answers t = some r) :
    TreeInv cfg tol r.1 ∧ r.1.sims = t.sims + 1 ∧ r.1.position = t.position ∧ r.1.move = t.move := by
  rw [simulate_eq_simRec] at h
  cases hr : simRec cfg true choices answers t with
  | none => rw [hr] at h; cases h
  | some r1 =>
    rw [hr] at h
    simp only [Option.map_some, Option.some.injEq] at h
    subst h
    have := simRec_spec h01 cfg tol hp hv choices true answers t r1 hinv hr
    exact ⟨this.inv, this.sims, this.position, this.move⟩

end Tree
end Tak

/-
  `Gen.allMoves p` (= `Position.all_moves`): no duplicates, inside the move table of the size,
  and it contains every move the rules allow.
-/
import TakVerif.Model.Gen
import TakVerif.Spec.Rules
import TakVerif.Spec.MoveWF
import TakVerif.Lemmas.MoveTable

namespace Tak
namespace Gen

theorem genCell_empty {p : Pos} {x y : Nat} (h : p.sq x y = []) :
    genCell p x y =
      [⟨x, y, .placeFlat, none⟩, ⟨x, y, .placeStanding, none⟩] ++
        (if decide (p.caps p.toMove > 0) then [⟨x, y, .placeCap, none⟩] else []) := by
  simp only [genCell, h]

theorem genCell_cons {p : Pos} {x y : Nat} {top : Piece} {rest : Stack} (h : p.sq x y = top :: rest) :
    genCell p x y =
      if top.color ≠ p.toMove then []
      else slideLoop p.size x y fun s l => decide (s.length ≤ l ∧ s.length ≤ (top :: rest).length) := by
  simp only [genCell, h]

/-- every generated move of a square is one of the table's moves of that square -/
theorem genCell_sub_tableCell {p : Pos} {x y : Nat} {m : Move} (h : m ∈ genCell p x y) :
    m ∈ tableCell p.size x y := by
  unfold tableCell
  rw [List.mem_append]
  cases hs : p.sq x y with
  | nil =>
    left
    rw [genCell_empty hs] at h
    rw [mem_placements]
    simp only [List.mem_append, List.mem_cons, List.not_mem_nil, or_false] at h
    rcases h with (rfl | rfl) | h
    · exact ⟨rfl, rfl, rfl, rfl⟩
    · exact ⟨rfl, rfl, rfl, rfl⟩
    · split at h
      · simp only [List.mem_cons, List.not_mem_nil, or_false] at h
        subst h
        exact ⟨rfl, rfl, rfl, rfl⟩
      · cases h
  | cons top rest =>
    right
    rw [genCell_cons hs] at h
    split at h
    · cases h
    · rw [mem_slideLoop] at h ⊢
      obtain ⟨s, hsl, d, l, hdl, hc, rfl⟩ := h
      refine ⟨s, hsl, d, l, hdl, ?_, rfl⟩
      simp only [decide_eq_true_eq] at hc ⊢
      exact hc.1

theorem genCell_nodup (p : Pos) (x y : Nat) : (genCell p x y).Nodup := by
  cases hs : p.sq x y with
  | nil =>
    rw [genCell_empty hs]
    split <;> simp
  | cons top rest =>
    rw [genCell_cons hs]
    split
    · exact List.nodup_nil
    · exact nodup_slideLoop _ _ _ _

theorem allMoves_nodup (p : Pos) : (allMoves p).Nodup :=
  nodup_grid p.size _ (genCell_nodup p) (fun _ _ _ h => tableCell_xy (genCell_sub_tableCell h))

theorem allMoves_sub_table (p : Pos) {m : Move} (h : m ∈ allMoves p) : m ∈ allMovesForSize p.size := by
  unfold allMoves at h
  unfold allMovesForSize
  rw [mem_grid] at h ⊢
  obtain ⟨x, hx, y, hy, h⟩ := h
  exact ⟨x, hx, y, hy, genCell_sub_tableCell h⟩

/-! ### completeness -/

theorem inBounds_iff {p : Pos} {x y : Int} :
    p.inBounds x y = true ↔ 0 ≤ x ∧ x < p.size ∧ 0 ≤ y ∧ y < p.size := by
  simp only [Pos.inBounds, Bool.and_eq_true, decide_eq_true_eq]
  constructor
  · rintro ⟨⟨⟨a, b⟩, c⟩, d⟩; exact ⟨a, b, c, d⟩
  · rintro ⟨a, b, c, d⟩; exact ⟨⟨⟨a, b⟩, c⟩, d⟩

/-- the drop counts of a legal slide, seen from both sides of the `Nat`/`Int` divide -/
theorem slideDrops_some {m : Move} {ds : List Nat} (h : Rules.slideDrops m = some ds) :
    ∃ dsI, m.slides = some dsI ∧ dsI ≠ [] ∧ (∀ d ∈ dsI, 1 ≤ d) ∧ ds = dsI.map Int.toNat := by
  unfold Rules.slideDrops at h
  split at h
  · cases h
  · rename_i dsI hsl
    split at h
    · rename_i hc
      simp only [Option.some.injEq] at h
      refine ⟨dsI, hsl, hc.1, ?_, h.symm⟩
      have := hc.2
      simp only [List.all_eq_true, decide_eq_true_eq] at this
      exact this
    · cases h

/-- a slide whose path squares are all on the board is no longer than the room to the edge -/
theorem length_le_edgeDist_of_path {n : Nat} {m : Move} {k : Nat} (hk : 1 ≤ k)
    (hs : m.type.isSlide = true)
    (hp : ∀ i, i < k → 0 ≤ (Rules.pathSq m i).1 ∧ (Rules.pathSq m i).1 < n ∧
      0 ≤ (Rules.pathSq m i).2 ∧ (Rules.pathSq m i).2 < n) :
    (k : Int) ≤ edgeDist n m := by
  have h := hp (k - 1) (by omega)
  obtain ⟨mx, my, t, sl⟩ := m
  have e : ((k - 1 : Nat) : Int) + 1 = k := by omega
  simp only [Rules.pathSq, e] at h
  cases t <;> simp [MoveType.isSlide] at hs <;>
    simp only [edgeDist, MoveType.direction] at h ⊢ <;> omega

/-- conversely: within the room to the edge every path square is on the board -/
theorem path_of_length_le_edgeDist {n : Nat} {m : Move} {k : Nat}
    (hx : 0 ≤ m.x ∧ m.x < n) (hy : 0 ≤ m.y ∧ m.y < n) (hk : (k : Int) ≤ edgeDist n m) :
    ∀ i, i < k → 0 ≤ (Rules.pathSq m i).1 ∧ (Rules.pathSq m i).1 < n ∧
      0 ≤ (Rules.pathSq m i).2 ∧ (Rules.pathSq m i).2 < n := by
  intro i hi
  obtain ⟨mx, my, t, sl⟩ := m
  simp only [Rules.pathSq]
  simp only at hx hy
  cases t <;> simp only [edgeDist, MoveType.direction] at hk ⊢ <;> omega

/-- a legal move is a well-formed move of the board size (apart from a drop tuple carried by a
    placement, which the rules ignore) -/
theorem legal_moveWF {p : Pos} {m : Move} (hl : Rules.Legal p m) (hpl : m.Plain) : MoveWF p.size m := by
  rcases hl with ⟨k, h⟩ | ⟨ds, h⟩
  · have hb := inBounds_iff.1 h.onBoard
    have hns : m.type.isSlide = false := by
      have := h.kind
      cases ht : m.type <;> simp [ht, Rules.placeKind] at this <;> rfl
    have := hpl hns
    unfold MoveWF
    rw [this]
    exact ⟨hb.1, hb.2.1, hb.2.2.1, hb.2.2.2, hns⟩
  · have hb := inBounds_iff.1 h.onBoard
    obtain ⟨dsI, hsl, hne, hpos, hds⟩ := slideDrops_some h.drops
    unfold MoveWF
    rw [hsl]
    refine ⟨hb.1, hb.2.1, hb.2.2.1, hb.2.2.2, h.isSlide, hne, hpos, ?_, ?_⟩
    · have h1 := sum_map_ofNat ds
      rw [hds, map_ofNat_toNat dsI hpos] at h1
      have h2 := h.carryLimit
      rw [hds] at h2
      omega
    · have hlen : ds.length = dsI.length := by rw [hds, List.length_map]
      rw [← hlen]
      apply length_le_edgeDist_of_path
      · cases dsI with
        | nil => exact absurd rfl hne
        | cons a t => rw [hlen]; simp
      · exact h.isSlide
      · intro i hi
        exact inBounds_iff.1 (h.pathIn i hi)

theorem gen_complete {p : Pos} {m : Move} (hl : Rules.Legal p m) (hpl : m.Plain) : m ∈ allMoves p := by
  have hwf := legal_moveWF hl hpl
  obtain ⟨hx0, hx1, hy0, hy1, _⟩ := hwf
  unfold allMoves
  rw [mem_grid]
  refine ⟨m.x.toNat, by omega, m.y.toNat, by omega, ?_⟩
  have ex : ((m.x.toNat : Nat) : Int) = m.x := by omega
  have ey : ((m.y.toNat : Nat) : Int) = m.y := by omega
  rcases hl with ⟨k, h⟩ | ⟨ds, h⟩
  · have hemp : p.sq m.x.toNat m.y.toNat = [] := h.empty
    rw [genCell_empty hemp]
    have hns : m.type.isSlide = false := by
      have := h.kind
      cases ht : m.type <;> simp [ht, Rules.placeKind] at this <;> rfl
    have hsl := hpl hns
    obtain ⟨mx, my, t, sl⟩ := m
    simp only at ex ey hsl hns
    subst hsl
    have hk := h.kind
    simp only at hk
    cases t <;> simp [MoveType.isSlide] at hns
    · simp [ex, ey]
    · simp [ex, ey]
    · -- a capstone: not in the opening, hence taken from the mover's own reserve
      simp only [Rules.placeKind, Option.some.injEq] at hk
      subst hk
      have hop : ¬ p.ply < 2 := fun hlt => by have := h.opening hlt; cases this
      have hres := h.reserve
      simp only [Rules.reserveFor, Rules.placeColor, hop, if_false, if_true] at hres
      have hcap : decide (p.caps p.toMove > 0) = true := by simpa using hres
      simp [hcap, ex, ey]
  · obtain ⟨dsI, hsl, hne, hpos, hds⟩ := slideDrops_some h.drops
    have hown := h.owner
    have hh := h.height
    unfold Pos.atI at hown hh
    cases hs : p.sq m.x.toNat m.y.toNat with
    | nil => rw [hs] at hown; simp [topColor] at hown
    | cons top rest =>
      rw [hs] at hown hh
      have hc : top.color = p.toMove := by simpa [topColor] using hown
      rw [genCell_cons hs]
      simp only [hc, ne_eq, not_true_eq_false, if_false]
      rw [mem_slideLoop]
      have hdpos : ∀ d ∈ ds, 1 ≤ d := by
        intro d hd
        rw [hds, List.mem_map] at hd
        obtain ⟨e, he, rfl⟩ := hd
        have := hpos e he
        omega
      have hdne : ds ≠ [] := by rw [hds]; simpa using hne
      obtain ⟨l, hdl⟩ := exists_mem_dirs p.size m.x.toNat m.y.toNat h.isSlide
      refine ⟨ds, (slides_mem _ _).2 ⟨hdne, hdpos, h.carryLimit⟩, m.type, l, hdl, ?_, ?_⟩
      · simp only [decide_eq_true_eq]
        constructor
        · have hroom : (ds.length : Int) ≤ edgeDist p.size m := by
            apply length_le_edgeDist_of_path
            · cases ds with
              | nil => exact absurd rfl hdne
              | cons a t => simp
            · exact h.isSlide
            · intro i hi
              exact inBounds_iff.1 (h.pathIn i hi)
          have := edgeDist_of_mem_dirs (n := p.size) (by omega) (by omega) hdl m.slides
          rw [ex, ey] at this
          have e2 : (⟨m.x, m.y, m.type, m.slides⟩ : Move) = m := rfl
          rw [e2] at this
          omega
        · have := length_le_sum ds hdpos
          omega
      · obtain ⟨mx, my, t, sl⟩ := m
        simp only at ex ey hsl
        simp only [slideMove, ex, ey, hsl, hds, map_ofNat_toNat dsI hpos]

end Gen
end Tak

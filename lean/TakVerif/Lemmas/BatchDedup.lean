/-
  Helper lemmas for C12 (`dedup_batch`): the loop invariant tying the mutable state
  (`ids`, `out`, `counts`, `next`) to the declarative description
  "distinct keys in order of first occurrence, sum and number of the occurrences".
-/
import TakVerif.Model.Batch
import TakVerif.Spec.Batch

namespace Tak
namespace BatchLemmas
open Tak.Batch Tak.BatchSpec

/-! ### `distinct` -/

section distinct
variable {κ : Type} [DecidableEq κ]

theorem mem_distinct {l : List κ} {a : κ} : a ∈ distinct l ↔ a ∈ l := by
  induction l with
  | nil => simp [distinct]
  | cons b l ih =>
    simp only [distinct, List.mem_cons, List.mem_filter, ih]
    by_cases h : a = b <;> simp [h]

theorem nodup_distinct (l : List κ) : (distinct l).Nodup := by
  induction l with
  | nil => simp [distinct]
  | cons b l ih =>
    simp only [distinct, List.nodup_cons, List.mem_filter]
    exact ⟨by simp, ih.filter _⟩

theorem distinct_of_nodup {l : List κ} (h : l.Nodup) : distinct l = l := by
  induction l with
  | nil => rfl
  | cons b l ih =>
    have hb := (List.nodup_cons.mp h)
    simp only [distinct, ih hb.2]
    congr 1
    apply List.filter_eq_self.mpr
    intro a ha
    simp only [ne_eq, decide_eq_true_eq]
    intro e; subst e; exact hb.1 ha

theorem filter_ne_append_singleton (l : List κ) (a b : κ) (h : a ≠ b) :
    (l ++ [a]).filter (· ≠ b) = l.filter (· ≠ b) ++ [a] := by
  simp [List.filter_append, h]

theorem distinct_snoc (l : List κ) (a : κ) :
    distinct (l ++ [a]) = if a ∈ l then distinct l else distinct l ++ [a] := by
  induction l with
  | nil => simp [distinct]
  | cons b l ih =>
    simp only [List.cons_append, distinct, ih, List.mem_cons]
    by_cases hab : a = b
    · subst hab
      by_cases hal : a ∈ l
      · simp [hal]
      · simp [hal, List.filter_append]
    · by_cases hal : a ∈ l
      · simp [hal, hab]
      · simp [hal, hab, List.filter_append]

end distinct
/-! ### writing into the pre-allocated output -/

theorem modify_map_append {κ β : Type} (D : List κ) (Z : List β) (f f' : κ → β) (g : β → β) (j : Nat)
    (hj : j < D.length) (hg : g (f D[j]) = f' D[j])
    (hne : ∀ i (h : i < D.length), i ≠ j → f' D[i] = f D[i]) :
    (D.map f ++ Z).modify j g = D.map f' ++ Z := by
  apply List.ext_getElem?
  intro i
  rw [List.getElem?_modify]
  by_cases hij : j = i
  · subst hij
    simp [List.getElem?_append_left, hj, hg]
  · simp only [hij, if_false]
    by_cases hi : i < D.length
    · simp [List.getElem?_append_left, hi, hne i hi (Ne.symm hij)]
    · simp [List.getElem?_append_right, Nat.le_of_not_lt hi]

theorem modify_map_append_new {κ β : Type} (D : List κ) (z : β) (Z : List β) (f f' : κ → β) (g : β → β) (k : κ)
    (hg : g z = f' k) (hold : ∀ k' ∈ D, f' k' = f k') :
    (D.map f ++ z :: Z).modify D.length g = (D ++ [k]).map f' ++ Z := by
  apply List.ext_getElem?
  intro i
  rw [List.getElem?_modify]
  by_cases hij : D.length = i
  · subst hij
    simp [hg]
  · simp only [hij, if_false]
    by_cases hi : i < D.length
    · have : f' D[i] = f D[i] := hold _ (List.getElem_mem hi)
      simp [List.getElem?_append_left, hi, this]
    · have h2 : D.length < i := by omega
      obtain ⟨m, rfl⟩ : ∃ m, i = D.length + 1 + m := ⟨i - D.length - 1, by omega⟩
      rw [List.getElem?_append_right (by simp; omega), List.getElem?_append_right (by simp)]
      have h3 : D.length + 1 + m - D.length = m + 1 := by omega
      have h4 : D.length + 1 + m - (D.length + 1) = m := by omega
      simp [h3, h4]

/-! ### the loop invariant of `dedup_batch` -/

theorem length_distinct_le {κ : Type} [DecidableEq κ] (l : List κ) : (distinct l).length ≤ l.length := by
  induction l with
  | nil => simp [distinct]
  | cons a l ih =>
    simp only [distinct, List.length_cons]
    have := List.length_filter_le (fun x => decide (x ≠ a)) (distinct l)
    omega

theorem occ_snoc (pre : List Row) (r : Row) (k : List Nat) :
    occ (pre ++ [r]) k = if key r = k then occ pre k ++ [r] else occ pre k := by
  unfold occ
  by_cases h : key r = k <;> simp [List.filter_append, h]

theorem occ_ne_nil {pre : List Row} {k : List Nat} (h : k ∈ pre.map key) : occ pre k ≠ [] := by
  unfold occ
  obtain ⟨r, hr, rfl⟩ := List.mem_map.mp h
  intro e
  have : r ∈ pre.filter (fun x => decide (key x = key r)) := by simp [hr]
  rw [e] at this; simp at this

theorem occ_eq_nil {pre : List Row} {k : List Nat} (h : k ∉ pre.map key) : occ pre k = [] := by
  unfold occ
  apply List.filter_eq_nil_iff.mpr
  intro r hr
  simp only [decide_eq_true_eq]
  intro e; exact h (List.mem_map.mpr ⟨r, hr, e⟩)

/-- what the loop has accumulated for key `k` after the rows `pre`: tokens and mask of the first
    occurrence, the running sum of the targets -/
def sumRow (W : Nat) (pre : List Row) (k : List Nat) : Row :=
  ⟨((occ pre k).head?.map (·.toks)).getD [], ((occ pre k).head?.map (·.mask)).getD [],
   (occ pre k).foldl (fun s r => vadd s r.tgt) (List.replicate W 0)⟩

structure Inv (b : List Row) (W : Nat) (pre : List Row) (st : DState) : Prop where
  ids : ∀ k, st.ids.lookup k =
    if k ∈ distinct (pre.map key) then some ((distinct (pre.map key)).idxOf k) else none
  next : st.next = (distinct (pre.map key)).length
  out : st.out = (distinct (pre.map key)).map (sumRow W pre) ++
    (b.drop (distinct (pre.map key)).length).map zerosLike
  counts : st.counts = (distinct (pre.map key)).map (fun k => (occ pre k).length) ++
    (b.drop (distinct (pre.map key)).length).map (fun _ => 0)

theorem inv_init (b : List Row) (W : Nat) :
    Inv b W [] ⟨[], b.map zerosLike, b.map fun _ => 0, 0⟩ := by
  constructor <;> simp [distinct]

theorem sumRow_snoc_other (W : Nat) (pre : List Row) (r : Row) (k : List Nat) (h : key r ≠ k) :
    sumRow W (pre ++ [r]) k = sumRow W pre k := by
  simp [sumRow, occ_snoc, h]

theorem sumRow_snoc_old (W : Nat) (pre : List Row) (r : Row) (h : key r ∈ pre.map key) :
    sumRow W (pre ++ [r]) (key r) =
      { sumRow W pre (key r) with tgt := vadd (sumRow W pre (key r)).tgt r.tgt } := by
  have hne := occ_ne_nil h
  simp only [sumRow, occ_snoc, if_true, List.foldl_append, List.foldl_cons, List.foldl_nil]
  cases ho : occ pre (key r) with
  | nil => exact absurd ho hne
  | cons f o => simp

theorem sumRow_snoc_new (W : Nat) (pre : List Row) (r : Row) (h : key r ∉ pre.map key) :
    sumRow W (pre ++ [r]) (key r) = ⟨r.toks, r.mask, vadd (List.replicate W 0) r.tgt⟩ := by
  simp [sumRow, occ_snoc, occ_eq_nil h]

theorem inv_step (b : List Row) (W : Nat) (pre : List Row) (r : Row) (rest : List Row) (st : DState)
    (hb : b = pre ++ r :: rest) (hW : ∀ x ∈ b, x.tgt.length = W)
    (inv : Inv b W pre st) : Inv b W (pre ++ [r]) (dedupStep st r) := by
  have hD : distinct ((pre ++ [r]).map key) =
      if key r ∈ pre.map key then distinct (pre.map key) else distinct (pre.map key) ++ [key r] := by
    rw [List.map_append, List.map_singleton, distinct_snoc]
    by_cases h : key r ∈ pre.map key <;> simp [h]
  have hnd := nodup_distinct (pre.map key)
  by_cases hk : key r ∈ pre.map key
  · -- an existing key
    have hkD : key r ∈ distinct (pre.map key) := mem_distinct.mpr hk
    rw [if_pos hk] at hD
    have hj : (distinct (pre.map key)).idxOf (key r) < (distinct (pre.map key)).length :=
      List.idxOf_lt_length_iff.mpr hkD
    have hget : (distinct (pre.map key))[(distinct (pre.map key)).idxOf (key r)] = key r :=
      List.getElem_idxOf hj
    have hlook := inv.ids (key r)
    rw [if_pos hkD] at hlook
    have hstep : dedupStep st r =
        { st with
          counts := st.counts.modify ((distinct (pre.map key)).idxOf (key r)) (· + 1),
          out := st.out.modify ((distinct (pre.map key)).idxOf (key r))
            fun o => { o with tgt := vadd o.tgt r.tgt } } := by
      simp only [dedupStep, hlook]
    rw [hstep]
    constructor
    · intro k; simp only [hD]; exact inv.ids k
    · simp only [hD]; exact inv.next
    · simp only [hD, inv.out]
      apply modify_map_append _ _ _ _ _ _ hj
      · rw [hget, sumRow_snoc_old W pre r hk]
      · intro i hi hne
        apply sumRow_snoc_other
        intro e
        apply hne
        exact (List.getElem_inj hnd).mp (by rw [hget]; exact e.symm)
    · simp only [hD, inv.counts]
      apply modify_map_append _ _ _ _ _ _ hj
      · rw [hget]; simp [occ_snoc]
      · intro i hi hne
        have : key r ≠ (distinct (pre.map key))[i] := by
          intro e
          apply hne
          exact (List.getElem_inj hnd).mp (by rw [hget]; exact e.symm)
        simp [occ_snoc, this]
  · -- a new key
    have hkD : key r ∉ distinct (pre.map key) := fun h => hk (mem_distinct.mp h)
    rw [if_neg hk] at hD
    have hlook := inv.ids (key r)
    rw [if_neg hkD] at hlook
    have hstep : dedupStep st r =
        { ids := st.ids ++ [(key r, st.next)],
          next := st.next + 1,
          counts := st.counts.modify st.next (· + 1),
          out := st.out.modify st.next fun o =>
            { toks := r.toks, mask := r.mask, tgt := vadd o.tgt r.tgt } } := by
      simp only [dedupStep, hlook]
    rw [hstep]
    have hd : (distinct (pre.map key)).length < b.length := by
      have := length_distinct_le (pre.map key)
      simp only [List.length_map] at this
      rw [hb]; simp only [List.length_append, List.length_cons]; omega
    have hdrop : b.drop (distinct (pre.map key)).length =
        b[(distinct (pre.map key)).length] :: b.drop ((distinct (pre.map key)).length + 1) :=
      List.drop_eq_getElem_cons hd
    have hWz : (b[(distinct (pre.map key)).length]).tgt.length = W := hW _ (List.getElem_mem hd)
    constructor
    · intro k
      simp only [hD, List.lookup_append, inv.ids k, inv.next]
      by_cases hkk : k = key r
      · subst hkk
        simp [hkD, List.lookup, List.idxOf_append]
      · have hkk' : (k == key r) = false := by simp [hkk]
        by_cases hkD' : k ∈ distinct (pre.map key)
        · simp [hkD', List.idxOf_append]
        · simp [hkD', List.lookup, hkk', hkk]
    · simp only [hD, inv.next, List.length_append, List.length_singleton]
    · simp only [hD, inv.out, inv.next, List.length_append, List.length_singleton, hdrop, List.map_cons]
      apply modify_map_append_new
      · rw [sumRow_snoc_new W pre r hk]
        simp only [zerosLike]
        congr 2
        rw [List.map_const', hWz]
      · intro k' hk'
        apply sumRow_snoc_other
        intro e; exact hkD (e ▸ hk')
    · simp only [hD, inv.counts, inv.next, List.length_append, List.length_singleton, hdrop, List.map_cons]
      apply modify_map_append_new (f' := fun k => (occ (pre ++ [r]) k).length)
      · simp [occ_snoc, occ_eq_nil hk]
      · intro k' hk'
        have : key r ≠ k' := by intro e; exact hkD (e ▸ hk')
        simp [occ_snoc, this]


theorem inv_take (b : List Row) (W : Nat) (hW : ∀ x ∈ b, x.tgt.length = W) :
    ∀ n, n ≤ b.length →
      Inv b W (b.take n) ((b.take n).foldl dedupStep ⟨[], b.map zerosLike, b.map fun _ => 0, 0⟩) := by
  intro n
  induction n with
  | zero => intro _; simpa using inv_init b W
  | succ n ih =>
    intro hn
    have hlt : n < b.length := by omega
    have ht : b.take (n + 1) = b.take n ++ [b[n]] := by
      rw [List.take_succ_eq_append_getElem hlt]
    rw [ht, List.foldl_append, List.foldl_cons, List.foldl_nil]
    apply inv_step b W (b.take n) b[n] (b.drop (n + 1)) _ _ hW (ih (by omega))
    rw [← List.drop_eq_getElem_cons hlt, List.take_append_drop]

/-- the row `dedup_batch` returns for key `k` -/
def specRow (W : Nat) (b : List Row) (k : List Nat) : Row :=
  { sumRow W b k with tgt := (sumRow W b k).tgt.map (· / ((occ b k).length : Rat)) }

theorem dedupBatch_eq (b : List Row) (W : Nat) (hW : ∀ x ∈ b, x.tgt.length = W) :
    dedupBatch b = (distinct (b.map key)).map (specRow W b) := by
  have inv := inv_take b W hW b.length (Nat.le_refl _)
  rw [List.take_length] at inv
  unfold dedupBatch dedupFinish
  rw [inv.out, inv.counts, inv.next]
  rw [List.zip_append (by simp), List.map_append, List.take_left' (by simp)]
  rw [List.zip_map, List.map_map]
  have hz : ∀ (l : List (List Nat)) (g : List Nat × List Nat → Row),
      (l.zip l).map g = l.map (fun x => g (x, x)) := by
    intro l g; induction l with
    | nil => rfl
    | cons a l ih => simp [ih]
  rw [hz]
  rfl


/-! ### sums, means and the returned rows -/

theorem vadd_length (a b : List Rat) : (vadd a b).length = min a.length b.length := by
  simp [vadd]

theorem foldl_vadd_length (vs : List (List Rat)) (init : List Rat) (W : Nat)
    (hi : init.length = W) (hv : ∀ v ∈ vs, v.length = W) : (vs.foldl vadd init).length = W := by
  induction vs generalizing init with
  | nil => simpa using hi
  | cons v vs ih =>
    simp only [List.foldl_cons]
    apply ih
    · rw [vadd_length, hi, hv v (by simp)]; simp
    · intro v' h'; exact hv v' (by simp [h'])

theorem foldl_vadd_getD (vs : List (List Rat)) (init : List Rat) (W c : Nat) (hc : c < W)
    (hi : init.length = W) (hv : ∀ v ∈ vs, v.length = W) :
    (vs.foldl vadd init).getD c 0 = init.getD c 0 + (vs.map (·.getD c 0)).sum := by
  induction vs generalizing init with
  | nil => simp [Rat.add_zero]
  | cons v vs ih =>
    simp only [List.foldl_cons, List.map_cons, List.sum_cons]
    have hvl : v.length = W := hv v (by simp)
    rw [ih (vadd init v) (by rw [vadd_length, hi, hvl]; simp) (fun v' h' => hv v' (by simp [h']))]
    have : (vadd init v).getD c 0 = init.getD c 0 + v.getD c 0 := by
      simp [vadd, List.getD_eq_getElem?_getD, hi, hvl, hc]
    rw [this, Rat.add_assoc]

theorem key_congr (r : Row) (t : List Rat) : key ⟨r.toks, r.mask, t⟩ = key r := rfl

theorem occ_head_key {b : List Row} {k : List Nat} {f : Row} (h : (occ b k).head? = some f) :
    key f = k ∧ f ∈ b := by
  have : f ∈ occ b k := List.mem_of_head? h
  simpa [occ, And.comm] using this

theorem specRow_facts (W : Nat) (b : List Row) (k : List Nat) (hk : k ∈ b.map key)
    (hW : ∀ x ∈ b, x.tgt.length = W) :
    ∃ f, (occ b k).head? = some f ∧ (specRow W b k).toks = f.toks ∧ (specRow W b k).mask = f.mask ∧
      key (specRow W b k) = k ∧ (specRow W b k).tgt.length = W ∧
      ∀ c, c < W → (specRow W b k).tgt.getD c 0 = colMean ((occ b k).map (·.tgt)) c := by
  obtain ⟨f, o, ho⟩ : ∃ f o, occ b k = f :: o := by
    cases h : occ b k with
    | nil => exact absurd h (occ_ne_nil hk)
    | cons f o => exact ⟨f, o, rfl⟩
  · 
    have hf : (occ b k).head? = some f := by rw [ho]; rfl
    have hkf := occ_head_key hf
    have hWo : ∀ v ∈ (occ b k).map (·.tgt), v.length = W := by
      intro v hv
      obtain ⟨x, hx, rfl⟩ := List.mem_map.mp hv
      exact hW x (List.mem_filter.mp hx).1
    have hsum : (sumRow W b k).tgt = ((occ b k).map (·.tgt)).foldl vadd (List.replicate W 0) := by
      simp [sumRow, List.foldl_map]
    refine ⟨f, hf, ?_, ?_, ?_, ?_, ?_⟩
    · simp [specRow, sumRow, ho]
    · simp [specRow, sumRow, ho]
    · have : key (specRow W b k) = key f := by
        simp only [specRow, sumRow, ho, List.head?_cons, Option.map_some, Option.getD_some]
        rfl
      rw [this]; exact hkf.1
    · simp only [specRow, List.length_map, hsum]
      exact foldl_vadd_length _ _ W (by simp) hWo
    · intro c hc
      have hlen : (sumRow W b k).tgt.length = W := by
        rw [hsum]; exact foldl_vadd_length _ _ W (by simp) hWo
      have h1 : (specRow W b k).tgt.getD c 0 = (sumRow W b k).tgt.getD c 0 / ((occ b k).length : Rat) := by
        simp [specRow, List.getD_eq_getElem?_getD, hlen, hc]
      rw [h1, hsum, foldl_vadd_getD _ _ W c hc (by simp) hWo]
      simp [colMean, List.getD_eq_getElem?_getD, hc, Rat.zero_add]


/-! ### order of first occurrence; batches without duplicates; the tolerance predicate -/

theorem pairwise_distinct {κ : Type} [DecidableEq κ] [BEq κ] [LawfulBEq κ] (l : List κ) :
    (distinct l).Pairwise (fun a b => l.idxOf a < l.idxOf b) := by
  induction l with
  | nil => simp [distinct]
  | cons x l ih =>
    simp only [distinct, List.pairwise_cons]
    constructor
    · intro b hb
      have hbx : b ≠ x := by simpa using (List.mem_filter.mp hb).2
      have hbx' : (x == b) = false := by simp [Ne.symm hbx]
      simp [List.idxOf_cons, hbx']
    · have h1 : ((distinct l).filter (· ≠ x)).Pairwise (fun a b => l.idxOf a < l.idxOf b) :=
        ih.sublist List.filter_sublist
      apply h1.imp_of_mem
      intro a b ha hb hab
      have hax : a ≠ x := by simpa using (List.mem_filter.mp ha).2
      have hbx : b ≠ x := by simpa using (List.mem_filter.mp hb).2
      have hax' : (x == a) = false := by simp [Ne.symm hax]
      have hbx' : (x == b) = false := by simp [Ne.symm hbx]
      simp [List.idxOf_cons, hax', hbx', hab]

theorem occ_singleton {b : List Row} (hnd : (b.map key).Nodup) {r : Row} (hr : r ∈ b) :
    occ b (key r) = [r] := by
  induction b with
  | nil => cases hr
  | cons a l ih =>
    simp only [List.map_cons, List.nodup_cons] at hnd
    simp only [occ, List.filter_cons]
    rcases List.mem_cons.mp hr with rfl | hrl
    · simp only [decide_true, if_true]
      congr 1
      apply List.filter_eq_nil_iff.mpr
      intro x hx
      simp only [decide_eq_true_eq]
      intro e; exact hnd.1 (List.mem_map.mpr ⟨x, hx, e⟩)
    · have : key a ≠ key r := by
        intro e; exact hnd.1 (List.mem_map.mpr ⟨r, hrl, e.symm⟩)
      simp only [this, decide_false]
      exact ih hnd.2 hrl

theorem specRow_of_nodup (W : Nat) {b : List Row} (hnd : (b.map key).Nodup) {r : Row} (hr : r ∈ b)
    (hW : r.tgt.length = W) : specRow W b (key r) = r := by
  have ho := occ_singleton hnd hr
  have h1 : vadd (List.replicate W 0) r.tgt = r.tgt := by
    apply List.ext_getElem?
    intro i
    simp only [vadd, List.getElem?_zipWith, List.getElem?_replicate]
    by_cases hi : i < W
    · have : i < r.tgt.length := by omega
      simp [hi, List.getElem?_eq_getElem this, Rat.zero_add]
    · have : r.tgt.length ≤ i := by omega
      simp [hi, List.getElem?_eq_none this]
  cases r with
  | mk toks mask tgt =>
    simp only [specRow, sumRow, ho, List.head?_cons, Option.map_some, Option.getD_some,
      List.foldl_cons, List.foldl_nil, h1, List.length_singleton]
    congr 1
    have : ∀ (l : List Rat), l.map (fun x => x / ((1 : Nat) : Rat)) = l := by
      intro l; induction l with
      | nil => rfl
      | cons a l ih =>
        simp only [List.map_cons, ih]
        congr 1
        have : (((1 : Nat) : Rat))⁻¹ = 1 := by decide +kernel
        rw [Rat.div_def, this, Rat.mul_one]
    exact this tgt

theorem closeTo_self (tol a : Rat) (h : 0 ≤ tol) : closeTo tol a a = true := by
  simp only [closeTo, Rat.le_refl, if_true, Rat.sub_self, decide_eq_true_eq]
  apply Rat.mul_nonneg h
  have h01 : (0 : Rat) ≤ 1 := by decide +kernel
  by_cases hc : (if 0 ≤ a then a else -a) ≤ 1
  · rw [if_pos hc]; exact h01
  · rw [if_neg hc]
    exact Rat.le_trans h01 (Rat.le_of_lt (Rat.not_le.mp hc))


end BatchLemmas
end Tak

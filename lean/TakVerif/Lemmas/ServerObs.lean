/-
  Helper lemmas for C17: the progress predicate that the harness evaluates on observed runs
  (`firstStarved`) never fires on a timeline produced by the transition system.
-/
import TakVerif.Lemmas.ServerProgress

namespace Tak.Server

variable {P R : Type}

/-- waiting list after a timeline -/
def obsEnd : List Wait → List Obs → List Wait
  | w, [] => w
  | w, o :: os => obsEnd (obsStep w o).1 os

theorem firstStarved_append (w : List Wait) (os₁ os₂ : List Obs)
    (h : firstStarved w os₁ = none) :
    firstStarved w (os₁ ++ os₂) = firstStarved (obsEnd w os₁) os₂ := by
  induction os₁ generalizing w with
  | nil => rfl
  | cons o os ih =>
    simp only [List.cons_append, firstStarved, obsEnd] at h ⊢
    cases hst : obsStep w o with
    | mk w' fl =>
      cases fl with
      | some x => simp [hst] at h
      | none =>
        simp only [hst] at h ⊢
        exact ih w' h

/-- answering a list of ids one by one never flags, and removes exactly those ids -/
theorem answered_run (l : List Nat) (w : List Wait) :
    firstStarved w (l.map Obs.answered) = none ∧
      obsEnd w (l.map Obs.answered) = w.filter fun x => !(l.contains x.id) := by
  induction l generalizing w with
  | nil =>
    refine ⟨rfl, ?_⟩
    simp only [List.map_nil, obsEnd]
    exact (List.filter_eq_self.mpr (by simp)).symm
  | cons i l ih =>
    obtain ⟨h1, h2⟩ := ih (w.filter fun x => x.id != i)
    refine ⟨by simpa [firstStarved, obsStep] using h1, ?_⟩
    simp only [List.map_cons, obsEnd, obsStep, h2, List.filter_filter]
    congr 1
    funext x
    rw [List.contains_cons]
    cases h1 : (x.id == i) <;> simp [bne, h1]

theorem filter_prefix_ids {A Q : List Nat} (nd : (A ++ Q).Nodup) :
    ∀ (w : List Wait), w.map (·.id) = A ++ Q →
      (w.filter fun x => !(A.contains x.id)) = w.drop A.length := by
  intro w hw
  obtain ⟨wa, wq, rfl, ha, hq⟩ := List.map_eq_append_iff.mp hw
  have hlen : wa.length = A.length := by rw [← ha, List.length_map]
  have hdisj := (List.nodup_append.mp nd).2.2
  rw [List.filter_append, ← hlen, List.drop_left]
  have h1 : (wa.filter fun x => !(A.contains x.id)) = [] := by
    apply List.filter_eq_nil_iff.mpr
    intro x hx
    have : x.id ∈ A := ha ▸ List.mem_map.mpr ⟨x, hx, rfl⟩
    simp [this]
  have h2 : (wq.filter fun x => !(A.contains x.id)) = wq := by
    apply List.filter_eq_self.mpr
    intro x hx
    have hxq : x.id ∈ Q := hq ▸ List.mem_map.mpr ⟨x, hx, rfl⟩
    have : x.id ∉ A := fun hA => hdisj _ hA _ hxq rfl
    simp [this]
  rw [h1, h2, List.nil_append]

/-- what links a waiting list to a state: same requests in the same order as the line, and the
    completed calls seen so far plus the current index never exceed the depth at entry -/
structure WInv (s : State P R) (w : List Wait) : Prop where
  ids : w.map (·.id) = ids s.line
  bound : ∀ (j : Nat) (x : Wait), w[j]? = some x → x.seen + j ≤ x.depth

theorem line_nodup {f : P → R} {s : State P R} (h : Inv f s) : (ids s.line).Nodup := by
  rw [List.nodup_iff_count]
  intro i
  have h1 := h.count i
  have h2 := List.nodup_iff_count.mp h.nodup i
  simp only [State.pending, State.line, ids_append, List.count_append] at h1 ⊢
  omega

theorem winv_push {s s' : State P R} {w : List Wait} {i : Nat} (hw : WInv s w)
    (hline : ids s'.line = ids s.line ++ [i]) : WInv s' (w ++ [⟨i, w.length, 0⟩]) := by
  refine ⟨by simp [hw.ids, hline], ?_⟩
  intro j x hj
  by_cases hlt : j < w.length
  · rw [List.getElem?_append_left hlt] at hj
    exact hw.bound j x hj
  · have hge : w.length ≤ j := Nat.le_of_not_lt hlt
    rw [List.getElem?_append_right hge] at hj
    have : j - w.length = 0 := by
      cases hjj : j - w.length with
      | zero => rfl
      | succ n => simp [hjj] at hj
    simp only [this, List.getElem?_cons_zero, Option.some.injEq] at hj
    subst hj
    simp only
    omega

theorem winv_same {s s' : State P R} {w : List Wait} (hw : WInv s w)
    (hline : ids s'.line = ids s.line) : WInv s' w :=
  ⟨by rw [hw.ids, hline], hw.bound⟩

/-- one step of the system: its timeline does not flag, and the link is kept -/
theorem obs_step_ok {cap : Nat} {f : P → R} {s s' : State P R} {a : Action P} {w : List Wait}
    (hinv : Inv f s) (hw : WInv s w) (hs : step cap f s a = some s') :
    firstStarved w (obsOfStep cap s a) = none ∧ WInv s' (obsEnd w (obsOfStep cap s a)) := by
  cases a with
  | arrive r =>
    simp only [step] at hs
    split at hs
    · cases hs
    split at hs <;> cases hs
    · rename_i hroom
      simp only [obsOfStep, hroom, if_true, firstStarved, obsStep, obsEnd, true_and]
      exact winv_push hw (by simp [State.line])
    · rename_i hroom
      simp only [obsOfStep, hroom, if_false, firstStarved, obsEnd, true_and]
      exact winv_same hw (by simp [State.line])
  | enter k =>
    simp only [step] at hs
    split at hs
    · cases hs
    rename_i r hr
    split at hs <;> cases hs
    simp only [obsOfStep, hr, firstStarved, obsStep, obsEnd, true_and]
    exact winv_push hw (by simp [State.line])
  | take =>
    simp only [step] at hs
    split at hs
    · rename_i r q hrun hq
      cases hs
      simp only [obsOfStep, firstStarved, obsEnd, true_and]
      exact winv_same hw (by simp [State.line, hq, hrun])
    · cases hs
  | close =>
    simp only [step] at hs
    split at hs
    · rename_i r b hrun hb
      cases hs
      simp only [obsOfStep, firstStarved, obsEnd, true_and]
      exact winv_same hw (by simp [State.line, hb, hrun])
    · cases hs
  | complete =>
    simp only [step] at hs
    split at hs
    · rename_i b hrun
      cases hs
      obtain ⟨hne, hbatch⟩ := hinv.busy b hrun
      have hpos : 0 < b.length := List.length_pos_iff.mpr hne
      have hline : ids s.line = ids b ++ ids s.queue := by simp [State.line, hrun, hbatch]
      -- after `completed`
      let w1 := w.map fun x => ({ x with seen := x.seen + 1 } : Wait)
      have hw1ids : w1.map (·.id) = ids b ++ ids s.queue := by
        rw [← hline, ← hw.ids]
        simp [w1, Function.comp_def]
      have hw1bound : ∀ j x, w1[j]? = some x → x.seen + j ≤ x.depth + 1 := by
        intro j x hj
        simp only [w1, List.getElem?_map, Option.map_eq_some_iff] at hj
        obtain ⟨y, hy, rfl⟩ := hj
        have := hw.bound j y hy
        simp only
        omega
      have hnoflag : w1.find? Wait.over = none := by
        apply List.find?_eq_none.mpr
        intro x hx
        obtain ⟨j, hj⟩ := List.getElem?_of_mem hx
        have := hw1bound j x hj
        simp only [Wait.over, decide_eq_true_eq]
        omega
      have hans := answered_run (ids b) w1
      have hnd : (ids b ++ ids s.queue).Nodup := hline ▸ line_nodup hinv
      have hdrop := filter_prefix_ids hnd w1 hw1ids
      have hobs : obsOfStep cap s Action.complete
          = Obs.completed :: (ids b).map Obs.answered := by
        simp [obsOfStep, hrun, ids, Function.comp_def]
      rw [hobs]
      refine ⟨?_, ?_⟩
      · simp only [firstStarved, obsStep]
        show (match ((w1, w1.find? Wait.over) : List Wait × Option Wait) with
          | (_, some x) => some x
          | (w', none) => firstStarved w' ((ids b).map Obs.answered)) = none
        rw [hnoflag]
        exact hans.1
      · show WInv _ (obsEnd w1 ((ids b).map Obs.answered))
        rw [hans.2, hdrop]
        refine ⟨?_, ?_⟩
        · rw [List.map_drop, hw1ids]
          simp [State.line, ids, hbatch]
        · intro j x hj
          rw [List.getElem?_drop] at hj
          have := hw1bound _ x hj
          simp only [ids, List.length_map] at this
          omega
    · cases hs

theorem obs_run_ok {cap : Nat} {f : P → R} (as : List (Action P)) :
    ∀ (s : State P R) (w : List Wait), Inv f s → WInv s w →
      firstStarved w (obsOfRun cap f s as) = none := by
  induction as with
  | nil => intro s w _ _; rfl
  | cons a as ih =>
    intro s w hinv hw
    simp only [obsOfRun]
    cases hstep : step cap f s a with
    | none => rfl
    | some s1 =>
      simp only
      obtain ⟨h1, h2⟩ := obs_step_ok hinv hw hstep
      rw [firstStarved_append _ _ _ h1]
      exact ih s1 _ (inv_step hinv hstep) h2

end Tak.Server

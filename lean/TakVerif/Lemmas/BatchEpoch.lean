/-
  Helper lemmas for C20: gathering by a permutation, cutting into batches, merging replay buffers.
-/
import TakVerif.Model.Batch
import TakVerif.Spec.Batch
import TakVerif.Lemmas.BatchEncode

namespace Tak
namespace BatchLemmas
open Tak.Batch Tak.BatchSpec

/-! ### `v[perm]` -/

theorem filterMap_range_getElem? {α : Type} (v : List α) :
    (List.range v.length).filterMap (v[·]?) = v := by
  induction v with
  | nil => rfl
  | cons a v ih =>
    rw [List.length_cons, List.range_succ_eq_map, List.filterMap_cons]
    simp only [List.getElem?_cons_zero, List.filterMap_map]
    congr 1

theorem gather_perm {α : Type} (v : List α) (perm : List Nat) (h : perm.Perm (List.range v.length)) :
    (gather v perm).Perm v := by
  have := List.Perm.filterMap (v[·]?) h
  rw [filterMap_range_getElem?] at this
  exact this

theorem gather_getElem? {α : Type} (v : List α) (perm : List Nat) (h : ∀ i ∈ perm, i < v.length)
    (j : Nat) : (gather v perm)[j]? = perm[j]?.bind (v[·]?) := by
  induction perm generalizing j with
  | nil => simp [gather]
  | cons i perm ih =>
    have hi : i < v.length := h i (by simp)
    have ih' := ih (fun x hx => h x (by simp [hx]))
    simp only [gather, List.filterMap_cons, List.getElem?_eq_getElem hi] at ih' ⊢
    cases j with
    | zero => simp [List.getElem?_eq_getElem hi]
    | succ j => simpa using ih' j

theorem gather_length {α : Type} (v : List α) (perm : List Nat) (h : ∀ x ∈ perm, x < v.length) :
    (gather v perm).length = perm.length := by
  induction perm with
  | nil => rfl
  | cons i perm ih =>
    have hi : i < v.length := h i (by simp)
    simp only [gather, List.filterMap_cons, List.getElem?_eq_getElem hi, List.length_cons] at ih ⊢
    rw [ih (fun x hx => h x (by simp [hx]))]

theorem perm_range_lt {perm : List Nat} {n : Nat} (h : perm.Perm (List.range n)) :
    ∀ i ∈ perm, i < n := fun _ hi => List.mem_range.mp ((h.mem_iff).mp hi)

/-! ### `range(0, n, b)` -/

theorem numBatches_mul_ge (n b : Nat) (hb : 1 ≤ b) : n ≤ numBatches n b * b := by
  unfold numBatches
  have := Nat.lt_mul_div_succ (n + b - 1) (show 0 < b by omega)
  rw [Nat.mul_add, Nat.mul_one, Nat.mul_comm] at this
  omega

theorem numBatches_mul_lt (n b : Nat) (hb : 1 ≤ b) (k : Nat) (hk : k < numBatches n b) : k * b < n := by
  unfold numBatches at hk
  have h1 : (n + b - 1) / b * b ≤ n + b - 1 := Nat.div_mul_le_self _ _
  have h2 : (k + 1) * b ≤ (n + b - 1) / b * b := Nat.mul_le_mul_right b hk
  rw [Nat.add_mul, Nat.one_mul] at h2
  omega

theorem numBatches_eq (n b : Nat) (hb : 1 ≤ b) :
    numBatches n b = n / b + (if n % b = 0 then 0 else 1) := by
  unfold numBatches
  have hb0 : 0 < b := by omega
  have hn := Nat.div_add_mod n b
  by_cases hr : n % b = 0
  · rw [if_pos hr]
    have : n + b - 1 = b * (n / b) + (b - 1) := by omega
    rw [this, Nat.mul_add_div hb0, Nat.div_eq_of_lt (show b - 1 < b by omega)]
  · rw [if_neg hr]
    have : n + b - 1 = b * (n / b + 1) + (n % b - 1) := by
      rw [Nat.mul_add, Nat.mul_one]; omega
    have hlt := Nat.mod_lt n hb0
    rw [this, Nat.mul_add_div hb0, Nat.div_eq_of_lt (show n % b - 1 < b by omega)]

/-! ### cutting into batches -/

theorem flatten_chunks_take {α : Type} (b : Nat) (v : List α) (m : Nat) :
    ((List.range m).map fun k => (v.drop (k * b)).take b).flatten = v.take (m * b) := by
  induction m with
  | zero => simp
  | succ m ih =>
    rw [List.range_succ, List.map_append, List.flatten_append, ih]
    simp only [List.map_cons, List.map_nil, List.flatten_cons, List.flatten_nil, List.append_nil]
    rw [Nat.add_mul, Nat.one_mul, List.take_add]

theorem flatten_chunks {α : Type} (b n : Nat) (v : List α) (hb : 1 ≤ b) (hn : v.length = n) :
    (chunks b n v).flatten = v := by
  unfold chunks
  rw [flatten_chunks_take]
  apply List.take_of_length_le
  rw [hn]; exact numBatches_mul_ge n b hb

theorem slice_getElem? {α : Type} (v : List α) (k b j : Nat) :
    ((v.drop (k * b)).take b)[j]? = if j < b then v[k * b + j]? else none := by
  by_cases h : j < b
  · simp [h, List.getElem?_drop]
  · simp [h, List.getElem?_take]

theorem slice_length {α : Type} (v : List α) (k b : Nat) :
    ((v.drop (k * b)).take b).length = min b (v.length - k * b) := by
  simp [List.length_take, List.length_drop]

/-- the rows of batch `k` are the stored rows `perm[k*b], perm[k*b+1], …`, whole -/
theorem epoch_batch_rows {α : Type} (perm : List Nat) (b : Nat) (cols : List (List α)) (n : Nat)
    (hne : cols ≠ []) (hcols : ∀ v ∈ cols, v.length = n) (hperm : perm.Perm (List.range n)) (k : Nat) :
    rowsOf ((cols.map (gather · perm)).map fun v => (v.drop (k * b)).take b)
      (nRows ((cols.map (gather · perm)).map fun v => (v.drop (k * b)).take b)) =
    ((perm.drop (k * b)).take b).map (rowAt cols) := by
  have hlt := perm_range_lt hperm
  have hpl : perm.length = n := by simpa using hperm.length_eq
  have hg : ∀ v ∈ cols, ∀ (j : Nat), (gather v perm)[j]? = perm[j]?.bind (v[·]?) := by
    intro v hv j
    exact gather_getElem? v perm (fun i hi => by rw [hcols v hv]; exact hlt i hi) j
  have hgl : ∀ v ∈ cols, (gather v perm).length = n := by
    intro v hv
    rw [gather_length v perm (fun i hi => by rw [hcols v hv]; exact hlt i hi), hpl]
  have hn : nRows ((cols.map (gather · perm)).map fun v => (v.drop (k * b)).take b) =
      min b (n - k * b) := by
    cases cols with
    | nil => exact absurd rfl hne
    | cons v0 cols =>
      simp only [List.map_cons, nRows, slice_length]
      rw [hgl v0 (by simp)]
  rw [hn]
  apply List.ext_getElem?
  intro j
  simp only [rowsOf, List.getElem?_map, slice_getElem?]
  by_cases hj : j < min b (n - k * b)
  · have hjb : j < b := by omega
    have hjn : k * b + j < n := by omega
    have hp : perm[k * b + j]? = some perm[k * b + j] := List.getElem?_eq_getElem (by omega)
    rw [List.getElem?_range hj, if_pos hjb, hp]
    simp only [Option.map_some, rowAt, List.map_map]
    congr 1
    apply List.map_congr_left
    intro v hv
    simp only [Function.comp, slice_getElem?, if_pos hjb, hg v hv, hp, Option.bind_some]
  · have h1 : (List.range (min b (n - k * b)))[j]? = none := by
      apply List.getElem?_eq_none; simp; omega
    rw [h1]
    by_cases hjb : j < b
    · rw [if_pos hjb]
      have : perm[k * b + j]? = none := by
        apply List.getElem?_eq_none; omega
      rw [this]; rfl
    · rw [if_neg hjb]; rfl

theorem epochRows_eq {α : Type} (perm : List Nat) (b : Nat) (cols : List (List α))
    (hb : 1 ≤ b) (hcols : ∀ v ∈ cols, v.length = nRows cols)
    (hperm : perm.Perm (List.range (nRows cols))) :
    epochRows (epochBatches perm b cols) = perm.map (rowAt cols) := by
  cases hc : cols with
  | nil =>
    subst hc
    have : perm = [] := by simpa [nRows] using hperm
    subst this
    have h0 : numBatches 0 b = 0 := Nat.div_eq_of_lt (by omega)
    simp [epochRows, epochBatches, nRows, h0]
  | cons v0 cs =>
    rw [← hc]
    have hne : cols ≠ [] := by rw [hc]; simp
    have hpl : perm.length = nRows cols := by simpa using hperm.length_eq
    unfold epochRows epochBatches
    simp only [List.flatMap_def]
    rw [List.map_map]
    have h1 : ∀ k ∈ List.range (numBatches (nRows cols) b),
        ((fun bt => rowsOf bt (nRows bt)) ∘ fun k =>
          (cols.map (gather · perm)).map fun v => (v.drop (k * b)).take b) k =
        (List.map (rowAt cols) ∘ fun k => (perm.drop (k * b)).take b) k :=
      fun k _ => epoch_batch_rows perm b cols (nRows cols) hne hcols hperm k
    rw [List.map_congr_left h1]
    have h2 := flatten_chunks b (nRows cols) perm hb hpl
    unfold chunks at h2
    conv => rhs; rw [← h2]
    rw [List.map_flatten, List.map_map]


/-! ### the epoch stream of the file dataset -/

section stream
variable {α G : Type} (R : RNG G)

/-- the first `k` permutations drawn from generator state `g` for `n` rows -/
def permSeq (n : Nat) : G → Nat → List (List Nat)
  | _, 0 => []
  | g, k + 1 => (R.randperm n g).1 :: permSeq n (R.randperm n g).2 k

/-- the generator after `m` draws -/
def genAfter (n : Nat) : G → Nat → G
  | g, 0 => g
  | g, m + 1 => genAfter n (R.randperm n g).2 m

theorem iter_snd (ds : Ds α G) : (ds.iter R).2 = (ds.nextEpoch R).2 := rfl

theorem iter_fst (ds : Ds α G) :
    (ds.iter R).1 = epochBatches (R.randperm (nRows ds.data) ds.gen).1 ds.cfg.batchSize ds.data := rfl

theorem nextEpoch_snd (ds : Ds α G) :
    (ds.nextEpoch R).2 = { ds with gen := (R.randperm (nRows ds.data) ds.gen).2 } := rfl

theorem after_eq (m : Nat) (ds : Ds α G) :
    Ds.after R m ds = { ds with gen := genAfter R (nRows ds.data) ds.gen m } := by
  induction m generalizing ds with
  | zero => rfl
  | succ m ih => rw [Ds.after, ih, iter_snd, nextEpoch_snd]; rfl

theorem fastforward_eq_after (m : Nat) (ds : Ds α G) : Ds.fastforward R m ds = Ds.after R m ds := by
  induction m generalizing ds with
  | zero => rfl
  | succ m ih => rw [Ds.fastforward, Ds.after, ih, iter_snd]

theorem stream_eq (k : Nat) (ds : Ds α G) :
    Ds.stream R k ds =
      (permSeq R (nRows ds.data) ds.gen k).map fun perm => epochBatches perm ds.cfg.batchSize ds.data := by
  induction k generalizing ds with
  | zero => rfl
  | succ k ih =>
    rw [Ds.stream, ih, iter_fst, iter_snd, nextEpoch_snd]
    rfl

theorem stream_length (k : Nat) (ds : Ds α G) : (Ds.stream R k ds).length = k := by
  induction k generalizing ds with
  | zero => rfl
  | succ k ih => simp [Ds.stream, ih]

theorem stream_add (n k : Nat) (ds : Ds α G) :
    Ds.stream R (n + k) ds = Ds.stream R n ds ++ Ds.stream R k (Ds.after R n ds) := by
  induction n generalizing ds with
  | zero => simp [Ds.stream, Ds.after]
  | succ n ih =>
    rw [Nat.add_right_comm, Ds.stream, ih, Ds.stream, Ds.after]
    rfl

end stream


/-! ### `cat_replay_buffer` -/

theorem foldl_maxw_ge {α : Type} (bufs : List (Buffer α)) (m : Nat) :
    m ≤ bufs.foldl (fun m b => max m b.width) m ∧
    ∀ d ∈ bufs, d.width ≤ bufs.foldl (fun m b => max m b.width) m := by
  induction bufs generalizing m with
  | nil => simp
  | cons a bufs ih =>
    simp only [List.foldl_cons, List.mem_cons, forall_eq_or_imp]
    have h := ih (max m a.width)
    refine ⟨by omega, by omega, h.2⟩

theorem width_le_maxWidth {α : Type} {bufs : List (Buffer α)} {d : Buffer α} (h : d ∈ bufs) :
    d.width ≤ maxWidth bufs := (foldl_maxw_ge bufs 0).2 d h

theorem writePrefix_replicate {β : Type} (w : Nat) (z : β) (row : List β) :
    writePrefix (List.replicate w z) row = row ++ List.replicate (w - row.length) z := by
  simp [writePrefix]

theorem cat_rows {α : Type} (pre : List (Buffer α)) (d : Buffer α) (post : List (Buffer α))
    (nKeys : Nat) (hok : ∀ x ∈ pre ++ d :: post, BufferOK x nKeys) (r : Nat)
    (hr : r < d.positions.length) :
    let flat := catReplayBuffer (pre ++ d :: post)
    let w := maxWidth (pre ++ d :: post)
    let off := (pre.flatMap (·.positions)).length
    d.width ≤ w ∧
    flat.positions[off + r]? = d.positions[r]?.map (fun row => row ++ List.replicate (w - d.width) 0) ∧
    flat.mask[off + r]? = d.mask[r]?.map (fun row => row ++ List.replicate (w - d.width) false) ∧
    flat.others.length = nKeys ∧
    ∀ c, c < nKeys → ∃ col, flat.others[c]? = some col ∧ col[off + r]? = d.others[c]?.bind (·[r]?) := by
  intro flat w off
  have okd := hok d (by simp)
  have hpre : ∀ x ∈ pre, BufferOK x nKeys := fun x hx => hok x (by simp [hx])
  have hr' : r < d.mask.length := by rw [okd.rows]; exact hr
  refine ⟨width_le_maxWidth (by simp), ?_, ?_, ?_, ?_⟩
  · show ((pre ++ d :: post).flatMap fun x => x.positions.map fun row => writePrefix (List.replicate w 0) row)[off + r]? = _
    have h1 : off = (pre.flatMap fun x => x.positions.map fun row => writePrefix (List.replicate w 0) row).length :=
      flatMap_length_congr _ _ _ (fun x _ => by simp)
    rw [h1, flatMap_getElem?_mid _ pre d post r (by simpa using hr)]
    simp only [List.getElem?_map, List.getElem?_eq_getElem hr, Option.map_some]
    rw [writePrefix_replicate, okd.posW _ (List.getElem_mem hr)]
  · show ((pre ++ d :: post).flatMap fun x => x.mask.map fun row => writePrefix (List.replicate w false) row)[off + r]? = _
    have h1 : off = (pre.flatMap fun x => x.mask.map fun row => writePrefix (List.replicate w false) row).length :=
      flatMap_length_congr _ _ _ (fun x hx => by simp [(hpre x hx).rows])
    rw [h1, flatMap_getElem?_mid _ pre d post r (by simpa using hr')]
    simp only [List.getElem?_map, List.getElem?_eq_getElem hr', Option.map_some]
    rw [writePrefix_replicate, okd.maskW _ (List.getElem_mem hr')]
  · show ((List.range _).map _).length = nKeys
    rw [List.length_map, List.length_range]
    cases pre with
    | nil => exact okd.keys
    | cons a pre => exact (hok a (by simp)).keys
  · intro c hc
    have hnk : nKeysOf (pre ++ d :: post) = nKeys := by
      cases pre with
      | nil => exact okd.keys
      | cons a pre => exact (hok a (by simp)).keys
    refine ⟨(pre ++ d :: post).flatMap fun x => x.others.getD c [], ?_, ?_⟩
    · show ((List.range _).map _)[c]? = _
      rw [List.getElem?_map, hnk, List.getElem?_range hc]; rfl
    · have hcd : c < d.others.length := by rw [okd.keys]; exact hc
      have hlen : (d.others.getD c []).length = d.positions.length := by
        rw [List.getD_eq_getElem?_getD, List.getElem?_eq_getElem hcd]
        exact okd.otherRows _ (List.getElem_mem hcd)
      have h1 : off = (pre.flatMap fun x => x.others.getD c []).length := by
        apply flatMap_length_congr
        intro x hx
        have okx := hpre x hx
        have hcx : c < x.others.length := by rw [okx.keys]; exact hc
        rw [List.getD_eq_getElem?_getD, List.getElem?_eq_getElem hcx]
        exact (okx.otherRows _ (List.getElem_mem hcx)).symm
      rw [h1, flatMap_getElem?_mid (fun x => x.others.getD c []) pre d post r (by rw [hlen]; exact hr)]
      simp [List.getD_eq_getElem?_getD, List.getElem?_eq_getElem hcd]


theorem key_pad_false (row : List Nat) (m : List Bool) (k : Nat) (tg : List Rat)
    (h : row.length = m.length) :
    key ⟨row ++ List.replicate k 0, m ++ List.replicate k false, tg⟩ = key ⟨row, m, tg⟩ := by
  simp only [key]
  rw [List.zip_append h, List.filter_append, List.map_append]
  have h2 : ∀ (k : Nat), ((List.replicate k (0 : Nat)).zip (List.replicate k false)).filter (·.2) = [] := by
    intro k; induction k with
    | zero => rfl
    | succ k _ => simp [List.replicate_succ]
  rw [h2]; simp

theorem zip_map_self {β γ : Type} (A : List β) (h : β → γ) :
    A.zip (A.map h) = A.map (fun x => (x, h x)) := by
  induction A with
  | nil => rfl
  | cons a A ih => simp [ih]

theorem catMaskOK_cat {α : Type} (bufs : List (Buffer α)) (nKeys : Nat)
    (hok : ∀ x ∈ bufs, BufferOK x nKeys) : catMaskOK bufs (catReplayBuffer bufs) = true := by
  simp only [catMaskOK, catReplayBuffer, Bool.and_eq_true, beq_iff_eq, List.all_eq_true]
  have hwle : ∀ x ∈ bufs, x.width ≤ maxWidth bufs := fun x hx => width_le_maxWidth hx
  generalize maxWidth bufs = W at hwle ⊢
  have hz : ∀ (l : List (Buffer α)), (∀ x ∈ l, BufferOK x nKeys) → (∀ x ∈ l, x.width ≤ W) →
      ((l.flatMap fun d => d.positions.map fun row => writePrefix (List.replicate W 0) row).zip
          (l.flatMap fun d => d.mask.map fun row => writePrefix (List.replicate W false) row)).length =
        (l.flatMap fun d => d.positions.zip d.mask).length ∧
      (l.flatMap fun d => d.positions.map fun row => writePrefix (List.replicate W 0) row).length =
        (l.flatMap fun d => d.mask.map fun row => writePrefix (List.replicate W false) row).length ∧
      ∀ x ∈ (l.flatMap fun d => d.positions.zip d.mask).zip
          ((l.flatMap fun d => d.positions.map fun row => writePrefix (List.replicate W 0) row).zip
          (l.flatMap fun d => d.mask.map fun row => writePrefix (List.replicate W false) row)),
        catRowOK W x.1 x.2 = true := by
    intro l
    induction l with
    | nil => intro _ _; simp
    | cons a l ih =>
      intro hok' hw'
      have oka := hok' a (by simp)
      obtain ⟨i1, i2, i3⟩ := ih (fun x hx => hok' x (by simp [hx])) (fun x hx => hw' x (by simp [hx]))
      have hla : (a.positions.map fun row => writePrefix (List.replicate W 0) row).length =
          (a.mask.map fun row => writePrefix (List.replicate W false) row).length := by
        simp [oka.rows]
      simp only [List.flatMap_cons]
      rw [List.zip_append hla]
      refine ⟨?_, ?_, ?_⟩
      · simp only [List.length_append, List.length_zip, List.length_map, oka.rows] at i1 ⊢
        omega
      · simp only [List.length_append, List.length_map, oka.rows] at i2 ⊢
        omega
      · rw [List.zip_append (by simp [oka.rows])]
        intro x hx
        rcases List.mem_append.mp hx with hx | hx
        · rw [List.zip_map, zip_map_self] at hx
          obtain ⟨⟨p, q⟩, hpq, rfl⟩ := List.mem_map.mp hx
          have hp : p.length = a.width := oka.posW _ (List.of_mem_zip hpq).1
          have hq : q.length = a.width := oka.maskW _ (List.of_mem_zip hpq).2
          have := hw' a (by simp)
          simp only [catRowOK, Prod.map, writePrefix_replicate, hp, hq, beq_self_eq_true, Bool.true_and,
            List.length_append, List.length_replicate, Bool.and_eq_true, beq_iff_eq]
          omega
        · exact i3 x hx
  obtain ⟨z1, z2, z3⟩ := hz bufs hok hwle
  exact ⟨⟨z1, z2⟩, z3⟩


end BatchLemmas
end Tak

/-
  `Gen.slides n` is exactly the set of non-empty sequences of positive drop counts with total
  at most `n`, each listed once.  Plus two generic facts about `flatMap` used for the tables.
-/
import TakVerif.Model.Gen

namespace Tak
namespace Gen

/-- a `flatMap` over a duplicate-free list whose blocks are duplicate-free and whose elements
    remember the block they came from has no duplicates -/
theorem nodup_flatMap_of_key {α β : Type} (l : List α) (f : α → List β) (key : β → α)
    (hl : l.Nodup) (hf : ∀ a ∈ l, (f a).Nodup) (hk : ∀ a ∈ l, ∀ b ∈ f a, key b = a) :
    (l.flatMap f).Nodup := by
  unfold List.Nodup
  rw [List.pairwise_flatMap]
  refine ⟨hf, ?_⟩
  refine List.Pairwise.imp_of_mem ?_ hl
  intro a1 a2 h1 h2 hne x hx y hy hxy
  apply hne
  rw [← hk _ h1 x hx, ← hk _ h2 y hy, hxy]

theorem nodup_map_of_inj {α β : Type} (l : List α) (f : α → β) (hl : l.Nodup)
    (hf : ∀ a b, f a = f b → a = b) : (l.map f).Nodup := by
  unfold List.Nodup
  rw [List.pairwise_map]
  exact List.Pairwise.imp (fun h e => h (hf _ _ e)) hl

theorem slides_zero : slides 0 = [] := by rw [slides]

theorem slides_succ (n : Nat) :
    slides (n + 1) = (List.range (n + 1)).flatMap fun j =>
      [j + 1] :: (slides (n + 1 - (j + 1))).map fun inner => (j + 1) :: inner := by
  rw [slides]

theorem sum_pos_of_ne_nil : ∀ (l : List Nat), l ≠ [] → (∀ d ∈ l, 1 ≤ d) → 1 ≤ l.sum
  | [], h, _ => absurd rfl h
  | d :: t, _, hp => by
    have := hp d (by simp)
    simp only [List.sum_cons]; omega

theorem length_le_sum : ∀ (l : List Nat), (∀ d ∈ l, 1 ≤ d) → l.length ≤ l.sum
  | [], _ => by simp
  | d :: t, hp => by
    have h1 := hp d (by simp)
    have h2 := length_le_sum t (fun e he => hp e (by simp [he]))
    simp only [List.length_cons, List.sum_cons]; omega

theorem slides_mem (n : Nat) (l : List Nat) :
    l ∈ slides n ↔ l ≠ [] ∧ (∀ d ∈ l, 1 ≤ d) ∧ l.sum ≤ n := by
  induction n using Nat.strongRecOn generalizing l with
  | _ n ih =>
    cases n with
    | zero =>
      rw [slides_zero]
      constructor
      · intro h; cases h
      · rintro ⟨hne, hp, hs⟩
        have := sum_pos_of_ne_nil l hne hp
        omega
    | succ n =>
      rw [slides_succ]
      simp only [List.mem_flatMap, List.mem_range, List.mem_cons, List.mem_map]
      constructor
      · rintro ⟨j, hj, rfl | ⟨inner, hin, rfl⟩⟩
        · refine ⟨by simp, ?_, ?_⟩
          · intro d hd; simp at hd; omega
          · simp; omega
        · obtain ⟨_, hp, hs⟩ := (ih (n + 1 - (j + 1)) (by omega) inner).1 hin
          refine ⟨by simp, ?_, ?_⟩
          · intro d hd
            simp only [List.mem_cons] at hd
            rcases hd with rfl | hd
            · omega
            · exact hp d hd
          · simp only [List.sum_cons]; omega
      · rintro ⟨hne, hp, hs⟩
        match l, hne with
        | d :: t, _ =>
          have hd := hp d (by simp)
          simp only [List.sum_cons] at hs
          refine ⟨d - 1, by omega, ?_⟩
          have e : d - 1 + 1 = d := by omega
          rw [e]
          by_cases ht : t = []
          · left; rw [ht]
          · right
            refine ⟨t, ?_, rfl⟩
            apply (ih (n + 1 - d) (by omega) t).2
            exact ⟨ht, fun e he => hp e (by simp [he]), by omega⟩

theorem nil_not_mem_slides (n : Nat) : [] ∉ slides n := fun h => ((slides_mem n []).1 h).1 rfl

theorem slides_nodup (n : Nat) : (slides n).Nodup := by
  induction n using Nat.strongRecOn with
  | _ n ih =>
    cases n with
    | zero => rw [slides_zero]; exact List.nodup_nil
    | succ n =>
      rw [slides_succ]
      apply nodup_flatMap_of_key _ _ (fun l => l.headD 0 - 1) List.nodup_range
      · intro j hj
        rw [List.mem_range] at hj
        rw [List.nodup_cons]
        constructor
        · intro h
          rw [List.mem_map] at h
          obtain ⟨inner, hin, he⟩ := h
          have : inner = [] := by simpa using he
          exact nil_not_mem_slides _ (this ▸ hin)
        · apply nodup_map_of_inj _ _ (ih _ (by omega))
          intro a b h
          simpa using h
      · intro j _ b hb
        simp only [List.mem_cons, List.mem_map] at hb
        rcases hb with rfl | ⟨inner, _, rfl⟩ <;> simp

end Gen
end Tak

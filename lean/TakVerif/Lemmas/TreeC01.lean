/-
  The hypothesis `C01Hyp` of the search-tree lemmas is C01's refinement theorem.
-/
import TakVerif.Lemmas.TreeProps
import TakVerif.Props.C01

namespace Tak
namespace Tree

theorem c01Hyp : C01Hyp := fun p m hwf => Tak.C01.C01_move_refines_rules p m hwf

end Tree
end Tak

/-
  Board API lemmas: the only place where the non-linear index arithmetic `x + y*n` is
  unfolded.  Everything above goes through `sq`, `setAt`, `board_ext`, `idx_inj`.
-/
import TakVerif.Model.Core
import TakVerif.Spec.Rules

namespace Tak

theorem idx_lt {n x y : Nat} (hx : x < n) (hy : y < n) : x + y * n < n * n := by
  have : y * n + n ≤ n * n := by
    have h : (y + 1) * n ≤ n * n := Nat.mul_le_mul_right n hy
    rw [Nat.add_mul, Nat.one_mul] at h
    exact h
  omega

theorem idx_mod {n x : Nat} (y : Nat) (hx : x < n) : (x + y * n) % n = x := by
  rw [Nat.add_mul_mod_self_right]; exact Nat.mod_eq_of_lt hx

theorem idx_div {n x : Nat} (y : Nat) (hx : x < n) : (x + y * n) / n = y := by
  have hn : 0 < n := by omega
  rw [Nat.add_mul_div_right _ _ hn, Nat.div_eq_of_lt hx]; omega

theorem idx_inj {n x y x' y' : Nat} (hx : x < n) (hx' : x' < n)
    (h : x + y * n = x' + y' * n) : x = x' ∧ y = y' := by
  have h1 := idx_mod y hx
  have h2 := idx_mod y' hx'
  have h3 := idx_div y hx
  have h4 := idx_div y' hx'
  rw [h] at h1 h3
  exact ⟨by omega, by omega⟩

/-- every flat index below `n*n` is the index of exactly one in-bounds square -/
theorem idx_decomp {n i : Nat} (hi : i < n * n) : i % n < n ∧ i / n < n ∧ i % n + i / n * n = i := by
  have hn : 0 < n := by
    rcases Nat.eq_zero_or_pos n with h | h
    · subst h; simp at hi
    · exact h
  refine ⟨Nat.mod_lt _ hn, ?_, ?_⟩
  · exact Nat.div_lt_of_lt_mul hi
  · have := Nat.mod_add_div i n
    rw [Nat.mul_comm] at this
    exact this

namespace Pos

theorem sq_eq_getD (p : Pos) (x y : Nat) : p.sq x y = p.board.getD (x + y * p.size) [] := rfl

/-- reading a board after one square has been overwritten -/
theorem getD_set_idx {n : Nat} (b : List Stack) (hb : b.length = n * n) {x y x' y' : Nat}
    (hx : x < n) (hy : y < n) (hx' : x' < n) (_hy' : y' < n) (s : Stack) :
    (b.set (x + y * n) s).getD (x' + y' * n) [] =
      if x' = x ∧ y' = y then s else b.getD (x' + y' * n) [] := by
  by_cases h : x' = x ∧ y' = y
  · obtain ⟨rfl, rfl⟩ := h
    have : x' + y' * n < b.length := hb ▸ idx_lt hx hy
    simp [List.getD_eq_getElem?_getD, List.getElem?_set, this]
  · have hne : x + y * n ≠ x' + y' * n := by
      intro e
      have := idx_inj hx hx' e
      exact h ⟨this.1.symm, this.2.symm⟩
    simp [List.getD_eq_getElem?_getD, List.getElem?_set, hne, h]

theorem sq_setAt (p : Pos) (hwf : p.WF) {x y x' y' : Nat}
    (hx : x < p.size) (hy : y < p.size) (hx' : x' < p.size) (hy' : y' < p.size) (s : Stack) :
    (p.setAt x y s).sq x' y' = if x' = x ∧ y' = y then s else p.sq x' y' := by
  unfold setAt sq idx
  exact getD_set_idx p.board hwf.2 hx hy hx' hy' s

/-- two `n × n` boards that agree on every in-bounds square are equal -/
theorem board_ext {n : Nat} (b c : List Stack) (hb : b.length = n * n) (hc : c.length = n * n)
    (h : ∀ x y, x < n → y < n → b.getD (x + y * n) [] = c.getD (x + y * n) []) : b = c := by
  apply List.ext_getElem (by omega)
  intro i h1 h2
  have hi : i < n * n := by omega
  obtain ⟨hx, hy, he⟩ := idx_decomp hi
  have := h (i % n) (i / n) hx hy
  rw [he] at this
  simpa [List.getD_eq_getElem?_getD, h1, h2] using this

end Pos

namespace Rules

@[simp] theorem length_boardOf (n : Nat) (f : Nat → Nat → Stack) : (boardOf n f).length = n * n := by
  simp [boardOf]

theorem getD_boardOf {n : Nat} (f : Nat → Nat → Stack) {x y : Nat} (hx : x < n) (hy : y < n) :
    (boardOf n f).getD (x + y * n) [] = f x y := by
  have hi := idx_lt hx hy
  simp [boardOf, List.getD_eq_getElem?_getD, hi, idx_mod y hx, idx_div y hx]

end Rules
end Tak

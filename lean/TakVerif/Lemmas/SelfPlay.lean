/-
  Helper lemmas for property C11: how the accessors of the specification behave on a log
  built by `Transcript.push`, the one-step lemmas (`GameOK` of an empty log, of a log ending
  in a resignation, and `GameOK` of `push p a rest` from `GameOK` of `rest`), and the value
  bound.  The induction over the loop is in Lemmas/SelfPlayLoop.lean.
-/
import TakVerif.Model.SelfPlay
import TakVerif.Spec.TranscriptOK
import TakVerif.Lemmas.SelfPlayMove

namespace Tak
namespace SelfPlay

open Transcript Trace

theorem legal_of_ok (h01 : MoveRefinesRules) {p q : Pos} {m : Move} (hwf : p.WF)
    (h : Impl.move p m = .ok q) : Rules.Legal p m ∧ q = Rules.result p m := by
  rw [h01 p m hwf] at h
  split at h
  · rename_i hl
    refine ⟨hl, ?_⟩
    cases h
    rfl
  · cases h

/-! ### accessors on `empty` and `push` -/

section accessors
variable (p : Pos) (a : Answer) (t : Transcript) (r : Option Color) (i : Nat)

@[simp] theorem len_empty : (Transcript.empty r).len = 0 := rfl
@[simp] theorem result_empty : (Transcript.empty r).result = r := rfl
@[simp] theorem results_empty : (Transcript.empty r).results = [] := by
  cases r <;> rfl
@[simp] theorem moves_empty : (Transcript.empty r).moves = [] := rfl
@[simp] theorem probs_empty : (Transcript.empty r).probs = [] := rfl
@[simp] theorem values_empty : (Transcript.empty r).values = [] := rfl
@[simp] theorem positions_empty : (Transcript.empty r).positions = [] := rfl

@[simp] theorem len_push : (t.push p a).len = t.len + 1 := by
  simp [Transcript.len, Transcript.push]
@[simp] theorem result_push : (t.push p a).result = t.result := rfl
@[simp] theorem positions_push : (t.push p a).positions = p :: t.positions := rfl
@[simp] theorem moves_push : (t.push p a).moves = a.children.map (·.1) :: t.moves := rfl
@[simp] theorem probs_push : (t.push p a).probs = a.probs :: t.probs := rfl
@[simp] theorem values_push : (t.push p a).values = a.value / (a.sims : Rat) :: t.values := rfl

@[simp] theorem pos_push_zero : (t.push p a).pos 0 = p := rfl
@[simp] theorem pos_push_succ : (t.push p a).pos (i + 1) = t.pos i := rfl
@[simp] theorem cands_push_zero : (t.push p a).cands 0 = a.children.map (·.1) := rfl
@[simp] theorem cands_push_succ : (t.push p a).cands (i + 1) = t.cands i := rfl
@[simp] theorem dist_push_zero : (t.push p a).dist 0 = a.probs := rfl
@[simp] theorem dist_push_succ : (t.push p a).dist (i + 1) = t.dist i := rfl
@[simp] theorem value_push_zero : (t.push p a).value 0 = a.value / (a.sims : Rat) := rfl
@[simp] theorem value_push_succ : (t.push p a).value (i + 1) = t.value i := rfl

theorem results_length : t.results.length = t.len := by
  unfold Transcript.results Transcript.len
  cases t.result <;> simp

theorem results_push : (t.push p a).results = labelFor t.result p :: t.results := by
  unfold Transcript.results labelFor
  cases h : t.result <;> simp [h, List.replicate_succ]

end accessors

/-! ### the trace of a stream -/

section trace
variable (oracle : Nat → Answer) (n i : Nat)

@[simp] theorem traceOf_v0s_length : (traceOf oracle n).v0s.length = n := by
  induction n generalizing oracle with
  | zero => rfl
  | succ n ih => simp [traceOf, ih]

@[simp] theorem traceOf_chosen_length : (traceOf oracle n).chosen.length = n := by
  induction n generalizing oracle with
  | zero => rfl
  | succ n ih => simp [traceOf, ih]

@[simp] theorem v0_traceOf_zero : (traceOf oracle (n + 1)).v0 0 = (oracle 0).v0 := rfl
@[simp] theorem v0_traceOf_succ : (traceOf oracle (n + 1)).v0 (i + 1) = (traceOf (tail oracle) n).v0 i := rfl
@[simp] theorem choice_traceOf_zero : (traceOf oracle (n + 1)).choice 0 = (oracle 0).chosen := rfl
@[simp] theorem choice_traceOf_succ :
    (traceOf oracle (n + 1)).choice (i + 1) = (traceOf (tail oracle) n).choice i := rfl

/-- the trace holds the stream's own entries -/
theorem v0_traceOf (h : i < n) : (traceOf oracle n).v0 i = (oracle i).v0 := by
  induction n generalizing oracle i with
  | zero => omega
  | succ n ih =>
    cases i with
    | zero => rfl
    | succ i => rw [v0_traceOf_succ, ih _ _ (by omega)]; rfl

theorem choice_traceOf (h : i < n) : (traceOf oracle n).choice i = (oracle i).chosen := by
  induction n generalizing oracle i with
  | zero => omega
  | succ n ih =>
    cases i with
    | zero => rfl
    | succ i => rw [choice_traceOf_succ, ih _ _ (by omega)]; rfl

end trace

section step
variable (cfg : SelfPlayConfig) (oracle : Nat → Answer) (p : Pos) (t : Transcript) (n i : Nat)

@[simp] theorem played_push_succ :
    played (t.push p (oracle 0)) (traceOf oracle (n + 1)) (i + 1) = played t (traceOf (tail oracle) n) i := rfl

@[simp] theorem successor_push_succ :
    successor (t.push p (oracle 0)) (traceOf oracle (n + 1)) (i + 1)
      = successor t (traceOf (tail oracle) n) i := rfl

@[simp] theorem resignsAt_zero :
    ResignsAt cfg (traceOf oracle (n + 1)) 0 ↔ cfg.threshold ≤ (oracle 0).v0.abs := Iff.rfl

@[simp] theorem resignsAt_succ :
    ResignsAt cfg (traceOf oracle (n + 1)) (i + 1) ↔ ResignsAt cfg (traceOf (tail oracle) n) i := Iff.rfl

end step

/-! ### what one OK answer contributes -/

theorem value_bound {a : Answer} (h1 : 1 ≤ a.sims) (h2 : -(a.sims : Rat) ≤ a.value)
    (h3 : a.value ≤ (a.sims : Rat)) :
    -1 ≤ a.value / (a.sims : Rat) ∧ a.value / (a.sims : Rat) ≤ 1 := by
  generalize a.value = v at *
  generalize a.sims = s at *
  have hs : (0 : Rat) < s := by exact_mod_cast (by omega : 0 < s)
  have hne : (s : Rat) ≠ 0 := by grind
  have e : v = (v / s) * s := by grind
  constructor
  · apply Classical.byContradiction
    intro h
    have : (v / s) * s < (-1) * s := Rat.mul_lt_mul_of_pos_right (by grind) hs
    grind
  · apply Classical.byContradiction
    intro h
    have : 1 * (s : Rat) < (v / s) * s := Rat.mul_lt_mul_of_pos_right (by grind) hs
    grind

theorem child_of_getElem? {a : Answer} {c : Move × Pos} (h : a.children[a.chosen]? = some c) :
    c ∈ a.children ∧ a.chosen < a.children.length ∧
      (a.children.map (·.1)).getD a.chosen default = c.1 := by
  have hm := List.mem_of_getElem? h
  have hl : a.chosen < a.children.length := by
    rcases List.getElem?_eq_some_iff.1 h with ⟨hl, _⟩
    exact hl
  refine ⟨hm, hl, ?_⟩
  simp [List.getD_eq_getElem?_getD, h]

theorem cands_legal (h01 : MoveRefinesRules) {eps : Rat} {p : Pos} {a : Answer} (hwf : p.WF)
    (ha : AnswerOK eps p a) : ∀ m ∈ a.children.map (·.1), Rules.Legal p m := by
  intro m hm
  rcases List.mem_map.1 hm with ⟨c, hc, rfl⟩
  exact (legal_of_ok h01 hwf (ha.children c hc)).1

/-! ### `GameOK` of the three ways a log is built -/

section build
variable {cfg : SelfPlayConfig} {eps : Rat} {outcome : Pos → Option (Option Color)}

/-- the loop is left at once because the position is past the ply limit -/
theorem gameOK_cutoff {p : Pos} (oracle : Nat → Answer) (h : cfg.plyLimit < p.ply) :
    GameOK p cfg eps outcome (Transcript.empty none) (traceOf oracle 0) (Transcript.empty none).results where
  aligned := ⟨rfl, rfl, rfl, rfl, rfl, by simp⟩
  lined := by intro i hi; simp at hi
  start := by intro hi; simp at hi
  legal := by intro i hi; simp at hi
  chain := by intro i hi; simp at hi
  distribution := by intro i hi; simp at hi
  valueRange := by intro i hi; simp at hi
  live := by intro i hi; simp at hi
  noEarlyResignation := by intro i hi; simp at hi
  ending := by
    unfold EndOK
    have hn : ¬ EndsByResignation cfg (Transcript.empty none) (traceOf oracle 0) := by
      intro h; exact absurd h.1 (by simp)
    rw [if_neg hn]
    refine ⟨by simp, ?_⟩
    simp [finalPos, h]
  labelled := by intro i hi; simp at hi

/-- the loop is left at once because the game is over by the rules -/
theorem gameOK_decided {p : Pos} (oracle : Nat → Answer) {w : Option Color}
    (h : ¬ cfg.plyLimit < p.ply) (hw : outcome p = some w) :
    GameOK p cfg eps outcome (Transcript.empty w) (traceOf oracle 0) (Transcript.empty w).results where
  aligned := ⟨rfl, rfl, rfl, rfl, rfl, by simp⟩
  lined := by intro i hi; simp at hi
  start := by intro hi; simp at hi
  legal := by intro i hi; simp at hi
  chain := by intro i hi; simp at hi
  distribution := by intro i hi; simp at hi
  valueRange := by intro i hi; simp at hi
  live := by intro i hi; simp at hi
  noEarlyResignation := by intro i hi; simp at hi
  ending := by
    unfold EndOK
    have hn : ¬ EndsByResignation cfg (Transcript.empty w) (traceOf oracle 0) := by
      intro h; exact absurd h.1 (by simp)
    rw [if_neg hn]
    refine ⟨by simp, ?_⟩
    simp [finalPos, h, hw]
  labelled := by intro i hi; simp at hi

/-- the engine resigns at the first position of the (rest of the) game -/
theorem gameOK_resigned (h01 : MoveRefinesRules) {p : Pos} (oracle : Nat → Answer) (hwf : p.WF)
    (ha : AnswerOK eps p (oracle 0))
    (hply : ¬ cfg.plyLimit < p.ply) (hlive : outcome p = none)
    (hres : cfg.threshold ≤ (oracle 0).v0.abs) :
    let r : Color := if cfg.threshold ≤ (oracle 0).v0 then p.toMove else p.toMove.flip
    GameOK p cfg eps outcome ((Transcript.empty (some r)).push p (oracle 0)) (traceOf oracle 1)
      ((Transcript.empty (some r)).push p (oracle 0)).results := by
  intro r
  have hlt : ∀ i, i < ((Transcript.empty (some r)).push p (oracle 0)).len → i = 0 := by
    intro i hi; simp at hi; omega
  refine
    { aligned := ⟨by simp, by simp, by simp, by simp, by simp, by simp [results_length]⟩
      lined := ?_, start := ?_, legal := ?_, chain := ?_, distribution := ?_, valueRange := ?_,
      live := ?_, noEarlyResignation := ?_, ending := ?_, labelled := ?_ }
  · intro i hi; obtain rfl := hlt i hi; simpa using ha.lined
  · intro _; rfl
  · intro i hi; obtain rfl := hlt i hi; exact cands_legal h01 hwf ha
  · intro i hi; simp at hi
  · intro i hi; obtain rfl := hlt i hi; exact ha.dist
  · intro i hi; obtain rfl := hlt i hi; exact value_bound ha.sims ha.valueLo ha.valueHi
  · intro i hi; obtain rfl := hlt i hi; exact ⟨by simpa using hply, hlive⟩
  · intro i hi; simp at hi
  · unfold EndOK
    have hy : EndsByResignation cfg ((Transcript.empty (some r)).push p (oracle 0)) (traceOf oracle 1) :=
      ⟨by simp, by simpa using hres⟩
    rw [if_pos hy]
    rfl
  · intro i hi; obtain rfl := hlt i hi
    simp [results_push]

/-- one more ply in front of a game that is OK from the position the played move leads to -/
theorem gameOK_push (h01 : MoveRefinesRules) {p : Pos} (oracle : Nat → Answer) (hwf : p.WF)
    {t : Transcript} {c : Move × Pos}
    (ha : AnswerOK eps p (oracle 0))
    (hply : ¬ cfg.plyLimit < p.ply) (hlive : outcome p = none)
    (hres : ¬ cfg.threshold ≤ (oracle 0).v0.abs)
    (hc : (oracle 0).children[(oracle 0).chosen]? = some c)
    (ih : GameOK c.2 cfg eps outcome t (traceOf (tail oracle) t.len) t.results) :
    GameOK p cfg eps outcome (t.push p (oracle 0)) (traceOf oracle (t.len + 1))
      (t.push p (oracle 0)).results := by
  obtain ⟨hcm, hcl, hcg⟩ := child_of_getElem? hc
  obtain ⟨-, hsucc⟩ := legal_of_ok h01 hwf (ha.children c hcm)
  have hplayed0 : played (t.push p (oracle 0)) (traceOf oracle (t.len + 1)) 0 = c.1 := by
    unfold played
    simpa using hcg
  have hsucc0 : successor (t.push p (oracle 0)) (traceOf oracle (t.len + 1)) 0 = c.2 := by
    unfold successor
    rw [hplayed0, hsucc]
    rfl
  refine
    { aligned := ?_, lined := ?_, start := ?_, legal := ?_, chain := ?_, distribution := ?_,
      valueRange := ?_, live := ?_, noEarlyResignation := ?_, ending := ?_, labelled := ?_ }
  · have := ih.aligned
    exact ⟨by simp [this.moves], by simp [this.probs], by simp [this.values], by simp, by simp,
      by simp [results_length]⟩
  · intro i hi
    cases i with
    | zero => simpa using ha.lined
    | succ j => simpa using ih.lined j (by simpa using hi)
  · intro _; rfl
  · intro i hi
    cases i with
    | zero => exact cands_legal h01 hwf ha
    | succ j => simpa using ih.legal j (by simpa using hi)
  · intro i hi
    cases i with
    | zero =>
      refine ⟨by simpa using hcl, ?_⟩
      rw [hsucc0]
      have h0 : 0 < t.len := by simp at hi; omega
      simpa using ih.start h0
    | succ j =>
      have := ih.chain j (by simp at hi; omega)
      simpa using this
  · intro i hi
    cases i with
    | zero => exact ha.dist
    | succ j => simpa using ih.distribution j (by simpa using hi)
  · intro i hi
    cases i with
    | zero => exact value_bound ha.sims ha.valueLo ha.valueHi
    | succ j => simpa using ih.valueRange j (by simpa using hi)
  · intro i hi
    cases i with
    | zero => exact ⟨by simpa using hply, hlive⟩
    | succ j => simpa using ih.live j (by simpa using hi)
  · intro i hi
    cases i with
    | zero => simpa using hres
    | succ j =>
      have := ih.noEarlyResignation j (by simp at hi; omega)
      simpa using this
  · -- the ending
    have hend := ih.ending
    unfold EndOK at hend ⊢
    cases hn : t.len with
    | zero =>
      -- the rest is empty: play stopped at `c.2`
      have hno : ¬ EndsByResignation cfg (t.push p (oracle 0)) (traceOf oracle (0 + 1)) := by
        intro h
        have := h.2
        simp [hn] at this
        exact hres this
      have hno' : ¬ EndsByResignation cfg t (traceOf (tail oracle) 0) := by
        intro h; have := h.1; omega
      rw [hn] at hend
      rw [if_neg hno]
      rw [if_neg hno'] at hend
      refine ⟨fun _ => by simpa [hn] using hcl, ?_⟩
      have hf : finalPos p (t.push p (oracle 0)) (traceOf oracle (0 + 1)) = c.2 := by
        unfold finalPos
        rw [if_neg (by simp)]
        have := hsucc0
        rw [hn] at this
        simpa [hn] using this
      have hf' : finalPos c.2 t (traceOf (tail oracle) 0) = c.2 := by
        unfold finalPos
        rw [if_pos hn]
      rw [hf]
      rw [hf'] at hend
      simpa using hend.2
    | succ k =>
      rw [hn] at hend
      have hiff : EndsByResignation cfg (t.push p (oracle 0)) (traceOf oracle (k + 1 + 1)) ↔
          EndsByResignation cfg t (traceOf (tail oracle) (k + 1)) := by
        unfold EndsByResignation
        simp [hn]
      have hf : finalPos p (t.push p (oracle 0)) (traceOf oracle (k + 1 + 1)) =
          finalPos c.2 t (traceOf (tail oracle) (k + 1)) := by
        unfold finalPos
        rw [if_neg (by simp), if_neg (by omega)]
        simp [hn]
      by_cases hr : EndsByResignation cfg t (traceOf (tail oracle) (k + 1))
      · rw [if_pos (hiff.2 hr)]
        rw [if_pos hr] at hend
        simpa [hn] using hend
      · rw [if_neg (fun h => hr (hiff.1 h))]
        rw [if_neg hr] at hend
        rw [hf]
        refine ⟨fun _ => ?_, by simpa using hend.2⟩
        have := hend.1 (by omega)
        simpa [hn] using this
  · intro i hi
    rw [results_push]
    cases i with
    | zero => simp
    | succ j => simpa using ih.labelled j (by simpa using hi)

end build

end SelfPlay
end Tak

/-
  C10 over `ℝ`: the sum `g` is continuous on the bracket, so (intermediate value theorem)
  the root that the bisection approximates exists.
-/
import Mathlib.Topology.Order.IntermediateValue
import Mathlib.Topology.Algebra.Order.Field
import Mathlib.Topology.Instances.Real.Lemmas
import TakVerif.Lemmas.Solver

namespace Tak.Solver

theorem g_continuousOn {lam : ℝ} {ps : List (ℝ × ℝ)} {lo hi : ℝ} (habove : ∀ x ∈ ps, x.2 < lo) :
    ContinuousOn (fun a => g lam ps a) (Set.Icc lo hi) := by
  induction ps with
  | nil => simp only [g_nil]; exact continuousOn_const
  | cons x ps ih =>
    simp only [g_cons]
    apply ContinuousOn.add
    · apply ContinuousOn.div continuousOn_const (continuousOn_id.sub continuousOn_const)
      intro a ha
      have h1 := habove x List.mem_cons_self
      have h2 := ha.1
      intro h0
      have : a - x.2 = 0 := h0
      linarith
    · exact ih (fun y hy => habove y (List.mem_cons_of_mem _ hy))

end Tak.Solver

/-
  Facts about `Impl.move` that the self-play proofs need, proved directly from
  Model/Move.lean (no appeal to C01): an accepted move advances the ply by exactly one.
  And facts about `Rules.result` (size, board length, ply).
-/
import TakVerif.Model.Move
import TakVerif.Spec.Rules
import TakVerif.Lemmas.Board

namespace Tak
namespace SelfPlay

theorem of_ite_err {α ε : Type} {c : Prop} [Decidable c] {e : ε} {t : Except ε α} {q : α}
    (h : (if c then Except.error e else t) = Except.ok q) : t = Except.ok q := by
  split at h
  · cases h
  · exact h

theorem movePlace_ply {p q : Pos} {m : Move} (h : Impl.movePlace p m = .ok q) : q.ply = p.ply + 1 := by
  unfold Impl.movePlace at h
  replace h := of_ite_err (of_ite_err h)
  dsimp only at h
  replace h := of_ite_err h
  cases h
  rfl

theorem moveSlide_ply {p q : Pos} {m : Move} (h : Impl.moveSlide p m = .ok q) : q.ply = p.ply + 1 := by
  unfold Impl.moveSlide at h
  replace h := of_ite_err h
  split at h
  · cases h
  · replace h := of_ite_err h
    dsimp only at h
    replace h := of_ite_err (of_ite_err h)
    split at h
    · cases h
    · replace h := of_ite_err h
      split at h
      · cases h
      · cases h
        rfl
/-- an accepted move advances the ply by exactly one -/
theorem move_ok_ply {p q : Pos} {m : Move} (h : Impl.move p m = .ok q) : q.ply = p.ply + 1 := by
  unfold Impl.move at h
  split at h
  · cases h
  · split at h
    · exact moveSlide_ply h
    · exact movePlace_ply h

@[simp] theorem result_ply (p : Pos) (m : Move) : (Rules.result p m).ply = p.ply + 1 := by
  unfold Rules.result
  split <;> rfl

@[simp] theorem takeReserve_size (p : Pos) (c : Color) (k : Kind) : (Rules.takeReserve p c k).size = p.size := by
  unfold Rules.takeReserve
  split <;> rfl

@[simp] theorem result_size (p : Pos) (m : Move) : (Rules.result p m).size = p.size := by
  unfold Rules.result
  split
  · simp
  · rfl

@[simp] theorem result_board_length (p : Pos) (m : Move) :
    (Rules.result p m).board.length = p.size * p.size := by
  unfold Rules.result
  split <;> simp

theorem result_WF {p : Pos} (h : p.WF) (m : Move) : (Rules.result p m).WF := by
  unfold Pos.WF at *
  simp [h.1]

theorem initial_WF {n : Nat} (h : 1 ≤ n) : (Pos.fromConfig (Config.standard n)).WF := by
  unfold Pos.WF Pos.fromConfig Config.standard
  simp [h]

end SelfPlay
end Tak
